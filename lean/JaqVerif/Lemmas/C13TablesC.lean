/- C13 table facts, part C (see C13Tables0.lean). -/
import JaqVerif.Lemmas.C13Tables0

namespace Jaq.C13

/-- `@tsv`: tab, LF, CR, backslash, NUL become `\t \n \r \\ \0`, every other byte is copied -/
def tsvEntryOk (b : UInt8) : Bool :=
  if b == 9 then tsvEsc b == [92, 116]
  else if b == 10 then tsvEsc b == [92, 110]
  else if b == 13 then tsvEsc b == [92, 114]
  else if b == 92 then tsvEsc b == [92, 92]
  else if b == 0 then tsvEsc b == [92, 48]
  else tsvEsc b == [b]

theorem tsvEntry_ok : ∀ i : Fin 256, tsvEntryOk (UInt8.ofNat i.val) = true := by decide +kernel

/-- `@json` strings: the entry is quoted; inside, an RFC 8259 reader's step maps it back to the byte
and it contains neither a raw quote, nor a raw control character, nor a lone backslash -/
def jsonEntryOk (b : UInt8) : Bool :=
  tabGet Gen.jsonQ b == 34 :: jsonEsc b ++ [34] &&
  jsonEsc b != [] &&
  jsonUnescStep (jsonEsc b) == ([b], (jsonEsc b).length) &&
  (if jsonEsc b == [b] then b != 34 && b != 92 && 32 ≤ b.toNat
   else (jsonEsc b).head? == some 92 && 2 ≤ (jsonEsc b).length &&
        ((jsonEsc b).drop 2).all fun c => c != 34 && c != 92 && 32 ≤ c.toNat && c.toNat < 128)

theorem jsonEntry_ok : ∀ i : Fin 256, jsonEntryOk (UInt8.ofNat i.val) = true := by decide +kernel

end Jaq.C13
