import JaqVerif.C07.Read
namespace Jaq.C07

/-! ## decimal digits -/

theorem isDigit_digitByte (d : Nat) (h : d < 10) : isDigit (digitByte d) = true := by
  have : ∀ d : Fin 10, isDigit (digitByte d.val) = true := by decide
  exact this ⟨d, h⟩

theorem digitByte_val (d : Nat) (h : d < 10) : (digitByte d).toNat - 48 = d := by
  have : ∀ d : Fin 10, (digitByte d.val).toNat - 48 = d.val := by decide
  exact this ⟨d, h⟩

theorem natDigits_lt (n : Nat) (h : n < 10) : natDigits n = [digitByte n] := by
  rw [natDigits]; simp [h]

theorem natDigits_ge (n : Nat) (h : ¬ n < 10) : natDigits n = natDigits (n / 10) ++ [digitByte (n % 10)] := by
  rw [natDigits]; simp [h]

theorem natDigits_all_digit (n : Nat) : ∀ c ∈ natDigits n, isDigit c = true := by
  induction n using Nat.strongRecOn with
  | _ n ih =>
    by_cases h : n < 10
    · rw [natDigits_lt n h]; intro c hc; simp at hc; subst hc; exact isDigit_digitByte n h
    · rw [natDigits_ge n h]; intro c hc
      simp only [List.mem_append, List.mem_singleton] at hc
      cases hc with
      | inl hc => exact ih (n / 10) (by omega) c hc
      | inr hc => subst hc; exact isDigit_digitByte _ (by omega)

theorem natDigits_ne_nil (n : Nat) : natDigits n ≠ [] := by
  by_cases h : n < 10
  · rw [natDigits_lt n h]; simp
  · rw [natDigits_ge n h]; simp

theorem digitsVal_append (a : Bytes) (c : UInt8) : digitsVal (a ++ [c]) = 10 * digitsVal a + (c.toNat - 48) := by
  simp [digitsVal, List.foldl_append]

theorem digitsVal_natDigits (n : Nat) : digitsVal (natDigits n) = n := by
  induction n using Nat.strongRecOn with
  | _ n ih =>
    by_cases h : n < 10
    · rw [natDigits_lt n h]; simp [digitsVal, digitByte_val n h]
    · rw [natDigits_ge n h, digitsVal_append, ih (n / 10) (by omega), digitByte_val _ (by omega)]; omega

/-- the leading digit of a positive number is not `0` -/
theorem natDigits_head (n : Nat) (hn : 0 < n) : ∃ c t, natDigits n = c :: t ∧ c ≠ 0x30 := by
  induction n using Nat.strongRecOn with
  | _ n ih =>
    by_cases h : n < 10
    · rw [natDigits_lt n h]
      refine ⟨_, _, rfl, ?_⟩
      have : ∀ d : Fin 10, 0 < d.val → digitByte d.val ≠ 0x30 := by decide
      exact this ⟨n, h⟩ hn
    · rw [natDigits_ge n h]
      obtain ⟨c, t, e, hc⟩ := ih (n / 10) (by omega) (by omega)
      exact ⟨c, t ++ [digitByte (n % 10)], by rw [e]; rfl, hc⟩

/-! ## the number lexer -/

/-- what may follow a number: nothing, or a byte that cannot continue a number ending in a digit -/
def NumStop (rest : Bytes) : Prop := ∀ c r, rest = c :: r → isDigit c = false ∧ c ≠ 0x2e ∧ isE c = false

theorem isDigit_ne (c : UInt8) (h : isDigit c = true) : c ≠ 0 ∧ c ≠ 0x2d ∧ c ≠ 0x2b ∧ c ≠ 0x2e ∧ isE c = false ∧ c ≠ 0x49 := by
  have : ∀ i : Fin 256, isDigit (UInt8.ofNat i.val) = true →
      UInt8.ofNat i.val ≠ 0 ∧ UInt8.ofNat i.val ≠ 0x2d ∧ UInt8.ofNat i.val ≠ 0x2b ∧ UInt8.ofNat i.val ≠ 0x2e ∧
      isE (UInt8.ofNat i.val) = false ∧ UInt8.ofNat i.val ≠ 0x49 := by decide +kernel
  have e : c = UInt8.ofNat c.toNat := by simp
  rw [e] at h ⊢
  exact this ⟨c.toNat, c.toNat_lt⟩ h

/-- after a digit, a byte that is no digit, dot or exponent mark ends the number -/
theorem numPart_stop (s : NumSt) (c : UInt8) (hr : isDigit s.read = true)
    (h1 : isDigit c = false) (h2 : c ≠ 0x2e) (h3 : isE c = false) : numPart s c = none := by
  obtain ⟨a0, a1, _, _, a4, _⟩ := isDigit_ne s.read hr
  have hc0 : (c == 0x30) = false := by
    cases h : c == 0x30 with
    | false => rfl
    | true => rw [beq_iff_eq] at h; subst h; simp [isDigit] at h1
  simp [numPart, a0, a1, h1, h2, h3, a4, hc0]

theorem numLex_append_whole : ∀ (t : Bytes) (s sf : NumSt), numLex s t = (t, [], sf) →
    ∀ rest, (∀ c r, rest = c :: r → numPart sf c = none) → numLex s (t ++ rest) = (t, rest, sf) := by
  intro t
  induction t with
  | nil =>
    intro s sf h rest hr
    simp only [numLex] at h
    cases h
    cases rest with
    | nil => rfl
    | cons c r => simp [numLex, hr c r rfl]
  | cons c t ih =>
    intro s sf h rest hr
    simp only [numLex, List.cons_append] at h ⊢
    cases hp : numPart s c with
    | none => simp [hp] at h
    | some s' =>
      simp only [hp] at h ⊢
      cases hl : numLex s' t with
      | mk t' x =>
        obtain ⟨rest', sf'⟩ := x
        simp only [hl] at h
        cases h
        rw [ih s' sf hl rest hr]

theorem numPart_read (s s' : NumSt) (c : UInt8) (h : numPart s c = some s') : s'.read = c := by
  unfold numPart at h
  split at h
  · cases h; rfl
  · split at h
    · cases h; rfl
    · split at h
      · cases h; rfl
      · split at h
        · cases h; rfl
        · split at h
          · cases h; rfl
          · split at h
            · cases h; rfl
            · cases h

theorem numLex_final_read : ∀ (t : Bytes) (s sf : NumSt), numLex s t = (t, [], sf) → ∀ c, t.getLast? = some c → sf.read = c := by
  intro t
  induction t with
  | nil => intro s sf _ c hc; simp at hc
  | cons a t ih =>
    intro s sf h c hc
    simp only [numLex] at h
    cases hp : numPart s a with
    | none => simp [hp] at h
    | some s' =>
      simp only [hp] at h
      cases hl : numLex s' t with
      | mk t' x =>
        obtain ⟨rest', sf'⟩ := x
        simp only [hl] at h
        cases h
        cases t with
        | nil =>
          simp only [numLex] at hl
          cases hl
          simp at hc
          subst hc
          exact numPart_read _ _ _ hp
        | cons b t => exact ih s' sf hl c (by simpa [List.getLast?_cons_cons] using hc)

/-- a run of digits in a state that accepts digits is consumed entirely -/
theorem numLex_digits : ∀ (ds : Bytes), (∀ c ∈ ds, isDigit c = true) → ∀ (s : NumSt),
    s.zero = false → s.read ≠ 0 → s.read ≠ 0x2d →
    ∃ sf, numLex s ds = (ds, [], sf) ∧ sf.zero = false ∧ sf.dot = s.dot ∧ sf.exp = s.exp ∧
      (ds = [] → sf = s) := by
  intro ds
  induction ds with
  | nil => intro _ s _ _ _; exact ⟨s, rfl, by assumption, rfl, rfl, fun _ => rfl⟩
  | cons c ds ih =>
    intro hall s hz h0 hm
    have hc : isDigit c = true := hall c (by simp)
    obtain ⟨c0, cm, _⟩ := isDigit_ne c hc
    have hp : numPart s c = some { s with read := c } := by
      simp [numPart, h0, hm, hc, hz]
    obtain ⟨sf, h1, h2, h3, h4, _⟩ := ih (fun x hx => hall x (by simp [hx])) { s with read := c } hz c0 cm
    refine ⟨sf, ?_, h2, h3, h4, by simp⟩
    simp only [numLex, hp, h1]


/-! ## `parse_num` -/

theorem not_sign_of_endsWithDigit (t : Bytes) (h : endsWithDigit t = true) :
    (t == [0x2b] || t == [0x2d]) = false := by
  by_cases h1 : t = [0x2b]
  · subst h1; simp [endsWithDigit, isDigit] at h
  · by_cases h2 : t = [0x2d]
    · subst h2; simp [endsWithDigit, isDigit] at h
    · simp [h1, h2]

theorem parseNum_of_lex (t rest : Bytes) (sf : NumSt) (hl : numLex NumSt.init (t ++ rest) = (t, rest, sf))
    (he : endsWithDigit t = true) :
    parseNum (t ++ rest) =
      some (if (!sf.dot && !sf.exp) = true then Num.ofInt (intOfText t) else .dec (stringOfBytes t), rest) := by
  simp only [parseNum, hl, not_sign_of_endsWithDigit t he, he]
  simp only [Bool.false_eq_true, if_false, if_true]
  split <;> rfl

/-- a text that the lexer consumes entirely, ending in a digit -/
structure Lexes (t : Bytes) (sf : NumSt) : Prop where
  whole : numLex NumSt.init t = (t, [], sf)
  digit : endsWithDigit t = true

theorem Lexes.parse {t : Bytes} {sf : NumSt} (h : Lexes t sf) (rest : Bytes) (hr : NumStop rest) :
    parseNum (t ++ rest) =
      some (if (!sf.dot && !sf.exp) = true then Num.ofInt (intOfText t) else .dec (stringOfBytes t), rest) := by
  apply parseNum_of_lex _ _ _ _ h.digit
  apply numLex_append_whole t _ sf h.whole
  intro c r e
  obtain ⟨h1, h2, h3⟩ := hr c r e
  have hd := h.digit
  unfold endsWithDigit at hd
  cases hl : t.getLast? with
  | none => simp [hl] at hd
  | some l =>
    simp only [hl] at hd
    have := numLex_final_read t _ sf h.whole l hl
    exact numPart_stop sf c (by rw [this]; exact hd) h1 h2 h3

theorem endsWithDigit_of_all (t : Bytes) (hne : t ≠ []) (h : ∀ c ∈ t, isDigit c = true) : endsWithDigit t = true := by
  unfold endsWithDigit
  cases hl : t.getLast? with
  | none => simp [List.getLast?_eq_none_iff] at hl; exact absurd hl hne
  | some l => exact h l (List.mem_of_getLast? hl)

theorem endsWithDigit_cons (a : UInt8) (t : Bytes) (hne : t ≠ []) : endsWithDigit (a :: t) = endsWithDigit t := by
  cases t with
  | nil => exact absurd rfl hne
  | cons b t => simp [endsWithDigit, List.getLast?_cons_cons]

theorem lexes_intText (i : Int) : ∃ sf, Lexes (intText i) sf ∧ sf.dot = false ∧ sf.exp = false := by
  unfold intText
  by_cases hi : i < 0
  · simp only [hi, if_true]
    have hpos : 0 < i.natAbs := by omega
    obtain ⟨c, t, e, hc⟩ := natDigits_head i.natAbs hpos
    have hall := natDigits_all_digit i.natAbs
    rw [e] at hall ⊢
    have hcd : isDigit c = true := hall c (by simp)
    obtain ⟨c0, cm, _⟩ := isDigit_ne c hcd
    have hc30 : (c == 0x30) = false := by simp [hc]
    have hp1 : numPart NumSt.init 0x2d = some { NumSt.init with read := 0x2d } := by decide
    have hp2 : numPart { NumSt.init with read := 0x2d } c = some { NumSt.init with read := c } := by
      simp [numPart, NumSt.init, hc30, hcd]
    obtain ⟨sf, h1, h2, h3, h4, _⟩ := numLex_digits t (fun x hx => hall x (by simp [hx]))
      { NumSt.init with read := c } rfl c0 cm
    refine ⟨sf, ⟨?_, ?_⟩, h3, h4⟩
    · simp only [numLex, hp1, hp2, h1]
    · rw [endsWithDigit_cons _ _ (by simp)]
      exact endsWithDigit_of_all _ (by simp) hall
  · simp only [hi, if_false]
    have hall := natDigits_all_digit i.natAbs
    obtain ⟨sf, h1, h2, h3, h4, _⟩ := numLex_digits _ hall NumSt.init rfl (by decide) (by decide)
    exact ⟨sf, ⟨h1, endsWithDigit_of_all _ (natDigits_ne_nil _) hall⟩, h3, h4⟩

theorem intOfText_intText (i : Int) : intOfText (intText i) = i := by
  unfold intText
  by_cases hi : i < 0
  · simp only [hi, if_true, intOfText]
    simp [digitsVal_natDigits]; omega
  · simp only [hi, if_false]
    have hall := natDigits_all_digit i.natAbs
    cases h : natDigits i.natAbs with
    | nil => exact absurd h (natDigits_ne_nil _)
    | cons c t =>
      rw [h] at hall
      obtain ⟨_, cm, cp, _⟩ := isDigit_ne c (hall c (by simp))
      simp only [intOfText, beq_iff_eq, cm, cp, if_false]
      rw [← h, digitsVal_natDigits]
      show ((i.natAbs : Nat) : Int) = i
      omega

/-- `NumText x t`: the text `t` starts like a number and, followed by anything that cannot continue
a number, is read as the number `x` -/
def NumText (x : Num) (t : Bytes) : Prop :=
  (∃ c r, t = c :: r ∧ (isDigit c || isSign c) = true) ∧
  ∀ rest, NumStop rest → parseNum (t ++ rest) = some (x, rest)

theorem intText_head (i : Int) : ∃ c r, intText i = c :: r ∧ (isDigit c || isSign c) = true := by
  unfold intText
  by_cases hi : i < 0
  · simp only [hi, if_true]; exact ⟨_, _, rfl, by decide⟩
  · simp only [hi, if_false]
    have hall := natDigits_all_digit i.natAbs
    cases h : natDigits i.natAbs with
    | nil => exact absurd h (natDigits_ne_nil _)
    | cons c t => rw [h] at hall; exact ⟨c, t, rfl, by simp [hall c (by simp)]⟩

theorem numText_int (i : Int) : NumText (Num.ofInt i) (intText i) := by
  refine ⟨intText_head i, ?_⟩
  intro rest hr
  obtain ⟨sf, hl, hd, he⟩ := lexes_intText i
  rw [hl.parse rest hr, hd, he, intOfText_intText]
  rfl

theorem Lexes.head {t : Bytes} {sf : NumSt} (h : Lexes t sf) : ∃ c r, t = c :: r ∧ (isDigit c || isSign c) = true := by
  cases t with
  | nil => have := h.digit; simp [endsWithDigit] at this
  | cons c r =>
    refine ⟨c, r, rfl, ?_⟩
    have := h.whole
    simp only [numLex] at this
    cases hp : numPart NumSt.init c with
    | none => simp [hp] at this
    | some s' =>
      by_cases hd : isDigit c = true
      · simp [hd]
      · have hd' : isDigit c = false := by simpa using hd
        have h101 : isDigit 101 = false := by decide
        have hE : isE 101 = true := by decide
        simp only [numPart, NumSt.init, hd', h101, hE] at hp
        simp at hp
        simp [hp.1]

/-- a decimal literal: lexes entirely, ends in a digit, and has a fraction or an exponent -/
def ValidDec (t : Bytes) : Prop := ∃ sf, Lexes t sf ∧ (sf.dot || sf.exp) = true

theorem numText_dec (t : Bytes) (h : ValidDec t) : NumText (.dec (stringOfBytes t)) t := by
  obtain ⟨sf, hl, hd⟩ := h
  refine ⟨hl.head, ?_⟩
  intro rest hr
  rw [hl.parse rest hr]
  have : (!sf.dot && !sf.exp) = false := by
    cases h1 : sf.dot <;> cases h2 : sf.exp <;> simp_all
  simp [this]

theorem numText_posInf : NumText (.float F64.posInf) (0x2b :: strInfinity) := by
  refine ⟨⟨_, _, rfl, by decide⟩, ?_⟩
  intro rest _
  simp [parseNum, strInfinity, numLex, numPart, NumSt.init, isDigit, isE, isSign, stripPrefix, List.isPrefixOf]

theorem numText_negInf : NumText (.float F64.negInf) (0x2d :: strInfinity) := by
  refine ⟨⟨_, _, rfl, by decide⟩, ?_⟩
  intro rest _
  simp [parseNum, strInfinity, numLex, numPart, NumSt.init, isDigit, isE, isSign, stripPrefix, List.isPrefixOf]

/-- bytes ↔ literal text -/
theorem byte_char_byte : ∀ i : Fin 256, UInt8.ofNat (Char.ofNat (UInt8.ofNat i.val).toNat).toNat = UInt8.ofNat i.val := by
  decide +kernel

theorem decBytes_stringOfBytes (t : Bytes) : decBytes (stringOfBytes t) = t := by
  simp only [decBytes, stringOfBytes, String.toList_ofList, List.map_map]
  induction t with
  | nil => rfl
  | cons b t ih =>
    simp only [List.map_cons, ih, Function.comp]
    congr 1
    have := byte_char_byte ⟨b.toNat, b.toNat_lt⟩
    simpa using this

end Jaq.C07
