/- C16: invariants of the loader model (helper lemmas for Props/C16.lean). -/
import JaqVerif.C16.Load

namespace Jaq.C16

theorem position_lt {α : Type} (p : α → Bool) : ∀ (l : List α) (k : Nat), position p l = some k → k < l.length
  | [], k, h => by simp [position] at h
  | a :: r, k, h => by
    simp only [position] at h
    split at h
    · cases h; simp
    · cases hr : position p r with
      | none => simp [hr] at h
      | some j =>
        simp [hr] at h
        have := position_lt p r j hr
        simp only [List.length_cons]; omega

theorem position_get {α : Type} (p : α → Bool) : ∀ (l : List α) (k : Nat), position p l = some k →
    ∃ a, l[k]? = some a ∧ p a = true
  | [], k, h => by simp [position] at h
  | a :: r, k, h => by
    simp only [position] at h
    split at h
    · rename_i hp; cases h; exact ⟨a, by simp, hp⟩
    · cases hr : position p r with
      | none => simp [hr] at h
      | some j =>
        simp [hr] at h
        obtain ⟨b, hb1, hb2⟩ := position_get p r j hr
        subst h
        exact ⟨b, by simpa using hb1, hb2⟩

theorem position_none {α : Type} (p : α → Bool) : ∀ (l : List α), position p l = none → ∀ a ∈ l, p a = false
  | [], _, a, ha => by simp at ha
  | b :: r, h, a, ha => by
    simp only [position] at h
    split at h
    · cases h
    · rename_i hp
      cases hr : position p r with
      | some j => simp [hr] at h
      | none =>
        rcases List.mem_cons.mp ha with rfl | hm
        · simpa using hp
        · exact position_none p r hr a hm

variable {P S B : Type}

def pathsOf (st : LState P S B) : List P := st.mods.map (·.1)

/-- invariant of the loader state -/
structure WF (st : LState P S B) : Prop where
  /-- no path is stored twice -/
  nodup : (pathsOf st).Nodup
  /-- a module being processed is not stored yet -/
  disj : ∀ p ∈ st.opened, p ∉ pathsOf st
  /-- the `open` stack does not repeat a path -/
  onodup : st.opened.Nodup
  /-- dependencies of a stored module have smaller indices -/
  nonempty : 0 < st.mods.length
  small : ∀ (i : Nat) (p : P) (m : Module S B), st.mods[i]? = some (p, Except.ok m) → ∀ e ∈ m.mods, e.1 < i

structure Step (O : List P) (st st' : LState P S B) (r : Except String Nat) : Prop where
  wf : WF st'
  opened : st'.opened = O
  ext : ∃ extra, st'.mods = st.mods ++ extra
  bound : ∀ id, r = .ok id → id < st'.mods.length

theorem mapDeps_step (f : LState P S B → S → Option (LState P S B × Except String Nat)) (O : List P)
    (hf : ∀ st s st' r, f st s = some (st', r) → WF st → st.opened = O → Step O st st' r) :
    ∀ (deps : List (Directive S)) (st : LState P S B) mods vars errs st' mods' vars' errs',
      mapDeps f deps st mods vars errs = some (st', mods', vars', errs') →
      WF st → st.opened = O → (∀ e ∈ mods, e.1 < st.mods.length) →
      WF st' ∧ st'.opened = O ∧ (∃ extra, st'.mods = st.mods ++ extra) ∧ (∀ e ∈ mods', e.1 < st'.mods.length)
  | [], st, mods, vars, errs, st', mods', vars', errs', h, hw, ho, hm => by
    simp only [mapDeps, Option.some.injEq, Prod.mk.injEq] at h
    obtain ⟨rfl, rfl, rfl, rfl⟩ := h
    exact ⟨hw, ho, ⟨[], by simp⟩, hm⟩
  | d :: ds, st, mods, vars, errs, st', mods', vars', errs', h, hw, ho, hm => by
    simp only [mapDeps] at h
    split at h
    · exact mapDeps_step f O hf ds st mods _ errs st' mods' vars' errs' h hw ho hm
    · split at h
      · cases h
      · rename_i st1 mid hfs
        have hs := hf st d.path st1 (.ok mid) hfs hw ho
        obtain ⟨extra, hext⟩ := hs.ext
        have hm1 : ∀ e ∈ mods ++ [(mid, d.as_)], e.1 < st1.mods.length := by
          intro e he
          rcases List.mem_append.mp he with he | he
          · have := hm e he; rw [hext]; simp only [List.length_append]; omega
          · simp only [List.mem_singleton] at he; subst he; exact hs.bound mid rfl
        obtain ⟨w, o, ⟨ex2, hex2⟩, b⟩ := mapDeps_step f O hf ds st1 _ vars errs st' mods' vars' errs' h hs.wf hs.opened hm1
        exact ⟨w, o, ⟨extra ++ ex2, by rw [hex2, hext, List.append_assoc]⟩, b⟩
      · rename_i st1 e hfs
        have hs := hf st d.path st1 (.error e) hfs hw ho
        obtain ⟨extra, hext⟩ := hs.ext
        have hm1 : ∀ e ∈ mods, e.1 < st1.mods.length := by
          intro e he
          have := hm e he; rw [hext]; simp only [List.length_append]; omega
        obtain ⟨w, o, ⟨ex2, hex2⟩, b⟩ := mapDeps_step f O hf ds st1 mods vars _ st' mods' vars' errs' h hs.wf hs.opened hm1
        exact ⟨w, o, ⟨extra ++ ex2, by rw [hex2, hext, List.append_assoc]⟩, b⟩


theorem mapSrc_step (f : LState P S B → S → Option (LState P S B × Except String Nat)) (O : List P)
    (hf : ∀ st s st' r, f st s = some (st', r) → WF st → st.opened = O → Step O st st' r)
    (src : Src S B) (st st' : LState P S B) (res : ModRes S B)
    (h : mapSrc f src st = some (st', res)) (hw : WF st) (ho : st.opened = O) :
    WF st' ∧ st'.opened = O ∧ (∃ extra, st'.mods = st.mods ++ extra) ∧
      (∀ m, res = .ok m → ∀ e ∈ m.mods, e.1 < st'.mods.length) := by
  unfold mapSrc at h
  split at h
  · simp only [Option.some.injEq, Prod.mk.injEq] at h
    obtain ⟨rfl, rfl⟩ := h
    exact ⟨hw, ho, ⟨[], by simp⟩, fun m hm => by cases hm⟩
  · rename_i deps body
    split at h
    · cases h
    · rename_i st1 mods vars errs hmd
      simp only [Option.some.injEq, Prod.mk.injEq] at h
      obtain ⟨rfl, rfl⟩ := h
      have h0 : ∀ e ∈ [((0 : Nat), (none : Option String))], e.1 < st.mods.length := by
        intro e he; simp only [List.mem_singleton] at he; subst he; exact hw.nonempty
      obtain ⟨w, o, ex, b⟩ := mapDeps_step f O hf deps st _ _ _ st1 mods vars errs hmd hw ho h0
      refine ⟨w, o, ex, ?_⟩
      intro m hm
      unfold mapResult at hm
      split at hm
      · cases hm; exact b
      · cases hm

theorem find_step [BEq P] [LawfulBEq P] (read : Reader P S B) :
    ∀ (fuel : Nat) (parent : P) (st : LState P S B) (s : S) (st' : LState P S B) (r : Except String Nat),
      find read fuel parent st s = some (st', r) → WF st → Step st.opened st st' r
  | 0, _, _, _, _, _, h, _ => by simp [find] at h
  | fuel + 1, parent, st, s, st', r, h, hw => by
    simp only [find] at h
    have hw0 : WF ({ st with trace := st.trace ++ [(parent, s)] } : LState P S B) :=
      ⟨hw.nodup, hw.disj, hw.onodup, hw.nonempty, hw.small⟩
    split at h
    · simp only [Option.some.injEq, Prod.mk.injEq] at h
      obtain ⟨rfl, rfl⟩ := h
      exact ⟨hw0, rfl, ⟨[], by simp⟩, fun id hid => by cases hid⟩
    · rename_i path src hread
      split at h
      · rename_i id hpos
        simp only [Option.some.injEq, Prod.mk.injEq] at h
        obtain ⟨rfl, rfl⟩ := h
        refine ⟨hw0, rfl, ⟨[], by simp⟩, ?_⟩
        intro id' hid; cases hid
        exact position_lt _ _ _ hpos
      · rename_i hpos
        split at h
        · simp only [Option.some.injEq, Prod.mk.injEq] at h
          obtain ⟨rfl, rfl⟩ := h
          exact ⟨hw0, rfl, ⟨[], by simp⟩, fun id hid => by cases hid⟩
        · rename_i hcont
          have hnotopen : path ∉ st.opened := by
            intro hm; apply hcont; simpa using hm
          have hnotmods : path ∉ pathsOf st := by
            intro hm
            obtain ⟨m, hm1, hm2⟩ := List.mem_map.mp hm
            have := position_none _ _ hpos m hm1
            simp [hm2] at this
          have hw1 : WF ({ mods := st.mods, opened := st.opened ++ [path], trace := st.trace ++ [(parent, s)] } : LState P S B) := by
            refine ⟨hw.nodup, ?_, ?_, hw.nonempty, hw.small⟩
            · intro p hp
              rcases List.mem_append.mp hp with hp | hp
              · exact hw.disj p hp
              · simp only [List.mem_singleton] at hp; subst hp; exact hnotmods
            · rw [List.nodup_append]
              refine ⟨hw.onodup, by simp, ?_⟩
              intro a ha b hb
              simp only [List.mem_singleton] at hb; subst hb
              intro hab; subst hab; exact hnotopen ha
          split at h
          · cases h
          · rename_i st2 defs hms
            simp only [Option.some.injEq, Prod.mk.injEq] at h
            obtain ⟨rfl, rfl⟩ := h
            have hf : ∀ (sa : LState P S B) (s' : S) (sb : LState P S B) (r' : Except String Nat),
                find read fuel path sa s' = some (sb, r') → WF sa → sa.opened = st.opened ++ [path] →
                Step (st.opened ++ [path]) sa sb r' := by
              intro sa s' sb r' hfind hwa hoa
              have := find_step read fuel path sa s' sb r' hfind hwa
              rw [hoa] at this; exact this
            obtain ⟨w2, o2, ⟨extra, hext⟩, b2⟩ :=
              mapSrc_step _ (st.opened ++ [path]) hf src _ st2 defs hms hw1 rfl
            simp only at hext
            have hpath2 : path ∉ pathsOf st2 := w2.disj path (by rw [o2]; simp)
            refine ⟨⟨?_, ?_, ?_, ?_, ?_⟩, ?_, ⟨extra ++ [(path, defs)], ?_⟩, ?_⟩
            · show (List.map (·.1) (st2.mods ++ [(path, defs)])).Nodup
              rw [List.map_append, List.nodup_append]
              refine ⟨w2.nodup, by simp, ?_⟩
              intro a ha b hb
              simp only [List.map_cons, List.map_nil, List.mem_singleton] at hb; subst hb
              intro hab; subst hab; exact hpath2 ha
            · intro p hp
              simp only [o2, List.dropLast_concat] at hp
              show p ∉ List.map (·.1) (st2.mods ++ [(path, defs)])
              rw [List.map_append, List.mem_append]
              rintro (hm | hm)
              · exact w2.disj p (by rw [o2]; exact List.mem_append_left _ hp) hm
              · simp only [List.map_cons, List.map_nil, List.mem_singleton] at hm
                subst hm; exact hnotopen hp
            · simp only [o2, List.dropLast_concat]; exact hw.onodup
            · simp
            · intro i p m hget e he
              simp only at hget
              by_cases hi : i < st2.mods.length
              · rw [List.getElem?_append_left hi] at hget
                exact w2.small i p m hget e he
              · have hi' : i = st2.mods.length := by
                  have := (List.getElem?_eq_some_iff.mp hget).1
                  simp only [List.length_append, List.length_singleton] at this; omega
                subst hi'
                simp only [List.getElem?_append_right (Nat.le_refl _), Nat.sub_self, List.getElem?_cons_zero,
                  Option.some.injEq, Prod.mk.injEq] at hget
                exact b2 m hget.2 e he
            · simp only [o2, List.dropLast_concat]
            · simp only [hext, List.append_assoc]
            · intro id hid
              simp only [Except.ok.injEq] at hid
              subst hid
              simp


theorem mapDeps_total (f : LState P S B → S → Option (LState P S B × Except String Nat)) (I : LState P S B → Prop)
    (hf : ∀ st s, I st → ∃ st' r, f st s = some (st', r) ∧ I st') :
    ∀ (deps : List (Directive S)) (st : LState P S B) mods vars errs, I st →
      ∃ res, mapDeps f deps st mods vars errs = some res
  | [], st, mods, vars, errs, _ => ⟨_, rfl⟩
  | d :: ds, st, mods, vars, errs, hi => by
    simp only [mapDeps]
    split
    · exact mapDeps_total f I hf ds st mods _ errs hi
    · obtain ⟨st1, r, h1, h2⟩ := hf st d.path hi
      rw [h1]
      cases r with
      | ok mid => exact mapDeps_total f I hf ds st1 _ vars errs h2
      | error e => exact mapDeps_total f I hf ds st1 mods vars _ h2

theorem mapSrc_total (f : LState P S B → S → Option (LState P S B × Except String Nat)) (I : LState P S B → Prop)
    (hf : ∀ st s, I st → ∃ st' r, f st s = some (st', r) ∧ I st') (src : Src S B) (st : LState P S B) (hi : I st) :
    ∃ res, mapSrc f src st = some res := by
  unfold mapSrc
  cases src with
  | bad => exact ⟨_, rfl⟩
  | ok deps body =>
    obtain ⟨res, hres⟩ := mapDeps_total f I hf deps st [(0, none)] [] [] hi
    simp only [hres]
    exact ⟨_, rfl⟩

theorem find_total [BEq P] [LawfulBEq P] (read : Reader P S B) (U : List P)
    (hU : ∀ parent s p src, read parent s = .ok (p, src) → p ∈ U) :
    ∀ (fuel : Nat) (parent : P) (st : LState P S B) (s : S), WF st → (∀ p ∈ st.opened, p ∈ U) →
      U.length < fuel + st.opened.length → ∃ res, find read fuel parent st s = some res
  | 0, _, st, _, hw, hsub, hlen => by
    have := List.Nodup.length_le_of_subset hw.onodup (fun p hp => hsub p hp)
    omega
  | fuel + 1, parent, st, s, hw, hsub, hlen => by
    simp only [find]
    split
    · exact ⟨_, rfl⟩
    · rename_i path src hread
      split
      · exact ⟨_, rfl⟩
      · rename_i hpos
        split
        · exact ⟨_, rfl⟩
        · rename_i hcont
          have hnotopen : path ∉ st.opened := by
            intro hm; apply hcont; simpa using hm
          have hnotmods : path ∉ pathsOf st := by
            intro hm
            obtain ⟨m, hm1, hm2⟩ := List.mem_map.mp hm
            have := position_none _ _ hpos m hm1
            simp [hm2] at this
          have hw1 : WF ({ mods := st.mods, opened := st.opened ++ [path], trace := st.trace ++ [(parent, s)] } : LState P S B) := by
            refine ⟨hw.nodup, ?_, ?_, hw.nonempty, hw.small⟩
            · intro p hp
              rcases List.mem_append.mp hp with hp | hp
              · exact hw.disj p hp
              · simp only [List.mem_singleton] at hp; subst hp; exact hnotmods
            · rw [List.nodup_append]
              refine ⟨hw.onodup, by simp, ?_⟩
              intro a ha b hb
              simp only [List.mem_singleton] at hb; subst hb
              intro hab; subst hab; exact hnotopen ha
          have hf : ∀ (sa : LState P S B) (s' : S), (WF sa ∧ sa.opened = st.opened ++ [path]) →
              ∃ sb r', find read fuel path sa s' = some (sb, r') ∧ (WF sb ∧ sb.opened = st.opened ++ [path]) := by
            intro sa s' ⟨hwa, hoa⟩
            have hsub' : ∀ p ∈ sa.opened, p ∈ U := by
              intro p hp; rw [hoa] at hp
              rcases List.mem_append.mp hp with hp | hp
              · exact hsub p hp
              · simp only [List.mem_singleton] at hp; subst hp; exact hU _ _ _ _ hread
            have hlen' : U.length < fuel + sa.opened.length := by
              rw [hoa]; simp only [List.length_append, List.length_singleton]; omega
            obtain ⟨⟨sb, r'⟩, hres⟩ := find_total read U hU fuel path sa s' hwa hsub' hlen'
            have hstep := find_step read fuel path sa s' sb r' hres hwa
            exact ⟨sb, r', hres, hstep.wf, by rw [hstep.opened, hoa]⟩
          obtain ⟨⟨st2, defs⟩, hres⟩ := mapSrc_total _ _ hf src _ ⟨hw1, rfl⟩
          simp only [hres]
          exact ⟨_, rfl⟩


theorem wf_init (dflt : P) (prelude : B) : WF (initState (S := S) dflt prelude) := by
  refine ⟨by simp [pathsOf, initState], by simp [initState], by simp [initState], by simp [initState], ?_⟩
  intro i p m h e he
  simp only [initState] at h
  cases i with
  | zero =>
    simp only [List.getElem?_cons_zero, Option.some.injEq, Prod.mk.injEq, Except.ok.injEq] at h
    rw [← h.2] at he; simp at he
  | succ j => simp at h

theorem collectOk_sublist : ∀ (l : List (P × ModRes S B)), ((collectOk l).map (·.1)).Sublist (l.map (·.1))
  | [] => by simp [collectOk]
  | (p, .ok m) :: r => by simp only [collectOk, List.map_cons]; exact (collectOk_sublist r).cons_cons _
  | (p, .error e) :: r => by simp only [collectOk, List.map_cons]; exact (collectOk_sublist r).cons _

theorem collectErr_nil : ∀ (l : List (P × ModRes S B)), collectErr l = [] →
    l = (collectOk l).map fun pm => (pm.1, Except.ok pm.2)
  | [], _ => by simp [collectOk]
  | (p, .ok m) :: r, h => by
    simp only [collectErr] at h
    simp only [collectOk, List.map_cons, List.cons.injEq, true_and]
    exact collectErr_nil r h
  | (p, .error e) :: r, h => by simp [collectErr] at h

/-- facts about a finished `load` -/
theorem load_facts [BEq P] [LawfulBEq P] (read : Reader P S B) (fuel : Nat) (dflt : P) (prelude : B) (mainPath : P)
    (mainSrc : Src S B) (st : LState P S B) (res : LoadRes P S B)
    (h : load read fuel dflt prelude mainPath mainSrc = some (st, res)) :
    (st.mods.map (·.1)).Nodup ∧ st.opened = [] ∧
    (∀ deps main, res = .ok deps main →
      (deps.map (·.1)).Nodup ∧ collectErr st.mods = [] ∧
      (∀ (i : Nat) (p : P) (m : Module S B), deps[i]? = some (p, m) → ∀ e ∈ m.mods, e.1 < i) ∧
      (∀ e ∈ main.2.mods, e.1 < deps.length)) := by
  unfold load at h
  split at h
  · cases h
  · rename_i st1 res1 hms
    have hf : ∀ (sa : LState P S B) (s' : S) (sb : LState P S B) (r' : Except String Nat),
        find read fuel mainPath sa s' = some (sb, r') → WF sa → sa.opened = [] → Step [] sa sb r' := by
      intro sa s' sb r' hfind hwa hoa
      have := find_step read fuel mainPath sa s' sb r' hfind hwa
      rw [hoa] at this; exact this
    obtain ⟨w, o, _, b⟩ := mapSrc_step _ [] hf mainSrc _ st1 res1 hms (wf_init dflt prelude) rfl
    have key : ∀ m, res1 = .ok m → collectErr st1.mods = [] →
        ((collectOk st1.mods).map (·.1)).Nodup ∧ collectErr st1.mods = [] ∧
        (∀ (i : Nat) (p : P) (m' : Module S B), (collectOk st1.mods)[i]? = some (p, m') → ∀ e ∈ m'.mods, e.1 < i) ∧
        (∀ e ∈ m.mods, e.1 < (collectOk st1.mods).length) := by
      intro m hm hce
      have heq := collectErr_nil st1.mods hce
      refine ⟨w.nodup.sublist (collectOk_sublist st1.mods), hce, ?_, ?_⟩
      · intro i p m' hget e he
        apply w.small i p m' _ e he
        rw [heq, List.getElem?_map, hget]; rfl
      · intro e he
        have := b m hm e he
        rw [heq, List.length_map] at this; exact this
    cases res1 with
    | error e =>
      simp only [Option.some.injEq, Prod.mk.injEq] at h
      obtain ⟨rfl, rfl⟩ := h
      exact ⟨w.nodup, o, fun deps main hr => by cases hr⟩
    | ok m =>
      simp only [List.nil_append] at h
      split at h
      · rename_i hemp
        simp only [Option.some.injEq, Prod.mk.injEq] at h
        obtain ⟨rfl, rfl⟩ := h
        refine ⟨w.nodup, o, ?_⟩
        intro deps main hr
        cases hr
        exact key m rfl (by simpa using hemp)
      · simp only [Option.some.injEq, Prod.mk.injEq] at h
        obtain ⟨rfl, rfl⟩ := h
        exact ⟨w.nodup, o, fun deps main hr => by cases hr⟩

theorem load_total [BEq P] [LawfulBEq P] (read : Reader P S B) (U : List P)
    (hU : ∀ parent s p src, read parent s = .ok (p, src) → p ∈ U)
    (fuel : Nat) (hfuel : U.length < fuel) (dflt : P) (prelude : B) (mainPath : P) (mainSrc : Src S B) :
    ∃ res, load read fuel dflt prelude mainPath mainSrc = some res := by
  have hf : ∀ (sa : LState P S B) (s' : S), (WF sa ∧ sa.opened = []) →
      ∃ sb r', find read fuel mainPath sa s' = some (sb, r') ∧ (WF sb ∧ sb.opened = []) := by
    intro sa s' ⟨hwa, hoa⟩
    obtain ⟨⟨sb, r'⟩, hres⟩ := find_total read U hU fuel mainPath sa s' hwa (by rw [hoa]; simp) (by rw [hoa]; simpa using hfuel)
    have hstep := find_step read fuel mainPath sa s' sb r' hres hwa
    exact ⟨sb, r', hres, hstep.wf, by rw [hstep.opened, hoa]⟩
  obtain ⟨⟨st1, res1⟩, hres⟩ := mapSrc_total _ _ hf mainSrc (initState dflt prelude) ⟨wf_init dflt prelude, rfl⟩
  unfold load
  simp only [hres]
  cases res1 with
  | error e => exact ⟨_, rfl⟩
  | ok m =>
    simp only
    split <;> exact ⟨_, rfl⟩

/-- a path that is being processed is answered with the error, without reading further -/
theorem find_open [BEq P] [LawfulBEq P] (read : Reader P S B) (fuel : Nat) (parent : P) (st : LState P S B) (s : S)
    (path : P) (src : Src S B) (hread : read parent s = .ok (path, src)) (hopen : path ∈ st.opened)
    (hnew : path ∉ pathsOf st) :
    find read (fuel + 1) parent st s =
      some ({ st with trace := st.trace ++ [(parent, s)] }, .error circularMsg) := by
  have hpos : position (fun m => path == m.1) st.mods = none := by
    cases hp : position (fun m => path == m.1) st.mods with
    | none => rfl
    | some k =>
      obtain ⟨a, ha1, ha2⟩ := position_get _ _ _ hp
      exfalso; apply hnew
      have : a ∈ st.mods := List.mem_of_getElem? ha1
      simp only [beq_iff_eq] at ha2
      exact List.mem_map.mpr ⟨a, this, ha2.symm⟩
  have hc : st.opened.contains path = true := by simpa using hopen
  simp only [find, hread, hpos, hc, ↓reduceIte]

end Jaq.C16
