/- helper lemmas for Props/C14.lean (CSV/TSV part) -/
import JaqVerif.C14.Tabular
namespace Jaq.C14.TabLemmas
open Jaq Jaq.C14.Yaml Jaq.C14.Tab
theorem csvU_cons (acc q c r) : csvU acc q (c :: r) = (if c == 44 || c == 10 then (⟨acc, some c, q⟩, r)
      else if c == 13 then
        match r with
        | [] => (⟨acc ++ [13], none, q⟩, [])
        | d :: r' => if d == 10 then (⟨acc, some 10, q⟩, r') else csvU (acc ++ [13]) q (d :: r')
      else if c == 34 then csvQ acc r
      else csvU (acc ++ [c]) q r) := by
  cases r with
  | nil => rw [csvU.eq_2]
  | cons d r => rw [csvU]
theorem csvQ_cons (acc c r) : csvQ acc (c :: r) = (if c == 34 then
        match r with
        | [] => (⟨acc, none, true⟩, [])
        | d :: r' => if d == 34 then csvQ (acc ++ [34]) r' else csvU acc true (d :: r')
      else csvQ (acc ++ [c]) r) := by
  cases r with
  | nil => rw [csvQ.eq_2]
  | cons d r => rw [csvQ]
theorem tsvU_cons (acc q c r) : tsvU acc q (c :: r) = (if c == 9 || c == 10 then (⟨acc, some c, q⟩, r)
    else if c == 13 then
      match r with
      | [] => (⟨acc ++ [13], none, q⟩, [])
      | d :: r' => if d == 10 then (⟨acc, some 10, q⟩, r') else tsvU (acc ++ [13]) q (d :: r')
    else if c == 92 then
      match r with
      | [] => (⟨acc, none, true⟩, [])
      | d :: r' =>
        if d == 110 then tsvU (acc ++ [10]) true r'
        else if d == 116 then tsvU (acc ++ [9]) true r'
        else if d == 114 then tsvU (acc ++ [13]) true r'
        else if d == 48 then tsvU (acc ++ [0]) true r'
        else if d == 92 then tsvU (acc ++ [92]) true r'
        else tsvU (acc ++ [92]) true (d :: r')
    else tsvU (acc ++ [c]) q r) := by
  cases r with
  | nil => rw [tsvU.eq_2]
  | cons d r => rw [tsvU]


/-- a field text that the CSV reader copies verbatim -/
def csvPlain (t : Bytes) : Prop := ∀ c ∈ t, (c == 44) = false ∧ (c == 10) = false ∧ (c == 13) = false ∧ (c == 34) = false

theorem csvU_plain (acc : Bytes) (q : Bool) (t tail : Bytes) (h : csvPlain t) :
    csvU acc q (t ++ tail) = csvU (acc ++ t) q tail := by
  induction t generalizing acc with
  | nil => simp
  | cons c r ih =>
    have hc := h c (by simp)
    have hr : csvPlain r := fun x hx => h x (by simp [hx])
    rw [List.cons_append, csvU_cons]; simp only [hc.1, hc.2.1, hc.2.2.1, hc.2.2.2, Bool.or_self]
    simp only [Bool.false_eq_true, if_false]
    rw [ih _ hr]; simp

/-- `tail` does not continue a quoted field: it is empty or starts with another byte than `"` -/
def noQuoteHead (tail : Bytes) : Prop := ∀ d r, tail = d :: r → (d == 34) = false

theorem csvQ_esc (acc s tail : Bytes) (ht : noQuoteHead tail) :
    csvQ acc (csvEsc s ++ 34 :: tail) = csvU (acc ++ s) true tail := by
  induction s generalizing acc with
  | nil =>
    simp only [csvEsc, List.flatMap_nil, List.nil_append, List.append_nil]
    cases tail with
    | nil => rw [csvQ_cons]; simp [csvU]
    | cons d r =>
      have := ht d r rfl
      rw [csvQ_cons]; simp [this]
  | cons c r ih =>
    by_cases hc : c = 34
    · subst hc
      have : csvEsc (34 :: r) = 34 :: 34 :: csvEsc r := by simp [csvEsc]
      rw [this]
      rw [List.cons_append, csvQ_cons]
      simp only [List.cons_append, beq_self_eq_true, if_true]
      rw [ih]; simp
    · have hcb : (c == 34) = false := by simp [hc]
      have : csvEsc (c :: r) = c :: csvEsc r := by simp [csvEsc, hc]
      rw [this]
      rw [List.cons_append, csvQ_cons]; simp only [hcb]
      simp only [Bool.false_eq_true, if_false]
      rw [ih]; simp

theorem csvField_str (s tail : Bytes) (ht : noQuoteHead tail) :
    csvField (writeCsvStr s ++ tail) = csvU s true tail := by
  unfold csvField writeCsvStr
  rw [List.cons_append, csvU_cons]
  simp only [show ((34 : UInt8) == 44 || (34 : UInt8) == 10) = false by decide, show ((34:UInt8) == 13) = false by decide,
    Bool.false_eq_true, if_false, beq_self_eq_true, if_true]
  have := csvQ_esc [] s tail ht
  simpa using this

/-- after a field: end of input, or a separator `sep` / newline -/
def endsField (sep : UInt8) (tail : Bytes) : Prop :=
  tail = [] ∨ ∃ c r, tail = c :: r ∧ (c = sep ∨ c = 10)

theorem endsField_noQuote (tail : Bytes) (h : endsField 44 tail) : noQuoteHead tail := by
  intro d r hd
  rcases h with rfl | ⟨c, r', rfl, hc | hc⟩
  · cases hd
  · cases hd; subst hc; decide
  · cases hd; subst hc; decide

theorem csvU_end (acc : Bytes) (q : Bool) (tail : Bytes) (h : endsField 44 tail) :
    csvU acc q tail = (⟨acc, tail.head?, q⟩, tail.tail) := by
  rcases h with rfl | ⟨c, r, rfl, hc | hc⟩
  · rfl
  · subst hc; rw [csvU_cons]; rfl
  · subst hc; rw [csvU_cons]; rfl

/-- `CsvGood fmt v v'`: the scalar `v` is a CSV field of the domain and `v'` is what the reader
makes of its text.  Strings, booleans and null are read back as themselves; a number is read back
as the number `parse_single_num` finds in its text (hypotheses on the text: third-party `ryu`
for floats; discharged for integers in `csvGood_int`). -/
inductive CsvGood (fmt : UInt64 → Bytes) : Val → Val → Prop
  | null : CsvGood fmt .null .null
  | bool (b : Bool) : CsvGood fmt (.bool b) (.bool b)
  | str (s : Bytes) : CsvGood fmt (.tstr s) (.tstr s)
  | num (n n' : Num) (hp : csvPlain (showNum fmt n)) (hne : showNum fmt n ≠ [])
      (ht : showNum fmt n ≠ trueWord) (hf : showNum fmt n ≠ falseWord)
      (hn : parseSingleNum (showNum fmt n) = some n') : CsvGood fmt (.num n) (.num n')

theorem csvPlain_true : csvPlain trueWord := by unfold csvPlain trueWord; decide
theorem csvPlain_false : csvPlain falseWord := by unfold csvPlain falseWord; decide

theorem csv_field_read (fmt) (v v' : Val) (h : CsvGood fmt v v') (tail : Bytes) (ht : endsField 44 tail) :
    ∃ f, csvField (writeField fmt writeCsvStr v ++ tail) = (f, tail.tail) ∧ f.next = tail.head? ∧
      f.toVal = v' ∧ (f.isEmpty = true ↔ v = .null) := by
  cases h with
  | null =>
    refine ⟨⟨[], tail.head?, false⟩, ?_, rfl, rfl, by simp [Field.isEmpty]⟩
    simp only [writeField, List.nil_append, csvField]
    exact csvU_end _ _ _ ht
  | bool b =>
    cases b with
    | true =>
      refine ⟨⟨trueWord, tail.head?, false⟩, ?_, rfl, by simp [Field.toVal, trueWord], by simp [Field.isEmpty, trueWord]⟩
      simp only [writeField, csvField]
      rw [csvU_plain _ _ _ _ csvPlain_true]
      exact csvU_end _ _ _ ht
    | false =>
      refine ⟨⟨falseWord, tail.head?, false⟩, ?_, rfl, by simp [Field.toVal, trueWord, falseWord], by simp [Field.isEmpty, falseWord]⟩
      simp only [writeField, csvField]
      rw [csvU_plain _ _ _ _ csvPlain_false]
      exact csvU_end _ _ _ ht
  | str s =>
    refine ⟨⟨s, tail.head?, true⟩, ?_, rfl, rfl, by simp [Field.isEmpty]⟩
    simp only [writeField]
    rw [csvField_str _ _ (endsField_noQuote _ ht)]
    exact csvU_end _ _ _ ht
  | num n n' hp hne htw hfw hn =>
    refine ⟨⟨showNum fmt n, tail.head?, false⟩, ?_, rfl, ?_, ?_⟩
    · simp only [writeField, csvField]
      rw [csvU_plain _ _ _ _ hp]
      simpa using csvU_end _ _ _ ht
    · simp [Field.toVal, hne, htw, hfw, hn]
    · simp [Field.isEmpty, hne]

/-- contract of a field reader w.r.t. a field writer, for the fields related by `Good` -/
def FieldInv (fld : Bytes → Field × Bytes) (wf : Val → Bytes) (sep : UInt8) (Good : Val → Val → Prop) : Prop :=
  ∀ v v', Good v v' → ∀ tail, endsField sep tail →
    ∃ f, fld (wf v ++ tail) = (f, tail.tail) ∧ f.next = tail.head? ∧ f.toVal = v' ∧
      (f.isEmpty = true ↔ v = .null)

theorem rowF_none (fld : Bytes → Field × Bytes) (n : Nat) (input : Bytes) (fields : List Val) (f : Field) (rest : Bytes)
    (h : fld input = (f, rest)) (hn : f.next = none) :
    rowF fld (n + 1) input fields =
      if fields.isEmpty && f.isEmpty then none else some (.arr (fields ++ [f.toVal]), rest) := by
  rw [rowF]; simp only [h, hn]

theorem rowF_some (fld : Bytes → Field × Bytes) (n : Nat) (input : Bytes) (fields : List Val) (f : Field) (rest : Bytes)
    (c : UInt8) (h : fld input = (f, rest)) (hn : f.next = some c) :
    rowF fld (n + 1) input fields =
      if c == 10 then some (.arr (fields ++ [f.toVal]), rest) else rowF fld n rest (fields ++ [f.toVal]) := by
  rw [rowF]; simp only [h, hn]

/-- pointwise relation of two lists -/
inductive All2 (R : Val → Val → Prop) : List Val → List Val → Prop
  | nil : All2 R [] []
  | cons {v v' vs vs'} : R v v' → All2 R vs vs' → All2 R (v :: vs) (v' :: vs')

theorem row_read (fmt) (fs : Bytes → Bytes) (fld : Bytes → Field × Bytes) (sep : UInt8) (hsep : (sep == 10) = false)
    (Good : Val → Val → Prop) (hinv : FieldInv fld (writeField fmt fs) sep Good)
    (vs vs' : List Val) (hg : All2 Good vs vs') (hne : vs ≠ [])
    (tail : Bytes) (htail : tail = [] ∨ ∃ r, tail = 10 :: r) (acc : List Val)
    (hex : ¬ (tail = [] ∧ acc = [] ∧ vs = [.null]))
    (fuel : Nat) (hfuel : vs.length ≤ fuel) :
    rowF fld fuel (writeFields fmt fs sep vs ++ tail) acc = some (.arr (acc ++ vs'), tail.tail) := by
  induction hg generalizing acc fuel with
  | nil => exact absurd rfl hne
  | @cons v v' ws ws' hv hws ih =>
    cases fuel with
    | zero => simp at hfuel
    | succ n =>
      cases hws with
      | nil =>
        have hend : endsField sep tail := by
          rcases htail with h | ⟨r, h⟩
          · exact Or.inl h
          · exact Or.inr ⟨10, r, h, Or.inr rfl⟩
        obtain ⟨f, hf, hnext, hval, hemp⟩ := hinv v v' hv tail hend
        simp only [writeFields]
        rcases htail with h | ⟨r, h⟩
        · subst h
          rw [rowF_none fld n _ acc f _ hf (by simpa using hnext), hval]
          have : (acc.isEmpty && f.isEmpty) = false := by
            cases hacc : acc.isEmpty with
            | false => rfl
            | true =>
              cases hfe : f.isEmpty with
              | false => rfl
              | true =>
                exfalso; apply hex
                refine ⟨rfl, by simpa using hacc, ?_⟩
                rw [hemp.mp hfe]
          simp [this]
        · subst h
          rw [rowF_some fld n _ acc f _ 10 hf (by simpa using hnext), hval]
          simp
      | @cons w w' xs xs' hw hxs =>
        have hend : endsField sep (sep :: (writeFields fmt fs sep (w :: xs) ++ tail)) :=
          Or.inr ⟨sep, _, rfl, Or.inl rfl⟩
        obtain ⟨f, hf, hnext, hval, _⟩ := hinv v v' hv _ hend
        have hw' : writeFields fmt fs sep (v :: w :: xs) ++ tail =
            writeField fmt fs v ++ sep :: (writeFields fmt fs sep (w :: xs) ++ tail) := by
          simp [writeFields]
        rw [hw', rowF_some fld n _ acc f _ sep hf (by simpa using hnext), hval]
        simp only [List.tail_cons, hsep]
        have := ih (List.cons_ne_nil _ _) (acc ++ [v']) (by simp) n (by simp at hfuel ⊢; omega)
        simp only [Bool.false_eq_true, if_false]
        rw [this]; simp

theorem writeFields_length (fmt) (fs : Bytes → Bytes) (sep : UInt8) (vs : List Val) :
    vs.length ≤ (writeFields fmt fs sep vs).length + 1 := by
  induction vs with
  | nil => simp
  | cons v ws ih =>
    cases ws with
    | nil => simp
    | cons w xs => simp only [writeFields, List.length_append, List.length_cons] at ih ⊢; omega

theorem rowsF_nil (fld : Bytes → Field × Bytes) (hnil : fld [] = (⟨[], none, false⟩, [])) (n : Nat) :
    rowsF fld n [] = [] := by
  cases n with
  | zero => rfl
  | succ n =>
    rw [rowsF]
    have : rowF fld (([] : Bytes).length + 1) [] [] = none := by
      rw [List.length_nil, rowF_none fld 0 [] [] _ _ hnil rfl]; rfl
    rw [this]

/-- one row, written without (`tocsv`, `@csv`) or with (`--to csv`) the final newline -/
theorem read_one_row (fmt) (fs : Bytes → Bytes) (fld : Bytes → Field × Bytes) (sep : UInt8) (hsep : (sep == 10) = false)
    (Good : Val → Val → Prop) (hinv : FieldInv fld (writeField fmt fs) sep Good)
    (hnil : fld [] = (⟨[], none, false⟩, []))
    (vs vs' : List Val) (hg : All2 Good vs vs') (hne : vs ≠ []) (nl : Bool) (hex : nl = false → vs ≠ [.null]) :
    let text := writeFields fmt fs sep vs ++ (if nl then [10] else [])
    rowsF fld (text.length + 1) text = [.arr vs'] := by
  intro text
  have hlen := writeFields_length fmt fs sep vs
  rw [rowsF]
  have hrow : rowF fld (text.length + 1) text [] = some (.arr vs', []) := by
    have := row_read fmt fs fld sep hsep Good hinv vs vs' hg hne (if nl then [10] else [])
      (by cases nl <;> simp) [] (by cases nl <;> simp; exact hex rfl) (text.length + 1)
      (by simp only [text, List.length_append]; omega)
    rw [this]; cases nl <;> simp
  rw [hrow]
  simp [rowsF_nil fld hnil]

def writeRows (fmt : UInt64 → Bytes) (fs : Bytes → Bytes) (sep : UInt8) (rows : List (List Val)) : Bytes :=
  rows.flatMap fun vs => writeFields fmt fs sep vs ++ [10]

/-- pointwise: every row is non-empty and its fields are `Good` -/
inductive AllRows (Good : Val → Val → Prop) : List (List Val) → List (List Val) → Prop
  | nil : AllRows Good [] []
  | cons {vs vs' rs rs'} : vs ≠ [] → All2 Good vs vs' → AllRows Good rs rs' → AllRows Good (vs :: rs) (vs' :: rs')

/-- any number of rows, each terminated by a newline (`--to csv`) -/
theorem read_rows (fmt) (fs : Bytes → Bytes) (fld : Bytes → Field × Bytes) (sep : UInt8) (hsep : (sep == 10) = false)
    (Good : Val → Val → Prop) (hinv : FieldInv fld (writeField fmt fs) sep Good)
    (hnil : fld [] = (⟨[], none, false⟩, []))
    (rows rows' : List (List Val)) (hr : AllRows Good rows rows') (fuel : Nat)
    (hfuel : (writeRows fmt fs sep rows).length < fuel) :
    rowsF fld fuel (writeRows fmt fs sep rows) = rows'.map Val.arr := by
  induction hr generalizing fuel with
  | nil => simpa [writeRows] using rowsF_nil fld hnil fuel
  | @cons vs vs' rs rs' hne hg _ ih =>
    cases fuel with
    | zero => simp at hfuel
    | succ n =>
      have htext : writeRows fmt fs sep (vs :: rs) = writeFields fmt fs sep vs ++ 10 :: writeRows fmt fs sep rs := by
        simp [writeRows]
      have hlen := writeFields_length fmt fs sep vs
      rw [htext] at hfuel ⊢
      rw [rowsF]
      have := row_read fmt fs fld sep hsep Good hinv vs vs' hg hne (10 :: writeRows fmt fs sep rs)
        (Or.inr ⟨_, rfl⟩) [] (by simp) ((writeFields fmt fs sep vs ++ 10 :: writeRows fmt fs sep rs).length + 1)
        (by simp only [List.length_append]; omega)
      rw [this]
      simp only [List.nil_append, List.tail_cons, List.map_cons]
      rw [ih n (by simp only [List.length_append, List.length_cons] at hfuel; omega)]

/-! ### TSV -/

def tsvSpecial (c : UInt8) : Bool := c == 10 || c == 13 || c == 9 || c == 92 || c == 0

theorem endsField_tsv_end (acc : Bytes) (q : Bool) (tail : Bytes) (h : endsField 9 tail) :
    tsvU acc q tail = (⟨acc, tail.head?, q⟩, tail.tail) := by
  rcases h with rfl | ⟨c, r, rfl, hc | hc⟩
  · rfl
  · subst hc; rw [tsvU_cons]; rfl
  · subst hc; rw [tsvU_cons]; rfl

theorem tsvU_esc (acc : Bytes) (q : Bool) (s tail : Bytes) :
    tsvU acc q (writeTsvStr s ++ tail) = tsvU (acc ++ s) (q || s.any tsvSpecial) tail := by
  induction s generalizing acc q with
  | nil => simp [writeTsvStr]
  | cons c r ih =>
    have hw : writeTsvStr (c :: r) = tsvEscByte c ++ writeTsvStr r := by simp [writeTsvStr]
    rw [hw, List.append_assoc]
    have step : tsvU acc q (tsvEscByte c ++ (writeTsvStr r ++ tail)) =
        tsvU (acc ++ [c]) (q || tsvSpecial c) (writeTsvStr r ++ tail) := by
      unfold tsvEscByte tsvSpecial
      by_cases h10 : c = 10
      · subst h10; simp only [beq_self_eq_true, if_true]; rw [List.cons_append, tsvU_cons]; simp
      by_cases h13 : c = 13
      · subst h13; simp only [show ((13:UInt8) == 10) = false by decide, beq_self_eq_true, if_true, Bool.false_eq_true, if_false]
        rw [List.cons_append, tsvU_cons]; simp
      by_cases h9 : c = 9
      · subst h9; simp only [show ((9:UInt8) == 10) = false by decide, show ((9:UInt8) == 13) = false by decide, beq_self_eq_true, if_true, Bool.false_eq_true, if_false]
        rw [List.cons_append, tsvU_cons]; simp
      by_cases h92 : c = 92
      · subst h92; simp only [show ((92:UInt8) == 10) = false by decide, show ((92:UInt8) == 13) = false by decide, show ((92:UInt8) == 9) = false by decide, beq_self_eq_true, if_true, Bool.false_eq_true, if_false]
        rw [List.cons_append, tsvU_cons]; simp
      by_cases h0 : c = 0
      · subst h0; simp only [show ((0:UInt8) == 10) = false by decide, show ((0:UInt8) == 13) = false by decide, show ((0:UInt8) == 9) = false by decide, show ((0:UInt8) == 92) = false by decide, beq_self_eq_true, if_true, Bool.false_eq_true, if_false]
        rw [List.cons_append, tsvU_cons]; simp
      · have e10 : (c == 10) = false := by simp [h10]
        have e13 : (c == 13) = false := by simp [h13]
        have e9 : (c == 9) = false := by simp [h9]
        have e92 : (c == 92) = false := by simp [h92]
        have e0 : (c == 0) = false := by simp [h0]
        simp only [e10, e13, e9, e92, e0, Bool.false_eq_true, if_false, Bool.or_false]
        rw [List.cons_append, tsvU_cons]
        simp only [e10, e13, e9, e92, Bool.or_false, Bool.false_eq_true, if_false, List.nil_append]
    rw [step, ih]
    simp [Bool.or_assoc]

/-- the TSV domain: a non-empty string that does not spell a number or a boolean -/
inductive TsvGood : Val → Val → Prop
  | str (s : Bytes) (hne : s ≠ []) (ht : s ≠ trueWord) (hf : s ≠ falseWord) (hn : parseSingleNum s = none) :
      TsvGood (.tstr s) (.tstr s)

theorem tsv_field_inv (fmt) : FieldInv tsvField (writeField fmt writeTsvStr) 9 TsvGood := by
  intro v v' h tail ht
  cases h with
  | str s hne htw hfw hn =>
    refine ⟨⟨s, tail.head?, s.any tsvSpecial⟩, ?_, rfl, ?_, ?_⟩
    · simp only [writeField, tsvField]
      rw [tsvU_esc]
      simpa using endsField_tsv_end _ _ _ ht
    · simp only [Field.toVal]
      cases s.any tsvSpecial with
      | true => rfl
      | false => simp [hne, htw, hfw, hn]
    · simp [Field.isEmpty, hne]

theorem csv_field_inv (fmt) : FieldInv csvField (writeField fmt writeCsvStr) 44 (CsvGood fmt) := by
  intro v v' h tail ht
  exact csv_field_read fmt v v' h tail ht

end Jaq.C14.TabLemmas
