/-
  C17 — helper lemmas: unfolding of the parse loop, of `runEvents` and `mainLoop`, an induction
  principle for the main loop, and the invariants the property theorems are assembled from.
-/
import JaqVerif.C17.Spec

namespace Jaq.C17
variable {V : Type}

/-! ### `Cli::parse` -/


theorem parseLoop_nil (c : Cli) (m : Mode) : Cli.parseLoop c m [] = .ok c := by
  rw [Cli.parseLoop]

theorem parseLoop_cons (c : Cli) (m : Mode) (a : Arg) (rest : List Arg) :
    Cli.parseLoop c m (a :: rest) =
      match c.step m a rest with
      | .error e => .error e
      | .ok (c', m', k) => Cli.parseLoop c' m' (rest.drop k) := by
  rw [Cli.parseLoop]
  cases c.step m a rest with
  | error e => rfl
  | ok r => rfl

theorem parseLoop_of_step {c : Cli} {m : Mode} {a : Arg} {rest : List Arg} {c' : Cli} {m' : Mode} {k : Nat}
    (h : c.step m a rest = .ok (c', m', k)) :
    Cli.parseLoop c m (a :: rest) = Cli.parseLoop c' m' (rest.drop k) := by
  rw [parseLoop_cons, h]

theorem format_parse_name (f : Format) : Format.parse f.name = some f := by
  cases f <;> decide


theorem step_option (o : Opt) (c : Cli) (m : Mode) (post : List Arg) :
    Cli.parseLoop c m (o.tokens ++ post) = Cli.parseLoop (o.effect c) m post := by
  cases o with
  | from_ f =>
    simp [Opt.tokens, Opt.effect, parseLoop_cons, Cli.step, Cli.long, parseFormat, Arg.str?, format_parse_name]
  | to f =>
    simp [Opt.tokens, Opt.effect, parseLoop_cons, Cli.step, Cli.long, parseFormat, Arg.str?, format_parse_name]
  | libraryPath l d =>
    cases l <;> simp [Opt.tokens, sl, Opt.effect, parseLoop_cons, Cli.step, Cli.long, Cli.short, Cli.shorts, Cli.viaShort]
  | arg k v => simp [Opt.tokens, Opt.effect, parseLoop_cons, Cli.step, Cli.long, parseKeyVal, Arg.intoString]
  | argjson k v => simp [Opt.tokens, Opt.effect, parseLoop_cons, Cli.step, Cli.long, parseKeyVal, Arg.intoString]
  | slurpfile k v => simp [Opt.tokens, Opt.effect, parseLoop_cons, Cli.step, Cli.long, parseKeyVal, Arg.intoString]
  | rawfile k v => simp [Opt.tokens, Opt.effect, parseLoop_cons, Cli.step, Cli.long, parseKeyVal, Arg.intoString]
  | rawInput0 => simp [Opt.tokens, Opt.effect, parseLoop_cons, Cli.step, Cli.long]
  | rawOutput0 => simp [Opt.tokens, Opt.effect, parseLoop_cons, Cli.step, Cli.long]
  | tab => simp [Opt.tokens, Opt.effect, parseLoop_cons, Cli.step, Cli.long]
  | nullInput l | rawInput l | slurp l | compact l | rawOutput l | join l | inPlace l | sortKeys l | color l | mono l
  | fromFile l | exitStatus l | version l | help l =>
    cases l <;> simp [Opt.tokens, sl, Opt.effect, parseLoop_cons, Cli.step, Cli.long, Cli.short, Cli.shorts, Cli.viaShort]


theorem flagEffect_mem {ch : Char} {f : Cli → Cli} (h : flagEffect ch = some f) :
    ch ∈ ['R','n','s','r','c','j','i','S','C','M','f','e','V','h'] := by
  apply Classical.byContradiction
  intro hn
  simp at hn
  simp [flagEffect, hn] at h

theorem short_of_flagEffect {ch : Char} {f : Cli → Cli} (h : flagEffect ch = some f) (c : Cli) (rest : List Arg) :
    c.short ch rest = .ok (f c, 0) := by
  have hm := flagEffect_mem h
  simp only [List.mem_cons, List.mem_nil_iff, or_false] at hm
  rcases hm with rfl|rfl|rfl|rfl|rfl|rfl|rfl|rfl|rfl|rfl|rfl|rfl|rfl|rfl <;>
    (simp [flagEffect] at h; subst h; simp [Cli.short, Opt.effect])

/-- apply the effects of a run of argument-less short flags -/
def applyFlags (c : Cli) : List Char → Cli
  | [] => c
  | ch :: chs => match flagEffect ch with
    | some f => applyFlags (f c) chs
    | none => c

theorem shorts_noarg (chs : List Char) (h : ∀ ch ∈ chs, (flagEffect ch).isSome = true) (c : Cli) (rest : List Arg) :
    c.shorts chs rest = .ok (applyFlags c chs, 0) := by
  induction chs generalizing c with
  | nil => simp [Cli.shorts, applyFlags]
  | cons ch chs ih =>
    have h1 := h ch (by simp)
    cases hf : flagEffect ch with
    | none => simp [hf] at h1
    | some f =>
      have := ih (fun x hx => h x (by simp [hx])) (f c)
      simp [Cli.shorts, short_of_flagEffect hf, applyFlags, hf, this]

theorem flagEffect_dash : flagEffect '-' = none := by decide

theorem step_combined (chs : List Char) (h : ∀ ch ∈ chs, (flagEffect ch).isSome = true) (c : Cli) (m : Mode) (rest : List Arg) :
    c.step m (.str (String.ofList ('-' :: chs))) rest = .ok (applyFlags c chs, m, 0) := by
  cases chs with
  | nil => simp [Cli.step, Cli.shorts, applyFlags]
  | cons ch chs =>
    have hne : ch ≠ '-' := by
      intro e; subst e
      have := h '-' (by simp)
      simp [flagEffect_dash] at this
    simp only [Cli.step, String.toList_ofList]
    split
    · rename_i name heq
      simp at heq
      exact absurd heq.1 hne
    · rename_i chs' heq
      simp at heq
      subst heq
      simp [shorts_noarg _ h]
    · rename_i h1 h2
      exact absurd rfl (h2 _)

/-! ### `filter::run` on one trace -/

theorem runEvents_out_ok {ops : ValOps V} {w : Writer V} {v : V} {b : Bytes} (hf : w.frame ops v = .ok b)
    (evs : List (Ev V)) (stop : Stop) (st : RunSt V) :
    runEvents ops w (.out v :: evs) stop st =
      runEvents ops w evs stop { st with seen := st.seen ++ [st.sink.flushed], last := some (ops.asBool v),
                                         sink := (st.sink.write b).flush, written := st.written ++ [v] } := by
  simp [runEvents, writeVal, hf]

theorem runEvents_out_err {ops : ValOps V} {w : Writer V} {v : V} {p : Bytes} (hf : w.frame ops v = .error p)
    (evs : List (Ev V)) (stop : Stop) (st : RunSt V) :
    runEvents ops w (.out v :: evs) stop st =
      ({ st with seen := st.seen ++ [st.sink.flushed], last := some (ops.asBool v), sink := st.sink.write p }, some .io) := by
  simp [runEvents, writeVal, hf]

theorem splitWritable_ok {ops : ValOps V} {w : Writer V} {v : V} {b : Bytes} (hf : w.frame ops v = .ok b) (vs : List V) :
    splitWritable ops w (v :: vs) = (v :: (splitWritable ops w vs).1, (splitWritable ops w vs).2) := by
  simp [splitWritable, writable, hf]

theorem splitWritable_err {ops : ValOps V} {w : Writer V} {v : V} {p : Bytes} (hf : w.frame ops v = .error p) (vs : List V) :
    splitWritable ops w (v :: vs) = ([], some v) := by
  simp [splitWritable, writable, hf]

theorem runEvents_spec (ops : ValOps V) (w : Writer V) (evs : List (Ev V)) (stop : Stop) (st : RunSt V) :
    (runEvents ops w evs stop st).1.sink.all =
        st.sink.all ++ framesOf ops w (splitWritable ops w (outsOf evs)).1 ++
          partialOf ops w (splitWritable ops w (outsOf evs)).2
    ∧ (runEvents ops w evs stop st).1.written = st.written ++ (splitWritable ops w (outsOf evs)).1
    ∧ (runEvents ops w evs stop st).2 =
        errOf stop (splitWritable ops w (outsOf evs)).2 := by
  induction evs generalizing st with
  | nil =>
    cases stop <;> simp [runEvents, outsOf, splitWritable, framesOf, stopErr, partialOf, errOf]
  | cons e evs ih =>
    cases e with
    | pull =>
      simp only [runEvents, outsOf]
      have := ih { st with pulls := st.pulls + 1, seen := st.seen ++ [st.sink.flushed] }
      simpa using this
    | out v =>
      cases hf : w.frame ops v with
      | ok b =>
        rw [runEvents_out_ok hf]
        simp only [outsOf, splitWritable_ok hf]
        have := ih { st with seen := st.seen ++ [st.sink.flushed], last := some (ops.asBool v), sink := (st.sink.write b).flush, written := st.written ++ [v] }
        obtain ⟨h1, h2, h3⟩ := this
        refine ⟨?_, ?_, h3⟩
        · rw [h1]; simp [framesOf, frameBytes, hf, Sink.all, Sink.write, Sink.flush]
        · rw [h2]; simp
      | error p =>
        rw [runEvents_out_err hf]
        simp [outsOf, splitWritable_err hf, framesOf, frameBytes, hf, Sink.all, Sink.write, partialOf, errOf]

/-! ### the main loop -/


theorem mainLoop_nil (F : FilterFn V) (ops : ValOps V) (w : Writer V) (pos : Nat) (sink : Sink) (last : Option Bool) (seen : List Bytes) :
    mainLoop F ops w pos [] sink last seen = { sink, last, steps := [], seen, err := none } := by
  rw [mainLoop]

theorem mainLoop_bad (F : FilterFn V) (ops : ValOps V) (w : Writer V) (pos : Nat) (rest : List (Item V)) (sink : Sink) (last : Option Bool) (seen : List Bytes) :
    mainLoop F ops w pos (.bad :: rest) sink last seen =
      { sink, last, seen, err := some .parse,
        steps := [{ start := pos, took := true, input := none, tr := ⟨[], .done⟩, pulls := 0, outs := [] }] } := by
  rw [mainLoop]

/-- result of `runEvents` from a fresh per-input state -/
def turn (F : FilterFn V) (ops : ValOps V) (w : Writer V) (x : V) (rest : List (Item V))
    (sink : Sink) (last : Option Bool) (seen : List Bytes) : RunSt V × Option Error :=
  runEvents ops w (F x rest).evs (F x rest).stop { sink, last, seen }

def turnStep (F : FilterFn V) (ops : ValOps V) (w : Writer V) (pos : Nat) (x : V) (rest : List (Item V))
    (sink : Sink) (last : Option Bool) (seen : List Bytes) : Step V :=
  let st := (turn F ops w x rest sink last seen).1
  { start := pos, took := true, input := some x, tr := F x rest, pulls := min st.pulls rest.length, outs := st.written }

theorem mainLoop_val_err (F : FilterFn V) (ops : ValOps V) (w : Writer V) (pos : Nat) (x : V) (rest : List (Item V))
    (sink : Sink) (last : Option Bool) (seen : List Bytes) (e : Error)
    (h : (turn F ops w x rest sink last seen).2 = some e) :
    mainLoop F ops w pos (.val x :: rest) sink last seen =
      let st := (turn F ops w x rest sink last seen).1
      { sink := st.sink, last := st.last, steps := [turnStep F ops w pos x rest sink last seen], seen := st.seen, err := some e } := by
  rw [mainLoop]
  simp only [turn] at h
  simp only [turn, turnStep]
  split <;> simp_all

theorem mainLoop_val_ok (F : FilterFn V) (ops : ValOps V) (w : Writer V) (pos : Nat) (x : V) (rest : List (Item V))
    (sink : Sink) (last : Option Bool) (seen : List Bytes)
    (h : (turn F ops w x rest sink last seen).2 = none) :
    mainLoop F ops w pos (.val x :: rest) sink last seen =
      let st := (turn F ops w x rest sink last seen).1
      let r := mainLoop F ops w (pos + 1 + min st.pulls rest.length) (rest.drop st.pulls) st.sink st.last st.seen
      { r with steps := turnStep F ops w pos x rest sink last seen :: r.steps } := by
  rw [mainLoop]
  simp only [turn] at h
  simp only [turn, turnStep]
  split <;> simp_all

theorem mainLoop_induct (F : FilterFn V) (ops : ValOps V) (w : Writer V)
    (P : Nat → List (Item V) → Sink → Option Bool → List Bytes → LoopRes V → Prop)
    (hnil : ∀ pos sink last seen, P pos [] sink last seen { sink, last, steps := [], seen, err := none })
    (hbad : ∀ pos rest sink last seen, P pos (.bad :: rest) sink last seen
      { sink, last, seen, err := some .parse,
        steps := [{ start := pos, took := true, input := none, tr := ⟨[], .done⟩, pulls := 0, outs := [] }] })
    (herr : ∀ pos x rest sink last seen e, (turn F ops w x rest sink last seen).2 = some e →
      P pos (.val x :: rest) sink last seen
        { sink := (turn F ops w x rest sink last seen).1.sink, last := (turn F ops w x rest sink last seen).1.last,
          steps := [turnStep F ops w pos x rest sink last seen],
          seen := (turn F ops w x rest sink last seen).1.seen, err := some e })
    (hok : ∀ pos x rest sink last seen, (turn F ops w x rest sink last seen).2 = none →
      ∀ r, r = mainLoop F ops w (pos + 1 + min (turn F ops w x rest sink last seen).1.pulls rest.length)
              (rest.drop (turn F ops w x rest sink last seen).1.pulls)
              (turn F ops w x rest sink last seen).1.sink (turn F ops w x rest sink last seen).1.last
              (turn F ops w x rest sink last seen).1.seen →
      P (pos + 1 + min (turn F ops w x rest sink last seen).1.pulls rest.length)
        (rest.drop (turn F ops w x rest sink last seen).1.pulls)
        (turn F ops w x rest sink last seen).1.sink (turn F ops w x rest sink last seen).1.last
        (turn F ops w x rest sink last seen).1.seen r →
      P pos (.val x :: rest) sink last seen { r with steps := turnStep F ops w pos x rest sink last seen :: r.steps }) :
    ∀ pos items sink last seen, P pos items sink last seen (mainLoop F ops w pos items sink last seen) := by
  intro pos items
  induction h : items.length using Nat.strongRecOn generalizing pos items with
  | _ n ih =>
    intro sink last seen
    match items, h with
    | [], _ => rw [mainLoop_nil]; exact hnil ..
    | .bad :: rest, _ => rw [mainLoop_bad]; exact hbad ..
    | .val x :: rest, h =>
      cases he : (turn F ops w x rest sink last seen).2 with
      | some e => rw [mainLoop_val_err _ _ _ _ _ _ _ _ _ e he]; exact herr _ _ _ _ _ _ _ he
      | none =>
        rw [mainLoop_val_ok _ _ _ _ _ _ _ _ _ he]
        apply hok _ _ _ _ _ _ he _ rfl
        apply ih (rest.drop (turn F ops w x rest sink last seen).1.pulls).length _ _ _ rfl
        simp [List.length_drop] at h ⊢; omega

/-! ### invariants of the main loop -/


theorem drop_cons_info {α} {all : List α} {pos : Nat} {x : α} {rest : List α} (h : all.drop pos = x :: rest) :
    all[pos]? = some x ∧ all.drop (pos + 1) = rest ∧ all.length = pos + 1 + rest.length := by
  refine ⟨?_, ?_, ?_⟩
  · have : (all.drop pos)[0]? = some x := by rw [h]; rfl
    simpa [List.getElem?_drop] using this
  · have : (all.drop pos).drop 1 = rest := by rw [h]; rfl
    simpa [List.drop_drop, Nat.add_comm] using this
  · have : (all.drop pos).length = rest.length + 1 := by rw [h]; rfl
    simp [List.length_drop] at this; omega

theorem drop_min {α} (rest : List α) (p : Nat) : rest.drop p = rest.drop (min p rest.length) := by
  by_cases h : p ≤ rest.length
  · rw [Nat.min_eq_left h]
  · have h' : rest.length ≤ p := by omega
    rw [Nat.min_eq_right h', List.drop_eq_nil_of_le h', List.drop_eq_nil_of_le (Nat.le_refl _)]

theorem mainLoop_cursor (F : FilterFn V) (ops : ValOps V) (w : Writer V) (null : V) (all : List (Item V)) :
    ∀ pos items sink last seen, all.drop pos = items → pos ≤ all.length →
      Chain pos (mainLoop F ops w pos items sink last seen).steps ∧
      finalCursor pos (mainLoop F ops w pos items sink last seen).steps ≤ all.length ∧
      ∀ s ∈ (mainLoop F ops w pos items sink last seen).steps, StepFaithful F null all s := by
  apply mainLoop_induct F ops w
    (fun pos items _ _ _ r => all.drop pos = items → pos ≤ all.length →
      Chain pos r.steps ∧ finalCursor pos r.steps ≤ all.length ∧ ∀ s ∈ r.steps, StepFaithful F null all s)
  · intro pos sink last seen _ hp
    simp [Chain, finalCursor, hp]
  · intro pos rest sink last seen hd hp
    obtain ⟨h1, h2, h3⟩ := drop_cons_info hd
    simp [Chain, finalCursor, Step.next, StepFaithful, h1]; omega
  · intro pos x rest sink last seen e he hd hp
    obtain ⟨h1, h2, h3⟩ := drop_cons_info hd
    simp [Chain, finalCursor, Step.next, StepFaithful, turnStep, h1, h2]
    omega
  · intro pos x rest sink last seen he r hr ih hd hp
    obtain ⟨h1, h2, h3⟩ := drop_cons_info hd
    have hd' : all.drop (pos + 1 + min (turn F ops w x rest sink last seen).1.pulls rest.length)
        = rest.drop (turn F ops w x rest sink last seen).1.pulls := by
      rw [drop_min rest, ← h2, List.drop_drop]
    have := ih hd' (by omega)
    obtain ⟨c1, c2, c3⟩ := this
    refine ⟨?_, ?_, ?_⟩
    · simp [Chain, turnStep, Step.next]; exact c1
    · simp [finalCursor, turnStep, Step.next]; exact c2
    · intro s hs
      simp at hs
      rcases hs with rfl | hs
      · simp [StepFaithful, turnStep, Step.next, h1, h2]; omega
      · exact c3 s hs

/-- facts about one turn, from `runEvents_spec` on a fresh per-input state -/
theorem turn_spec (F : FilterFn V) (ops : ValOps V) (w : Writer V) (x : V) (rest : List (Item V))
    (sink : Sink) (last : Option Bool) (seen : List Bytes) :
    (turn F ops w x rest sink last seen).1.sink.all =
        sink.all ++ framesOf ops w (splitWritable ops w (outsOf (F x rest).evs)).1 ++
          partialOf ops w (splitWritable ops w (outsOf (F x rest).evs)).2
    ∧ (turn F ops w x rest sink last seen).1.written = (splitWritable ops w (outsOf (F x rest).evs)).1
    ∧ (turn F ops w x rest sink last seen).2 =
        errOf (F x rest).stop (splitWritable ops w (outsOf (F x rest).evs)).2 := by
  have := runEvents_spec ops w (F x rest).evs (F x rest).stop { sink, last, seen }
  simpa [turn] using this

theorem mainLoop_stdout (F : FilterFn V) (ops : ValOps V) (w : Writer V) :
    ∀ pos items sink last seen,
      (mainLoop F ops w pos items sink last seen).sink.all =
        sink.all ++ (mainLoop F ops w pos items sink last seen).steps.flatMap (stepBytes ops w) ∧
      ∀ s ∈ (mainLoop F ops w pos items sink last seen).steps,
        s.outs = (splitWritable ops w (outsOf s.tr.evs)).1 := by
  apply mainLoop_induct F ops w
    (fun _ _ sink _ _ r => r.sink.all = sink.all ++ r.steps.flatMap (stepBytes ops w) ∧
      ∀ s ∈ r.steps, s.outs = (splitWritable ops w (outsOf s.tr.evs)).1)
  · intro pos sink last seen; simp
  · intro pos rest sink last seen
    simp [stepBytes, outsOf, splitWritable, framesOf, partialOf]
  · intro pos x rest sink last seen e he
    obtain ⟨h1, h2, h3⟩ := turn_spec F ops w x rest sink last seen
    simp [stepBytes, turnStep, h1, h2]
  · intro pos x rest sink last seen he r hr ih
    obtain ⟨h1, h2, h3⟩ := turn_spec F ops w x rest sink last seen
    obtain ⟨i1, i2⟩ := ih
    refine ⟨?_, ?_⟩
    · simp only [List.flatMap_cons]
      rw [i1, h1]
      simp [stepBytes, turnStep, List.append_assoc]
    · intro s hs
      simp at hs
      rcases hs with rfl | hs
      · simp [turnStep, h2]
      · exact i2 s hs

theorem mainLoop_err (F : FilterFn V) (ops : ValOps V) (w : Writer V) :
    ∀ pos items sink last seen,
      (mainLoop F ops w pos items sink last seen).err = lastErr ops w (mainLoop F ops w pos items sink last seen).steps ∧
      ∀ s ∈ (mainLoop F ops w pos items sink last seen).steps.dropLast, stepErr ops w s = none := by
  apply mainLoop_induct F ops w
    (fun _ _ _ _ _ r => r.err = lastErr ops w r.steps ∧ ∀ s ∈ r.steps.dropLast, stepErr ops w s = none)
  · intro pos sink last seen; simp [lastErr]
  · intro pos rest sink last seen; simp [lastErr, stepErr]
  · intro pos x rest sink last seen e he
    obtain ⟨h1, h2, h3⟩ := turn_spec F ops w x rest sink last seen
    simp [lastErr, stepErr, turnStep, ← h3, he]
  · intro pos x rest sink last seen he r hr ih
    obtain ⟨h1, h2, h3⟩ := turn_spec F ops w x rest sink last seen
    obtain ⟨i1, i2⟩ := ih
    have hstep : stepErr ops w (turnStep F ops w pos x rest sink last seen) = none := by
      simp [stepErr, turnStep, ← h3, he]
    cases hs : r.steps with
    | nil =>
      have : r.err = none := by rw [i1, hs]; rfl
      simp [lastErr, hstep, this]
    | cons t ts =>
      refine ⟨?_, ?_⟩
      · simp only [lastErr, List.getLast?_cons_cons] at *
        rw [i1, hs]
      · intro s hs'
        simp only [List.dropLast_cons_cons] at hs'
        simp at hs'
        rcases hs' with rfl | hs'
        · exact hstep
        · exact i2 s (by rw [hs]; exact hs')

theorem lastOf_nil (ops : ValOps V) (init : Option Bool) : lastOf ops init [] = init := rfl

theorem lastOf_cons (ops : ValOps V) (init : Option Bool) (v : V) (vs : List V) :
    lastOf ops init (v :: vs) = lastOf ops (some (ops.asBool v)) vs := by
  cases vs with
  | nil => simp [lastOf]
  | cons u t =>
    simp only [lastOf, List.getLast?_cons_cons]
    cases h : (u :: t).getLast? <;> simp_all

theorem lastOf_append (ops : ValOps V) (init : Option Bool) (a b : List V) :
    lastOf ops (lastOf ops init a) b = lastOf ops init (a ++ b) := by
  induction a generalizing init with
  | nil => simp [lastOf_nil]
  | cons v vs ih => simp only [List.cons_append, lastOf_cons, ih]

theorem splitWritable_none (ops : ValOps V) (w : Writer V) (vs : List V) (h : (splitWritable ops w vs).2 = none) :
    (splitWritable ops w vs).1 = vs := by
  induction vs with
  | nil => rfl
  | cons v vs ih =>
    unfold splitWritable at h ⊢
    split
    · rename_i hw; simp [hw] at h; simp [ih h]
    · rename_i hw; simp [hw] at h

theorem errOf_none {stop : Stop} {o : Option V} (h : errOf stop o = none) : o = none ∧ stop = .done := by
  cases o with
  | some v => simp [errOf] at h
  | none => cases stop <;> simp_all [errOf, stopErr]

theorem runEvents_last (ops : ValOps V) (w : Writer V) (evs : List (Ev V)) (stop : Stop) (st : RunSt V)
    (h : (splitWritable ops w (outsOf evs)).2 = none) :
    (runEvents ops w evs stop st).1.last = lastOf ops st.last (outsOf evs) := by
  induction evs generalizing st with
  | nil => cases stop <;> simp [runEvents, outsOf, lastOf]
  | cons e evs ih =>
    cases e with
    | pull =>
      simp only [runEvents, outsOf] at h ⊢
      exact ih _ h
    | out v =>
      cases hf : w.frame ops v with
      | ok b =>
        rw [runEvents_out_ok hf]
        simp only [outsOf, splitWritable_ok hf] at h
        simp only [outsOf, lastOf_cons]
        exact ih _ h
      | error p =>
        simp [outsOf, splitWritable_err hf] at h

theorem runEvents_pulls (ops : ValOps V) (w : Writer V) (evs : List (Ev V)) (stop : Stop) (st : RunSt V)
    (h : (splitWritable ops w (outsOf evs)).2 = none) :
    (runEvents ops w evs stop st).1.pulls = st.pulls + pullsOf evs := by
  induction evs generalizing st with
  | nil => cases stop <;> simp [runEvents, pullsOf]
  | cons e evs ih =>
    cases e with
    | pull =>
      simp only [runEvents, outsOf, pullsOf] at h ⊢
      rw [ih _ h]; simp; omega
    | out v =>
      cases hf : w.frame ops v with
      | ok b =>
        rw [runEvents_out_ok hf]
        simp only [outsOf, splitWritable_ok hf] at h
        simp only [pullsOf]
        exact ih _ h
      | error p =>
        simp [outsOf, splitWritable_err hf] at h

/-- every observation of fd 1 made while the filter computes its next event shows exactly the
frames of the outputs yielded so far -/
theorem runEvents_seen (ops : ValOps V) (w : Writer V) (evs : List (Ev V)) (stop : Stop) (st : RunSt V)
    (hb : st.sink.buf = []) :
    (runEvents ops w evs stop st).1.seen = st.seen ++ expectedSeen ops w st.sink.flushed evs := by
  induction evs generalizing st with
  | nil => cases stop <;> simp [runEvents, expectedSeen]
  | cons e evs ih =>
    cases e with
    | pull =>
      simp only [runEvents, expectedSeen]
      rw [ih { st with pulls := st.pulls + 1, seen := st.seen ++ [st.sink.flushed] } hb]; simp
    | out v =>
      cases hf : w.frame ops v with
      | ok b =>
        rw [runEvents_out_ok hf]
        simp only [expectedSeen, hf]
        rw [ih _ (by simp [Sink.flush])]
        simp [Sink.flush, Sink.write, hb]
      | error p =>
        rw [runEvents_out_err hf]
        simp [expectedSeen, hf]

theorem mainLoop_last (F : FilterFn V) (ops : ValOps V) (w : Writer V) :
    ∀ pos items sink last seen, (mainLoop F ops w pos items sink last seen).err = none →
      (mainLoop F ops w pos items sink last seen).last =
        lastOf ops last (stepsOuts (mainLoop F ops w pos items sink last seen).steps) := by
  apply mainLoop_induct F ops w
    (fun _ _ _ last _ r => r.err = none → r.last = lastOf ops last (stepsOuts r.steps))
  · intro pos sink last seen _; simp [stepsOuts, lastOf]
  · intro pos rest sink last seen h; simp at h
  · intro pos x rest sink last seen e he h; simp at h
  · intro pos x rest sink last seen he r hr ih h
    obtain ⟨h1, h2, h3⟩ := turn_spec F ops w x rest sink last seen
    rw [he] at h3
    obtain ⟨hn, _⟩ := errOf_none h3.symm
    have hl : (turn F ops w x rest sink last seen).1.last = lastOf ops last (outsOf (F x rest).evs) := by
      have := runEvents_last ops w (F x rest).evs (F x rest).stop { sink, last, seen } hn
      simpa [turn] using this
    have ho : (turnStep F ops w pos x rest sink last seen).outs = outsOf (F x rest).evs := by
      simp [turnStep, h2, splitWritable_none ops w _ hn]
    have := ih h
    simp only [stepsOuts, List.flatMap_cons] at this ⊢
    rw [this, hl, ho, lastOf_append]

theorem range'_append' (a m n : Nat) : List.range' a m ++ List.range' (a + m) n = List.range' a (m + n) := by
  simp

theorem step_start_le_next (s : Step V) : s.start ≤ s.next := by
  simp [Step.next]; omega

theorem consumed_range' (p : Nat) (steps : List (Step V)) (h : Chain p steps) :
    p ≤ finalCursor p steps ∧ consumed steps = List.range' p (finalCursor p steps - p) := by
  induction steps generalizing p with
  | nil => simp [finalCursor, consumed]
  | cons s ss ih =>
    obtain ⟨h1, h2⟩ := h
    obtain ⟨i1, i2⟩ := ih s.next h2
    have hle := step_start_le_next s
    refine ⟨by simp [finalCursor]; omega, ?_⟩
    simp only [consumed, List.flatMap_cons, finalCursor] at i2 ⊢
    rw [i2, ← h1]
    have : s.start + (s.next - s.start) = s.next := by omega
    have e : finalCursor s.next ss - s.start = (s.next - s.start) + (finalCursor s.next ss - s.next) := by omega
    rw [e, ← range'_append', this]



/-! ### `data::run` (with `--null-input`) -/

theorem dataRun_cursor (F : FilterFn V) (ops : ValOps V) (w : Writer V) (null : V) (ni : Bool)
    (items : List (Item V)) (sink : Sink) :
    Chain 0 (dataRun F ops w null ni items sink).steps ∧
    finalCursor 0 (dataRun F ops w null ni items sink).steps ≤ items.length ∧
    ∀ s ∈ (dataRun F ops w null ni items sink).steps, StepFaithful F null items s := by
  cases ni with
  | false =>
    simp only [dataRun]
    exact mainLoop_cursor F ops w null items 0 items sink none [] (by simp) (by omega)
  | true =>
    simp [dataRun, Chain, finalCursor, Step.next, StepFaithful]
    omega

theorem dataRun_stdout (F : FilterFn V) (ops : ValOps V) (w : Writer V) (null : V) (ni : Bool)
    (items : List (Item V)) (sink : Sink) :
    (dataRun F ops w null ni items sink).sink.all =
      sink.all ++ (dataRun F ops w null ni items sink).steps.flatMap (stepBytes ops w) ∧
    ∀ s ∈ (dataRun F ops w null ni items sink).steps, s.outs = (splitWritable ops w (outsOf s.tr.evs)).1 := by
  cases ni with
  | false => simp only [dataRun]; exact mainLoop_stdout F ops w 0 items sink none []
  | true =>
    have := runEvents_spec ops w (F null items).evs (F null items).stop { sink }
    simp [dataRun, stepBytes, this]

theorem dataRun_err (F : FilterFn V) (ops : ValOps V) (w : Writer V) (null : V) (ni : Bool)
    (items : List (Item V)) (sink : Sink) :
    (dataRun F ops w null ni items sink).err = lastErr ops w (dataRun F ops w null ni items sink).steps ∧
    ∀ s ∈ (dataRun F ops w null ni items sink).steps.dropLast, stepErr ops w s = none := by
  cases ni with
  | false => simp only [dataRun]; exact mainLoop_err F ops w 0 items sink none []
  | true =>
    have := runEvents_spec ops w (F null items).evs (F null items).stop { sink }
    simp [dataRun, lastErr, stepErr, this]

theorem dataRun_last (F : FilterFn V) (ops : ValOps V) (w : Writer V) (null : V) (ni : Bool)
    (items : List (Item V)) (sink : Sink) (h : (dataRun F ops w null ni items sink).err = none) :
    (dataRun F ops w null ni items sink).last = lastOf ops none (stepsOuts (dataRun F ops w null ni items sink).steps) := by
  cases ni with
  | false => simp only [dataRun] at h ⊢; exact mainLoop_last F ops w 0 items sink none [] h
  | true =>
    have hs := runEvents_spec ops w (F null items).evs (F null items).stop { sink }
    simp only [dataRun] at h ⊢
    rw [hs.2.2] at h
    obtain ⟨hn, _⟩ := errOf_none h
    have hl := runEvents_last ops w (F null items).evs (F null items).stop { sink } hn
    simp [stepsOuts, hl, hs.2.1, splitWritable_none ops w _ hn]

/-! ### the loop over the files -/

theorem lastOf_merge (ops : ValOps V) (init : Option Bool) (vs : List V) :
    mergeLast true init (lastOf ops none vs) = lastOf ops init vs := by
  unfold lastOf mergeLast
  cases vs.getLast? <;> simp

theorem filesLoop_inv (W : World V) (c : Cli) (w : Writer V) (F : Arg → FilterFn V) (fs : List Arg) :
    ∀ (sink : Sink) (last : Option Bool) (logs : List (FileLog V)) (seen : List Bytes) (base : Bytes),
      sink.buf = [] → sink.flushed = base ++ logs.flatMap (fileBytes W.ops w) →
      (∀ f ∈ logs, FileOk F W.null f) →
      last = lastOf W.ops none (logs.flatMap fun f => stepsOuts f.steps) →
      let r := filesLoop W c w F true fs sink last logs seen
      r.1.sink.buf = [] ∧ r.1.sink.flushed = base ++ r.1.files.flatMap (fileBytes W.ops w) ∧
      (∀ f ∈ r.1.files, FileOk F W.null f) ∧
      (r.1.result = .ok () → r.2 = lastOf W.ops none (r.1.files.flatMap fun f => stepsOuts f.steps)) := by
  induction fs with
  | nil =>
    intro sink last logs seen base hb hf hok hl
    simp [filesLoop, hb, hf, hl]
    exact hok
  | cons f fs ih =>
    intro sink last logs seen base hb hf hok hl
    simp only [filesLoop]
    cases hload : W.loadFile f with
    | none => simp [hb, hf]; exact hok
    | some bytes =>
      simp only []
      cases hrd : W.reader ((c.from_.orElse fun _ => Format.determine f).getD .json) c.slurp bytes with
      | error e => simp [hb, hf]; exact hok
      | ok items =>
        simp only []
        have hcur := dataRun_cursor (F f) W.ops w W.null c.nullInput items sink
        have hout := dataRun_stdout (F f) W.ops w W.null c.nullInput items sink
        have herr := dataRun_err (F f) W.ops w W.null c.nullInput items sink
        have hall : (dataRun (F f) W.ops w W.null c.nullInput items sink).sink.all
            = base ++ (logs ++ [(⟨f, (c.from_.orElse fun _ => Format.determine f).getD .json, items,
                                  (dataRun (F f) W.ops w W.null c.nullInput items sink).steps⟩ : FileLog V)]).flatMap (fileBytes W.ops w) := by
          rw [hout.1]; simp [Sink.all, hb, hf, fileBytes]
        have hok' : ∀ g ∈ logs ++ [(⟨f, (c.from_.orElse fun _ => Format.determine f).getD .json, items,
                                  (dataRun (F f) W.ops w W.null c.nullInput items sink).steps⟩ : FileLog V)], FileOk F W.null g := by
          intro g hg
          simp at hg
          rcases hg with hg | rfl
          · exact hok g hg
          · exact hcur
        cases he : (dataRun (F f) W.ops w W.null c.nullInput items sink).err with
        | some e =>
          simp [withStdout, he, Sink.flush]
          refine ⟨?_, ?_⟩
          · simpa [Sink.all] using hall
          · intro g hg; exact hok' g (by simpa using hg)
        | none =>
          simp only [withStdout, he]
          apply ih
          · simp [Sink.flush]
          · simpa [Sink.flush, Sink.all] using hall
          · exact hok'
          · have := dataRun_last (F f) W.ops w W.null c.nullInput items sink he
            rw [this, hl, lastOf_merge, lastOf_append]
            simp

/-! ### `real_main` -/

theorem filesLoop_start (W : World V) (c : Cli) (w : Writer V) (F : Arg → FilterFn V) (fs : List Arg) :
    let r := filesLoop W c w F true fs {} none [] []
    r.1.sink.buf = [] ∧ r.1.sink.flushed = r.1.files.flatMap (fileBytes W.ops w) ∧
    (∀ f ∈ r.1.files, FileOk F W.null f) ∧
    (r.1.result = .ok () → r.2 = lastOf W.ops none (r.1.files.flatMap fun f => stepsOuts f.steps)) := by
  have := filesLoop_inv W c w F fs {} none [] [] [] rfl (by simp) (by simp) (by simp [lastOf])
  simpa using this

theorem realMain_stdout (W : World V) (c : Cli) :
    (realMain W c true).sink.buf = [] ∧
    (realMain W c true).sink.flushed = (realMain W c true).files.flatMap (fileBytes W.ops (c.writer W)) := by
  unfold realMain
  simp only []
  split
  · simp
  · split
    · simp
    · split
      · simp
      · split
        · split
          · simp
          · rename_i items hrd
            have hout := dataRun_stdout (‹Compiled V›.run (List.map (fun x => x.snd) ‹List (String × V)› ++ [W.strVal "<stdin>"] ++ ‹Compiled V›.imported))
              W.ops (c.writer W) W.null c.nullInput items {}
            split <;> simp [withStdout, Sink.flush, fileBytes] <;> simpa [Sink.all] using hout.1
        · split
          · simp
          · rename_i comp _ _
            have h := filesLoop_start W c (c.writer W)
              (fun f => ‹Compiled V›.run (List.map (fun x => x.snd) ‹List (String × V)› ++ [W.pathVal f] ++ ‹Compiled V›.imported)) c.files
            split <;> exact ⟨h.1, h.2.1⟩

theorem bindAll_err {α} (f : α → Except Error V) (hf : ∀ a e, f a = .error e → e.stops)
    (l : List (String × α)) (e : Error) (h : bindAll f l = .error e) : e.stops := by
  induction l with
  | nil => simp [bindAll] at h
  | cons kv rest ih =>
    obtain ⟨k, a⟩ := kv
    simp only [bindAll] at h
    cases hfa : f a with
    | error e' => simp [hfa] at h; subst h; exact hf a _ hfa
    | ok v =>
      simp only [hfa] at h
      cases hr : bindAll f rest with
      | error e' => simp [hr] at h; subst h; exact ih hr
      | ok vs => simp [hr] at h

theorem binds_err (W : World V) (c : Cli) (e : Error) (h : binds W c = .error e) : e.stops := by
  unfold binds at h
  cases hn : named W c with
  | ok nv => simp [hn] at h
  | error e' =>
    simp [hn] at h; subst h
    unfold named at hn
    repeat' split at hn
    all_goals first
      | (simp at hn; done)
      | (injection hn with hn; subst hn
         rename_i heq
         refine bindAll_err _ ?_ _ _ heq
         intro a e he
         repeat' split at he
         all_goals first | (simp at he; done) | (injection he with he; subst he; trivial))

theorem stepErr_stops (ops : ValOps V) (w : Writer V) (s : Step V) (e : Error) (h : stepErr ops w s = some e) : e.stops := by
  unfold stepErr at h
  split at h
  · injection h with h; subst h; trivial
  · unfold errOf at h
    split at h
    · unfold stopErr at h
      split at h <;> first | (simp at h; done) | (injection h with h; subst h; trivial)
    · injection h with h; subst h; trivial

theorem lastErr_stops (ops : ValOps V) (w : Writer V) (steps : List (Step V)) (e : Error) (h : lastErr ops w steps = some e) : e.stops := by
  unfold lastErr at h
  split at h
  · simp at h
  · exact stepErr_stops ops w _ e h

theorem dataRun_err_stops (F : FilterFn V) (ops : ValOps V) (w : Writer V) (null : V) (ni : Bool)
    (items : List (Item V)) (sink : Sink) (e : Error) (h : (dataRun F ops w null ni items sink).err = some e) : e.stops := by
  rw [(dataRun_err F ops w null ni items sink).1] at h
  exact lastErr_stops ops w _ e h

theorem filesLoop_result_stops (W : World V) (c : Cli) (w : Writer V) (F : Arg → FilterFn V) (fix : Bool) (fs : List Arg) :
    ∀ (sink : Sink) (last : Option Bool) (logs : List (FileLog V)) (seen : List Bytes) (e : Error),
      (filesLoop W c w F fix fs sink last logs seen).1.result = .error e → e.stops := by
  induction fs with
  | nil => intro sink last logs seen e h; simp [filesLoop] at h
  | cons f fs ih =>
    intro sink last logs seen e h
    simp only [filesLoop] at h
    split at h
    · simp at h; subst h; trivial
    · split at h
      · simp at h; subst h; trivial
      · split at h
        · rename_i e' he
          simp at h; subst h
          exact dataRun_err_stops _ _ _ _ _ _ _ _ (by simpa [withStdout] using he)
        · exact ih _ _ _ _ _ h

theorem realMain_result (W : World V) (c : Cli) :
    (realMain W c true).unmodelled = true ∨
    (∃ e, (realMain W c true).result = .error e ∧ e.stops) ∨
    (realMain W c true).result = exitStatusResult c.exitStatus (lastOf W.ops none (realMain W c true).outs) := by
  unfold realMain
  simp only []
  split
  · rename_i e he; exact .inr (.inl ⟨e, rfl, binds_err W c e he⟩)
  · split
    · rename_i e he
      refine .inr (.inl ⟨e, rfl, ?_⟩)
      repeat' split at he
      all_goals first | (simp at he; done) | (injection he with he; subst he; trivial)
    · split
      · exact .inr (.inl ⟨_, rfl, trivial⟩)
      · split
        · split
          · exact .inr (.inl ⟨_, rfl, trivial⟩)
          · rename_i items hrd
            split
            · rename_i e he
              exact .inr (.inl ⟨e, rfl, dataRun_err_stops _ _ _ _ _ _ _ _ (by simpa [withStdout] using he)⟩)
            · rename_i he
              refine .inr (.inr ?_)
              have := dataRun_last _ _ _ _ _ _ _ (by simpa [withStdout] using he)
              simp [withStdout, MainRes.outs, this]
        · split
          · exact .inl rfl
          · have h := filesLoop_start W c (c.writer W)
              (fun f => ‹Compiled V›.run (List.map (fun x => x.snd) ‹List (String × V)› ++ [W.pathVal f] ++ ‹Compiled V›.imported)) c.files
            split
            · rename_i e he
              exact .inr (.inl ⟨e, he, filesLoop_result_stops _ _ _ _ _ _ _ _ _ _ _ he⟩)
            · rename_i he
              refine .inr (.inr ?_)
              have h4 := h.2.2.2 he
              simp only [MainRes.outs]
              rw [h4]

theorem realMain_files_ok (W : World V) (c : Cli) :
    ∃ F : Arg → FilterFn V, ∀ f ∈ (realMain W c true).files, FileOk F W.null f := by
  unfold realMain
  simp only []
  split
  · exact ⟨fun _ => idFilter, by simp⟩
  · split
    · exact ⟨fun _ => idFilter, by simp⟩
    · split
      · exact ⟨fun _ => idFilter, by simp⟩
      · split
        · split
          · exact ⟨fun _ => idFilter, by simp⟩
          · rename_i items hrd
            refine ⟨fun _ => ‹Compiled V›.run (List.map (fun x => x.snd) ‹List (String × V)› ++ [W.strVal "<stdin>"] ++ ‹Compiled V›.imported), ?_⟩
            have hc := dataRun_cursor (‹Compiled V›.run (List.map (fun x => x.snd) ‹List (String × V)› ++ [W.strVal "<stdin>"] ++ ‹Compiled V›.imported))
              W.ops (c.writer W) W.null c.nullInput items {}
            split <;> (intro f hf; simp at hf; subst hf; simpa [FileOk, withStdout] using hc)
        · split
          · exact ⟨fun _ => idFilter, by simp⟩
          · have h := filesLoop_start W c (c.writer W)
              (fun f => ‹Compiled V›.run (List.map (fun x => x.snd) ‹List (String × V)› ++ [W.pathVal f] ++ ‹Compiled V›.imported)) c.files
            refine ⟨(fun f => ‹Compiled V›.run (List.map (fun x => x.snd) ‹List (String × V)› ++ [W.pathVal f] ++ ‹Compiled V›.imported)), ?_⟩
            split <;> exact h.2.2.1

end Jaq.C17
