import JaqVerif.Lemmas.C18Fs
namespace Jaq.C18

/-- the part of a file's operations before the run on it has ended: touches only the temp file -/
def headOps (j : Job) : List Op := .load j.path :: .mkTemp j.tmp :: writes j.tmp j.written

theorem jobOps_eq_head_tail (j : Job) (h : j.fault ≠ some .loadErr) (h' : j.fault ≠ some .preErr) :
    jobOps j = headOps j ++ j.tail := by
  unfold jobOps headOps
  split
  · contradiction
  · contradiction
  · simp

theorem mem_headOps {j : Job} {op : Op} (h : op ∈ headOps j) :
    op = .load j.path ∨ op = .mkTemp j.tmp ∨ ∃ b, op = .write j.tmp b := by
  simp only [headOps, writes, List.mem_cons, List.mem_map] at h
  rcases h with h | h | ⟨b, _, h⟩
  · exact Or.inl h
  · exact Or.inr (Or.inl h)
  · exact Or.inr (Or.inr ⟨b, h.symm⟩)

theorem mem_tail {j : Job} {op : Op} (h : op ∈ j.tail) :
    op = .stat j.path j.mode ∨ op = .rename j.tmp j.path ∨ op = .chmod j.path j.mode ∨ op = .unlink j.tmp := by
  unfold Job.tail at h
  split at h <;> simp at h
  · rcases h with h | h | h <;> simp [h]
  · rcases h with h | h <;> simp [h]
  · rcases h with h | h <;> simp [h]
  · simp [h]

theorem mem_jobOps {j : Job} {op : Op} (h : op ∈ jobOps j) :
    op = .load j.path ∨ op = .mkTemp j.tmp ∨ (∃ b, op = .write j.tmp b) ∨
    op = .stat j.path j.mode ∨ op = .rename j.tmp j.path ∨ op = .chmod j.path j.mode ∨ op = .unlink j.tmp := by
  by_cases h1 : j.fault = some .loadErr
  · simp [jobOps, h1] at h
  by_cases h2 : j.fault = some .preErr
  · simp [jobOps, h2] at h; exact Or.inl h
  rw [jobOps_eq_head_tail j h1 h2, List.mem_append] at h
  rcases h with h | h
  · rcases mem_headOps h with h | h | h
    · exact Or.inl h
    · exact Or.inr (Or.inl h)
    · exact Or.inr (Or.inr (Or.inl h))
  · rcases mem_tail h with h | h | h | h
    · exact Or.inr (Or.inr (Or.inr (Or.inl h)))
    · exact Or.inr (Or.inr (Or.inr (Or.inr (Or.inl h))))
    · exact Or.inr (Or.inr (Or.inr (Or.inr (Or.inr (Or.inl h)))))
    · exact Or.inr (Or.inr (Or.inr (Or.inr (Or.inr (Or.inr h)))))

/-- the operations of one file touch only its temp file and the file itself -/
theorem jobOps_touches {j : Job} {op : Op} (h : op ∈ jobOps j) {q : Path} (hq : q ∈ op.touches) :
    q = j.tmp ∨ q = j.path := by
  rcases mem_jobOps h with h | h | ⟨b, h⟩ | h | h | h | h <;> subst h <;> simp [Op.touches] at hq <;> simp [hq]

theorem headOps_touches {j : Job} {op : Op} (h : op ∈ headOps j) {q : Path} (hq : q ∈ op.touches) :
    q = j.tmp := by
  rcases mem_headOps h with h | h | ⟨b, h⟩ <;> subst h <;> simp [Op.touches] at hq <;> exact hq

theorem exec_head (fs : FS) (j : Job) (ht : fs j.tmp = none) :
    exec fs (headOps j) = fs.set j.tmp (some (j.written.flatten, tmpMode)) := by
  simp only [headOps, exec_cons, step, ht]
  rw [exec_writes _ _ _ [] tmpMode (by simp), FS.set_set]
  simp

end Jaq.C18
