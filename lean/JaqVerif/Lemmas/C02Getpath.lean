/- Every (value, path) pair that `Id::paths` outputs satisfies `getpath(path) = value`
   (for every term, every environment, every fuel), on well-formed inputs. -/
import JaqVerif.Lemmas.C02Out

namespace Jaq.C02

theorem getpathV_snoc (root : Val) (π : VPath) (k : Val) :
    getpathV root (π ++ [k]) =
      match getpathV root π with
      | .ok v => indexV v k
      | .error e => .error e := by
  induction π generalizing root with
  | nil =>
    simp only [List.nil_append, getpathV]
    cases indexV root k <;> rfl
  | cons x xs ih =>
    simp only [List.cons_append, getpathV]
    cases indexV root x with
    | error e => rfl
    | ok y => exact ih y

/-- the pair is consistent with `root`: `getpath` of the path is the (well-formed) value -/
def Good (root : Val) (z : Val × VPath) : Prop := WF z.1 ∧ getpathV root z.2 = .ok z.1

def AllGood (root : Val) (o : Out (Val × VPath)) : Prop := ∀ z ∈ o.vals, Good root z

theorem good_snoc {root : Val} {vp : Val × VPath} {k y : Val} (h : Good root vp)
    (hy : indexV vp.1 k = .ok y) (hw : WF y) : Good root (y, vp.2 ++ [k]) := by
  refine ⟨hw, ?_⟩
  rw [getpathV_snoc, h.2]
  exact hy

/-! ### well-formedness is inherited by components -/

theorem wf_getD {a : List Val} (h : ∀ x ∈ a, WF x) (k : Nat) : WF (a[k]?.getD .null) := by
  cases hk : a[k]? with
  | none => exact WF.null
  | some x => exact h x (List.mem_of_getElem? hk)

theorem wf_sub {a : List Val} (h : ∀ x ∈ a, WF x) (s t : Nat) : ∀ x ∈ (a.drop s).take t, WF x :=
  fun x hx => h x (List.mem_of_mem_drop (List.mem_of_mem_take hx))

theorem wf_range {v y : Val} {f u : Option Val} (hv : WF v) (h : rangeV v f u = .ok y) : WF y := by
  cases v <;> simp only [rangeV] at h
  all_goals try (cases h; done)
  case bstr b =>
    cases hr : rangeInt f u <;> simp [hr, Except.map] at h
    subst h; exact WF.bstr _
  case tstr b =>
    cases hr : rangeInt f u <;> simp [hr, Except.map] at h
    subst h; exact WF.tstr _
  case arr a =>
    cases hr : rangeInt f u <;> simp [hr, Except.map] at h
    subst h
    cases hv with
    | arr _ ha => exact WF.arr _ (wf_sub ha _ _)

theorem obj_get_mem {o : List (Val × Val)} {k y : Val} (h : Obj.get o k = some y) : ∃ k', (k', y) ∈ o := by
  unfold Obj.get at h
  cases hf : o.find? (fun x => Obj.sameKey k x.1) with
  | none => simp [hf] at h
  | some p =>
    simp [hf] at h
    exact ⟨p.1, by rw [← h]; exact List.mem_of_find?_eq_some hf⟩

theorem wf_obj_get {o : List (Val × Val)} (ho : ∀ p ∈ o, WF p.2) (k : Val) : WF ((Obj.get o k).getD .null) := by
  cases h : Obj.get o k with
  | none => exact WF.null
  | some y =>
    obtain ⟨k', hk⟩ := obj_get_mem h
    exact ho _ hk

theorem wf_index {v k y : Val} (hv : WF v) (h : indexV v k = .ok y) : WF y := by
  cases hv with
  | null => simp [indexV] at h; subst h; exact WF.null
  | bool b => cases k <;> simp [indexV] at h
  | num n => cases k <;> simp [indexV] at h
  | tstr b =>
    cases k <;> simp only [indexV] at h
    all_goals try (cases h; done)
    exact wf_range (WF.tstr b) h
  | bstr b =>
    cases k <;> simp only [indexV] at h
    all_goals try (cases h; done)
    case num n =>
      split at h
      · split at h
        · cases h
          split <;> first | exact WF.num _ | exact WF.null
        · cases h; exact WF.null
      · cases h
    case obj o => exact wf_range (WF.bstr b) h
  | arr a ha =>
    cases k <;> simp only [indexV] at h
    all_goals try (cases h; done)
    case num n =>
      split at h
      · split at h
        · cases h; exact wf_getD ha _
        · cases h; exact WF.null
      · cases h
    case arr y' =>
      split at h
      · cases h; exact WF.arr _ (by simp)
      · cases h
        refine WF.arr _ ?_
        intro x hx
        unfold indicesOf at hx
        simp only [List.mem_filterMap] at hx
        obtain ⟨i, _, hi⟩ := hx
        split at hi
        · cases hi; exact WF.num _
        · cases hi
    case obj o => exact wf_range (WF.arr a ha) h
  | obj o hk ho =>
    have : indexV (.obj o) k = .ok ((Obj.get o k).getD .null) := by cases k <;> rfl
    rw [this] at h
    cases h
    exact wf_obj_get ho k

/-! ### the key that `key_values` reports leads back to the value -/

theorem obj_get_of_mem {o : List (Val × Val)} {k y : Val} (hk : KeysOK o) (h : (k, y) ∈ o) :
    Obj.get o k = some y := by
  induction o with
  | nil => cases h
  | cons p rest ih =>
    obtain ⟨k0, y0⟩ := p
    obtain ⟨hrefl, hne, hrest⟩ := hk
    unfold Obj.get
    cases h with
    | head => simp [List.find?, hrefl]
    | tail _ h =>
      have : Obj.sameKey k k0 = false := hne (k, y) h
      simp only [List.find?, this]
      exact ih hrest h

theorem keyValues_good {v : Val} {kvs : List (Val × Val)} (hv : WF v) (h : keyValues v = .ok kvs) :
    ∀ p ∈ kvs, WF p.2 ∧ indexV v p.1 = .ok p.2 := by
  cases hv <;> simp only [keyValues] at h
  all_goals try (cases h; done)
  case arr a ha =>
    cases h
    intro p hp
    simp only [List.mem_map] at hp
    obtain ⟨⟨x, i⟩, hxi, rfl⟩ := hp
    have hget : a[i]? = some x := List.mem_zipIdx_iff_getElem?.mp hxi
    obtain ⟨hlt, hx⟩ := List.getElem?_eq_some_iff.mp hget
    refine ⟨ha x (List.mem_of_getElem? hget), ?_⟩
    simp [indexV, isIntNum, Num.asPosUsize, absIndex, wrap, hlt, hx]
  case obj o hk ho =>
    cases h
    intro p hp
    refine ⟨ho p hp, ?_⟩
    have : indexV (.obj kvs) p.1 = .ok ((Obj.get kvs p.1).getD .null) := by cases p.1 <;> rfl
    rw [this, obj_get_of_mem hk hp]
    rfl

/-- the path component of a slice leads back to the slice -/
theorem index_rangeKey {v y : Val} {f u : Option Val} (h : rangeV v f u = .ok y)
    (hne : f.isSome ∨ u.isSome) : indexV v (rangeKey f u) = .ok y := by
  have hs : Obj.sameKey kStart kStart = true := by decide
  have he : Obj.sameKey kEnd kEnd = true := by decide
  have hes : Obj.sameKey kEnd kStart = false := by decide
  have hse : Obj.sameKey kStart kEnd = false := by decide
  have hget : Obj.get (match rangeKey f u with | .obj o => o | _ => []) kStart = f ∧
      Obj.get (match rangeKey f u with | .obj o => o | _ => []) kEnd = u := by
    cases f <;> cases u <;> simp [rangeKey, Obj.get, List.find?, hs, he, hes, hse]
  cases v <;> simp only [rangeV] at h
  all_goals try (cases h; done)
  all_goals
    rw [← h]
    cases f <;> cases u <;> simp at hne
    all_goals simp [indexV, rangeKey, rangeV, Obj.get, List.find?, hs, he, hes, hse]

/-! ### parts, compound paths, `..` -/

theorem partPaths_range_good {root : Val} {vp : Val × VPath} (f u : Option Val)
    (hne : f.isSome ∨ u.isSome) (h : Good root vp) :
    AllGood root (Out.ofValR ((rangeV vp.1 f u).map fun y => (y, vp.2 ++ [rangeKey f u]))) := by
  intro z hz
  cases hr : rangeV vp.1 f u with
  | error e => simp [hr, Except.map, Out.ofValR] at hz
  | ok y =>
    simp [hr, Except.map, Out.ofValR] at hz
    subst hz
    exact good_snoc h (index_rangeKey hr hne) (wf_range h.1 hr)

theorem partPaths_good {root : Val} {vp : Val × VPath} (cp : CPart) (h : Good root vp) :
    AllGood root (partPaths cp vp) := by
  intro z hz
  cases cp with
  | index i =>
    simp only [partPaths] at hz
    cases hi : indexV vp.1 i with
    | error e => simp [hi, Except.map, Out.ofValR] at hz
    | ok y =>
      simp [hi, Except.map, Out.ofValR] at hz
      subst hz
      exact good_snoc h hi (wf_index h.1 hi)
  | range f u =>
    cases f <;> cases u
    · simp only [partPaths] at hz
      cases hk : keyValues vp.1 with
      | error e => simp [hk, Except.map, outOfListR] at hz
      | ok kvs =>
        simp [hk, Except.map, outOfListR] at hz
        obtain ⟨k, y, hmem, rfl⟩ := hz
        obtain ⟨hw, hi⟩ := keyValues_good h.1 hk (k, y) hmem
        exact good_snoc h hi hw
    all_goals
      simp only [partPaths] at hz
      exact partPaths_range_good _ _ (by simp) h z hz

theorem cpathPaths_good {root : Val} (cp : CPath) {vp : Val × VPath} (h : Good root vp) :
    AllGood root (cpathPaths cp vp) := by
  induction cp generalizing vp with
  | nil => intro z hz; simp [cpathPaths] at hz; subst hz; exact h
  | cons x rest ih =>
    obtain ⟨p, opt⟩ := x
    intro z hz
    simp only [cpathPaths] at hz
    obtain ⟨y, hy, hz⟩ := Out.mem_bind hz
    exact ih (partPaths_good p h y (Out.mem_dropErr hy)) z hz

theorem recPathsF_good {root : Val} (n : Nat) {vp : Val × VPath} (h : Good root vp) :
    ∀ z ∈ recPathsF n vp, Good root z := by
  induction n generalizing vp with
  | zero => intro z hz; simp [recPathsF] at hz; subst hz; exact h
  | succ n ih =>
    intro z hz
    simp only [recPathsF, List.mem_cons, List.mem_flatMap] at hz
    rcases hz with rfl | ⟨kv, hkv, hz⟩
    · exact h
    · cases hk : keyValues vp.1 with
      | error e => simp [hk, Except.toOption] at hkv
      | ok kvs =>
        simp [hk, Except.toOption] at hkv
        obtain ⟨hw, hi⟩ := keyValues_good h.1 hk kv hkv
        exact ih (good_snoc h hi hw) z hz

/-! ### the evaluator -/

def PathsGood (E : Evals) : Prop :=
  ∀ p env vp root, Good root vp → AllGood root (E.paths p env vp)

theorem foldRun_good {root : Val} (k : FoldKind) (xs : Out Val) (init : Out (Val × VPath))
    (upd proj : Val → Val × VPath → Out (Val × VPath))
    (hi : AllGood root init)
    (hu : ∀ x a, Good root a → AllGood root (upd x a))
    (hp : ∀ x a, Good root a → AllGood root (proj x a)) :
    AllGood root (foldRun k xs init upd proj) := by
  intro z hz
  unfold foldRun at hz
  obtain ⟨i, hiv, hz⟩ := Out.mem_bind hz
  have hgi := hi i hiv
  cases k <;> simp only [foldOut] at hz
  · exact mem_foldL (Good root) (Good root) hu (fun _ _ _ z hz => by simp at hz)
      (fun a ha z hz => by simp at hz; subst hz; exact ha) _ _ i hgi z hz
  · exact mem_foldL (Good root) (Good root) hu (fun _ a ha z hz => by simp at hz; subst hz; exact ha)
      (fun _ _ z hz => by simp at hz) _ _ i hgi z hz
  · exact mem_foldL (Good root) (Good root) hu hp (fun _ _ z hz => by simp at hz) _ _ i hgi z hz

theorem pathsGood_step (E : Evals) (h : PathsGood E) : PathsGood (step E) := by
  intro p env vp root hvp z hz
  cases p <;> simp only [step, stepPaths] at hz
  all_goals try (simp at hz; done)
  case id => simp at hz; subst hz; exact hvp
  case recurse => exact recPathsF_good _ hvp z (by simpa [recPaths] using hz)
  case path f ps =>
    obtain ⟨y, hy, hz⟩ := Out.mem_bind hz
    obtain ⟨cp, _, hz⟩ := Out.mem_bind hz
    exact cpathPaths_good cp (h f env vp root hvp y hy) z hz
  case pipe f g =>
    obtain ⟨y, hy, hz⟩ := Out.mem_bind hz
    exact h g env y root (h f env vp root hvp y hy) z hz
  case comma f g =>
    rcases Out.mem_append hz with hz | hz
    · exact h f env vp root hvp z hz
    · exact h g env vp root hvp z hz
  case bind f x g =>
    obtain ⟨y, _, hz⟩ := Out.mem_bind hz
    exact h g _ vp root hvp z hz
  case ite c t e =>
    obtain ⟨b, _, hz⟩ := Out.mem_bind hz
    exact h _ env vp root hvp z hz
  case alt l r =>
    split at hz
    · simp at hz
    · exact h _ env vp root hvp z hz
  case fold k xs x init upd proj =>
    exact foldRun_good k _ _ _ _ (h init env vp root hvp) (fun xv a ha => h upd _ a root ha)
      (fun xv a ha => h proj _ a root ha) z hz
  case first f => exact h f env vp root hvp z (Out.mem_first hz)
  case last f => exact h f env vp root hvp z (Out.mem_last hz)
  case limit n f =>
    obtain ⟨nv, _, hz⟩ := Out.mem_bind hz
    exact h f env vp root hvp z (mem_takeGtz hz)
  case skip n f =>
    obtain ⟨nv, _, hz⟩ := Out.mem_bind hz
    exact h f env vp root hvp z (mem_dropGtz hz)
  case tryE f => exact h f env vp root hvp z (Out.mem_dropErr hz)
  case fix r body => exact h body _ vp root hvp z hz
  case rcall r =>
    split at hz
    · exact h _ _ vp root hvp z hz
    · simp at hz
  case var x =>
    split at hz <;> simp at hz

theorem pathsGood_ev (n : Nat) : PathsGood (ev n) := by
  induction n with
  | zero => intro p env vp root _ z hz; simp [ev] at hz
  | succ n ih => exact pathsGood_step (ev n) ih

end Jaq.C02
