/- C13 table facts, part B (see C13Tables0.lean). -/
import JaqVerif.Lemmas.C13Tables0

namespace Jaq.C13

/-- `@sh`: the table entry is quoted; inside, `'` becomes `'\''`, every other byte is copied -/
def shEntryOk (b : UInt8) : Bool :=
  tabGet Gen.shQ b == 39 :: shEsc b ++ [39] &&
  (if b == 39 then shEsc b == [39, 92, 39, 39] else shEsc b == [b])

theorem shEntry_ok : ∀ i : Fin 256, shEntryOk (UInt8.ofNat i.val) = true := by decide +kernel

/-- `@csv`: quoted; `"` is doubled, every other byte is copied -/
def csvEntryOk (b : UInt8) : Bool :=
  tabGet Gen.csvQ b == 34 :: csvEsc b ++ [34] &&
  (if b == 34 then csvEsc b == [34, 34] else csvEsc b == [b])

theorem csvEntry_ok : ∀ i : Fin 256, csvEntryOk (UInt8.ofNat i.val) = true := by decide +kernel

end Jaq.C13
