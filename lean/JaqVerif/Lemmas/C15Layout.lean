/-
  C15 — the lexer accepts exactly the layouts (C15/Layout.lean) and returns their tokens.
  Part 1: every layout is lexed to its tokens, whatever trivia it contains (`lex_of_layout`).
-/
import JaqVerif.C15.Layout
import JaqVerif.Lemmas.C15Lex

namespace Jaq.C15

/-! ### character classes (ASCII tables decided once) -/

theorem ascii_table (Q : Char → Bool) (h : ∀ n : Fin 128, Q (Char.ofNat n.val) = true) (c : Char)
    (hc : c.toNat < 128) : Q c = true := by
  have := h ⟨c.toNat, hc⟩
  simpa using this

theorem digit_lt (c : Char) (h : c.isDigit = true) : c.toNat < 128 := by
  simp only [Char.isDigit, Bool.and_eq_true, decide_eq_true_eq, GE.ge, UInt32.le_iff_toNat_le] at h
  have : c.toNat = c.val.toNat := rfl
  have e : '9'.val.toNat = 57 := rfl
  omega

theorem idchar_lt (c : Char) (h : isIdChar c = true) : c.toNat < 128 := by
  simp only [isIdChar, Char.isAlphanum, Char.isAlpha, Char.isUpper, Char.isLower, Char.isDigit, Bool.or_eq_true,
    Bool.and_eq_true, decide_eq_true_eq, GE.ge, UInt32.le_iff_toNat_le] at h
  have : c.toNat = c.val.toNat := rfl
  have e1 : '9'.val.toNat = 57 := rfl
  have e2 : 'Z'.val.toNat = 90 := rfl
  have e3 : 'z'.val.toNat = 122 := rfl
  rcases h with ((h | h) | h) | h
  · omega
  · omega
  · omega
  · subst h; decide

theorem idstart_idchar (c : Char) (h : isIdStart c = true) : isIdChar c = true := by
  simp only [isIdStart, isIdChar, Char.isAlphanum, Bool.or_eq_true] at *
  rcases h with h | h
  · exact Or.inl (Or.inl h)
  · exact Or.inr h

theorem digit_idchar (c : Char) (h : c.isDigit = true) : isIdChar c = true := by
  simp only [isIdChar, Char.isAlphanum, Bool.or_eq_true] at *
  exact Or.inl (Or.inr h)

/-- what the dispatch of `token` sees for an identifier character -/
theorem idchar_facts (c : Char) (h : isIdChar c = true) :
    isWs c = false ∧ c ≠ '#' ∧ c ≠ '$' ∧ c ≠ '@' ∧ isHdOp c = false ∧ c ≠ '.' ∧ c ≠ ':' ∧ c ≠ ';' ∧ c ≠ ',' ∧
    c ≠ '?' ∧ c ≠ '"' ∧ c ≠ '(' ∧ c ≠ '[' ∧ c ≠ '{' ∧ c ≠ ')' ∧ c ≠ ']' ∧ c ≠ '}' ∧ c ≠ '\\' ∧ isTlOp c = false ∧
    (c.isDigit = true → isIdStart c = false) ∧ (isIdStart c = false → c.isDigit = true) := by
  have := ascii_table (fun c => !isIdChar c || (!isWs c && c != '#' && c != '$' && c != '@' && !isHdOp c && c != '.' &&
      c != ':' && c != ';' && c != ',' && c != '?' && c != '"' && c != '(' && c != '[' && c != '{' && c != ')' &&
      c != ']' && c != '}' && c != '\\' && !isTlOp c && (!c.isDigit || !isIdStart c) && (isIdStart c || c.isDigit)))
    (by decide) c (idchar_lt c h)
  simp only [h, Bool.not_true, Bool.false_or, Bool.and_eq_true, Bool.not_eq_true', bne_iff_ne, ne_eq,
    Bool.or_eq_true] at this
  obtain ⟨⟨⟨⟨⟨⟨⟨⟨⟨⟨⟨⟨⟨⟨⟨⟨⟨⟨⟨⟨h1, h2⟩, h3⟩, h4⟩, h5⟩, h6⟩, h7⟩, h8⟩, h9⟩, h10⟩, h11⟩, h12⟩, h13⟩, h14⟩, h15⟩, h16⟩, h17⟩, h18⟩, h19⟩, h20⟩, h21⟩ := this
  refine ⟨h1, h2, h3, h4, h5, h6, h7, h8, h9, h10, h11, h12, h13, h14, h15, h16, h17, h18, h19, ?_, ?_⟩
  · intro hd; rcases h20 with h | h
    · rw [hd] at h; exact absurd h (by decide)
    · exact h
  · intro hs; rcases h21 with h | h
    · rw [hs] at h; exact absurd h (by decide)
    · exact h

theorem hdop_cases (c : Char) (h : isHdOp c = true) :
    c = '|' ∨ c = '=' ∨ c = '!' ∨ c = '<' ∨ c = '>' ∨ c = '+' ∨ c = '-' ∨ c = '*' ∨ c = '/' ∨ c = '%' := by
  simp only [isHdOp, Bool.or_eq_true, decide_eq_true_eq] at h
  rcases h with ((((((((h | h) | h) | h) | h) | h) | h) | h) | h) | h <;> simp [h]

/-- what the dispatch of `token` sees for an operator character -/
theorem hdop_facts (c : Char) (h : isHdOp c = true) :
    isWs c = false ∧ c ≠ '#' ∧ isIdStart c = false ∧ c ≠ '$' ∧ c ≠ '@' ∧ c.isDigit = false ∧ isIdChar c = false ∧ c ≠ '.' := by
  rcases hdop_cases c h with h | h | h | h | h | h | h | h | h | h <;> subst h <;> decide

theorem tlop_hdop (c : Char) (h : isTlOp c = true) : isHdOp c = true := by
  simp only [isTlOp, Bool.and_eq_true] at h; exact h.1

/-! ### list helpers -/

theorem allP_cons {p : Char → Bool} {c : Char} {a : Str} (h : allP p (c :: a)) : p c = true ∧ allP p a :=
  ⟨h c (by simp), fun x hx => h x (by simp [hx])⟩

theorem allP_nil (p : Char → Bool) : allP p [] := fun _ h => by simp at h

theorem dropWhile_app {p : Char → Bool} {a r : Str} (ha : allP p a) (hr : headP p r = false) :
    (a ++ r).dropWhile p = r := by
  induction a with
  | nil =>
    cases r with
    | nil => rfl
    | cons c r => simp only [headP] at hr; simp [hr]
  | cons c a ih =>
    have hc := (allP_cons ha).1
    simp only [List.cons_append, List.dropWhile_cons, hc, if_true]
    exact ih (allP_cons ha).2

theorem takeWhile_app {p : Char → Bool} {a r : Str} (ha : allP p a) (hr : headP p r = false) :
    (a ++ r).takeWhile p = a := by
  induction a with
  | nil =>
    cases r with
    | nil => rfl
    | cons c r => simp only [headP] at hr; simp [hr]
  | cons c a ih =>
    have hc := (allP_cons ha).1
    simp only [List.cons_append, List.takeWhile_cons, hc, if_true]
    rw [ih (allP_cons ha).2]

theorem consumed_app (a r : Str) : consumed (a ++ r) r = a := by
  simp [consumed]

theorem headP_app (p : Char → Bool) (c : Char) (a r : Str) : headP p ((c :: a) ++ r) = p c := rfl

/-! ### the dispatch of `token` on the first character -/

theorem token_cons (f : Nat) (c : Char) (cs : Str) (h1 : isWs c = false) (h2 : c ≠ '#') :
    token (f + 1) (c :: cs) =
      if isIdStart c then (modThenIdent cs).map fun r => (some (.word (consumed (c :: cs) r)), r)
      else if c = '$' then (ident1 cs).map fun r => (some (.var (consumed (c :: cs) r)), r)
      else if c = '@' then (ident1 cs).map fun r => (some (.fmt (consumed (c :: cs) r)), r)
      else if c.isDigit then (numRest cs).map fun r => (some (.num (consumed (c :: cs) r)), r)
      else if isHdOp c then
        some (some (.sym (c :: cs.takeWhile isTlOp)), cs.dropWhile isTlOp)
      else if c = '.' then
        match cs with
        | d :: r =>
          if d = '.' then some (some (.sym ['.', '.']), r)
          else if isIdStart d then some (some (.sym ('.' :: d :: r.takeWhile isIdChar)), ident0 r)
          else some (some (.sym ['.']), cs)
        | [] => some (some (.sym ['.']), cs)
      else if c = ':' || c = ';' || c = ',' || c = '?' then some (some (.sym [c]), cs)
      else if c = '"' then (strLoop f cs []).map fun (ps, r) => (some (.str ps), r)
      else if c = '(' || c = '[' || c = '{' then (block f c cs).map fun (t, r) => (some t, r)
      else some (none, c :: cs) := by
  rw [token, space_stop c cs h1 h2]
  rfl

/-! ### words, variables, formats -/

theorem ident0_app {a r : Str} (ha : allP isIdChar a) (hr : headP isIdChar r = false) : ident0 (a ++ r) = r :=
  dropWhile_app ha hr

theorem ident1_app {x r : Str} (hx : IsIdent x) (hr : headP isIdChar r = false) : ident1 (x ++ r) = some r := by
  cases hx with
  | mk c a hc ha => simp only [List.cons_append, ident1, hc, if_true, ident0_app ha hr]

theorem hasColons_ident {a : Str} (ha : allP isIdChar a) : hasColons a = false := by
  induction a with
  | nil => rfl
  | cons c a ih =>
    cases a with
    | nil => rfl
    | cons d a =>
      have hc := (idchar_facts c (allP_cons ha).1).2.2.2.2.2.2.1
      simp only [hasColons, Bool.or_eq_false_iff, Bool.and_eq_false_iff, beq_eq_false_iff_ne]
      exact ⟨Or.inl hc, ih (allP_cons ha).2⟩

theorem hasColons_app_colons (a r : Str) : hasColons (a ++ ':' :: ':' :: r) = true := by
  induction a with
  | nil => simp [hasColons]
  | cons c a ih =>
    cases a with
    | nil => simp only [List.cons_append, List.nil_append] at ih ⊢; simp [hasColons]
    | cons d a => simp only [List.cons_append] at ih ⊢; simp [hasColons, ih]

theorem modThenIdent_plain {a r : Str} (ha : allP isIdChar a) (h1 : headP isIdChar r = false)
    (h2 : startsColons r = false) : modThenIdent (a ++ r) = some r := by
  unfold modThenIdent
  rw [ident0_app ha h1]
  split
  · simp [startsColons] at h2
  · rfl

theorem idstart_not_sigil (d : Char) (h : isIdStart d = true) : d ≠ '@' ∧ d ≠ '$' := by
  have := idchar_facts d (idstart_idchar d h)
  exact ⟨this.2.2.2.1, this.2.2.1⟩

theorem modThenIdent_qualified {a sg x r : Str} (ha : allP isIdChar a) (hsg : sg = [] ∨ sg = ['@'] ∨ sg = ['$'])
    (hx : IsIdent x) (h1 : headP isIdChar r = false) :
    modThenIdent (a ++ ':' :: ':' :: sg ++ x ++ r) = some r := by
  unfold modThenIdent
  have e : a ++ ':' :: ':' :: sg ++ x ++ r = a ++ (':' :: ':' :: (sg ++ (x ++ r))) := by simp
  rw [e, ident0_app ha (show headP isIdChar (':' :: ':' :: (sg ++ (x ++ r))) = false from rfl)]
  simp only
  rcases hsg with rfl | rfl | rfl
  · cases hx with
    | mk d b hd hb =>
      have := idstart_not_sigil d hd
      simp only [List.nil_append, List.cons_append]
      split
      · rename_i heq; simp at heq; exact absurd heq.1 this.1
      · rename_i heq; simp at heq; exact absurd heq.1 this.2
      · exact ident1_app (.mk d b hd hb) h1
  · simp only [List.cons_append, List.nil_append]; exact ident1_app hx h1
  · simp only [List.cons_append, List.nil_append]; exact ident1_app hx h1

theorem token_word (f : Nat) {w r : Str} (hw : IsWord w) (hg : (Token.word w).glues r = false) :
    token (f + 1) (w ++ r) = some (some (.word w), r) := by
  simp only [Token.glues, Bool.or_eq_false_iff, Bool.and_eq_false_iff, Bool.not_eq_false'] at hg
  obtain ⟨hg1, hg2⟩ := hg
  cases hw with
  | plain w hi =>
    cases hi with
    | mk c a hc ha =>
      have hf := idchar_facts c (idstart_idchar c hc)
      have hnc : hasColons (c :: a) = false := hasColons_ident (fun x hx => by
        simp only [List.mem_cons] at hx; rcases hx with rfl | hx
        · exact idstart_idchar _ hc
        · exact ha x hx)
      have h2 : startsColons r = false := by
        rcases hg2 with h | h
        · rw [hnc] at h; exact absurd h (by decide)
        · exact h
      rw [List.cons_append, token_cons f c _ hf.1 hf.2.1]
      simp only [hc, if_true, modThenIdent_plain ha hg1 h2, Option.map_some]
      rw [show c :: (a ++ r) = (c :: a) ++ r from rfl, consumed_app]
  | qualified m sg x hm hsg hx =>
    cases hm with
    | mk c a hc ha =>
      have hf := idchar_facts c (idstart_idchar c hc)
      have e : c :: a ++ ':' :: ':' :: sg ++ x ++ r = c :: (a ++ ':' :: ':' :: sg ++ x ++ r) := by simp
      rw [e, token_cons f c _ hf.1 hf.2.1]
      simp only [hc, if_true, modThenIdent_qualified ha hsg hx hg1, Option.map_some]
      rw [← e, consumed_app]

theorem token_var (f : Nat) {x r : Str} (hx : IsIdent x) (hg : headP isIdChar r = false) :
    token (f + 1) ('$' :: x ++ r) = some (some (.var ('$' :: x)), r) := by
  rw [List.cons_append, token_cons f '$' _ (by decide) (by decide)]
  simp only [show isIdStart '$' = false by decide, ident1_app hx hg, Option.map_some]
  rw [show '$' :: (x ++ r) = ('$' :: x) ++ r from rfl, consumed_app]
  simp

theorem token_fmt (f : Nat) {x r : Str} (hx : IsIdent x) (hg : headP isIdChar r = false) :
    token (f + 1) ('@' :: x ++ r) = some (some (.fmt ('@' :: x)), r) := by
  rw [List.cons_append, token_cons f '@' _ (by decide) (by decide)]
  simp only [show isIdStart '@' = false by decide, ident1_app hx hg, Option.map_some]
  rw [show '@' :: (x ++ r) = ('@' :: x) ++ r from rfl, consumed_app]
  simp

/-! ### numbers -/

def fracPart (s : Str) : Option Str :=
  match s with
  | '.' :: r => digits1 r
  | _ => some s

def expPart (s : Str) : Option Str :=
  match s with
  | c :: r =>
    if c = 'e' || c = 'E' then
      digits1 (match r with
        | '+' :: r' => r'
        | '-' :: r' => r'
        | _ => r)
    else some s
  | [] => some s

theorem numRest_eq (s : Str) : numRest s = (fracPart (s.dropWhile Char.isDigit)).bind expPart := by
  unfold numRest fracPart expPart
  rfl

theorem digits1_app {d r : Str} (hd : Digits1 d) (hr : headP Char.isDigit r = false) : digits1 (d ++ r) = some r := by
  obtain ⟨hne, hall⟩ := hd
  cases d with
  | nil => exact absurd rfl hne
  | cons c d =>
    simp only [List.cons_append, digits1, (allP_cons hall).1, if_true, dropWhile_app (allP_cons hall).2 hr]

theorem expmark_cases (c : Char) (h : isExpMark c = true) : c = 'e' ∨ c = 'E' := by
  simpa [isExpMark] using h

theorem expmark_facts (c : Char) (h : isExpMark c = true) : c.isDigit = false ∧ c ≠ '.' := by
  rcases expmark_cases c h with rfl | rfl <;> decide

theorem digit_facts (c : Char) (h : c.isDigit = true) :
    isExpMark c = false ∧ c ≠ '.' ∧ c ≠ '+' ∧ c ≠ '-' ∧ isWs c = false ∧ c ≠ '#' ∧ isIdStart c = false ∧ c ≠ '$' ∧ c ≠ '@' := by
  have hf := idchar_facts c (digit_idchar c h)
  have hs := hf.2.2.2.2.2.2.2.2.2.2.2.2.2.2.2.2.2.2.2.1 h
  refine ⟨?_, hf.2.2.2.2.2.1, ?_, ?_, hf.1, hf.2.1, hs, hf.2.2.1, hf.2.2.2.1⟩
  · cases he : isExpMark c with
    | false => rfl
    | true => rw [(expmark_facts c he).1] at h; exact absurd h (by decide)
  · rintro rfl; exact absurd h (by decide)
  · rintro rfl; exact absurd h (by decide)

theorem any_digits {p : Char → Bool} {d : Str} (hd : allP Char.isDigit d) (hp : ∀ c, c.isDigit = true → p c = false) :
    d.any p = false := by
  simp only [List.any_eq_false]
  intro x hx
  rw [hp x (hd x hx)]
  exact Bool.false_ne_true

theorem expPart_app {ex r : Str}
    (hex : ex = [] ∨ ∃ m sg d, ex = m :: sg ++ d ∧ isExpMark m = true ∧ (sg = [] ∨ sg = ['+'] ∨ sg = ['-']) ∧ Digits1 d)
    (h1 : headP Char.isDigit r = false) (h2 : ex = [] → headP isExpMark r = false) :
    expPart (ex ++ r) = some r := by
  rcases hex with rfl | ⟨m, sg, d, rfl, hm, hsg, hd⟩
  · have h2 := h2 rfl
    cases r with
    | nil => rfl
    | cons c r =>
      simp only [headP, isExpMark, Bool.or_eq_false_iff, decide_eq_false_iff_not] at h2
      simp [expPart, h2.1, h2.2]
  · have hm' : (decide (m = 'e') || decide (m = 'E')) = true := hm
    simp only [List.cons_append, List.append_assoc, expPart, hm', if_true]
    rcases hsg with rfl | rfl | rfl
    · obtain ⟨hne, hall⟩ := hd
      cases d with
      | nil => exact absurd rfl hne
      | cons c d =>
        have hc := digit_facts c (allP_cons hall).1
        simp only [List.nil_append, List.cons_append]
        split
        · rename_i heq; simp at heq; exact absurd heq.1 hc.2.2.1
        · rename_i heq; simp at heq; exact absurd heq.1 hc.2.2.2.1
        · exact digits1_app (d := c :: d) ⟨hne, hall⟩ h1
    · exact digits1_app hd h1
    · exact digits1_app hd h1

theorem fracPart_app {fr s : Str} (hfr : fr = [] ∨ ∃ d, fr = '.' :: d ∧ Digits1 d)
    (h1 : headP Char.isDigit s = false) (h2 : fr = [] → headP (· == '.') s = false) :
    fracPart (fr ++ s) = some s := by
  rcases hfr with rfl | ⟨d, rfl, hd⟩
  · have h2 := h2 rfl
    cases s with
    | nil => rfl
    | cons c s =>
      simp only [headP, beq_eq_false_iff_ne, ne_eq] at h2
      simp only [List.nil_append, fracPart]
      split
      · rename_i heq; simp at heq; exact absurd heq.1 h2
      · rfl
  · simp only [List.cons_append, fracPart]
    exact digits1_app hd h1

theorem numRest_app {i' fr ex r : Str} (hi : allP Char.isDigit i')
    (hfr : fr = [] ∨ ∃ d, fr = '.' :: d ∧ Digits1 d)
    (hex : ex = [] ∨ ∃ m sg d, ex = m :: sg ++ d ∧ isExpMark m = true ∧ (sg = [] ∨ sg = ['+'] ∨ sg = ['-']) ∧ Digits1 d)
    (h1 : headP Char.isDigit r = false) (h2 : ex = [] → headP isExpMark r = false)
    (h3 : fr = [] → ex = [] → headP (· == '.') r = false) :
    numRest (i' ++ fr ++ ex ++ r) = some r := by
  -- first character of `ex ++ r` and of `fr ++ ex ++ r`
  have hexr : headP Char.isDigit (ex ++ r) = false ∧ (fr = [] → headP (· == '.') (ex ++ r) = false) := by
    rcases hex with rfl | ⟨m, sg, d, rfl, hm, _, _⟩
    · exact ⟨h1, fun h => h3 h rfl⟩
    · refine ⟨(expmark_facts m hm).1, fun _ => ?_⟩
      simp only [List.cons_append, headP, beq_eq_false_iff_ne]
      exact (expmark_facts m hm).2
  have hfrr : headP Char.isDigit (fr ++ (ex ++ r)) = false := by
    rcases hfr with rfl | ⟨d, rfl, _⟩
    · exact hexr.1
    · rfl
  rw [numRest_eq, show i' ++ fr ++ ex ++ r = i' ++ (fr ++ (ex ++ r)) by simp, dropWhile_app hi hfrr,
    fracPart_app hfr hexr.1 hexr.2]
  exact expPart_app hex h1 h2

theorem token_num (f : Nat) {w r : Str} (hw : IsNum w) (hg : (Token.num w).glues r = false) :
    token (f + 1) (w ++ r) = some (some (.num w), r) := by
  cases hw with
  | mk i fr ex hi hfr hex =>
    obtain ⟨hne, hall⟩ := hi
    cases i with
    | nil => exact absurd rfl hne
    | cons c i' =>
      have hc := digit_facts c (allP_cons hall).1
      have hany1 : (c :: i').any isExpMark = false := any_digits hall fun x hx => (digit_facts x hx).1
      have hany2 : (c :: i').any (· == '.') = false := any_digits hall fun x hx => by
        simp only [beq_eq_false_iff_ne]; exact (digit_facts x hx).2.1
      simp only [Token.glues, Bool.or_eq_false_iff, Bool.and_eq_false_iff, Bool.not_eq_false', List.any_append] at hg
      obtain ⟨h1, hg2⟩ := hg
      have h2 : ex = [] → headP isExpMark r = false := by
        rintro rfl
        have hfrany : fr.any isExpMark = false := by
          rcases hfr with rfl | ⟨d, rfl, hd⟩
          · rfl
          · simp only [List.any_cons, Bool.or_eq_false_iff]
            exact ⟨by decide, any_digits hd.2 fun x hx => (digit_facts x hx).1⟩
        rcases hg2 with h | h
        · rw [hany1, hfrany] at h; exact absurd h (by decide)
        · exact h.1
      have h3 : fr = [] → ex = [] → headP (· == '.') r = false := by
        rintro rfl rfl
        rcases hg2 with h | h
        · rw [hany1] at h; exact absurd h (by decide)
        · rcases h.2 with h | h
          · rw [hany2] at h; exact absurd h (by decide)
          · exact h
      have e : c :: i' ++ fr ++ ex ++ r = c :: (i' ++ fr ++ ex ++ r) := by simp
      rw [e, token_cons f c _ hc.2.2.2.2.1 hc.2.2.2.2.2.1]
      simp only [hc.2.2.2.2.2.2.1, Bool.false_eq_true, if_false, hc.2.2.2.2.2.2.2.1, hc.2.2.2.2.2.2.2.2,
        (allP_cons hall).1, if_true, numRest_app (allP_cons hall).2 hfr hex h1 h2 h3, Option.map_some]
      rw [← e, consumed_app]

/-! ### symbols -/

theorem token_sym (f : Nat) {s r : Str} (hs : IsSym s) (hg : (Token.sym s).glues r = false) :
    token (f + 1) (s ++ r) = some (some (.sym s), r) := by
  cases hs with
  | op c t hc ht =>
    have hf := hdop_facts c hc
    have hne1 : c :: t ≠ ['.'] := by intro h; simp at h; exact hf.2.2.2.2.2.2.2 h.1
    have hne2 : c :: t ≠ ['.', '.'] := by intro h; simp at h; exact hf.2.2.2.2.2.2.2 h.1
    simp only [Token.glues, hne1, hne2, if_false, hf.2.2.2.2.2.2.2, hc, if_true] at hg
    rw [List.cons_append, token_cons f c _ hf.1 hf.2.1]
    simp only [hf.2.2.1, Bool.false_eq_true, if_false, hf.2.2.2.1, hf.2.2.2.2.1, hf.2.2.2.2.2.1, hc, if_true,
      takeWhile_app ht hg, dropWhile_app ht hg]
  | dot =>
    simp only [Token.glues, if_true] at hg
    rw [List.cons_append, token_cons f '.' _ (by decide) (by decide)]
    cases r with
    | nil => simp [show isIdStart '.' = false by decide, show isHdOp '.' = false by decide]
    | cons d r =>
      simp only [headP, Bool.or_eq_false_iff, beq_eq_false_iff_ne] at hg
      simp [hg.1, hg.2, show isIdStart '.' = false by decide, show isHdOp '.' = false by decide]
  | dotdot =>
    rw [List.cons_append, token_cons f '.' _ (by decide) (by decide)]
    simp [show isIdStart '.' = false by decide, show isHdOp '.' = false by decide]
  | field k hk =>
    cases hk with
    | mk d b hd hb =>
      have hdf := idchar_facts d (idstart_idchar d hd)
      have hne1 : '.' :: d :: b ≠ ['.'] := by simp
      have hne2 : '.' :: d :: b ≠ ['.', '.'] := by intro h; simp at h; exact hdf.2.2.2.2.2.1 h.1
      simp only [Token.glues, hne1, hne2, if_false, if_true] at hg
      rw [List.cons_append, token_cons f '.' _ (by decide) (by decide)]
      simp only [List.cons_append, hdf.2.2.2.2.2.1, if_false, hd, if_true, takeWhile_app hb hg, ident0_app hb hg]
      simp [show isIdStart '.' = false by decide, show isHdOp '.' = false by decide]
  | punct c hc =>
    rcases hc with rfl | rfl | rfl | rfl
    · rw [List.cons_append, token_cons f _ _ (by decide) (by decide)]
      simp [show isIdStart ':' = false by decide, show isHdOp ':' = false by decide]
    · rw [List.cons_append, token_cons f _ _ (by decide) (by decide)]
      simp [show isIdStart ';' = false by decide, show isHdOp ';' = false by decide]
    · rw [List.cons_append, token_cons f _ _ (by decide) (by decide)]
      simp [show isIdStart ',' = false by decide, show isHdOp ',' = false by decide]
    · rw [List.cons_append, token_cons f _ _ (by decide) (by decide)]
      simp [show isIdStart '?' = false by decide, show isHdOp '?' = false by decide]

/-! ### what may follow a token sequence -/

/-- a character that extends no lexeme -/
def Quiet (c : Char) : Prop := isIdChar c = false ∧ c ≠ '.' ∧ c ≠ ':' ∧ isTlOp c = false

theorem quiet_facts {c : Char} (h : Quiet c) :
    c.isDigit = false ∧ isExpMark c = false ∧ isIdStart c = false := by
  obtain ⟨h1, _, _, _⟩ := h
  refine ⟨?_, ?_, ?_⟩
  · cases hd : c.isDigit with
    | false => rfl
    | true => rw [digit_idchar c hd] at h1; exact absurd h1 (by decide)
  · cases he : isExpMark c with
    | false => rfl
    | true => rcases expmark_cases c he with rfl | rfl <;> exact absurd h1 (by decide)
  · cases hs : isIdStart c with
    | false => rfl
    | true => rw [idstart_idchar c hs] at h1; exact absurd h1 (by decide)

def QuietHead : Str → Prop
  | [] => True
  | c :: _ => Quiet c

theorem glues_app_quiet (t : Token) (rest k : Str) (hk : QuietHead k) : t.glues (rest ++ k) = t.glues rest := by
  cases rest with
  | cons c rest' =>
    have hc : startsColons (c :: rest' ++ k) = startsColons (c :: rest') := by
      cases rest' with
      | cons d r => rfl
      | nil =>
        cases k with
        | nil => rfl
        | cons d k => simp only [QuietHead, Quiet] at hk; simp [startsColons, hk.2.2.1]
    cases t <;> simp only [Token.glues, hc] <;> rfl
  | nil =>
    cases k with
    | nil => rfl
    | cons d k =>
      simp only [QuietHead] at hk
      have hq := quiet_facts hk
      obtain ⟨h1, h2, h3, h4⟩ := hk
      have hc : startsColons (d :: k) = false := by
        cases k with
        | nil => rfl
        | cons e k => simp [startsColons, h3]
      have h2' : (d == '.') = false := by simp [h2]
      cases t with
      | word w => simp [Token.glues, headP, hc, h1]; intro _; rfl
      | var w => simp [Token.glues, headP, h1]
      | fmt w => simp [Token.glues, headP, h1]
      | num w => simp [Token.glues, headP, hq.1, hq.2.1, h2']
      | str ps => rfl
      | block o ts => rfl
      | sym s =>
        simp only [Token.glues, headP, List.nil_append, h1, h4, hq.2.2, h2', Bool.or_self]
        repeat' split

theorem glues_nil (t : Token) : t.glues [] = false := by
  cases t <;> simp [Token.glues, headP, startsColons] <;> (repeat' split) <;> simp

theorem quiet_ws {c : Char} (hc : isWs c = true) : Quiet c := by
  have h1 : isIdChar c = false := by
    cases h : isIdChar c with
    | false => rfl
    | true => rw [(idchar_facts c h).1] at hc; exact absurd hc (by decide)
  have h2 : c ≠ '.' ∧ c ≠ ':' := by
    constructor <;> (rintro rfl; exact absurd hc (by decide))
  have h3 : isTlOp c = false := by
    cases h : isTlOp c with
    | false => rfl
    | true => rw [(hdop_facts c (tlop_hdop c h)).1] at hc; exact absurd hc (by decide)
  exact ⟨h1, h2.1, h2.2, h3⟩

theorem quiet_hash : Quiet '#' := by unfold Quiet; decide

/-- non-empty trivia separates any lexeme from what follows -/
theorem glues_trivia (t : Token) {tr : Str} (htr : Trivia tr) (hne : tr ≠ []) (s : Str) :
    t.glues (tr ++ s) = false := by
  have hq : QuietHead (tr ++ s) := by
    cases htr with
    | nil => exact absurd rfl hne
    | ws c t hc _ => exact quiet_ws hc
    | comment b t _ _ => exact quiet_hash
  have := glues_app_quiet t [] (tr ++ s) hq
  rw [List.nil_append] at this
  rw [this, glues_nil]

/-- `Stop k`: at `k` the lexer finds no further token (end of input, a closing delimiter, or
an unterminated final comment) -/
structure Stop (k : Str) : Prop where
  tok : ∀ f, token (f + 1) k = some (none, space k)
  quiet : QuietHead k

theorem stop_nil : Stop [] := ⟨fun f => by simp [token, space_nil], trivial⟩

theorem closer_facts (o : Char) : isWs (closeOf o) = false ∧ closeOf o ≠ '#' ∧ isIdStart (closeOf o) = false ∧
    closeOf o ≠ '$' ∧ closeOf o ≠ '@' ∧ (closeOf o).isDigit = false ∧ isHdOp (closeOf o) = false ∧
    closeOf o ≠ '.' ∧ closeOf o ≠ ':' ∧ closeOf o ≠ ';' ∧ closeOf o ≠ ',' ∧ closeOf o ≠ '?' ∧
    closeOf o ≠ '"' ∧ closeOf o ≠ '(' ∧ closeOf o ≠ '[' ∧ closeOf o ≠ '{' ∧ Quiet (closeOf o) := by
  unfold closeOf Quiet
  split
  · decide
  · split <;> decide

theorem stop_closer (o : Char) (r : Str) : Stop (closeOf o :: r) := by
  obtain ⟨h1, h2, h3, h4, h5, h6, h7, h8, h9, h10, h11, h12, h13, h14, h15, h16, h17⟩ := closer_facts o
  refine ⟨fun f => ?_, h17⟩
  rw [token_cons f _ _ h1 h2, space_stop _ _ h1 h2]
  simp [h3, h4, h5, h6, h7, h8, h9, h10, h11, h12, h13, h14, h15, h16]

theorem splitLine_no_nl (l : Str) (h : '\n' ∉ l) : splitLine l = (l, []) := by
  induction l with
  | nil => rfl
  | cons c l ih =>
    have hc : c ≠ '\n' := fun e => h (by simp [e])
    have hl : '\n' ∉ l := fun e => h (by simp [e])
    simp [splitLine, hc, ih hl]

theorem comment_nil (f : Nat) : comment f [] = [] := by
  cases f with
  | zero => rfl
  | succ f => simp [comment, splitLine, trailingBackslashes, stripCR]

/-- the comment loop runs to the end of the input on an unterminated comment -/
theorem comment_open {b : Str} (hb : OpenBody b) : ∀ f, b.length + 1 ≤ f → comment f b = [] := by
  induction hb with
  | eof l hl =>
    intro f hf
    obtain ⟨f, rfl⟩ : ∃ g, f = g + 1 := ⟨f - 1, by omega⟩
    simp only [comment, splitLine_no_nl l hl]
    split
    · rfl
    · exact comment_nil f
  | cont l b hl hodd _ ih =>
    intro f hf
    obtain ⟨f, rfl⟩ : ∃ g, f = g + 1 := ⟨f - 1, by omega⟩
    have hne : ¬ (trailingBackslashes (stripCR l) % 2 = 0) := by omega
    simp only [comment, splitLine_append l b hl, hne, if_false]
    exact ih f (by simp at hf; omega)

theorem spaceF_nil (f : Nat) : spaceF f [] = [] := by
  cases f <;> simp [spaceF, trimStart]

theorem space_end {e : Str} (he : EndComment e) : space e = [] := by
  cases he with
  | none => exact space_nil
  | «open» b hb =>
    unfold space
    rw [List.length_cons, spaceF_hash, comment_open hb _ (Nat.le_refl _), spaceF_nil]

theorem stop_end {e : Str} (he : EndComment e) : Stop e := by
  refine ⟨fun f => ?_, ?_⟩
  · simp [token, space_end he]
  · cases he with
    | none => trivial
    | «open» b hb => exact (by unfold Quiet; decide : Quiet '#')

/-! ### string literals -/

theorem escape_chr (f : Nat) {c : Char} {e : Str} (h : IsEscape c e) (r : Str) :
    escape (f + 1) (e ++ r) = some (.chr c, r) := by
  cases h with
  | self c hc => rcases hc with rfl | rfl | rfl <;> simp [escape]
  | b => simp [escape]
  | f => simp [escape]
  | n => simp [escape]
  | r => simp [escape]
  | t => simp [escape]
  | u h1 h2 h3 h4 v1 v2 v3 v4 e1 e2 e3 e4 hv =>
    simp only [List.cons_append, List.nil_append, escape]
    simp [unicode4, e1, e2, e3, e4, hv]

theorem strLoop_acc : ∀ (f : Nat) (s : Str) (acc : List SPart),
    strLoop f s acc = (strLoop f s []).map fun x => (acc ++ x.1, x.2) := by
  intro f
  induction f with
  | zero => intro s acc; simp [strLoop]
  | succ f ih =>
    intro s acc
    rw [strLoop, strLoop]
    split
    · rename_i c r heq
      split
      · by_cases hl : (List.takeWhile isStrBody s).isEmpty <;> simp [hl]
      · split
        · rfl
        · rename_i p r' _
          rw [ih r' ((if (List.takeWhile isStrBody s).isEmpty = true then acc else acc ++ [SPart.lit (List.takeWhile isStrBody s)]) ++ [p]),
            ih r' ((if (List.takeWhile isStrBody s).isEmpty = true then [] else [] ++ [SPart.lit (List.takeWhile isStrBody s)]) ++ [p])]
          by_cases hl : (List.takeWhile isStrBody s).isEmpty <;> simp [hl, Option.map_map, Function.comp_def]
    · rfl

/-- a maximal literal run in front of a quote or backslash is one `lit` part -/
theorem strLoop_lit (f : Nat) {l s : Str} (acc : List SPart) (hne : l ≠ []) (hl : allP isStrBody l)
    (hs : headP isStrBody s = false) : strLoop (f + 1) (l ++ s) acc = strLoop (f + 1) s (acc ++ [.lit l]) := by
  have h0 : s.takeWhile isStrBody = [] := by simpa using takeWhile_app (allP_nil isStrBody) hs
  have h0' : s.dropWhile isStrBody = s := by simpa using dropWhile_app (allP_nil isStrBody) hs
  have he : l.isEmpty = false := by cases l <;> simp at hne ⊢
  rw [strLoop, strLoop]
  simp only [takeWhile_app hl hs, dropWhile_app hl hs, h0, h0', he, List.isEmpty_nil, if_true, Bool.false_eq_true, if_false]

/-! ### every layout is lexed to its tokens -/

theorem spells_length {t : Token} {l : Str} (h : Spells t l) : 1 ≤ l.length := by
  cases h with
  | word w hw =>
    cases hw with
    | plain w hi => cases hi; simp
    | qualified m sg x hm _ _ => cases hm; simp
  | var x _ => simp
  | fmt x _ => simp
  | num w hw =>
    cases hw with
    | mk i fr ex hi _ _ =>
      obtain ⟨hne, _⟩ := hi
      cases i with
      | nil => exact absurd rfl hne
      | cons c i => simp
  | sym s hs =>
    cases hs with
    | field k hk => simp
    | _ => simp
  | str ps s _ => simp
  | block o ts s _ _ => simp

theorem parts_head {ps : List SPart} {s : Str} (h : SpellsParts ps s) (r : Str) :
    headP isStrBody (s ++ r) = headP isStrBody s := by
  cases h with
  | nil => rfl
  | lit l ps rest hne _ _ _ =>
    cases l with
    | nil => exact absurd rfl hne
    | cons c l => rfl
  | chr c e ps rest _ _ => rfl
  | interp ts s0 ps rest _ _ => rfl

theorem parts_length {ps : List SPart} {s : Str} (h : SpellsParts ps s) : 1 ≤ s.length := by
  cases h with
  | nil => simp
  | lit l ps rest hne _ _ _ =>
    cases l with
    | nil => exact absurd rfl hne
    | cons c l => simp
  | chr c e ps rest _ _ => simp
  | interp ts s0 ps rest _ _ => simp

theorem open_facts (o : Char) (h : isOpen o = true) :
    isWs o = false ∧ o ≠ '#' ∧ isIdStart o = false ∧ o ≠ '$' ∧ o ≠ '@' ∧ o.isDigit = false ∧ isHdOp o = false ∧
    o ≠ '.' ∧ o ≠ ':' ∧ o ≠ ';' ∧ o ≠ ',' ∧ o ≠ '?' ∧ o ≠ '"' := by
  simp only [isOpen, Bool.or_eq_true, decide_eq_true_eq] at h
  rcases h with (rfl | rfl) | rfl <;> decide

/-- the three statements proved together, by induction on a bound `n` of the length of the text -/
def LexesUpTo (n : Nat) : Prop :=
  (∀ t l, l.length ≤ n → Spells t l → ∀ r, t.glues r = false → ∀ F, 3 * l.length + 2 ≤ F →
    token F (l ++ r) = some (some t, r)) ∧
  (∀ ps s, s.length ≤ n → SpellsParts ps s → ∀ r F, 3 * s.length + 3 ≤ F →
    strLoop F (s ++ r) [] = some (ps, r)) ∧
  (∀ ts s, s.length ≤ n → Seq ts s → ∀ k, Stop k → ∀ F, 3 * s.length + 3 ≤ F →
    tokens F (s ++ k) = some (ts, space k))

theorem block_of_seq {n : Nat} (ih : LexesUpTo n) (o : Char) {ts : List Token} {s : Str} (hs : Seq ts s)
    (hn : s.length ≤ n) (r : Str) (F : Nat) (hF : 3 * s.length + 4 ≤ F) :
    block F o (s ++ closeOf o :: r) = some (.block o (ts ++ [.sym [closeOf o]]), r) := by
  obtain ⟨f, rfl⟩ : ∃ f, F = f + 1 := ⟨F - 1, by omega⟩
  have hc := closer_facts o
  rw [block, ih.2.2 ts s hn hs _ (stop_closer o r) f (by omega)]
  simp [space_stop _ _ hc.1 hc.2.1]

theorem lexes_step (n : Nat) (ih : LexesUpTo n) : LexesUpTo (n + 1) := by
  have hA : ∀ t l, l.length ≤ n + 1 → Spells t l → ∀ r, t.glues r = false → ∀ F, 3 * l.length + 2 ≤ F →
      token F (l ++ r) = some (some t, r) := by
    intro t l hl h r hg F hF
    obtain ⟨f, rfl⟩ : ∃ f, F = f + 1 := ⟨F - 1, by omega⟩
    cases h with
    | word w hw => exact token_word f hw hg
    | var x hx => exact token_var f hx hg
    | fmt x hx => exact token_fmt f hx hg
    | num w hw => exact token_num f hw hg
    | sym s hs => exact token_sym f hs hg
    | str ps s hps =>
      simp only [List.length_cons] at hl hF
      rw [List.cons_append, token_cons f '"' _ (by decide) (by decide)]
      simp [show isIdStart '"' = false by decide, show isHdOp '"' = false by decide,
        ih.2.1 ps s (by omega) hps r f (by omega)]
    | block o ts s ho hs =>
      simp only [List.length_cons, List.length_append, List.length_nil] at hl hF
      have hof := open_facts o ho
      have ho' : (decide (o = '(') || decide (o = '[') || decide (o = '{')) = true := ho
      have e : o :: s ++ [closeOf o] ++ r = o :: (s ++ closeOf o :: r) := by simp
      rw [e, token_cons f o _ hof.1 hof.2.1]
      simp only [hof.2.2.1, Bool.false_eq_true, if_false, hof.2.2.2.1, hof.2.2.2.2.1, hof.2.2.2.2.2.1, hof.2.2.2.2.2.2.1,
        hof.2.2.2.2.2.2.2.1, hof.2.2.2.2.2.2.2.2.1, hof.2.2.2.2.2.2.2.2.2.1, hof.2.2.2.2.2.2.2.2.2.2.1,
        hof.2.2.2.2.2.2.2.2.2.2.2.1, hof.2.2.2.2.2.2.2.2.2.2.2.2, decide_false, Bool.or_self, ho', if_true,
        block_of_seq ih o hs (by omega) r f (by omega), Option.map_some]
  have hB : ∀ ps s, s.length ≤ n + 1 → SpellsParts ps s → ∀ r F, 3 * s.length + 3 ≤ F →
      strLoop F (s ++ r) [] = some (ps, r) := by
    -- parts that do not start with a literal run, with any accumulator
    have hB' : ∀ ps s, s.length ≤ n + 1 → SpellsParts ps s → headP isStrBody s = false → ∀ acc r F,
        3 * s.length + 3 ≤ F → strLoop F (s ++ r) acc = some (acc ++ ps, r) := by
      intro ps s hl h hh acc r F hF
      obtain ⟨f, rfl⟩ : ∃ f, F = f + 1 := ⟨F - 1, by omega⟩
      cases h with
      | nil => simp [strLoop, isStrBody]
      | lit l ps rest hne hlit _ _ =>
        cases l with
        | nil => exact absurd rfl hne
        | cons c l =>
          simp only [List.cons_append, headP] at hh
          rw [(allP_cons hlit).1] at hh
          exact absurd hh (by decide)
      | chr c e ps rest he hrest =>
        simp only [List.length_cons, List.length_append] at hl hF
        have hrec := ih.2.1 ps rest (by omega) hrest r f (by omega)
        obtain ⟨g, rfl⟩ : ∃ g, f = g + 1 := ⟨f - 1, by omega⟩
        have e : '\\' :: e ++ rest ++ r = '\\' :: (e ++ (rest ++ r)) := by simp
        rw [e, strLoop]
        simp only [List.takeWhile_cons, List.dropWhile_cons, show isStrBody '\\' = false by decide,
          Bool.false_eq_true, if_false, List.isEmpty_nil, if_true, show ('\\' = '"') = False by decide,
          escape_chr g he (rest ++ r)]
        rw [strLoop_acc, hrec]
        simp
      | interp ts s0 ps rest hseq hrest =>
        simp only [List.length_cons, List.length_append] at hl hF
        have hrec := ih.2.1 ps rest (by omega) hrest r f (by omega)
        obtain ⟨g, rfl⟩ : ∃ g, f = g + 1 := ⟨f - 1, by omega⟩
        have hblk := block_of_seq ih '(' hseq (by omega) (rest ++ r) g (by omega)
        have e : '\\' :: '(' :: s0 ++ ')' :: rest ++ r = '\\' :: ('(' :: (s0 ++ closeOf '(' :: (rest ++ r))) := by
          simp [closeOf]
        rw [e, strLoop]
        simp only [List.takeWhile_cons, List.dropWhile_cons, show isStrBody '\\' = false by decide,
          Bool.false_eq_true, if_false, List.isEmpty_nil, if_true, show ('\\' = '"') = False by decide]
        rw [escape]
        simp only [show ('(' = '\\' || '(' = '/' || '(' = '"') = false by decide, Bool.false_eq_true, if_false,
          show ('(' = 'b') = False by decide, show ('(' = 'f') = False by decide, show ('(' = 'n') = False by decide,
          show ('(' = 'r') = False by decide, show ('(' = 't') = False by decide, show ('(' = 'u') = False by decide,
          if_true, hblk, Option.map_some]
        rw [strLoop_acc, hrec]
        simp [closeOf]
    intro ps s hl h r F hF
    cases h with
    | lit l ps rest hne hlit hrest hh =>
      simp only [List.length_append] at hl hF
      have hl1 : 1 ≤ l.length := by cases l <;> simp at hne ⊢
      obtain ⟨f, rfl⟩ : ∃ f, F = f + 1 := ⟨F - 1, by omega⟩
      have hh' : headP isStrBody (rest ++ r) = false := by rw [parts_head hrest]; exact hh
      rw [List.append_assoc, strLoop_lit f [] hne hlit hh']
      simpa using hB' ps rest (by omega) hrest hh [.lit l] r (f + 1) (by omega)
    | nil => simpa using hB' [] _ hl .nil rfl [] r F hF
    | chr c e ps rest he hrest => simpa using hB' _ _ hl (.chr c e ps rest he hrest) rfl [] r F hF
    | interp ts s0 ps rest hseq hrest => simpa using hB' _ _ hl (.interp ts s0 ps rest hseq hrest) rfl [] r F hF
  refine ⟨hA, hB, ?_⟩
  intro ts s hl h k hk F hF
  obtain ⟨f, rfl⟩ : ∃ f, F = f + 1 := ⟨F - 1, by omega⟩
  cases h with
  | nil tr htr =>
    obtain ⟨g, rfl⟩ : ∃ g, f = g + 1 := ⟨f - 1, by omega⟩
    rw [tokens, token_trivia htr, hk.tok g]
  | cons tr t l ts rest htr ht hrest hg =>
    simp only [List.length_append] at hl hF
    have hl1 := spells_length ht
    have hg' : t.glues (rest ++ k) = false := by rw [glues_app_quiet t rest k hk.quiet]; exact hg
    have htok := hA t l (by omega) ht (rest ++ k) hg' f (by omega)
    have hrec := ih.2.2 ts rest (by omega) hrest k hk f (by omega)
    rw [tokens, show tr ++ l ++ rest ++ k = tr ++ (l ++ (rest ++ k)) by simp, token_trivia htr, htok]
    simp only [hrec, Option.map_some]

theorem lexes_all : ∀ n, LexesUpTo n := by
  intro n
  induction n with
  | zero =>
    refine ⟨?_, ?_, ?_⟩
    · intro t l hl h; have := spells_length h; omega
    · intro ps s hl h; have := parts_length h; omega
    · intro ts s hl h k hk F hF
      obtain ⟨g, rfl⟩ : ∃ g, F = g + 2 := ⟨F - 2, by omega⟩
      cases h with
      | nil tr htr =>
        have : s = [] := List.eq_nil_of_length_eq_zero (by omega)
        subst this
        rw [tokens, List.nil_append, hk.tok g]
      | cons tr t l ts rest htr ht hrest hg =>
        have := spells_length ht
        simp only [List.length_append] at hl; omega
  | succ n ih => exact lexes_step n ih

/-- **every layout is lexed to its tokens** -/
theorem lex_of_layout {ts : List Token} {text : Str} (h : Layout ts text) : lex text = some ts := by
  obtain ⟨body, e, rfl, hseq, he⟩ := h
  have := (lexes_all body.length).2.2 ts body (Nat.le_refl _) hseq e (stop_end he) (lexFuel (body ++ e))
    (by simp [lexFuel]; omega)
  simp only [lex, this, space_end he]
  have : space [] = [] := space_nil
  simp [this]

end Jaq.C15
