/- C16: a cycle in the reader's file graph that is reachable from the main file always ends in the
   error "circular include/import" (helper lemmas for Props/C16.lean). -/
import JaqVerif.Lemmas.C16Load

namespace Jaq.C16

variable {P S B : Type}

/-- the file graph of a reader whose answer for a path is always the same file `content p`:
    `p → q` when the header of `p` has a non-data directive that the reader resolves to `q` -/
def Edge (read : Reader P S B) (content : P → Src S B) (p q : P) : Prop :=
  ∃ deps body d src, content p = .ok deps body ∧ d ∈ deps ∧ d.isData = false ∧ read p d.path = .ok (q, src)

/-- files reachable from the main file (whose header is `mdeps`) -/
inductive Reach (read : Reader P S B) (content : P → Src S B) (mainPath : P) (mdeps : List (Directive S)) : P → Prop
  | root (d : Directive S) (q : P) (src : Src S B) :
      d ∈ mdeps → d.isData = false → read mainPath d.path = .ok (q, src) → Reach read content mainPath mdeps q
  | step (p q : P) : Reach read content mainPath mdeps p → Edge read content p q → Reach read content mainPath mdeps q

/-- one or more edges -/
inductive Path (E : P → P → Prop) : P → P → Prop
  | single (a b : P) : E a b → Path E a b
  | cons (a b c : P) : E a b → Path E b c → Path E a c

/-- the module failed with (among others) the circular-import error -/
def HasCirc (res : ModRes S B) : Prop := ∃ l s, res = .error (.io l) ∧ (s, circularMsg) ∈ l

/-- what the loader recorded for the module `(p, res)` stored at index `i`: every non-data
    directive of its header either could not be read, or leads to a module stored earlier, or
    was answered with the circular-import error -/
def RecAt (read : Reader P S B) (content : P → Src S B) (mods : List (P × ModRes S B)) (i : Nat) (p : P)
    (res : ModRes S B) : Prop :=
  ∀ deps body, content p = .ok deps body → ∀ d ∈ deps, d.isData = false →
    (∃ e, read p d.path = .error e) ∨
    ∃ q src, read p d.path = .ok (q, src) ∧ ((∃ j, j < i ∧ (mods[j]?).map (·.1) = some q) ∨ HasCirc res)

def Inv (read : Reader P S B) (content : P → Src S B) (mods : List (P × ModRes S B)) : Prop :=
  ∀ i p res, mods[i]? = some (p, res) → 1 ≤ i → RecAt read content mods i p res

theorem RecAt.append {read : Reader P S B} {content : P → Src S B} {mods : List (P × ModRes S B)} {i : Nat} {p : P}
    {res : ModRes S B} (h : RecAt read content mods i p res) (hi : i ≤ mods.length) (extra : List (P × ModRes S B)) :
    RecAt read content (mods ++ extra) i p res := by
  intro deps body hc d hd hnd
  rcases h deps body hc d hd hnd with h1 | ⟨q, src, hr, h2⟩
  · exact .inl h1
  · refine .inr ⟨q, src, hr, ?_⟩
    rcases h2 with ⟨j, hj, hq⟩ | h2
    · exact .inl ⟨j, hj, by rw [List.getElem?_append_left (by omega)]; exact hq⟩
    · exact .inr h2

theorem Inv.append {read : Reader P S B} {content : P → Src S B} {mods : List (P × ModRes S B)}
    (h : Inv read content mods) (p : P) (res : ModRes S B) (hnew : RecAt read content mods mods.length p res) :
    Inv read content (mods ++ [(p, res)]) := by
  intro i p' res' hget hi
  by_cases hlt : i < mods.length
  · rw [List.getElem?_append_left hlt] at hget
    exact (h i p' res' hget hi).append (by omega) _
  · have hi' : i = mods.length := by
      have := (List.getElem?_eq_some_iff.mp hget).1
      simp only [List.length_append, List.length_singleton] at this; omega
    subst hi'
    simp only [List.getElem?_append_right (Nat.le_refl _), Nat.sub_self, List.getElem?_cons_zero,
      Option.some.injEq, Prod.mk.injEq] at hget
    obtain ⟨rfl, rfl⟩ := hget
    exact hnew.append (Nat.le_refl _) _

/-- what one call of the callback (`find`) guarantees -/
structure FPost (read : Reader P S B) (content : P → Src S B) (parent : P) (s : S) (st st' : LState P S B)
    (r : Except String Nat) : Prop where
  inv : Inv read content st.mods → Inv read content st'.mods
  res : ∀ q src, read parent s = .ok (q, src) →
    (∃ id, r = .ok id ∧ (st'.mods[id]?).map (·.1) = some q) ∨ r = .error circularMsg

theorem mapDeps_rec (read : Reader P S B) (content : P → Src S B) (path : P)
    (f : LState P S B → S → Option (LState P S B × Except String Nat)) (O : List P)
    (hf : ∀ st s st' r, f st s = some (st', r) → WF st → st.opened = O →
      Step O st st' r ∧ FPost read content path s st st' r) :
    ∀ (deps : List (Directive S)) (st : LState P S B) mods vars errs (st' : LState P S B) mods' vars' errs',
      mapDeps f deps st mods vars errs = some (st', mods', vars', errs') → WF st → st.opened = O →
      (Inv read content st.mods → Inv read content st'.mods) ∧ (∀ x ∈ errs, x ∈ errs') ∧
      (∃ extra, st'.mods = st.mods ++ extra) ∧
      (∀ d ∈ deps, d.isData = false →
        (∃ e, read path d.path = .error e) ∨
        ∃ q src, read path d.path = .ok (q, src) ∧
          ((∃ j : Nat, (st'.mods[j]?).map (·.1) = some q) ∨ (d.path, circularMsg) ∈ errs'))
  | [], st, mods, vars, errs, st', mods', vars', errs', h, _, _ => by
    simp only [mapDeps, Option.some.injEq, Prod.mk.injEq] at h
    obtain ⟨rfl, rfl, rfl, rfl⟩ := h
    exact ⟨fun hi => hi, fun x hx => hx, ⟨[], by simp⟩, fun d hd => by simp at hd⟩
  | d :: ds, st, mods, vars, errs, st', mods', vars', errs', h, hw, ho => by
    simp only [mapDeps] at h
    split at h
    · rename_i hdata
      obtain ⟨i1, i2, i3, i4⟩ := mapDeps_rec read content path f O hf ds st mods _ errs st' mods' vars' errs' h hw ho
      refine ⟨i1, i2, i3, ?_⟩
      intro d' hd' hnd
      rcases List.mem_cons.mp hd' with rfl | hd'
      · rw [hnd] at hdata; cases hdata
      · exact i4 d' hd' hnd
    · split at h
      · cases h
      · rename_i st1 mid hfs
        obtain ⟨hs, hp⟩ := hf st d.path st1 (.ok mid) hfs hw ho
        obtain ⟨i1, i2, ⟨ex2, hex2⟩, i4⟩ :=
          mapDeps_rec read content path f O hf ds st1 _ vars errs st' mods' vars' errs' h hs.wf hs.opened
        obtain ⟨ex1, hex1⟩ := hs.ext
        refine ⟨fun hi => i1 (hp.inv hi), i2, ⟨ex1 ++ ex2, by rw [hex2, hex1, List.append_assoc]⟩, ?_⟩
        intro d' hd' hnd
        rcases List.mem_cons.mp hd' with rfl | hd'
        · cases hread : read path d'.path with
          | error e => exact .inl ⟨e, rfl⟩
          | ok qs =>
            obtain ⟨q, src⟩ := qs
            refine .inr ⟨q, src, rfl, .inl ?_⟩
            rcases hp.res q src hread with ⟨id, hid, hq⟩ | hc
            · refine ⟨id, ?_⟩
              have hlt : id < st1.mods.length := by
                cases hg : st1.mods[id]? with
                | none => simp [hg] at hq
                | some a => exact (List.getElem?_eq_some_iff.mp hg).1
              rw [hex2, List.getElem?_append_left hlt]; exact hq
            · cases hc
        · exact i4 d' hd' hnd
      · rename_i st1 e hfs
        obtain ⟨hs, hp⟩ := hf st d.path st1 (.error e) hfs hw ho
        obtain ⟨i1, i2, ⟨ex2, hex2⟩, i4⟩ :=
          mapDeps_rec read content path f O hf ds st1 mods vars _ st' mods' vars' errs' h hs.wf hs.opened
        obtain ⟨ex1, hex1⟩ := hs.ext
        refine ⟨fun hi => i1 (hp.inv hi), fun x hx => i2 x (List.mem_append_left _ hx),
          ⟨ex1 ++ ex2, by rw [hex2, hex1, List.append_assoc]⟩, ?_⟩
        intro d' hd' hnd
        rcases List.mem_cons.mp hd' with rfl | hd'
        · cases hread : read path d'.path with
          | error e' => exact .inl ⟨e', rfl⟩
          | ok qs =>
            obtain ⟨q, src⟩ := qs
            refine .inr ⟨q, src, rfl, .inr ?_⟩
            rcases hp.res q src hread with ⟨id, hid, _⟩ | hc
            · cases hid
            · cases hc
              exact i2 _ (by simp)
        · exact i4 d' hd' hnd

theorem mapResult_circ (mods : List (Nat × Option String)) (vars errs : List (S × String)) (body : B) (s : S)
    (h : (s, circularMsg) ∈ errs) : HasCirc (mapResult mods vars errs body) := by
  unfold mapResult
  have : errs.isEmpty = false := by cases errs <;> simp_all
  simp only [this]
  exact ⟨errs, s, rfl, h⟩

theorem find_rec [BEq P] [LawfulBEq P] (read : Reader P S B) (content : P → Src S B)
    (hcons : ∀ parent s p src, read parent s = .ok (p, src) → src = content p) :
    ∀ (fuel : Nat) (parent : P) (st : LState P S B) (s : S) (st' : LState P S B) (r : Except String Nat),
      find read fuel parent st s = some (st', r) → WF st → FPost read content parent s st st' r
  | 0, _, _, _, _, _, h, _ => by simp [find] at h
  | fuel + 1, parent, st, s, st', r, h, hw => by
    have hstep := find_step read (fuel + 1) parent st s st' r h hw
    simp only [find] at h
    split at h
    · rename_i e hread
      simp only [Option.some.injEq, Prod.mk.injEq] at h
      obtain ⟨rfl, rfl⟩ := h
      exact ⟨fun hi => hi, fun q src hr => by rw [hread] at hr; cases hr⟩
    · rename_i path src hread
      split at h
      · rename_i id hpos
        simp only [Option.some.injEq, Prod.mk.injEq] at h
        obtain ⟨rfl, rfl⟩ := h
        refine ⟨fun hi => hi, ?_⟩
        intro q src' hr
        rw [hread] at hr; cases hr
        obtain ⟨a, ha1, ha2⟩ := position_get _ _ _ hpos
        refine .inl ⟨id, rfl, ?_⟩
        simp only [beq_iff_eq] at ha2
        simp [ha1, ha2]
      · rename_i hpos
        split at h
        · simp only [Option.some.injEq, Prod.mk.injEq] at h
          obtain ⟨rfl, rfl⟩ := h
          exact ⟨fun hi => hi, fun q src' hr => .inr rfl⟩
        · rename_i hcont
          have hnotopen : path ∉ st.opened := by
            intro hm; apply hcont; simpa using hm
          have hnotmods : path ∉ pathsOf st := by
            intro hm
            obtain ⟨m, hm1, hm2⟩ := List.mem_map.mp hm
            have := position_none _ _ hpos m hm1
            simp [hm2] at this
          have hw1 : WF ({ mods := st.mods, opened := st.opened ++ [path], trace := st.trace ++ [(parent, s)] } : LState P S B) := by
            refine ⟨hw.nodup, ?_, ?_, hw.nonempty, hw.small⟩
            · intro p hp
              rcases List.mem_append.mp hp with hp | hp
              · exact hw.disj p hp
              · simp only [List.mem_singleton] at hp; subst hp; exact hnotmods
            · rw [List.nodup_append]
              refine ⟨hw.onodup, by simp, ?_⟩
              intro a ha b hb
              simp only [List.mem_singleton] at hb; subst hb
              intro hab; subst hab; exact hnotopen ha
          split at h
          · cases h
          · rename_i st2 defs hms
            simp only [Option.some.injEq, Prod.mk.injEq] at h
            obtain ⟨rfl, rfl⟩ := h
            have hf : ∀ (sa : LState P S B) (s' : S) (sb : LState P S B) (r' : Except String Nat),
                find read fuel path sa s' = some (sb, r') → WF sa → sa.opened = st.opened ++ [path] →
                Step (st.opened ++ [path]) sa sb r' ∧ FPost read content path s' sa sb r' := by
              intro sa s' sb r' hfind hwa hoa
              have h1 := find_step read fuel path sa s' sb r' hfind hwa
              rw [hoa] at h1
              exact ⟨h1, find_rec read content hcons fuel path sa s' sb r' hfind hwa⟩
            have hsrc : src = content path := hcons _ _ _ _ hread
            refine ⟨?_, ?_⟩
            · intro hinv
              show Inv read content (st2.mods ++ [(path, defs)])
              unfold mapSrc at hms
              cases src with
              | bad =>
                simp only [Option.some.injEq, Prod.mk.injEq] at hms
                obtain ⟨rfl, rfl⟩ := hms
                apply Inv.append hinv
                intro deps body hc
                rw [← hsrc] at hc; cases hc
              | ok deps body =>
                simp only at hms
                split at hms
                · cases hms
                · rename_i st1 mods vars errs hmd
                  simp only [Option.some.injEq, Prod.mk.injEq] at hms
                  obtain ⟨rfl, rfl⟩ := hms
                  obtain ⟨i1, _, _, i4⟩ := mapDeps_rec read content path _ (st.opened ++ [path]) hf deps _ _ _ _ _ _ _ _ hmd hw1 rfl
                  apply Inv.append (i1 hinv)
                  intro deps' body' hc d hd hnd
                  rw [← hsrc] at hc
                  cases hc
                  rcases i4 d hd hnd with h1 | ⟨q, src', hr, h2⟩
                  · exact .inl h1
                  · refine .inr ⟨q, src', hr, ?_⟩
                    rcases h2 with ⟨j, hq⟩ | hc
                    · refine .inl ⟨j, ?_, hq⟩
                      cases hg : st1.mods[j]? with
                      | none => simp [hg] at hq
                      | some a => exact (List.getElem?_eq_some_iff.mp hg).1
                    · exact .inr (mapResult_circ _ _ _ _ _ hc)
            · intro q src' hr
              rw [hread] at hr; cases hr
              refine .inl ⟨_, rfl, ?_⟩
              simp

theorem mem_collectErr : ∀ (l : List (P × ModRes S B)) (p : P) (e : ModErr S), (p, Except.error e) ∈ l → (p, e) ∈ collectErr l
  | [], _, _, h => by simp at h
  | (p', .ok m) :: r, p, e, h => by
    simp only [collectErr]
    rcases List.mem_cons.mp h with h | h
    · cases h
    · exact mem_collectErr r p e h
  | (p', .error e') :: r, p, e, h => by
    simp only [collectErr]
    rcases List.mem_cons.mp h with h | h
    · cases h; simp
    · exact List.mem_cons_of_mem _ (mem_collectErr r p e h)

/-- a stored module other than the prelude -/
def StoredAt (mods : List (P × ModRes S B)) (i : Nat) (q : P) : Prop := 1 ≤ i ∧ (mods[i]?).map (·.1) = some q

/-- the global form: a cycle of the file graph that is reachable from the main file makes the
    load fail with the circular-import error -/
theorem load_cycle [BEq P] [LawfulBEq P] (read : Reader P S B) (content : P → Src S B)
    (hcons : ∀ parent s p src, read parent s = .ok (p, src) → src = content p)
    (dflt : P) (hnd : ∀ parent s p src, read parent s = .ok (p, src) → p ≠ dflt)
    (fuel : Nat) (prelude : B) (mainPath : P) (mdeps : List (Directive S)) (mbody : B)
    (st : LState P S B) (res : LoadRes P S B)
    (h : load read fuel dflt prelude mainPath (.ok mdeps mbody) = some (st, res))
    (q : P) (hreach : Reach read content mainPath mdeps q) (hcyc : Path (Edge read content) q q) :
    ∃ errs, res = .err errs ∧ ∃ p l s, (p, ModErr.io l) ∈ errs ∧ (s, circularMsg) ∈ l := by
  unfold load at h
  split at h
  · cases h
  · rename_i st1 res1 hms
    have hf : ∀ (sa : LState P S B) (s' : S) (sb : LState P S B) (r' : Except String Nat),
        find read fuel mainPath sa s' = some (sb, r') → WF sa → sa.opened = [] →
        Step [] sa sb r' ∧ FPost read content mainPath s' sa sb r' := by
      intro sa s' sb r' hfind hwa hoa
      have h1 := find_step read fuel mainPath sa s' sb r' hfind hwa
      rw [hoa] at h1
      exact ⟨h1, find_rec read content hcons fuel mainPath sa s' sb r' hfind hwa⟩
    have hwf := (mapSrc_step _ [] (fun sa s' sb r' a b c => (hf sa s' sb r' a b c).1) _ _ st1 res1 hms
      (wf_init dflt prelude) rfl).1
    unfold mapSrc at hms
    simp only at hms
    split at hms
    · cases hms
    · rename_i st1' mods vars errs1 hmd
      simp only [Option.some.injEq, Prod.mk.injEq] at hms
      obtain ⟨rfl, rfl⟩ := hms
      obtain ⟨i1, _, ⟨extra, hext⟩, i4⟩ := mapDeps_rec read content mainPath _ [] hf mdeps _ _ _ _ _ _ _ _ hmd
        (wf_init dflt prelude) rfl
      have hinv : Inv read content st1'.mods := by
        apply i1
        intro i p r hget hi
        simp only [initState] at hget
        cases i with
        | zero => omega
        | succ j => simp at hget
      have h0 : (st1'.mods[0]?).map (·.1) = some dflt := by
        rw [hext]; simp [initState]
      -- the circular error is somewhere
      have hC : (∃ p r, (p, r) ∈ st1'.mods ∧ HasCirc r) ∨ HasCirc (mapResult mods vars errs1 mbody) := by
        apply Classical.byContradiction
        intro hno
        have hno1 : ∀ p r, (p, r) ∈ st1'.mods → ¬ HasCirc r := fun p r hm hc => hno (.inl ⟨p, r, hm, hc⟩)
        have hno2 : ¬ HasCirc (mapResult mods vars errs1 mbody) := fun hc => hno (.inr hc)
        have hpos : ∀ j q' parent s src, read parent s = .ok (q', src) → (st1'.mods[j]?).map (·.1) = some q' → 1 ≤ j := by
          intro j q' parent s src hr hj
          cases j with
          | zero => rw [h0] at hj; cases hj; exact absurd rfl (hnd _ _ _ _ hr)
          | succ j => omega
        have hA : ∀ q', Reach read content mainPath mdeps q' → ∃ i, StoredAt st1'.mods i q' := by
          intro q' hr
          induction hr with
          | root d q2 src hd hndata hread =>
            rcases i4 d hd hndata with ⟨e, he⟩ | ⟨q3, src3, hr3, h3⟩
            · rw [hread] at he; cases he
            · rw [hread] at hr3; cases hr3
              rcases h3 with ⟨j, hj⟩ | hc
              · exact ⟨j, hpos j _ _ _ _ hread hj, hj⟩
              · exact absurd (mapResult_circ _ _ _ _ _ hc) hno2
          | step p q2 _ hedge ih =>
            obtain ⟨i, hi1, hi2⟩ := ih
            obtain ⟨deps, body, d, src, hc, hd, hndata, hread⟩ := hedge
            cases hg : st1'.mods[i]? with
            | none => simp [hg] at hi2
            | some pr =>
              obtain ⟨p', r⟩ := pr
              simp only [hg, Option.map_some, Option.some.injEq] at hi2
              subst hi2
              rcases hinv i p' r hg hi1 deps body hc d hd hndata with ⟨e, he⟩ | ⟨q3, src3, hr3, h3⟩
              · rw [hread] at he; cases he
              · rw [hread] at hr3; cases hr3
                rcases h3 with ⟨j, _, hj⟩ | hcirc
                · exact ⟨j, hpos j _ _ _ _ hread hj, hj⟩
                · exact absurd hcirc (hno1 p' r (List.mem_of_getElem? hg))
        have hB : ∀ a b, Path (Edge read content) a b → ∀ i, StoredAt st1'.mods i a →
            ∃ j, j < i ∧ StoredAt st1'.mods j b := by
          intro a b hp
          induction hp with
          | single a b hedge =>
            intro i ⟨hi1, hi2⟩
            obtain ⟨deps, body, d, src, hc, hd, hndata, hread⟩ := hedge
            cases hg : st1'.mods[i]? with
            | none => simp [hg] at hi2
            | some pr =>
              obtain ⟨p', r⟩ := pr
              simp only [hg, Option.map_some, Option.some.injEq] at hi2
              subst hi2
              rcases hinv i p' r hg hi1 deps body hc d hd hndata with ⟨e, he⟩ | ⟨q3, src3, hr3, h3⟩
              · rw [hread] at he; cases he
              · rw [hread] at hr3; cases hr3
                rcases h3 with ⟨j, hji, hj⟩ | hcirc
                · exact ⟨j, hji, hpos j _ _ _ _ hread hj, hj⟩
                · exact absurd hcirc (hno1 p' r (List.mem_of_getElem? hg))
          | cons a b c hedge _ ih =>
            intro i hi
            obtain ⟨j, hji, hj⟩ := (show ∃ j, j < i ∧ StoredAt st1'.mods j b from by
              obtain ⟨hi1, hi2⟩ := hi
              obtain ⟨deps, body, d, src, hc, hd, hndata, hread⟩ := hedge
              cases hg : st1'.mods[i]? with
              | none => simp [hg] at hi2
              | some pr =>
                obtain ⟨p', r⟩ := pr
                simp only [hg, Option.map_some, Option.some.injEq] at hi2
                subst hi2
                rcases hinv i p' r hg hi1 deps body hc d hd hndata with ⟨e, he⟩ | ⟨q3, src3, hr3, h3⟩
                · rw [hread] at he; cases he
                · rw [hread] at hr3; cases hr3
                  rcases h3 with ⟨j, hji, hj⟩ | hcirc
                  · exact ⟨j, hji, hpos j _ _ _ _ hread hj, hj⟩
                  · exact absurd hcirc (hno1 p' r (List.mem_of_getElem? hg)))
            obtain ⟨k, hkj, hk⟩ := ih j hj
            exact ⟨k, by omega, hk⟩
        obtain ⟨i, hi⟩ := hA q hreach
        obtain ⟨j, hji, hj⟩ := hB q q hcyc i hi
        -- two different indices hold the same path
        have hnd2 := hwf.nodup
        unfold pathsOf at hnd2
        have e1 : (st1'.mods.map (·.1))[i]? = some q := by rw [List.getElem?_map]; exact hi.2
        have e2 : (st1'.mods.map (·.1))[j]? = some q := by rw [List.getElem?_map]; exact hj.2
        obtain ⟨hli, hei⟩ := List.getElem?_eq_some_iff.mp e1
        obtain ⟨hlj, hej⟩ := List.getElem?_eq_some_iff.mp e2
        have := (List.pairwise_iff_getElem.mp hnd2) j i hlj hli hji
        exact this (by rw [hei, hej])
      -- … hence among the errors `load` returns
      have hce : ∀ p r, (p, r) ∈ st1'.mods → HasCirc r → ∃ l s, (p, ModErr.io l) ∈ collectErr st1'.mods ∧ (s, circularMsg) ∈ l := by
        intro p r hm ⟨l, s, hr, hs⟩
        subst hr
        exact ⟨l, s, mem_collectErr _ _ _ hm, hs⟩
      cases hres : mapResult mods vars errs1 mbody with
      | error e =>
        rw [hres] at h hC
        simp only [Option.some.injEq, Prod.mk.injEq] at h
        obtain ⟨_, rfl⟩ := h
        refine ⟨_, rfl, ?_⟩
        rcases hC with ⟨p, r, hm, hc⟩ | ⟨l, s, hr, hs⟩
        · obtain ⟨l, s, h1, h2⟩ := hce p r hm hc
          exact ⟨p, l, s, List.mem_append_right _ h1, h2⟩
        · cases hr
          exact ⟨mainPath, l, s, by simp, hs⟩
      | ok m =>
        rw [hres] at h hC
        rcases hC with ⟨p, r, hm, hc⟩ | ⟨l, s, hr, hs⟩
        · obtain ⟨l, s, h1, h2⟩ := hce p r hm hc
          have hne : (([] : List (P × ModErr S)) ++ collectErr st1'.mods).isEmpty = false := by
            cases hcl : collectErr st1'.mods with
            | nil => rw [hcl] at h1; simp at h1
            | cons a b => simp
          simp only [hne] at h
          simp only [Bool.false_eq_true, ↓reduceIte, Option.some.injEq, Prod.mk.injEq] at h
          obtain ⟨_, rfl⟩ := h
          exact ⟨_, rfl, p, l, s, by simpa using h1, h2⟩
        · cases hr

end Jaq.C16
