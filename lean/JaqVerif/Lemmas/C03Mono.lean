/-
  C03 helper lemmas, part 1: both machines are monotone in their fuel (hence deterministic),
  and pulls compose (`NextR`, `MkR`: "some fuel suffices").
-/
import JaqVerif.C03.Ref
import JaqVerif.C03.Iter

namespace Jaq.C03

def FLe (g g' : Th → World → ForceRes) : Prop := ∀ th w r, g th w = some r → g' th w = some r
def MLe (g g' : T → Ctx → Val → World → MkRes) : Prop := ∀ t c v w r, g t c v w = some r → g' t c v w = some r
def NLe (g g' : It → World → NextRes) : Prop := ∀ it w r, g it w = some r → g' it w = some r

/-- one generic monotonicity step: split the hypothesis `h`, rewrite the goal with the
induction hypothesis applied to the equation the split produced, continue -/
syntax "mono1" : tactic
set_option hygiene false in
macro_rules
  | `(tactic| mono1) => `(tactic|
      first
        | exact h
        | exact hg _ _ _ h
        | (simp at h; done)
        | (split at h <;>
            (try (rename_i heq; (first | rw [hg _ _ _ heq] | rw [if_pos heq] | rw [if_neg heq] | rw [heq]); try dsimp only)) <;>
            mono1))

theorem foldEndS_mono {g g' : Th → World → ForceRes} (hg : FLe g g') {kind upd ctx cells src ended ini y rest w r}
    (h : foldEndS g kind upd ctx cells src ended ini y rest w = some r) :
    foldEndS g' kind upd ctx cells src ended ini y rest w = some r := by
  unfold foldEndS at h ⊢
  mono1

theorem foldCellS_mono {g g' : Th → World → ForceRes} (hg : FLe g g') {kind upd ctx cells src ended ini pos y rest cell w r}
    (h : foldCellS g kind upd ctx cells src ended ini pos y rest cell w = some r) :
    foldCellS g' kind upd ctx cells src ended ini pos y rest cell w = some r := by
  unfold foldCellS at h ⊢
  mono1

theorem foldOutS_mono {g g' : Th → World → ForceRes} (hg : FLe g g') {kind upd ctx cells src ended ini pos x yi rest w r}
    (h : foldOutS g kind upd ctx cells src ended ini pos x yi rest w = some r) :
    foldOutS g' kind upd ctx cells src ended ini pos x yi rest w = some r := by
  unfold foldOutS at h ⊢
  mono1

syntax "mono1f" : tactic
set_option hygiene false in
macro_rules
  | `(tactic| mono1f) => `(tactic|
      first
        | exact h
        | exact hg _ _ _ h
        | exact foldEndS_mono hg h
        | exact foldCellS_mono hg h
        | exact foldOutS_mono hg h
        | (simp at h; done)
        | (split at h <;>
            (try (rename_i heq; (first | rw [hg _ _ _ heq] | rw [if_pos heq] | rw [if_neg heq] | rw [heq]); try dsimp only)) <;>
            mono1f))

theorem forceStep_mono (D : List T) {g g' : Th → World → ForceRes} (hg : FLe g g')
    {th : Th} {w : World} {r : Step × World} (h : forceStep D g th w = some r) :
    forceStep D g' th w = some r := by
  unfold forceStep at h ⊢
  mono1f

theorem force_succ (D : List T) (n : Nat) : force D (n + 1) = forceStep D (force D n) := rfl

theorem force_mono (D : List T) : ∀ n, FLe (force D n) (force D (n + 1)) := by
  intro n
  induction n with
  | zero => intro th w r h; simp [force] at h
  | succ n ih => intro th w r h; exact forceStep_mono D ih h

theorem force_mono_le {D : List T} {n m : Nat} {th : Th} {w : World} {r : Step × World}
    (h : force D n th w = some r) (hm : n ≤ m) : force D m th w = some r := by
  induction hm with
  | refl => exact h
  | step _ ih => exact force_mono D _ _ _ _ ih

theorem force_det {D : List T} {m1 m2 : Nat} {th : Th} {w : World} {r1 r2 : Step × World}
    (h1 : force D m1 th w = some r1) (h2 : force D m2 th w = some r2) : r1 = r2 := by
  have a := force_mono_le h1 (Nat.le_max_left m1 m2)
  have b := force_mono_le h2 (Nat.le_max_right m1 m2)
  rw [a] at b; exact Option.some.inj b

syntax "mono2" : tactic
set_option hygiene false in
macro_rules
  | `(tactic| mono2) => `(tactic|
      first
        | exact h
        | exact hm _ _ _ _ _ h
        | exact hn _ _ _ h
        | (simp at h; done)
        | (split at h <;>
            (try (rename_i heq; (first | rw [hm _ _ _ _ _ heq] | rw [hn _ _ _ heq] | rw [if_pos heq] | rw [if_neg heq] | rw [heq]); try dsimp only)) <;>
            mono2))

theorem mkFlatWith_mono {m m' n n'} (hm : MLe m m') (hn : NLe n n') {a k w r}
    (h : mkFlatWith m n a k w = some r) : mkFlatWith m' n' a k w = some r := by
  unfold mkFlatWith at h ⊢
  mono2

theorem collectIfOnce_mono {n n'} (hn : NLe n n') {ia i ctx v w r}
    (h : collectIfOnce n ia i ctx v w = some r) : collectIfOnce n' ia i ctx v w = some r := by
  unfold collectIfOnce at h ⊢
  have hm : MLe (fun _ _ _ _ => none) (fun _ _ _ _ => none) := fun _ _ _ _ _ h => h
  mono2

theorem mkMapSrc_mono {n n'} (hn : NLe n n') {a w r}
    (h : mkMapSrc n a w = some r) : mkMapSrc n' a w = some r := by
  unfold mkMapSrc at h ⊢
  have hm : MLe (fun _ _ _ _ => none) (fun _ _ _ _ => none) := fun _ _ _ _ _ h => h
  mono2

theorem mkMathR_mono {n n'} (hn : NLe n n') {op y b w r}
    (h : mkMathR n op y b w = some r) : mkMathR n' op y b w = some r := by
  unfold mkMathR at h ⊢
  have hm : MLe (fun _ _ _ _ => none) (fun _ _ _ _ => none) := fun _ _ _ _ _ h => h
  mono2

theorem mkFoldInit_mono {n n'} (hn : NLe n n') {kind upd p ctx src ib w r}
    (h : mkFoldInit n kind upd p ctx src ib w = some r) : mkFoldInit n' kind upd p ctx src ib w = some r := by
  unfold mkFoldInit at h ⊢
  have hm : MLe (fun _ _ _ _ => none) (fun _ _ _ _ => none) := fun _ _ _ _ _ h => h
  mono2

theorem foldEnd_mono {n n'} (hn : NLe n n') {kind upd ctx cells src ended ini y rest w r}
    (h : foldEnd n kind upd ctx cells src ended ini y rest w = some r) :
    foldEnd n' kind upd ctx cells src ended ini y rest w = some r := by
  unfold foldEnd at h ⊢
  have hm : MLe (fun _ _ _ _ => none) (fun _ _ _ _ => none) := fun _ _ _ _ _ h => h
  mono2

theorem foldCell_mono {m m' n n'} (hm : MLe m m') (hn : NLe n n') {kind upd ctx cells src ended ini pos y rest cell w r}
    (h : foldCell m n kind upd ctx cells src ended ini pos y rest cell w = some r) :
    foldCell m' n' kind upd ctx cells src ended ini pos y rest cell w = some r := by
  unfold foldCell at h ⊢
  mono2

theorem foldOut_mono {n n'} (hn : NLe n n') {kind upd ctx cells src ended ini pos x yi rest w r}
    (h : foldOut n kind upd ctx cells src ended ini pos x yi rest w = some r) :
    foldOut n' kind upd ctx cells src ended ini pos x yi rest w = some r := by
  unfold foldOut at h ⊢
  have hm : MLe (fun _ _ _ _ => none) (fun _ _ _ _ => none) := fun _ _ _ _ _ h => h
  mono2

syntax "mono3" : tactic
set_option hygiene false in
macro_rules
  | `(tactic| mono3) => `(tactic|
      first
        | exact h
        | exact hm _ _ _ _ _ h
        | exact hn _ _ _ h
        | exact mkFlatWith_mono hm hn h
        | exact mkMathR_mono hn h
        | exact mkFoldInit_mono hn h
        | exact foldEnd_mono hn h
        | exact foldCell_mono hm hn h
        | exact foldOut_mono hn h
        | (simp at h; done)
        | (split at h <;>
            (try (rename_i heq; (first | rw [hm _ _ _ _ _ heq] | rw [hn _ _ _ heq] | rw [collectIfOnce_mono hn heq] | rw [mkMapSrc_mono hn heq] | rw [if_pos heq] | rw [if_neg heq] | rw [heq]); try dsimp only)) <;>
            mono3))

theorem mkStep_mono (D : List T) {m m' n n'} (hm : MLe m m') (hn : NLe n n') {t c v w r}
    (h : mkStep D m n t c v w = some r) : mkStep D m' n' t c v w = some r := by
  unfold mkStep at h ⊢
  mono3

theorem nextStep_mono {m m' n n'} (hm : MLe m m') (hn : NLe n n') {it w r}
    (h : nextStep m n it w = some r) : nextStep m' n' it w = some r := by
  unfold nextStep at h ⊢
  mono3

theorem mk_succ (D : List T) (n : Nat) : mk D (n + 1) = mkStep D (mk D n) (next D n) := by
  funext t c v w; rw [mk]
theorem next_succ (D : List T) (n : Nat) : next D (n + 1) = nextStep (mk D n) (next D n) := by
  funext it w; rw [next]

theorem mk_next_mono (D : List T) : ∀ n, MLe (mk D n) (mk D (n + 1)) ∧ NLe (next D n) (next D (n + 1)) := by
  intro n
  induction n with
  | zero => exact ⟨fun t c v w r h => by simp [mk] at h, fun it w r h => by simp [next] at h⟩
  | succ n ih =>
    refine ⟨fun t c v w r h => ?_, fun it w r h => ?_⟩
    · rw [mk_succ] at h ⊢; exact mkStep_mono D ih.1 ih.2 h
    · rw [next_succ] at h ⊢; exact nextStep_mono ih.1 ih.2 h

theorem mk_mono_le {D : List T} {n m : Nat} {t c v w} {r : It × World}
    (h : mk D n t c v w = some r) (hm : n ≤ m) : mk D m t c v w = some r := by
  induction hm with
  | refl => exact h
  | step _ ih => exact (mk_next_mono D _).1 _ _ _ _ _ ih

theorem next_mono_le {D : List T} {n m : Nat} {it w} {r : Option Item × It × World}
    (h : next D n it w = some r) (hm : n ≤ m) : next D m it w = some r := by
  induction hm with
  | refl => exact h
  | step _ ih => exact (mk_next_mono D _).2 _ _ _ ih

theorem next_det {D : List T} {m1 m2 : Nat} {it w} {r1 r2 : Option Item × It × World}
    (h1 : next D m1 it w = some r1) (h2 : next D m2 it w = some r2) : r1 = r2 := by
  have a := next_mono_le h1 (Nat.le_max_left m1 m2)
  have b := next_mono_le h2 (Nat.le_max_right m1 m2)
  rw [a] at b; exact Option.some.inj b

theorem mk_det {D : List T} {m1 m2 : Nat} {t c v w} {r1 r2 : It × World}
    (h1 : mk D m1 t c v w = some r1) (h2 : mk D m2 t c v w = some r2) : r1 = r2 := by
  have a := mk_mono_le h1 (Nat.le_max_left m1 m2)
  have b := mk_mono_le h2 (Nat.le_max_right m1 m2)
  rw [a] at b; exact Option.some.inj b

end Jaq.C03
