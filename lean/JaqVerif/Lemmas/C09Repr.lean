/-
  C09 (round 2) helper lemmas: what every integer consumer computes from an integer *value*
  (hence independently of the representation), for integers of any magnitude.
-/
import JaqVerif.C09.Consumers
import JaqVerif.Lemmas.C08EqNum
import JaqVerif.Lemmas.C07Num

namespace Jaq.C09
open Jaq

theorem isInt_cases' {n : Num} {x : Int} (h : IsInt n x) : n = .int x ∨ n = .big x := by
  cases n <;> simp_all [IsInt, Num.intVal?]

theorem ofInt_isInt (i : Int) : IsInt (Num.ofInt i) i := by
  unfold IsInt Num.ofInt; split <;> rfl

theorem fits_bounds {x : Int} (h : fitsIsize x = true) :
    -9223372036854775808 ≤ x ∧ x ≤ 9223372036854775807 := by
  unfold fitsIsize isizeMin isizeMax at h
  rw [Bool.and_eq_true, decide_eq_true_iff, decide_eq_true_iff] at h
  exact h

theorem not_fits {x : Int} (h : ¬ fitsIsize x = true) :
    x < -9223372036854775808 ∨ 9223372036854775807 < x := by
  unfold fitsIsize isizeMin isizeMax at h
  rw [Bool.and_eq_true, decide_eq_true_iff, decide_eq_true_iff] at h
  omega

/-! ### hash -/

theorem hashFeed_repr (x : Int) (h : fitsIsize x = true) :
    Num.hashFeed (.int x) = Num.hashFeed (.big x) := by
  have hf := C08.ofInt_finite_of_wf x h
  simp only [Num.hashFeed, Num.undec, hf, if_true]

/-! ### positions -/

theorem asPosUsize_repr (x : Int) (h : fitsIsize x = true) :
    asPosUsize (.int x) = asPosUsize (.big x) := by
  have hb := fits_bounds h
  simp only [asPosUsize, usizeMaxNat]
  congr 1
  have h1 : min x.natAbs 18446744073709551615 = x.natAbs := by omega
  rw [h1]
  congr 1
  by_cases h0 : x < 0 <;> simp [h0] <;> omega

/-- the position an integer `x` denotes in a container of length `len`: `none` = outside -/
def posOf (x : Int) (len : Nat) : Option Nat :=
  if 0 ≤ x then (if x.toNat < len then some x.toNat else none)
  else if x.natAbs ≤ len then some (len - x.natAbs) else none

theorem absIndex_int (n : Num) (x : Int) (h : IsInt n x) (len : Nat) (hl : len < usizeMaxNat) :
    (asPosUsize n).bind (fun p => absIndex p len) = posOf x len := by
  unfold usizeMaxNat at hl
  rcases isInt_cases' h with rfl | rfl
  · simp only [asPosUsize, Option.bind_some, absIndex, wrap, posOf]
    by_cases h0 : 0 ≤ x
    · simp only [h0, decide_true, if_true]
      by_cases h1 : x.toNat < len
      · have : x.natAbs < len := by omega
        have e : x.natAbs = x.toNat := by omega
        simp [h1, e]
      · have : ¬ x.natAbs < len := by omega
        simp [h1]; omega
    · simp only [h0, decide_false, if_false, Bool.false_eq_true]
      by_cases h1 : x.natAbs ≤ len
      · have : len - x.natAbs < len := by omega
        simp [h1, this]
      · simp [h1]
  · simp only [asPosUsize, usizeMaxNat, Option.bind_some, absIndex, wrap, posOf]
    by_cases h0 : 0 ≤ x
    · have hn : ¬ x < 0 := by omega
      simp only [hn, decide_false, Bool.not_false, if_true, h0]
      by_cases h1 : x.toNat < len
      · have e : min x.natAbs 18446744073709551615 = x.toNat := by omega
        simp [h1, e]
      · have : ¬ min x.natAbs 18446744073709551615 < len := by omega
        simp [h1]; omega
    · have hn : x < 0 := by omega
      simp only [hn, decide_true, Bool.not_true, if_false, Bool.false_eq_true, h0]
      by_cases h1 : x.natAbs ≤ len
      · have e : min x.natAbs 18446744073709551615 = x.natAbs := by omega
        have : len - x.natAbs < len := by omega
        simp [h1, e, this]
      · have : ¬ min x.natAbs 18446744073709551615 ≤ len := by omega
        simp [h1, this]

/-- a slice bound `x` clipped into `[0, len]` -/
def clip (x : Int) (len : Nat) : Nat :=
  if 0 ≤ x then min x.toNat len else len - x.natAbs

theorem absBound_int (n : Num) (x : Int) (h : IsInt n x) (len dflt : Nat) (hl : len ≤ usizeMaxNat) :
    absBound (asPosUsize n) len dflt = clip x len := by
  unfold usizeMaxNat at hl
  rcases isInt_cases' h with rfl | rfl
  · simp only [asPosUsize, absBound, wrap, clip]
    by_cases h0 : 0 ≤ x
    · simp only [h0, decide_true, if_true, Option.getD_some]
      congr 1; omega
    · simp only [h0, decide_false, if_false, Bool.false_eq_true]
      by_cases h1 : x.natAbs ≤ len
      · simp only [h1, if_true, Option.getD_some]; omega
      · simp only [h1, if_false, Option.getD_none]; omega
  · simp only [asPosUsize, usizeMaxNat, absBound, wrap, clip]
    by_cases h0 : 0 ≤ x
    · have hn : ¬ x < 0 := by omega
      simp only [hn, decide_false, Bool.not_false, if_true, h0, Option.getD_some]
      omega
    · have hn : x < 0 := by omega
      simp only [hn, decide_true, Bool.not_true, if_false, Bool.false_eq_true, h0]
      by_cases h1 : min x.natAbs 18446744073709551615 ≤ len
      · simp only [h1, if_true, Option.getD_some]; omega
      · simp only [h1, if_false, Option.getD_none]; omega

/-! ### comparison with the repaired `big_float_cmp` -/

theorem bigFloatCmp_fits (x : Int) (h : fitsIsize x = true) (f : UInt64) :
    bigFloatCmp x f = F64.cmp (F64.ofInt x) f := by
  have hf := C08.ofInt_finite_of_wf x h
  unfold bigFloatCmp
  by_cases h1 : f = F64.posInf
  · subst h1
    have := (C08.cmp_finite_inf hf (f := F64.posInf) (by decide)).1
    rw [this]; simp; decide
  · by_cases h2 : f = F64.negInf
    · subst h2
      have := (C08.cmp_finite_inf hf (f := F64.negInf) (by decide)).1
      rw [this]
      have : (F64.negInf == F64.posInf) = false := by decide
      simp [this]; decide
    · simp [h1, h2]

theorem numCmp_ints {a b : Num} {x y : Int} (ha : IsInt a x) (hb : IsInt b y) :
    numCmp a b = compare x y := by
  rcases isInt_cases' ha with rfl | rfl <;> rcases isInt_cases' hb with rfl | rfl <;> rfl

theorem numEq_ints {a b : Num} {x y : Int} (ha : IsInt a x) (hb : IsInt b y) :
    Num.eq a b = (x == y) := by
  rcases isInt_cases' ha with rfl | rfl <;> rcases isInt_cases' hb with rfl | rfl <;> rfl

theorem swap_cmp_ofInt (x : Int) (f : UInt64) (hn : F64.isNaN f = false) :
    (F64.cmp (F64.ofInt x) f).swap = F64.cmp f (F64.ofInt x) := by
  have h1 := C08.ofInt_not_nan x
  rw [C08.F64.cmp_eq_compare_fkey _ _ h1 hn, C08.F64.cmp_eq_compare_fkey _ _ hn h1]
  generalize C08.fkey (F64.ofInt x) = u
  generalize C08.fkey f = v
  rcases Int.lt_trichotomy u v with h | h | h
  · rw [Int.compare_eq_lt.2 h, Int.compare_eq_gt.2 h]; rfl
  · subst h; simp
  · rw [Int.compare_eq_gt.2 h, Int.compare_eq_lt.2 h]; rfl

/-- the comparison of the tree as it is now does not see the representation of an in-range
integer either, against every third number and on both sides -/
theorem numCmp_repr (x : Int) (h : fitsIsize x = true) (c : Num) :
    numCmp (.int x) c = numCmp (.big x) c ∧ numCmp c (.int x) = numCmp c (.big x) := by
  have key : ∀ f : UInt64, numCmp (.int x) (.float f) = numCmp (.big x) (.float f) ∧
      numCmp (.float f) (.int x) = numCmp (.float f) (.big x) := by
    intro f
    refine ⟨?_, ?_⟩
    · show F64.cmp (F64.ofInt x) f = bigFloatCmp x f
      rw [bigFloatCmp_fits x h]
    · show F64.cmp f (F64.ofInt x) = (bigFloatCmp x f).swap
      rw [bigFloatCmp_fits x h]
      by_cases hn : F64.isNaN f = true
      · simp only [F64.cmp, hn]
        have h1 := C08.ofInt_not_nan x
        have hz : F64.isZero f = false := by
          simp only [F64.isNaN, F64.expField, F64.fracField, Bool.and_eq_true, beq_iff_eq, bne_iff_ne] at hn
          simp only [F64.isZero, beq_eq_false_iff_ne]
          have := f.toNat_lt
          omega
        simp [hz, h1]
      · rw [swap_cmp_ofInt x f (by simpa using hn)]
  cases c with
  | int y => exact ⟨rfl, rfl⟩
  | big y => exact ⟨rfl, rfl⟩
  | float f => exact key f
  | dec s => exact key (F64.ofDec s)

/-! ### counters -/

theorem gtZero_int {n : Num} {x : Int} (h : IsInt n x) : gtZero n = decide (0 < x) := by
  unfold gtZero
  rw [numCmp_ints h (show IsInt (.int 0) 0 from rfl)]
  by_cases h0 : 0 < x
  · rw [Int.compare_eq_gt.2 h0]; simp [h0]
  · simp only [h0, decide_false]
    rcases Int.lt_or_eq_of_le (Int.not_lt.1 h0) with h1 | h1
    · rw [Int.compare_eq_lt.2 h1]; rfl
    · subst h1; rfl

theorem pred_int {n : Num} {x : Int} (h : IsInt n x) : IsInt (pred n) (x - 1) := by
  rcases isInt_cases' h with rfl | rfl
  · exact ofInt_isInt _
  · rfl

theorem add_int {a b : Num} {x y : Int} (ha : IsInt a x) (hb : IsInt b y) :
    IsInt (Num.add a b) (x + y) := by
  rcases isInt_cases' ha with rfl | rfl <;> rcases isInt_cases' hb with rfl | rfl
  · exact ofInt_isInt _
  · rfl
  · rfl
  · rfl

theorem limitGo_int {α : Type} : ∀ (fuel : Nat) (n : Num) (x : Int) (xs : List α),
    IsInt n x → xs.length < fuel → limitGo fuel n xs = xs.take x.toNat := by
  intro fuel
  induction fuel with
  | zero => intro n x xs _ hl; omega
  | succ f ih =>
    intro n x xs h hl
    simp only [limitGo, gtZero_int h]
    by_cases h0 : 0 < x
    · simp only [h0, decide_true, if_true]
      cases xs with
      | nil => simp
      | cons y r =>
        simp only
        rw [ih (pred n) (x - 1) r (pred_int h) (by simp at hl; omega)]
        have : x.toNat = (x - 1).toNat + 1 := by omega
        rw [this, List.take_succ_cons]
    · simp only [h0, decide_false, if_false, Bool.false_eq_true]
      have : x.toNat = 0 := by omega
      rw [this, List.take_zero]

theorem skipGo_int {α : Type} (isErr : α → Bool) : ∀ (fuel : Nat) (n : Num) (x : Int) (xs : List α),
    IsInt n x → xs.length < fuel →
    skipGo isErr fuel n xs = (xs.take x.toNat).filter isErr ++ xs.drop x.toNat := by
  intro fuel
  induction fuel with
  | zero => intro n x xs _ hl; omega
  | succ f ih =>
    intro n x xs h hl
    simp only [skipGo, gtZero_int h]
    by_cases h0 : 0 < x
    · simp only [h0, decide_true, if_true]
      cases xs with
      | nil => simp
      | cons y r =>
        simp only
        have e : x.toNat = (x - 1).toNat + 1 := by omega
        have ihr := ih (pred n) (x - 1) r (pred_int h) (by simp at hl; omega)
        rw [e, List.take_succ_cons, List.drop_succ_cons, ihr]
        by_cases hy : isErr y = true
        · simp [hy]
        · simp [hy]
    · simp only [h0, decide_false, if_false, Bool.false_eq_true]
      have : x.toNat = 0 := by omega
      rw [this]; simp

/-- the integers `range(f; t; b)` is specified to produce (first `fuel` of them) -/
def rangeInts : Nat → Int → Int → Int → List Int
  | 0, _, _, _ => []
  | n + 1, f, t, b =>
    if (0 < b ∧ f < t) ∨ (b < 0 ∧ t < f) ∨ (b = 0 ∧ f ≠ t) then f :: rangeInts n (f + b) t b else []

theorem rangeCond_int {x t b : Int} {vx vt : Num} (hx : IsInt vx x) (ht : IsInt vt t) :
    rangeCond (compare b 0) vx vt = decide ((0 < b ∧ x < t) ∨ (b < 0 ∧ t < x) ∨ (b = 0 ∧ x ≠ t)) := by
  rcases Int.lt_trichotomy b 0 with hb | hb | hb
  · rw [Int.compare_eq_lt.2 hb]
    simp only [rangeCond, numCmp_ints hx ht]
    rcases Int.lt_trichotomy x t with h | h | h
    · rw [Int.compare_eq_lt.2 h]
      have : ¬ ((0 < b ∧ x < t) ∨ (b < 0 ∧ t < x) ∨ (b = 0 ∧ x ≠ t)) := by omega
      simp only [this, decide_false]; rfl
    · subst h
      have : ¬ ((0 < b ∧ x < x) ∨ (b < 0 ∧ x < x) ∨ (b = 0 ∧ x ≠ x)) := by omega
      simp [this]
    · rw [Int.compare_eq_gt.2 h]
      have : ((0 < b ∧ x < t) ∨ (b < 0 ∧ t < x) ∨ (b = 0 ∧ x ≠ t)) := by omega
      simp only [this, decide_true]; rfl
  · subst hb
    simp only [rangeCond, numEq_ints hx ht]
    by_cases h : x = t
    · subst h; simp
    · have : ((0 < (0:Int) ∧ x < t) ∨ ((0:Int) < 0 ∧ t < x) ∨ ((0:Int) = 0 ∧ x ≠ t)) := by omega
      simp [this, h]
  · rw [Int.compare_eq_gt.2 hb]
    simp only [rangeCond, numCmp_ints hx ht]
    rcases Int.lt_trichotomy x t with h | h | h
    · rw [Int.compare_eq_lt.2 h]
      have : ((0 < b ∧ x < t) ∨ (b < 0 ∧ t < x) ∨ (b = 0 ∧ x ≠ t)) := by omega
      simp only [this, decide_true]; rfl
    · subst h
      have : ¬ ((0 < b ∧ x < x) ∨ (b < 0 ∧ x < x) ∨ (b = 0 ∧ x ≠ x)) := by omega
      simp [this]
    · rw [Int.compare_eq_gt.2 h]
      have : ¬ ((0 < b ∧ x < t) ∨ (b < 0 ∧ t < x) ∨ (b = 0 ∧ x ≠ t)) := by omega
      simp only [this, decide_false]; rfl

theorem rangeGo_int : ∀ (fuel : Nat) (vx vt vb : Num) (x t b : Int),
    IsInt vx x → IsInt vt t → IsInt vb b →
    (rangeGo fuel vx vt vb (compare b 0)).map Num.intVal? = (rangeInts fuel x t b).map some := by
  intro fuel
  induction fuel with
  | zero => intros; rfl
  | succ f ih =>
    intro vx vt vb x t b hx ht hb
    simp only [rangeGo, rangeInts, rangeCond_int (b := b) hx ht]
    by_cases hc : (0 < b ∧ x < t) ∨ (b < 0 ∧ t < x) ∨ (b = 0 ∧ x ≠ t)
    · simp only [hc, decide_true, if_true, List.map_cons]
      rw [ih _ vt vb (x + b) t b (add_int hx hb) ht hb]
      congr 1
    · simp only [hc, decide_false, if_false, Bool.false_eq_true, List.map_nil]

/-! ### bytes, code points, exponents -/

theorem asIsize_int {n : Num} {x : Int} (h : IsInt n x) (w : n.wf = true) :
    Num.asIsize n = if fitsIsize x then some x else none := by
  rcases isInt_cases' h with rfl | rfl
  · have : fitsIsize x = true := w
    simp [Num.asIsize, this]
  · rfl

/-! ### object keys -/

theorem feed_num (n : Num) : Val.feed (.num n) = (Num.hashFeed n).map fun i => (0, i) := rfl

theorem eq_num_left (a : Num) (k : Val) :
    Val.eq (.num a) k = match k with | .num c => Num.eq a c | _ => false := by
  have hk := Val.size_pos k
  unfold Val.eq
  obtain ⟨m, hm⟩ : ∃ m, (Val.num a).size + k.size = m + 1 := ⟨(Val.num a).size + k.size - 1, by omega⟩
  rw [hm]
  cases k <;> simp [Val.eqF]

theorem eq_num_right (a : Num) (k : Val) :
    Val.eq k (.num a) = match k with | .num c => Num.eq c a | _ => false := by
  have hk := Val.size_pos k
  unfold Val.eq
  obtain ⟨m, hm⟩ : ∃ m, k.size + (Val.num a).size = m + 1 := ⟨k.size + (Val.num a).size - 1, by omega⟩
  rw [hm]
  cases k <;> simp [Val.eqF]

theorem numEq_repr (x : Int) (c : Num) :
    Num.eq (.int x) c = Num.eq (.big x) c ∧ Num.eq c (.int x) = Num.eq c (.big x) := by
  cases c <;> simp only [Num.eq, Num.undec, Num.ofDecStr] <;> simp

theorem sameKey_repr (x : Int) (h : fitsIsize x = true) (k : Val) :
    Obj.sameKey (.num (.int x)) k = Obj.sameKey (.num (.big x)) k ∧
    Obj.sameKey k (.num (.int x)) = Obj.sameKey k (.num (.big x)) := by
  unfold Obj.sameKey
  rw [feed_num, feed_num, hashFeed_repr x h, eq_num_left, eq_num_left, eq_num_right, eq_num_right]
  cases k with
  | num c => simp only [(numEq_repr x c).1, (numEq_repr x c).2]; simp
  | _ => exact ⟨rfl, rfl⟩

/-- eliminate `SameInt`: a relation that is reflexive and holds between the machine and the big
representation of every in-range integer holds between any two well-formed representations -/
theorem sameInt_elim {P : Num → Num → Prop} {a b : Num} (h : SameInt a b) (hr : ∀ n, P n n)
    (hm : ∀ x, fitsIsize x = true → P (.int x) (.big x) ∧ P (.big x) (.int x)) : P a b := by
  obtain ⟨x, ha, hb, wa, wb⟩ := h
  rcases isInt_cases' ha with rfl | rfl <;> rcases isInt_cases' hb with rfl | rfl
  · exact hr _
  · exact (hm x wa).1
  · exact (hm x wb).2
  · exact hr _

theorem rangeBound_repr (x : Int) (h : fitsIsize x = true) :
    rangeBound (.num (.int x)) = rangeBound (.num (.big x)) := by
  simp only [rangeBound, asPosUsize_repr x h]

theorem asIsize_repr (x : Int) (h : fitsIsize x = true) : Num.asIsize (.int x) = Num.asIsize (.big x) := by
  simp [Num.asIsize, h]

theorem get_congr (o : Obj.Entries) (k k' : Val) (h : ∀ q, Obj.sameKey k q = Obj.sameKey k' q) :
    Obj.get o k = Obj.get o k' := by
  unfold Obj.get
  congr 2
  funext p
  obtain ⟨q, v⟩ := p
  exact h q

theorem implode_congr (pre post : List Val) (u v : Val) (h : implode1 u = implode1 v) :
    implode (pre ++ u :: post) = implode (pre ++ v :: post) := by
  induction pre with
  | nil => simp only [List.nil_append, implode, h]
  | cons p ps ih => simp only [List.cons_append, implode, ih]

end Jaq.C09
