/-
  C03 helper lemmas, part 2: the simulation relations between iterator states and residual
  streams, and composition lemmas for pulls ("some fuel suffices").
-/
import JaqVerif.Lemmas.C03Mono

namespace Jaq.C03

/-! ### purity of index filters, lifted to continuations, adapters and residual streams -/

def K.pureIdx : K → Bool
  | .pipe r c => r.pureIdx && c.pure
  | .as_ r c _ => r.pureIdx && c.pure
  | .ite t e c _ => t.pureIdx && e.pureIdx && c.pure
  | .logic _ r c _ => r.pureIdx && c.pure
  | .idxL _ => true
  | .idxR i c _ => i.simple && c.pure
  | .math _ r c _ => r.pureIdx && c.pure
  | .proj p c => p.pureIdx && c.pure

def Wr.pureIdx : Wr → Bool
  | .try_ c ctx => c.pureIdx && ctx.pure
  | _ => true

def Th.pureIdx : Th → Bool
  | .run t c _ => t.pureIdx && c.pure
  | .app a b => a.pureIdx && b.pureIdx
  | .bind a k => a.pureIdx && k.pureIdx
  | .wrapC s a => s.pureIdx && a.pureIdx
  | .orElse a r c _ => a.pureIdx && r.pureIdx && c.pure
  | .one a => a.pureIdx
  | .fold _ upd c _ src _ ini stack => upd.pureIdx && c.pure && src.pureIdx && ini.pureIdx && stack.pureIdx
  | .fInp _ _ rest => rest.pureIdx
  | .fOut _ _ ys rest => ys.pureIdx && rest.pureIdx
  | _ => true

/-- all definitions have pure index filters -/
def DPure (D : List T) : Prop := ∀ (i : Nat) (body : T), D[i]? = some body → body.pureIdx = true

theorem simple_pure {t : T} (h : t.simple = true) : t.pureIdx = true := by
  cases t <;> simp_all [T.simple, T.pureIdx]

/-! ### purity of contexts -/

@[simp] theorem Ctx.pure_mk (env : List Bind) (l : Nat) : (Ctx.mk env l).pure = Bind.pureL env := rfl
@[simp] theorem Bind.pureL_nil : Bind.pureL [] = true := by simp [Bind.pureL]
@[simp] theorem Bind.pureL_cons (b : Bind) (bs : List Bind) : Bind.pureL (b :: bs) = (b.pure && Bind.pureL bs) := by
  simp [Bind.pureL]
@[simp] theorem Bind.pure_var (v : Val) : (Bind.var v).pure = true := by simp [Bind.pure]
@[simp] theorem Bind.pure_label (l : Nat) : (Bind.label l).pure = true := by simp [Bind.pure]
@[simp] theorem Bind.pure_fn (t : T) (env : List Bind) : (Bind.fn t env).pure = (t.pureIdx && Bind.pureL env) := by
  simp [Bind.pure]

@[simp] theorem Ctx.pure_consVar {c : Ctx} (v : Val) : (c.consVar v).pure = c.pure := by
  simp [Ctx.consVar, Ctx.pure]
@[simp] theorem Ctx.pure_consLabel {c : Ctx} : c.consLabel.pure = c.pure := by
  simp [Ctx.consLabel, Ctx.pure]
@[simp] theorem Ctx.pure_forDef {c : Ctx} : c.forDef.pure = true := by
  simp [Ctx.forDef, Ctx.pure]
@[simp] theorem Ctx.pure_empty : (Ctx.mk [] 0).pure = true := by simp

theorem Bind.pureL_get {env : List Bind} (h : Bind.pureL env = true) {i : Nat} {b : Bind} (hb : env[i]? = some b) :
    b.pure = true := by
  induction env generalizing i with
  | nil => simp at hb
  | cons x xs ih =>
    simp only [Bind.pureL_cons, Bool.and_eq_true] at h
    cases i with
    | zero => simp at hb; subst hb; exact h.1
    | succ i => simp at hb; exact ih h.2 hb

theorem Bind.pureL_drop {env : List Bind} (h : Bind.pureL env = true) (n : Nat) : Bind.pureL (env.drop n) = true := by
  induction env generalizing n with
  | nil => simp
  | cons x xs ih =>
    simp only [Bind.pureL_cons, Bool.and_eq_true] at h
    cases n with
    | zero => simp [h.1, h.2]
    | succ n => simpa using ih h.2 n

theorem lookupFn_pure {c : Ctx} (hc : c.pure = true) {i : Nat} {t : T} {env : List Bind}
    (h : lookupFn c i = some (t, env)) : t.pureIdx = true ∧ Bind.pureL env = true := by
  unfold lookupFn at h
  split at h
  · rename_i t' e' hb
    simp only [Option.some.injEq, Prod.mk.injEq] at h
    obtain ⟨rfl, rfl⟩ := h
    have := Bind.pureL_get hc hb
    simpa using this
  · simp at h

theorem mkClosure_pure {a : T} {env : List Bind} (ha : a.pureIdx = true) (he : Bind.pureL env = true) :
    (mkClosure a env).pure = true := by
  unfold mkClosure
  split
  · split
    · rename_i t e hb
      exact Bind.pureL_get he hb
    · simp [ha, he]
  · simp [ha, he]

theorem bindArgs_pure {c : Ctx} (hc : c.pure = true) (v : Val) : ∀ {args : List (Bool × T)} {env env' : List Bind},
    T.pureArgs args = true → Bind.pureL env = true → bindArgs c v args env = some env' → Bind.pureL env' = true := by
  intro args
  induction args with
  | nil => intro env env' _ he h; simp [bindArgs] at h; subst h; exact he
  | cons a rest ih =>
    intro env env' ha he h
    obtain ⟨k, a⟩ := a
    cases k with
    | true =>
      simp only [T.pureArgs, Bool.and_eq_true] at ha
      simp only [bindArgs] at h
      exact ih ha.2 (by simp [mkClosure_pure ha.1 hc, he]) h
    | false =>
      simp only [T.pureArgs, Bool.and_eq_true] at ha
      simp only [bindArgs] at h
      split at h
      · exact ih ha.2 (by simp [he]) h
      · simp at h

theorem callCtx_pure {c : Ctx} (hc : c.pure = true) {skip : Nat} {args : List (Bool × T)} {v : Val} {c' : Ctx}
    (ha : T.pureArgs args = true) (h : callCtx c skip args v = some c') : c'.pure = true := by
  unfold callCtx at h
  split at h
  · rename_i env henv
    simp only [Option.some.injEq] at h
    subst h
    exact bindArgs_pure hc v ha (Bind.pureL_drop hc skip) henv
  · simp at h

theorem K.th_pure {k : K} (hk : k.pureIdx = true) (y : Val) : (k.th y).pureIdx = true := by
  cases k <;> simp_all [K.th, K.app, K.pureIdx, Th.pureIdx, T.pureIdx]
  · split <;> simp_all
  · split <;> simp_all [T.pureIdx]
  · exact simple_pure hk.1
  · split <;> simp_all [T.pureIdx]

/-! ### pulls with "some fuel" -/

def NextR (D : List T) (it : It) (w : World) (res : Option Item × It × World) : Prop :=
  ∃ m, next D m it w = some res
def MkR (D : List T) (t : T) (c : Ctx) (v : Val) (w : World) (res : It × World) : Prop :=
  ∃ m, mk D m t c v w = some res

variable {D : List T}

theorem NextR.det {it w r1 r2} (h1 : NextR D it w r1) (h2 : NextR D it w r2) : r1 = r2 := by
  obtain ⟨_, h1⟩ := h1; obtain ⟨_, h2⟩ := h2; exact next_det h1 h2
theorem MkR.det {t c v w r1 r2} (h1 : MkR D t c v w r1) (h2 : MkR D t c v w r2) : r1 = r2 := by
  obtain ⟨_, h1⟩ := h1; obtain ⟨_, h2⟩ := h2; exact mk_det h1 h2

theorem nextR_nil (w : World) : NextR D .nil w (none, .nil, w) := ⟨1, rfl⟩
theorem nextR_once (x : Item) (w : World) : NextR D (.once x) w (some x, .nil, w) := ⟨1, rfl⟩
theorem nextR_cons (x : Item) (r : It) (w : World) : NextR D (.cons x r) w (some x, r, w) := ⟨1, rfl⟩

theorem nextR_chain_yield {a w y a' w1} (t : T) (c : Ctx) (v : Val)
    (h : NextR D a w (some y, a', w1)) : NextR D (.chain a t c v) w (some y, .chain a' t c v, w1) := by
  obtain ⟨m, h⟩ := h
  refine ⟨m + 1, ?_⟩
  rw [next_succ]; simp only [nextStep, h]

theorem nextR_chain_done {a w a' w1 t c v b w2 res}
    (h : NextR D a w (none, a', w1)) (hm : MkR D t c v w1 (b, w2)) (hn : NextR D b w2 res) :
    NextR D (.chain a t c v) w res := by
  obtain ⟨m1, h⟩ := h; obtain ⟨m2, hm⟩ := hm; obtain ⟨m3, hn⟩ := hn
  refine ⟨m1 + m2 + m3 + 1, ?_⟩
  rw [next_succ]
  simp only [nextStep, next_mono_le h (by omega : m1 ≤ m1 + m2 + m3),
    mk_mono_le hm (by omega : m2 ≤ m1 + m2 + m3), next_mono_le hn (by omega : m3 ≤ m1 + m2 + m3)]

theorem nextR_flat_yield {cur w y cur' w1} (src : It) (k : K)
    (h : NextR D cur w (some y, cur', w1)) : NextR D (.flat src k cur) w (some y, .flat src k cur', w1) := by
  obtain ⟨m, h⟩ := h
  refine ⟨m + 1, ?_⟩
  rw [next_succ]; simp only [nextStep, h]

theorem nextR_flat_srcdone {cur w c' w1 src s' w2} (k : K)
    (h : NextR D cur w (none, c', w1)) (hs : NextR D src w1 (none, s', w2)) :
    NextR D (.flat src k cur) w (none, .nil, w2) := by
  obtain ⟨m1, h⟩ := h; obtain ⟨m2, hs⟩ := hs
  refine ⟨m1 + m2 + 1, ?_⟩
  rw [next_succ]
  simp only [nextStep, next_mono_le h (by omega : m1 ≤ m1 + m2), next_mono_le hs (by omega : m2 ≤ m1 + m2)]

theorem nextR_flat_srcexn {cur w c' w1 src x s' w2} (k : K)
    (h : NextR D cur w (none, c', w1)) (hs : NextR D src w1 (some x, s', w2)) (hx : x.val? = none) :
    NextR D (.flat src k cur) w (some x, .flat s' k .nil, w2) := by
  obtain ⟨m1, h⟩ := h; obtain ⟨m2, hs⟩ := hs
  refine ⟨m1 + m2 + 1, ?_⟩
  rw [next_succ]
  simp only [nextStep, next_mono_le h (by omega : m1 ≤ m1 + m2), next_mono_le hs (by omega : m2 ≤ m1 + m2), hx]

theorem nextR_flat_srcok {cur w c' w1 src x y s' w2 k c w3 res}
    (h : NextR D cur w (none, c', w1)) (hs : NextR D src w1 (some x, s', w2)) (hx : x.val? = some y)
    (hm : MkR D (k.app y).1 (k.app y).2.1 (k.app y).2.2 w2 (c, w3)) (hn : NextR D (.flat s' k c) w3 res) :
    NextR D (.flat src k cur) w res := by
  obtain ⟨m1, h⟩ := h; obtain ⟨m2, hs⟩ := hs; obtain ⟨m3, hm⟩ := hm; obtain ⟨m4, hn⟩ := hn
  refine ⟨m1 + m2 + m3 + m4 + 1, ?_⟩
  rw [next_succ]
  simp only [nextStep, next_mono_le h (by omega : m1 ≤ m1 + m2 + m3 + m4),
    next_mono_le hs (by omega : m2 ≤ m1 + m2 + m3 + m4), hx,
    mk_mono_le hm (by omega : m3 ≤ m1 + m2 + m3 + m4), next_mono_le hn (by omega : m4 ≤ m1 + m2 + m3 + m4)]

theorem nextR_wrap_notready {s : Wr} (a : It) (w : World) (hs : s.ready = false) :
    NextR D (.wrap s a) w (none, .wrap s a, w) := by
  refine ⟨1, ?_⟩
  rw [next_succ]; simp [nextStep, hs]

theorem nextR_wrap_none {s : Wr} {a w a' w1} (hs : s.ready = true) (he : s.atEnd = none)
    (h : NextR D a w (none, a', w1)) :
    NextR D (.wrap s a) w (none, .wrap s a', w1) := by
  obtain ⟨m, h⟩ := h
  refine ⟨m + 1, ?_⟩
  rw [next_succ]; simp only [nextStep, hs, h, he, if_true]

theorem nextR_wrap_atEnd {s : Wr} {a w a' w1 x} (hs : s.ready = true) (he : s.atEnd = some x)
    (h : NextR D a w (none, a', w1)) :
    NextR D (.wrap s a) w (some x, .nil, w1) := by
  obtain ⟨m, h⟩ := h
  refine ⟨m + 1, ?_⟩
  rw [next_succ]; simp only [nextStep, hs, h, he, if_true]

theorem nextR_wrap_emit {s : Wr} {a w x a' w1 x' s'} (hs : s.ready = true)
    (h : NextR D a w (some x, a', w1)) (hx : s.step x = .emit x' s') :
    NextR D (.wrap s a) w (some x', .wrap s' a', w1) := by
  obtain ⟨m, h⟩ := h
  refine ⟨m + 1, ?_⟩
  rw [next_succ]; simp only [nextStep, hs, h, hx, if_true]

theorem nextR_wrap_stop {s : Wr} {a w x a' w1} (hs : s.ready = true)
    (h : NextR D a w (some x, a', w1)) (hx : s.step x = .stop) :
    NextR D (.wrap s a) w (none, .wrap s a', w1) := by
  obtain ⟨m, h⟩ := h
  refine ⟨m + 1, ?_⟩
  rw [next_succ]; simp only [nextStep, hs, h, hx, if_true]

theorem nextR_wrap_drop {s : Wr} {a w x a' w1 s' res} (hs : s.ready = true)
    (h : NextR D a w (some x, a', w1)) (hx : s.step x = .drop s') (hn : NextR D (.wrap s' a') w1 res) :
    NextR D (.wrap s a) w res := by
  obtain ⟨m1, h⟩ := h; obtain ⟨m2, hn⟩ := hn
  refine ⟨m1 + m2 + 1, ?_⟩
  rw [next_succ]
  simp only [nextStep, hs, next_mono_le h (by omega : m1 ≤ m1 + m2), hx,
    next_mono_le hn (by omega : m2 ≤ m1 + m2), if_true]

theorem nextR_wrap_handler {s : Wr} {a w x a' w1 c ctx e b w2 res} (hs : s.ready = true)
    (h : NextR D a w (some x, a', w1)) (hx : s.step x = .handler c ctx e)
    (hm : MkR D c ctx e w1 (b, w2)) (hn : NextR D b w2 res) :
    NextR D (.wrap s a) w res := by
  obtain ⟨m1, h⟩ := h; obtain ⟨m2, hm⟩ := hm; obtain ⟨m3, hn⟩ := hn
  refine ⟨m1 + m2 + m3 + 1, ?_⟩
  rw [next_succ]
  simp only [nextStep, hs, next_mono_le h (by omega : m1 ≤ m1 + m2 + m3), hx,
    mk_mono_le hm (by omega : m2 ≤ m1 + m2 + m3), next_mono_le hn (by omega : m3 ≤ m1 + m2 + m3), if_true]

/-! ### construction with "some fuel" -/

def MkFlatR (D : List T) (a : It) (k : K) (w : World) (res : It × World) : Prop :=
  ∃ m, mkFlatWith (mk D m) (next D m) a k w = some res

theorem mkFlatR_slow {a : It} (k : K) (w : World) (hu : ¬ a.upper = some 1) :
    MkFlatR D a k w (.flat a k .nil, w) := ⟨0, by simp [mkFlatWith, hu]⟩

theorem mkFlatR_none {a : It} {k : K} {w a' w2} (hu : a.upper = some 1)
    (h : NextR D a w (none, a', w2)) : MkFlatR D a k w (.nil, w2) := by
  obtain ⟨m, h⟩ := h
  exact ⟨m, by simp only [mkFlatWith, hu, h, if_true]⟩

theorem mkFlatR_exn {a : It} {k : K} {w x a' w2} (hu : a.upper = some 1)
    (h : NextR D a w (some x, a', w2)) (hx : x.val? = none) : MkFlatR D a k w (.once x, w2) := by
  obtain ⟨m, h⟩ := h
  exact ⟨m, by simp only [mkFlatWith, hu, h, hx, if_true]⟩

theorem mkFlatR_ok {a : It} {k : K} {w x y a' w2 res} (hu : a.upper = some 1)
    (h : NextR D a w (some x, a', w2)) (hx : x.val? = some y)
    (hm : MkR D (k.app y).1 (k.app y).2.1 (k.app y).2.2 w2 res) : MkFlatR D a k w res := by
  obtain ⟨m1, h⟩ := h; obtain ⟨m2, hm⟩ := hm
  refine ⟨m1 + m2, ?_⟩
  simp only [mkFlatWith, hu, next_mono_le h (by omega : m1 ≤ m1 + m2), hx,
    mk_mono_le hm (by omega : m2 ≤ m1 + m2), if_true]

theorem mkR_id (c : Ctx) (v : Val) (w : World) : MkR D .id c v w (.once (.ok v), w) := ⟨1, by rw [mk_succ]; rfl⟩
theorem mkR_lit (x : Val) (c : Ctx) (v : Val) (w : World) : MkR D (.lit x) c v w (.once (.ok x), w) := ⟨1, by rw [mk_succ]; rfl⟩
theorem mkR_ret (x : Item) (c : Ctx) (v : Val) (w : World) : MkR D (.ret x) c v w (.once x, w) := ⟨1, by rw [mk_succ]; rfl⟩

theorem mkR_comma {l c v w a w1} (r : T) (h : MkR D l c v w (a, w1)) :
    MkR D (.comma l r) c v w (.chain a r c v, w1) := by
  obtain ⟨m, h⟩ := h
  exact ⟨m + 1, by rw [mk_succ]; simp only [mkStep, h]⟩

theorem mkR_flat_of {l c v w a w1 k res} {t : T}
    (ht : ∀ m, mkStep D (mk D m) (next D m) t c v w =
      match mk D m l c v w with
      | none => none
      | some (a, w1) => mkFlatWith (mk D m) (next D m) a k w1)
    (h : MkR D l c v w (a, w1)) (hf : MkFlatR D a k w1 res) : MkR D t c v w res := by
  obtain ⟨m1, h⟩ := h; obtain ⟨m2, hf⟩ := hf
  refine ⟨m1 + m2 + 1, ?_⟩
  rw [mk_succ, ht, mk_mono_le h (by omega : m1 ≤ m1 + m2)]
  exact mkFlatWith_mono (fun _ _ _ _ _ h => mk_mono_le h (by omega)) (fun _ _ _ h => next_mono_le h (by omega)) hf


theorem mkR_pipe {l c v w a w1 res} (r : T) (h : MkR D l c v w (a, w1)) (hf : MkFlatR D a (.pipe r c) w1 res) :
    MkR D (.pipe l r) c v w res := mkR_flat_of (fun _ => rfl) h hf
theorem mkR_as {l c v w a w1 res} (r : T) (h : MkR D l c v w (a, w1)) (hf : MkFlatR D a (.as_ r c v) w1 res) :
    MkR D (.as_ l r) c v w res := mkR_flat_of (fun _ => rfl) h hf
theorem mkR_ite {l c v w a w1 res} (t e : T) (h : MkR D l c v w (a, w1)) (hf : MkFlatR D a (.ite t e c v) w1 res) :
    MkR D (.ite l t e) c v w res := mkR_flat_of (fun _ => rfl) h hf
theorem mkR_logic {l c v w a w1 res} (stop : Bool) (r : T) (h : MkR D l c v w (a, w1))
    (hf : MkFlatR D a (.logic stop r c v) w1 res) :
    MkR D (.logic stop l r) c v w res := mkR_flat_of (fun _ => rfl) h hf

theorem mkR_alt_some {l c v w a w1 x rest w2} (r : T) (h : MkR D l c v w (a, w1))
    (hn : NextR D (.wrap .filt a) w1 (some x, rest, w2)) : MkR D (.alt l r) c v w (.cons x rest, w2) := by
  obtain ⟨m1, h⟩ := h; obtain ⟨m2, hn⟩ := hn
  refine ⟨m1 + m2 + 1, ?_⟩
  rw [mk_succ]
  simp only [mkStep, mk_mono_le h (by omega : m1 ≤ m1 + m2), next_mono_le hn (by omega : m2 ≤ m1 + m2)]

theorem mkR_alt_none {l c v w a w1 rest w2 r res} (h : MkR D l c v w (a, w1))
    (hn : NextR D (.wrap .filt a) w1 (none, rest, w2)) (hr : MkR D r c v w2 res) : MkR D (.alt l r) c v w res := by
  obtain ⟨m1, h⟩ := h; obtain ⟨m2, hn⟩ := hn; obtain ⟨m3, hr⟩ := hr
  refine ⟨m1 + m2 + m3 + 1, ?_⟩
  rw [mk_succ]
  simp only [mkStep, mk_mono_le h (by omega : m1 ≤ m1 + m2 + m3), next_mono_le hn (by omega : m2 ≤ m1 + m2 + m3),
    mk_mono_le hr (by omega : m3 ≤ m1 + m2 + m3)]

theorem mkR_first_some {f c v w a w1 x a' w2} (h : MkR D f c v w (a, w1))
    (hn : NextR D a w1 (some x, a', w2)) : MkR D (.first f) c v w (.once x, w2) := by
  obtain ⟨m1, h⟩ := h; obtain ⟨m2, hn⟩ := hn
  refine ⟨m1 + m2 + 1, ?_⟩
  rw [mk_succ]
  simp only [mkStep, mk_mono_le h (by omega : m1 ≤ m1 + m2), next_mono_le hn (by omega : m2 ≤ m1 + m2)]

theorem mkR_first_none {f c v w a w1 a' w2} (h : MkR D f c v w (a, w1))
    (hn : NextR D a w1 (none, a', w2)) : MkR D (.first f) c v w (.nil, w2) := by
  obtain ⟨m1, h⟩ := h; obtain ⟨m2, hn⟩ := hn
  refine ⟨m1 + m2 + 1, ?_⟩
  rw [mk_succ]
  simp only [mkStep, mk_mono_le h (by omega : m1 ≤ m1 + m2), next_mono_le hn (by omega : m2 ≤ m1 + m2)]

theorem mkR_limit {f c v w a w1} (k : Nat) (h : MkR D f c v w (a, w1)) :
    MkR D (.limit (k + 1) f) c v w (.wrap (.limit (k + 1)) a, w1) := by
  obtain ⟨m, h⟩ := h
  exact ⟨m + 1, by rw [mk_succ]; simp only [mkStep, h]⟩
theorem mkR_skip0 {f c v w res} (h : MkR D f c v w res) : MkR D (.skip 0 f) c v w res := by
  obtain ⟨m, h⟩ := h
  exact ⟨m + 1, by rw [mk_succ]; simp only [mkStep, h]⟩
theorem mkR_skip {f c v w a w1} (k : Nat) (h : MkR D f c v w (a, w1)) :
    MkR D (.skip (k + 1) f) c v w (.wrap (.skip (k + 1)) a, w1) := by
  obtain ⟨m, h⟩ := h
  exact ⟨m + 1, by rw [mk_succ]; simp only [mkStep, h]⟩
theorem mkR_try {f c v w a w1} (g : T) (h : MkR D f c v w (a, w1)) :
    MkR D (.tryCatch f g) c v w (.wrap (.try_ g c) a, w1) := by
  obtain ⟨m, h⟩ := h
  exact ⟨m + 1, by rw [mk_succ]; simp only [mkStep, h]⟩
theorem mkR_label {f c v w a w1} (h : MkR D f c.consLabel v w (a, w1)) :
    MkR D (.label f) c v w (.wrap (.label (c.labels + 1)) a, w1) := by
  obtain ⟨m, h⟩ := h
  exact ⟨m + 1, by rw [mk_succ]; simp only [mkStep, h]⟩
theorem mkR_toBool {f c v w a w1} (h : MkR D f c v w (a, w1)) :
    MkR D (.toBool f) c v w (.wrap .toBool a, w1) := by
  obtain ⟨m, h⟩ := h
  exact ⟨m + 1, by rw [mk_succ]; simp only [mkStep, h]⟩
theorem mkR_call {i body c v w a w1} (hb : D[i]? = some body) (h : MkR D body c.forDef v w (a, w1)) :
    MkR D (.call i) c v w (.wrap .stack a, w1) := by
  obtain ⟨m, h⟩ := h
  exact ⟨m + 1, by rw [mk_succ]; simp only [mkStep, hb, h]⟩

theorem mk_simple {i : T} (hi : i.simple = true) (n : Nat) (c : Ctx) (v : Val) (w : World) :
    mk D (n + 1) i c v w = some ((match simpleVal i c v with | some x => It.once x | none => It.nil), w) := by
  rw [mk_succ]
  cases i <;> simp [T.simple] at hi
  · rfl
  · rfl
  · rename_i k
    simp only [mkStep, simpleVal]
    cases lookup c k <;> rfl

theorem collect_simple (n : Nat) (i : T) (c : Ctx) (v : Val) (w : World) (o : Option Item) :
    collectIfOnce (next D (n + 1)) (match o with | some x => It.once x | none => It.nil) i c v w =
      some ((match o with | some x => K.idxL x | none => K.idxR i c v), w) := by
  cases o with
  | none => simp [collectIfOnce, It.upper]
  | some x =>
    have : next D (n + 1) (.once x) w = some (some x, .nil, w) := by rw [next_succ]; rfl
    simp only [collectIfOnce, It.upper, this, if_true]

/-- `f[i]` with a simple index filter: `collect_if_once` succeeds without touching the world -/
theorem mkR_index_simple {f i c v w a w1 res} (hi : i.simple = true) (h : MkR D f c v w (a, w1))
    (hf : MkFlatR D a (match simpleVal i c v with | some x => .idxL x | none => .idxR i c v) w1 res) :
    MkR D (.index f i) c v w res := by
  obtain ⟨m1, h⟩ := h; obtain ⟨m2, hf⟩ := hf
  refine ⟨m1 + m2 + 2, ?_⟩
  have hf' := mkFlatWith_mono (m' := mk D (m1 + m2 + 1)) (n' := next D (m1 + m2 + 1))
    (fun _ _ _ _ _ h => mk_mono_le h (by omega)) (fun _ _ _ h => next_mono_le h (by omega)) hf
  have h' := mk_mono_le h (by omega : m1 ≤ m1 + m2 + 1)
  rw [mk_succ]
  simp only [mkStep]
  rw [mk_simple hi]; dsimp only
  rw [collect_simple]; dsimp only
  rw [h']; exact hf'

end Jaq.C03
