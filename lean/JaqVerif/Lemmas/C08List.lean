/-
  C08 helper lemmas, part 6 (round 2): pointwise relations of lists, strictly sorted lists,
  "two strictly sorted lists with the same classes are pointwise equivalent" (pigeonhole).
-/
import JaqVerif.Lemmas.C08Order

namespace Jaq.C08
open Jaq

/-- pointwise relation of two lists (same length) -/
def All2 {α β : Type} (R : α → β → Prop) : List α → List β → Prop
  | [], [] => True
  | a :: as, b :: bs => R a b ∧ All2 R as bs
  | _, _ => False

section all2
variable {α β : Type} {R : α → β → Prop}

@[simp] theorem All2_nil_nil : All2 R [] [] = True := rfl
@[simp] theorem All2_nil_cons (b : β) (bs : List β) : All2 R [] (b :: bs) = False := rfl
@[simp] theorem All2_cons_nil (a : α) (as : List α) : All2 R (a :: as) [] = False := rfl
@[simp] theorem All2_cons_cons (a : α) (as : List α) (b : β) (bs : List β) :
    All2 R (a :: as) (b :: bs) = (R a b ∧ All2 R as bs) := rfl

theorem All2.length_eq : ∀ {x : List α} {y : List β}, All2 R x y → x.length = y.length
  | [], [], _ => rfl
  | [], _ :: _, h => h.elim
  | _ :: _, [], h => h.elim
  | _ :: as, _ :: bs, h => by simp [All2.length_eq (x := as) (y := bs) h.2]

theorem All2.imp_of_mem {R' : α → β → Prop} :
    ∀ {x : List α} {y : List β}, (∀ a ∈ x, ∀ b ∈ y, R a b → R' a b) → All2 R x y → All2 R' x y
  | [], [], _, _ => trivial
  | [], _ :: _, _, h => h.elim
  | _ :: _, [], _, h => h.elim
  | a :: as, b :: bs, f, h =>
    ⟨f a (by simp) b (by simp) h.1,
     All2.imp_of_mem (fun p hp q hq => f p (by simp [hp]) q (by simp [hq])) h.2⟩

theorem All2.imp {R' : α → β → Prop} (f : ∀ a b, R a b → R' a b) {x : List α} {y : List β}
    (h : All2 R x y) : All2 R' x y := All2.imp_of_mem (fun a _ b _ => f a b) h

theorem All2.and {R' : α → β → Prop} :
    ∀ {x : List α} {y : List β}, All2 R x y → All2 R' x y → All2 (fun a b => R a b ∧ R' a b) x y
  | [], [], _, _ => trivial
  | [], _ :: _, h, _ => h.elim
  | _ :: _, [], h, _ => h.elim
  | _ :: _, _ :: _, h, h' => ⟨⟨h.1, h'.1⟩, All2.and h.2 h'.2⟩

theorem All2.flip : ∀ {x : List α} {y : List β}, All2 R x y → All2 (fun b a => R a b) y x
  | [], [], _ => trivial
  | [], _ :: _, h => h.elim
  | _ :: _, [], h => h.elim
  | _ :: _, _ :: _, h => ⟨h.1, All2.flip h.2⟩

theorem All2.exists_right : ∀ {x : List α} {y : List β}, All2 R x y → ∀ a ∈ x, ∃ b ∈ y, R a b
  | [], [], _, _, ha => by cases ha
  | [], _ :: _, h, _, _ => h.elim
  | _ :: _, [], h, _, _ => h.elim
  | a :: as, b :: bs, h, a', ha => by
    rcases List.mem_cons.1 ha with rfl | ha
    · exact ⟨b, by simp, h.1⟩
    · obtain ⟨b', hb', hr⟩ := All2.exists_right h.2 a' ha
      exact ⟨b', by simp [hb'], hr⟩

theorem All2.exists_left {x : List α} {y : List β} (h : All2 R x y) : ∀ b ∈ y, ∃ a ∈ x, R a b :=
  All2.exists_right (R := fun b a => R a b) h.flip

theorem All2.refl_of_mem {R : α → α → Prop} : ∀ {x : List α}, (∀ a ∈ x, R a a) → All2 R x x
  | [], _ => trivial
  | a :: as, f => ⟨f a (by simp), All2.refl_of_mem (fun p hp => f p (by simp [hp]))⟩

theorem All2.eq_of_eq : ∀ {x y : List α}, All2 (fun a b => a = b) x y → x = y
  | [], [], _ => rfl
  | [], _ :: _, h => h.elim
  | _ :: _, [], h => h.elim
  | _ :: _, _ :: _, h => by rw [h.1, All2.eq_of_eq h.2]

theorem All2_map {γ δ : Type} {R : γ → δ → Prop} (f : α → γ) (g : β → δ) :
    ∀ {x : List α} {y : List β}, All2 R (x.map f) (y.map g) ↔ All2 (fun a b => R (f a) (g b)) x y
  | [], [] => Iff.rfl
  | [], _ :: _ => Iff.rfl
  | _ :: _, [] => Iff.rfl
  | _ :: as, _ :: bs => by
    simp only [List.map_cons, All2_cons_cons, All2_map f g (x := as) (y := bs)]

theorem All2.flatMap_eq {γ : Type} {f : α → List γ} {g : β → List γ} :
    ∀ {x : List α} {y : List β}, All2 (fun a b => f a = g b) x y → x.flatMap f = y.flatMap g
  | [], [], _ => rfl
  | [], _ :: _, h => h.elim
  | _ :: _, [], h => h.elim
  | _ :: _, _ :: _, h => by simp only [List.flatMap_cons, h.1, All2.flatMap_eq h.2]

theorem All2.trans {γ : Type} {R1 : α → β → Prop} {R2 : β → γ → Prop} {R3 : α → γ → Prop} :
    ∀ {x : List α} {y : List β} {z : List γ},
      (∀ a ∈ x, ∀ b ∈ y, ∀ c ∈ z, R1 a b → R2 b c → R3 a c) → All2 R1 x y → All2 R2 y z → All2 R3 x z
  | [], [], [], _, _, _ => trivial
  | [], [], _ :: _, _, _, h => h.elim
  | [], _ :: _, _, _, h, _ => h.elim
  | _ :: _, [], _, _, h, _ => h.elim
  | _ :: _, _ :: _, [], _, _, h => h.elim
  | a :: as, b :: bs, c :: cs, f, h1, h2 =>
    ⟨f a (by simp) b (by simp) c (by simp) h1.1 h2.1,
     All2.trans (fun p hp q hq r hr => f p (by simp [hp]) q (by simp [hq]) r (by simp [hr])) h1.2 h2.2⟩

end all2

/-! ### lexicographic comparison says `Equal` iff the lists are pointwise equivalent -/

theorem lexCmp_eq_iff {α : Type} {c : α → α → Ordering} :
    ∀ {x y : List α}, lexCmp c x y = .eq ↔ All2 (fun a b => c a b = .eq) x y
  | [], [] => by simp
  | [], _ :: _ => by simp
  | _ :: _, [] => by simp
  | a :: as, b :: bs => by
    rw [lexCmp_cons_cons, All2_cons_cons, ← lexCmp_eq_iff (x := as) (y := bs)]
    cases c a b <;> simp [Ordering.then]

theorem then_eq_iff {o1 o2 : Ordering} : o1.then o2 = .eq ↔ o1 = .eq ∧ o2 = .eq := by
  cases o1 <;> simp [Ordering.then]

theorem eqList_iff {e : Val → Val → Bool} :
    ∀ {x y : List Val}, eqList e x y = true ↔ All2 (fun a b => e a b = true) x y
  | [], [] => by simp [eqList]
  | [], _ :: _ => by simp [eqList]
  | _ :: _, [] => by simp [eqList]
  | a :: as, b :: bs => by
    simp only [eqList, Bool.and_eq_true, All2_cons_cons, eqList_iff (x := as) (y := bs)]

/-! ### strictly sorted lists -/

section strict
variable {α : Type} {S : α → Prop} {c : α → α → Ordering}

/-- strictly increasing -/
def SSorted (c : α → α → Ordering) (l : List α) : Prop := l.Pairwise fun a b => c a b = .lt

/-- no two elements (at different positions) are equivalent -/
def Distinct (c : α → α → Ordering) (l : List α) : Prop :=
  l.Pairwise fun a b => c a b ≠ .eq ∧ c b a ≠ .eq

theorem Distinct.perm {l l' : List α} (h : Distinct c l) (p : l.Perm l') : Distinct c l' :=
  p.pairwise h (fun ⟨h1, h2⟩ => ⟨h2, h1⟩)

/-- the stable sort of a list without equivalent elements is strictly increasing -/
theorem sortBy_ssorted (h : TPO S c) (l : List α) (hs : ∀ y ∈ l, S y) (hd : Distinct c l) :
    SSorted c (sortBy c l) := by
  have h1 := sortBy_sorted h l hs
  have h2 : Distinct c (sortBy c l) := hd.perm (sortBy_perm l).symm
  refine (List.Pairwise.and h1 h2).imp ?_
  intro a b ⟨g1, g2, _⟩
  cases hc : c a b with
  | lt => rfl
  | eq => exact absurd hc g2
  | gt => exact absurd hc g1

/-- **pigeonhole**: if every element of a list without equivalent elements has an equivalent in
`m`, the list is not longer than `m` -/
theorem length_le_of_embed (h : TPO S c) :
    ∀ (l m : List α), (∀ a ∈ l, S a) → (∀ b ∈ m, S b) → Distinct c l →
      (∀ a ∈ l, ∃ b ∈ m, c a b = .eq) → l.length ≤ m.length
  | [], _, _, _, _, _ => by simp
  | a :: l, m, hl, hm, hd, he => by
    obtain ⟨b, hb, hab⟩ := he a (by simp)
    obtain ⟨s, t, rfl⟩ := List.append_of_mem hb
    have sa := hl a (by simp)
    have sb := hm b hb
    simp only [Distinct, List.pairwise_cons] at hd
    have ih := length_le_of_embed h l (s ++ t) (fun x hx => hl x (by simp [hx]))
      (fun x hx => hm x (by
        rcases List.mem_append.1 hx with hx | hx
        · exact List.mem_append_left _ hx
        · exact List.mem_append_right _ (List.mem_cons_of_mem _ hx))) hd.2
      (by
        intro x hx
        obtain ⟨y, hy, hxy⟩ := he x (by simp [hx])
        have sx := hl x (by simp [hx])
        rcases List.mem_append.1 hy with hy | hy
        · exact ⟨y, List.mem_append_left _ hy, hxy⟩
        · rcases List.mem_cons.1 hy with rfl | hy
          · -- then `x ≡ y ≡ a`, impossible
            have : c a x = .eq := h.eq_trans sa sb sx hab ((h.eq_iff sx sb).1 hxy)
            exact absurd this (hd.1 x hx).1
          · exact ⟨y, List.mem_append_right _ hy, hxy⟩)
    simp only [List.length_append, List.length_cons] at ih ⊢
    omega

theorem SSorted.distinct (h : TPO S c) {l : List α} (hs : ∀ a ∈ l, S a) (hl : SSorted c l) : Distinct c l := by
  refine List.Pairwise.imp_of_mem ?_ hl
  intro a b ha hb hab
  refine ⟨by rw [hab]; simp, ?_⟩
  rw [h.swap a b (hs a ha) (hs b hb), hab]; simp [Ordering.swap]

/-- **two strictly sorted lists with the same classes are pointwise equivalent**: if every
element of `l` has an equivalent in `m` that is related to it by `Q`, and `m` is not longer than
`l`, then `l` and `m` are pointwise equivalent and `Q`-related -/
theorem ssorted_pointwise (h : TPO S c) {Q : α → α → Prop} :
    ∀ (l m : List α), (∀ a ∈ l, S a) → (∀ b ∈ m, S b) → SSorted c l → SSorted c m →
      (∀ a ∈ l, ∃ b ∈ m, c a b = .eq ∧ Q a b) → m.length ≤ l.length →
      All2 (fun a b => c a b = .eq ∧ Q a b) l m
  | [], m, _, _, _, _, _, hlen => by
    cases m with
    | nil => trivial
    | cons => simp at hlen
  | a :: l, m, hl, hm, sl, sm, he, hlen => by
    obtain ⟨b', hb', hab', hq⟩ := he a (by simp)
    cases m with
    | nil => cases hb'
    | cons b m =>
      have sa := hl a (by simp)
      have sb := hm b (by simp)
      have sb' := hm b' hb'
      have hl' : ∀ x ∈ l, S x := fun x hx => hl x (by simp [hx])
      have hm' : ∀ x ∈ m, S x := fun x hx => hm x (by simp [hx])
      simp only [SSorted, List.pairwise_cons] at sl sm
      -- every later element of `l` is above `a`, so its equivalent is not `≤ a`
      have tail_embed : c b a ≠ .gt → ∀ x ∈ l, ∃ y ∈ m, c x y = .eq ∧ Q x y := by
        intro hba x hx
        obtain ⟨y, hy, hxy, hqxy⟩ := he x (by simp [hx])
        have sx := hl' x hx
        rcases List.mem_cons.1 hy with rfl | hy
        · -- `a < x ≡ y = b ≤ a`
          have h1 : c a x = .lt := sl.1 x hx
          have h2 : c a y = .lt := by rw [← h.congr_right sx (hm y (by simp)) sa hxy]; exact h1
          have h3 : c y a = .gt := (h.lt_iff sa (hm y (by simp))).1 h2
          exact absurd h3 hba
        · exact ⟨y, hy, hxy, hqxy⟩
      -- `b ≤ a`
      have hba : c b a ≠ .gt := by
        rcases List.mem_cons.1 hb' with rfl | hb'
        · rw [(h.eq_iff sa sb).1 hab']; simp
        · have h1 : c b b' = .lt := sm.1 b' hb'
          have h2 : c b a = .lt := by rw [h.congr_right sa sb' sb hab']; exact h1
          rw [h2]; simp
      -- `b ≡ a`: otherwise `b < a` and all of `a :: l` embeds into `m`, which is too short
      have hab : c a b = .eq := by
        cases hc : c a b with
        | eq => rfl
        | lt =>
          have : c b a = .gt := (h.lt_iff sa sb).1 hc
          exact absurd this hba
        | gt =>
          exfalso
          have hlt : c b a = .lt := (h.gt_iff sa sb).1 hc
          have emb : ∀ x ∈ a :: l, ∃ y ∈ m, c x y = .eq := by
            intro x hx
            rcases List.mem_cons.1 hx with rfl | hx
            · rcases List.mem_cons.1 hb' with rfl | hb'
              · rw [hab'] at hc; cases hc
              · exact ⟨b', hb', hab'⟩
            · obtain ⟨y, hy, hxy, _⟩ := tail_embed hba x hx
              exact ⟨y, hy, hxy⟩
          have := length_le_of_embed h (a :: l) m hl hm'
            (SSorted.distinct h hl (by simp only [SSorted, List.pairwise_cons]; exact sl)) emb
          simp only [List.length_cons] at this hlen
          omega
      -- hence `b' = b`
      have hbb : b' = b := by
        rcases List.mem_cons.1 hb' with rfl | hb'
        · rfl
        · exfalso
          have h1 : c b b' = .lt := sm.1 b' hb'
          have h2 : c b b' = .eq := h.eq_trans sb sa sb' ((h.eq_iff sa sb).1 hab) hab'
          rw [h1] at h2; cases h2
      subst hbb
      refine ⟨⟨hab, hq⟩, ssorted_pointwise h l m hl' hm' sl.2 sm.2 (tail_embed hba) ?_⟩
      simp only [List.length_cons] at hlen
      omega

end strict

end Jaq.C08
