import JaqVerif.Lemmas.C18Fs
set_option linter.unusedSimpArgs false
namespace Jaq.C18

theorem AFS.get_erase (a : AFS) (p q : Path) : (a.erase p).get q = if q = p then none else a.get q := by
  induction a with
  | nil => simp [AFS.erase, AFS.get]
  | cons x rest ih =>
    obtain ⟨r, v⟩ := x
    by_cases h : r = p
    · subst h
      simp only [AFS.erase, if_true, ih, AFS.get]
      by_cases hq : q = r <;> simp [hq]
    · simp only [AFS.erase, h, if_false, AFS.get, ih]
      by_cases hq : q = r
      · subst hq; simp [h]
      · simp [hq]

theorem AFS.get_set (a : AFS) (p : Path) (v : Option (Bytes × Mode)) : (a.set p v).get = (a.get).set p v := by
  funext q
  cases v with
  | none => simp [AFS.set, AFS.get_erase, FS.set]
  | some x =>
    simp only [AFS.set, AFS.get, AFS.get_erase, FS.set]
    by_cases hq : q = p <;> simp [hq]

theorem stepA_get (a : AFS) (op : Op) : (stepA a op).get = step a.get op := by
  cases op with
  | load p => rfl
  | stat p m => rfl
  | unlink t => simp [stepA, step, AFS.get_set]
  | mkTemp t => rcases h : a.get t with _ | ⟨c, m⟩ <;> simp [stepA, step, h, AFS.get_set]
  | write t b => rcases h : a.get t with _ | ⟨c, m⟩ <;> simp [stepA, step, h, AFS.get_set]
  | rename t p => rcases h : a.get t with _ | ⟨c, m⟩ <;> simp [stepA, step, h, AFS.get_set]
  | chmod p m => rcases h : a.get p with _ | ⟨c, m'⟩ <;> simp [stepA, step, h, AFS.get_set]

/-- the driver's executable file system computes exactly the model's `exec` -/
theorem execA_get (ops : List Op) (a : AFS) : (execA a ops).get = exec a.get ops := by
  induction ops generalizing a with
  | nil => rfl
  | cons op ops ih =>
    simp only [execA, exec, List.foldl_cons] at *
    rw [ih, stepA_get]

end Jaq.C18
