/- Round 2: frame lemmas — what an update of one evaluated path leaves alone. -/
import JaqVerif.Lemmas.C02Containers

namespace Jaq.C02

/-- no deletion: the first item of `g x` is a value or an error -/
def NoDel (g : Val → Out Val) : Prop := ∀ x, (g x).next? ≠ .ok none

theorem next?_of_vals {o : Out Val} {y : Val} (h : o.vals = [y]) : o.next? = .ok (some y) := by
  unfold Out.next?; rw [h]

theorem single_noDel {u : Val → Out Val} (h : Single u) : NoDel u := by
  intro x hx
  rcases h x with ⟨y, hy⟩ | ⟨hv, hs⟩
  · rw [next?_of_vals hy] at hx; cases hx
  · unfold Out.next? at hx
    rw [hv] at hx
    simp only at hx
    cases hst : (u x).stop with
    | none => exact hs hst
    | some e => rw [hst] at hx; cases hx

theorem ofExcept_single (F : Val → Except Exn Val) : Single (fun x => Out.ofExcept (F x)) := by
  intro x
  show (∃ y, (Out.ofExcept (F x)).vals = [y]) ∨ ((Out.ofExcept (F x)).vals = [] ∧ (Out.ofExcept (F x)).stop ≠ none)
  cases F x with
  | ok y => exact Or.inl ⟨y, rfl⟩
  | error e => exact Or.inr ⟨rfl, by simp [Out.ofExcept, Out.fail]⟩

theorem next?_ofExcept {r : Except Exn Val} {y : Val} (h : (Out.ofExcept r).next? = .ok (some y)) :
    r = .ok y := by
  cases r with
  | ok z => simp [Out.ofExcept, Out.one, Out.next?] at h; rw [h]
  | error e => simp [Out.ofExcept, Out.fail, Out.next?] at h

/-! ### objects -/

theorem get_cons (k x : Val) (rest : List (Val × Val)) (j : Val) :
    Obj.get ((k, x) :: rest) j = if Obj.sameKey j k then some x else Obj.get rest j := by
  unfold Obj.get
  simp only [List.find?]
  cases Obj.sameKey j k <;> rfl

theorem get_nil (j : Val) : Obj.get [] j = none := rfl

theorem get_append_single (o : List (Val × Val)) (i y j : Val) :
    Obj.get (o ++ [(i, y)]) j =
      match Obj.get o j with
      | some x => some x
      | none => if Obj.sameKey j i then some y else none := by
  induction o with
  | nil => simp only [List.nil_append, get_cons, get_nil]
  | cons p rest ih =>
    obtain ⟨k, x⟩ := p
    simp only [List.cons_append, get_cons]
    cases Obj.sameKey j k
    · simpa using ih
    · rfl

theorem get_map_sep (o : List (Val × Val)) (i y j : Val)
    (h : ∀ e ∈ o, Obj.sameKey i e.1 = true → Obj.sameKey j e.1 = false) :
    Obj.get (o.map fun kx => if Obj.sameKey i kx.1 then (kx.1, y) else kx) j = Obj.get o j := by
  induction o with
  | nil => rfl
  | cons p rest ih =>
    obtain ⟨k, x⟩ := p
    have ih' := ih fun e he => h e (List.mem_cons_of_mem _ he)
    simp only [List.map_cons]
    cases hi : Obj.sameKey i k
    · simp only [Bool.false_eq_true, if_false, get_cons, ih']
    · simp only [if_true, get_cons, ih']
      have : Obj.sameKey j k = false := h (k, x) List.mem_cons_self hi
      simp [this]

theorem get_map_same (o : List (Val × Val)) (i y x : Val) (h : Obj.get o i = some x) :
    Obj.get (o.map fun kx => if Obj.sameKey i kx.1 then (kx.1, y) else kx) i = some y := by
  induction o with
  | nil => cases h
  | cons p rest ih =>
    obtain ⟨k, x0⟩ := p
    simp only [List.map_cons]
    rw [get_cons] at h
    cases hi : Obj.sameKey i k
    · simp only [hi, Bool.false_eq_true, if_false] at h
      simp only [Bool.false_eq_true, if_false, get_cons, hi]
      exact ih h
    · simp only [if_true, get_cons, hi]

theorem indexV_obj (o : List (Val × Val)) (j : Val) :
    indexV (.obj o) j = .ok ((Obj.get o j).getD .null) := by cases j <;> rfl

theorem mapIndex_obj_eq (o : List (Val × Val)) (i : Val) (opt : Bool) (u : Val → Out Val) :
    mapIndex (.obj o) i opt u =
      match Obj.get o i with
      | some x =>
        match (u x).next? with
        | .error e => .error e
        | .ok (some y) => .ok (.obj (Obj.insert o i y))
        | .ok none => .ok (.obj (Obj.swapRemove o i))
      | none =>
        match (u .null).next? with
        | .error e => .error e
        | .ok (some y) => .ok (.obj (o ++ [(i, y)]))
        | .ok none => .ok (.obj o) := by
  cases i <;> rfl

/-- what `.[i] |= g` does to an object, seen through `.[j]` -/
theorem mapIndex_obj_frame (o : List (Val × Val)) (i : Val) (opt : Bool) (g : Val → Out Val) (v' : Val)
    (hnd : NoDel g) (h : mapIndex (.obj o) i opt g = .ok v') (j : Val) :
    (Sep (.obj o) i j → indexV v' j = indexV (.obj o) j) ∧
    (i = j → ∃ x y, indexV (.obj o) j = .ok x ∧ indexV v' j = .ok y ∧
        (y = x ∨ (g x).next? = .ok (some y))) := by
  rw [mapIndex_obj_eq] at h
  cases hg : Obj.get o i with
  | some x =>
    rw [hg] at h
    simp only at h
    cases hr : (g x).next? with
    | error e => rw [hr] at h; cases h
    | ok r =>
      cases r with
      | none => exact absurd hr (hnd x)
      | some y =>
        rw [hr] at h
        simp only [Except.ok.injEq] at h
        subst h
        rw [insert_of_get hg]
        constructor
        · intro hs
          rw [indexV_obj, indexV_obj, get_map_sep o i y j hs.2]
        · intro hij
          subst hij
          refine ⟨x, y, ?_, ?_, Or.inr hr⟩
          · rw [indexV_obj, hg]; rfl
          · rw [indexV_obj, get_map_same o i y x hg]; rfl
  | none =>
    rw [hg] at h
    simp only at h
    cases hr : (g .null).next? with
    | error e => rw [hr] at h; cases h
    | ok r =>
      cases r with
      | none => exact absurd hr (hnd _)
      | some y =>
        rw [hr] at h
        simp only [Except.ok.injEq] at h
        subst h
        constructor
        · intro hs
          rw [indexV_obj, indexV_obj, get_append_single, hs.1]
          cases Obj.get o j <;> rfl
        · intro hij
          subst hij
          rw [indexV_obj, indexV_obj, get_append_single, hg]
          cases Obj.sameKey i i
          · exact ⟨.null, .null, rfl, rfl, Or.inl rfl⟩
          · exact ⟨.null, y, rfl, rfl, Or.inr hr⟩

/-! ### arrays -/

theorem slotArr_num {a : List Val} {i : Val} {x : Nat} (h : slotArr a i = some x) :
    ∃ n p, i = .num n ∧ n.asPosUsize = some p ∧ absIndex p a.length = some x ∧ isIntNum n = true := by
  cases i <;> simp only [slotArr, reduceCtorEq] at h
  rename_i n
  cases hp : n.asPosUsize with
  | none => rw [hp] at h; cases h
  | some p =>
    rw [hp] at h
    refine ⟨n, p, rfl, hp, h, ?_⟩
    cases n <;> first | rfl | (simp [Num.asPosUsize] at hp)

theorem absIndex_lt {p : PosUsize} {len x : Nat} (h : absIndex p len = some x) : x < len := by
  unfold absIndex at h
  split at h
  · split at h
    · cases h; assumption
    · cases h
  · cases h

theorem mapIndex_arr_slot (a : List Val) (i : Val) (x : Nat) (opt : Bool) (g : Val → Out Val)
    (h : slotArr a i = some x) :
    mapIndex (.arr a) i opt g =
      match (g (a[x]?.getD .null)).next? with
      | .error e => .error e
      | .ok (some y) => .ok (.arr (a.set x y))
      | .ok none => .ok (.arr (a.eraseIdx x)) := by
  obtain ⟨n, p, rfl, hp, hx, _⟩ := slotArr_num h
  simp only [mapIndex, isSeq, asPosUsizeV, hp, hx]
  rfl

theorem indexV_arr_int (a : List Val) (n : Num) (hn : isIntNum n = true) :
    indexV (.arr a) (.num n) =
      .ok (match slotArr a (.num n) with
           | some k => a[k]?.getD .null
           | none => .null) := by
  simp only [indexV, hn, if_true, slotArr]
  cases (n.asPosUsize).bind (absIndex · a.length) <;> rfl

/-- what `.[i] |= g` does to an array, seen through `.[j]` -/
theorem mapIndex_arr_frame (a : List Val) (i : Val) (opt : Bool) (g : Val → Out Val) (v' : Val)
    (hnd : NoDel g) (h : mapIndex (.arr a) i opt g = .ok v') (j : Val) :
    (Sep (.arr a) i j → indexV v' j = indexV (.arr a) j) ∧
    (SameSlot (.arr a) i j → ∃ x y, indexV (.arr a) j = .ok x ∧ indexV v' j = .ok y ∧
        (y = x ∨ (g x).next? = .ok (some y))) := by
  constructor
  · rintro ⟨x, n, hi, rfl, hn, hj⟩
    rw [mapIndex_arr_slot a i x opt g hi] at h
    cases hr : (g (a[x]?.getD .null)).next? with
    | error e => rw [hr] at h; cases h
    | ok r =>
      cases r with
      | none => exact absurd hr (hnd _)
      | some y =>
        rw [hr] at h
        simp only [Except.ok.injEq] at h
        subst h
        rw [indexV_arr_int _ n hn, indexV_arr_int _ n hn]
        have hs : slotArr (a.set x y) (.num n) = slotArr a (.num n) := by simp [slotArr]
        rw [hs]
        cases hk : slotArr a (.num n) with
        | none => rfl
        | some k =>
          have hne : x ≠ k := by intro hxk; apply hj; rw [hk, hxk]
          simp [List.getElem?_set_ne hne]
  · rintro ⟨x, hi, hj⟩
    obtain ⟨n, p, rfl, hp, hx, hn⟩ := slotArr_num hj
    have hlt : x < a.length := absIndex_lt hx
    rw [mapIndex_arr_slot a i x opt g hi] at h
    cases hr : (g (a[x]?.getD .null)).next? with
    | error e => rw [hr] at h; cases h
    | ok r =>
      cases r with
      | none => exact absurd hr (hnd _)
      | some y =>
        rw [hr] at h
        simp only [Except.ok.injEq] at h
        subst h
        refine ⟨a[x]?.getD .null, y, ?_, ?_, Or.inr hr⟩
        · rw [indexV_arr_int _ n hn, hj]
        · have hs : slotArr (a.set x y) (.num n) = slotArr a (.num n) := by simp [slotArr]
          rw [indexV_arr_int _ n hn, hs, hj]
          simp [hlt]

/-! ### `.[] |= g` -/

theorem collect_bindL_single (g : Val → Out Val) (hs : Single g) (a a' : List Val)
    (h : (Out.bindL g a).collect = .ok a') :
    a'.length = a.length ∧ ∀ (k : Nat) (x : Val), a[k]? = some x → ∃ y, a'[k]? = some y ∧ (g x).vals = [y] := by
  induction a generalizing a' with
  | nil =>
    simp [Out.bindL, Out.collect, Out.nil] at h
    subst h
    exact ⟨rfl, by intro k x hk; simp at hk⟩
  | cons x0 xs ih =>
    simp only [Out.bindL] at h
    cases hst : (g x0).stop with
    | some e =>
      rw [Out.append_some hst] at h
      simp [Out.collect, hst] at h
    | none =>
      rw [Out.append_none hst] at h
      rcases hs x0 with ⟨y0, hy0⟩ | ⟨_, hne⟩
      · cases hrs : (Out.bindL g xs).stop with
        | some e => simp [Out.collect, hrs] at h
        | none =>
          have hc : (Out.bindL g xs).collect = .ok (Out.bindL g xs).vals := by simp [Out.collect, hrs]
          obtain ⟨hl, hk⟩ := ih _ hc
          simp [Out.collect, hrs, hy0] at h
          subst h
          refine ⟨by simp [hl], ?_⟩
          intro k x hkx
          cases k with
          | zero => simp at hkx; subst hkx; exact ⟨y0, by simp, hy0⟩
          | succ k => simp at hkx; simpa using hk k x hkx
      · exact absurd hst hne

theorem go_get (g : Val → Out Val) (hnd : NoDel g) (o o' : List (Val × Val))
    (h : mapValues.go g o = .ok o') (j : Val) :
    match Obj.get o j with
    | none => Obj.get o' j = none
    | some x => ∃ y, Obj.get o' j = some y ∧ (g x).next? = .ok (some y) := by
  induction o generalizing o' with
  | nil => simp [mapValues.go] at h; subst h; rfl
  | cons p rest ih =>
    obtain ⟨k, x⟩ := p
    simp only [mapValues.go] at h
    cases hr : (g x).next? with
    | error e => rw [hr] at h; cases h
    | ok r =>
      cases r with
      | none => exact absurd hr (hnd _)
      | some y =>
        rw [hr] at h
        simp only at h
        cases hgo : mapValues.go g rest with
        | error e => rw [hgo] at h; cases h
        | ok r' =>
          rw [hgo] at h
          simp only [Except.map, Except.ok.injEq] at h
          subst h
          have ih' := ih r' hgo
          rw [get_cons]
          cases hjk : Obj.sameKey j k
          · simp only [Bool.false_eq_true, if_false]
            rw [get_cons, hjk]
            simpa using ih'
          · simp only [if_true]
            exact ⟨y, by rw [get_cons, hjk]; rfl, hr⟩

/-- what `.[] |= g` does, seen through `.[j]` -/
theorem mapValues_frame (c : Val) (opt : Bool) (g : Val → Out Val) (v' : Val) (hs : Single g)
    (h : mapValues c opt g = .ok v') (j x : Val) (hc : ChildKey c j) (hx : indexV c j = .ok x) :
    ∃ y, indexV v' j = .ok y ∧ (y = x ∨ (g x).next? = .ok (some y)) := by
  cases c <;> simp only [ChildKey] at hc
  case arr a =>
    obtain ⟨n, rfl⟩ := hc
    simp only [mapValues] at h
    cases hcol : (Out.bindL g a).collect with
    | error e => rw [hcol] at h; cases h
    | ok a' =>
      rw [hcol] at h
      simp only [Except.map, Except.ok.injEq] at h
      subst h
      obtain ⟨hl, hk⟩ := collect_bindL_single g hs a a' hcol
      by_cases hn : isIntNum n = true
      · rw [indexV_arr_int _ n hn] at hx ⊢
        have hsl : slotArr a' (.num n) = slotArr a (.num n) := by simp [slotArr, hl]
        rw [hsl]
        cases hsk : slotArr a (.num n) with
        | none => rw [hsk] at hx; simp only [Except.ok.injEq] at hx; exact ⟨.null, rfl, Or.inl hx⟩
        | some k =>
          rw [hsk] at hx
          simp only [Except.ok.injEq] at hx
          obtain ⟨n', p, hnn, hp, hab, _⟩ := slotArr_num hsk
          have hlt : k < a.length := absIndex_lt hab
          have hak : a[k]? = some x := by
            rw [← hx]; simp [hlt]
          obtain ⟨y, hy, hgy⟩ := hk k x hak
          exact ⟨y, by simp [hy], Or.inr (next?_of_vals hgy)⟩
      · simp [indexV, hn] at hx
  case obj o =>
    simp only [mapValues] at h
    cases hgo : mapValues.go g o with
    | error e => rw [hgo] at h; cases h
    | ok o' =>
      rw [hgo] at h
      simp only [Except.map, Except.ok.injEq] at h
      subst h
      have := go_get g (single_noDel hs) o o' hgo j
      rw [indexV_obj] at hx ⊢
      cases hg : Obj.get o j with
      | none =>
        rw [hg] at this hx
        simp only at this
        rw [this]
        exact ⟨.null, rfl, Or.inl (by simpa using hx)⟩
      | some x0 =>
        rw [hg] at this hx
        obtain ⟨y, hy, hgy⟩ := this
        simp only [Option.getD_some, Except.ok.injEq] at hx
        subst hx
        rw [hy]
        exact ⟨y, rfl, Or.inr hgy⟩

/-! ### a whole evaluated path -/

/-- the function that the parts behind a part hand to it -/
def innerUpd (rest : CPath) (u : Val → Out Val) : Val → Out Val :=
  match rest with
  | [] => u
  | _ :: _ => fun x => Out.ofExcept (cpathUpdate rest x u)

theorem cpathUpdate_cons (p : CPart) (opt : Bool) (rest : CPath) (v : Val) (u : Val → Out Val) :
    cpathUpdate ((p, opt) :: rest) v u = partUpdate p opt v (innerUpd rest u) := by
  cases rest <;> rfl

theorem innerUpd_single (rest : CPath) (u : Val → Out Val) (hs : Single u) : Single (innerUpd rest u) := by
  cases rest with
  | nil => exact hs
  | cons q r => exact ofExcept_single _

theorem getpathV_cons_of {v y : Val} {j : Val} (js : VPath) (h : indexV v j = .ok y) :
    getpathV v (j :: js) = getpathV y js := by
  simp only [getpathV, h]

theorem cpathUpdate_frame (u : Val → Out Val) (hs : Single u) :
    ∀ (cp : CPath) (v v' : Val) (π : VPath),
      cpathUpdate cp v u = .ok v' → Avoids v cp π → getpathV v' π = getpathV v π := by
  intro cp
  induction cp with
  | nil => intro v v' π _ ha; simp only [Avoids] at ha
  | cons hd rest ih =>
    obtain ⟨part, opt⟩ := hd
    intro v v' π h ha
    rw [cpathUpdate_cons] at h
    have hg := innerUpd_single rest u hs
    -- the common end: below the same place
    have finish : ∀ (j : Val) (js : VPath) (x y : Val), indexV v j = .ok x → indexV v' j = .ok y →
        (y = x ∨ (innerUpd rest u x).next? = .ok (some y)) → Avoids x rest js →
        getpathV v' (j :: js) = getpathV v (j :: js) := by
      intro j js x y hx hy hor hav
      rw [getpathV_cons_of js hx, getpathV_cons_of js hy]
      rcases hor with rfl | hn
      · rfl
      · cases rest with
        | nil => simp only [Avoids] at hav
        | cons q r =>
          have : cpathUpdate (q :: r) x u = .ok y := next?_ofExcept hn
          exact ih x y js this hav
    cases π with
    | nil => cases part <;> simp only [Avoids] at ha
    | cons j js =>
      cases part with
      | index i =>
        simp only [Avoids] at ha
        simp only [partUpdate] at h
        cases v with
        | arr a =>
          obtain ⟨hsep, hsame⟩ := mapIndex_arr_frame a i opt _ v' (single_noDel hg) h j
          rcases ha with ha | ⟨hss, x, hx, hav⟩
          · simp only [getpathV, hsep ha]
          · obtain ⟨x', y, hx', hy, hor⟩ := hsame hss
            rw [hx] at hx'
            cases hx'
            exact finish j js x y hx hy hor hav
        | obj o =>
          obtain ⟨hsep, hsame⟩ := mapIndex_obj_frame o i opt _ v' (single_noDel hg) h j
          rcases ha with ha | ⟨hss, x, hx, hav⟩
          · simp only [getpathV, hsep ha]
          · obtain ⟨x', y, hx', hy, hor⟩ := hsame hss
            rw [hx] at hx'
            cases hx'
            exact finish j js x y hx hy hor hav
        | null =>
          rcases ha with ha | ⟨hss, _⟩
          · simp only [Sep] at ha
          · simp only [SameSlot] at hss
        | bool b =>
          rcases ha with ha | ⟨hss, _⟩
          · simp only [Sep] at ha
          · simp only [SameSlot] at hss
        | num n =>
          rcases ha with ha | ⟨hss, _⟩
          · simp only [Sep] at ha
          · simp only [SameSlot] at hss
        | bstr b =>
          rcases ha with ha | ⟨hss, _⟩
          · simp only [Sep] at ha
          · simp only [SameSlot] at hss
        | tstr b =>
          rcases ha with ha | ⟨hss, _⟩
          · simp only [Sep] at ha
          · simp only [SameSlot] at hss
      | range f t =>
        cases f with
        | some f0 => cases t <;> simp only [Avoids] at ha
        | none =>
          cases t with
          | some t0 => simp only [Avoids] at ha
          | none =>
            simp only [Avoids] at ha
            obtain ⟨hck, x, hx, hav⟩ := ha
            simp only [partUpdate] at h
            obtain ⟨y, hy, hor⟩ := mapValues_frame v opt _ v' hg h j x hck hx
            exact finish j js x y hx hy hor hav

/-! ### several paths one after the other (`.[(0, 1)]`, `.[]["a", "b"]`, …) -/

/-- `π` avoids every one of the evaluated paths at the moment it is applied (the paths are applied
one after the other, each to the result of the one before) -/
def AvoidsSeq (u : Val → Out Val) : List (Except Exn CPath) → Val → VPath → Prop
  | [], _, _ => True
  | .error _ :: _, _, _ => True
  | .ok cp :: rest, acc, π =>
      Avoids acc cp π ∧ ∀ acc', cpathUpdate cp acc u = .ok acc' → AvoidsSeq u rest acc' π

theorem foldPaths_frame (u : Val → Out Val) (hs : Single u) :
    ∀ (cps : List (Except Exn CPath)) (v v' : Val) (π : VPath),
      foldPaths u cps v = .ok v' → AvoidsSeq u cps v π → getpathV v' π = getpathV v π := by
  intro cps
  induction cps with
  | nil => intro v v' π h _; simp only [foldPaths, Except.ok.injEq] at h; rw [h]
  | cons c rest ih =>
    intro v v' π h ha
    cases c with
    | error e => simp only [foldPaths, reduceCtorEq] at h
    | ok cp =>
      simp only [foldPaths] at h
      cases hc : cpathUpdate cp v u with
      | error e => rw [hc] at h; cases h
      | ok a =>
        rw [hc] at h
        simp only at h
        rw [ih a v' π h (ha.2 a hc), cpathUpdate_frame u hs cp v a π hc ha.1]

theorem update_path_id (n : Nat) (ps : Parts) (env : Env) (v : Val) (u : Val → Out Val) :
    update (n + 2) (.path .id ps) env v u =
      Out.ofExcept (foldPaths u (explode (ev (n + 1)) env v ps) v) := rfl

theorem mem_ofExcept {r : Except Exn Val} {y : Val} (h : y ∈ (Out.ofExcept r).vals) : r = .ok y := by
  cases r with
  | ok z => simp [Out.ofExcept, Out.one] at h; rw [h]
  | error e => simp [Out.ofExcept, Out.fail] at h

end Jaq.C02
