/-
  C12 ← C08: the abstract order laws of the sorting theorems (`TotalPreorder`) instantiated with
  the order of `Val` that C08 proves (`Jaq.C08.val_order`: `Jaq.C08.cmp` is a total preorder on
  the values of `InDom m` — NaN-free, integers beyond 2^53 not next to finite floats).

  `TotalPreorder` quantifies over ALL values, C08's laws hold on the guarded domain only.  The
  bridge is `domCmp m`: `C08.cmp` on the domain, everything outside it equivalent to each other and
  above the domain — a total preorder on all of `Val` that agrees with `C08.cmp` wherever both
  arguments are in the domain.  The natives only ever compare keys that occur, so on inputs whose
  keys are in the domain `sort_by` … computed with `C08.cmp` and with `domCmp m` are the same
  (`isort_congr`, `foldl_cmpStep_congr`).
-/
import JaqVerif.Lemmas.C12Sort
import JaqVerif.Props.C08

namespace Jaq.Coll
open Jaq

/-- `C08.cmp` on `InDom m`; what is outside the domain is equivalent and greater -/
def domCmp (m : C08.Mode) (a b : Val) : Ordering :=
  match C08.InDom m a, C08.InDom m b with
  | true, true => C08.cmp a b
  | true, false => .lt
  | false, true => .gt
  | false, false => .eq

theorem domCmp_eq (m : C08.Mode) {a b : Val} (ha : C08.InDom m a = true) (hb : C08.InDom m b = true) :
    domCmp m a b = C08.cmp a b := by
  unfold domCmp; rw [ha, hb]

/-- **C08's order, totalised, satisfies the laws the C12 sorting theorems assume.** -/
theorem domCmp_preorder (m : C08.Mode) : TotalPreorder (domCmp m) := by
  have h := C08.val_order m
  refine ⟨fun a => ?_, fun a b => ?_, fun a b d => ?_⟩
  · unfold domCmp
    cases ha : C08.InDom m a
    · rfl
    · exact h.refl a ha
  · unfold domCmp
    cases ha : C08.InDom m a <;> cases hb : C08.InDom m b <;> try rfl
    exact h.swap a b ha hb
  · unfold domCmp
    cases ha : C08.InDom m a <;> cases hb : C08.InDom m b <;> cases hd : C08.InDom m d <;> simp
    exact h.trans a b d ha hb hd

/-! ### the natives only compare keys that occur -/

theorem lexCmp_congr' {κ : Type} {c c' : κ → κ → Ordering} :
    ∀ (x y : List κ), (∀ a ∈ x, ∀ b ∈ y, c a b = c' a b) → lexCmp c x y = lexCmp c' x y
  | [], [], _ => rfl
  | [], _ :: _, _ => rfl
  | _ :: _, [], _ => rfl
  | a :: as, b :: bs, h => by
    rw [lexCmp_cons_cons, lexCmp_cons_cons, h a (by simp) b (by simp),
      lexCmp_congr' as bs (fun p hp q hq => h p (by simp [hp]) q (by simp [hq]))]

theorem insSt_congr {α : Type} {c c' : α → α → Ordering} (x : α) :
    ∀ l : List α, (∀ y ∈ l, c x y = c' x y) → insSt c x l = insSt c' x l
  | [], _ => rfl
  | y :: ys, h => by
    rw [insSt_cons, insSt_cons, h y (List.mem_cons_self ..), insSt_congr x ys (fun z hz => h z (List.mem_cons_of_mem _ hz))]

theorem isort_congr {α : Type} {c c' : α → α → Ordering} :
    ∀ l : List α, (∀ x ∈ l, ∀ y ∈ l, c x y = c' x y) → isort c l = isort c' l
  | [], _ => rfl
  | x :: xs, h => by
    rw [isort_cons, isort_cons, isort_congr xs (fun a ha b hb => h a (List.mem_cons_of_mem _ ha) b (List.mem_cons_of_mem _ hb))]
    exact insSt_congr x _ (fun y hy => h x (List.mem_cons_self ..) y (List.mem_cons_of_mem _ (mem_isort.1 hy)))

theorem foldl_cmpStep_mem {α κ : Type} (r : List κ → List κ → Bool) :
    ∀ (rest : List (List κ × α)) (p : List κ × α), rest.foldl (cmpStep r) p ∈ p :: rest
  | [], p => List.mem_cons_self ..
  | q :: rest, p => by
    rw [List.foldl_cons]
    have := foldl_cmpStep_mem r rest (cmpStep r p q)
    rcases List.mem_cons.1 this with h | h
    · rw [h]; unfold cmpStep; split <;> simp
    · exact List.mem_cons_of_mem _ (List.mem_cons_of_mem _ h)

theorem foldl_cmpStep_congr {α κ : Type} {r r' : List κ → List κ → Bool} :
    ∀ (rest : List (List κ × α)) (p : List κ × α),
      (∀ a ∈ p :: rest, ∀ b ∈ p :: rest, r a.1 b.1 = r' a.1 b.1) →
      rest.foldl (cmpStep r) p = rest.foldl (cmpStep r') p
  | [], _, _ => rfl
  | q :: rest, p, h => by
    rw [List.foldl_cons, List.foldl_cons]
    have e : cmpStep r p q = cmpStep r' p q := by
      unfold cmpStep; rw [h p (by simp) q (by simp)]
    rw [e]
    apply foldl_cmpStep_congr rest
    intro a ha b hb
    have hsub : ∀ z ∈ cmpStep r' p q :: rest, z ∈ p :: q :: rest := by
      intro z hz
      rcases List.mem_cons.1 hz with rfl | hz
      · unfold cmpStep; split <;> simp
      · simp [hz]
    exact h a (hsub a ha) b (hsub b hb)

section
variable {α ε : Type} {kf : α → Except ε (List Val)} {key : α → List Val}

/-- all keys of all elements lie in C08's domain -/
def KeysInDom (m : C08.Mode) (key : α → List Val) (xs : List α) : Prop :=
  ∀ x ∈ xs, ∀ k ∈ key x, C08.InDom m k = true

theorem keyCmp_dom (m : C08.Mode) {xs : List α} (hd : KeysInDom m key xs) :
    ∀ p ∈ xs.map (fun x => (key x, x)), ∀ q ∈ xs.map (fun x => (key x, x)),
      keyCmp C08.cmp p q = keyCmp (domCmp m) p q := by
  intro p hp q hq
  obtain ⟨x, hx, rfl⟩ := List.mem_map.1 hp
  obtain ⟨y, hy, rfl⟩ := List.mem_map.1 hq
  exact lexCmp_congr' _ _ (fun a ha b hb => (domCmp_eq m (hd x hx a ha) (hd y hy b hb)).symm)

theorem lexCmp_dom (m : C08.Mode) {xs : List α} (hd : KeysInDom m key xs) {x y : α} (hx : x ∈ xs) (hy : y ∈ xs) :
    lexCmp (domCmp m) (key x) (key y) = lexCmp C08.cmp (key x) (key y) :=
  lexCmp_congr' _ _ (fun a ha b hb => domCmp_eq m (hd x hx a ha) (hd y hy b hb))

theorem sortByKey_dom (m : C08.Mode) (xs : List α) (hk : ∀ x ∈ xs, kf x = .ok (key x)) (hd : KeysInDom m key xs) :
    sortByKey C08.cmp kf xs = sortByKey (domCmp m) kf xs := by
  unfold sortByKey
  split
  · rfl
  · rw [decorate_ok hk]
    show Except.ok _ = Except.ok _
    rw [isort_congr _ (keyCmp_dom m hd)]

theorem minByKey_dom (m : C08.Mode) (dflt : α) (xs : List α) (hk : ∀ x ∈ xs, kf x = .ok (key x)) (hd : KeysInDom m key xs) :
    minByKey dflt C08.cmp kf xs = minByKey dflt (domCmp m) kf xs ∧
    maxByKey dflt C08.cmp kf xs = maxByKey dflt (domCmp m) kf xs := by
  unfold minByKey maxByKey cmpBy
  rw [decorate_ok hk]
  cases xs with
  | nil => exact ⟨rfl, rfl⟩
  | cons x rest =>
    have hcm := keyCmp_dom m hd
    simp only [List.map_cons] at hcm ⊢
    constructor
    · rw [foldl_cmpStep_congr (r := minReplace C08.cmp) (r' := minReplace (domCmp m)) _ _ (fun a ha b hb => by
        unfold minReplace
        have := hcm b hb a ha
        unfold keyCmp at this
        rw [this])]
    · rw [foldl_cmpStep_congr (r := maxReplace C08.cmp) (r' := maxReplace (domCmp m)) _ _ (fun a ha b hb => by
        unfold maxReplace
        have := hcm b hb a ha
        unfold keyCmp at this
        rw [this])]

end
end Jaq.Coll
