/-
  C20 helper lemmas about the independent Gregorian calendar `JaqVerif/C20/Civil.lean`:
  year step, monotonicity, the year and month searches are correct and unique, and the two
  conversions are mutually inverse on ALL integers (no range restriction).
-/
import JaqVerif.C20.Civil
namespace Jaq.Time

theorem leap_cases (y : Int) : isLeap y = true ↔ (y % 4 = 0 ∧ (y % 100 ≠ 0 ∨ y % 400 = 0)) := by
  simp [isLeap]

theorem daysBeforeYear_step (y : Int) : daysBeforeYear (y + 1) = daysBeforeYear y + 365 + leapDays y := by
  unfold daysBeforeYear leapDays
  by_cases h : isLeap y = true
  · rw [if_pos h]; rw [leap_cases] at h; omega
  · rw [if_neg h]; rw [leap_cases] at h; omega

theorem daysBeforeYear_lt {a b : Int} (h : a < b) : daysBeforeYear a + 365 * (b - a) ≤ daysBeforeYear b := by
  unfold daysBeforeYear; omega

theorem daysBeforeYear_mono {a b : Int} (h : a ≤ b) : daysBeforeYear a ≤ daysBeforeYear b := by
  unfold daysBeforeYear; omega

theorem yearOfDays_spec (N : Int) :
    daysBeforeYear (yearOfDays N) ≤ N ∧ N < daysBeforeYear (yearOfDays N + 1) := by
  unfold yearOfDays
  simp only
  split
  · rename_i h
    unfold daysBeforeYear at *
    omega
  · split
    · rename_i h1 h2
      unfold daysBeforeYear at *
      omega
    · omega

theorem yearOfDays_unique {N y : Int} (h1 : daysBeforeYear y ≤ N) (h2 : N < daysBeforeYear (y + 1)) :
    yearOfDays N = y := by
  have ⟨s1, s2⟩ := yearOfDays_spec N
  by_cases hlt : yearOfDays N < y
  · have := daysBeforeYear_mono (show yearOfDays N + 1 ≤ y by omega); omega
  · by_cases hgt : y < yearOfDays N
    · have := daysBeforeYear_mono (show y + 1 ≤ yearOfDays N by omega); omega
    · omega

theorem dbm_cases (m : Int) (h1 : 1 ≤ m) (h2 : m ≤ 12) :
    m = 1 ∨ m = 2 ∨ m = 3 ∨ m = 4 ∨ m = 5 ∨ m = 6 ∨ m = 7 ∨ m = 8 ∨ m = 9 ∨ m = 10 ∨ m = 11 ∨ m = 12 := by
  omega

theorem monthOfYearday_unique (leap : Bool) (m doy : Int) (h1 : 1 ≤ m) (h2 : m ≤ 12)
    (h3 : daysBeforeMonth leap m ≤ doy) (h4 : doy < daysBeforeMonth leap (m + 1)) :
    monthOfYearday leap doy = m := by
  rcases dbm_cases m h1 h2 with h|h|h|h|h|h|h|h|h|h|h|h <;> subst h <;> cases leap <;>
    simp [daysBeforeMonth] at h3 h4 <;> simp [monthOfYearday, daysBeforeMonth] <;> omega

theorem month_exists (leap : Bool) (doy : Int) (h0 : 0 ≤ doy) (h1 : doy < 365 + (if leap then 1 else 0)) :
    ∃ m, 1 ≤ m ∧ m ≤ 12 ∧ daysBeforeMonth leap m ≤ doy ∧ doy < daysBeforeMonth leap (m + 1) := by
  cases leap
  · simp at h1
    rcases (show doy < 31 ∨ (31 ≤ doy ∧ doy < 59) ∨ (59 ≤ doy ∧ doy < 90) ∨ (90 ≤ doy ∧ doy < 120) ∨
      (120 ≤ doy ∧ doy < 151) ∨ (151 ≤ doy ∧ doy < 181) ∨ (181 ≤ doy ∧ doy < 212) ∨ (212 ≤ doy ∧ doy < 243) ∨
      (243 ≤ doy ∧ doy < 273) ∨ (273 ≤ doy ∧ doy < 304) ∨ (304 ≤ doy ∧ doy < 334) ∨ (334 ≤ doy) by omega)
      with h|h|h|h|h|h|h|h|h|h|h|h
    · exact ⟨1, by simp [daysBeforeMonth]; omega⟩
    · exact ⟨2, by simp [daysBeforeMonth]; omega⟩
    · exact ⟨3, by simp [daysBeforeMonth]; omega⟩
    · exact ⟨4, by simp [daysBeforeMonth]; omega⟩
    · exact ⟨5, by simp [daysBeforeMonth]; omega⟩
    · exact ⟨6, by simp [daysBeforeMonth]; omega⟩
    · exact ⟨7, by simp [daysBeforeMonth]; omega⟩
    · exact ⟨8, by simp [daysBeforeMonth]; omega⟩
    · exact ⟨9, by simp [daysBeforeMonth]; omega⟩
    · exact ⟨10, by simp [daysBeforeMonth]; omega⟩
    · exact ⟨11, by simp [daysBeforeMonth]; omega⟩
    · exact ⟨12, by simp [daysBeforeMonth]; omega⟩
  · simp at h1
    rcases (show doy < 31 ∨ (31 ≤ doy ∧ doy < 60) ∨ (60 ≤ doy ∧ doy < 91) ∨ (91 ≤ doy ∧ doy < 121) ∨
      (121 ≤ doy ∧ doy < 152) ∨ (152 ≤ doy ∧ doy < 182) ∨ (182 ≤ doy ∧ doy < 213) ∨ (213 ≤ doy ∧ doy < 244) ∨
      (244 ≤ doy ∧ doy < 274) ∨ (274 ≤ doy ∧ doy < 305) ∨ (305 ≤ doy ∧ doy < 335) ∨ (335 ≤ doy) by omega)
      with h|h|h|h|h|h|h|h|h|h|h|h
    · exact ⟨1, by simp [daysBeforeMonth]; omega⟩
    · exact ⟨2, by simp [daysBeforeMonth]; omega⟩
    · exact ⟨3, by simp [daysBeforeMonth]; omega⟩
    · exact ⟨4, by simp [daysBeforeMonth]; omega⟩
    · exact ⟨5, by simp [daysBeforeMonth]; omega⟩
    · exact ⟨6, by simp [daysBeforeMonth]; omega⟩
    · exact ⟨7, by simp [daysBeforeMonth]; omega⟩
    · exact ⟨8, by simp [daysBeforeMonth]; omega⟩
    · exact ⟨9, by simp [daysBeforeMonth]; omega⟩
    · exact ⟨10, by simp [daysBeforeMonth]; omega⟩
    · exact ⟨11, by simp [daysBeforeMonth]; omega⟩
    · exact ⟨12, by simp [daysBeforeMonth]; omega⟩

theorem monthOfYearday_spec (leap : Bool) (doy : Int) (h0 : 0 ≤ doy) (h1 : doy < 365 + (if leap then 1 else 0)) :
    1 ≤ monthOfYearday leap doy ∧ monthOfYearday leap doy ≤ 12 ∧
    daysBeforeMonth leap (monthOfYearday leap doy) ≤ doy ∧
    doy < daysBeforeMonth leap (monthOfYearday leap doy + 1) := by
  obtain ⟨m, a, b, c, d⟩ := month_exists leap doy h0 h1
  rw [monthOfYearday_unique leap m doy a b c d]
  exact ⟨a, b, c, d⟩

theorem dbm_bounds (leap : Bool) (m : Int) (h1 : 1 ≤ m) (h2 : m ≤ 12) :
    0 ≤ daysBeforeMonth leap m ∧ daysBeforeMonth leap m + 28 ≤ daysBeforeMonth leap (m + 1) ∧
    daysBeforeMonth leap (m + 1) ≤ 365 + (if leap then 1 else 0) := by
  rcases dbm_cases m h1 h2 with h|h|h|h|h|h|h|h|h|h|h|h <;> subst h <;> cases leap <;>
    simp [daysBeforeMonth]

theorem leapDays_eq (y : Int) : leapDays y = if isLeap y then 1 else 0 := rfl

/-- days → civil → days, and the civil date produced exists -/
theorem daysFromCivil_civilFromDays (n : Int) :
    validDate (civilFromDays n).1 (civilFromDays n).2.1 (civilFromDays n).2.2 ∧
    daysFromCivil (civilFromDays n).1 (civilFromDays n).2.1 (civilFromDays n).2.2 = n := by
  have ⟨s1, s2⟩ := yearOfDays_spec (n + epochShift)
  rw [daysBeforeYear_step, leapDays_eq] at s2
  have hm := monthOfYearday_spec (isLeap (yearOfDays (n + epochShift)))
    (n + epochShift - daysBeforeYear (yearOfDays (n + epochShift))) (by omega) (by omega)
  obtain ⟨a, b, c, d⟩ := hm
  simp only [civilFromDays, validDate, daysFromCivil, daysInMonth]
  refine ⟨⟨a, b, by omega, by omega⟩, by omega⟩

/-- civil → days → civil on every date that exists -/
theorem civilFromDays_daysFromCivil (y m d : Int) (h : validDate y m d) :
    civilFromDays (daysFromCivil y m d) = (y, m, d) := by
  obtain ⟨h1, h2, h3, h4⟩ := h
  unfold daysInMonth at h4
  have ⟨b0, b1, b2⟩ := dbm_bounds (isLeap y) m h1 h2
  have hy : yearOfDays (daysFromCivil y m d + epochShift) = y := by
    apply yearOfDays_unique
    · unfold daysFromCivil; omega
    · rw [daysBeforeYear_step, leapDays_eq]; unfold daysFromCivil; omega
  have hm : monthOfYearday (isLeap y) (daysFromCivil y m d + epochShift - daysBeforeYear y) = m := by
    apply monthOfYearday_unique _ _ _ h1 h2
    · unfold daysFromCivil; omega
    · unfold daysFromCivil; omega
  simp only [civilFromDays, hy, hm]
  unfold daysFromCivil
  congr 2
  omega

theorem weekday_range (n : Int) : 0 ≤ weekday n ∧ weekday n < 7 := by
  unfold weekday; omega

theorem weekday_succ (n : Int) : weekday (n + 1) = (weekday n + 1) % 7 := by
  unfold weekday; omega

theorem yearday_eq (n : Int) :
    yearday n = n - daysFromCivil (civilFromDays n).1 1 1 := by
  simp [yearday, civilFromDays, daysFromCivil, daysBeforeMonth]
  omega

theorem yearday_range (n : Int) :
    0 ≤ yearday n ∧ yearday n < daysInYear (civilFromDays n).1 := by
  have ⟨s1, s2⟩ := yearOfDays_spec (n + epochShift)
  rw [daysBeforeYear_step] at s2
  simp only [yearday, daysInYear, civilFromDays]
  omega

end Jaq.Time
