/-
  C08 helper lemmas, part 4: floats that compare equal are hashed alike (up to the sign of zero,
  finding F-08).
-/
import JaqVerif.Lemmas.C08Num

namespace Jaq.C08
open Jaq

theorem totalKey_inj {x y : UInt64} (h : F64.totalKey x = F64.totalKey y) : x = y := by
  have hx := x.toNat_lt
  have hy := y.toNat_lt
  apply UInt64.toNat_inj.1
  unfold F64.totalKey F64.signBit at h
  by_cases sx : x.toNat ≥ 2 ^ 63 <;> by_cases sy : y.toNat ≥ 2 ^ 63 <;>
    simp only [sx, sy, decide_true, decide_false, if_true, if_false, Int.ofNat_eq_natCast,
      Bool.false_eq_true] at h <;> omega

/-- floats that `float_cmp` calls equal are the same bit pattern, or both zero -/
theorem cmp_eq_imp {x y : UInt64} (h : F64.cmp x y = .eq) :
    (F64.isZero x = true ∧ F64.isZero y = true) ∨ (x = y ∧ F64.isNaN x = false) := by
  unfold F64.cmp at h
  by_cases z : (F64.isZero x && F64.isZero y) = true
  · left; simpa using z
  · right
    rw [if_neg z] at h
    by_cases nx : F64.isNaN x = true
    · rw [if_pos nx] at h; cases h
    · rw [if_neg nx] at h
      by_cases ny : F64.isNaN y = true
      · rw [if_pos ny] at h; cases h
      · rw [if_neg ny] at h
        have : F64.totalKey x = F64.totalKey y := by
          rcases Int.lt_trichotomy (F64.totalKey x) (F64.totalKey y) with h' | h' | h'
          · rw [Int.compare_eq_lt.2 h'] at h; cases h
          · exact h'
          · rw [Int.compare_eq_gt.2 h'] at h; cases h
        exact ⟨totalKey_inj this, by simpa using nx⟩

theorem isZero_cases {x : UInt64} (h : F64.isZero x = true) : x = F64.posZero ∨ x = F64.negZero := by
  have hx := x.toNat_lt
  simp only [F64.isZero, beq_iff_eq] at h
  have : x.toNat = 0 ∨ x.toNat = 9223372036854775808 := by omega
  rcases this with h | h
  · left; apply UInt64.toNat_inj.1; rw [h]; decide
  · right; apply UInt64.toNat_inj.1; rw [h]; decide

/-- **hash coherence of floats**: equal floats are hashed alike, provided `Num::hash`
normalises zero (repaired code) or neither is the negative zero -/
theorem floatFeed_coherent {x y : UInt64} (h : F64.cmp x y = .eq)
    (g : Cfg.hashNormalisesZero = true ∨ (x ≠ F64.negZero ∧ y ≠ F64.negZero)) :
    floatFeed x = floatFeed y := by
  rcases cmp_eq_imp h with ⟨zx, zy⟩ | ⟨rfl, _⟩
  · rcases g with g | ⟨gx, gy⟩
    · have fx : F64.isFinite x = true := by rcases isZero_cases zx with rfl | rfl <;> decide
      have fy : F64.isFinite y = true := by rcases isZero_cases zy with rfl | rfl <;> decide
      simp [floatFeed, hashedFloat, g, zx, zy, fx, fy]
    · have ex : x = F64.posZero := (isZero_cases zx).resolve_right gx
      have ey : y = F64.posZero := (isZero_cases zy).resolve_right gy
      rw [ex, ey]
  · rfl

end Jaq.C08
