/-
  C15 — the model parser inverts the operator-tree printer `PT.toks` (Print.lean) for every
  placement of parentheses that includes the required ones.
-/
import JaqVerif.C15.Print
import JaqVerif.Lemmas.C15Climb

namespace Jaq.C15
open PrecOp

/-- words that have a special meaning at the start of an atomic term -/
def isAtomKeyword (s : Str) : Bool :=
  s == ['-'] || s == kw "def" || s == kw "if" || s == kw "try" || s == kw "label" || s == kw "break" ||
  s == kw "reduce" || s == kw "foreach"

def Leaf.str : Leaf → Str
  | .num s | .var s | .call s => s

/-- the lexeme is not `-` or one of the keywords that start a construct (true of every number
and variable token the lexer makes, and of every identifier that is not such a keyword) -/
def Leaf.Ok (a : Leaf) : Prop := isAtomKeyword a.str = false

/-- operators other than bindings (`as`) -/
def BinOp.plain (o : BinOp) : Prop := o.isAs = false

/-- operators printed by `PT.toks`: all of them; bindings with a variable pattern (`as $x |`) -/
def BinOp.printable (o : BinOp) : Prop := o.isAs = false ∨ ∃ x, o = .pipe (some (.var x))

/-- is there a binding that is not enclosed in parentheses? (its body is everything to its right) -/
def PT.openAs : PT → Bool
  | .bin l o r => o.isAs || l.openAs || r.openAs
  | _ => false

/-- a `PT` as an operator tree whose operands are the leaves, the parenthesised subtrees, and
the body of a binding (everything to the right of `as $x |`, which the table does not look into) -/
def PT.toE : PT → E PT BinOp
  | .leaf a => .atom (.leaf a)
  | .paren t => .atom (.paren t)
  | .bin l o r => if o.isAs then .bin l.toE o (.atom r) else .bin l.toE o r.toE

/-- the parenthesisation includes the parentheses the table requires: wherever an operator
stands beside an unparenthesised operator, the table's local condition holds; a binding
`l as $x | r` must not stand unparenthesised in a LEFT operand (its body extends to the right as
far as possible), and nothing is required of its body `r` relative to it -/
inductive PT.Ok : PT → Prop
  | leaf (a : Leaf) : a.Ok → PT.Ok (.leaf a)
  | paren (t : PT) : PT.Ok t → PT.Ok (.paren t)
  | bin (l : PT) (o : BinOp) (r : PT) : PT.Ok l → PT.Ok r → l.openAs = false → o.printable →
      okL l.toE o → (o.isAs = false → okR o r.toE) → PT.Ok (.bin l o r)

/-! ### tokens that may follow an operand -/

def stopSyms : List Str := [
  ['|'], [','], [')'], ['+'], ['-'], ['*'], ['/'], ['%'], ['='], ['|', '='],
  ['+', '='], ['-', '='], ['*', '='], ['/', '='], ['%', '='],
  ['<'], ['>'], ['<', '='], ['>', '='], ['=', '='], ['!', '='], ['/', '/'], ['/', '/', '=']]

def stopTok : Token → Bool
  | .sym s => stopSyms.contains s
  | .word s => s == ['o', 'r'] || s == ['a', 'n', 'd'] || s == ['a', 's']
  | _ => false

/-- what follows an operand in a printed operator tree: nothing, an operator, or `)` -/
def Follow : List Token → Prop
  | [] => True
  | t :: _ => stopTok t = true

theorem stopTok_cases {t : Token} (h : stopTok t = true) :
    (∃ s, t = .sym s ∧ s ∈ stopSyms) ∨ t = .word ['o', 'r'] ∨ t = .word ['a', 'n', 'd'] ∨ t = .word ['a', 's'] := by
  cases t with
  | sym s => left; exact ⟨s, rfl, by simpa [stopTok] using h⟩
  | word s =>
    right
    simp only [stopTok, Bool.or_eq_true, beq_iff_eq] at h
    rcases h with (h | h) | h <;> simp [h]
  | _ => simp [stopTok] at h

theorem opt_follow {rest : List Token} (h : Follow rest) : opt rest = (false, rest) := by
  cases rest with
  | nil => rfl
  | cons t r =>
    rcases stopTok_cases h with ⟨s, rfl, hs⟩ | rfl | rfl | rfl
    · simp only [stopSyms, List.mem_cons, List.not_mem_nil, or_false] at hs
      rcases hs with rfl | rfl | rfl | rfl | rfl | rfl | rfl | rfl | rfl | rfl | rfl | rfl | rfl | rfl | rfl | rfl |
        rfl | rfl | rfl | rfl | rfl | rfl | rfl <;> simp [opt, Token.is, Token.simple?]
    all_goals simp [opt, Token.is, Token.simple?]

theorem dot_follow {rest : List Token} (h : Follow rest) : dot rest = none := by
  cases rest with
  | nil => rfl
  | cons t r =>
    rcases stopTok_cases h with ⟨s, rfl, hs⟩ | rfl | rfl | rfl
    · simp only [stopSyms, List.mem_cons, List.not_mem_nil, or_false] at hs
      rcases hs with rfl | rfl | rfl | rfl | rfl | rfl | rfl | rfl | rfl | rfl | rfl | rfl | rfl | rfl | rfl | rfl |
        rfl | rfl | rfl | rfl | rfl | rfl | rfl <;> simp [dot, Token.simple?]
    all_goals simp [dot, Token.simple?]

theorem not_block_follow {rest : List Token} (h : Follow rest) : ∀ o ts r, rest ≠ .block o ts :: r := by
  intro o ts r he
  subst he
  simp [Follow, stopTok] at h

/-- no path suffix follows -/
theorem path_follow (f : Nat) {rest : List Token} (h : Follow rest) : path (f + 3) rest = some ([], rest) := by
  have hpo : pathPartOpt (f + 1) rest = some (none, rest) := by
    cases rest with
    | nil => simp [pathPartOpt]
    | cons t r =>
      cases t with
      | block o ts => exact absurd rfl (not_block_follow h o ts r)
      | _ => simp [pathPartOpt]
  simp only [path, pathParts, hpo, pathLoop, dot_follow h]

theorem args_follow {α : Type} (p : P α) (f : Nat) {rest : List Token} (h : Follow rest) :
    args p f rest = some ([], rest) := by
  cases rest with
  | nil => simp [args]
  | cons t r =>
    cases t with
    | block o ts => exact absurd rfl (not_block_follow h o ts r)
    | _ => simp [args]

/-! ### operands -/

theorem atom_leaf (f : Nat) (a : Leaf) (ha : a.Ok) {rest : List Token} (h : Follow rest) :
    atom (f + 5) (a.tok :: rest) = some (a.term, rest) := by
  cases a with
  | num s =>
    simp only [Leaf.Ok, Leaf.str, isAtomKeyword, Bool.or_eq_false_iff, beq_eq_false_iff_ne] at ha
    simp only [atom, Leaf.tok, Leaf.term, atomHead, Token.is, Token.simple?]
    simp [ha, opt_follow h, path_follow (f + 1) h]
  | var s =>
    simp only [Leaf.Ok, Leaf.str, isAtomKeyword, Bool.or_eq_false_iff, beq_eq_false_iff_ne] at ha
    simp only [atom, Leaf.tok, Leaf.term, atomHead, Token.is, Token.simple?]
    simp [ha, opt_follow h, path_follow (f + 1) h]
  | call s =>
    simp only [Leaf.Ok, Leaf.str, isAtomKeyword, Bool.or_eq_false_iff, beq_eq_false_iff_ne] at ha
    simp only [atom, Leaf.tok, Leaf.term, atomHead, Token.is, Token.simple?]
    simp [ha, args_follow (term (f + 3)) (f + 3) h, opt_follow h, path_follow (f + 1) h]

theorem atom_paren (f : Nat) (ts : List Token) (tm : Term) {rest : List Token} (h : Follow rest)
    (hin : term (f + 3) (ts ++ [.sym [')']]) = some (tm, [.sym [')']])) :
    atom (f + 5) (.block '(' (ts ++ [.sym [')']]) :: rest) = some (tm, rest) := by
  simp only [atom, atomHead, Token.is, Token.simple?]
  simp [kw, hin, verifyLast, Token.is, Token.simple?, opt_follow h, path_follow (f + 1) h]

/-! ### operators -/

/-- right-associative levels of `impl Op for BinaryOp` -/
def raLvl (p : Nat) : Bool := p == 0 || p == 2 || p == 3

/-- in the model of `impl Op for BinaryOp`, associativity is a function of the precedence -/
theorem binop_homogeneous (o : BinOp) : ra o = raLvl (prec o) := by
  cases o with
  | pipe p => cases p <;> rfl
  | math m => cases m <;> rfl
  | cmp c => cases c <;> rfl
  | _ => rfl

theorem op_toks (f : Nat) (o : BinOp) (ho : o.printable) (rest : List Token) :
    op (f + 2) true (o.toks ++ rest) = some (some o, rest) := by
  cases o with
  | pipe p =>
    cases p with
    | none => simp [op, BinOp.toks, Token.simple?]
    | some p =>
      rcases ho with ho | ⟨x, ho⟩
      · simp [BinOp.isAs] at ho
      · simp only [BinOp.pipe.injEq, Option.some.injEq] at ho
        subst ho
        simp [op, BinOp.toks, Token.simple?, pattern, just, Token.is]
  | math m => cases m <;> simp [op, BinOp.toks, Token.simple?, opTable, List.lookup]
  | cmp c => cases c <;> simp [op, BinOp.toks, Token.simple?, opTable, List.lookup]
  | updateMath m => cases m <;> simp [op, BinOp.toks, Token.simple?, opTable, List.lookup]
  | _ => simp [op, BinOp.toks, Token.simple?, opTable, List.lookup]

theorem toks_head_stop (o : BinOp) (ho : o.printable) : ∃ t r, o.toks = t :: r ∧ stopTok t = true := by
  cases o with
  | pipe p =>
    cases p with
    | none => exact ⟨_, _, rfl, by decide⟩
    | some p =>
      rcases ho with ho | ⟨x, ho⟩
      · simp [BinOp.isAs] at ho
      · simp only [BinOp.pipe.injEq, Option.some.injEq] at ho
        subst ho
        exact ⟨_, _, rfl, by decide⟩
  | math m => cases m <;> exact ⟨_, _, rfl, by decide⟩
  | cmp c => cases c <;> exact ⟨_, _, rfl, by decide⟩
  | updateMath m => cases m <;> exact ⟨_, _, rfl, by decide⟩
  | _ => exact ⟨_, _, rfl, by decide⟩

/-- what may follow a whole term: nothing or `)` -/
def Closing : List Token → Prop
  | [] => True
  | t :: _ => t = .sym [')']

theorem closing_follow {rest : List Token} (h : Closing rest) : Follow rest := by
  cases rest with
  | nil => trivial
  | cons t r => simp only [Closing] at h; subst h; exact (by decide : stopTok (.sym [')']) = true)

theorem op_closing (f : Nat) {rest : List Token} (h : Closing rest) : op (f + 1) true rest = some (none, rest) := by
  cases rest with
  | nil => simp [op]
  | cons t r =>
    simp only [Closing] at h; subst h
    simp [op, Token.simple?, opTable, List.lookup]

/-! ### the in-order sequence of a `PT` -/

def PT.size : PT → Nat
  | .leaf _ => 1
  | .bin l _ r => 1 + l.size + r.size
  | .paren t => 1 + t.size

/-- leftmost operand -/
def PT.head : PT → PT
  | .bin l _ _ => l.head
  | p => p

/-- the (operator, operand) pairs after the leftmost operand -/
def PT.tail : PT → List (BinOp × PT)
  | .bin l o r => l.tail ++ (o, r.head) :: r.tail
  | _ => []

def tailToks : List (BinOp × PT) → List Token
  | [] => []
  | (o, q) :: tl => o.toks ++ (q.toks ++ tailToks tl)

theorem tailToks_append (a b : List (BinOp × PT)) : tailToks (a ++ b) = tailToks a ++ tailToks b := by
  induction a with
  | nil => rfl
  | cons hd tl ih => obtain ⟨o, q⟩ := hd; simp [tailToks, ih]

theorem toks_head_tail (p : PT) : p.toks = p.head.toks ++ tailToks p.tail := by
  induction p with
  | leaf a => simp [PT.head, PT.tail, tailToks]
  | paren t _ => simp [PT.head, PT.tail, tailToks]
  | bin l o r ihl ihr =>
    simp only [PT.toks, PT.head, PT.tail, tailToks_append, tailToks]
    rw [ihl, ihr]
    simp [List.append_assoc]

theorem openAs_bin {l r : PT} {o : BinOp} (h : (PT.bin l o r).openAs = false) :
    o.isAs = false ∧ l.openAs = false ∧ r.openAs = false := by
  simp only [PT.openAs, Bool.or_eq_false_iff] at h
  exact ⟨h.1.1, h.1.2, h.2⟩

theorem size_pos (p : PT) : 1 ≤ p.size := by
  cases p <;> simp [PT.size] <;> omega

theorem size_operand (p : PT) :
    p.tail.length + p.head.size ≤ p.size ∧ ∀ oq ∈ p.tail, p.tail.length + oq.2.size ≤ p.size := by
  induction p with
  | leaf a => simp [PT.head, PT.tail]
  | paren t _ => simp [PT.head, PT.tail]
  | bin l o r ihl ihr =>
    obtain ⟨hl, hl'⟩ := ihl
    obtain ⟨hr, hr'⟩ := ihr
    refine ⟨?_, ?_⟩
    · simp only [PT.head, PT.tail, PT.size, List.length_append, List.length_cons]; omega
    · intro oq hoq
      simp only [PT.tail, List.mem_append, List.mem_cons] at hoq
      simp only [PT.tail, PT.size, List.length_append, List.length_cons]
      rcases hoq with h | rfl | h
      · have := hl' oq h; omega
      · simp only; omega
      · have := hr' oq h; omega

/-- an operand is a good leaf or a parenthesised good tree -/
def OperandOk (q : PT) : Prop := (∃ a, q = .leaf a ∧ a.Ok) ∨ (∃ t, q = .paren t ∧ PT.Ok t)

theorem ok_operands {p : PT} (h : PT.Ok p) :
    OperandOk p.head ∧ ∀ oq ∈ p.tail, oq.1.printable ∧ OperandOk oq.2 := by
  induction h with
  | leaf a ha => exact ⟨Or.inl ⟨a, rfl, ha⟩, by simp [PT.tail]⟩
  | paren t ht _ => exact ⟨Or.inr ⟨t, rfl, ht⟩, by simp [PT.tail]⟩
  | bin l o r _ _ _ ho _ _ ihl ihr =>
    refine ⟨ihl.1, ?_⟩
    intro oq hoq
    simp only [PT.tail, List.mem_append, List.mem_cons] at hoq
    rcases hoq with h | rfl | h
    · exact ihl.2 oq h
    · exact ⟨ho, ihr.1⟩
    · exact ihr.2 oq h

theorem ok_canon {p : PT} (h : PT.Ok p) : Canon p.toE := by
  induction h with
  | leaf a _ => exact .atom _
  | paren t _ _ => exact .atom _
  | bin l o r _ _ _ _ hl hr ihl ihr =>
    simp only [PT.toE]
    split
    · exact .bin ihl (.atom _) hl (okR_atom _ _)
    · rename_i hna
      exact .bin ihl ihr hl (hr (by simpa using hna))

theorem erase_fold (p : PT) : p.erase = E.fold PT.erase Term.binop p.toE := by
  induction p with
  | leaf a => rfl
  | paren t _ => rfl
  | bin l o r ihl ihr =>
    simp only [PT.toE]
    split
    · simp only [PT.erase, E.fold, ihl]
    · simp only [PT.erase, E.fold, ihl, ihr]

theorem wrapAs_plain (tl : List (BinOp × Term)) (h : ∀ ot ∈ tl, ot.1.isAs = false) : wrapAs tl = tl := by
  induction tl with
  | nil => rfl
  | cons hd tl ih =>
    obtain ⟨o, t⟩ := hd
    have ho : o.isAs = false := h (o, t) (by simp)
    simp only [wrapAs, ho, Bool.false_eq_true, if_false]
    rw [ih (fun ot hot => h ot (by simp [hot]))]

theorem wrapAs_append_plain (a b : List (BinOp × Term)) (h : ∀ ot ∈ a, ot.1.isAs = false) :
    wrapAs (a ++ b) = a ++ wrapAs b := by
  induction a with
  | nil => rfl
  | cons hd tl ih =>
    obtain ⟨o, t⟩ := hd
    have ho : o.isAs = false := h (o, t) (by simp)
    simp only [List.cons_append, wrapAs, ho, Bool.false_eq_true, if_false]
    rw [ih (fun ot hot => h ot (by simp [hot]))]

def eraseTail (tl : List (BinOp × PT)) : List (BinOp × Term) := tl.map fun oq => (oq.1, oq.2.erase)

theorem eraseTail_append (a b : List (BinOp × PT)) : eraseTail (a ++ b) = eraseTail a ++ eraseTail b := by
  simp [eraseTail]

theorem tail_plain (p : PT) (h : p.openAs = false) : ∀ ot ∈ eraseTail p.tail, ot.1.isAs = false := by
  induction p with
  | leaf a => simp [PT.tail, eraseTail]
  | paren t _ => simp [PT.tail, eraseTail]
  | bin l o r ihl ihr =>
    obtain ⟨ho, hl, hr⟩ := openAs_bin h
    intro ot hot
    simp only [PT.tail, eraseTail_append, List.mem_append] at hot
    rcases hot with hot | hot
    · exact ihl hl ot hot
    · simp only [eraseTail, List.map_cons, List.mem_cons] at hot
      rcases hot with rfl | hot
      · exact ho
      · exact ihr hr ot hot

/-- `Term::climb` on the in-order sequence of a well-parenthesised tree gives the tree: up to the
first unparenthesised binding the table decides; the binding takes everything to its right -/
theorem climb_erase_aux : ∀ (n : Nat) (p : PT), p.size ≤ n → PT.Ok p →
    Term.climb p.head.erase (eraseTail p.tail) = p.erase ∧
    wrapAs (eraseTail p.tail) = mapTail (E.fold PT.erase Term.binop) (flat p.toE).2 ∧
    (flat p.toE).1 = .atom p.head := by
  intro n
  induction n with
  | zero => intro p hp; cases p <;> simp [PT.size] at hp <;> omega
  | succ n ih =>
    intro p hp hok
    have hW : wrapAs (eraseTail p.tail) = mapTail (E.fold PT.erase Term.binop) (flat p.toE).2 ∧
        (flat p.toE).1 = .atom p.head := by
      cases hok with
      | leaf a _ => exact ⟨rfl, rfl⟩
      | paren t _ => exact ⟨rfl, rfl⟩
      | bin l o r hl hr hlo ho hokl hokr =>
        simp only [PT.size] at hp
        obtain ⟨_, hWl, hHl⟩ := ih l (by omega) hl
        obtain ⟨hMr, hWr, hHr⟩ := ih r (by omega) hr
        have hlp := tail_plain l hlo
        rw [wrapAs_plain _ hlp] at hWl
        simp only [PT.tail, PT.head, eraseTail_append, PT.toE]
        rw [wrapAs_append_plain _ _ hlp]
        split
        · rename_i hisas
          refine ⟨?_, by simp only [flat]; exact hHl⟩
          have e : eraseTail ((o, r.head) :: r.tail) = (o, r.head.erase) :: eraseTail r.tail := rfl
          rw [e]
          simp only [wrapAs, hisas, if_true, flat, mapTail, List.map_append, List.map_cons, List.map_nil, E.fold]
          have hMr' : climb Term.binop r.head.erase (wrapAs (eraseTail r.tail)) = r.erase := hMr
          rw [hMr']
          congr 1
        · rename_i hnot
          have hisas : o.isAs = false := by simpa using hnot
          refine ⟨?_, by simp only [flat]; exact hHl⟩
          have e : eraseTail ((o, r.head) :: r.tail) = (o, r.head.erase) :: eraseTail r.tail := rfl
          rw [e]
          simp only [wrapAs, hisas, Bool.false_eq_true, if_false, flat, mapTail, List.map_append, List.map_cons]
          rw [hWr, hHr]
          congr 1
    refine ⟨?_, hW.1, hW.2⟩
    have hf := climb_fold PT.erase Term.binop (flat p.toE).1 (flat p.toE).2
    have hflat := climb_flat raLvl p.toE (ok_canon hok) (fun o _ => binop_homogeneous o)
    rw [hflat] at hf
    unfold Term.climb
    rw [hW.1, erase_fold p, ← hf, hW.2]
    rfl

theorem climb_erase {p : PT} (h : PT.Ok p) :
    Term.climb p.head.erase (p.tail.map fun oq => (oq.1, oq.2.erase)) = p.erase :=
  (climb_erase_aux p.size p (Nat.le_refl _) h).1

/-! ### the parser on printed trees -/

theorem follow_tail (tl : List (BinOp × PT)) (hpl : ∀ oq ∈ tl, oq.1.printable) {rest : List Token} (hr : Closing rest) :
    Follow (tailToks tl ++ rest) := by
  cases tl with
  | nil => simpa [tailToks] using closing_follow hr
  | cons hd tl =>
    obtain ⟨o, q⟩ := hd
    obtain ⟨t, r, ht, hs⟩ := toks_head_stop o (hpl (o, q) (by simp))
    simp only [tailToks, ht, List.cons_append, Follow]
    exact hs

theorem opAtoms_tail (M : Nat) (tl : List (BinOp × PT)) {rest : List Token} (hr : Closing rest)
    (hall : ∀ oq ∈ tl, oq.1.printable ∧ ∀ g, M ≤ g → ∀ rest', Follow rest' →
      atom g (oq.2.toks ++ rest') = some (oq.2.erase, rest')) :
    ∀ G acc, tl.length + M + 2 ≤ G →
      opAtoms G true (tailToks tl ++ rest) acc = some (acc ++ tl.map (fun oq => (oq.1, oq.2.erase)), rest) := by
  induction tl with
  | nil =>
    intro G acc hG
    obtain ⟨g, rfl⟩ : ∃ g, G = g + 2 := ⟨G - 2, by simp at hG; omega⟩
    simp [tailToks, opAtoms, op_closing g hr]
  | cons hd tl ih =>
    intro G acc hG
    obtain ⟨o, q⟩ := hd
    obtain ⟨g, rfl⟩ : ∃ g, G = g + 3 := ⟨G - 3, by simp at hG; omega⟩
    have ho := (hall (o, q) (by simp)).1
    have hq := (hall (o, q) (by simp)).2
    have hall' : ∀ oq ∈ tl, oq.1.printable ∧ ∀ g, M ≤ g → ∀ rest', Follow rest' →
        atom g (oq.2.toks ++ rest') = some (oq.2.erase, rest') := fun oq h => hall oq (by simp [h])
    have hfol : Follow (tailToks tl ++ rest) := follow_tail tl (fun oq h => (hall' oq h).1) hr
    simp only [List.length_cons] at hG
    have hatom := hq (g + 2) (by omega) (tailToks tl ++ rest) hfol
    have hrec := ih hall' (g + 2) (acc ++ [(o, q.erase)]) (by omega)
    simp only [tailToks, List.append_assoc]
    rw [opAtoms, op_toks g o ho]
    simp only [hatom, hrec, List.map_cons, List.append_assoc, List.singleton_append]

/-- **the model parser inverts the printer**: for every tree and every parenthesisation that
includes the required ones, with any fuel ≥ 9 · size -/
theorem term_toks : ∀ (n : Nat) (p : PT), p.size ≤ n → PT.Ok p → ∀ F, 9 * p.size ≤ F →
    ∀ rest, Closing rest → term F (p.toks ++ rest) = some (p.erase, rest) := by
  intro n
  induction n with
  | zero => intro p hp; cases p <;> simp [PT.size] at hp <;> omega
  | succ n ih =>
    intro p hp hok F hF rest hrest
    have hops := ok_operands hok
    have hsz := size_operand p
    have hpos := size_pos p
    have hhpos := size_pos p.head
    -- every operand parses as an atom, with any fuel ≥ M
    have hoperand : ∀ q, OperandOk q → p.tail.length + q.size ≤ p.size →
        ∀ g, 9 * p.size - p.tail.length - 4 ≤ g → ∀ rest', Follow rest' →
        atom g (q.toks ++ rest') = some (q.erase, rest') := by
      intro q hq hqs g hg rest' hfol
      rcases hq with ⟨a, rfl, ha⟩ | ⟨t, rfl, ht⟩
      · simp only [PT.size] at hqs
        obtain ⟨f, rfl⟩ : ∃ f, g = f + 5 := ⟨g - 5, by omega⟩
        simpa [PT.toks, PT.erase] using atom_leaf f a ha hfol
      · simp only [PT.size] at hqs
        obtain ⟨f, rfl⟩ : ∃ f, g = f + 5 := ⟨g - 5, by omega⟩
        have hin := ih t (by omega) ht (f + 3) (by omega) [.sym [')']] (by simp [Closing])
        simpa [PT.toks, PT.erase] using atom_paren f t.toks t.erase hfol hin
    obtain ⟨f, rfl⟩ : ∃ f, F = f + 2 := ⟨F - 2, by have := hsz.1; omega⟩
    have hpl : ∀ oq ∈ p.tail, oq.1.printable := fun oq h => (hops.2 oq h).1
    have hfol : Follow (tailToks p.tail ++ rest) := follow_tail p.tail hpl hrest
    have hhead := hoperand p.head hops.1 hsz.1 f (by omega) (tailToks p.tail ++ rest) hfol
    have htail := opAtoms_tail (9 * p.size - p.tail.length - 4) p.tail hrest
      (fun oq h => ⟨(hops.2 oq h).1, hoperand oq.2 (hops.2 oq h).2 (hsz.2 oq h)⟩) f [] (by have := hsz.1; omega)
    rw [toks_head_tail p, List.append_assoc]
    simp only [term, termWithComma, hhead, htail, List.nil_append, climb_erase hok]

theorem sizes_append (a b : List Token) : Token.sizes (a ++ b) = Token.sizes a + Token.sizes b := by
  induction a with
  | nil => simp [Token.sizes]
  | cons t a ih => simp [Token.sizes, ih]; omega

theorem size_le_sizes {p : PT} (h : PT.Ok p) : p.size ≤ Token.sizes p.toks := by
  induction h with
  | leaf a _ => cases a <;> simp [PT.size, PT.toks, Leaf.tok, Token.sizes, Token.size]
  | paren t _ ih => simp [PT.size, PT.toks, Token.sizes, Token.size, sizes_append]; omega
  | bin l o r _ _ _ ho _ _ ihl ihr =>
    obtain ⟨t, r', ht, hs⟩ := toks_head_stop o ho
    have h1 : 1 ≤ Token.sizes o.toks := by
      rw [ht]; cases t <;> simp [Token.sizes, Token.size, stopTok] at hs ⊢ <;> omega
    simp only [PT.size, PT.toks, sizes_append]; omega

/-! ### the model's table, for comparison with the generated matrix -/

/-- the model's operators, in the order of the tables (Spec.specNames) -/
def modelOps : List BinOp := [
  .pipe none, .comma, .pipe (some (.var ['$', 'x'])),
  .assign, .update, .updateMath .add, .updateMath .sub, .updateMath .mul, .updateMath .div, .updateMath .rem, .updateAlt,
  .alt, .or, .and, .cmp .eq, .cmp .ne, .cmp .lt, .cmp .le, .cmp .gt, .cmp .ge,
  .math .add, .math .sub, .math .mul, .math .div, .math .rem]

/-- how the model's `Term::climb` groups `a opᵢ b opⱼ c` (`true`: to the right) -/
def modelGroup (i j : Nat) : Option Bool := do
  let o1 ← modelOps[i]?
  let o2 ← modelOps[j]?
  match Term.climb (.call ['a'] []) [(o1, .call ['b'] []), (o2, .call ['c'] [])] with
  | .binop (.call _ _) _ (.binop _ _ _) => some true
  | .binop (.binop _ _ _) _ (.call _ _) => some false
  | _ => none

/-- evaluation of the parser on (schematic) token lists -/
macro "parse_eval" : tactic => `(tactic|
  simp_all (config := {maxSteps := 2000000}) [parseToks, parseFuel, Token.sizes, Token.size, SPart.sizes, verifyLast, term, termWithComma, opAtoms, op,
    atom, atomHead, Token.is, Token.simple?, kw, path, pathParts, pathPartOpt, pathPart, pathLoop, dot, opt,
    Term.fromStr, strKey, strParts, args, many1, many1Loop, objItems, objEntry, char0, just, pVar,
    ifThen, elifs, defs, defTail, defArg, pattern, patObjEntry, containsColons, isAtomKeyword,
    Term.climb, wrapAs, climb, outer, inner, PrecOp.prec, PrecOp.ra, BinOp.prec, BinOp.ra, BinOp.isAs, opTable, List.lookup])

end Jaq.C15
