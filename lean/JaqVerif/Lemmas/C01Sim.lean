/-
  C01 — the refinement: whatever the definitional semantics computes with fuel `n` (a complete
  outcome or a prefix), the Machine model computes on the compiled table with enough fuel.
  Induction on the fuel of the semantics, `cases` on the term; the statement is the prefix
  refinement `Pre` (DESIGN Appendix A, 1b).
-/
import JaqVerif.Lemmas.C01Frame

namespace Jaq.Core
open Jaq

variable {pe : Bool}

/-- the Machine with `cartesian` as the manual prescribes (see `MCfg`) -/
def cfgF : MCfg := { cartDropsErr := false }

theorem run_succ {tabf : List CTerm} {id : TermId} {c : CTerm} (h : tabf[id]? = some c) (k L : Nat) (e : MEnv) (v : Val) :
    run cfgF tabf (k+1) L e id v = step cfgF (run cfgF tabf k) L e c v := by
  rw [run]; simp only [h]

theorem bind_singleton {α β : Type} (a : α) (f : α → OutG β) : OutG.bind [a] .done f = f a := by
  simp only [OutG.bind]
  cases h : (f a).stop <;> simp only []
  · cases hfa : f a with | mk vs s => simp [hfa] at h ⊢; exact h.symm

theorem bind_map {α β : Type} (vs : List α) (s : Stop) (g : α → β) :
    OutG.bind vs s (fun w => (OutG.done [g w] : OutG β)) = ⟨vs.map g, s⟩ := by
  induction vs with
  | nil => rfl
  | cons v vs ih => simp only [OutG.bind, OutG.done] at ih ⊢; simp [ih]

/-- pointwise relation of two lists of the same length -/
inductive All2 {α β : Type} (R : α → β → Prop) : List α → List β → Prop where
  | nil : All2 R [] []
  | cons {a b as bs} : R a b → All2 R as bs → All2 R (a :: as) (b :: bs)

theorem compiledI_it {pe : Bool} {tabf : List CTerm} {loc : Locals} {tr : Tr} {t : Term} {st st3 : St} {k : Nat}
    (_hfr : inFragment pe t = true) (hlater : Ext (it (cxMain pe) loc tr t st).2.2 st3) (hk : k ≤ st.terms.length)
    (hag : AgreeFrom k st3.terms tabf) : CompiledI pe tabf loc t (it (cxMain pe) loc tr t st).1 :=
  compiledI_of_step (c := (term (cxMain pe) loc tr t (st.insert .id).2).1)
    (tr' := (term (cxMain pe) loc tr t (st.insert .id).2).2.1) (st1 := (term (cxMain pe) loc tr t (st.insert .id).2).2.2)
    rfl (term_ext _ _ _ _ _) hlater hk hag

theorem it_ext' {pe : Bool} {loc tr t st} (_hfr : inFragment pe t = true) : Ext st (it (cxMain pe) loc tr t st).2.2 :=
  it_extA

theorem itermList_ext {pe : Bool} {loc : Locals} (as : List Term) (_h : inFragmentList pe as = true) (st : St) :
    Ext st (itermList (cxMain pe) loc as st).2 := itermList_extA _ _ _ _

theorem compileDefs_ext {pe : Bool} {tr : Tr} (ds : List Def) (_h : inFragmentDefs pe ds = true) (loc : Locals) (st : St) :
    Ext st (compileDefs (cxMain pe) loc tr ds st).2 := compileDefs_extA _ _ _ _ _

/-- arguments of a call, compiled in order -/
theorem itermList_spec {tabf : List CTerm} {loc : Locals} : ∀ (as : List Term) (st st3 : St) (k : Nat),
    inFragmentList pe as = true → Ext (itermList (cxMain pe) loc as st).2 st3 → k ≤ st.terms.length →
    AgreeFrom k st3.terms tabf →
    All2 (fun a i => CompiledI pe tabf loc a i ∧ inFragment pe a = true) as (itermList (cxMain pe) loc as st).1 := by
  intro as
  induction as with
  | nil => intro st st3 k _ _ _ _; rw [itermList_nil]; exact All2.nil
  | cons a as ih =>
    intro st st3 k hfr hl hk hag
    simp only [inFragmentList, Bool.and_eq_true] at hfr
    rw [itermList_cons] at hl ⊢
    refine All2.cons ⟨compiledI_it hfr.1 (Ext.trans (itermList_ext as hfr.2 _) hl) hk hag, hfr.1⟩ ?_
    exact ih _ st3 k hfr.2 hl (Nat.le_trans hk (it_ext' hfr.1).len) hag

/-- definitions of one `def … ; … ;` group extend the invariant -/
theorem defs_rel {tabf : List CTerm} {tr : Tr} : ∀ (ds : List Def) (σ : Env) (loc : Locals) (e : MEnv) (st st3 : St) (k : Nat),
    inFragmentDefs pe ds = true → Rel pe tabf σ loc e → Ext (compileDefs (cxMain pe) loc tr ds st).2 st3 →
    k ≤ st.terms.length → AgreeFrom k st3.terms tabf →
    Rel pe tabf (ds.foldl (fun ρ d => .defn d ρ :: ρ) σ) (compileDefs (cxMain pe) loc tr ds st).1 e := by
  intro ds
  induction ds with
  | nil => intro σ loc e st st3 k _ hrel _ _ _; rw [compileDefs_nil]; exact hrel
  | cons d ds ih =>
    intro σ loc e st st3 k hfr hrel hl hk hag
    obtain ⟨name, params, body⟩ := d
    simp only [inFragmentDefs, Bool.and_eq_true] at hfr
    rw [compileDefs_cons] at hl ⊢
    simp only [List.foldl_cons]
    have hname : name ≠ emptyName := by simpa using hfr.1.1.1
    have hparams : ∀ p ∈ params, p ≠ emptyName := by simpa using hfr.1.1.2
    have hdef : DefOK pe tabf (.mk name params body) loc st.terms.length := by
      refine ⟨?_, hfr.1.2, hparams⟩
      exact compiledI_of_step (c := (term (cxMain pe) _ _ body (st.insert .id).2).1)
        (tr' := (term (cxMain pe) _ _ body (st.insert .id).2).2.1) (st1 := (term (cxMain pe) _ _ body (st.insert .id).2).2.2)
        rfl (term_ext _ _ _ _ _) (Ext.trans (compileDefs_ext ds hfr.2 _ _) hl) hk hag
    refine ih _ _ e _ st3 k hfr.2 (Rel.sib (d := .mk name params body) hrel hdef hname) hl ?_ hag
    rw [St.set_terms_len]
    exact Nat.le_trans hk (Nat.le_trans (Ext.insert st .id).len (term_ext _ _ _ _ _).len)

/-! ### binding the arguments of a call -/

/-- what `push_parent` pushes for the parameters -/
def pushParams (l : Locals) (sig : List (ArgK String)) : Locals :=
  sig.foldl (fun l a => match a with | .var v => l.pushBind (.var v) | .fn f => l.pushArg f) l

theorem args_sim {tabf : List CTerm} (n L : Nat) (σ : Env) (loc : Locals) (e : MEnv) (v : Val)
    (hrel : Rel pe tabf σ loc e) (loc0 : Locals) (e0 : MEnv) (k : Env → Out) (k' : Nat → MEnv → Out)
    (ihI : ∀ (t : Term) (id : TermId), inFragment pe t = true → CompiledI pe tabf loc t id →
      ∃ m, ∀ m' ≥ m, Pre (eval n L σ t v) (run cfgF tabf m' L e id v)) :
    ∀ (ps : List String) (as : List Term) (ids : List TermId) (ρa : Env) (la : Locals) (ea : MEnv),
    (∀ p ∈ ps, p ≠ emptyName) →
    All2 (fun a i => CompiledI pe tabf loc a i ∧ inFragment pe a = true) as ids → as.length = ps.length →
    Rel pe tabf ρa la ea → loc0.total ≤ la.total → ea.drop (la.total - loc0.total) = e0 →
    (∀ ρb eb, Rel pe tabf ρb (pushParams la (sigOf ps)) eb → loc0.total ≤ (pushParams la (sigOf ps)).total →
      eb.drop ((pushParams la (sigOf ps)).total - loc0.total) = e0 → ∃ m, ∀ m' ≥ m, Pre (k ρb) (k' m' eb)) →
    ∃ m, ∀ m' ≥ m, Pre (bindArgs (eval n L σ) σ v k ps as ρa)
      (bindVars (run cfgF tabf m' L e) e v (k' m') (Locals.binds (sigOf ps) ids) ea) := by
  intro ps
  induction ps with
  | nil =>
    intro as ids ρa la ea hps hall hlen hra hle hdrop hk
    cases as with
    | cons _ _ => simp at hlen
    | nil =>
      cases hall
      obtain ⟨m, hm⟩ := hk ρa ea (by simpa [pushParams, sigOf] using hra) (by simpa [pushParams, sigOf] using hle)
        (by simpa [pushParams, sigOf] using hdrop)
      refine ⟨m, fun m' hm' => ?_⟩
      simp only [bindArgs, sigOf, List.map_nil, Locals.binds, List.zip_nil_left, bindVars]
      exact hm m' hm'
  | cons p ps ih =>
    intro as ids ρa la ea hps hall hlen hra hle hdrop hk
    cases as with
    | nil => simp at hlen
    | cons a as =>
      cases hall with
      | @cons _ i _ ids' hai hrest =>
        simp only [List.length_cons, Nat.add_right_cancel_iff] at hlen
        by_cases hv : isVarName p = true
        · -- `$`-parameter: one binding per output of the argument
          have hsig : sigOf (p :: ps) = .var p :: sigOf ps := by simp [sigOf, hv]
          obtain ⟨m1, h1⟩ := ihI a i hai.2 hai.1
          have hstep : ∀ w, ∃ m, ∀ m' ≥ m, Pre (bindArgs (eval n L σ) σ v k ps as (.var p w :: ρa))
              (bindVars (run cfgF tabf m' L e) e v (k' m') (Locals.binds (sigOf ps) ids') (.val w :: ea)) := by
            intro w
            refine ih as ids' _ (la.pushBind (.var p)) _ (fun q hq => hps q (by simp [hq])) hrest hlen (Rel.v hra) (by simp [Locals.pushBind]; omega) ?_ ?_
            · have : (la.pushBind (.var p)).total - loc0.total = (la.total - loc0.total) + 1 := by
                simp [Locals.pushBind]; omega
              rw [this]; simpa using hdrop
            · intro ρb eb h1 h2 h3
              exact hk ρb eb (by rw [hsig]; simpa [pushParams] using h1) (by rw [hsig]; simpa [pushParams] using h2)
                (by rw [hsig]; simpa [pushParams] using h3)
          obtain ⟨m2, h2⟩ := uniform_fuel (P := fun m' w => Pre (bindArgs (eval n L σ) σ v k ps as (.var p w :: ρa))
              (bindVars (run cfgF tabf m' L e) e v (k' m') (Locals.binds (sigOf ps) ids') (.val w :: ea)))
            (eval n L σ a v).vals (fun w _ => hstep w)
          refine ⟨max m1 m2, fun m' hm' => ?_⟩
          rw [hsig]
          simp only [bindArgs, hv, if_true, Locals.binds, List.zip_cons_cons, List.map_cons, ArgK.setTo, bindVars]
          exact pre_bind' (h1 m' (by omega)) (h2 m' (by omega))
        · -- filter parameter: a closure over the caller's scope / environment
          have hsig : sigOf (p :: ps) = .fn p :: sigOf ps := by simp [sigOf, hv]
          obtain ⟨m, hm⟩ := ih as ids' (.arg p a σ :: ρa) (la.pushArg p) (.fn i e :: ea)
            (fun q hq => hps q (by simp [hq])) hrest hlen
            (Rel.a hra hrel hai (hps p (by simp))) (by simp [Locals.pushArg, Locals.pushBind]; omega)
            (by
              have : (la.pushArg p).total - loc0.total = (la.total - loc0.total) + 1 := by
                simp [Locals.pushArg, Locals.pushBind]; omega
              rw [this]; simpa using hdrop)
            (by
              intro ρb eb h1 h2 h3
              exact hk ρb eb (by rw [hsig]; simpa [pushParams] using h1) (by rw [hsig]; simpa [pushParams] using h2)
                (by rw [hsig]; simpa [pushParams] using h3))
          refine ⟨m, fun m' hm' => ?_⟩
          rw [hsig]
          simp only [bindArgs, hv, Locals.binds, List.zip_cons_cons, List.map_cons, ArgK.setTo, bindVars]
          exact hm m' hm'

/-! ### `reduce` / `foreach` over the outputs of `xs` -/

theorem fold_sim (upd : Env → Val → Out) (proj : Env → Val → Out) (upd' proj' : Nat → MEnv → Val → Out) (isR : Bool)
    (h : Env → MEnv) :
    ∀ (ρs : List Env) (s : Stop),
    (∀ ρx ∈ ρs, ∀ acc, ∃ m, ∀ m' ≥ m, Pre (upd ρx acc) (upd' m' (h ρx) acc)) →
    (∀ ρx ∈ ρs, ∀ acc, ∃ m, ∀ m' ≥ m, Pre (proj ρx acc) (proj' m' (h ρx) acc)) →
    ∀ acc, ∃ m, ∀ m' ≥ m, ∀ (es' : List MEnv) (s' : Stop), Pre (⟨ρs.map h, s⟩ : OutG MEnv) ⟨es', s'⟩ →
      Pre (foldSem upd proj isR ρs s acc) (foldM (upd' m') (proj' m') isR es' s' acc) := by
  intro ρs
  induction ρs with
  | nil =>
    intro s _ _ acc
    refine ⟨0, fun m' _ es' s' hp => ?_⟩
    by_cases hs : s = .fuel
    · subst hs
      simp only [foldSem]
      exact Pre.of_fuel rfl _ (List.nil_append _).symm
    · have := hp.1 hs
      simp only [List.map_nil, OutG.mk.injEq] at this
      obtain ⟨rfl, rfl⟩ := this
      cases s' <;> simp only [foldSem, foldM] <;> exact Pre.rfl' _
  | cons ρx ρs ih =>
    intro s hu hpj acc
    obtain ⟨m1, h1⟩ := hu ρx (by simp) acc
    have hrest := ih s (fun w hw => hu w (by simp [hw])) (fun w hw => hpj w (by simp [hw]))
    obtain ⟨m2, h2⟩ := uniform_fuel (P := fun m' y => ∀ (et' : List MEnv) (s' : Stop), Pre (⟨ρs.map h, s⟩ : OutG MEnv) ⟨et', s'⟩ →
        Pre (foldSem upd proj isR ρs s y) (foldM (upd' m') (proj' m') isR et' s' y))
      (upd ρx acc).vals (fun y _ => hrest y)
    obtain ⟨m3, h3⟩ := uniform_fuel (P := fun m' y => Pre (proj ρx y) (proj' m' (h ρx) y))
        (upd ρx acc).vals (fun y _ => hpj ρx (by simp) y)
    refine ⟨max m1 (max m2 m3), fun m' hm' es' s' hp => ?_⟩
    obtain ⟨r, hr⟩ := Pre.vals_prefix hp
    simp only at hr
    cases es' with
    | nil => simp at hr
    | cons e' et' =>
      simp only [List.map_cons, List.cons_append, List.cons.injEq] at hr
      obtain ⟨rfl, hvt⟩ := hr
      have hp' : Pre (⟨ρs.map h, s⟩ : OutG MEnv) ⟨et', s'⟩ := by
        refine ⟨fun hne => ?_, fun _ => ⟨r, hvt⟩⟩
        have := hp.1 hne
        simp only [List.map_cons, OutG.mk.injEq, List.cons.injEq, true_and] at this
        simp [this]
      simp only [foldSem, foldM]
      refine pre_bind' (h1 m' (by omega)) (fun y hy => ?_)
      cases isR with
      | true => simpa using h2 m' (by omega) y hy et' s' hp'
      | false =>
        simp only [Bool.false_eq_true, if_false]
        exact pre_append (h3 m' (by omega) y hy) (h2 m' (by omega) y hy et' s' hp')

end Jaq.Core
