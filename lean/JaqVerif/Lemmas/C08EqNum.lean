/-
  C08 helper lemmas, part 5 (round 2): numbers.  `==` on numbers agrees with `numCmp = .eq` on
  the property's domain; numbers that are `==` make the same `Hasher` calls (all representations);
  the conversion `i as f64` of a machine integer is finite and never the negative zero.
-/
import JaqVerif.Lemmas.C08Hash

namespace Jaq.C08
open Jaq

/-! ### `float_cmp = Equal` is symmetric -/

theorem F64.cmp_eq_of {x y : UInt64}
    (h : (F64.isZero x = true ∧ F64.isZero y = true) ∨ (x = y ∧ F64.isNaN x = false)) :
    F64.cmp x y = .eq := by
  unfold F64.cmp
  rcases h with ⟨zx, zy⟩ | ⟨rfl, nx⟩
  · simp [zx, zy]
  · simp [nx]

theorem F64.cmp_eq_symm {x y : UInt64} (h : F64.cmp x y = .eq) : F64.cmp y x = .eq := by
  apply F64.cmp_eq_of
  rcases cmp_eq_imp h with ⟨zx, zy⟩ | ⟨rfl, nx⟩
  · exact Or.inl ⟨zy, zx⟩
  · exact Or.inr ⟨rfl, nx⟩

theorem F64.cmp_eq_comm (x y : UInt64) : (F64.cmp x y = .eq) ↔ (F64.cmp y x = .eq) :=
  ⟨F64.cmp_eq_symm, F64.cmp_eq_symm⟩

theorem isZero_finite {x : UInt64} (h : F64.isZero x = true) : F64.isFinite x = true := by
  rcases isZero_cases h with rfl | rfl <;> decide

/-- a float that `float_cmp` calls equal to a finite one is finite -/
theorem finite_of_cmp_eq {x y : UInt64} (h : F64.cmp x y = .eq) (hx : F64.isFinite x = true) :
    F64.isFinite y = true := by
  rcases cmp_eq_imp h with ⟨_, zy⟩ | ⟨rfl, _⟩
  · exact isZero_finite zy
  · exact hx

/-! ### the conversion of an integer: shape of the result -/

/-- `roundRat neg n 1` for `n ≥ 1`: either the infinity of that sign, or a pattern whose
exponent field is at least 1022 (so it is neither zero nor subnormal) -/
theorem roundRat_int_shape (neg : Bool) (n : Nat) (h1 : 1 ≤ n) :
    F64.roundRat neg n 1 = F64.inf neg ∨
    ∃ bits : Nat, 1022 * 2 ^ 52 ≤ bits ∧ bits < 2047 * 2 ^ 52 ∧
      F64.roundRat neg n 1 = UInt64.ofNat (bits + (if neg then 2 ^ 63 else 0)) := by
  have hn : n ≠ 0 := by omega
  have hlo : 2 ^ n.log2 ≤ n := Nat.log2_self_le hn
  unfold F64.roundRat
  have hd : (1 : Nat).log2 = 0 := by decide
  have e0 : (n == 0 || (1:Nat) == 0) = false := by simp [hn]
  simp only [e0, hd]
  generalize n.log2 = L at *
  have a1 : Int.ofNat L - Int.ofNat 0 = (L : Int) := by simp
  have a2 : ((L : Int) ≥ 0) = True := by simp
  have a3 : (L : Int).toNat = L := by simp
  have a4 : decide (n ≥ 1 * 2 ^ L) = true := by simp; omega
  have a5 : ((L : Int) - 52 < -1074) = False := by simp; omega
  simp only [a1, a2, a3, a4, a5, if_true, if_false, Bool.false_eq_true]
  have b3 : ((L : Int) - 52 + 1074).toNat = L + 1022 := by omega
  simp only [b3]
  have lo : 1022 * 2 ^ 52 ≤ (L + 1022) * 2 ^ 52 := Nat.mul_le_mul_right _ (by omega)
  by_cases hge : (L : Int) - 52 ≥ 0
  · have b1 : ((L : Int) - 52 ≥ 0) = True := by simp; omega
    simp only [b1, if_true]
    generalize n / (1 * 2 ^ ((L : Int) - 52).toNat) = q
    generalize n % (1 * 2 ^ ((L : Int) - 52).toNat) = r
    generalize (1 * 2 ^ ((L : Int) - 52).toNat) = d
    generalize (if (decide (2 * r > d) || 2 * r == d && q % 2 == 1) = true then q + 1 else q) = Q
    by_cases hb : (L + 1022) * 2 ^ 52 + Q ≥ 2047 * 2 ^ 52
    · left; rw [if_pos hb]
    · right; rw [if_neg hb]
      have g1 : 1022 * 2 ^ 52 ≤ (L + 1022) * 2 ^ 52 + Q := Nat.le_trans lo (Nat.le_add_right _ _)
      have g2 : (L + 1022) * 2 ^ 52 + Q < 2047 * 2 ^ 52 := Nat.lt_of_not_ge hb
      exact ⟨_, g1, g2, rfl⟩
  · have b1 : ((L : Int) - 52 ≥ 0) = False := by simp; omega
    simp only [b1, if_false, Nat.div_one, Nat.mod_one]
    generalize n * 2 ^ (-((L : Int) - 52)).toNat = q
    generalize (if (decide (2 * 0 > 1) || 2 * 0 == 1 && q % 2 == 1) = true then q + 1 else q) = Q
    by_cases hb : (L + 1022) * 2 ^ 52 + Q ≥ 2047 * 2 ^ 52
    · left; rw [if_pos hb]
    · right; rw [if_neg hb]
      have g1 : 1022 * 2 ^ 52 ≤ (L + 1022) * 2 ^ 52 + Q := Nat.le_trans lo (Nat.le_add_right _ _)
      have g2 : (L + 1022) * 2 ^ 52 + Q < 2047 * 2 ^ 52 := Nat.lt_of_not_ge hb
      exact ⟨_, g1, g2, rfl⟩

theorem ofNat_toNat_lt {k : Nat} (h : k < 2 ^ 64) : (UInt64.ofNat k).toNat = k :=
  UInt64.toNat_ofNat_of_lt' (by simp [UInt64.size]; omega)

/-- **`i as f64` is never the negative zero** (needed so that an integer and a float that are
`==` hash alike even on a tree that does not normalise zero) -/
theorem ofInt_ne_negZero (i : Int) : F64.ofInt i ≠ F64.negZero := by
  unfold F64.ofInt
  by_cases hneg : i < 0
  · rw [if_pos hneg]
    rcases roundRat_int_shape true i.natAbs (by omega) with h | ⟨bits, b1, b2, h⟩
    · rw [h]; decide
    · rw [h]; intro hc
      have := congrArg UInt64.toNat hc
      simp only [if_true] at this
      rw [ofNat_toNat_lt (by omega)] at this
      have e : F64.negZero.toNat = 2 ^ 63 := by decide
      omega
  · rw [if_neg hneg]
    by_cases h0 : i.natAbs = 0
    · rw [h0]; decide
    · rcases roundRat_int_shape false i.natAbs (by omega) with h | ⟨bits, b1, b2, h⟩
      · rw [h]; decide
      · rw [h]; intro hc
        have := congrArg UInt64.toNat hc
        simp only [Bool.false_eq_true, if_false, Nat.add_zero] at this
        rw [ofNat_toNat_lt (by omega)] at this
        have e : F64.negZero.toNat = 2 ^ 63 := by decide
        omega

/-- the conversion of an integer is not NaN -/
theorem ofInt_not_nan (i : Int) : F64.isNaN (F64.ofInt i) = false := by
  have key : ∀ (neg : Bool) (n : Nat), F64.isNaN (F64.roundRat neg n 1) = false := by
    intro neg n
    by_cases h0 : n = 0
    · subst h0; cases neg <;> decide
    · rcases roundRat_int_shape neg n (by omega) with h | ⟨bits, b1, b2, h⟩
      · rw [h]; cases neg <;> decide
      · rw [h]
        unfold F64.isNaN F64.expField F64.fracField
        cases neg
        · simp only [Bool.false_eq_true, if_false, Nat.add_zero]
          rw [ofNat_toNat_lt (by omega)]
          have : bits / 2 ^ 52 % 2048 ≠ 2047 := by omega
          simp [this]
        · simp only [if_true]
          rw [ofNat_toNat_lt (by omega)]
          have : (bits + 2 ^ 63) / 2 ^ 52 % 2048 ≠ 2047 := by omega
          simp [this]
  unfold F64.ofInt
  split <;> exact key _ _

/-- the conversion of an integer below `2^1023` in magnitude is finite; in particular the
conversion of every machine integer (`isize`) -/
theorem ofInt_finite_of_lt (i : Int) (h : i.natAbs < 2 ^ 1023) : F64.isFinite (F64.ofInt i) = true := by
  have key : ∀ (neg : Bool) (n : Nat), n < 2 ^ 1023 → F64.isFinite (F64.roundRat neg n 1) = true := by
    intro neg n hlt
    by_cases h0 : n = 0
    · subst h0; cases neg <;> decide
    have hn : n ≠ 0 := h0
    have hL : n.log2 < 1023 := (Nat.log2_lt hn).2 hlt
    have hlo : 2 ^ n.log2 ≤ n := Nat.log2_self_le hn
    have hhi : n < 2 ^ (n.log2 + 1) := Nat.lt_log2_self
    unfold F64.roundRat
    have hd : (1 : Nat).log2 = 0 := by decide
    have e0 : (n == 0 || (1:Nat) == 0) = false := by simp [hn]
    simp only [e0, hd]
    generalize n.log2 = L at *
    have a1 : Int.ofNat L - Int.ofNat 0 = (L : Int) := by simp
    have a2 : ((L : Int) ≥ 0) = True := by simp
    have a3 : (L : Int).toNat = L := by simp
    have a4 : decide (n ≥ 1 * 2 ^ L) = true := by simp; omega
    have a5 : ((L : Int) - 52 < -1074) = False := by simp; omega
    simp only [a1, a2, a3, a4, a5, if_true, if_false, Bool.false_eq_true]
    have b3 : ((L : Int) - 52 + 1074).toNat = L + 1022 := by omega
    simp only [b3]
    -- the quotient is below 2^53, so after rounding up at most 2^53
    have fin : ∀ q : Nat, q ≤ 2 ^ 53 → ((L + 1022) * 2 ^ 52 + q ≥ 2047 * 2 ^ 52) = False := by
      intro q hq
      have : (L + 1022) * 2 ^ 52 ≤ 2044 * 2 ^ 52 := Nat.mul_le_mul_right _ (by omega)
      simp; omega
    have isfin : ∀ bits : Nat, bits < 2047 * 2 ^ 52 →
        F64.isFinite (UInt64.ofNat (bits + (if neg then 2 ^ 63 else 0))) = true := by
      intro bits hb
      unfold F64.isFinite F64.expField
      cases neg
      · simp only [Bool.false_eq_true, if_false, Nat.add_zero]
        rw [ofNat_toNat_lt (by omega)]
        have : bits / 2 ^ 52 % 2048 ≠ 2047 := by omega
        simp [this]
      · simp only [if_true]
        rw [ofNat_toNat_lt (by omega)]
        have : (bits + 2 ^ 63) / 2 ^ 52 % 2048 ≠ 2047 := by omega
        simp [this]
    by_cases hge : (L : Int) - 52 ≥ 0
    · have b1 : ((L : Int) - 52 ≥ 0) = True := by simp; omega
      have b2 : ((L : Int) - 52).toNat = L - 52 := by omega
      simp only [b1, b2, if_true, Nat.one_mul]
      have hq : n / 2 ^ (L - 52) < 2 ^ 53 := by
        apply Nat.div_lt_of_lt_mul
        calc n < 2 ^ (L + 1) := hhi
          _ = 2 ^ (L - 52) * 2 ^ 53 := by rw [← Nat.pow_add]; congr 1; omega
      generalize n / 2 ^ (L - 52) = q at *
      generalize n % 2 ^ (L - 52) = r at *
      split
      · simp only [fin (q + 1) (by omega), if_false]
        exact isfin _ (by have := fin (q + 1) (by omega); simp at this; omega)
      · simp only [fin q (by omega), if_false]
        exact isfin _ (by have := fin q (by omega); simp at this; omega)
    · have b1 : ((L : Int) - 52 ≥ 0) = False := by simp; omega
      have b2 : (-((L : Int) - 52)).toNat = 52 - L := by omega
      simp only [b1, b2, if_false, Nat.div_one, Nat.mod_one]
      have c1 : (decide (2 * 0 > 1) || 2 * 0 == 1 && n * 2 ^ (52 - L) % 2 == 1) = false := by simp
      have hq2 : n * 2 ^ (52 - L) < 2 ^ 53 := by
        calc n * 2 ^ (52 - L) < 2 ^ (L + 1) * 2 ^ (52 - L) :=
              Nat.mul_lt_mul_of_pos_right hhi (Nat.pow_pos (by decide))
          _ = 2 ^ 53 := by rw [← Nat.pow_add]; congr 1; omega
      simp only [c1, Bool.false_eq_true, if_false]
      simp only [fin (n * 2 ^ (52 - L)) (by omega), if_false]
      exact isfin _ (by have := fin (n * 2 ^ (52 - L)) (by omega); simp at this; omega)
  unfold F64.ofInt
  split <;> exact key _ _ h

set_option exponentiation.threshold 1100 in
theorem ofInt_finite_of_wf (i : Int) (h : fitsIsize i = true) : F64.isFinite (F64.ofInt i) = true := by
  apply ofInt_finite_of_lt
  simp [fitsIsize, isizeMin, isizeMax] at h
  have h1 := of_decide_eq_true h.1
  have h2 := of_decide_eq_true h.2
  have : (2:Nat) ^ 64 ≤ 2 ^ 1023 := Nat.pow_le_pow_right (by decide) (by decide)
  omega

/-! ### `==` on numbers agrees with the order -/

theorem int_beq_iff_compare (x y : Int) : (x == y) = true ↔ compare x y = .eq := by
  rw [beq_iff_eq]
  rcases Int.lt_trichotomy x y with h | h | h
  · rw [Int.compare_eq_lt.2 h]; constructor
    · intro e; omega
    · intro e; cases e
  · subst h; simp
  · rw [Int.compare_eq_gt.2 h]; constructor
    · intro e; omega
    · intro e; cases e

theorem finite_of_not_nan_inf {f : UInt64} (h1 : F64.isNaN f = false) (h2 : f ≠ F64.posInf) (h3 : f ≠ F64.negInf) :
    F64.isFinite f = true := by
  by_cases hi : F64.isInf f = true
  · rcases isInf_cases hi with h | h
    · exact absurd h h2
    · exact absurd h h3
  · simp only [F64.isFinite, F64.isNaN, F64.isInf, bne_iff_ne, ne_eq] at *
    intro he
    simp [he] at h1 hi
    exact hi h1

theorem not_nan_of_cmp_eq {x y : UInt64} (h : F64.cmp x y = .eq) : F64.isNaN y = false := by
  rcases cmp_eq_imp h with ⟨_, zy⟩ | ⟨rfl, nx⟩
  · rcases isZero_cases zy with rfl | rfl <;> decide
  · exact nx

theorem numEq_undec (a b : Num) : Num.eq a b = Num.eq (Num.undec a) (Num.undec b) := by
  unfold Num.eq
  simp only [undec_idem]

theorem convFinite_undec (n : Num) : Num.convFinite (Num.undec n) = Num.convFinite n := by
  cases n <;> simp [Num.undec, Num.ofDecStr, Num.convFinite]

theorem swap_eq_eq {o : Ordering} : o.swap = .eq ↔ o = .eq := by cases o <;> simp [Ordering.swap]

/-- integer against float, repaired arm: `==` iff `big_float_cmp` says `Equal` (no guard) -/
theorem big_float_eq_iff (i : Int) (f : UInt64) :
    (F64.isFinite f && F64.cmp (F64.ofInt i) f == .eq) = true ↔ bigFloatCmp i f = .eq := by
  rw [Bool.and_eq_true, beq_iff_eq]
  unfold bigFloatCmp
  constructor
  · intro ⟨hf, hc⟩
    have n1 : (f == F64.posInf) = false := by
      apply beq_eq_false_iff_ne.2; intro e; subst e; revert hf; decide
    have n2 : (f == F64.negInf) = false := by
      apply beq_eq_false_iff_ne.2; intro e; subst e; revert hf; decide
    simp [n1, n2, hc]
  · intro h
    by_cases e1 : f = F64.posInf
    · subst e1; simp at h
    by_cases e2 : f = F64.negInf
    · subst e2
      have : (F64.negInf == F64.posInf) = false := by decide
      simp [this] at h
    have n1 : (f == F64.posInf) = false := beq_eq_false_iff_ne.2 e1
    have n2 : (f == F64.negInf) = false := beq_eq_false_iff_ne.2 e2
    simp only [n1, n2, Bool.false_eq_true, if_false] at h
    exact ⟨finite_of_not_nan_inf (not_nan_of_cmp_eq h) e1 e2, h⟩

/-- integer against float, arm that converts first: `==` iff `float_cmp` says `Equal`, provided
the conversion of the integer is finite -/
theorem int_float_eq_iff (i : Int) (f : UInt64) (hi : F64.isFinite (F64.ofInt i) = true) :
    (F64.isFinite f && F64.cmp (F64.ofInt i) f == .eq) = true ↔ F64.cmp (F64.ofInt i) f = .eq := by
  rw [Bool.and_eq_true, beq_iff_eq]
  exact ⟨fun h => h.2, fun h => ⟨finite_of_cmp_eq h hi, h⟩⟩

/-- **`==` on numbers is `Ord` saying `Equal`**, for all representations, provided the integers
have a finite conversion (machine integers always; big integers need it only on a tree without
the repair of F-08b) -/
theorem numEq_iff_cmp {a b : Num} (ha : Num.convFinite a = true) (hb : Num.convFinite b = true) :
    Num.eq a b = true ↔ numCmp a b = .eq := by
  rw [numEq_undec, numCmp_undec]
  rw [← convFinite_undec] at ha hb
  by_cases hflag : Cfg.hugeIntBelowInfinity = true
  · rcases undec_cases a with ⟨i, ea⟩ | ⟨i, ea⟩ | ⟨f, ea⟩ <;>
    rcases undec_cases b with ⟨j, eb⟩ | ⟨j, eb⟩ | ⟨g, eb⟩ <;>
    rw [ea] at ha ⊢ <;> rw [eb] at hb ⊢ <;>
    simp only [Num.eq, numCmp, Num.cmp, Num.undec, hflag, if_true, Num.convFinite] at *
    · exact int_beq_iff_compare i j
    · exact int_beq_iff_compare i j
    · exact int_float_eq_iff i g ha
    · exact int_beq_iff_compare i j
    · exact int_beq_iff_compare i j
    · exact big_float_eq_iff i g
    · rw [F64.cmp_eq_comm]; exact int_float_eq_iff j f hb
    · rw [swap_eq_eq]; exact big_float_eq_iff j f
    · exact beq_iff_eq
  · have hflag' : Cfg.hugeIntBelowInfinity = false := by simpa using hflag
    rcases undec_cases a with ⟨i, ea⟩ | ⟨i, ea⟩ | ⟨f, ea⟩ <;>
    rcases undec_cases b with ⟨j, eb⟩ | ⟨j, eb⟩ | ⟨g, eb⟩ <;>
    rw [ea] at ha ⊢ <;> rw [eb] at hb ⊢ <;>
    simp only [Num.eq, numCmp, Num.cmp, Num.undec, hflag', Bool.false_eq_true, if_false,
      Num.convFinite, Bool.false_or] at *
    · exact int_beq_iff_compare i j
    · exact int_beq_iff_compare i j
    · exact int_float_eq_iff i g ha
    · exact int_beq_iff_compare i j
    · exact int_beq_iff_compare i j
    · exact int_float_eq_iff i g ha
    · rw [F64.cmp_eq_comm]; exact int_float_eq_iff j f hb
    · rw [F64.cmp_eq_comm]; exact int_float_eq_iff j f hb
    · exact beq_iff_eq

/-! ### numbers that are `==` make the same `Hasher` calls -/

theorem noNegZero_undec (n : Num) : Num.noNegZero (Num.undec n) = Num.noNegZero n := by
  cases n <;> simp [Num.undec, Num.ofDecStr, Num.noNegZero]

theorem numFeed_undec (n : Num) : numFeed (Num.undec n) = numFeed n := by
  cases n <;> simp [Num.undec, Num.ofDecStr, numFeed]

theorem negZero_guard {i : Int} {f : UInt64} (g : Num.noNegZero (.float f) = true) :
    Cfg.hashNormalisesZero = true ∨ (F64.ofInt i ≠ F64.negZero ∧ f ≠ F64.negZero) := by
  simp only [Num.noNegZero, Bool.or_eq_true, bne_iff_ne, ne_eq] at g
  rcases g with g | g
  · exact Or.inl g
  · exact Or.inr ⟨ofInt_ne_negZero i, g⟩

/-- **hash coherence of numbers**: two numbers that are `==` — whatever their representations
(machine integer, big integer, float, decimal literal) — make the same `Hasher` calls, provided
zero is normalised by `Num::hash` or neither is the negative zero (`Num.noNegZero`), and machine
integers have a finite conversion -/
theorem numFeed_coherent {a b : Num} (h : Num.eq a b = true)
    (ha : Num.convFinite a = true) (hb : Num.convFinite b = true)
    (ga : Num.noNegZero a = true) (gb : Num.noNegZero b = true) : numFeed a = numFeed b := by
  rw [numEq_undec] at h
  rw [← numFeed_undec a, ← numFeed_undec b]
  rw [← convFinite_undec] at ha hb
  rw [← noNegZero_undec] at ga gb
  rcases undec_cases a with ⟨i, ea⟩ | ⟨i, ea⟩ | ⟨f, ea⟩ <;>
  rcases undec_cases b with ⟨j, eb⟩ | ⟨j, eb⟩ | ⟨g, eb⟩ <;>
  rw [ea] at ha ga h ⊢ <;> rw [eb] at hb gb h ⊢ <;>
  simp only [Num.eq, Num.undec, Bool.and_eq_true, beq_iff_eq] at h
  · subst h; rfl
  · subst h; simp only [Num.convFinite] at ha; simp [numFeed, ha]
  · exact floatFeed_coherent h.2 (negZero_guard gb)
  · subst h; simp only [Num.convFinite] at hb; simp [numFeed, hb]
  · subst h; rfl
  · have hfin : F64.isFinite (F64.ofInt i) = true := finite_of_cmp_eq (F64.cmp_eq_symm h.2) h.1
    simp only [numFeed, hfin, if_true]
    exact floatFeed_coherent h.2 (negZero_guard gb)
  · exact (floatFeed_coherent h.2 (negZero_guard ga)).symm
  · have hfin : F64.isFinite (F64.ofInt j) = true := finite_of_cmp_eq (F64.cmp_eq_symm h.2) h.1
    simp only [numFeed, hfin, if_true]
    exact (floatFeed_coherent h.2 (negZero_guard ga)).symm
  · simp only [Num.noNegZero, Bool.or_eq_true, bne_iff_ne, ne_eq] at ga gb
    apply floatFeed_coherent h
    rcases ga with ga | ga
    · exact Or.inl ga
    · rcases gb with gb | gb
      · exact Or.inl gb
      · exact Or.inr ⟨ga, gb⟩

/-- `Num.inMode` gives the finite-conversion guard -/
theorem convFinite_of_inMode {m : Mode} {n : Num} (h : Num.inMode m n = true) : Num.convFinite n = true := by
  cases m
  · cases n with
    | int i =>
      simp only [Num.inMode, Num.nanFree, Num.smallInt, Bool.true_and, decide_eq_true_eq] at h
      exact ofInt_finite_of_lt i (by
        have : (2:Nat) ^ 53 < 2 ^ 1023 := Nat.pow_lt_pow_right (by decide) (by decide)
        omega)
    | big i =>
      simp only [Num.inMode, Num.nanFree, Num.smallInt, Bool.true_and, decide_eq_true_eq] at h
      simp only [Num.convFinite, Bool.or_eq_true]
      exact Or.inr (ofInt_finite_of_lt i (by
        have : (2:Nat) ^ 53 < 2 ^ 1023 := Nat.pow_lt_pow_right (by decide) (by decide)
        omega))
    | float f => rfl
    | dec s => rfl
  · simp only [Num.inMode, Bool.and_eq_true] at h; exact h.2

end Jaq.C08
