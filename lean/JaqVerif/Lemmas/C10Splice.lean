/-
  C10 helper lemmas, part 3: `bytes_splice` (resize / copy_within / copy_from_slice / truncate)
  computes the list splice.
-/
import JaqVerif.Lemmas.C10Chars

namespace Jaq
namespace C10

theorem take_append_exact {α : Type} (p r : List α) (n : Nat) (h : n = p.length) :
    (p ++ r).take n = p := by subst h; simp

theorem drop_append_exact {α : Type} (p r : List α) (n : Nat) (h : n = p.length) :
    (p ++ r).drop n = r := by subst h; simp

/-- moving the tail and copying the replacement, on any buffer `c` -/
theorem copy_steps (c : List UInt8) (skip s e : Nat) (y : List UInt8) (hd : skip + y.length ≤ c.length) :
    bCopyFrom (bCopyWithin c s e (skip + y.length)) skip y
      = c.take skip ++ y ++ ((c.drop s).take (e - s) ++ c.drop (skip + y.length + (e - s))) := by
  unfold bCopyFrom bCopyWithin
  have hl : (c.take (skip + y.length)).length = skip + y.length := by simp; omega
  have h1 : (c.take (skip + y.length) ++ (c.drop s).take (e - s) ++ c.drop (skip + y.length + (e - s))).take skip
      = c.take skip := by
    rw [List.append_assoc, List.take_append_of_le_length (by omega), List.take_take]
    congr 1; omega
  have h2 : (c.take (skip + y.length) ++ (c.drop s).take (e - s) ++ c.drop (skip + y.length + (e - s))).drop (skip + y.length)
      = (c.drop s).take (e - s) ++ c.drop (skip + y.length + (e - s)) := by
    rw [List.append_assoc]
    exact drop_append_exact _ _ _ hl.symm
  rw [h1, h2]

theorem bytesSplice_eq (b : List UInt8) (skip take : Nat) (y : List UInt8)
    (h : skip + take ≤ b.length) :
    bytesSplice b skip take y = b.take skip ++ y ++ b.drop (skip + take) := by
  unfold bytesSplice
  have hX : (b.drop (skip + take)).take (b.length - (skip + take)) = b.drop (skip + take) := by
    apply List.take_of_length_le; simp
  by_cases hg : y.length > take
  · have hl : ¬ y.length < take := by omega
    simp only [hg, hl, if_true, if_false]
    have hres : bResize b (b.length - take + y.length) = b ++ List.replicate (y.length - take) 0 := by
      unfold bResize
      have : ¬ (b.length - take + y.length ≤ b.length) := by omega
      rw [if_neg this]; congr 2; omega
    rw [hres]
    generalize hz : List.replicate (y.length - take) (0 : UInt8) = z
    have hzl : z.length = y.length - take := by rw [← hz]; simp
    rw [copy_steps _ _ _ _ _ (by simp only [List.length_append]; omega)]
    have e1 : (b ++ z).take skip = b.take skip := by
      rw [List.take_append_of_le_length (by omega)]
    have e2 : ((b ++ z).drop (skip + take)).take (b.length - (skip + take)) = b.drop (skip + take) := by
      rw [List.drop_append_of_le_length (by omega), List.take_append_of_le_length (by simp)]
      exact hX
    have e3 : (b ++ z).drop (skip + y.length + (b.length - (skip + take))) = [] := by
      apply List.drop_eq_nil_of_le; simp only [List.length_append]; omega
    rw [e1, e2, e3]; simp
  · by_cases hl : y.length < take
    · simp only [hg, hl, if_true, if_false]
      rw [copy_steps _ _ _ _ _ (by omega), hX]
      have : b.length - take + y.length = (b.take skip ++ y ++ b.drop (skip + take)).length := by
        simp only [List.length_append, List.length_take, List.length_drop]; omega
      rw [this, ← List.append_assoc, List.take_append_of_le_length (Nat.le_refl _), List.take_length]
    · simp only [hg, hl, if_false]
      rw [copy_steps _ _ _ _ _ (by omega), hX]
      have e3 : b.drop (skip + y.length + (b.length - (skip + take))) = [] := by
        apply List.drop_eq_nil_of_le; omega
      rw [e3]; simp

end C10
end Jaq
