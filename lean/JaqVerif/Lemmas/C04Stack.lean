/- C04 — lemmas about `Stack.turn`, `Fold.turn` and the list drop (see Props/C04.lean). -/
import JaqVerif.C04.Stack

namespace Jaq.C04

variable {I X : Type}

/-- the iterator still has an item -/
def Live (S : Iter I X) (it : I) : Prop := S.next it ≠ none

/-- `size_hint()` reports `(0, Some(0))` exactly for exhausted iterators -/
def HintExact (S : Iter I X) : Prop := ∀ it, S.hintZero it = true ↔ S.next it = none

/-- a tail call is the last item of the iterator that yields it -/
def Linear (S : Iter I X) (f : X → Flow X I) : Prop :=
  ∀ it x it' c, S.next it = some (x, it') → f x = .cont c → S.next it' = none

theorem mem_tail_mem {α : Type} {a : α} {l : List α} (h : a ∈ l.tail) : a ∈ l := by
  cases l with
  | nil => simp at h
  | cons x xs => simp at h; simp [h]

/-- the stack kept below the continuation / returned with the output -/
def keep (S : Iter I X) (top' : I) (rest : List I) : List I :=
  if S.hintZero top' = true then rest else top' :: rest

theorem turn_nil (S : Iter I X) (f : X → Flow X I) : Stack.turn S f [] = .done none [] := rfl

theorem turn_none (S : Iter I X) (f : X → Flow X I) {top : I} (rest : List I) (h : S.next top = none) :
    Stack.turn S f (top :: rest) = .again rest := by simp [Stack.turn, h]

theorem turn_brk (S : Iter I X) (f : X → Flow X I) {top top' : I} {x y : X} (rest : List I)
    (h : S.next top = some (x, top')) (hf : f x = .brk y) :
    Stack.turn S f (top :: rest) = .done (some y) (keep S top' rest) := by simp [Stack.turn, h, hf, keep]

theorem turn_cont (S : Iter I X) (f : X → Flow X I) {top top' c : I} {x : X} (rest : List I)
    (h : S.next top = some (x, top')) (hf : f x = .cont c) :
    Stack.turn S f (top :: rest) = .again (c :: keep S top' rest) := by simp [Stack.turn, h, hf, keep]

theorem turn_below_live (S : Iter I X) (f : X → Flow X I) (hx : HintExact S) (st : List I)
    (h : ∀ it ∈ st.tail, Live S it) : ∀ it ∈ (Stack.turn S f st).st.tail, Live S it := by
  cases st with
  | nil => simp [turn_nil, Step.st]
  | cons top rest =>
    simp only [List.tail_cons] at h
    cases hn : S.next top with
    | none => rw [turn_none S f rest hn]; intro it hit; exact h it (mem_tail_mem hit)
    | some p =>
      obtain ⟨x, top'⟩ := p
      have hst : ∀ it ∈ keep S top' rest, Live S it := by
        intro it hit
        unfold keep at hit
        by_cases hz : S.hintZero top' = true
        · rw [if_pos hz] at hit; exact h it hit
        · rw [if_neg hz] at hit
          rcases List.mem_cons.mp hit with rfl | hr
          · intro hnone; exact hz ((hx _).mpr hnone)
          · exact h it hr
      cases hf : f x with
      | brk y => rw [turn_brk S f rest hn hf]; intro it hit; exact hst it (mem_tail_mem hit)
      | cont c => rw [turn_cont S f rest hn hf]; exact hst

theorem turn_linear_len (S : Iter I X) (f : X → Flow X I) (hx : HintExact S) (hl : Linear S f)
    (st : List I) (h : st.length ≤ 1) : (Stack.turn S f st).st.length ≤ 1 := by
  cases st with
  | nil => simp [turn_nil, Step.st]
  | cons top rest =>
    have hr : rest = [] := by
      cases rest with
      | nil => rfl
      | cons a b => simp at h
    subst hr
    cases hn : S.next top with
    | none => rw [turn_none S f [] hn]; simp [Step.st]
    | some p =>
      obtain ⟨x, top'⟩ := p
      cases hf : f x with
      | brk y => rw [turn_brk S f [] hn hf]; simp only [Step.st, keep]; split <;> simp
      | cont c =>
        have hz : S.hintZero top' = true := (hx _).mpr (hl _ _ _ _ hn hf)
        rw [turn_cont S f [] hn hf]; simp [Step.st, keep, hz]

theorem turn_closed (S : Iter I X) (f : X → Flow X I) (P : I → Prop)
    (hres : ∀ it x it', S.next it = some (x, it') → P it → P it')
    (hcont : ∀ x c, f x = .cont c → P c) (st : List I) (h : ∀ it ∈ st, P it) :
    ∀ it ∈ (Stack.turn S f st).st, P it := by
  cases st with
  | nil => simp [turn_nil, Step.st]
  | cons top rest =>
    cases hn : S.next top with
    | none => rw [turn_none S f rest hn]; intro it hit; exact h it (List.mem_cons_of_mem _ hit)
    | some p =>
      obtain ⟨x, top'⟩ := p
      have hst : ∀ it ∈ keep S top' rest, P it := by
        intro it hit
        unfold keep at hit
        split at hit
        · exact h it (List.mem_cons_of_mem _ hit)
        · rcases List.mem_cons.mp hit with rfl | hr
          · exact hres _ _ _ hn (h _ (List.mem_cons_self ..))
          · exact h it (List.mem_cons_of_mem _ hr)
      cases hf : f x with
      | brk y => rw [turn_brk S f rest hn hf]; exact hst
      | cont c =>
        rw [turn_cont S f rest hn hf]
        intro it hit
        rcases List.mem_cons.mp hit with rfl | hr
        · exact hcont _ _ hf
        · exact hst it hr

theorem next_reach (S : Iter I X) (f : X → Flow X I) :
    ∀ (n : Nat) (st : List I) (r : Option X) (st' : List I),
      Stack.next S f n st = some (r, st') → Stack.Reach S f st st' := by
  intro n
  induction n with
  | zero => intro st r st' h; simp [Stack.next] at h
  | succ n ih =>
    intro st r st' h
    unfold Stack.next at h
    cases ht : Stack.turn S f st with
    | done r0 s0 =>
      rw [ht] at h
      simp only [Option.some.injEq, Prod.mk.injEq] at h
      have : st' = (Stack.turn S f st).st := by rw [ht]; exact h.2.symm
      rw [this]; exact .step (.refl _)
    | again s0 =>
      rw [ht] at h
      have h1 := ih s0 r st' h
      have h0 : Stack.Reach S f st s0 := by
        have : s0 = (Stack.turn S f st).st := by rw [ht]; rfl
        rw [this]; exact .step (.refl _)
      clear ih h ht
      induction h1 with
      | refl => exact h0
      | step _ ih2 => exact .step ih2

/-! ### fold -/
section fold
variable {T TC U UC E Y : Type}

def LiveOutput (O : FoldOps T TC U UC E Y) (fr : List (Except E T) × FFrame TC U Y) : Prop :=
  ∃ x ys, fr.2 = .output x ys ∧ Live O.S ys

/-- every update yields at most one output -/
def FLinear (O : FoldOps T TC U UC E Y) : Prop :=
  ∀ ys y ys', O.S.next ys = some (y, ys') → O.S.next ys' = none

def fkeep (O : FoldOps T TC U UC E Y) (xs : List (Except E T)) (x : TC) (ys' : Y)
    (rest : FStack T TC U E Y) : FStack T TC U E Y :=
  if O.S.hintZero ys' = true then rest else (xs, .output x ys') :: rest

theorem fturn_out_none (O : FoldOps T TC U UC E Y) {xs x ys} (rest : FStack T TC U E Y)
    (h : O.S.next ys = none) : Fold.turn O ((xs, .output x ys) :: rest) = .again rest := by
  simp [Fold.turn, h]

theorem fturn_out_err (O : FoldOps T TC U UC E Y) {xs x ys ys' e} (rest : FStack T TC U E Y)
    (h : O.S.next ys = some (.error e, ys')) :
    Fold.turn O ((xs, .output x ys) :: rest) = .done (some (.error e)) (fkeep O xs x ys' rest) := by
  simp [Fold.turn, h, fkeep]

theorem fturn_out_ok (O : FoldOps T TC U UC E Y) {xs x ys ys' y} (rest : FStack T TC U E Y)
    (h : O.S.next ys = some (.ok y, ys')) :
    (Fold.turn O ((xs, .output x ys) :: rest)).st = (xs, .input y) :: fkeep O xs x ys' rest := by
  simp only [Fold.turn, h, fkeep]
  cases O.inner x y <;> rfl

theorem fturn_in_nil (O : FoldOps T TC U UC E Y) {y} (rest : FStack T TC U E Y) :
    (Fold.turn O (([], .input y) :: rest)).st = rest := by
  simp only [Fold.turn]
  cases O.outer y <;> rfl

theorem fturn_in_ok (O : FoldOps T TC U UC E Y) {x xs' y} (rest : FStack T TC U E Y) :
    Fold.turn O ((.ok x :: xs', .input y) :: rest) = .again ((xs', .output (O.tc x) (O.f x y)) :: rest) := rfl

theorem fturn_in_err (O : FoldOps T TC U UC E Y) {e xs' y} (rest : FStack T TC U E Y) :
    Fold.turn O ((.error e :: xs', .input y) :: rest) = .done (some (.error e)) rest := rfl

theorem fold_turn_below (O : FoldOps T TC U UC E Y) (hx : HintExact O.S) (st : FStack T TC U E Y)
    (h : ∀ fr ∈ st.tail, LiveOutput O fr) : ∀ fr ∈ (Fold.turn O st).st.tail, LiveOutput O fr := by
  cases st with
  | nil => simp [Fold.turn, Step.st]
  | cons top rest =>
    simp only [List.tail_cons] at h
    obtain ⟨xs, fr⟩ := top
    cases fr with
    | input y =>
      cases xs with
      | nil => rw [fturn_in_nil]; intro fr hfr; exact h fr (mem_tail_mem hfr)
      | cons x xs' =>
        cases x with
        | ok x => rw [fturn_in_ok]; exact h
        | error e => rw [fturn_in_err]; intro fr hfr; exact h fr (mem_tail_mem hfr)
    | output x ys =>
      cases hn : O.S.next ys with
      | none => rw [fturn_out_none O rest hn]; intro fr hfr; exact h fr (mem_tail_mem hfr)
      | some p =>
        obtain ⟨y, ys'⟩ := p
        have hst : ∀ fr ∈ fkeep O xs x ys' rest, LiveOutput O fr := by
          intro fr hfr
          unfold fkeep at hfr
          by_cases hz : O.S.hintZero ys' = true
          · rw [if_pos hz] at hfr; exact h fr hfr
          · rw [if_neg hz] at hfr
            rcases List.mem_cons.mp hfr with rfl | hr
            · exact ⟨x, ys', rfl, fun hnone => hz ((hx _).mpr hnone)⟩
            · exact h fr hr
        cases y with
        | error e => rw [fturn_out_err O rest hn]; intro fr hfr; exact hst fr (mem_tail_mem hfr)
        | ok y => rw [fturn_out_ok O rest hn]; exact hst

theorem fold_turn_linear_len (O : FoldOps T TC U UC E Y) (hx : HintExact O.S) (hl : FLinear O)
    (st : FStack T TC U E Y) (h : st.length ≤ 1) : (Fold.turn O st).st.length ≤ 1 := by
  cases st with
  | nil => simp [Fold.turn, Step.st]
  | cons top rest =>
    have hr : rest = [] := by
      cases rest with
      | nil => rfl
      | cons a b => simp at h
    subst hr
    obtain ⟨xs, fr⟩ := top
    cases fr with
    | input y =>
      cases xs with
      | nil => rw [fturn_in_nil]; simp
      | cons x xs' =>
        cases x with
        | ok x => rw [fturn_in_ok]; simp [Step.st]
        | error e => rw [fturn_in_err]; simp [Step.st]
    | output x ys =>
      cases hn : O.S.next ys with
      | none => rw [fturn_out_none O [] hn]; simp [Step.st]
      | some p =>
        obtain ⟨y, ys'⟩ := p
        have hz : O.S.hintZero ys' = true := (hx _).mpr (hl _ _ _ hn)
        cases y with
        | error e => rw [fturn_out_err O [] hn]; simp [Step.st, fkeep, hz]
        | ok y => rw [fturn_out_ok O [] hn]; simp [fkeep, hz]

end fold

/-! ### list drop -/

theorem iterDrop_depth (l : LL) : l.iterDrop.2.2 ≤ 2 := by
  induction l with
  | unforced rc => unfold LL.iterDrop; split <;> simp_all
  | nil rc => unfold LL.iterDrop; split <;> simp_all
  | cons rc t ih =>
    by_cases h : rc = 1
    · subst h; simp only [LL.iterDrop]; omega
    · unfold LL.iterDrop
      split <;> simp_all

theorem iterDrop_freed (l : LL) : l.iterDrop.2.1 = l.freed := by
  induction l with
  | unforced rc => unfold LL.iterDrop LL.freed; split <;> simp_all
  | nil rc => unfold LL.iterDrop LL.freed; split <;> simp_all
  | cons rc t ih =>
    by_cases h : rc = 1
    · subst h; simp [LL.iterDrop, LL.freed, ih]
    · unfold LL.iterDrop LL.freed
      split <;> simp_all

theorem naiveDepth_chain (n : Nat) : (LL.chain n).naiveDepth = n + 1 := by
  induction n with
  | zero => rfl
  | succ n ih => simp [LL.chain, LL.naiveDepth, ih]

end Jaq.C04
