/-
  C01 — equations of the compiler model in projection form, and the frame lemma: compiling a
  term of the fragment only appends to the table (placeholders are filled before returning).
-/
import JaqVerif.Lemmas.C01Rel
import JaqVerif.Core.Fragment

namespace Jaq.Core
open Jaq

/-- `iterm_tr` -/
def it (cx : Cx) (loc : Locals) (tr : Tr) (t : Term) (st : St) : TermId × Tr × St :=
  finishI st.terms.length (term cx loc tr t (st.insert .id).2)

theorem it_fst (cx loc tr t st) : (it cx loc tr t st).1 = st.terms.length := rfl

variable (cx : Cx) (loc : Locals) (tr : Tr) (st : St)

theorem term_id : term cx loc tr .id st = (.id, [], st) := by rw [term]
theorem term_num (s) : term cx loc tr (.num s) st = (numC s, [], st) := by rw [term]
theorem term_var (x) : term cx loc tr (.var x) st = ((varC loc x st).1, [], (varC loc x st).2) := by rw [term]
theorem term_brk (x) : term cx loc tr (.brk x) st = ((breakC loc x st).1, [], (breakC loc x st).2) := by rw [term]
theorem term_str1 (s) : term cx loc tr (.str none [.lit s]) st = (.str s, [], (st.insert .toString).2) := by
  rw [term]; simp [compileStrParts, sumOr]
theorem term_neg (t) : term cx loc tr (.neg t) st =
    (.neg (it cx loc [] t st).1, [], (it cx loc [] t st).2.2) := by rw [term]; rfl
theorem term_arr (t) : term cx loc tr (.arr (some t)) st =
    (.arr (it cx loc [] t st).1, [], (it cx loc [] t st).2.2) := by rw [term]; rfl
theorem term_label (x t) : term cx loc tr (.label x t) st =
    (.label (it cx (loc.pushLabel x) [] t st).1, [], (it cx (loc.pushLabel x) [] t st).2.2) := by rw [term]; rfl
theorem term_pipe_none (l r) : term cx loc tr (.pipe l none r) st =
    (.pipe (it cx loc [] l st).1 none (it cx loc tr r (it cx loc [] l st).2.2).1,
      (it cx loc tr r (it cx loc [] l st).2.2).2.1, (it cx loc tr r (it cx loc [] l st).2.2).2.2) := by
  rw [term]; rfl
theorem term_pipe_var (l x r) : term cx loc tr (.pipe l (some (.var x)) r) st =
    (.pipe (it cx loc [] l st).1 (some .var) (it cx (loc.pushBind (.var x)) tr r (it cx loc [] l st).2.2).1,
      (it cx (loc.pushBind (.var x)) tr r (it cx loc [] l st).2.2).2.1,
      (it cx (loc.pushBind (.var x)) tr r (it cx loc [] l st).2.2).2.2) := by
  rw [term]; rfl
theorem term_comma (l r) : term cx loc tr (.binop l .comma r) st =
    (.comma (it cx loc tr l st).1 (it cx loc tr r (it cx loc tr l st).2.2).1,
      Tr.union (it cx loc tr l st).2.1 (it cx loc tr r (it cx loc tr l st).2.2).2.1,
      (it cx loc tr r (it cx loc tr l st).2.2).2.2) := by
  rw [term]; rfl
theorem term_alt (l r) : term cx loc tr (.binop l .alt r) st =
    (.alt (it cx loc [] l st).1 (it cx loc tr r (it cx loc [] l st).2.2).1,
      (it cx loc tr r (it cx loc [] l st).2.2).2.1, (it cx loc tr r (it cx loc [] l st).2.2).2.2) := by
  rw [term]; rfl

/-- the compiled form of the remaining binary operators -/
def bopC (op : Bop) (il ir : TermId) : CTerm :=
  match op with
  | .math o => .math il o ir
  | .assign => .assign il ir
  | .update => .update il ir
  | .updateMath o => .updateMath il o ir
  | .cmp o => .cmp il o ir
  | .or => .logic il true ir
  | .and => .logic il false ir
  | .updateAlt => .updateAlt il ir
  | .comma => .comma il ir
  | .alt => .alt il ir

theorem term_bop (l op r) (h1 : op ≠ .comma) (h2 : op ≠ .alt) : term cx loc tr (.binop l op r) st =
    (bopC op (it cx loc [] l st).1 (it cx loc [] r (it cx loc [] l st).2.2).1, [],
      (it cx loc [] r (it cx loc [] l st).2.2).2.2) := by
  cases op <;> first | exact absurd rfl h1 | exact absurd rfl h2 | (rw [term] <;> first | rfl | (intro h; cases h))

theorem term_try (f c) : term cx loc tr (.tryCatch f (some c)) st =
    (.tryCatch (it cx loc [] f st).1 (it cx loc [] c (it cx loc [] f st).2.2).1, [],
      (it cx loc [] c (it cx loc [] f st).2.2).2.2) := by
  rw [term]; rfl

theorem term_ite1_none (c t) : term cx loc tr (.ite [(c, t)] none) st =
    (let a := it cx loc [] c st
     let b := it cx loc tr t a.2.2
     let ie := b.2.2.insert .id
     (.ite a.1 b.1 ie.1, Tr.union b.2.1 [], ie.2)) := by
  rw [term]; simp only [compileIts]; rfl
theorem term_ite1_some (c t e) : term cx loc tr (.ite [(c, t)] (some e)) st =
    (let a := it cx loc [] c st
     let b := it cx loc tr t a.2.2
     let ce := term cx loc tr e b.2.2
     let ie := ce.2.2.insert ce.1
     (.ite a.1 b.1 ie.1, Tr.union b.2.1 ce.2.1, ie.2)) := by
  rw [term]; simp only [compileIts]; rfl

theorem term_defs (ds t) : term cx loc tr (.defs ds t) st =
    term cx (compileDefs cx loc tr ds st).1 tr t (compileDefs cx loc tr ds st).2 := by rw [term]
theorem term_call (name args) : term cx loc tr (.call name args) st =
    (if isQualified name then (.id, [], (itermList cx loc args st).2.fail name)
     else callC cx loc name (itermList cx loc args st).1 tr (itermList cx loc args st).2) := by rw [term]

theorem itermList_nil : itermList cx loc [] st = ([], st) := by rw [itermList]
theorem itermList_cons (t ts) : itermList cx loc (t :: ts) st =
    ((it cx loc [] t st).1 :: (itermList cx loc ts (it cx loc [] t st).2.2).1,
      (itermList cx loc ts (it cx loc [] t st).2.2).2) := by rw [itermList]; rfl
theorem compileDefs_nil : compileDefs cx loc tr [] st = (loc, st) := by rw [compileDefs]
theorem compileDefs_cons (name params body ds) : compileDefs cx loc tr (.mk name params body :: ds) st =
    (let b := term cx (loc.pushParent name (sigOf params) st.terms.length) (Tr.insert tr st.terms.length) body (st.insert .id).2
     compileDefs cx (loc.pushSibling name (sigOf params) st.terms.length b.2.1) tr ds (b.2.2.set st.terms.length b.1)) := by
  rw [compileDefs]

theorem term_fold_var (name xs x init update rest) :
    term cx loc tr (.fold name xs (.var x) (init :: update :: rest)) st =
    (let a := it cx loc [] xs st
     let b := it cx loc [] init a.2.2
     let c := it cx (loc.pushBind (.var x)) [] update b.2.2
     match rest with
     | [] =>
       if name = "reduce" then (.fold a.1 .var b.1 c.1 .reduce, [], c.2.2)
       else if name = "foreach" then (.fold a.1 .var b.1 c.1 (.foreach none), [], c.2.2)
       else (.id, [], c.2.2.fail name)
     | [proj] =>
       if name = "foreach" then
         (.fold a.1 .var b.1 c.1 (.foreach (some (it cx (loc.pushBind (.var x)) tr proj c.2.2).1)),
           (it cx (loc.pushBind (.var x)) tr proj c.2.2).2.1, (it cx (loc.pushBind (.var x)) tr proj c.2.2).2.2)
       else (.id, [], c.2.2.fail name)
     | _ => (.id, [], c.2.2.fail name)) := by
  rw [term]; simp only [pattern]
  cases rest with
  | nil => rfl
  | cons p rest => cases rest <;> rfl
theorem term_fold_short0 (name xs pat) : term cx loc tr (.fold name xs pat []) st = (.id, [], st.fail name) := by
  rw [term]; intro a b c h; cases h
theorem term_fold_short1 (name xs pat a) : term cx loc tr (.fold name xs pat [a]) st = (.id, [], st.fail name) := by
  rw [term]; intro a b c h; cases h

/-! ### frame -/

theorem it_ext {cx loc tr t st} (h : ∀ st', Ext st' (term cx loc tr t st').2.2) : Ext st (it cx loc tr t st).2.2 := by
  have := (Ext.set_hole (term cx loc tr t (st.insert .id).2).1 .id (h (st.insert .id).2)).1
  exact this

theorem callC_ext (name ids) : Ext st (callC cx loc name ids tr st).2.2 := by
  unfold callC
  split
  · exact Ext.refl _
  · split
    · exact Ext.refl _
    · split
      · exact Ext.refl _
      · exact Ext.fail _ _

theorem varC_ext (x) : Ext st (varC loc x st).2 := by
  unfold varC; split
  · exact Ext.refl _
  · exact Ext.fail _ _
theorem breakC_ext (x) : Ext st (breakC loc x st).2 := by
  unfold breakC; split
  · exact Ext.refl _
  · exact Ext.fail _ _

theorem term_ext_aux : ∀ (N : Nat) (t : Term), sizeOf t < N → inFragment t = true →
    ∀ (cx : Cx) (loc : Locals) (tr : Tr) (st : St), Ext st (term cx loc tr t st).2.2 := by
  intro N
  induction N with
  | zero => intro t h; omega
  | succ N ih =>
    intro t hsz hfr cx loc tr st
    cases t with
    | id => rw [term_id]; exact Ext.refl _
    | recurse => simp [inFragment] at hfr
    | num s => rw [term_num]; exact Ext.refl _
    | str fmt parts =>
      cases fmt with
      | some f => simp [inFragment] at hfr
      | none =>
        cases parts with
        | nil => simp [inFragment] at hfr
        | cons p ps =>
          cases p with
          | interp t => simp [inFragment] at hfr
          | lit s =>
            cases ps with
            | nil => rw [term_str1]; exact Ext.insert _ _
            | cons _ _ => simp [inFragment] at hfr
    | arr t =>
      cases t with
      | none => simp [inFragment] at hfr
      | some f =>
        simp only [inFragment] at hfr
        rw [term_arr]
        exact it_ext (fun st' => ih f (by simp at hsz; omega) hfr cx loc [] st')
    | obj kvs => simp [inFragment] at hfr
    | neg f =>
      simp only [inFragment] at hfr
      rw [term_neg]
      exact it_ext (fun st' => ih f (by simp at hsz; omega) hfr cx loc [] st')
    | pipe l pat r =>
      cases pat with
      | none =>
        simp only [inFragment, Bool.and_eq_true] at hfr
        rw [term_pipe_none]
        exact Ext.trans (it_ext (fun st' => ih l (by simp at hsz; omega) hfr.1 cx loc [] st'))
          (it_ext (fun st' => ih r (by simp at hsz; omega) hfr.2 cx loc tr st'))
      | some p =>
        cases p with
        | var x =>
          simp only [inFragment, Bool.and_eq_true] at hfr
          rw [term_pipe_var]
          exact Ext.trans (it_ext (fun st' => ih l (by simp at hsz; omega) hfr.1 cx loc [] st'))
            (it_ext (fun st' => ih r (by simp at hsz; omega) hfr.2 cx _ tr st'))
        | arr _ => simp [inFragment] at hfr
        | obj _ => simp [inFragment] at hfr
    | binop l op r =>
      simp only [inFragment, Bool.and_eq_true] at hfr
      have hl := fun (tr' : Tr) st' => ih l (by simp at hsz; omega) hfr.1.2 cx loc tr' st'
      have hr := fun (tr' : Tr) st' => ih r (by simp at hsz; omega) hfr.2 cx loc tr' st'
      by_cases h1 : op = .comma
      · subst h1; rw [term_comma]; exact Ext.trans (it_ext (hl tr)) (it_ext (hr tr))
      · by_cases h2 : op = .alt
        · subst h2; rw [term_alt]; exact Ext.trans (it_ext (hl [])) (it_ext (hr tr))
        · rw [term_bop _ _ _ _ _ _ _ h1 h2]; exact Ext.trans (it_ext (hl [])) (it_ext (hr []))
    | label x f =>
      simp only [inFragment] at hfr
      rw [term_label]
      exact it_ext (fun st' => ih f (by simp at hsz; omega) hfr cx _ [] st')
    | brk x => rw [term_brk]; exact breakC_ext _ _ _
    | fold name xs pat args =>
      cases pat with
      | arr _ => simp [inFragment] at hfr
      | obj _ => simp [inFragment] at hfr
      | var x =>
        simp only [inFragment, Bool.and_eq_true] at hfr
        cases args with
        | nil => rw [term_fold_short0]; exact Ext.fail _ _
        | cons init args =>
          cases args with
          | nil => rw [term_fold_short1]; exact Ext.fail _ _
          | cons update rest =>
            simp only [inFragmentList, Bool.and_eq_true] at hfr
            have h1 := it_ext (st := st) (fun st' => ih xs (by simp at hsz; omega) hfr.1 cx loc [] st')
            have h2 := fun st => it_ext (st := st) (fun st' => ih init (by simp at hsz; omega) hfr.2.1 cx loc [] st')
            have h3 := fun st => it_ext (st := st) (fun st' => ih update (by simp at hsz; omega) hfr.2.2.1 cx (loc.pushBind (.var x)) [] st')
            have h123 := Ext.trans h1 (Ext.trans (h2 _) (h3 _))
            rw [term_fold_var]
            simp only
            cases rest with
            | nil =>
              simp only
              split
              · exact h123
              · split
                · exact h123
                · exact Ext.trans h123 (Ext.fail _ _)
            | cons proj rest =>
              cases rest with
              | nil =>
                simp only [inFragmentList, Bool.and_eq_true] at hfr
                simp only
                split
                · exact Ext.trans h123 (it_ext (fun st' => ih proj (by simp at hsz; omega) hfr.2.2.2.1 cx _ tr st'))
                · exact Ext.trans h123 (Ext.fail _ _)
              | cons _ _ => exact Ext.trans h123 (Ext.fail _ _)
    | tryCatch f c =>
      cases c with
      | none => simp [inFragment] at hfr
      | some c =>
        simp only [inFragment, Bool.and_eq_true] at hfr
        rw [term_try]
        exact Ext.trans (it_ext (fun st' => ih f (by simp at hsz; omega) hfr.1 cx loc [] st'))
          (it_ext (fun st' => ih c (by simp at hsz; omega) hfr.2 cx loc [] st'))
    | ite its els =>
      cases its with
      | nil => simp [inFragment] at hfr
      | cons ct rest =>
        obtain ⟨c, t⟩ := ct
        cases rest with
        | cons _ _ => cases els <;> simp [inFragment] at hfr
        | nil =>
          cases els with
          | none =>
            simp only [inFragment, Bool.and_eq_true] at hfr
            rw [term_ite1_none]
            exact Ext.trans (it_ext (fun st' => ih c (by simp at hsz; omega) hfr.1 cx loc [] st'))
              (Ext.trans (it_ext (fun st' => ih t (by simp at hsz; omega) hfr.2 cx loc tr st')) (Ext.insert _ _))
          | some e =>
            simp only [inFragment, Bool.and_eq_true] at hfr
            rw [term_ite1_some]
            exact Ext.trans (it_ext (fun st' => ih c (by simp at hsz; omega) hfr.1.1 cx loc [] st'))
              (Ext.trans (it_ext (fun st' => ih t (by simp at hsz; omega) hfr.1.2 cx loc tr st'))
                (Ext.trans (ih e (by simp at hsz; omega) hfr.2 cx loc tr _) (Ext.insert _ _)))
    | defs ds f =>
      simp only [inFragment, Bool.and_eq_true] at hfr
      rw [term_defs]
      have hds : ∀ (ds' : List Def), (∀ d ∈ ds', sizeOf d < sizeOf ds + 1) → inFragmentDefs ds' = true →
          ∀ loc st, Ext st (compileDefs cx loc tr ds' st).2 := by
        intro ds'
        induction ds' with
        | nil => intro _ _ loc st; rw [compileDefs_nil]; exact Ext.refl _
        | cons d ds' ihd =>
          intro hsz' hfr' loc st
          obtain ⟨name, params, body⟩ := d
          simp only [inFragmentDefs, Bool.and_eq_true] at hfr'
          rw [compileDefs_cons]
          have hb := ih body (by have := hsz' _ (List.mem_cons_self); simp at this hsz; omega) hfr'.1 cx
            (loc.pushParent name (sigOf params) st.terms.length) (Tr.insert tr st.terms.length) (st.insert .id).2
          exact Ext.trans (Ext.set_hole _ .id hb).1
            (ihd (fun d hd => hsz' d (List.mem_cons_of_mem _ hd)) hfr'.2 _ _)
      exact Ext.trans (hds ds (fun d hd => by have := List.sizeOf_lt_of_mem hd; omega) hfr.1 loc st)
        (ih f (by simp at hsz; omega) hfr.2 cx _ tr _)
    | call name args =>
      simp only [inFragment, Bool.and_eq_true] at hfr
      rw [term_call]
      have hargs : ∀ (as : List Term), (∀ a ∈ as, sizeOf a < N) → inFragmentList as = true →
          ∀ st, Ext st (itermList cx loc as st).2 := by
        intro as
        induction as with
        | nil => intro _ _ st; rw [itermList_nil]; exact Ext.refl _
        | cons a as iha =>
          intro hsz' hfr' st
          simp only [inFragmentList, Bool.and_eq_true] at hfr'
          rw [itermList_cons]
          exact Ext.trans (it_ext (fun st' => ih a (hsz' a List.mem_cons_self) hfr'.1 cx loc [] st'))
            (iha (fun a ha => hsz' a (List.mem_cons_of_mem _ ha)) hfr'.2 _)
      have h1 := hargs args (fun a ha => by have := List.sizeOf_lt_of_mem ha; simp at hsz; omega) hfr.2 st
      split
      · exact Ext.trans h1 (Ext.fail _ _)
      · exact Ext.trans h1 (callC_ext _ _ _ _ _ _)
    | var x => rw [term_var]; exact varC_ext _ _ _
    | path f parts => simp [inFragment] at hfr

/-- frame lemma: compiling a term of the fragment only appends to the table -/
theorem term_ext {t : Term} (h : inFragment t = true) (cx : Cx) (loc : Locals) (tr : Tr) (st : St) :
    Ext st (term cx loc tr t st).2.2 :=
  term_ext_aux (sizeOf t + 1) t (by omega) h cx loc tr st

end Jaq.Core
