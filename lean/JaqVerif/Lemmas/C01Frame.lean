/-
  C01 — equations of the compiler model in projection form, and the frame lemma: compiling a
  term (any term of the language) only appends to the table (placeholders are filled before
  returning).
-/
import JaqVerif.Lemmas.C01Rel
import JaqVerif.Core.Fragment

namespace Jaq.Core
open Jaq

/-- `iterm_tr` -/
def it (cx : Cx) (loc : Locals) (tr : Tr) (t : Term) (st : St) : TermId × Tr × St :=
  finishI st.terms.length (term cx loc tr t (st.insert .id).2)

theorem it_fst (cx loc tr t st) : (it cx loc tr t st).1 = st.terms.length := rfl

variable (cx : Cx) (loc : Locals) (tr : Tr) (st : St)

theorem term_id : term cx loc tr .id st = (.id, [], st) := by rw [term]
theorem term_num (s) : term cx loc tr (.num s) st = (numC s, [], st) := by rw [term]
theorem term_var (x) : term cx loc tr (.var x) st = ((varC loc x st).1, [], (varC loc x st).2) := by rw [term]
theorem term_brk (x) : term cx loc tr (.brk x) st = ((breakC loc x st).1, [], (breakC loc x st).2) := by rw [term]
theorem term_neg (t) : term cx loc tr (.neg t) st =
    (.neg (it cx loc [] t st).1, [], (it cx loc [] t st).2.2) := by rw [term]; rfl
theorem term_arr (t) : term cx loc tr (.arr (some t)) st =
    (.arr (it cx loc [] t st).1, [], (it cx loc [] t st).2.2) := by rw [term]; rfl
theorem term_label (x t) : term cx loc tr (.label x t) st =
    (.label (it cx (loc.pushLabel x) [] t st).1, [], (it cx (loc.pushLabel x) [] t st).2.2) := by rw [term]; rfl
theorem term_pipe_none (l r) : term cx loc tr (.pipe l none r) st =
    (.pipe (it cx loc [] l st).1 none (it cx loc tr r (it cx loc [] l st).2.2).1,
      (it cx loc tr r (it cx loc [] l st).2.2).2.1, (it cx loc tr r (it cx loc [] l st).2.2).2.2) := by
  rw [term]; rfl
theorem term_comma (l r) : term cx loc tr (.binop l .comma r) st =
    (.comma (it cx loc tr l st).1 (it cx loc tr r (it cx loc tr l st).2.2).1,
      Tr.union (it cx loc tr l st).2.1 (it cx loc tr r (it cx loc tr l st).2.2).2.1,
      (it cx loc tr r (it cx loc tr l st).2.2).2.2) := by
  rw [term]; rfl
theorem term_alt (l r) : term cx loc tr (.binop l .alt r) st =
    (.alt (it cx loc [] l st).1 (it cx loc tr r (it cx loc [] l st).2.2).1,
      (it cx loc tr r (it cx loc [] l st).2.2).2.1, (it cx loc tr r (it cx loc [] l st).2.2).2.2) := by
  rw [term]; rfl

/-- the compiled form of the remaining binary operators -/
def bopC (op : Bop) (il ir : TermId) : CTerm :=
  match op with
  | .math o => .math il o ir
  | .assign => .assign il ir
  | .update => .update il ir
  | .updateMath o => .updateMath il o ir
  | .cmp o => .cmp il o ir
  | .or => .logic il true ir
  | .and => .logic il false ir
  | .updateAlt => .updateAlt il ir
  | .comma => .comma il ir
  | .alt => .alt il ir

theorem term_bop (l op r) (h1 : op ≠ .comma) (h2 : op ≠ .alt) : term cx loc tr (.binop l op r) st =
    (bopC op (it cx loc [] l st).1 (it cx loc [] r (it cx loc [] l st).2.2).1, [],
      (it cx loc [] r (it cx loc [] l st).2.2).2.2) := by
  cases op <;> first | exact absurd rfl h1 | exact absurd rfl h2 | (rw [term] <;> first | rfl | (intro h; cases h))

theorem term_try (f c) : term cx loc tr (.tryCatch f (some c)) st =
    (.tryCatch (it cx loc [] f st).1 (it cx loc [] c (it cx loc [] f st).2.2).1, [],
      (it cx loc [] c (it cx loc [] f st).2.2).2.2) := by
  rw [term]; rfl

theorem term_defs (ds t) : term cx loc tr (.defs ds t) st =
    term cx (compileDefs cx loc tr ds st).1 tr t (compileDefs cx loc tr ds st).2 := by rw [term]
theorem term_call (name args) : term cx loc tr (.call name args) st =
    (if isQualified name then (.id, [], (itermList cx loc args st).2.fail name)
     else callC cx loc name (itermList cx loc args st).1 tr (itermList cx loc args st).2) := by rw [term]

theorem itermList_nil : itermList cx loc [] st = ([], st) := by rw [itermList]
theorem itermList_cons (t ts) : itermList cx loc (t :: ts) st =
    ((it cx loc [] t st).1 :: (itermList cx loc ts (it cx loc [] t st).2.2).1,
      (itermList cx loc ts (it cx loc [] t st).2.2).2) := by rw [itermList]; rfl
theorem compileDefs_nil : compileDefs cx loc tr [] st = (loc, st) := by rw [compileDefs]
theorem compileDefs_cons (name params body ds) : compileDefs cx loc tr (.mk name params body :: ds) st =
    (let b := term cx (loc.pushParent name (sigOf params) st.terms.length) (Tr.insert tr st.terms.length) body (st.insert .id).2
     compileDefs cx (loc.pushSibling name (sigOf params) st.terms.length b.2.1) tr ds (b.2.2.set st.terms.length b.1)) := by
  rw [compileDefs]

theorem term_fold_short0 (name xs pat) : term cx loc tr (.fold name xs pat []) st = (.id, [], st.fail name) := by
  rw [term]; intro a b c h; cases h
theorem term_fold_short1 (name xs pat a) : term cx loc tr (.fold name xs pat [a]) st = (.id, [], st.fail name) := by
  rw [term]; intro a b c h; cases h


theorem term_recurse : term cx loc tr .recurse st = (.recurse, [], st) := by rw [term]
theorem term_arr_none : term cx loc tr (.arr none) st =
    (.arr (itermEmpty cx loc st).1, [], (itermEmpty cx loc st).2) := by rw [term]
theorem term_try_none (f) : term cx loc tr (.tryCatch f none) st =
    (.tryCatch (it cx loc [] f st).1 (itermEmpty cx loc (it cx loc [] f st).2.2).1, [],
      (itermEmpty cx loc (it cx loc [] f st).2.2).2) := by rw [term]; rfl
theorem term_pipe_some (l p r) : term cx loc tr (.pipe l (some p) r) st =
    (.pipe (it cx loc [] l st).1 (some (pattern cx loc p (it cx (loc.pushVars p.vars) tr r (it cx loc [] l st).2.2).2.2).1)
        (it cx (loc.pushVars p.vars) tr r (it cx loc [] l st).2.2).1,
      (it cx (loc.pushVars p.vars) tr r (it cx loc [] l st).2.2).2.1,
      (pattern cx loc p (it cx (loc.pushVars p.vars) tr r (it cx loc [] l st).2.2).2.2).2) := by
  rw [term]; rfl

def iteStep (acc : CTerm × Tr × St) (it : TermId × TermId × Tr) : CTerm × Tr × St :=
  (.ite it.1 it.2.1 (acc.2.2.insert acc.1).1, Tr.union it.2.2 acc.2.1, (acc.2.2.insert acc.1).2)
def iteBuild (cits : List (TermId × TermId × Tr)) (base : CTerm × Tr × St) : CTerm × Tr × St :=
  cits.reverse.foldl iteStep base

theorem term_ite_none (its) : term cx loc tr (.ite its none) st =
    iteBuild (compileIts cx loc tr its st).1 (.id, [], (compileIts cx loc tr its st).2) := by
  rw [term]; rfl
theorem term_ite_some (its e) : term cx loc tr (.ite its (some e)) st =
    iteBuild (compileIts cx loc tr its st).1 (term cx loc tr e (compileIts cx loc tr its st).2) := by
  rw [term]; rfl
theorem term_path (f parts) : term cx loc tr (.path f parts) st =
    (.path (it cx loc [] f st).1 (compileParts cx loc parts (it cx loc [] f st).2.2).1, [],
      (compileParts cx loc parts (it cx loc [] f st).2.2).2) := by rw [term]; rfl
theorem term_str (parts) : term cx loc tr (.str none parts) st =
    ((sumOr (.str "") (compileStrParts cx loc (st.insert .toString).1 parts (st.insert .toString).2).1
        (compileStrParts cx loc (st.insert .toString).1 parts (st.insert .toString).2).2).1, [],
     (sumOr (.str "") (compileStrParts cx loc (st.insert .toString).1 parts (st.insert .toString).2).1
        (compileStrParts cx loc (st.insert .toString).1 parts (st.insert .toString).2).2).2) := by
  rw [term]
theorem term_obj (kvs) : term cx loc tr (.obj kvs) st =
    ((sumOr .objEmpty (compileEntries cx loc kvs st).1 (compileEntries cx loc kvs st).2).1, [],
     (sumOr .objEmpty (compileEntries cx loc kvs st).1 (compileEntries cx loc kvs st).2).2) := by
  rw [term]
theorem term_fold (name xs pat init update rest) :
    term cx loc tr (.fold name xs pat (init :: update :: rest)) st =
    (let a := it cx loc [] xs st
     let cp := pattern cx loc pat a.2.2
     let b := it cx loc [] init cp.2
     let c := it cx (loc.pushVars pat.vars) [] update b.2.2
     match rest with
     | [] =>
       if name = "reduce" then (.fold a.1 cp.1 b.1 c.1 .reduce, [], c.2.2)
       else if name = "foreach" then (.fold a.1 cp.1 b.1 c.1 (.foreach none), [], c.2.2)
       else (.id, [], c.2.2.fail name)
     | [proj] =>
       if name = "foreach" then
         (.fold a.1 cp.1 b.1 c.1 (.foreach (some (it cx (loc.pushVars pat.vars) tr proj c.2.2).1)),
           (it cx (loc.pushVars pat.vars) tr proj c.2.2).2.1, (it cx (loc.pushVars pat.vars) tr proj c.2.2).2.2)
       else (.id, [], c.2.2.fail name)
     | _ => (.id, [], c.2.2.fail name)) := by
  rw [term]
  cases rest with
  | nil => rfl
  | cons p rest => cases rest <;> rfl

theorem compileIts_nil : compileIts cx loc tr [] st = ([], st) := by rw [compileIts]
theorem compileIts_cons (c t rest) : compileIts cx loc tr ((c, t) :: rest) st =
    (((it cx loc [] c st).1, (it cx loc tr t (it cx loc [] c st).2.2).1, (it cx loc tr t (it cx loc [] c st).2.2).2.1) ::
        (compileIts cx loc tr rest (it cx loc tr t (it cx loc [] c st).2.2).2.2).1,
      (compileIts cx loc tr rest (it cx loc tr t (it cx loc [] c st).2.2).2.2).2) := by rw [compileIts]; rfl

theorem pattern_var (x) : pattern cx loc (.var x) st = (.var, st) := by rw [pattern]
theorem pattern_arr (ps) : pattern cx loc (.arr ps) st = (.idx (patternArr cx loc ps 0 st).1, (patternArr cx loc ps 0 st).2) := by
  rw [pattern]
theorem pattern_obj (kps) : pattern cx loc (.obj kps) st = (.idx (patternObj cx loc kps st).1, (patternObj cx loc kps st).2) := by
  rw [pattern]
theorem patternArr_nil (i) : patternArr cx loc [] i st = ([], st) := by rw [patternArr]
theorem patternArr_cons (p ps i) : patternArr cx loc (p :: ps) i st =
    ((st.terms.length, (pattern cx loc p (st.insert (.int i)).2).1) ::
        (patternArr cx loc ps (i+1) (pattern cx loc p (st.insert (.int i)).2).2).1,
      (patternArr cx loc ps (i+1) (pattern cx loc p (st.insert (.int i)).2).2).2) := by rw [patternArr]; rfl
theorem patternObj_nil : patternObj cx loc [] st = ([], st) := by rw [patternObj]
theorem patternObj_cons (k p kps) : patternObj cx loc ((k, p) :: kps) st =
    (((it cx loc [] k st).1, (pattern cx loc p (it cx loc [] k st).2.2).1) ::
        (patternObj cx loc kps (pattern cx loc p (it cx loc [] k st).2.2).2).1,
      (patternObj cx loc kps (pattern cx loc p (it cx loc [] k st).2.2).2).2) := by rw [patternObj]; rfl

/-- the optional bound of a slice -/
def optIt (a : Option Term) : Option TermId × St :=
  match a with
  | none => (none, st)
  | some a => (some (it cx loc [] a st).1, (it cx loc [] a st).2.2)

theorem compileParts_nil : compileParts cx loc [] st = ([], st) := by rw [compileParts]
theorem compileParts_index (i o rest) : compileParts cx loc ((.index i, o) :: rest) st =
    ((.index (it cx loc [] i st).1, o) :: (compileParts cx loc rest (it cx loc [] i st).2.2).1,
      (compileParts cx loc rest (it cx loc [] i st).2.2).2) := by rw [compileParts]; rfl
theorem compileParts_range (a b o rest) : compileParts cx loc ((.range a b, o) :: rest) st =
    ((.range (optIt cx loc st a).1 (optIt cx loc (optIt cx loc st a).2 b).1, o) ::
        (compileParts cx loc rest (optIt cx loc (optIt cx loc st a).2 b).2).1,
      (compileParts cx loc rest (optIt cx loc (optIt cx loc st a).2 b).2).2) := by
  cases a <;> cases b <;> (rw [compileParts]; rfl)

theorem compileStrParts_nil (ifmt) : compileStrParts cx loc ifmt [] st = ([], st) := by rw [compileStrParts]
theorem compileStrParts_lit (ifmt s rest) : compileStrParts cx loc ifmt (.lit s :: rest) st =
    (.str s :: (compileStrParts cx loc ifmt rest st).1, (compileStrParts cx loc ifmt rest st).2) := by
  rw [compileStrParts]
theorem compileStrParts_interp (ifmt f rest) : compileStrParts cx loc ifmt (.interp f :: rest) st =
    (.pipe (it cx loc [] f st).1 none ifmt :: (compileStrParts cx loc ifmt rest (it cx loc [] f st).2.2).1,
      (compileStrParts cx loc ifmt rest (it cx loc [] f st).2.2).2) := by rw [compileStrParts]; rfl

theorem compileEntries_nil : compileEntries cx loc [] st = ([], st) := by rw [compileEntries]
theorem compileEntries_var (x rest) : compileEntries cx loc ((.var x, none) :: rest) st =
    (let s1 := (st.insert (.str (x.drop 1).toString)).2
     let s2 := (s1.insert .id).2
     let s3 := (varC loc x s2).2.set s1.terms.length (varC loc x s2).1
     (.objSingle st.terms.length s1.terms.length :: (compileEntries cx loc rest s3).1, (compileEntries cx loc rest s3).2)) := by
  rw [compileEntries]; rfl
theorem compileEntries_some (k v rest) : compileEntries cx loc ((k, some v) :: rest) st =
    (.objSingle (it cx loc [] k st).1 (it cx loc [] v (it cx loc [] k st).2.2).1 ::
        (compileEntries cx loc rest (it cx loc [] v (it cx loc [] k st).2.2).2.2).1,
      (compileEntries cx loc rest (it cx loc [] v (it cx loc [] k st).2.2).2.2).2) := by
  cases k <;> (rw [compileEntries]; rfl)
theorem compileEntries_none (k rest) (hk : ∀ x, k ≠ .var x) : compileEntries cx loc ((k, none) :: rest) st =
    (let a := it cx loc [] k st
     let s1 := (a.2.2.insert .id).2
     let s2 := (s1.insert (.path a.2.2.terms.length [(.index a.1, .essential)])).2
     (.objSingle a.1 s1.terms.length :: (compileEntries cx loc rest s2).1, (compileEntries cx loc rest s2).2)) := by
  cases k <;> first | exact absurd rfl (hk _) | (rw [compileEntries] <;> first | rfl | (intro x h; cases h))

/-- one step of `sum_or`: `Math(insert x, Add, insert acc)` -/
def sumStep (acc : CTerm × St) (x : CTerm) : CTerm × St :=
  (.math (acc.2.insert x).1 .add ((acc.2.insert x).2.insert acc.1).1, ((acc.2.insert x).2.insert acc.1).2)

theorem sumOr_nil (zero) : sumOr zero [] st = (zero, st) := rfl
theorem sumOr_one (zero c) : sumOr zero [c] st = (c, st) := rfl
theorem sumOr_cons2 (zero c c' cs) : sumOr zero (c :: c' :: cs) st = sumStep (sumOr zero (c' :: cs) st) c := by
  unfold sumOr
  rw [List.reverse_cons (a := c)]
  cases h : (c' :: cs).reverse with
  | nil => simp at h
  | cons last rest =>
    simp only [List.cons_append, List.foldl_append, List.foldl_cons, List.foldl_nil]
    rfl

theorem term_str_fmt (f parts) : term cx loc tr (.str (some f) parts) st =
    (let cc := callC cx loc f [] [] (st.insert .id).2
     let s1 := cc.2.2.set st.terms.length cc.1
     let b := compileStrParts cx loc st.terms.length parts s1
     ((sumOr (.str "") b.1 b.2).1, [], (sumOr (.str "") b.1 b.2).2)) := by
  rw [term]; rfl

theorem iteBuild_nil (base) : iteBuild [] base = base := rfl
theorem iteBuild_cons (x cits base) : iteBuild (x :: cits) base = iteStep (iteBuild cits base) x := by
  simp [iteBuild, List.foldl_append]

/-! ### frame -/

theorem it_ext {cx loc tr t st} (h : ∀ st', Ext st' (term cx loc tr t st').2.2) : Ext st (it cx loc tr t st).2.2 := by
  have := (Ext.set_hole (term cx loc tr t (st.insert .id).2).1 .id (h (st.insert .id).2)).1
  exact this

theorem callC_ext (name ids) : Ext st (callC cx loc name ids tr st).2.2 := by
  unfold callC
  split
  · exact Ext.refl _
  · split
    · exact Ext.refl _
    · split
      · exact Ext.refl _
      · exact Ext.fail _ _

theorem varC_ext (x) : Ext st (varC loc x st).2 := by
  unfold varC; split
  · exact Ext.refl _
  · exact Ext.fail _ _
theorem breakC_ext (x) : Ext st (breakC loc x st).2 := by
  unfold breakC; split
  · exact Ext.refl _
  · exact Ext.fail _ _

theorem itermEmpty_ext : Ext st (itermEmpty cx loc st).2 := by
  unfold itermEmpty
  exact (Ext.set_hole (callC cx loc "!empty" [] [] (st.insert .id).2).1 .id (callC_ext cx loc [] _ "!empty" [])).1

theorem sumStep_ext (acc : CTerm × St) (x : CTerm) : Ext acc.2 (sumStep acc x).2 :=
  Ext.trans (Ext.insert _ _) (Ext.insert _ _)

theorem sumOr_ext (zero : CTerm) : ∀ (cs : List CTerm) (st : St), Ext st (sumOr zero cs st).2
  | [], st => Ext.refl _
  | [_], st => Ext.refl _
  | c :: c' :: cs, st => by
    rw [sumOr_cons2]
    exact Ext.trans (sumOr_ext zero (c' :: cs) st) (sumStep_ext _ _)

theorem iteBuild_ext : ∀ (cits : List (TermId × TermId × Tr)) (base : CTerm × Tr × St), Ext base.2.2 (iteBuild cits base).2.2
  | [], base => Ext.refl _
  | x :: cits, base => by
    rw [iteBuild_cons]
    exact Ext.trans (iteBuild_ext cits base) (Ext.insert _ _)

/-- compiling `t` only appends to the table, whatever the context -/
def ExtT (t : Term) : Prop := ∀ (cx : Cx) (loc : Locals) (tr : Tr) (st : St), Ext st (term cx loc tr t st).2.2
def ExtP (p : Pattern) : Prop := ∀ (cx : Cx) (loc : Locals) (st : St), Ext st (pattern cx loc p st).2

theorem ExtT.it {t : Term} (h : ExtT t) (cx : Cx) (loc : Locals) (tr : Tr) (st : St) : Ext st (it cx loc tr t st).2.2 :=
  it_ext (fun st' => h cx loc tr st')

section lists
variable {N : Nat} (ih : ∀ t : Term, sizeOf t < N → ExtT t)
include ih

theorem itermList_ext_aux : ∀ (ts : List Term), sizeOf ts ≤ N → ∀ cx loc st, Ext st (itermList cx loc ts st).2
  | [], _, _, _, st => by rw [itermList_nil]; exact Ext.refl _
  | t :: ts, h, cx, loc, st => by
    simp at h
    rw [itermList_cons]
    exact Ext.trans ((ih t (by omega)).it _ _ _ _) (itermList_ext_aux ts (by omega) _ _ _)

theorem compileIts_ext_aux : ∀ (its : List (Term × Term)), sizeOf its ≤ N → ∀ cx loc tr st, Ext st (compileIts cx loc tr its st).2
  | [], _, _, _, _, st => by rw [compileIts_nil]; exact Ext.refl _
  | (c, t) :: its, h, cx, loc, tr, st => by
    simp at h
    rw [compileIts_cons]
    exact Ext.trans ((ih c (by omega)).it _ _ _ _) (Ext.trans ((ih t (by omega)).it _ _ _ _)
      (compileIts_ext_aux its (by omega) _ _ _ _))

theorem compileDefs_ext_aux : ∀ (ds : List Def), sizeOf ds ≤ N → ∀ cx loc tr st, Ext st (compileDefs cx loc tr ds st).2
  | [], _, _, _, _, st => by rw [compileDefs_nil]; exact Ext.refl _
  | .mk name params body :: ds, h, cx, loc, tr, st => by
    simp at h
    rw [compileDefs_cons]
    exact Ext.trans (Ext.set_hole _ .id (ih body (by omega) _ _ _ _)).1 (compileDefs_ext_aux ds (by omega) _ _ _ _)

theorem optIt_ext (a : Option Term) (h : sizeOf a ≤ N) (cx loc st) : Ext st (optIt cx loc st a).2 := by
  cases a with
  | none => exact Ext.refl _
  | some a => simp at h; exact (ih a (by omega)).it _ _ _ _

theorem compileParts_ext_aux : ∀ (ps : List (Part × Opt)), sizeOf ps ≤ N → ∀ cx loc st, Ext st (compileParts cx loc ps st).2
  | [], _, _, _, st => by rw [compileParts_nil]; exact Ext.refl _
  | (.index i, o) :: ps, h, cx, loc, st => by
    simp at h
    rw [compileParts_index]
    exact Ext.trans ((ih i (by omega)).it _ _ _ _) (compileParts_ext_aux ps (by omega) _ _ _)
  | (.range a b, o) :: ps, h, cx, loc, st => by
    simp at h
    rw [compileParts_range]
    exact Ext.trans (optIt_ext ih a (by omega) _ _ _) (Ext.trans (optIt_ext ih b (by omega) _ _ _)
      (compileParts_ext_aux ps (by omega) _ _ _))

theorem compileStrParts_ext_aux : ∀ (ps : List StrPart), sizeOf ps ≤ N → ∀ cx loc ifmt st, Ext st (compileStrParts cx loc ifmt ps st).2
  | [], _, _, _, _, st => by rw [compileStrParts_nil]; exact Ext.refl _
  | .lit s :: ps, h, cx, loc, ifmt, st => by
    simp at h
    rw [compileStrParts_lit]
    exact compileStrParts_ext_aux ps (by omega) _ _ _ _
  | .interp f :: ps, h, cx, loc, ifmt, st => by
    simp at h
    rw [compileStrParts_interp]
    exact Ext.trans ((ih f (by omega)).it _ _ _ _) (compileStrParts_ext_aux ps (by omega) _ _ _ _)

theorem compileEntries_ext_aux : ∀ (es : List (Term × Option Term)), sizeOf es ≤ N → ∀ cx loc st, Ext st (compileEntries cx loc es st).2
  | [], _, _, _, st => by rw [compileEntries_nil]; exact Ext.refl _
  | (k, some v) :: es, h, cx, loc, st => by
    simp at h
    rw [compileEntries_some]
    exact Ext.trans ((ih k (by omega)).it _ _ _ _) (Ext.trans ((ih v (by omega)).it _ _ _ _)
      (compileEntries_ext_aux es (by omega) _ _ _))
  | (k, none) :: es, h, cx, loc, st => by
    simp at h
    by_cases hk : ∃ x, k = .var x
    · obtain ⟨x, rfl⟩ := hk
      rw [compileEntries_var]
      simp only
      have e1 : Ext st (st.insert (.str (x.drop 1).toString)).2 := Ext.insert _ _
      have e2 := (Ext.set_hole (st := (st.insert (.str (x.drop 1).toString)).2)
        (varC loc x (((st.insert (.str (x.drop 1).toString)).2.insert .id).2)).1 .id (varC_ext loc _ x)).1
      exact Ext.trans e1 (Ext.trans e2 (compileEntries_ext_aux es (by omega) _ _ _))
    · rw [compileEntries_none _ _ _ _ _ (fun x hx => hk ⟨x, hx⟩)]
      simp only
      exact Ext.trans ((ih k (by omega)).it _ _ _ _) (Ext.trans (Ext.insert _ _) (Ext.trans (Ext.insert _ _)
        (compileEntries_ext_aux es (by omega) _ _ _)))

theorem pattern_ext_aux : ∀ (M : Nat) (p : Pattern), sizeOf p < M → sizeOf p ≤ N → ExtP p := by
  intro M
  induction M with
  | zero => intro p h; omega
  | succ M ihM =>
    intro p hM hN cx loc st
    cases p with
    | var x => rw [pattern_var]; exact Ext.refl _
    | arr ps =>
      rw [pattern_arr]
      simp at hM hN
      have : ∀ (ps' : List Pattern), sizeOf ps' ≤ sizeOf ps → ∀ i st, Ext st (patternArr cx loc ps' i st).2 := by
        intro ps'
        induction ps' with
        | nil => intro _ i st; rw [patternArr_nil]; exact Ext.refl _
        | cons p' ps' ihp =>
          intro h i st
          simp at h
          rw [patternArr_cons]
          exact Ext.trans (Ext.insert _ _) (Ext.trans (ihM p' (by omega) (by omega) _ _ _) (ihp (by omega) _ _))
      exact this ps (Nat.le_refl _) 0 st
    | obj kps =>
      rw [pattern_obj]
      simp at hM hN
      have : ∀ (kps' : List (Term × Pattern)), sizeOf kps' ≤ sizeOf kps → ∀ st, Ext st (patternObj cx loc kps' st).2 := by
        intro kps'
        induction kps' with
        | nil => intro _ st; rw [patternObj_nil]; exact Ext.refl _
        | cons kp kps' ihp =>
          obtain ⟨k, p'⟩ := kp
          intro h st
          simp at h
          rw [patternObj_cons]
          exact Ext.trans ((ih k (by omega)).it _ _ _ _) (Ext.trans (ihM p' (by omega) (by omega) _ _ _) (ihp (by omega) _))
      exact this kps (Nat.le_refl _) st

theorem pattern_ext_of (p : Pattern) (h : sizeOf p ≤ N) : ExtP p := pattern_ext_aux ih (sizeOf p + 1) p (by omega) h

end lists

theorem term_ext_aux : ∀ (N : Nat) (t : Term), sizeOf t < N → ExtT t := by
  intro N
  induction N with
  | zero => intro t h; omega
  | succ N ih =>
    intro t hsz cx loc tr st
    cases t with
    | id => rw [term_id]; exact Ext.refl _
    | recurse => rw [term_recurse]; exact Ext.refl _
    | num s => rw [term_num]; exact Ext.refl _
    | str fmt parts =>
      simp at hsz
      cases fmt with
      | none =>
        rw [term_str]
        exact Ext.trans (Ext.insert _ _) (Ext.trans (compileStrParts_ext_aux ih parts (by omega) _ _ _ _) (sumOr_ext _ _ _))
      | some f =>
        rw [term_str_fmt]
        simp only
        refine Ext.trans ?_ (Ext.trans (compileStrParts_ext_aux ih parts (by omega) _ _ _ _) (sumOr_ext _ _ _))
        exact (Ext.set_hole _ .id (callC_ext cx loc [] _ f [])).1
    | arr t =>
      cases t with
      | none => rw [term_arr_none]; exact itermEmpty_ext _ _ _
      | some f =>
        rw [term_arr]
        exact (ih f (by simp at hsz; omega)).it _ _ _ _
    | obj kvs =>
      simp at hsz
      rw [term_obj]
      exact Ext.trans (compileEntries_ext_aux ih kvs (by omega) _ _ _) (sumOr_ext _ _ _)
    | neg f =>
      rw [term_neg]
      exact (ih f (by simp at hsz; omega)).it _ _ _ _
    | pipe l pat r =>
      simp at hsz
      cases pat with
      | none =>
        rw [term_pipe_none]
        exact Ext.trans ((ih l (by omega)).it _ _ _ _) ((ih r (by omega)).it _ _ _ _)
      | some p =>
        simp at hsz
        rw [term_pipe_some]
        exact Ext.trans ((ih l (by omega)).it _ _ _ _) (Ext.trans ((ih r (by omega)).it _ _ _ _)
          (pattern_ext_of ih p (by omega) _ _ _))
    | binop l op r =>
      simp at hsz
      have hl := ih l (by omega)
      have hr := ih r (by omega)
      by_cases h1 : op = .comma
      · subst h1; rw [term_comma]; exact Ext.trans (hl.it _ _ _ _) (hr.it _ _ _ _)
      · by_cases h2 : op = .alt
        · subst h2; rw [term_alt]; exact Ext.trans (hl.it _ _ _ _) (hr.it _ _ _ _)
        · rw [term_bop _ _ _ _ _ _ _ h1 h2]; exact Ext.trans (hl.it _ _ _ _) (hr.it _ _ _ _)
    | label x f =>
      rw [term_label]
      exact (ih f (by simp at hsz; omega)).it _ _ _ _
    | brk x => rw [term_brk]; exact breakC_ext _ _ _
    | fold name xs pat args =>
      simp at hsz
      cases args with
      | nil => rw [term_fold_short0]; exact Ext.fail _ _
      | cons init args =>
        cases args with
        | nil => rw [term_fold_short1]; exact Ext.fail _ _
        | cons update rest =>
          simp at hsz
          have h1 := (ih xs (by omega)).it cx loc [] st
          have h2 := fun st => pattern_ext_of ih pat (by omega) cx loc st
          have h3 := fun st => (ih init (by omega)).it cx loc [] st
          have h4 := fun st => (ih update (by omega)).it cx (loc.pushVars pat.vars) [] st
          have h1234 := Ext.trans h1 (Ext.trans (h2 _) (Ext.trans (h3 _) (h4 _)))
          rw [term_fold]
          simp only
          cases rest with
          | nil =>
            simp only
            split
            · exact h1234
            · split
              · exact h1234
              · exact Ext.trans h1234 (Ext.fail _ _)
          | cons proj rest =>
            cases rest with
            | nil =>
              simp at hsz
              simp only
              split
              · exact Ext.trans h1234 ((ih proj (by omega)).it _ _ _ _)
              · exact Ext.trans h1234 (Ext.fail _ _)
            | cons _ _ => exact Ext.trans h1234 (Ext.fail _ _)
    | tryCatch f c =>
      simp at hsz
      cases c with
      | none =>
        rw [term_try_none]
        exact Ext.trans ((ih f (by omega)).it _ _ _ _) (itermEmpty_ext _ _ _)
      | some c =>
        simp at hsz
        rw [term_try]
        exact Ext.trans ((ih f (by omega)).it _ _ _ _) ((ih c (by omega)).it _ _ _ _)
    | ite its els =>
      simp at hsz
      cases els with
      | none =>
        rw [term_ite_none]
        exact Ext.trans (compileIts_ext_aux ih its (by omega) cx loc tr st) (iteBuild_ext _ (.id, [], _))
      | some e =>
        simp at hsz
        rw [term_ite_some]
        exact Ext.trans (compileIts_ext_aux ih its (by omega) cx loc tr st)
          (Ext.trans (ih e (by omega) _ _ _ _) (iteBuild_ext _ _))
    | defs ds f =>
      simp at hsz
      rw [term_defs]
      exact Ext.trans (compileDefs_ext_aux ih ds (by omega) _ _ _ _) (ih f (by omega) _ _ _ _)
    | call name args =>
      simp at hsz
      rw [term_call]
      have h1 := itermList_ext_aux ih args (by omega) cx loc st
      split
      · exact Ext.trans h1 (Ext.fail _ _)
      · exact Ext.trans h1 (callC_ext _ _ _ _ _ _)
    | var x => rw [term_var]; exact varC_ext _ _ _
    | path f parts =>
      simp at hsz
      rw [term_path]
      exact Ext.trans ((ih f (by omega)).it _ _ _ _) (compileParts_ext_aux ih parts (by omega) _ _ _)

/-- frame lemma: compiling a term — any term of the language — only appends to the table -/
theorem term_ext (t : Term) (cx : Cx) (loc : Locals) (tr : Tr) (st : St) :
    Ext st (term cx loc tr t st).2.2 :=
  term_ext_aux (sizeOf t + 1) t (by omega) cx loc tr st

theorem it_extA {cx loc tr t st} : Ext st (it cx loc tr t st).2.2 := it_ext (fun st' => term_ext t _ _ _ st')

/-- the list compilers only append, too -/
theorem itermList_extA (cx loc) (ts : List Term) (st) : Ext st (itermList cx loc ts st).2 :=
  itermList_ext_aux (N := sizeOf ts) (fun t _ => term_ext t) ts (Nat.le_refl _) cx loc st
theorem compileIts_extA (cx loc tr) (its : List (Term × Term)) (st) : Ext st (compileIts cx loc tr its st).2 :=
  compileIts_ext_aux (N := sizeOf its) (fun t _ => term_ext t) its (Nat.le_refl _) cx loc tr st
theorem compileDefs_extA (cx loc tr) (ds : List Def) (st) : Ext st (compileDefs cx loc tr ds st).2 :=
  compileDefs_ext_aux (N := sizeOf ds) (fun t _ => term_ext t) ds (Nat.le_refl _) cx loc tr st
theorem compileParts_extA (cx loc) (ps : List (Part × Opt)) (st) : Ext st (compileParts cx loc ps st).2 :=
  compileParts_ext_aux (N := sizeOf ps) (fun t _ => term_ext t) ps (Nat.le_refl _) cx loc st
theorem compileStrParts_extA (cx loc ifmt) (ps : List StrPart) (st) : Ext st (compileStrParts cx loc ifmt ps st).2 :=
  compileStrParts_ext_aux (N := sizeOf ps) (fun t _ => term_ext t) ps (Nat.le_refl _) cx loc ifmt st
theorem compileEntries_extA (cx loc) (es : List (Term × Option Term)) (st) : Ext st (compileEntries cx loc es st).2 :=
  compileEntries_ext_aux (N := sizeOf es) (fun t _ => term_ext t) es (Nat.le_refl _) cx loc st
theorem pattern_extA (cx loc) (p : Pattern) (st) : Ext st (pattern cx loc p st).2 :=
  pattern_ext_of (N := sizeOf p) (fun t _ => term_ext t) p (Nat.le_refl _) cx loc st
theorem optIt_extA (cx loc st) (a : Option Term) : Ext st (optIt cx loc st a).2 :=
  optIt_ext (N := sizeOf a) (fun t _ => term_ext t) a (Nat.le_refl _) cx loc st

end Jaq.Core
