/-
  C08 helper lemmas, part 2: `cmpF` / `cmp` is a total preorder on the values whose numbers lie
  in a set on which `numCmp` is one; independence of the recursion fuel.
-/
import JaqVerif.Lemmas.C08Order

namespace Jaq.C08
open Jaq

/-! ### the domain predicate -/

theorem allNumsL_iff {p : Num → Bool} : ∀ {a : List Val}, allNumsL p a = true ↔ ∀ v ∈ a, allNums p v = true
  | [] => by simp [allNumsL]
  | v :: vs => by simp [allNumsL, allNumsL_iff (a := vs)]

theorem allNumsE_iff {p : Num → Bool} :
    ∀ {o : List (Val × Val)}, allNumsE p o = true ↔ ∀ e ∈ o, allNums p e.1 = true ∧ allNums p e.2 = true
  | [] => by simp [allNumsE]
  | (k, v) :: es => by simp [allNumsE, allNumsE_iff (o := es), and_assoc]

theorem allNums_arr {p : Num → Bool} {a : List Val} : allNums p (.arr a) = true ↔ ∀ v ∈ a, allNums p v = true := by
  rw [allNums]; exact allNumsL_iff

theorem allNums_obj {p : Num → Bool} {o : List (Val × Val)} :
    allNums p (.obj o) = true ↔ ∀ e ∈ o, allNums p e.1 = true ∧ allNums p e.2 = true := by
  rw [allNums]; exact allNumsE_iff

theorem allNums_mono {p q : Num → Bool} (h : ∀ n, p n = true → q n = true) :
    ∀ (k : Nat) (v : Val), v.size ≤ k → allNums p v = true → allNums q v = true
  | 0, v, hs, _ => by have := v.size_pos; omega
  | k + 1, v, hs, hv => by
    cases v with
    | num n => simp only [allNums] at hv ⊢; exact h n hv
    | arr a =>
      rw [allNums_arr] at hv ⊢
      intro x hx
      have := Val.size_lt_of_mem hx
      simp only [Val.size] at hs
      exact allNums_mono h k x (by omega) (hv x hx)
    | obj o =>
      rw [allNums_obj] at hv ⊢
      intro e he
      have := Val.size_entry_of_mem (k := e.1) (v := e.2) he
      simp only [Val.size] at hs
      exact ⟨allNums_mono h k e.1 (by omega) (hv e he).1, allNums_mono h k e.2 (by omega) (hv e he).2⟩
    | null => simp [allNums]
    | bool => simp [allNums]
    | bstr => simp [allNums]
    | tstr => simp [allNums]

theorem allNums_imp {p q : Num → Bool} (h : ∀ n, p n = true → q n = true) {v : Val}
    (hv : allNums p v = true) : allNums q v = true :=
  allNums_mono h v.size v (Nat.le_refl _) hv

/-- elements of an array / entries of an object are smaller and inherit the domain -/
theorem sub_arr {p : Num → Bool} {n : Nat} {a : List Val}
    (hs : (Val.arr a).size ≤ n + 1) (hp : allNums p (.arr a) = true) :
    ∀ v ∈ a, v.size ≤ n ∧ allNums p v = true := by
  intro v hv
  have := Val.size_lt_of_mem hv
  simp only [Val.size] at hs
  exact ⟨by omega, allNums_arr.1 hp v hv⟩

theorem sub_obj {p : Num → Bool} {n : Nat} {o : List (Val × Val)}
    (hs : (Val.obj o).size ≤ n + 1) (hp : allNums p (.obj o) = true) :
    ∀ e ∈ o, (e.1.size ≤ n ∧ allNums p e.1 = true) ∧ (e.2.size ≤ n ∧ allNums p e.2 = true) := by
  intro e he
  have := Val.size_entry_of_mem (k := e.1) (v := e.2) he
  simp only [Val.size] at hs
  exact ⟨⟨by omega, (allNums_obj.1 hp e he).1⟩, ⟨by omega, (allNums_obj.1 hp e he).2⟩⟩

/-! ### equations of `cmpF` -/

/-- the bytes of a text or byte string -/
def str? : Val → Option (List UInt8)
  | .bstr b | .tstr b => some b
  | _ => none

theorem cmpF_null (n : Nat) : cmpF (n + 1) .null .null = .eq := rfl
theorem cmpF_bool (n : Nat) (x y : Bool) : cmpF (n + 1) (.bool x) (.bool y) = cmpBool x y := rfl
theorem cmpF_num (n : Nat) (x y : Num) : cmpF (n + 1) (.num x) (.num y) = numCmp x y := rfl
theorem cmpF_arr (n : Nat) (x y : List Val) : cmpF (n + 1) (.arr x) (.arr y) = lexCmp (cmpF n) x y := rfl
theorem cmpF_obj (n : Nat) (x y : Entries) : cmpF (n + 1) (.obj x) (.obj y) = cmpObj (cmpF n) x y := rfl

theorem cmpF_str (n : Nat) {a b : Val} {x y : List UInt8} (ha : str? a = some x) (hb : str? b = some y) :
    cmpF (n + 1) a b = cmpBytes x y := by
  cases a <;> cases b <;> simp_all [str?, cmpF]

theorem cmpF_rank_ne (n : Nat) {a b : Val} (h : a.rank ≠ b.rank) :
    cmpF (n + 1) a b = compare a.rank b.rank := by
  cases a <;> cases b <;> simp_all [Val.rank, cmpF]

theorem same_rank_cases {a b : Val} (h : a.rank = b.rank) :
    (a = .null ∧ b = .null) ∨ (∃ x y, a = .bool x ∧ b = .bool y) ∨ (∃ x y, a = .num x ∧ b = .num y) ∨
    (∃ x y, str? a = some x ∧ str? b = some y) ∨ (∃ x y, a = .arr x ∧ b = .arr y) ∨
    (∃ x y, a = .obj x ∧ b = .obj y) := by
  cases a <;> cases b <;> simp_all [Val.rank, str?]

theorem same_rank_cases3 {a b d : Val} (h1 : a.rank = b.rank) (h2 : b.rank = d.rank) :
    (a = .null ∧ b = .null ∧ d = .null) ∨ (∃ x y z, a = .bool x ∧ b = .bool y ∧ d = .bool z) ∨
    (∃ x y z, a = .num x ∧ b = .num y ∧ d = .num z) ∨
    (∃ x y z, str? a = some x ∧ str? b = some y ∧ str? d = some z) ∨
    (∃ x y z, a = .arr x ∧ b = .arr y ∧ d = .arr z) ∨ (∃ x y z, a = .obj x ∧ b = .obj y ∧ d = .obj z) := by
  cases a <;> cases b <;> (try (simp [Val.rank] at h1; done)) <;> cases d <;>
    (try (simp [Val.rank] at h2; done)) <;> simp [str?]

/-! ### objects -/

theorem sortBy_ne_nil {α : Type} (c : α → α → Ordering) (x : α) (xs : List α) : sortBy c (x :: xs) ≠ [] := by
  intro h
  have := length_sortBy (c := c) (x :: xs)
  rw [h] at this; simp at this

/-- the three special cases of object comparison agree with the general arm -/
theorem cmpObj_eq_gen (c : Val → Val → Ordering) (x y : Entries) : cmpObj c x y = cmpObjGen c x y := by
  cases x with
  | nil =>
    cases y with
    | nil => simp [cmpObj, cmpObjGen, sortBy]
    | cons b bs =>
      simp only [cmpObj, cmpObjGen]
      cases h : sortBy (keyCmp c) (b :: bs) with
      | nil => exact absurd h (sortBy_ne_nil _ _ _)
      | cons q qs => simp [sortBy]
  | cons a as =>
    cases y with
    | nil =>
      simp only [cmpObj, cmpObjGen]
      cases h : sortBy (keyCmp c) (a :: as) with
      | nil => exact absurd h (sortBy_ne_nil _ _ _)
      | cons q qs => simp [sortBy]
    | cons b bs => rfl

def sortedKeys (c : Val → Val → Ordering) (x : Entries) : List Val := (sortBy (keyCmp c) x).map (·.1)
def sortedVals (c : Val → Val → Ordering) (x : Entries) : List Val := (sortBy (keyCmp c) x).map (·.2)

theorem mem_sortedKeys {c : Val → Val → Ordering} {x : Entries} {k : Val} (h : k ∈ sortedKeys c x) :
    ∃ e ∈ x, e.1 = k := by
  simp only [sortedKeys, List.mem_map] at h
  obtain ⟨e, he, rfl⟩ := h
  exact ⟨e, mem_sortBy.1 he, rfl⟩

theorem mem_sortedVals {c : Val → Val → Ordering} {x : Entries} {k : Val} (h : k ∈ sortedVals c x) :
    ∃ e ∈ x, e.2 = k := by
  simp only [sortedVals, List.mem_map] at h
  obtain ⟨e, he, rfl⟩ := h
  exact ⟨e, mem_sortBy.1 he, rfl⟩

theorem cmpObj_tpo {S : Val → Prop} {c : Val → Val → Ordering} (h : TPO S c) :
    TPO (fun o : Entries => ∀ e ∈ o, S e.1 ∧ S e.2) (cmpObj c) := by
  have hl := lexCmp_tpo h
  have hk : TPO (fun o : Entries => ∀ e ∈ o, S e.1 ∧ S e.2)
      (fun x y => lexCmp c (sortedKeys c x) (sortedKeys c y)) :=
    (TPO.comap (sortedKeys c) hl).mono (by
      intro o ho k hk
      obtain ⟨e, he, rfl⟩ := mem_sortedKeys hk
      exact (ho e he).1)
  have hv : TPO (fun o : Entries => ∀ e ∈ o, S e.1 ∧ S e.2)
      (fun x y => lexCmp c (sortedVals c x) (sortedVals c y)) :=
    (TPO.comap (sortedVals c) hl).mono (by
      intro o ho k hk
      obtain ⟨e, he, rfl⟩ := mem_sortedVals hk
      exact (ho e he).2)
  exact (hk.andThen hv).of_agree (fun x y _ _ => cmpObj_eq_gen c x y)

theorem cmpObj_congr {c c' : Val → Val → Ordering} (x y : Entries)
    (h : ∀ a b : Val, (∃ e ∈ x ++ y, a = e.1 ∨ a = e.2) → (∃ e ∈ x ++ y, b = e.1 ∨ b = e.2) → c a b = c' a b) :
    cmpObj c x y = cmpObj c' x y := by
  rw [cmpObj_eq_gen, cmpObj_eq_gen]
  have hs : ∀ z : Entries, (∀ e ∈ z, e ∈ x ++ y) → sortBy (keyCmp c) z = sortBy (keyCmp c') z := by
    intro z hz
    apply sortBy_congr
    intro p hp q hq
    exact h p.1 q.1 ⟨p, hz p hp, Or.inl rfl⟩ ⟨q, hz q hq, Or.inl rfl⟩
  have hx := hs x (fun e he => List.mem_append_left _ he)
  have hy := hs y (fun e he => List.mem_append_right _ he)
  simp only [cmpObjGen, hx, hy]
  congr 1
  · apply lexCmp_congr
    intro a ha b hb
    simp only [List.mem_map] at ha hb
    obtain ⟨e, he, rfl⟩ := ha
    obtain ⟨e', he', rfl⟩ := hb
    exact h _ _ ⟨e, List.mem_append_left _ (mem_sortBy.1 he), Or.inl rfl⟩
      ⟨e', List.mem_append_right _ (mem_sortBy.1 he'), Or.inl rfl⟩
  · apply lexCmp_congr
    intro a ha b hb
    simp only [List.mem_map] at ha hb
    obtain ⟨e, he, rfl⟩ := ha
    obtain ⟨e', he', rfl⟩ := hb
    exact h _ _ ⟨e, List.mem_append_left _ (mem_sortBy.1 he), Or.inr rfl⟩
      ⟨e', List.mem_append_right _ (mem_sortBy.1 he'), Or.inr rfl⟩

/-! ### strings and booleans -/

theorem cmpBytes_tpo : TPO (fun _ : List UInt8 => True) cmpBytes :=
  (lexCmp_tpo (TPO.comap UInt8.toNat natCompare_tpo)).mono (fun _ _ _ _ => trivial)

theorem cmpBool_tpo : TPO (fun _ : Bool => True) cmpBool := TPO.comap Bool.toNat natCompare_tpo

/-! ### fuel -/

/-- more fuel than the sizes does not change the comparison -/
theorem cmpF_fuel : ∀ (n : Nat) (a b : Val), a.size ≤ n → b.size ≤ n →
    ∀ m, n ≤ m → cmpF m a b = cmpF n a b
  | 0, a, _, ha, _, _, _ => by have := a.size_pos; omega
  | n + 1, a, b, ha, hb, m, hm => by
    obtain ⟨m, rfl⟩ : ∃ k, m = k + 1 := ⟨m - 1, by omega⟩
    have ih := cmpF_fuel n
    by_cases hr : a.rank = b.rank
    · rcases same_rank_cases hr with ⟨rfl, rfl⟩ | ⟨x, y, rfl, rfl⟩ | ⟨x, y, rfl, rfl⟩ | ⟨x, y, hx, hy⟩ |
        ⟨x, y, rfl, rfl⟩ | ⟨x, y, rfl, rfl⟩
      · rfl
      · rfl
      · rfl
      · rw [cmpF_str m hx hy, cmpF_str n hx hy]
      · rw [cmpF_arr, cmpF_arr]
        apply lexCmp_congr
        intro u hu v hv
        have := Val.size_lt_of_mem hu
        have := Val.size_lt_of_mem hv
        simp only [Val.size] at ha hb
        exact ih u v (by omega) (by omega) m (by omega)
      · rw [cmpF_obj, cmpF_obj]
        apply cmpObj_congr
        have key : ∀ u : Val, (∃ e ∈ x ++ y, u = e.1 ∨ u = e.2) → u.size ≤ n := by
          intro u ⟨e, he, hu⟩
          simp only [Val.size] at ha hb
          rcases List.mem_append.1 he with he | he
          · have := Val.size_entry_of_mem (k := e.1) (v := e.2) he
            rcases hu with rfl | rfl <;> omega
          · have := Val.size_entry_of_mem (k := e.1) (v := e.2) he
            rcases hu with rfl | rfl <;> omega
        intro u v hu hv
        exact ih u v (key u hu) (key v hv) m (by omega)
    · rw [cmpF_rank_ne m hr, cmpF_rank_ne n hr]

theorem cmp_eq_cmpF (a b : Val) (n : Nat) (ha : a.size ≤ n) (hb : b.size ≤ n) : cmp a b = cmpF n a b := by
  unfold cmp
  by_cases h : a.size + b.size ≤ n
  · exact (cmpF_fuel (a.size + b.size) a b (by omega) (by omega) n h).symm
  · exact cmpF_fuel n a b ha hb (a.size + b.size) (by omega)

/-! ### the lift -/

section lift
variable {p : Num → Bool} (hN : TPO (fun n => p n = true) numCmp)
include hN

/-- `cmpF n` is a total preorder on the values of size `≤ n` inside the domain -/
theorem cmpF_tpo : ∀ n : Nat, TPO (fun v : Val => v.size ≤ n ∧ allNums p v = true) (cmpF n)
  | 0 => by
    refine ⟨?_, ?_, ?_⟩
    · intro a ha; have := a.size_pos; omega
    · intro a b ha; have := a.size_pos; omega
    · intro a b d ha; have := a.size_pos; omega
  | n + 1 => by
    have ih := cmpF_tpo n
    have hL := lexCmp_tpo ih
    have hO := cmpObj_tpo ih
    refine ⟨?_, ?_, ?_⟩
    · intro a ⟨hs, hp⟩
      cases a with
      | null => rfl
      | bool x => exact cmpBool_tpo.refl x trivial
      | num x => exact hN.refl x (by simpa [allNums] using hp)
      | bstr x => exact cmpBytes_tpo.refl x trivial
      | tstr x => exact cmpBytes_tpo.refl x trivial
      | arr x => exact hL.refl x (sub_arr hs hp)
      | obj x => exact hO.refl x (sub_obj hs hp)
    · intro a b ⟨hsa, hpa⟩ ⟨hsb, hpb⟩
      by_cases hr : a.rank = b.rank
      · rcases same_rank_cases hr with ⟨rfl, rfl⟩ | ⟨x, y, rfl, rfl⟩ | ⟨x, y, rfl, rfl⟩ | ⟨x, y, hx, hy⟩ |
          ⟨x, y, rfl, rfl⟩ | ⟨x, y, rfl, rfl⟩
        · rfl
        · exact cmpBool_tpo.swap x y trivial trivial
        · exact hN.swap x y (by simpa [allNums] using hpa) (by simpa [allNums] using hpb)
        · rw [cmpF_str n hy hx, cmpF_str n hx hy]; exact cmpBytes_tpo.swap x y trivial trivial
        · exact hL.swap x y (sub_arr hsa hpa) (sub_arr hsb hpb)
        · exact hO.swap x y (sub_obj hsa hpa) (sub_obj hsb hpb)
      · rw [cmpF_rank_ne n hr, cmpF_rank_ne n (Ne.symm hr)]
        exact natCompare_tpo.swap _ _ trivial trivial
    · intro a b d ⟨hsa, hpa⟩ ⟨hsb, hpb⟩ ⟨hsd, hpd⟩ e1 e2
      have rle : ∀ {u v : Val}, cmpF (n + 1) u v ≠ .gt → u.rank ≤ v.rank := by
        intro u v h
        by_cases hr : u.rank = v.rank
        · omega
        · rw [cmpF_rank_ne n hr, ne_eq, Nat.compare_eq_gt] at h; omega
      have r1 := rle e1
      have r2 := rle e2
      by_cases hr : a.rank = d.rank
      · have hab : a.rank = b.rank := by omega
        have hbd : b.rank = d.rank := by omega
        rcases same_rank_cases3 hab hbd with ⟨rfl, rfl, rfl⟩ | ⟨x, y, z, rfl, rfl, rfl⟩ | ⟨x, y, z, rfl, rfl, rfl⟩ |
          ⟨x, y, z, hx, hy, hz⟩ | ⟨x, y, z, rfl, rfl, rfl⟩ | ⟨x, y, z, rfl, rfl, rfl⟩
        · simp [cmpF]
        · exact cmpBool_tpo.trans x y z trivial trivial trivial e1 e2
        · exact hN.trans x y z (by simpa [allNums] using hpa) (by simpa [allNums] using hpb)
            (by simpa [allNums] using hpd) e1 e2
        · rw [cmpF_str n hx hy] at e1
          rw [cmpF_str n hy hz] at e2
          rw [cmpF_str n hx hz]
          exact cmpBytes_tpo.trans x y z trivial trivial trivial e1 e2
        · exact hL.trans x y z (sub_arr hsa hpa) (sub_arr hsb hpb) (sub_arr hsd hpd) e1 e2
        · exact hO.trans x y z (sub_obj hsa hpa) (sub_obj hsb hpb) (sub_obj hsd hpd) e1 e2
      · rw [cmpF_rank_ne n hr, ne_eq, Nat.compare_eq_gt]; omega

/-- **`cmp` is a total preorder on the domain** -/
theorem cmp_tpo : TPO (fun v : Val => allNums p v = true) cmp := by
  refine ⟨?_, ?_, ?_⟩
  · intro a ha
    rw [cmp_eq_cmpF a a a.size (Nat.le_refl _) (Nat.le_refl _)]
    exact (cmpF_tpo hN a.size).refl a ⟨Nat.le_refl _, ha⟩
  · intro a b ha hb
    let n := a.size + b.size
    rw [cmp_eq_cmpF a b n (by omega) (by omega), cmp_eq_cmpF b a n (by omega) (by omega)]
    exact (cmpF_tpo hN n).swap a b ⟨by omega, ha⟩ ⟨by omega, hb⟩
  · intro a b d ha hb hd
    let n := a.size + b.size + d.size
    rw [cmp_eq_cmpF a b n (by omega) (by omega), cmp_eq_cmpF b d n (by omega) (by omega),
      cmp_eq_cmpF a d n (by omega) (by omega)]
    exact (cmpF_tpo hN n).trans a b d ⟨by omega, ha⟩ ⟨by omega, hb⟩ ⟨by omega, hd⟩

end lift

/-! ### `cmp` unfolded one level (fuel-free equations) -/

theorem cmp_arr (x y : List Val) : cmp (.arr x) (.arr y) = lexCmp cmp x y := by
  have hs : ∀ v ∈ x ++ y, v.size ≤ (Val.arr x).size + (Val.arr y).size - 1 := by
    intro v hv
    simp only [Val.size]
    rcases List.mem_append.1 hv with h | h <;> have := Val.size_lt_of_mem h <;> omega
  obtain ⟨n, hn⟩ : ∃ n, (Val.arr x).size + (Val.arr y).size = n + 1 :=
    ⟨(Val.arr x).size + (Val.arr y).size - 1, by simp only [Val.size]; omega⟩
  rw [cmp, hn, cmpF_arr]
  apply lexCmp_congr
  intro a ha b hb
  have h1 := hs a (List.mem_append_left _ ha)
  have h2 := hs b (List.mem_append_right _ hb)
  exact (cmp_eq_cmpF a b n (by omega) (by omega)).symm

theorem cmp_obj (x y : Entries) :
    cmp (.obj x) (.obj y) =
      (lexCmp cmp (sortedKeys cmp x) (sortedKeys cmp y)).then (lexCmp cmp (sortedVals cmp x) (sortedVals cmp y)) := by
  have hs : ∀ e ∈ x ++ y, e.1.size + e.2.size ≤ (Val.obj x).size + (Val.obj y).size - 1 := by
    intro e he
    simp only [Val.size]
    rcases List.mem_append.1 he with h | h <;> have := Val.size_entry_of_mem (k := e.1) (v := e.2) h <;> omega
  obtain ⟨n, hn⟩ : ∃ n, (Val.obj x).size + (Val.obj y).size = n + 1 :=
    ⟨(Val.obj x).size + (Val.obj y).size - 1, by simp only [Val.size]; omega⟩
  rw [cmp, hn, cmpF_obj]
  have : cmpObj (cmpF n) x y = cmpObj cmp x y := by
    apply cmpObj_congr
    intro a b ⟨e, he, hae⟩ ⟨e', he', hbe⟩
    have h1 := hs e he
    have h2 := hs e' he'
    have := e.1.size_pos; have := e.2.size_pos; have := e'.1.size_pos; have := e'.2.size_pos
    refine (cmp_eq_cmpF a b n ?_ ?_).symm
    · rcases hae with rfl | rfl <;> omega
    · rcases hbe with rfl | rfl <;> omega
  rw [this, cmpObj_eq_gen]; rfl

theorem cmp_str {a b : Val} {x y : List UInt8} (ha : str? a = some x) (hb : str? b = some y) :
    cmp a b = cmpBytes x y := by
  obtain ⟨n, hn⟩ : ∃ n, a.size + b.size = n + 1 := ⟨a.size + b.size - 1, by have := a.size_pos; omega⟩
  rw [cmp, hn, cmpF_str n ha hb]

theorem cmp_rank_lt {a b : Val} (h : a.rank < b.rank) : cmp a b = .lt := by
  obtain ⟨n, hn⟩ : ∃ n, a.size + b.size = n + 1 := ⟨a.size + b.size - 1, by have := a.size_pos; omega⟩
  rw [cmp, hn, cmpF_rank_ne n (by omega)]
  exact Nat.compare_eq_lt.2 h

theorem cmp_num (x y : Num) : cmp (.num x) (.num y) = numCmp x y := rfl
theorem cmp_bool (x y : Bool) : cmp (.bool x) (.bool y) = cmpBool x y := rfl

end Jaq.C08
