/-
  C03 helper lemmas, part 5 (round 2): construction and pulls of the new forms with "some fuel"
  (closures, `[f]`, arithmetic, `reduce`/`foreach`), and the simulation cases of `fold` over the
  shared lazily memoised list.
-/
import JaqVerif.Lemmas.C03Cases
namespace Jaq.C03
variable {D : List T}

/-! ### construction with some fuel: closures, arrays, arithmetic -/

theorem mkR_fvar {c : Ctx} {i t env v w res} (hl : lookupFn c i = some (t, env))
    (h : MkR D t ⟨env, c.labels⟩ v w res) : MkR D (.fvar i) c v w res := by
  obtain ⟨m, h⟩ := h
  exact ⟨m + 1, by rw [mk_succ]; simp only [mkStep, hl, h]⟩

theorem mkR_fvar_none {c : Ctx} {i v w} (hl : lookupFn c i = none) : MkR D (.fvar i) c v w (.nil, w) :=
  ⟨1, by rw [mk_succ]; simp only [mkStep, hl]⟩

theorem mkR_callA_noctx {c : Ctx} {ty i skip args v w} (hc : callCtx c skip args v = none) :
    MkR D (.callA ty i skip args) c v w (.nil, w) := ⟨1, by rw [mk_succ]; simp only [mkStep, hc]⟩

theorem mkR_callA_nodef {c c' : Ctx} {ty i skip args v w} (hc : callCtx c skip args v = some c') (hb : D[i]? = none) :
    MkR D (.callA ty i skip args) c v w (.nil, w) := ⟨1, by rw [mk_succ]; simp only [mkStep, hc, hb]⟩

theorem mkR_callA_inline {c c' : Ctx} {i skip args v w body res} (hc : callCtx c skip args v = some c')
    (hb : D[i]? = some body) (h : MkR D body c' v w res) : MkR D (.callA .inline i skip args) c v w res := by
  obtain ⟨m, h⟩ := h
  exact ⟨m + 1, by rw [mk_succ]; simp only [mkStep, hc, hb, h]⟩

theorem mkR_callA_catch {c c' : Ctx} {i skip args v w body a w1} (hc : callCtx c skip args v = some c')
    (hb : D[i]? = some body) (h : MkR D body c' v w (a, w1)) :
    MkR D (.callA .catch_ i skip args) c v w (.wrap .stack a, w1) := by
  obtain ⟨m, h⟩ := h
  exact ⟨m + 1, by rw [mk_succ]; simp only [mkStep, hc, hb, h]⟩

theorem mkR_tcallA {c c' : Ctx} {i skip args v w} (hc : callCtx c skip args v = some c') :
    MkR D (.tcallA i skip args) c v w (.chain .nil (.callA .inline i 0 []) c' v, w) :=
  ⟨1, by rw [mk_succ]; simp only [mkStep, hc]⟩

theorem mkR_tcallA_noctx {c : Ctx} {i skip args v w} (hc : callCtx c skip args v = none) :
    MkR D (.tcallA i skip args) c v w (.nil, w) := ⟨1, by rw [mk_succ]; simp only [mkStep, hc]⟩

theorem mkR_arr_some {f c v w a w1 x rest w2} (h : MkR D f c v w (a, w1))
    (hn : NextR D (.wrap (.collect []) a) w1 (some x, rest, w2)) : MkR D (.arr f) c v w (.once x, w2) := by
  obtain ⟨m1, h⟩ := h; obtain ⟨m2, hn⟩ := hn
  refine ⟨m1 + m2 + 1, ?_⟩
  rw [mk_succ]
  simp only [mkStep, mk_mono_le h (by omega : m1 ≤ m1 + m2), next_mono_le hn (by omega : m2 ≤ m1 + m2)]

theorem mkR_arr_none {f c v w a w1 rest w2} (h : MkR D f c v w (a, w1))
    (hn : NextR D (.wrap (.collect []) a) w1 (none, rest, w2)) : MkR D (.arr f) c v w (.nil, w2) := by
  obtain ⟨m1, h⟩ := h; obtain ⟨m2, hn⟩ := hn
  refine ⟨m1 + m2 + 1, ?_⟩
  rw [mk_succ]
  simp only [mkStep, mk_mono_le h (by omega : m1 ≤ m1 + m2), next_mono_le hn (by omega : m2 ≤ m1 + m2)]

theorem mkR_math {l c v w a w1 res} (op : MathOp) (r : T) (h : MkR D l c v w (a, w1))
    (hf : MkFlatR D a (.math op r c v) w1 res) : MkR D (.math op l r) c v w res := mkR_flat_of (fun _ => rfl) h hf

def MkMathRR (D : List T) (op : MathOp) (y : Val) (b : It) (w : World) (res : It × World) : Prop :=
  ∃ m, mkMathR (next D m) op y b w = some res

theorem mkR_mathR {r c v w b w1 op y res} (h : MkR D r c v w (b, w1)) (hf : MkMathRR D op y b w1 res) :
    MkR D (.mathR op y r) c v w res := by
  obtain ⟨m1, h⟩ := h; obtain ⟨m2, hf⟩ := hf
  refine ⟨m1 + m2 + 1, ?_⟩
  rw [mk_succ]
  simp only [mkStep, mk_mono_le h (by omega : m1 ≤ m1 + m2)]
  exact mkMathR_mono (fun _ _ _ h => next_mono_le h (by omega)) hf

theorem mkMathRR_slow {b : It} (op : MathOp) (y : Val) (w : World) (hu : ¬ b.upper = some 1) :
    MkMathRR D op y b w (.wrap (.mathL op y) b, w) := ⟨0, by simp [mkMathR, hu]⟩

theorem mkMathRR_none {b : It} {op y w b' w2} (hu : b.upper = some 1) (h : NextR D b w (none, b', w2)) :
    MkMathRR D op y b w (.nil, w2) := by
  obtain ⟨m, h⟩ := h
  exact ⟨m, by simp only [mkMathR, hu, h, if_true]⟩

theorem mkMathRR_some {b : It} {op y w x b' w2} (hu : b.upper = some 1) (h : NextR D b w (some x, b', w2)) :
    MkMathRR D op y b w (.once (mathItem op y x), w2) := by
  obtain ⟨m, h⟩ := h
  exact ⟨m, by simp only [mkMathR, hu, h, if_true]⟩

/-! ### pulls of `fold` with some fuel -/

def FoldEndR (D : List T) (kind : FoldKind) (upd : T) (ctx : Ctx) (cells : List Item) (src : It) (ended : Bool)
    (ini : It) (y : Val) (rest : It) (w : World) (res : Option Item × It × World) : Prop :=
  ∃ m, foldEnd (next D m) kind upd ctx cells src ended ini y rest w = some res

def FoldCellR (D : List T) (kind : FoldKind) (upd : T) (ctx : Ctx) (cells : List Item) (src : It) (ended : Bool)
    (ini : It) (pos : Nat) (y : Val) (rest : It) (cell : Item) (w : World) (res : Option Item × It × World) : Prop :=
  ∃ m, foldCell (mk D m) (next D m) kind upd ctx cells src ended ini pos y rest cell w = some res

def FoldOutR (D : List T) (kind : FoldKind) (upd : T) (ctx : Ctx) (cells : List Item) (src : It) (ended : Bool)
    (ini : It) (pos : Nat) (x : Val) (yi : Item) (rest : It) (w : World) (res : Option Item × It × World) : Prop :=
  ∃ m, foldOut (next D m) kind upd ctx cells src ended ini pos x yi rest w = some res

section
variable {kind : FoldKind} {upd : T} {ctx : Ctx} {cells : List Item} {src ini rest : It} {ended : Bool}

theorem foldEndR_reduce (y : Val) (w : World) :
    FoldEndR D .reduce upd ctx cells src ended ini y rest w (some (.ok y), .fold .reduce upd ctx cells src ended ini rest, w) :=
  ⟨0, rfl⟩

theorem foldEndR_next {y w res} (hk : kind ≠ .reduce) (h : NextR D (.fold kind upd ctx cells src ended ini rest) w res) :
    FoldEndR D kind upd ctx cells src ended ini y rest w res := by
  obtain ⟨m, h⟩ := h
  refine ⟨m, ?_⟩
  cases kind with
  | reduce => exact (hk rfl).elim
  | foreach => simpa only [foldEnd] using h
  | foreachP => simpa only [foldEnd] using h

theorem foldCellR_exn {pos y cell w} (hc : cell.val? = none) :
    FoldCellR D kind upd ctx cells src ended ini pos y rest cell w (some cell, .fold kind upd ctx cells src ended ini rest, w) :=
  ⟨0, by simp only [foldCell, hc]⟩

theorem foldCellR_ok {pos y cell x w ys w2 res} (hc : cell.val? = some x) (hm : MkR D upd (ctx.consVar x) y w (ys, w2))
    (h : NextR D (.fold kind upd ctx cells src ended ini (.fOut (pos + 1) x ys rest)) w2 res) :
    FoldCellR D kind upd ctx cells src ended ini pos y rest cell w res := by
  obtain ⟨m1, hm⟩ := hm; obtain ⟨m2, h⟩ := h
  refine ⟨m1 + m2, ?_⟩
  simp only [foldCell, hc, mk_mono_le hm (by omega : m1 ≤ m1 + m2), next_mono_le h (by omega : m2 ≤ m1 + m2)]

theorem foldOutR_exn {pos x yi w} (hc : yi.val? = none) :
    FoldOutR D kind upd ctx cells src ended ini pos x yi rest w (some yi, .fold kind upd ctx cells src ended ini rest, w) :=
  ⟨0, by simp only [foldOut, hc]⟩

theorem foldOutR_reduce {pos x yi yv w res} (hc : yi.val? = some yv)
    (h : NextR D (.fold .reduce upd ctx cells src ended ini (.fInp pos yv rest)) w res) :
    FoldOutR D .reduce upd ctx cells src ended ini pos x yi rest w res := by
  obtain ⟨m, h⟩ := h
  exact ⟨m, by simp only [foldOut, hc, h]⟩

theorem foldOutR_foreach {pos x yi yv w} (hc : yi.val? = some yv) :
    FoldOutR D .foreach upd ctx cells src ended ini pos x yi rest w
      (some (.ok yv), .fold .foreach upd ctx cells src ended ini (.fInp pos yv rest), w) :=
  ⟨0, by simp only [foldOut, hc]⟩

theorem foldOutR_foreachP {pos x yi yv w} (hc : yi.val? = some yv) :
    FoldOutR D .foreachP upd ctx cells src ended ini pos x yi rest w
      (some (.ok (pairVal x yv)), .fold .foreachP upd ctx cells src ended ini (.fInp pos yv rest), w) :=
  ⟨0, by simp only [foldOut, hc]⟩

/-- the agenda is empty and `init` is over -/
theorem nextR_fold_ini_done {w ini' w1} (h : NextR D ini w (none, ini', w1)) :
    NextR D (.fold kind upd ctx cells src ended ini .nil) w (none, .nil, w1) := by
  obtain ⟨m, h⟩ := h
  exact ⟨m + 1, by rw [next_succ]; simp only [nextStep, h]⟩

theorem nextR_fold_ini_exn {w x ini' w1} (h : NextR D ini w (some x, ini', w1)) (hx : x.val? = none) :
    NextR D (.fold kind upd ctx cells src ended ini .nil) w (some x, .fold kind upd ctx cells src ended ini' .nil, w1) := by
  obtain ⟨m, h⟩ := h
  exact ⟨m + 1, by rw [next_succ]; simp only [nextStep, h, hx]⟩

theorem nextR_fold_ini_ok {w x i ini' w1 res} (h : NextR D ini w (some x, ini', w1)) (hx : x.val? = some i)
    (hn : NextR D (.fold kind upd ctx cells src ended ini' (.fInp 0 i .nil)) w1 res) :
    NextR D (.fold kind upd ctx cells src ended ini .nil) w res := by
  obtain ⟨m1, h⟩ := h; obtain ⟨m2, hn⟩ := hn
  refine ⟨m1 + m2 + 1, ?_⟩
  rw [next_succ]
  simp only [nextStep, next_mono_le h (by omega : m1 ≤ m1 + m2), hx, next_mono_le hn (by omega : m2 ≤ m1 + m2)]

theorem nextR_fold_out_done {pos x ys w ys' w1 res} (h : NextR D ys w (none, ys', w1))
    (hn : NextR D (.fold kind upd ctx cells src ended ini rest) w1 res) :
    NextR D (.fold kind upd ctx cells src ended ini (.fOut pos x ys rest)) w res := by
  obtain ⟨m1, h⟩ := h; obtain ⟨m2, hn⟩ := hn
  refine ⟨m1 + m2 + 1, ?_⟩
  rw [next_succ]
  simp only [nextStep, next_mono_le h (by omega : m1 ≤ m1 + m2), next_mono_le hn (by omega : m2 ≤ m1 + m2)]

theorem nextR_fold_out_some {pos x ys w yi ys' w1 res} (h : NextR D ys w (some yi, ys', w1))
    (hn : FoldOutR D kind upd ctx cells src ended ini pos x yi
      (if ys'.upper = some 0 then rest else .fOut pos x ys' rest) w1 res) :
    NextR D (.fold kind upd ctx cells src ended ini (.fOut pos x ys rest)) w res := by
  obtain ⟨m1, h⟩ := h; obtain ⟨m2, hn⟩ := hn
  refine ⟨m1 + m2 + 1, ?_⟩
  rw [next_succ]
  simp only [nextStep, next_mono_le h (by omega : m1 ≤ m1 + m2)]
  exact foldOut_mono (fun _ _ _ h => next_mono_le h (by omega)) hn

/-- the node is in the list already: it is read, nothing is pulled -/
theorem nextR_fold_inp_memo {pos y cell w res} (hc : cells[pos]? = some cell)
    (hn : FoldCellR D kind upd ctx cells src ended ini pos y rest cell w res) :
    NextR D (.fold kind upd ctx cells src ended ini (.fInp pos y rest)) w res := by
  obtain ⟨m, hn⟩ := hn
  refine ⟨m + 1, ?_⟩
  rw [next_succ]
  simp only [nextStep, hc]
  exact hn

theorem nextR_fold_inp_ended {pos y w res} (hc : cells[pos]? = none) (he : ended = true)
    (hn : FoldEndR D kind upd ctx cells src ended ini y rest w res) :
    NextR D (.fold kind upd ctx cells src ended ini (.fInp pos y rest)) w res := by
  obtain ⟨m, hn⟩ := hn
  refine ⟨m + 1, ?_⟩
  rw [next_succ]
  simp only [nextStep, hc, he, if_true]
  subst he
  exact hn

theorem nextR_fold_inp_srcdone {pos y w s' w1 res} (hc : cells[pos]? = none) (he : ended = false)
    (h : NextR D src w (none, s', w1)) (hn : FoldEndR D kind upd ctx cells .nil true ini y rest w1 res) :
    NextR D (.fold kind upd ctx cells src ended ini (.fInp pos y rest)) w res := by
  obtain ⟨m1, h⟩ := h; obtain ⟨m2, hn⟩ := hn
  refine ⟨m1 + m2 + 1, ?_⟩
  rw [next_succ]
  simp only [nextStep, hc, he, next_mono_le h (by omega : m1 ≤ m1 + m2)]
  exact foldEnd_mono (fun _ _ _ h => next_mono_le h (by omega)) hn

/-- the node is forced: exactly one pull of the iterator under the list -/
theorem nextR_fold_inp_srcsome {pos y w x s' w1 res} (hc : cells[pos]? = none) (he : ended = false)
    (h : NextR D src w (some x, s', w1)) (hn : FoldCellR D kind upd ctx (cells ++ [x]) s' false ini pos y rest x w1 res) :
    NextR D (.fold kind upd ctx cells src ended ini (.fInp pos y rest)) w res := by
  obtain ⟨m1, h⟩ := h; obtain ⟨m2, hn⟩ := hn
  refine ⟨m1 + m2 + 1, ?_⟩
  rw [next_succ]
  simp only [nextStep, hc, he, next_mono_le h (by omega : m1 ≤ m1 + m2)]
  exact foldCell_mono (fun _ _ _ _ _ h => mk_mono_le h (by omega)) (fun _ _ _ h => next_mono_le h (by omega)) hn

end

/-! ### `Matches` against a predicate on results -/

def MatchesP (D : List T) (r : Step × World) (P : Option Item × It × World → Prop) : Prop :=
  match r with
  | (.done, ws') => ∃ it', P (none, it', ws')
  | (.yield x th', ws') => ∃ it', P (some x, it', ws') ∧ Sync D it' th'

theorem MatchesP.mono {r : Step × World} {P Q : Option Item × It × World → Prop} (h : ∀ res, P res → Q res)
    (hm : MatchesP D r P) : MatchesP D r Q := by
  obtain ⟨s, ws'⟩ := r
  cases s with
  | done => obtain ⟨it', hn⟩ := hm; exact ⟨it', h _ hn⟩
  | yield x th' => obtain ⟨it', hn, hs⟩ := hm; exact ⟨it', h _ hn, hs⟩

theorem matchesP_of {r : Step × World} {it : It} {w : World} (h : Matches D r it w) : MatchesP D r (NextR D it w) := by
  obtain ⟨s, ws'⟩ := r
  cases s <;> exact h

theorem matches_of {r : Step × World} {it : It} {w : World} (h : MatchesP D r (NextR D it w)) : Matches D r it w := by
  obtain ⟨s, ws'⟩ := r
  cases s <;> exact h

/-! ### the simulation cases of `fold` -/

theorem force_fold_out_head {n kind upd ctx cells src ended ini pos x ys rest w r}
    (h : force D n (.fold kind upd ctx cells src ended ini (.fOut pos x ys rest)) w = some r) :
    ∃ r1, force D n ys w = some r1 := by
  cases n with
  | zero => simp [force] at h
  | succ n =>
    rw [force_succ] at h
    simp only [forceStep] at h
    cases h1 : force D n ys w with
    | none => simp [h1] at h
    | some r1 => exact ⟨r1, force_mono D _ _ _ _ h1⟩

theorem force_fold_ini_head {n kind upd ctx cells src ended ini w r}
    (h : force D n (.fold kind upd ctx cells src ended ini .nil) w = some r) :
    ∃ r1, force D n ini w = some r1 := by
  cases n with
  | zero => simp [force] at h
  | succ n =>
    rw [force_succ] at h
    simp only [forceStep] at h
    cases h1 : force D n ini w with
    | none => simp [h1] at h
    | some r1 => exact ⟨r1, force_mono D _ _ _ _ h1⟩

/-- the purity facts carried by a fold state -/
structure FoldPure (upd : T) (ctx : Ctx) (src ini : Th) : Prop where
  upd : upd.pureIdx = true
  ctx : ctx.pure = true
  src : src.pureIdx = true
  ini : ini.pureIdx = true

theorem FoldPure.of {kind upd ctx cells src ended ini stk}
    (h : (Th.fold kind upd ctx cells src ended ini stk).pureIdx = true) : FoldPure upd ctx src ini ∧ stk.pureIdx = true := by
  simp only [Th.pureIdx, Bool.and_eq_true] at h
  exact ⟨⟨h.1.1.1.1, h.1.1.1.2, h.1.1.2, h.1.2⟩, h.2⟩

theorem FoldPure.fold {upd ctx src ini} (h : FoldPure upd ctx src ini) (kind : FoldKind) (cells : List Item) (ended : Bool)
    {stk : Th} (hs : stk.pureIdx = true) : (Th.fold kind upd ctx cells src ended ini stk).pureIdx = true := by
  simp [Th.pureIdx, h.upd, h.ctx, h.src, h.ini, hs]

section
variable {kind : FoldKind} {upd : T} {ctx : Ctx} {cells : List Item} {src ini rest : It} {src' ini' rest' : Th}
  {ended : Bool}

theorem foldEndCase {n : Nat} (hA : A D n) (hsrc : SyncG D .src src src') (hini : Sync D ini ini')
    (hrest : SyncG D .stack rest rest') (hp : FoldPure upd ctx src' ini') (hpr : rest'.pureIdx = true) {y w r}
    (hf : foldEndS (force D n) kind upd ctx cells src' ended ini' y rest' w = some r) :
    MatchesP D r (FoldEndR D kind upd ctx cells src ended ini y rest w) := by
  have hsy : Sync D (.fold kind upd ctx cells src ended ini rest) (.fold kind upd ctx cells src' ended ini' rest') :=
    SyncG.fold hsrc hini hrest
  have hpp := hp.fold kind cells ended hpr
  cases kind with
  | reduce =>
    simp only [foldEndS, Option.some.injEq] at hf
    subst hf
    exact ⟨_, foldEndR_reduce y w, hsy⟩
  | foreach =>
    simp only [foldEndS] at hf
    exact (matchesP_of (hA _ _ _ _ _ (Rel.sync w hsy) hpp hf)).mono (fun res h => foldEndR_next (by simp) h)
  | foreachP =>
    simp only [foldEndS] at hf
    exact (matchesP_of (hA _ _ _ _ _ (Rel.sync w hsy) hpp hf)).mono (fun res h => foldEndR_next (by simp) h)

theorem foldCellCase {n : Nat} (hA : A D n) (hB : B D n) (hsrc : SyncG D .src src src') (hini : Sync D ini ini')
    (hrest : SyncG D .stack rest rest') (hp : FoldPure upd ctx src' ini') (hpr : rest'.pureIdx = true) {pos y cell w r}
    (hf : foldCellS (force D n) kind upd ctx cells src' ended ini' pos y rest' cell w = some r) :
    MatchesP D r (FoldCellR D kind upd ctx cells src ended ini pos y rest cell w) := by
  unfold foldCellS at hf
  split at hf
  · rename_i x hx
    obtain ⟨r1, h1⟩ := force_fold_out_head hf
    obtain ⟨ys, w2, hmk, _⟩ := hB _ _ _ _ _ hp.upd (by simpa using hp.ctx) h1
    have hpp : (Th.fold kind upd ctx cells src' ended ini' (.fOut (pos + 1) x (.run upd (ctx.consVar x) y) rest')).pureIdx = true :=
      hp.fold kind cells ended (by simp [Th.pureIdx, hp.upd, hp.ctx, hpr])
    have hm := hA _ _ _ _ _ (Rel.foldTop (kind := kind) (cells := cells) (ended := ended) (pos := pos + 1) (x := x)
      hsrc hini (Rel.mk hmk) hrest) hpp hf
    exact (matchesP_of hm).mono (fun res h => foldCellR_ok hx hmk h)
  · rename_i hx
    simp only [Option.some.injEq] at hf
    subst hf
    exact ⟨_, foldCellR_exn hx, SyncG.fold hsrc hini hrest⟩

theorem foldOutSCase {n : Nat} (hA : A D n) (hsrc : SyncG D .src src src') (hini : Sync D ini ini')
    (hrest : SyncG D .stack rest rest') (hp : FoldPure upd ctx src' ini') (hpr : rest'.pureIdx = true) {pos x yi w r}
    (hf : foldOutS (force D n) kind upd ctx cells src' ended ini' pos x yi rest' w = some r) :
    MatchesP D r (FoldOutR D kind upd ctx cells src ended ini pos x yi rest w) := by
  unfold foldOutS at hf
  split at hf
  · rename_i yv hy
    have hsy : Sync D (.fold kind upd ctx cells src ended ini (.fInp pos yv rest))
        (.fold kind upd ctx cells src' ended ini' (.fInp pos yv rest')) := SyncG.fold hsrc hini (SyncG.sInp hrest)
    cases kind with
    | reduce =>
      simp only at hf
      have hm := hA _ _ _ _ _ (Rel.sync w hsy) (hp.fold _ cells ended (by simpa [Th.pureIdx] using hpr)) hf
      exact (matchesP_of hm).mono (fun res h => foldOutR_reduce hy h)
    | foreach =>
      simp only [Option.some.injEq] at hf
      subst hf
      exact ⟨_, foldOutR_foreach hy, hsy⟩
    | foreachP =>
      simp only [Option.some.injEq] at hf
      subst hf
      exact ⟨_, foldOutR_foreachP hy, hsy⟩
  · rename_i hy
    simp only [Option.some.injEq] at hf
    subst hf
    exact ⟨_, foldOutR_exn hy, SyncG.fold hsrc hini hrest⟩

/-- the source of the list is pulled in the same world on both sides -/
theorem srcRel {w : World} (h : SyncG D .src src src') : Rel D src w src' w := by
  cases h with
  | srcSync hs => exact Rel.sync w hs
  | srcFresh hm => exact Rel.mk (hm w)

/-- `Fold::Input` on top: the next node of the list is read (or forced by one pull) -/
theorem foldInpCase (hD : DPure D) {n : Nat} (hA : A D n) (hB : B D n) (hsrc : SyncG D .src src src') (hini : Sync D ini ini')
    (hrest : SyncG D .stack rest rest') (hp : FoldPure upd ctx src' ini') (hpr : rest'.pureIdx = true) {pos y w r}
    (hf : force D (n + 1) (.fold kind upd ctx cells src' ended ini' (.fInp pos y rest')) w = some r) :
    Matches D r (.fold kind upd ctx cells src ended ini (.fInp pos y rest)) w := by
  rw [force_succ] at hf
  simp only [forceStep] at hf
  apply matches_of
  split at hf
  · rename_i cell hc
    exact (foldCellCase hA hB hsrc hini hrest hp hpr hf).mono (fun res h => nextR_fold_inp_memo hc h)
  · rename_i hc
    split at hf
    · rename_i he
      exact (foldEndCase hA hsrc hini hrest hp hpr hf).mono (fun res h => nextR_fold_inp_ended hc he h)
    · rename_i he
      have he' : ended = false := by simpa using he
      split at hf
      · simp at hf
      · rename_i w1 heq
        obtain ⟨s2, hn⟩ := hA _ _ _ _ _ (srcRel hsrc) hp.src heq
        have hp' : FoldPure upd ctx .nil ini' := ⟨hp.upd, hp.ctx, rfl, hp.ini⟩
        exact (foldEndCase hA (SyncG.srcSync SyncG.nil) hini hrest hp' hpr hf).mono
          (fun res h => nextR_fold_inp_srcdone hc he' hn h)
      · rename_i x src2 w1 heq
        obtain ⟨s2, hn, hs2⟩ := hA _ _ _ _ _ (srcRel hsrc) hp.src heq
        have hq := force_pure hD n _ _ _ _ _ hp.src heq
        have hp' : FoldPure upd ctx src2 ini' := ⟨hp.upd, hp.ctx, hq, hp.ini⟩
        exact (foldCellCase hA hB (SyncG.srcSync hs2) hini hrest hp' hpr hf).mono
          (fun res h => nextR_fold_inp_srcsome hc he' hn h)

/-- `Fold::Output` on top (its iterator possibly built ahead) -/
theorem foldOutCase (hD : DPure D) {n : Nat} (hA : A D n) (hsrc : SyncG D .src src src') (hini : Sync D ini ini')
    {ys wi ys' ws} (hys : Rel D ys wi ys' ws) (hrest : SyncG D .stack rest rest') (hp : FoldPure upd ctx src' ini')
    (hpy : ys'.pureIdx = true) (hpr : rest'.pureIdx = true) {pos x r}
    (hf : force D (n + 1) (.fold kind upd ctx cells src' ended ini' (.fOut pos x ys' rest')) ws = some r) :
    Matches D r (.fold kind upd ctx cells src ended ini (.fOut pos x ys rest)) wi := by
  rw [force_succ] at hf
  simp only [forceStep] at hf
  split at hf
  · simp at hf
  · rename_i w1 heq
    obtain ⟨ys2, hn⟩ := hA _ _ _ _ _ hys hpy heq
    have hm := hA _ _ _ _ _ (Rel.sync w1 (SyncG.fold (kind := kind) (cells := cells) (ended := ended) hsrc hini hrest))
      (hp.fold kind cells ended hpr) hf
    exact Matches.transfer (fun res h => nextR_fold_out_done hn h) hm
  · rename_i yi ys2' w1 heq
    obtain ⟨ys2, hn, hs2⟩ := hA _ _ _ _ _ hys hpy heq
    have hq := force_pure hD n _ _ _ _ _ hpy heq
    have hrest2 : SyncG D .stack (if ys2.upper = some 0 then rest else .fOut pos x ys2 rest) (.fOut pos x ys2' rest') := by
      by_cases hu : ys2.upper = some 0
      · rw [if_pos hu]; exact SyncG.sDrop (sync_upper0_dead hs2 hu) hrest
      · rw [if_neg hu]; exact SyncG.sOut hs2 hrest
    apply matches_of
    exact (foldOutSCase hA hsrc hini hrest2 hp (by simp [Th.pureIdx, hq, hpr]) hf).mono
      (fun res h => nextR_fold_out_some hn h)

/-- an `Output` frame the interpreter has dropped already (its iterator was exhausted) -/
theorem foldDropCase {n : Nat} (hA : A D n) (hsrc : SyncG D .src src src') (hini : Sync D ini ini')
    (hrest : SyncG D .stack rest rest') (hp : FoldPure upd ctx src' ini') (hpr : rest'.pureIdx = true) {pos x ys' w r}
    (hd : Dead D ys')
    (hf : force D (n + 1) (.fold kind upd ctx cells src' ended ini' (.fOut pos x ys' rest')) w = some r) :
    Matches D r (.fold kind upd ctx cells src ended ini rest) w := by
  rw [force_succ] at hf
  simp only [forceStep] at hf
  obtain ⟨k, hk⟩ := hd w
  split at hf
  · simp at hf
  · rename_i w1 heq
    have := force_det heq hk
    simp only [Prod.mk.injEq, true_and] at this
    subst this
    exact hA _ _ _ _ _ (Rel.sync _ (SyncG.fold (kind := kind) (cells := cells) (ended := ended) hsrc hini hrest))
      (hp.fold kind cells ended hpr) hf
  · rename_i yi ys2' w1 heq
    have := force_det heq hk
    simp at this

/-- the agenda is empty: the next output of `init` (whose iterator is possibly built ahead) -/
theorem foldEmptyCase (hD : DPure D) {n : Nat} (hA : A D n) (hsrc : SyncG D .src src src') {wi ws}
    (hini : Rel D ini wi ini' ws) (hp : FoldPure upd ctx src' ini') {r}
    (hf : force D (n + 1) (.fold kind upd ctx cells src' ended ini' .nil) ws = some r) :
    Matches D r (.fold kind upd ctx cells src ended ini .nil) wi := by
  rw [force_succ] at hf
  simp only [forceStep] at hf
  split at hf
  · simp at hf
  · rename_i w1 heq
    obtain ⟨i2, hn⟩ := hA _ _ _ _ _ hini hp.ini heq
    simp only [Option.some.injEq] at hf
    subst hf
    exact ⟨_, nextR_fold_ini_done hn⟩
  · rename_i x ini2' w1 heq
    obtain ⟨i2, hn, hs2⟩ := hA _ _ _ _ _ hini hp.ini heq
    have hq := force_pure hD n _ _ _ _ _ hp.ini heq
    have hp' : FoldPure upd ctx src' ini2' := ⟨hp.upd, hp.ctx, hp.src, hq⟩
    split at hf
    · rename_i i hx
      have hm := hA _ _ _ _ _ (Rel.sync w1 (SyncG.fold (kind := kind) (cells := cells) (ended := ended) hsrc hs2
        (SyncG.sInp (pos := 0) (y := i) SyncG.sNil))) (hp'.fold kind cells ended rfl) hf
      exact Matches.transfer (fun res h => nextR_fold_ini_ok hn hx h) hm
    · rename_i hx
      simp only [Option.some.injEq] at hf
      subst hf
      exact ⟨_, nextR_fold_ini_exn hn hx, SyncG.fold hsrc hs2 SyncG.sNil⟩

end

/-- `init` was pulled while the fold was built (`next_if_one`): the reference catches up -/
theorem foldFastCase (hD : DPure D) {n : Nat} (hA : A D n) {kind upd ctx cells src src' ended ini' wi ws i th' r}
    (hsrc : SyncG D .src src src') (hini : ∃ m, force D m ini' ws = some (.yield (.ok i) th', wi)) (hd : Dead D th')
    (hp : FoldPure upd ctx src' ini')
    (hf : force D (n + 1) (.fold kind upd ctx cells src' ended ini' .nil) ws = some r) :
    Matches D r (.fold kind upd ctx cells src ended .nil (.fInp 0 i .nil)) wi := by
  obtain ⟨m, hm⟩ := hini
  rw [force_succ] at hf
  simp only [forceStep] at hf
  split at hf
  · simp at hf
  · rename_i w1 heq
    have := force_det heq hm
    simp at this
  · rename_i x ini2' w1 heq
    have := force_det heq hm
    simp only [Prod.mk.injEq, Step.yield.injEq] at this
    obtain ⟨⟨rfl, rfl⟩, rfl⟩ := this
    have hq := force_pure hD n _ _ _ _ _ hp.ini heq
    simp only [Item.val?] at hf
    exact hA _ _ _ _ _ (Rel.sync _ (SyncG.fold (kind := kind) (cells := cells) (ended := ended) hsrc (SyncG.dead hd)
      (SyncG.sInp (pos := 0) (y := i) SyncG.sNil))) ((FoldPure.mk hp.upd hp.ctx hp.src hq).fold kind cells ended rfl) hf

/-! ### sources of `reduce`/`foreach` whose construction touches nothing -/

theorem mkMapSrc_stable {a : It} (h : a.upper ≠ some 1 ∨ ∃ x, a = .once x) (m : Nat) (w : World) :
    mkMapSrc (next D (m + 1)) a w = some (a, w) := by
  rcases h with h | ⟨x, rfl⟩
  · simp [mkMapSrc, h]
  · have : next D (m + 1) (.once x) w = some (some x, .nil, w) := by rw [next_succ]; rfl
    simp only [mkMapSrc, It.upper, this, if_true]

theorem lazySrc0_mk {t : T} (h : t.lazySrc0 = true) (c : Ctx) (v : Val) :
    ∃ a, (∀ w, mk D 1 t c v w = some (a, w)) ∧ (a.upper ≠ some 1 ∨ ∃ x, a = .once x) ∧
      (t.noUpper = true → a.upper = none) := by
  cases t <;> simp [T.lazySrc0] at h
  · exact ⟨.once (.ok v), fun w => by rw [mk_succ]; rfl, Or.inr ⟨_, rfl⟩, by simp [T.noUpper]⟩
  · rename_i x; exact ⟨.once (.ok x), fun w => by rw [mk_succ]; rfl, Or.inr ⟨_, rfl⟩, by simp [T.noUpper]⟩
  · exact ⟨.nil, fun w => by rw [mk_succ]; rfl, Or.inl (by simp [It.upper]), by simp [T.noUpper]⟩
  · exact ⟨.once (.err v), fun w => by rw [mk_succ]; rfl, Or.inr ⟨_, rfl⟩, by simp [T.noUpper]⟩
  · rename_i x; exact ⟨.once (.halt x), fun w => by rw [mk_succ]; rfl, Or.inr ⟨_, rfl⟩, by simp [T.noUpper]⟩
  · exact ⟨.inputs, fun w => by rw [mk_succ]; rfl, Or.inl (by simp [It.upper]), fun _ => rfl⟩
  · rename_i a b s; exact ⟨.range a b s, fun w => by rw [mk_succ]; rfl, Or.inl (by simp [It.upper]), fun _ => rfl⟩

theorem noUpper_lazySrc0 {t : T} (h : t.noUpper = true) : t.lazySrc0 = true := by
  cases t <;> simp [T.noUpper] at h <;> rfl

theorem lazySrc1_mk {t : T} (h : t.lazySrc1 = true) (c : Ctx) (v : Val) :
    ∃ a, (∀ w, mk D 2 t c v w = some (a, w)) ∧ (a.upper ≠ some 1 ∨ ∃ x, a = .once x) := by
  have base : t.lazySrc0 = true → ∃ a, (∀ w, mk D 2 t c v w = some (a, w)) ∧ (a.upper ≠ some 1 ∨ ∃ x, a = .once x) := by
    intro h0
    obtain ⟨a, hm, hs, _⟩ := lazySrc0_mk (D := D) h0 c v
    exact ⟨a, fun w => mk_mono_le (hm w) (by omega), hs⟩
  cases t with
  | comma l r =>
    simp only [T.lazySrc1] at h
    obtain ⟨a, hm, _, _⟩ := lazySrc0_mk (D := D) h c v
    exact ⟨.chain a r c v, fun w => by rw [mk_succ]; simp only [mkStep, hm w], Or.inl (by simp [It.upper])⟩
  | pipe l r =>
    simp only [T.lazySrc1] at h
    obtain ⟨a, hm, _, hu⟩ := lazySrc0_mk (D := D) (noUpper_lazySrc0 h) c v
    have hu' := hu h
    exact ⟨.flat a (.pipe r c) .nil, fun w => by rw [mk_succ]; simp [mkStep, hm w, mkFlatWith, hu'],
      Or.inl (by simp [It.upper])⟩
  | _ => exact base (by simpa [T.lazySrc1] using h)

theorem lazySrc_mk {t : T} (h : t.lazySrc = true) (c : Ctx) (v : Val) :
    ∃ a, (∀ w, mk D 3 t c v w = some (a, w)) ∧ (a.upper ≠ some 1 ∨ ∃ x, a = .once x) := by
  have base : t.lazySrc1 = true → ∃ a, (∀ w, mk D 3 t c v w = some (a, w)) ∧ (a.upper ≠ some 1 ∨ ∃ x, a = .once x) := by
    intro h0
    obtain ⟨a, hm, hs⟩ := lazySrc1_mk (D := D) h0 c v
    exact ⟨a, fun w => mk_mono_le (hm w) (by omega), hs⟩
  cases t with
  | limit k f =>
    simp only [T.lazySrc] at h
    obtain ⟨a, hm, _⟩ := lazySrc1_mk (D := D) h c v
    cases k with
    | zero => exact ⟨.nil, fun w => by rw [mk_succ]; rfl, Or.inl (by simp [It.upper])⟩
    | succ k =>
      exact ⟨.wrap (.limit (k + 1)) a, fun w => by rw [mk_succ]; simp only [mkStep, hm w],
        Or.inl (by simp [It.upper, Wr.transparent])⟩
  | tryCatch f g =>
    simp only [T.lazySrc] at h
    obtain ⟨a, hm, _⟩ := lazySrc1_mk (D := D) h c v
    exact ⟨.wrap (.try_ g c) a, fun w => by rw [mk_succ]; simp only [mkStep, hm w],
      Or.inl (by simp [It.upper, Wr.transparent])⟩
  | _ => exact base (by simpa [T.lazySrc] using h)

/-! ### construction of `reduce`/`foreach` -/

def MkFoldInitR (D : List T) (kind : FoldKind) (upd p : T) (ctx : Ctx) (src ib : It) (w : World) (res : It × World) : Prop :=
  ∃ m, mkFoldInit (next D m) kind upd p ctx src ib w = some res

theorem mkR_fold {kind xs init upd p c v w a ib w3 res} (hxs : ∀ w, mk D 3 xs c v w = some (a, w))
    (hst : a.upper ≠ some 1 ∨ ∃ x, a = .once x) (hi : MkR D init c v w (ib, w3))
    (ht : MkFoldInitR D kind upd p c a ib w3 res) : MkR D (.fold kind xs init upd p) c v w res := by
  obtain ⟨m1, hi⟩ := hi; obtain ⟨m2, ht⟩ := ht
  refine ⟨(m1 + m2 + 3) + 1, ?_⟩
  rw [mk_succ]
  simp only [mkStep, mk_mono_le (hxs w) (by omega : 3 ≤ m1 + m2 + 3)]
  have hms : mkMapSrc (next D (m1 + m2 + 3)) a w = some (a, w) := mkMapSrc_stable hst (m1 + m2 + 2) w
  simp only [hms, mk_mono_le hi (by omega : m1 ≤ m1 + m2 + 3)]
  exact mkFoldInit_mono (fun _ _ _ h => next_mono_le h (by omega)) ht

theorem mkFoldInitR_slow {kind upd p ctx src} {ib : It} (w : World) (hu : ¬ ib.upper = some 1) :
    MkFoldInitR D kind upd p ctx src ib w (wrapProj kind p ctx (.fold kind upd ctx [] src false ib .nil), w) :=
  ⟨0, by simp [mkFoldInit, hu]⟩

theorem mkFoldInitR_none {kind upd p ctx src} {ib : It} {w ib' w4} (hu : ib.upper = some 1)
    (h : NextR D ib w (none, ib', w4)) : MkFoldInitR D kind upd p ctx src ib w (.nil, w4) := by
  obtain ⟨m, h⟩ := h
  exact ⟨m, by simp only [mkFoldInit, hu, h, if_true]⟩

theorem mkFoldInitR_exn {kind upd p ctx src} {ib : It} {w x ib' w4} (hu : ib.upper = some 1)
    (h : NextR D ib w (some x, ib', w4)) (hx : x.val? = none) : MkFoldInitR D kind upd p ctx src ib w (.once x, w4) := by
  obtain ⟨m, h⟩ := h
  exact ⟨m, by simp only [mkFoldInit, hu, h, hx, if_true]⟩

theorem mkFoldInitR_ok {kind upd p ctx src} {ib : It} {w x i ib' w4} (hu : ib.upper = some 1)
    (h : NextR D ib w (some x, ib', w4)) (hx : x.val? = some i) :
    MkFoldInitR D kind upd p ctx src ib w
      (wrapProj kind p ctx (.fold kind upd ctx [] src false .nil (.fInp 0 i .nil)), w4) := by
  obtain ⟨m, h⟩ := h
  exact ⟨m, by simp only [mkFoldInit, hu, h, hx, if_true]⟩

/-- the fold proper (without the projection of `foreach`): after construction the interpreter's
state is related to the reference's unstarted fold, or both are finished in the same way -/
theorem foldB {n : Nat} (hB : B D n) {kind : FoldKind} {xs init upd : T} {c v w}
    (hxs : xs.lazySrc = true) (hpi : init.pureIdx = true) (hc : c.pure = true) {r1}
    (h1 : force D n (.run init c v) w = some r1) :
    ∃ a ib w3, (∀ w, mk D 3 xs c v w = some (a, w)) ∧ (a.upper ≠ some 1 ∨ ∃ x, a = .once x) ∧
      MkR D init c v w (ib, w3) ∧
      ((¬ ib.upper = some 1 ∧
          Rel D (.fold kind upd c [] a false ib .nil) w3 (.fold kind upd c [] (.run xs c v) false (.run init c v) .nil) w) ∨
       (ib.upper = some 1 ∧ ∃ ib' w4, NextR D ib w3 (none, ib', w4) ∧ r1 = (.done, w4)) ∨
       (ib.upper = some 1 ∧ ∃ x ib' w4 th', NextR D ib w3 (some x, ib', w4) ∧ r1 = (.yield x th', w4) ∧ Dead D th')) := by
  obtain ⟨a, hm, hst⟩ := lazySrc_mk (D := D) hxs c v
  have hsrc : SyncG D .src a (.run xs c v) := SyncG.srcFresh (fun w => ⟨3, hm w⟩)
  obtain ⟨ib, w3, hmk, hma⟩ := hB _ _ _ _ _ hpi hc h1
  refine ⟨a, ib, w3, hm, hst, hmk, ?_⟩
  by_cases hu : ib.upper = some 1
  · obtain ⟨s1, w1s⟩ := r1
    cases s1 with
    | done =>
      obtain ⟨ib', hn⟩ := hma
      exact Or.inr (Or.inl ⟨hu, ib', w1s, hn, rfl⟩)
    | yield x th' =>
      obtain ⟨ib', hn, hs⟩ := hma
      have hdead : Dead D th' := by
        obtain ⟨m, hnm⟩ := hn
        obtain ⟨u', hu', hlt⟩ := upper_dec m hnm hu
        have : u' = 0 := by omega
        subst this
        exact sync_upper0_dead hs hu'
      exact Or.inr (Or.inr ⟨hu, x, ib', w1s, th', hn, rfl, hdead⟩)
  · exact Or.inl ⟨hu, Rel.foldIni hsrc (Rel.mk hmk)⟩

/-- `r | (y op .)`: the `map_with` fast path of `cartesian` -/
theorem mathRB (hD : DPure D) {n : Nat} (hA : A D n) (hB : B D n) {op : MathOp} {y : Val} {r c v w res}
    (hr : r.pureIdx = true) (hc : c.pure = true)
    (hf : force D n (.wrapC (.mathL op y) (.run r c v)) w = some res) :
    ∃ b w1 it w', MkR D r c v w (b, w1) ∧ MkMathRR D op y b w1 (it, w') ∧ Matches D res it w' := by
  obtain ⟨⟨s1, w1s⟩, h1⟩ := force_wrapC_head (s := .mathL op y) rfl hf
  obtain ⟨b, w1, hmk, hma⟩ := hB _ _ _ _ _ hr hc h1
  by_cases hu : b.upper = some 1
  · cases n with
    | zero => simp [force] at hf
    | succ n' =>
      rw [force_succ] at hf
      simp only [forceStep, Wr.ready, if_true] at hf
      cases h1' : force D n' (.run r c v) w with
      | none => simp [h1'] at hf
      | some r1' =>
        have := force_det (force_mono D _ _ _ _ h1') h1
        subst this
        rw [h1'] at hf
        cases s1 with
        | done =>
          simp only [Wr.atEnd, Option.some.injEq] at hf
          subst hf
          obtain ⟨b2, hn⟩ := hma
          exact ⟨b, w1, .nil, w1s, hmk, mkMathRR_none hu hn, .nil, nextR_nil _⟩
        | yield x th' =>
          obtain ⟨b2, hn, hs⟩ := hma
          have hdead : Dead D th' := by
            obtain ⟨m, hnm⟩ := hn
            obtain ⟨u', hu', hlt⟩ := upper_dec m hnm hu
            have : u' = 0 := by omega
            subst this
            exact sync_upper0_dead hs hu'
          simp only [Wr.step, Option.some.injEq] at hf
          subst hf
          exact ⟨b, w1, _, w1s, hmk, mkMathRR_some hu hn, .nil, nextR_once _ _,
            SyncG.dead (dead_wrap _ rfl hdead)⟩
  · refine ⟨b, w1, _, w1, hmk, mkMathRR_slow op y w1 hu, ?_⟩
    cases n with
    | zero => simp [force] at hf
    | succ n' =>
      exact wrapCase hD (lowerA hA) (lowerB hB) (s := .mathL op y) rfl (Rel.mk hmk)
        (by simp [Th.pureIdx, Wr.pureIdx, hr, hc]) hf

end Jaq.C03
