/- Lemmas behind the update rules of Props/C02.lean. -/
import JaqVerif.Lemmas.C02Out

namespace Jaq.C02
namespace Out
variable {α β : Type}

theorem nil_append (b : Out α) : (nil : Out α).append b = b := rfl

theorem append_nil (a : Out α) : a.append ⟨[], none⟩ = a := by
  unfold append
  cases h : a.stop with
  | none => cases a; simp_all
  | some e => rfl

theorem one_bind (x : α) (f : α → Out β) : (one x).bind f = f x := by
  simp only [bind, one, bindL, nil_append]
  rw [show (nil : Out β) = ⟨[], none⟩ from rfl, append_nil, append_nil]

theorem fail_bind (e : Exn) (f : α → Out β) : (fail e : Out α).bind f = fail e := rfl

theorem bindL_one (l : List α) : bindL one l = ofList l := by
  induction l with
  | nil => rfl
  | cons x xs ih => simp [bindL, ih, append, one, ofList]

theorem bind_one (o : Out α) : o.bind one = o := by
  simp [bind, bindL_one, append, ofList]

end Out

theorem reduceOut_eq_seqUpd {X : Type} (xs : Out X) (init : Val) (f : X → Val → Out Val) :
    reduceOut xs init f = seqUpd f xs.vals xs.stop init := by
  unfold reduceOut foldOut
  generalize xs.vals = l
  induction l generalizing init with
  | nil => cases xs.stop <;> rfl
  | cons x rest ih =>
    simp only [foldL, seqUpd]
    apply Out.bind_congr
    intro y _
    rw [Out.nil_append, ih]

/-! ### `//` -/

theorem anyTrue_err (o : Out Val) (e : Err) (h : o.stop = some (.err e)) : anyTrue o = some true := by
  unfold anyTrue
  split
  · rfl
  · simp [h]

theorem altRule_bind {β : Type} (o : Out Val)
    (h : ∀ e, o.stop = some (.err e) → o.vals.any asBool = true) (K : Bool → Out β) :
    ((altRule o).bind fun c => K (asBool c)) =
      match anyTrue o with
      | none => Out.noFuel
      | some b => K b := by
  unfold altRule anyTrue altKeep
  cases hts : o.vals.filter asBool with
  | cons t ts =>
    have ht : asBool t = true := by
      have : t ∈ o.vals.filter asBool := by rw [hts]; exact List.mem_cons_self
      exact (List.mem_filter.mp this).2
    have hany : o.vals.any asBool = true := by
      have : t ∈ o.vals.filter asBool := by rw [hts]; exact List.mem_cons_self
      exact List.any_eq_true.mpr ⟨t, (List.mem_filter.mp this).1, ht⟩
    simp only [hany, if_true, Out.first, Out.one_bind, ht]
  | nil =>
    have hany : o.vals.any asBool = false := by
      cases hb : o.vals.any asBool with
      | false => rfl
      | true =>
        obtain ⟨t, ht, hbt⟩ := List.any_eq_true.mp hb
        have : t ∈ o.vals.filter asBool := List.mem_filter.mpr ⟨ht, hbt⟩
        rw [hts] at this; cases this
    cases hs : o.stop with
    | none =>
      simp [hany, Out.first, Out.one, asBool]
      exact Out.one_bind (Val.bool false) (fun c => K (asBool c))
    | some ex =>
      cases ex with
      | err e => have := h e hs; rw [hany] at this; cases this
      | fuel => simp [hany, Out.first]; rfl

/-! ### `.[]`, `..` -/

theorem mapValues_go_eq (f : Val → Out Val) (o : List (Val × Val)) :
    mapValues.go f o =
      o.foldr (fun (kx : Val × Val) (acc : Except Exn (List (Val × Val))) =>
        match firstOf (f kx.2) with
        | .error e => .error e
        | .ok none => acc
        | .ok (some y) => acc.map ((kx.1, y) :: ·)) (.ok []) := by
  induction o with
  | nil => rfl
  | cons kx rest ih =>
    obtain ⟨k, x⟩ := kx
    simp only [mapValues.go, List.foldr, firstOf, ih]
    cases (f x).next? with
    | error e => rfl
    | ok r => cases r <;> rfl

theorem mapValues_eq_iterUpd (v : Val) (opt : Bool) (u : Val → Out Val) :
    mapValues v opt u = iterUpd v u fun v => optFail opt v (.typ v tyIter) := by
  cases v <;> try rfl
  simp only [mapValues, iterUpd, mapValues_go_eq]
  rfl

theorem recUpdateF_eq_spec (n : Nat) (v : Val) (u : Val → Out Val) :
    recUpdateF n v u = recUpSpec n v u := by
  induction n generalizing v with
  | zero => rfl
  | succ n ih =>
    have hf : (fun x => recUpdateF n x u) = fun x => recUpSpec n x u := funext fun x => ih x
    simp only [recUpdateF, recUpSpec, hf, mapValues_eq_iterUpd]
    have : (fun v => optFail true v (Err.typ v tyIter)) = fun v => (Except.ok v : Except Exn Val) := rfl
    rw [this]
    cases iterUpd v (fun x => recUpSpec n x u) fun v => Except.ok v with
    | error e => rfl
    | ok v' => simp [Out.ofExcept, Out.one_bind]

/-! ### `.[$i]` on arrays -/

theorem absIndex_int (i : Int) (len : Nat) :
    absIndex (decide (i ≥ 0), i.natAbs) len =
      if 0 ≤ (if 0 ≤ i then i else (len : Int) + i) ∧ (if 0 ≤ i then i else (len : Int) + i) < (len : Int)
      then some (if 0 ≤ i then i else (len : Int) + i).toNat else none := by
  unfold absIndex wrap
  by_cases hi : 0 ≤ i
  · by_cases hlt : i.natAbs < len
    · have hj : i < (len : Int) := by omega
      have hn : i.toNat = i.natAbs := by omega
      simp [hi, hlt, hj, hn]
    · have hj : ¬ (i < (len : Int)) := by omega
      simp [hi, hlt, hj]
  · by_cases hle : i.natAbs ≤ len
    · have hk : len - i.natAbs < len := by omega
      have hj1 : 0 ≤ (len : Int) + i := by omega
      have hj2 : (len : Int) + i < (len : Int) := by omega
      have hn : ((len : Int) + i).toNat = len - i.natAbs := by omega
      simp [hi, hle, hk, hj1, hj2, hn]
    · have hj : ¬ (0 ≤ (len : Int) + i) := by omega
      simp [hi, hle, hj]

theorem mapIndex_arr_eq_indexUpd (a : List Val) (i : Int) (opt : Bool) (u : Val → Out Val) :
    mapIndex (.arr a) (.num (.int i)) opt u =
      indexUpdArr a i u (optFail opt (.arr a) (.str "index out of bounds")) := by
  simp only [mapIndex, isSeq, asPosUsizeV, Num.asPosUsize, indexUpdArr, firstOf, absIndex_int]
  generalize (if 0 ≤ i then i else (a.length : Int) + i) = j
  by_cases h : 0 ≤ j ∧ j < (a.length : Int)
  · have hlt : j.toNat < a.length := by omega
    simp only [if_pos h]
    cases (u (a[j.toNat]?.getD .null)).next? with
    | error e => rfl
    | ok r =>
      cases r with
      | none => simp [List.eraseIdx_eq_take_drop_succ]
      | some y => simp [List.set_eq_take_append_cons_drop, hlt]
  · simp only [if_neg h]

theorem index_update_other (a : List Val) (i j : Nat) (u : Val → Out Val) (y : Val)
    (hi : i < a.length) (hij : j ≠ i) (hu : (u (a[i]?.getD .null)).next? = .ok (some y)) :
    ∃ a', partUpdate (.index (.num (.int i))) false (.arr a) u = .ok (.arr a') ∧
      indexV (.arr a') (.num (.int j)) = indexV (.arr a) (.num (.int j)) := by
  have hu' : (u a[i]).next? = .ok (some y) := by simpa [hi] using hu
  refine ⟨a.set i y, ?_, ?_⟩
  · simp [partUpdate, mapIndex, isSeq, asPosUsizeV, Num.asPosUsize, absIndex, wrap, hi, hu']
  · by_cases hj : j < a.length <;>
      simp [indexV, isIntNum, Num.asPosUsize, absIndex, wrap, hj, List.getElem?_set_ne (Ne.symm hij),
        List.getElem_set_ne (Ne.symm hij)]

/-! ### optionality -/

/-- the optional variant equals the essential one, or the essential one fails and the optional
one is the identity -/
def OptRel (v : Val) (a b : Except Exn Val) : Prop :=
  a = b ∨ (a = .ok v ∧ ∃ e, b = .error (.err e))

theorem mapValues_opt (v : Val) (u : Val → Out Val) :
    OptRel v (mapValues v true u) (mapValues v false u) := by
  cases v <;> first | exact Or.inl rfl | exact Or.inr ⟨rfl, _, rfl⟩

theorem mapRange_opt (v : Val) (f t : Option Val) (u : Val → Out Val) :
    OptRel v (mapRange v f t true u) (mapRange v f t false u) := by
  cases v <;> simp only [mapRange]
  all_goals first
    | exact Or.inr ⟨rfl, _, rfl⟩
    | (cases rangeInt f t <;> first | exact Or.inl rfl | exact Or.inr ⟨rfl, _, rfl⟩)

theorem mapIndex_opt (v idx : Val) (u : Val → Out Val) :
    OptRel v (mapIndex v idx true u) (mapIndex v idx false u) := by
  cases v <;> cases idx <;> simp only [mapIndex, isSeq]
  all_goals first
    | exact Or.inl rfl
    | exact Or.inr ⟨rfl, _, rfl⟩
    | exact mapRange_opt _ _ _ _
    | skip
  all_goals
    cases asPosUsizeV _ with
    | error e => exact Or.inr ⟨rfl, _, rfl⟩
    | ok p =>
      simp only []
      cases absIndex p _ <;> first | exact Or.inl rfl | exact Or.inr ⟨rfl, _, rfl⟩

theorem partUpdate_opt (cp : CPart) (v : Val) (u : Val → Out Val) :
    partUpdate cp true v u = partUpdate cp false v u ∨
    (partUpdate cp true v u = .ok v ∧ ∃ e, partUpdate cp false v u = .error (.err e)) := by
  cases cp with
  | index i => exact mapIndex_opt v i u
  | range f t =>
    cases f <;> cases t
    · exact mapValues_opt v u
    all_goals exact mapRange_opt v _ _ u

/-! ### derived filters -/

theorem keysUnsorted_eq (v : Val) (n : Nat) (env : Env) :
    run (n + 1) .keysUnsorted env v =
      match (paths (n + 2) (.path .id (.iter false .nil)) env (v, [])).collect with
      | .ok zs => Out.one (.arr (zs.map fun z => z.2.getLast?.getD .null))
      | .error e => Out.fail e := by
  have hp : paths (n + 2) (.path .id (.iter false .nil)) env (v, []) = partPaths (.range none none) (v, []) := by
    show stepPaths (ev (n + 1)) (.path .id (.iter false .nil)) env (v, []) = _
    simp only [stepPaths, explode, partsItems, combos, pairItems, List.flatMap, List.map, List.flatten,
      List.append_nil, Out.ofItems]
    show (Out.one (v, [])).bind _ = _
    rw [Out.one_bind]
    show ((Out.one _).append Out.nil).bind _ = _
    rw [show (Out.one ([(CPart.range none none, false)] : CPath)).append Out.nil = Out.one _ from Out.append_nil _,
      Out.one_bind]
    simp only [cpathPaths, Out.dropErr]
    exact Out.bind_one _
  rw [hp]
  show Out.ofValR ((keyValues v).map fun kvs => Val.arr (kvs.map (·.1))) = _
  simp only [partPaths]
  cases keyValues v with
  | error e => rfl
  | ok kvs =>
    simp only [Except.map, outOfListR, Out.collect, Out.ofList, Out.ofValR, List.map_map]
    congr 2

theorem dropGtz_one {α : Type} (l : List α) :
    dropGtz (.num (.int 1)) l none = Out.ofList (l.drop 1) := by
  have h1 : (Val.cmp (.num (.int 1)) zeroV == .gt) = true := by decide
  have h0 : (Val.cmp (.num (.int 0)) zeroV == .gt) = false := by decide
  have hs : Val.sub (.num (.int 1)) oneV = .ok (.num (.int 0)) := by rfl
  cases l with
  | nil => simp [dropGtz, h1, hs, Out.ofList]
  | cons x xs =>
    simp only [dropGtz, h1, hs, if_true]
    cases xs <;> simp [dropGtz, h0, Out.ofList]

theorem pathsPE_eq (v : Val) (n : Nat) (env : Env) :
    run (n + 4) pathsPE env v = Out.ofList (((recPaths (v, [])).drop 1).map fun z => .arr z.2) := by
  show (Out.one (Val.num (.int 1))).bind _ = _
  rw [Out.one_bind]
  show skipOut _ ((Out.ofList (recPaths (v, []))).map _) = _
  simp only [skipOut, Out.map_ofList, Out.ofList, dropGtz_one, List.map_drop, Out.map]

end Jaq.C02
