/- ROUND 2: `@json` inside C13 through C07's proved writer and reader. -/
import JaqVerif.Lemmas.C13TablesE
import JaqVerif.Lemmas.C07Top
import JaqVerif.C13.Filters
import JaqVerif.Lemmas.C13Split

namespace Jaq.C13
open Jaq

theorem jsonQuote_eq_writeTStr (s : Bytes) : jsonQuote s = C07.writeTStr s := by
  unfold jsonQuote C07.writeTStr
  have : jsonEsc = C07.escT1 := funext jsonEsc_eq_escT1
  rw [this]; rfl

theorem toJsonList_map (a : List Val) : toJsonList a = a.map toJson := by
  induction a with
  | nil => rfl
  | cons v vs ih => simp [toJsonList, ih]

def entryJson (e : Val × Val) : Option Bytes := pairJson (toJson e.1) (toJson e.2)

theorem toJsonEntries_map (o : List (Val × Val)) : toJsonEntries o = o.map entryJson := by
  induction o with
  | nil => rfl
  | cons e es ih => obtain ⟨k, v⟩ := e; simp [toJsonEntries, ih, entryJson]

theorem joinOpt_some (sep : Bytes) : ∀ (xs : List (Option Bytes)) (b : Bytes), joinOpt sep xs = some b →
    ∃ ys, xs = ys.map some ∧ b = joinWith sep ys := by
  intro xs
  induction xs with
  | nil => intro b h; simp [joinOpt] at h; exact ⟨[], rfl, by subst h; rfl⟩
  | cons x t ih =>
    intro b h
    cases t with
    | nil =>
      simp only [joinOpt] at h
      subst h
      exact ⟨[b], rfl, rfl⟩
    | cons y r =>
      simp only [joinOpt] at h
      cases x with
      | none => simp at h
      | some a =>
        cases hj : joinOpt sep (y :: r) with
        | none => simp [hj] at h
        | some j =>
          simp only [hj, Option.some.injEq] at h
          obtain ⟨ys, hys, hjw⟩ := ih j hj
          cases ys with
          | nil => simp at hys
          | cons y0 ys' =>
            refine ⟨a :: y0 :: ys', by simp [hys], ?_⟩
            rw [joinWith_cons_cons, ← hjw, ← h]

theorem seqItems_compact (lvl : Nat) : ∀ items : List Bytes, C07.seqItems C07.Pp.compact lvl items = joinWith [44] items := by
  intro items
  induction items with
  | nil => rfl
  | cons x t ih =>
    cases t with
    | nil => simp [C07.seqItems, C07.Pp.ind, C07.Pp.nl, C07.Pp.compact, joinWith]
    | cons y r =>
      rw [joinWith_cons_cons, ← ih]
      simp [C07.seqItems, C07.Pp.ind, C07.Pp.nl, C07.Pp.comma, C07.Pp.compact]

theorem seqText_compact (lvl : Nat) (items : List Bytes) : C07.seqText C07.Pp.compact lvl items = joinWith [44] items := by
  unfold C07.seqText
  rw [seqItems_compact]
  simp [C07.Pp.ind, C07.Pp.nl, C07.Pp.compact]

theorem map_eq_of_some {α : Type} (f : α → Option Bytes) (g : α → Bytes) : ∀ (a : List α) (ys : List Bytes),
    (∀ x ∈ a, ∀ b, f x = some b → g x = b) → a.map f = ys.map some → a.map g = ys := by
  intro a
  induction a with
  | nil => intro ys _ h; cases ys with | nil => rfl | cons _ _ => simp at h
  | cons x t ih =>
    intro ys hx h
    cases ys with
    | nil => simp at h
    | cons y ys' =>
      simp only [List.map_cons, List.cons.injEq] at h ⊢
      exact ⟨hx x (by simp) y h.1, ih ys' (fun z hz => hx z (by simp [hz])) h.2⟩

/-- **`@json` = C07's proved writer**: whatever C13's `toJson` prints (null, booleans, integers of
any size, decimal literals, text strings, arrays and objects of these, any depth) is byte for byte
the output of `C07.write` with the compact `Pp`, for every float printer `c` (floats are outside
`toJson`'s fragment) -/
theorem toJson_eq_write (c : C07.Cfg) : ∀ (n : Nat) (v : Val) (b : Bytes) (lvl : Nat), v.size ≤ n →
    toJson v = some b → C07.writeVal c C07.Pp.compact lvl v = b := by
  intro n
  induction n with
  | zero => intro v b lvl h; have := Val.size_pos v; omega
  | succ n ih =>
    intro v b lvl hsz h
    cases v with
    | null => simp only [toJson, Option.some.injEq] at h; subst h; rfl
    | bool x => cases x <;> (simp only [toJson, Option.some.injEq] at h; subst h; rfl)
    | num x =>
      cases x with
      | int i => simp only [toJson, numText, Option.some.injEq] at h; subst h; rfl
      | big i => simp only [toJson, numText, Option.some.injEq] at h; subst h; rfl
      | dec s => simp only [toJson, numText, Option.some.injEq] at h; subst h; rfl
      | float f => simp [toJson, numText] at h
    | tstr s =>
      simp only [toJson, Option.some.injEq] at h; subst h
      simp only [C07.writeVal, jsonQuote_eq_writeTStr]
    | bstr s => simp [toJson] at h
    | arr a =>
      simp only [Val.size] at hsz
      simp only [toJson, Option.map_eq_some_iff] at h
      obtain ⟨j, hj, hb⟩ := h
      subst hb
      obtain ⟨ys, hys, hjw⟩ := joinOpt_some [44] _ j hj
      rw [toJsonList_map] at hys
      have hl : C07.writeList c C07.Pp.compact (lvl + 1) a = ys := by
        rw [C07.writeList_map]
        apply map_eq_of_some toJson _ a ys _ hys
        intro x hx b hxb
        have := Val.size_lt_of_mem hx
        exact ih x b (lvl + 1) (by omega) hxb
      simp only [C07.writeVal, hl, seqText_compact]
      cases a with
      | nil =>
        cases ys with
        | nil => subst hjw; rfl
        | cons _ _ => simp at hys
      | cons x t => subst hjw; simp
    | obj o =>
      simp only [Val.size] at hsz
      simp only [toJson, Option.map_eq_some_iff] at h
      obtain ⟨j, hj, hb⟩ := h
      subst hb
      obtain ⟨ys, hys, hjw⟩ := joinOpt_some [44] _ j hj
      rw [toJsonEntries_map] at hys
      have hl : (C07.writeEntries c C07.Pp.compact (lvl + 1) o).map (·.2) = ys := by
        rw [C07.writeEntries_map, List.map_map]
        apply map_eq_of_some entryJson _ o ys _ hys
        intro e he b heb
        obtain ⟨k, v⟩ := e
        have := Val.size_entry_of_mem he
        simp only [entryJson, pairJson] at heb
        cases hk : toJson k with
        | none => simp [hk] at heb
        | some kb =>
          cases hv : toJson v with
          | none => simp [hk, hv] at heb
          | some vb =>
            simp only [hk, hv, Option.some.injEq] at heb
            subst heb
            simp only [Function.comp_apply]
            rw [ih k kb (lvl + 1) (by omega) hk, ih v vb (lvl + 1) (by omega) hv]
            simp [C07.Pp.colon, C07.Pp.compact]
      simp only [C07.writeVal, C07.sortItems, C07.Pp.compact, Bool.false_eq_true, if_false]
      have hl' : (C07.writeEntries c { indent := none, sortKeys := false, sepSpace := false } (lvl + 1) o).map (·.2) = ys := hl
      rw [hl']
      have := seqText_compact lvl ys
      simp only [C07.Pp.compact] at this
      rw [this]
      cases o with
      | nil =>
        cases ys with
        | nil => subst hjw; rfl
        | cons _ _ => simp at hys
      | cons x t => subst hjw; simp

/-- a float printer that satisfies C07's literal contract (any would do: `toJson` prints no float) -/
def cfg0 : C07.Cfg := { ryu := fun _ => [0x31, 0x2e, 0x35] }

theorem cfg0_lit : C07.RyuLit cfg0 := by
  intro f _
  have h : C07.ValidDec [0x31, 0x2e, 0x35] :=
    ⟨(C07.numLex C07.NumSt.init [0x31, 0x2e, 0x35]).2.2, ⟨by decide, by decide⟩, by decide⟩
  obtain ⟨sf, ⟨a, b⟩, d⟩ := h
  exact ⟨sf, a, b, d⟩

end Jaq.C13
