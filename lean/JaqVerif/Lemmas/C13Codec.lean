/- Round trips of the byte-wise codecs: from the table facts (C13Tables) to all byte strings. -/
import JaqVerif.Lemmas.C13Scan
import JaqVerif.Lemmas.C13Tables

namespace Jaq.C13

theorem ofNat_toNat_u8 (b : UInt8) : UInt8.ofNat b.toNat = b := by simp

/-! ## percent-encoding -/

theorem uriEntry (b : UInt8) : uriEntryOk b = true := forall_byte_of_fin uriEntryOk uriEntry_ok b

theorem uriEntry_cases (b : UInt8) :
    (uriEsc b = [b] ∧ isUnreserved b = true) ∨
    (∃ h1 h2 a c, uriEsc b = [37, h1, h2] ∧ isUnreserved b = false ∧ hexDigitVal h1 = some a ∧
      hexDigitVal h2 = some c ∧ a * 16 + c = b.toNat) := by
  have h := uriEntry b
  unfold uriEntryOk at h
  generalize uriEsc b = e at h
  match e, h with
  | [x], h =>
    simp only [Bool.and_eq_true, beq_iff_eq] at h
    left; exact ⟨by rw [h.1], h.2⟩
  | [p, h1, h2], h =>
    right
    simp only [Bool.and_eq_true, beq_iff_eq, Bool.not_eq_true'] at h
    obtain ⟨⟨hp, hu⟩, hm⟩ := h
    cases ha : hexDigitVal h1 with
    | none => simp [ha] at hm
    | some a =>
      cases hc : hexDigitVal h2 with
      | none => simp [ha, hc] at hm
      | some c =>
        simp only [ha, hc, beq_iff_eq] at hm
        exact ⟨h1, h2, a, c, by rw [hp], hu, ha, hc, hm⟩

theorem unreserved_ne_percent {b : UInt8} (h : isUnreserved b = true) : b ≠ 37 := by
  intro hb; subst hb; revert h; decide

theorem uriEsc_ne_nil (b : UInt8) : uriEsc b ≠ [] := by
  rcases uriEntry_cases b with ⟨h, _⟩ | ⟨h1, h2, a, c, h, _⟩ <;> rw [h] <;> simp

theorem uridStep_uriEsc (b : UInt8) (rest : Bytes) :
    uridStep (uriEsc b ++ rest) = ([b], (uriEsc b).length) := by
  rcases uriEntry_cases b with ⟨h, hu⟩ | ⟨h1, h2, a, c, h, _, ha, hc, hv⟩
  · rw [h]; simp [uridStep, unreserved_ne_percent hu]
  · rw [h]; simp [uridStep, ha, hc, hv]

theorem percentStep_uriEsc (b : UInt8) (rest : Bytes) :
    percentStep (uriEsc b ++ rest) = ([b], (uriEsc b).length) := by
  rcases uriEntry_cases b with ⟨h, hu⟩ | ⟨h1, h2, a, c, h, _, ha, hc, hv⟩
  · rw [h]; simp [percentStep, unreserved_ne_percent hu]
  · rw [h]
    have : 16 * a + c = b.toNat := by omega
    simp [percentStep, ha, hc, this]

/-! ## HTML -/

theorem htmlEntry (b : UInt8) : htmlEntryOk b = true := forall_byte_of_fin htmlEntryOk htmlEntry_ok b

theorem htmlEntry_cases (b : UInt8) :
    (isHtmlMeta b = false ∧ htmlEsc b = [b]) ∨
    (b = 60 ∧ htmlEsc b = [38, 108, 116, 59]) ∨ (b = 62 ∧ htmlEsc b = [38, 103, 116, 59]) ∨
    (b = 38 ∧ htmlEsc b = [38, 97, 109, 112, 59]) ∨ (b = 39 ∧ htmlEsc b = [38, 97, 112, 111, 115, 59]) ∨
    (b = 34 ∧ htmlEsc b = [38, 113, 117, 111, 116, 59]) := by
  have h := htmlEntry b
  unfold htmlEntryOk at h
  by_cases hm : isHtmlMeta b = true
  · rw [if_pos hm] at h
    simp only [htmlReps, List.any_cons, List.any_nil, Bool.or_false, Bool.or_eq_true, Bool.and_eq_true, beq_iff_eq] at h
    right
    rcases h with ⟨h1, h2⟩ | ⟨h1, h2⟩ | ⟨h1, h2⟩ | ⟨h1, h2⟩ | ⟨h1, h2⟩
    · left; exact ⟨h1.symm, h2.symm⟩
    · right; left; exact ⟨h1.symm, h2.symm⟩
    · right; right; left; exact ⟨h1.symm, h2.symm⟩
    · right; right; right; left; exact ⟨h1.symm, h2.symm⟩
    · right; right; right; right; exact ⟨h1.symm, h2.symm⟩
  · rw [if_neg hm] at h
    left
    exact ⟨by simpa using hm, by simpa using h⟩

theorem htmlEsc_ne_nil (b : UInt8) : htmlEsc b ≠ [] := by
  rcases htmlEntry_cases b with ⟨_, h⟩ | ⟨_, h⟩ | ⟨_, h⟩ | ⟨_, h⟩ | ⟨_, h⟩ | ⟨_, h⟩ <;> rw [h] <;> simp

theorem not_meta_ne_amp {b : UInt8} (h : isHtmlMeta b = false) : b ≠ 38 := by
  intro hb; subst hb; revert h; decide

theorem htmldStep_htmlEsc (b : UInt8) (rest : Bytes) :
    htmldStep (htmlEsc b ++ rest) = ([b], (htmlEsc b).length) := by
  rcases htmlEntry_cases b with ⟨hm, h⟩ | ⟨hb, h⟩ | ⟨hb, h⟩ | ⟨hb, h⟩ | ⟨hb, h⟩ | ⟨hb, h⟩
  · rw [h]
    have := not_meta_ne_amp hm
    have h38 : ¬ ((38 : UInt8) = b) := fun e => this e.symm
    simp [htmldStep, firstPat, htmlReps, List.isPrefixOf, h38]
  all_goals (rw [h, hb]; simp [htmldStep, firstPat, htmlReps, List.isPrefixOf])

theorem htmlDecodeStep_htmlEsc (b : UInt8) (rest : Bytes) :
    htmlDecodeStep (htmlEsc b ++ rest) = ([b], (htmlEsc b).length) := by
  rcases htmlEntry_cases b with ⟨hm, h⟩ | ⟨hb, h⟩ | ⟨hb, h⟩ | ⟨hb, h⟩ | ⟨hb, h⟩ | ⟨hb, h⟩
  · rw [h]
    simp [htmlDecodeStep, not_meta_ne_amp hm]
  all_goals (rw [h, hb]; simp [htmlDecodeStep, firstPat, htmlNamed, List.isPrefixOf])

/-- no byte of an entry is `<`, `>`, `'` or `"` -/
theorem htmlEsc_no_meta (b c : UInt8) (hc : c ∈ htmlEsc b) : c ≠ 60 ∧ c ≠ 62 ∧ c ≠ 39 ∧ c ≠ 34 := by
  rcases htmlEntry_cases b with ⟨hm, h⟩ | ⟨hb, h⟩ | ⟨hb, h⟩ | ⟨hb, h⟩ | ⟨hb, h⟩ | ⟨hb, h⟩
  · rw [h] at hc
    simp only [List.mem_singleton] at hc
    subst hc
    refine ⟨?_, ?_, ?_, ?_⟩ <;> (intro e; subst e; revert hm; decide)
  all_goals
    rw [h] at hc
    simp only [List.mem_cons, List.not_mem_nil, or_false] at hc
    rcases hc with rfl | rfl | rfl | rfl | rfl | rfl <;> decide

end Jaq.C13
