/-
  C15 — white space and comments (with the odd-backslash continuation rule) are skipped by
  `Lexer::space`, wherever the lexer looks for the next token.
-/
import JaqVerif.C15.Lex
import JaqVerif.C15.Layout

namespace Jaq.C15

theorem splitLine_append (l rest : Str) (h : '\n' ∉ l) : splitLine (l ++ '\n' :: rest) = (l, rest) := by
  induction l with
  | nil => simp [splitLine]
  | cons c l ih =>
    have hc : c ≠ '\n' := fun e => h (by simp [e])
    have hl : '\n' ∉ l := fun e => h (by simp [e])
    simp [splitLine, hc, ih hl]

theorem splitLine_length (s : Str) : (splitLine s).2.length ≤ s.length := by
  induction s with
  | nil => simp [splitLine]
  | cons c s ih =>
    simp only [splitLine]
    split <;> simp <;> omega

theorem comment_length (f : Nat) (s : Str) : (comment f s).length ≤ s.length := by
  induction f generalizing s with
  | zero => simp [comment]
  | succ f ih =>
    simp only [comment]
    split
    · exact splitLine_length s
    · exact Nat.le_trans (ih _) (splitLine_length s)

/-- the comment loop skips exactly a comment body -/
theorem comment_body {b : Str} (hb : CommentBody b) (t : Str) : ∀ f, b.length ≤ f → comment f (b ++ t) = t := by
  induction hb with
  | last l hl hev =>
    intro f hf
    obtain ⟨f, rfl⟩ : ∃ g, f = g + 1 := ⟨f - 1, by simp at hf; omega⟩
    simp only [comment, List.append_assoc, List.singleton_append, splitLine_append l t hl, hev, if_true]
  | cont l b hl hodd _ ih =>
    intro f hf
    obtain ⟨f, rfl⟩ : ∃ g, f = g + 1 := ⟨f - 1, by simp at hf; omega⟩
    have hne : ¬ (trailingBackslashes (stripCR l) % 2 = 0) := by omega
    simp only [comment, List.append_assoc, List.cons_append, splitLine_append l (b ++ t) hl, hne, if_false]
    exact ih f (by simp at hf; omega)

theorem trimStart_length (s : Str) : (trimStart s).length ≤ s.length := by
  unfold trimStart
  induction s with
  | nil => simp
  | cons c s ih => simp only [List.dropWhile_cons]; split <;> simp <;> omega

/-- `spaceF` does not depend on the fuel once it exceeds the length -/
theorem spaceF_stable : ∀ (n : Nat) (s : Str), s.length ≤ n → ∀ f g, s.length + 1 ≤ f → s.length + 1 ≤ g →
    spaceF f s = spaceF g s := by
  intro n
  induction n with
  | zero =>
    intro s hs f g hf hg
    have : s = [] := List.eq_nil_of_length_eq_zero (by omega)
    subst this
    obtain ⟨f, rfl⟩ : ∃ k, f = k + 1 := ⟨f - 1, by omega⟩
    obtain ⟨g, rfl⟩ : ∃ k, g = k + 1 := ⟨g - 1, by omega⟩
    simp [spaceF, trimStart]
  | succ n ih =>
    intro s hs f g hf hg
    obtain ⟨f, rfl⟩ : ∃ k, f = k + 1 := ⟨f - 1, by omega⟩
    obtain ⟨g, rfl⟩ : ∃ k, g = k + 1 := ⟨g - 1, by omega⟩
    simp only [spaceF]
    have htl := trimStart_length s
    split
    · rename_i c heq
      have hc : c.length + 1 ≤ s.length := by rw [heq] at htl; simpa using htl
      have hcl := comment_length (c.length + 1) c
      exact ih _ (by omega) f g (by omega) (by omega)
    · rfl

theorem space_ws (c : Char) (s : Str) (hc : isWs c = true) : space (c :: s) = space s := by
  have h1 : spaceF (s.length + 2) (c :: s) = spaceF (s.length + 2) s := by
    simp only [spaceF, trimStart, List.dropWhile_cons, hc, if_true]
  unfold space
  simp only [List.length_cons]
  rw [h1]
  exact spaceF_stable s.length s (Nat.le_refl _) _ _ (by omega) (by omega)

theorem hash_not_ws : isWs '#' = false := by decide

theorem spaceF_hash (f : Nat) (c : Str) : spaceF (f + 1) ('#' :: c) = spaceF f (comment (c.length + 1) c) := by
  have htrim : trimStart ('#' :: c) = '#' :: c := by simp [trimStart, hash_not_ws]
  rw [spaceF, htrim]
  simp

theorem space_comment (b t : Str) (hb : CommentBody b) : space ('#' :: b ++ t) = space t := by
  have hlen : (b ++ t).length = b.length + t.length := List.length_append
  unfold space
  simp only [List.cons_append, List.length_cons]
  rw [spaceF_hash, comment_body hb t _ (by omega)]
  refine spaceF_stable t.length t (Nat.le_refl _) _ _ ?_ ?_ <;> omega

/-- **`space` skips any trivia** -/
theorem space_trivia {tr : Str} (h : Trivia tr) (rest : Str) : space (tr ++ rest) = space rest := by
  induction h with
  | nil => rfl
  | ws c t hc _ ih => rw [List.cons_append, space_ws c _ hc, ih]
  | comment b t hb _ ih =>
    have e : '#' :: b ++ t ++ rest = '#' :: b ++ (t ++ rest) := by simp
    rw [e, space_comment b _ hb, ih]

/-- `space` stops at the first character that is neither white space nor `#` -/
theorem space_stop (c : Char) (s : Str) (h1 : isWs c = false) (h2 : c ≠ '#') : space (c :: s) = c :: s := by
  unfold space
  simp only [List.length_cons, spaceF, trimStart, List.dropWhile_cons, h1]
  split
  · rename_i c' heq
    simp at heq
    exact absurd heq.1 h2
  · rfl

theorem space_nil : space [] = [] := by
  simp [space, spaceF, trimStart]

/-- trivia at the end of the input is skipped completely -/
theorem space_trivia_end {tr : Str} (h : Trivia tr) : space tr = [] := by
  have := space_trivia h []
  rw [List.append_nil] at this
  rw [this, space_nil]

/-- trivia in front of a token is irrelevant: same token (or same error, or same end), same rest -/
theorem token_trivia {tr : Str} (h : Trivia tr) (f : Nat) (s : Str) : token f (tr ++ s) = token f s := by
  cases f with
  | zero => simp [token]
  | succ f => simp only [token, space_trivia h s]

/-- hence also in front of any sequence of tokens -/
theorem tokens_trivia {tr : Str} (h : Trivia tr) (f : Nat) (s : Str) : tokens f (tr ++ s) = tokens f s := by
  cases f with
  | zero => simp [tokens]
  | succ f => simp only [tokens, token_trivia h f s]

/-- and in front of the closing delimiter of a block -/
theorem block_close_trivia {tr : Str} (h : Trivia tr) (f : Nat) (o : Char) (s : Str) :
    block (f + 3) o (tr ++ closeOf o :: s) = some (.block o [.sym [closeOf o]], s) := by
  have hc : isWs (closeOf o) = false ∧ closeOf o ≠ '#' ∧ isIdStart (closeOf o) = false ∧
      closeOf o ≠ '$' ∧ closeOf o ≠ '@' ∧ (closeOf o).isDigit = false ∧ isHdOp (closeOf o) = false ∧
      closeOf o ≠ '.' ∧ closeOf o ≠ ':' ∧ closeOf o ≠ ';' ∧ closeOf o ≠ ',' ∧ closeOf o ≠ '?' ∧
      closeOf o ≠ '"' ∧ closeOf o ≠ '(' ∧ closeOf o ≠ '[' ∧ closeOf o ≠ '{' := by
    unfold closeOf
    split
    · decide
    · split <;> decide
  obtain ⟨h1, h2, h3, h4, h5, h6, h7, h8, h9, h10, h11, h12, h13, h14, h15, h16⟩ := hc
  have hsp : space (closeOf o :: s) = closeOf o :: s := space_stop _ _ h1 h2
  have htok : tokens (f + 2) (tr ++ closeOf o :: s) = some ([], closeOf o :: s) := by
    rw [tokens_trivia h]
    simp only [tokens, token, hsp]
    simp [h3, h4, h5, h6, h7, h8, h9, h10, h11, h12, h13, h14, h15, h16]
  simp only [block, htok, hsp]
  simp

end Jaq.C15
