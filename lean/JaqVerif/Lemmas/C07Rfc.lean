import JaqVerif.Lemmas.C07Top
import JaqVerif.C07.Rfc
namespace Jaq.C07

/-! ## string bodies built from pieces (any mix of literal bytes and escapes) -/

theorem readStrF_mono (b : Bool) : ∀ (n : Nat) (i : Bytes) (x : Bytes × Bytes),
    readStrF n b i = some x → readStrF (n + 1) b i = some x := by
  intro n
  induction n with
  | zero => intro i x h; simp [readStrF] at h
  | succ n ih =>
    intro i x h
    rw [readStrF] at h ⊢
    cases hi : readItem b i with
    | none => simp [hi] at h
    | some it =>
      cases it with
      | fin rest => simp only [hi] at h ⊢; exact h
      | out o rest =>
        simp only [hi] at h ⊢
        cases hr : readStrF n b rest with
        | none => simp [hr] at h
        | some y => rw [ih rest y hr]; simp only [hr] at h; exact h

theorem readStrF_mono_le (b : Bool) (n m : Nat) (h : n ≤ m) (i : Bytes) (x : Bytes × Bytes)
    (hx : readStrF n b i = some x) : readStrF m b i = some x := by
  induction h with
  | refl => exact hx
  | step _ ih => exact readStrF_mono b _ i x ih

/-- reading the text `p` appends `o` to the string and continues behind it -/
def Reads (b : Bool) (o p : Bytes) : Prop :=
  ∀ (r : Bytes) (n : Nat) (s' rest : Bytes), readStrF n b r = some (s', rest) →
    readStrF (n + p.length) b (p ++ r) = some (o ++ s', rest)

theorem reads_nil (b : Bool) : Reads b [] [] := by intro r n s' rest h; simpa using h

theorem reads_append {b : Bool} {o1 p1 o2 p2 : Bytes} (h1 : Reads b o1 p1) (h2 : Reads b o2 p2) :
    Reads b (o1 ++ o2) (p1 ++ p2) := by
  intro r n s' rest h
  have a := h2 r n s' rest h
  have c := h1 (p2 ++ r) (n + p2.length) (o2 ++ s') rest a
  have e : n + (p1 ++ p2).length = n + p2.length + p1.length := by simp; omega
  rw [e]
  simpa using c

theorem reads_item (b : Bool) (o p : Bytes) (hne : p ≠ []) (h : ∀ r, readItem b (p ++ r) = some (.out o r)) :
    Reads b o p := by
  intro r n s' rest hr
  have hl : 1 ≤ p.length := by cases p with | nil => exact absurd rfl hne | cons _ _ => simp
  have e : n + p.length = (n + p.length - 1) + 1 := by omega
  rw [e, readStrF, h r]
  have := readStrF_mono_le b n (n + p.length - 1) (by omega) r _ hr
  simp [this]

theorem strText_of_reads (b : Bool) (o p : Bytes) (h : Reads b o p) : StrText b o p := by
  intro rest
  have h0 : readStrF 1 b (0x22 :: rest) = some ([], rest) := by simp [readStrF, readItem_quote]
  have := h (0x22 :: rest) 1 [] rest h0
  unfold readStr
  apply readStrF_mono_le b _ _ _ _ _ (by simpa using this)
  simp; omega

theorem shortEscapes_table : ∀ p ∈ shortEscapes, (p.1 == 0x75) = false ∧ tableGetO Gen.unescT p.1 = some [p.2] := by
  decide

theorem piece_reads {o p : Bytes} (h : Piece o p) : Reads false o p := by
  cases h with
  | lit c h1 h2 h3 =>
    apply reads_item false _ _ (by simp)
    intro r
    have a : (c == 0x22) = false := by simpa using h2
    have b : (c == 0x5c) = false := by simpa using h3
    have d : ¬ c.toNat < 0x20 := by omega
    simp [readItem, a, b, d]
  | short e c h =>
    apply reads_item false _ _ (by simp)
    intro r
    obtain ⟨a, b⟩ := shortEscapes_table (e, c) h
    simp at a b
    have a' : (e == 0x75) = false := by simpa using a
    simp [readItem, a', b]
  | uni d1 d2 d3 d4 c1 c2 c3 c4 h1 h2 h3 h4 hns =>
    apply reads_item false _ _ (by simp)
    intro r
    unfold HexSp at h1 h2 h3 h4
    have hx : hexN 4 0 (c1 :: c2 :: c3 :: c4 :: r) = some (16 * (16 * (16 * (16 * 0 + d1) + d2) + d3) + d4, r) := by
      simp [hexN, h1, h2, h3, h4]
    have hu : readUnicode (c1 :: c2 :: c3 :: c4 :: r) = some (16 * (16 * (16 * (16 * 0 + d1) + d2) + d3) + d4, r) := by
      unfold readUnicode
      rw [hx]
      simp only
      have n1 : ¬ (0xD800 ≤ 16 * (16 * (16 * (16 * 0 + d1) + d2) + d3) + d4 ∧ 16 * (16 * (16 * (16 * 0 + d1) + d2) + d3) + d4 ≤ 0xDBFF) := by omega
      have n2 : ¬ (0xDC00 ≤ 16 * (16 * (16 * (16 * 0 + d1) + d2) + d3) + d4 ∧ 16 * (16 * (16 * (16 * 0 + d1) + d2) + d3) + d4 ≤ 0xDFFF) := by omega
      rw [if_neg n1, if_neg n2]
    simp [readItem, hu]
  | pair d1 d2 d3 d4 e1 e2 e3 e4 c1 c2 c3 c4 f1 f2 f3 f4 h1 h2 h3 h4 g1 g2 g3 g4 hhi hlo =>
    apply reads_item false _ _ (by simp)
    intro r
    unfold HexSp at h1 h2 h3 h4 g1 g2 g3 g4
    have hx : hexN 4 0 (c1 :: c2 :: c3 :: c4 :: 0x5c :: 0x75 :: f1 :: f2 :: f3 :: f4 :: r) =
        some (16 * (16 * (16 * (16 * 0 + d1) + d2) + d3) + d4, 0x5c :: 0x75 :: f1 :: f2 :: f3 :: f4 :: r) := by
      simp [hexN, h1, h2, h3, h4]
    have hy : hexN 4 0 (f1 :: f2 :: f3 :: f4 :: r) = some (16 * (16 * (16 * (16 * 0 + e1) + e2) + e3) + e4, r) := by
      simp [hexN, g1, g2, g3, g4]
    have hs : stripPrefix [0x5c, 0x75] (0x5c :: 0x75 :: f1 :: f2 :: f3 :: f4 :: r) = some (f1 :: f2 :: f3 :: f4 :: r) := by
      simp [stripPrefix, List.isPrefixOf]
    have hu : readUnicode (c1 :: c2 :: c3 :: c4 :: 0x5c :: 0x75 :: f1 :: f2 :: f3 :: f4 :: r) =
        some ((16 * (16 * (16 * (16 * 0 + d1) + d2) + d3) + d4 - 0xD800) * 0x400 +
              (16 * (16 * (16 * (16 * 0 + e1) + e2) + e3) + e4 - 0xDC00) + 0x10000, r) := by
      unfold readUnicode
      rw [hx]
      simp only
      rw [if_pos hhi, hs]
      simp only
      rw [hy]
      simp only
      rw [if_pos hlo]
    simp [readItem, hu]

theorem body_reads {o p : Bytes} (h : Body o p) : Reads false o p := by
  induction h with
  | nil => exact reads_nil false
  | cons hp _ ih => exact reads_append (piece_reads hp) ih

/-- every string body made of pieces is read as the bytes the pieces denote -/
theorem strText_body {o p : Bytes} (h : Body o p) : StrText false o p := strText_of_reads false o p (body_reads h)

/-! ## every RFC 8259 spelling is an accepted text of the reader -/

theorem ws_gap {w : Bytes} (h : Ws w) : IsGap w := isGap_ws w h

theorem numText_negZero : NumText (Num.ofInt 0) [0x2d, 0x30] := by
  have hl : Lexes [0x2d, 0x30] (numLex NumSt.init [0x2d, 0x30]).2.2 := ⟨by decide, by decide⟩
  refine ⟨hl.head, ?_⟩
  intro rest hr
  rw [hl.parse rest hr]
  have : intOfText [0x2d, 0x30] = 0 := by decide
  simp [this]
  decide

mutual
  theorem spelling_spells : ∀ (j : JVal) (s : Bytes), Spelling j s → Spells (embedRaw j) s
    | .null, s, h => by simpa [Spelling, embedRaw, Spells] using h
    | .bool b, s, h => by simpa [Spelling, embedRaw, Spells] using h
    | .int i, s, h => by
      simp only [Spelling] at h
      simp only [embedRaw]
      rw [Spells]
      rcases h with rfl | ⟨rfl, rfl⟩
      · exact Or.inl (numText_int i)
      · exact Or.inl numText_negZero
    | .lit t, s, h => by
      simp only [Spelling] at h
      obtain ⟨rfl, sf, a, b, d⟩ := h
      simp only [embedRaw]
      rw [Spells]
      exact Or.inl (numText_dec _ ⟨sf, ⟨a, b⟩, d⟩)
    | .str u, s, h => by
      simp only [Spelling] at h
      obtain ⟨p, hb, rfl⟩ := h
      simp only [embedRaw, Spells]
      exact ⟨p, strText_body hb, rfl⟩
    | .arr [], s, h => by
      simp only [Spelling] at h
      obtain ⟨w, hw, rfl⟩ := h
      simp only [embedRaw, embedList, Spells]
      exact ⟨w, ws_gap hw, rfl⟩
    | .arr (v :: vs), s, h => by
      simp only [Spelling] at h
      obtain ⟨w, body, hw, hb, rfl⟩ := h
      have := spellingList_spells (v :: vs) body hb
      simp only [embedRaw, embedList, Spells] at this ⊢
      exact ⟨w, body, ws_gap hw, this, rfl⟩
    | .obj [], s, h => by
      simp only [Spelling] at h
      obtain ⟨w, hw, rfl⟩ := h
      simp only [embedRaw, embedMembers, Spells]
      exact ⟨w, ws_gap hw, rfl⟩
    | .obj ((k, v) :: ms), s, h => by
      simp only [Spelling] at h
      obtain ⟨w, body, hw, hb, rfl⟩ := h
      have := spellingMembers_spells ((k, v) :: ms) body hb
      simp only [embedRaw, embedMembers, Spells] at this ⊢
      exact ⟨w, body, ws_gap hw, this, rfl⟩
  theorem spellingList_spells : ∀ (vs : List JVal) (s : Bytes), SpellingList vs s → SpellsList (embedList vs) s
    | [], s, h => by simp [SpellingList] at h
    | v :: vs, s, h => by
      simp only [SpellingList] at h
      obtain ⟨t, w2, ht, hw2, h⟩ := h
      simp only [embedList]
      rw [spellsList_cons]
      refine ⟨t, w2, spelling_spells v t ht, ws_gap hw2, ?_⟩
      rcases h with ⟨rfl, rfl⟩ | ⟨hne, w1, body, hw1, hb, rfl⟩
      · exact Or.inl ⟨rfl, rfl⟩
      · refine Or.inr ⟨?_, w1, body, ws_gap hw1, spellingList_spells vs body hb, rfl⟩
        cases vs with
        | nil => exact absurd rfl hne
        | cons a b => simp [embedList]
  theorem spellingMembers_spells : ∀ (ms : List (Bytes × JVal)) (s : Bytes), SpellingMembers ms s →
      SpellsEntries (embedMembers ms) s
    | [], s, h => by simp [SpellingMembers] at h
    | (k, v) :: ms, s, h => by
      simp only [SpellingMembers] at h
      obtain ⟨p, w1, w2, tv, w3, hk, hw1, hw2, hv, hw3, h⟩ := h
      simp only [embedMembers]
      rw [spellsEntries_cons]
      have hkey : Spells (.tstr k) (0x22 :: (p ++ [0x22])) := by
        simp only [Spells]; exact ⟨p, strText_body hk, rfl⟩
      refine ⟨_, w1, w2, tv, w3, hkey, ws_gap hw1, ws_gap hw2, spelling_spells v tv hv, ws_gap hw3, ?_⟩
      rcases h with ⟨rfl, rfl⟩ | ⟨hne, w4, body, hw4, hb, rfl⟩
      · exact Or.inl ⟨rfl, rfl⟩
      · refine Or.inr ⟨?_, w4, body, ws_gap hw4, spellingMembers_spells ms body hb, rfl⟩
        cases ms with
        | nil => exact absurd rfl hne
        | cons a b => obtain ⟨x, y⟩ := a; simp [embedMembers]
end

end Jaq.C07
