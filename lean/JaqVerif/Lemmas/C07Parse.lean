import JaqVerif.Lemmas.C07Str
import JaqVerif.Lemmas.C07Num
namespace Jaq.C07

/-! ## semantic building blocks of accepted texts -/

/-- skipped by `ws_tk` -/
def IsGap (w : Bytes) : Prop := ∀ r, wsTk (w ++ r) = wsTk r

/-- `t` is a string body: followed by the closing quote it is read as the bytes `s` -/
def StrText (b : Bool) (s t : Bytes) : Prop := ∀ rest, readStr b (t ++ 0x22 :: rest) = some (s, rest)

theorem isGap_nil : IsGap [] := fun _ => rfl

theorem isGap_append {a b : Bytes} (ha : IsGap a) (hb : IsGap b) : IsGap (a ++ b) := by
  intro r; rw [List.append_assoc, ha, hb]

theorem isGap_ws (w : Bytes) (h : ∀ c ∈ w, isWs c = true) : IsGap w := by
  induction w with
  | nil => exact isGap_nil
  | cons c w ih =>
    intro r
    have hc := h c (by simp)
    have := ih (fun x hx => h x (by simp [hx])) r
    simp only [wsTk, List.cons_append, wsSkip, hc, if_true] at this ⊢
    exact this

/-- a `#` comment up to and including its line feed -/
theorem isGap_comment (body : Bytes) (h : ∀ c ∈ body, c ≠ 0x0a) : IsGap (0x23 :: (body ++ [0x0a])) := by
  intro r
  have key : ∀ body : Bytes, (∀ c ∈ body, c ≠ 0x0a) → wsSkip true (body ++ 0x0a :: r) = wsSkip false r := by
    intro body
    induction body with
    | nil => intro _; simp [wsSkip]
    | cons c b ih =>
      intro hb
      have hc : (c == 0x0a) = false := by simpa using hb c (by simp)
      simp only [List.cons_append, wsSkip, hc]
      exact ih (fun x hx => hb x (by simp [hx]))
  have h23 : isWs 0x23 = false := by decide
  simp only [wsTk, List.cons_append, List.append_assoc, wsSkip, h23]
  simpa using key body h

/-- first byte of a value text: significant for `ws_tk` and no closing bracket -/
def Sig (s : Bytes) : Prop := ∃ c r, s = c :: r ∧ isWs c = false ∧ c ≠ 0x23 ∧ c ≠ 0x5d ∧ c ≠ 0x7d

theorem wsTk_sig {s : Bytes} (h : Sig s) (rest : Bytes) : wsTk (s ++ rest) = s ++ rest := by
  obtain ⟨c, r, rfl, h1, h2, _⟩ := h
  have : (c == 0x23) = false := by simpa using h2
  simp [wsTk, wsSkip, h1, this]

theorem wsTk_byte (c : UInt8) (rest : Bytes) (h1 : isWs c = false) (h2 : c ≠ 0x23) : wsTk (c :: rest) = c :: rest := by
  have : (c == 0x23) = false := by simpa using h2
  simp [wsTk, wsSkip, h1, this]

/-! ## the accepted texts of a syntax tree (objects hold their entries as spelled, duplicates included) -/

mutual
  def Spells : Val → Bytes → Prop
    | .null, s => s = strNull
    | .bool b, s => s = (if b then strTrue else strFalse)
    | .num x, s => NumText x s ∨ (x = .float F64.nan ∧ s = strNaN) ∨ (x = .float F64.posInf ∧ s = strInfinity)
    | .tstr b, s => ∃ t, StrText false b t ∧ s = 0x22 :: (t ++ [0x22])
    | .bstr b, s => ∃ t, StrText true b t ∧ s = 0x62 :: 0x22 :: (t ++ [0x22])
    | .arr [], s => ∃ w, IsGap w ∧ s = 0x5b :: (w ++ [0x5d])
    | .arr (v :: vs), s => ∃ w body, IsGap w ∧ SpellsList (v :: vs) body ∧ s = 0x5b :: (w ++ body)
    | .obj [], s => ∃ w, IsGap w ∧ s = 0x7b :: (w ++ [0x7d])
    | .obj (e :: es), s => ∃ w body, IsGap w ∧ SpellsEntries (e :: es) body ∧ s = 0x7b :: (w ++ body)
  /-- from the first byte of the first element to the closing bracket -/
  def SpellsList : List Val → Bytes → Prop
    | [], _ => False
    | v :: vs, s => ∃ t w2, Spells v t ∧ IsGap w2 ∧
        ((vs = [] ∧ s = t ++ (w2 ++ [0x5d])) ∨
         (vs ≠ [] ∧ ∃ w1 body, IsGap w1 ∧ SpellsList vs body ∧ s = t ++ (w2 ++ 0x2c :: (w1 ++ body))))
  def SpellsEntries : List (Val × Val) → Bytes → Prop
    | [], _ => False
    | (k, v) :: es, s => ∃ tk w1 w2 tv w3, Spells k tk ∧ IsGap w1 ∧ IsGap w2 ∧ Spells v tv ∧ IsGap w3 ∧
        ((es = [] ∧ s = tk ++ (w1 ++ 0x3a :: (w2 ++ (tv ++ (w3 ++ [0x7d]))))) ∨
         (es ≠ [] ∧ ∃ w4 body, IsGap w4 ∧ SpellsEntries es body ∧
            s = tk ++ (w1 ++ 0x3a :: (w2 ++ (tv ++ (w3 ++ 0x2c :: (w4 ++ body)))))))
end

/-! the value a syntax tree denotes: entries are `insert`ed in order into each object -/
mutual
  def resolve : Val → Val
    | .arr a => .arr (resolveList a)
    | .obj o => .obj (Obj.ofList (resolveEntries o))
    | v => v
  def resolveList : List Val → List Val
    | [] => []
    | v :: vs => resolve v :: resolveList vs
  def resolveEntries : List (Val × Val) → List (Val × Val)
    | [] => []
    | (k, v) :: es => (resolve k, resolve v) :: resolveEntries es
end

/-! ## `parse` on the leaves -/

theorem parseValF_null (n : Nat) (rest : Bytes) : parseValF (n + 1) (strNull ++ rest) = some (.null, rest) := by
  simp [parseValF, strNull, stripPrefix, List.isPrefixOf]

theorem parseValF_true (n : Nat) (rest : Bytes) : parseValF (n + 1) (strTrue ++ rest) = some (.bool true, rest) := by
  simp [parseValF, strTrue, stripPrefix, List.isPrefixOf]

theorem parseValF_false (n : Nat) (rest : Bytes) : parseValF (n + 1) (strFalse ++ rest) = some (.bool false, rest) := by
  simp [parseValF, strFalse, stripPrefix, List.isPrefixOf]

theorem parseValF_nan (n : Nat) (rest : Bytes) : parseValF (n + 1) (strNaN ++ rest) = some (.num (.float F64.nan), rest) := by
  simp [parseValF, strNaN, stripPrefix, List.isPrefixOf]

theorem parseValF_inf (n : Nat) (rest : Bytes) :
    parseValF (n + 1) (strInfinity ++ rest) = some (.num (.float F64.posInf), rest) := by
  simp [parseValF, strInfinity, stripPrefix, List.isPrefixOf]

theorem num_head_facts (c : UInt8) (h : (isDigit c || isSign c) = true) :
    c ≠ 0x6e ∧ c ≠ 0x74 ∧ c ≠ 0x66 ∧ c ≠ 0x62 ∧ c ≠ 0x4e ∧ c ≠ 0x49 ∧ isWs c = false ∧ c ≠ 0x23 ∧ c ≠ 0x5d ∧ c ≠ 0x7d := by
  have : ∀ i : Fin 256, (isDigit (UInt8.ofNat i.val) || isSign (UInt8.ofNat i.val)) = true →
      UInt8.ofNat i.val ≠ 0x6e ∧ UInt8.ofNat i.val ≠ 0x74 ∧ UInt8.ofNat i.val ≠ 0x66 ∧ UInt8.ofNat i.val ≠ 0x62 ∧
      UInt8.ofNat i.val ≠ 0x4e ∧ UInt8.ofNat i.val ≠ 0x49 ∧ isWs (UInt8.ofNat i.val) = false ∧ UInt8.ofNat i.val ≠ 0x23 ∧
      UInt8.ofNat i.val ≠ 0x5d ∧ UInt8.ofNat i.val ≠ 0x7d := by decide +kernel
  have e : c = UInt8.ofNat c.toNat := by simp
  rw [e] at h ⊢
  exact this ⟨c.toNat, c.toNat_lt⟩ h

theorem parseValF_num (n : Nat) (x : Num) (t rest : Bytes) (h : NumText x t) (hr : NumStop rest) :
    parseValF (n + 1) (t ++ rest) = some (.num x, rest) := by
  obtain ⟨⟨c, r, rfl, hc⟩, hp⟩ := h
  obtain ⟨a1, a2, a3, a4, a5, a6, _⟩ := num_head_facts c hc
  have := hp rest hr
  simp only [List.cons_append] at this ⊢
  simp [parseValF, a1, a2, a3, a4, a5, a6, hc, this]

theorem parseValF_tstr (n : Nat) (b t rest : Bytes) (h : StrText false b t) :
    parseValF (n + 1) (0x22 :: (t ++ [0x22]) ++ rest) = some (.tstr b, rest) := by
  have := h rest
  simp [parseValF, isDigit, isSign, this]

theorem parseValF_bstr (n : Nat) (b t rest : Bytes) (h : StrText true b t) :
    parseValF (n + 1) (0x62 :: 0x22 :: (t ++ [0x22]) ++ rest) = some (.bstr b, rest) := by
  have := h rest
  simp [parseValF, this]

/-! ## first bytes -/

theorem sig_of_head (c : UInt8) (r : Bytes) (h : isWs c = false ∧ c ≠ 0x23 ∧ c ≠ 0x5d ∧ c ≠ 0x7d) : Sig (c :: r) :=
  ⟨c, r, rfl, h⟩

theorem spells_sig : ∀ (t : Val) (s : Bytes), Spells t s → Sig s := by
  intro t s h
  cases t with
  | null => simp only [Spells] at h; subst h; exact sig_of_head _ _ (by decide)
  | bool b => simp only [Spells] at h; subst h; cases b <;> exact sig_of_head _ _ (by decide)
  | num x =>
    simp only [Spells] at h
    rcases h with h | ⟨_, rfl⟩ | ⟨_, rfl⟩
    · obtain ⟨⟨c, r, rfl, hc⟩, _⟩ := h
      obtain ⟨_, _, _, _, _, _, b1, b2, b3, b4⟩ := num_head_facts c hc
      exact sig_of_head _ _ ⟨b1, b2, b3, b4⟩
    · exact sig_of_head _ _ (by decide)
    · exact sig_of_head _ _ (by decide)
  | tstr b => simp only [Spells] at h; obtain ⟨t, _, rfl⟩ := h; exact sig_of_head _ _ (by decide)
  | bstr b => simp only [Spells] at h; obtain ⟨t, _, rfl⟩ := h; exact sig_of_head _ _ (by decide)
  | arr a =>
    cases a with
    | nil => simp only [Spells] at h; obtain ⟨w, _, rfl⟩ := h; exact sig_of_head _ _ (by decide)
    | cons v vs => simp only [Spells] at h; obtain ⟨w, body, _, _, rfl⟩ := h; exact sig_of_head _ _ (by decide)
  | obj o =>
    cases o with
    | nil => simp only [Spells] at h; obtain ⟨w, _, rfl⟩ := h; exact sig_of_head _ _ (by decide)
    | cons e es => simp only [Spells] at h; obtain ⟨w, body, _, _, rfl⟩ := h; exact sig_of_head _ _ (by decide)

theorem sig_append {s : Bytes} (h : Sig s) (r : Bytes) : Sig (s ++ r) := by
  obtain ⟨c, t, rfl, hc⟩ := h
  exact ⟨c, t ++ r, rfl, hc⟩

theorem spellsList_sig (vs : List Val) (s : Bytes) (h : SpellsList vs s) : Sig s := by
  cases vs with
  | nil => simp [SpellsList] at h
  | cons v vs =>
    simp only [SpellsList] at h
    obtain ⟨t, w2, ht, _, h⟩ := h
    rcases h with ⟨_, rfl⟩ | ⟨_, w1, body, _, _, rfl⟩ <;> exact sig_append (spells_sig _ _ ht) _

theorem spellsEntries_sig (es : List (Val × Val)) (s : Bytes) (h : SpellsEntries es s) : Sig s := by
  cases es with
  | nil => simp [SpellsEntries] at h
  | cons e es =>
    obtain ⟨k, v⟩ := e
    simp only [SpellsEntries] at h
    obtain ⟨tk, w1, w2, tv, w3, hk, _, _, _, _, h⟩ := h
    rcases h with ⟨_, rfl⟩ | ⟨_, w4, body, _, _, rfl⟩ <;> exact sig_append (spells_sig _ _ hk) _

/-- what follows a gap and then a structural byte cannot continue a number -/
theorem numStop_gap (w : Bytes) (c : UInt8) (x : Bytes) (hw : IsGap w)
    (hc : isDigit c = false ∧ c ≠ 0x2e ∧ isE c = false) : NumStop (w ++ c :: x) := by
  intro a r e
  cases w with
  | nil => simp at e; obtain ⟨rfl, _⟩ := e; exact hc
  | cons b w' =>
    simp at e
    obtain ⟨rfl, _⟩ := e
    have h0 := hw []
    simp only [List.append_nil, wsTk] at h0
    have : ∀ i : Fin 256, (isWs (UInt8.ofNat i.val) = true ∨ UInt8.ofNat i.val = 0x23) →
        isDigit (UInt8.ofNat i.val) = false ∧ UInt8.ofNat i.val ≠ 0x2e ∧ isE (UInt8.ofNat i.val) = false := by decide +kernel
    have e : b = UInt8.ofNat b.toNat := by simp
    by_cases h1 : isWs b = true
    · rw [e] at h1 ⊢; exact this ⟨b.toNat, b.toNat_lt⟩ (Or.inl h1)
    · by_cases h2 : b = 0x23
      · rw [e] at h2 ⊢; exact this ⟨b.toNat, b.toNat_lt⟩ (Or.inr h2)
      · have h1' : isWs b = false := by simpa using h1
        have h2' : (b == 0x23) = false := by simpa using h2
        simp [wsSkip, h1', h2'] at h0

theorem wsTk_gap_byte (w : Bytes) (c : UInt8) (x : Bytes) (hw : IsGap w) (h1 : isWs c = false) (h2 : c ≠ 0x23) :
    wsTk (w ++ c :: x) = c :: x := by
  rw [hw, wsTk_byte c x h1 h2]

theorem wsTk_gap_sig (w s x : Bytes) (hw : IsGap w) (hs : Sig s) : wsTk (w ++ (s ++ x)) = s ++ x := by
  rw [hw, wsTk_sig hs]

/-! ## soundness of the reader on every accepted text -/

def SoundV (k : Nat) : Prop := ∀ (t : Val) (s : Bytes), t.size ≤ k → Spells t s → ∀ (rest : Bytes) (n : Nat),
  NumStop rest → 2 * t.size ≤ n → parseValF n (s ++ rest) = some (resolve t, rest)
def SoundL (k : Nat) : Prop := ∀ (vs : List Val) (s : Bytes), Val.sizeList vs ≤ k → SpellsList vs s → ∀ (rest : Bytes) (n : Nat),
  2 * Val.sizeList vs + 1 ≤ n → arrLoopF n (s ++ rest) = some (resolveList vs, rest)
def SoundE (k : Nat) : Prop := ∀ (es : List (Val × Val)) (s : Bytes), Val.sizeEntries es ≤ k → SpellsEntries es s →
  ∀ (rest : Bytes) (n : Nat), 2 * Val.sizeEntries es + 1 ≤ n → objLoopF n (s ++ rest) = some (resolveEntries es, rest)

theorem stop_bracket : isDigit 0x5d = false ∧ (0x5d : UInt8) ≠ 0x2e ∧ isE 0x5d = false := by decide
theorem stop_brace : isDigit 0x7d = false ∧ (0x7d : UInt8) ≠ 0x2e ∧ isE 0x7d = false := by decide
theorem stop_comma : isDigit 0x2c = false ∧ (0x2c : UInt8) ≠ 0x2e ∧ isE 0x2c = false := by decide
theorem stop_colon : isDigit 0x3a = false ∧ (0x3a : UInt8) ≠ 0x2e ∧ isE 0x3a = false := by decide

theorem soundL_step (k : Nat) (hv : SoundV (k + 1)) (hl : SoundL k) : SoundL (k + 1) := by
  intro vs s hsz hs rest n hn
  cases vs with
  | nil => simp [SpellsList] at hs
  | cons v vs =>
    simp only [SpellsList] at hs
    obtain ⟨t, w2, ht, hw2, hs⟩ := hs
    simp only [Val.sizeList] at hsz hn
    have hvpos := Val.size_pos v
    cases n with
    | zero => omega
    | succ n =>
      rcases hs with ⟨rfl, rfl⟩ | ⟨hne, w1, body, hw1, hbody, rfl⟩
      · simp only [Val.sizeList] at hsz hn
        have h1 := hv v t (by omega) ht (w2 ++ 0x5d :: rest) n (numStop_gap w2 _ rest hw2 stop_bracket) (by omega)
        have e : (t ++ (w2 ++ [0x5d])) ++ rest = t ++ (w2 ++ 0x5d :: rest) := by simp
        rw [e]
        simp only [arrLoopF, h1, wsTk_gap_byte w2 0x5d rest hw2 (by decide) (by decide)]
        simp [resolveList]
      · have hbs := spellsList_sig vs body hbody
        have h1 := hv v t (by omega) ht (w2 ++ 0x2c :: (w1 ++ (body ++ rest))) n
          (numStop_gap w2 _ _ hw2 stop_comma) (by omega)
        have e : (t ++ (w2 ++ 0x2c :: (w1 ++ body))) ++ rest = t ++ (w2 ++ 0x2c :: (w1 ++ (body ++ rest))) := by simp
        rw [e]
        have h2 := hl vs body (by omega) hbody rest n (by omega)
        obtain ⟨c, r, hcr, _⟩ := hbs
        simp only [arrLoopF, h1, wsTk_gap_byte w2 0x2c _ hw2 (by decide) (by decide)]
        have e2 : wsTk (w1 ++ (body ++ rest)) = c :: (r ++ rest) := by
          rw [wsTk_gap_sig w1 body rest hw1 ⟨c, r, hcr, by assumption⟩, hcr]; rfl
        rw [hcr] at h2
        simp only [List.cons_append] at h2
        simp [e2, h2, resolveList]

theorem soundE_step (k : Nat) (hv : SoundV (k + 1)) (hl : SoundE k) : SoundE (k + 1) := by
  intro es s hsz hs rest n hn
  cases es with
  | nil => simp [SpellsEntries] at hs
  | cons e es =>
    obtain ⟨key, v⟩ := e
    simp only [SpellsEntries] at hs
    obtain ⟨tk, w1, w2, tv, w3, hk, hw1, hw2, htv, hw3, hs⟩ := hs
    simp only [Val.sizeEntries] at hsz hn
    have hkpos := Val.size_pos key
    have hvpos := Val.size_pos v
    obtain ⟨cv, rv, hcv, hcv1, hcv2, _⟩ := spells_sig v tv htv
    cases n with
    | zero => omega
    | succ n =>
      rcases hs with ⟨rfl, rfl⟩ | ⟨hne, w4, body, hw4, hbody, rfl⟩
      · simp only [Val.sizeEntries] at hsz hn
        have e : (tk ++ (w1 ++ 0x3a :: (w2 ++ (tv ++ (w3 ++ [0x7d]))))) ++ rest
            = tk ++ (w1 ++ 0x3a :: (w2 ++ (tv ++ (w3 ++ 0x7d :: rest)))) := by simp
        rw [e]
        have h1 := hv key tk (by omega) hk (w1 ++ 0x3a :: (w2 ++ (tv ++ (w3 ++ 0x7d :: rest)))) n
          (numStop_gap w1 _ _ hw1 stop_colon) (by omega)
        have h2 := hv v tv (by omega) htv (w3 ++ 0x7d :: rest) n (numStop_gap w3 _ rest hw3 stop_brace) (by omega)
        have e2 : wsTk (w2 ++ (tv ++ (w3 ++ 0x7d :: rest))) = cv :: (rv ++ (w3 ++ 0x7d :: rest)) := by
          rw [wsTk_gap_sig w2 tv _ hw2 (spells_sig v tv htv), hcv]; rfl
        rw [hcv] at h2
        simp only [List.cons_append] at h2
        simp only [objLoopF, h1, wsTk_gap_byte w1 0x3a _ hw1 (by decide) (by decide), e2, h2,
          wsTk_gap_byte w3 0x7d rest hw3 (by decide) (by decide)]
        simp [resolveEntries]
      · have hbs := spellsEntries_sig es body hbody
        obtain ⟨c, r, hcr, hc1, hc2, _⟩ := hbs
        have e : (tk ++ (w1 ++ 0x3a :: (w2 ++ (tv ++ (w3 ++ 0x2c :: (w4 ++ body)))))) ++ rest
            = tk ++ (w1 ++ 0x3a :: (w2 ++ (tv ++ (w3 ++ 0x2c :: (w4 ++ (body ++ rest)))))) := by simp
        rw [e]
        have h1 := hv key tk (by omega) hk (w1 ++ 0x3a :: (w2 ++ (tv ++ (w3 ++ 0x2c :: (w4 ++ (body ++ rest)))))) n
          (numStop_gap w1 _ _ hw1 stop_colon) (by omega)
        have h2 := hv v tv (by omega) htv (w3 ++ 0x2c :: (w4 ++ (body ++ rest))) n (numStop_gap w3 _ _ hw3 stop_comma) (by omega)
        have h3 := hl es body (by omega) hbody rest n (by omega)
        have e2 : wsTk (w2 ++ (tv ++ (w3 ++ 0x2c :: (w4 ++ (body ++ rest))))) = cv :: (rv ++ (w3 ++ 0x2c :: (w4 ++ (body ++ rest)))) := by
          rw [wsTk_gap_sig w2 tv _ hw2 (spells_sig v tv htv), hcv]; rfl
        have e3 : wsTk (w4 ++ (body ++ rest)) = c :: (r ++ rest) := by
          rw [wsTk_gap_sig w4 body rest hw4 ⟨c, r, hcr, hc1, hc2, by assumption⟩, hcr]; rfl
        rw [hcv] at h2
        rw [hcr] at h3
        simp only [List.cons_append] at h2 h3
        simp only [objLoopF, h1, wsTk_gap_byte w1 0x3a _ hw1 (by decide) (by decide), e2, h2,
          wsTk_gap_byte w3 0x2c _ hw3 (by decide) (by decide), e3, h3]
        simp [resolveEntries]

theorem soundV_step (k : Nat) (hl : SoundL k) (he : SoundE k) : SoundV (k + 1) := by
  intro t s hsz hs rest n hr hn
  have hpos := Val.size_pos t
  cases n with
  | zero => omega
  | succ n =>
    cases t with
    | null => simp only [Spells] at hs; subst hs; exact parseValF_null n rest
    | bool b =>
      simp only [Spells] at hs; subst hs
      cases b
      · exact parseValF_false n rest
      · exact parseValF_true n rest
    | num x =>
      simp only [Spells] at hs
      rcases hs with h | ⟨rfl, rfl⟩ | ⟨rfl, rfl⟩
      · exact parseValF_num n x s rest h hr
      · exact parseValF_nan n rest
      · exact parseValF_inf n rest
    | tstr b => simp only [Spells] at hs; obtain ⟨t, ht, rfl⟩ := hs; exact parseValF_tstr n b t rest ht
    | bstr b => simp only [Spells] at hs; obtain ⟨t, ht, rfl⟩ := hs; exact parseValF_bstr n b t rest ht
    | arr a =>
      cases a with
      | nil =>
        simp only [Spells] at hs
        obtain ⟨w, hw, rfl⟩ := hs
        have e : wsTk (w ++ 0x5d :: rest) = 0x5d :: rest := wsTk_gap_byte w 0x5d rest hw (by decide) (by decide)
        simp [parseValF, isDigit, isSign, e, resolve, resolveList]
      | cons v vs =>
        simp only [Spells] at hs
        obtain ⟨w, body, hw, hbody, rfl⟩ := hs
        simp only [Val.size] at hsz hn
        obtain ⟨c, r, hcr, hc1, hc2, hc3, hc4⟩ := spellsList_sig _ body hbody
        have h1 := hl (v :: vs) body (by omega) hbody rest n (by omega)
        have e : wsTk (w ++ (body ++ rest)) = c :: (r ++ rest) := by
          rw [wsTk_gap_sig w body rest hw ⟨c, r, hcr, hc1, hc2, hc3, hc4⟩, hcr]; rfl
        rw [hcr] at h1
        simp only [List.cons_append] at h1
        have hc3' : (c == 0x5d) = false := by simpa using hc3
        simp [parseValF, isDigit, isSign, e, hc3', h1, resolve]
    | obj o =>
      cases o with
      | nil =>
        simp only [Spells] at hs
        obtain ⟨w, hw, rfl⟩ := hs
        have e : wsTk (w ++ 0x7d :: rest) = 0x7d :: rest := wsTk_gap_byte w 0x7d rest hw (by decide) (by decide)
        simp [parseValF, isDigit, isSign, e, resolve, resolveEntries, Obj.ofList, Obj.extend]
      | cons en es =>
        simp only [Spells] at hs
        obtain ⟨w, body, hw, hbody, rfl⟩ := hs
        simp only [Val.size] at hsz hn
        obtain ⟨c, r, hcr, hc1, hc2, hc3, hc4⟩ := spellsEntries_sig _ body hbody
        have h1 := he (en :: es) body (by omega) hbody rest n (by omega)
        have e : wsTk (w ++ (body ++ rest)) = c :: (r ++ rest) := by
          rw [wsTk_gap_sig w body rest hw ⟨c, r, hcr, hc1, hc2, hc3, hc4⟩, hcr]; rfl
        rw [hcr] at h1
        simp only [List.cons_append] at h1
        have hc4' : (c == 0x7d) = false := by simpa using hc4
        simp [parseValF, isDigit, isSign, e, hc4', h1, resolve]

theorem sound_all : ∀ k, SoundV k ∧ SoundL k ∧ SoundE k := by
  intro k
  induction k with
  | zero =>
    refine ⟨?_, ?_, ?_⟩
    · intro t s hsz; have := Val.size_pos t; omega
    · intro vs s hsz hs
      cases vs with
      | nil => simp [SpellsList] at hs
      | cons v vs => simp only [Val.sizeList] at hsz; have := Val.size_pos v; omega
    · intro es s hsz hs
      cases es with
      | nil => simp [SpellsEntries] at hs
      | cons e es => obtain ⟨a, b⟩ := e; simp only [Val.sizeEntries] at hsz; have := Val.size_pos a; omega
  | succ k ih =>
    obtain ⟨_, hl, he⟩ := ih
    have hv := soundV_step k hl he
    exact ⟨hv, soundL_step k hv hl, soundE_step k hv he⟩

/-- every accepted text of a syntax tree is read as the value the tree denotes -/
theorem spells_parseValF (t : Val) (s rest : Bytes) (n : Nat) (hs : Spells t s) (hr : NumStop rest)
    (hn : 2 * t.size ≤ n) : parseValF n (s ++ rest) = some (resolve t, rest) :=
  (sound_all t.size).1 t s (Nat.le_refl _) hs rest n hr hn

end Jaq.C07
