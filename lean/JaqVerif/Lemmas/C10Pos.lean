/-
  C10 helper lemmas, part 1: `PosUsize` arithmetic (`wrap`, `abs_bound`, `abs_index`, `skip_take`)
  against the Python-style `norm`/`pos`/`inside`.
-/
import JaqVerif.C10.Index
import JaqVerif.C10.Spec

namespace Jaq
namespace C10
open Spec

def usizeMaxN : Nat := 18446744073709551615

/-- the `PosUsize` of an integer -/
def puOfInt (i : Int) : PosUsize := (decide (0 ≤ i), i.natAbs)

theorem asPosUsize_int (i : Int) : numAsPosUsize (.int i) = some (puOfInt i) := by
  simp [numAsPosUsize, Num.asPosUsize, puOfInt]

theorem asPosUsize_big (i : Int) (h : i.natAbs ≤ usizeMaxN) :
    numAsPosUsize (.big i) = some (puOfInt i) := by
  have : (Int.ofNat i.natAbs ≤ usizeMax) := by
    unfold usizeMax; unfold usizeMaxN at h; simp only [Int.ofNat_eq_natCast]; omega
  have hs : (!decide (i < 0)) = decide (0 ≤ i) := by
    by_cases h0 : i < 0 <;> simp [h0] <;> omega
  simp only [numAsPosUsize, Num.asPosUsize, if_pos this, puOfInt]
  cases fixBigintBound
  · simp [hs]
  · unfold usizeMaxN at h; unfold usizeMaxNat; simp [hs]; omega

/-- beyond `usize::MAX`: refused (unfixed) or saturated (fixed) -/
theorem asPosUsize_big_beyond (i : Int) (h : usizeMaxN < i.natAbs) :
    numAsPosUsize (.big i) = if fixBigintBound then some (decide (0 ≤ i), usizeMaxN) else none := by
  have : ¬ (Int.ofNat i.natAbs ≤ usizeMax) := by
    unfold usizeMax; unfold usizeMaxN at h; simp only [Int.ofNat_eq_natCast]; omega
  have hs : (!decide (i < 0)) = decide (0 ≤ i) := by
    by_cases h0 : i < 0 <;> simp [h0] <;> omega
  simp only [numAsPosUsize, Num.asPosUsize, if_neg this]
  cases fixBigintBound
  · simp
  · unfold usizeMaxN at h ⊢; unfold usizeMaxNat; simp [hs]; omega

/-- a saturated position is outside every container shorter than `usize::MAX` -/
theorem absIndex_saturated (s : Bool) (len : Nat) (h : len < usizeMaxN) :
    absIndex (s, usizeMaxN) len = none := by
  unfold absIndex wrap
  cases s
  · have : ¬ usizeMaxN ≤ len := by omega
    simp [this]
  · have : ¬ usizeMaxN < len := by omega
    simp [this]; omega

/-- a saturated bound clips like the integer it stands for -/
theorem absBound_saturated (i : Int) (len d : Nat) (hi : usizeMaxN < i.natAbs) (h : len < usizeMaxN) :
    absBound (some (decide (0 ≤ i), usizeMaxN)) len d = Spec.norm i len := by
  unfold absBound wrap Spec.norm
  by_cases h0 : 0 ≤ i
  · have : ¬ i < 0 := by omega
    simp [h0, this]; omega
  · have h1 : i < 0 := by omega
    have : ¬ usizeMaxN ≤ len := by omega
    simp [h0, h1, this]; omega

theorem wrap_puOfInt (i : Int) (len : Nat) :
    wrap (puOfInt i) len =
      if 0 ≤ i then some i.toNat
      else if -i ≤ (len : Int) then some (len - (-i).toNat) else none := by
  unfold wrap puOfInt
  by_cases h : 0 ≤ i
  · simp [h]; omega
  · simp only [h, decide_false, Bool.false_eq_true, if_false]
    by_cases h2 : -i ≤ (len : Int)
    · have : i.natAbs ≤ len := by omega
      simp only [this, h2, if_true]; congr 1; omega
    · have : ¬ i.natAbs ≤ len := by omega
      simp [this, h2]

theorem absBound_puOfInt (i : Int) (len d : Nat) :
    absBound (some (puOfInt i)) len d = norm i len := by
  unfold norm
  simp only [absBound]
  rw [wrap_puOfInt]
  by_cases h : 0 ≤ i
  · have : ¬ i < 0 := by omega
    simp [h, this]
  · have h' : i < 0 := by omega
    simp only [h, h', if_true, if_false]
    by_cases h2 : -i ≤ (len : Int)
    · simp only [h2, if_true, Option.getD_some]; omega
    · simp only [h2, if_false, Option.getD_none]; omega

theorem absIndex_puOfInt (i : Int) (len : Nat) :
    absIndex (puOfInt i) len = if inside len i then some (pos len i) else none := by
  unfold absIndex inside pos
  rw [wrap_puOfInt]
  by_cases h : 0 ≤ i
  · simp only [h, if_true]
    by_cases h2 : i < (len : Int)
    · have : i.toNat < len := by omega
      have h3 : -((len : Int)) ≤ i := by omega
      simp [this, h2, h3]
    · have : ¬ i.toNat < len := by omega
      simp [h2]; omega
  · simp only [h, if_false]
    by_cases h2 : -i ≤ (len : Int)
    · have h3 : -((len : Int)) ≤ i ∧ i < (len : Int) := by omega
      have : len - (-i).toNat < len := by omega
      simp [h2, h3, this]
    · have h3 : ¬ (-((len : Int)) ≤ i ∧ i < (len : Int)) := by omega
      simp [h2, h3]

/-- bounds as integers -/
def puRange (i j : Option Int) : Range PosUsize := (i.map puOfInt, j.map puOfInt)

theorem skipTake_puRange (i j : Option Int) (len : Nat) :
    skipTake (puRange i j) len = (lo i len, hi j len - lo i len) := by
  unfold skipTake puRange lo hi
  cases i <;> cases j <;> simp [absBound_puOfInt] <;> simp [absBound]

theorem norm_le (i : Int) (len : Nat) : norm i len ≤ len := by
  unfold norm; split <;> omega

theorem lo_le (i : Option Int) (len : Nat) : lo i len ≤ len := by
  unfold lo; cases i <;> simp [norm_le]

theorem hi_le (j : Option Int) (len : Nat) : hi j len ≤ len := by
  unfold hi; cases j <;> simp [norm_le]

theorem pos_lt {len : Nat} {i : Int} (h : inside len i) : pos len i < len := by
  unfold inside at h; unfold pos; split <;> omega

end C10
end Jaq
