/-
  C10 helper lemmas, part 5: updates (`map_index`, `map_range`, `map_values`), objects.
-/
import JaqVerif.Lemmas.C10Val

namespace Jaq
namespace C10
open Spec

theorem asPosUsizeV_of_pos {idx : Val} {k : Int} (h : IsPos idx k) :
    asPosUsize idx = .ok (puOfInt k) ∨
    (usizeMaxN < k.natAbs ∧ fixBigintBound = false ∧ asPosUsize idx = .error (.typ idx tyInt)) ∨
    (usizeMaxN < k.natAbs ∧ fixBigintBound = true ∧ asPosUsize idx = .ok (decide (0 ≤ k), usizeMaxN)) := by
  cases h with
  | int => exact .inl (by simp [asPosUsize, asPosUsize_int])
  | big =>
    by_cases hb : k.natAbs ≤ usizeMaxN
    · exact .inl (by simp [asPosUsize, asPosUsize_big k hb])
    · have hb' : usizeMaxN < k.natAbs := by omega
      cases hfx : fixBigintBound
      · exact .inr (.inl ⟨hb', rfl, by simp [asPosUsize, asPosUsize_big_beyond k hb', hfx]⟩)
      · exact .inr (.inr ⟨hb', rfl, by simp [asPosUsize, asPosUsize_big_beyond k hb', hfx]⟩)

/-- the array arm of `map_index`, on an integer index -/
theorem mapIndex_arr_num (a : List Val) (n : Num) (opt : Opt) (f : Upd) :
    mapIndex (.arr a) (.num n) opt f =
      match asPosUsize (.num n) with
      | .error e => opt.fail (.arr a) e
      | .ok p =>
        match absIndex p a.length with
        | none => opt.fail (.arr a) oob
        | some i =>
          match a[i]? with
          | none => .ok (.arr a)
          | some x =>
            match (f x).head? with
            | some (.error e) => .error e
            | some (.ok y) => .ok (.arr (a.set i y))
            | none => .ok (.arr (a.eraseIdx i)) := by
  rfl

theorem firstConv_congr {α : Type} (conv : Val → Except Err (List α)) {l l' : List (Except Err Val)}
    (h : l.head? = l'.head?) : firstConv conv l = firstConv conv l' := by
  unfold firstConv; rw [h]

/-! ### objects -/

theorem objFindIdx_keys (o : Obj.Entries) (k : Val) :
    objFindIdx o k = (o.map (·.1)).findIdx? (fun k' => Obj.sameKey k k') := by
  unfold objFindIdx
  induction o with
  | nil => rfl
  | cons e o ih => simp only [List.map_cons, List.findIdx?_cons, ih]

theorem objFindIdx_congr {o r : Obj.Entries} (h : r.map (·.1) = o.map (·.1)) (k : Val) :
    objFindIdx r k = objFindIdx o k := by
  rw [objFindIdx_keys, objFindIdx_keys, h]

theorem keys_set (o : Obj.Entries) (i : Nat) (k0 old y : Val) (h : o[i]? = some (k0, old)) :
    (o.set i (k0, y)).map (·.1) = o.map (·.1) := by
  apply List.ext_getElem?
  intro n
  simp only [List.getElem?_map, List.getElem?_set]
  by_cases hn : i = n
  · subst hn
    obtain ⟨hi, he⟩ := List.getElem?_eq_some_iff.mp h
    simp [hi, he]
  · simp [hn]

theorem objFindIdx_lt {o : Obj.Entries} {k : Val} {i : Nat} (h : objFindIdx o k = some i) :
    i < o.length := by
  unfold objFindIdx at h
  exact (List.findIdx?_eq_some_iff_findIdx_eq.mp h).1

/-- `Pairwise` distinct keys in insertion order: a later key never finds an earlier entry -/
def KeysDistinct (o : Obj.Entries) : Prop :=
  o.Pairwise fun e1 e2 => Obj.sameKey e2.1 e1.1 = false

theorem has_false_of_all {acc : Obj.Entries} {k : Val}
    (h : ∀ e ∈ acc, Obj.sameKey k e.1 = false) : Obj.has acc k = false := by
  unfold Obj.has Obj.get
  have : List.find? (fun x => match x with | (k', _) => Obj.sameKey k k') acc = none := by
    rw [List.find?_eq_none]
    intro e he
    obtain ⟨k', v'⟩ := e
    simpa using h (k', v') he
  rw [this]; rfl

theorem extend_distinct (acc kvs : Obj.Entries) (h : KeysDistinct (acc ++ kvs)) :
    Obj.extend acc kvs = acc ++ kvs := by
  induction kvs generalizing acc with
  | nil => simp [Obj.extend]
  | cons e kvs ih =>
    obtain ⟨k, v⟩ := e
    unfold Obj.extend
    simp only [List.foldl_cons]
    have hno : Obj.has acc k = false := by
      apply has_false_of_all
      intro e he
      unfold KeysDistinct at h
      rw [List.pairwise_append] at h
      exact h.2.2 e he (k, v) (by simp)
    have hins : Obj.insert acc k v = acc ++ [(k, v)] := by
      unfold Obj.insert; simp [hno]
    rw [hins]
    have := ih (acc ++ [(k, v)]) (by simpa using h)
    unfold Obj.extend at this
    rw [this]; simp

theorem ofList_distinct (es : Obj.Entries) (h : KeysDistinct es) : Obj.ofList es = es := by
  unfold Obj.ofList
  rw [extend_distinct [] es (by simpa using h)]; simp

/-- the entries `map_values` keeps on an object: a sublist, in order, with the first outputs -/
theorem mapObjEntries_sublist (f : Upd) (o es : Obj.Entries) (h : mapObjEntries f o = .ok es) :
    (es.map (·.1)).Sublist (o.map (·.1)) ∧
    ∀ e ∈ es, ∃ old, (e.1, old) ∈ o ∧ (f old).head? = some (.ok e.2) := by
  induction o generalizing es with
  | nil => simp [mapObjEntries] at h; subst h; simp
  | cons e o ih =>
    obtain ⟨k, v⟩ := e
    simp only [mapObjEntries] at h
    cases hf : (f v).head? with
    | none =>
      rw [hf] at h
      obtain ⟨h1, h2⟩ := ih es h
      refine ⟨List.Sublist.cons _ h1, ?_⟩
      intro e he
      obtain ⟨old, ho, hh⟩ := h2 e he
      exact ⟨old, List.mem_cons_of_mem _ ho, hh⟩
    | some r =>
      rw [hf] at h
      cases r with
      | error e => cases h
      | ok y =>
        simp only at h
        cases hr : mapObjEntries f o with
        | error e => rw [hr] at h; cases h
        | ok r =>
          rw [hr] at h
          cases h
          obtain ⟨h1, h2⟩ := ih r hr
          refine ⟨by simpa using List.Sublist.cons₂ k h1, ?_⟩
          intro e he
          rcases List.mem_cons.mp he with rfl | he
          · exact ⟨v, by simp, hf⟩
          · obtain ⟨old, ho, hh⟩ := h2 e he
            exact ⟨old, List.mem_cons_of_mem _ ho, hh⟩

theorem keysDistinct_of_sublist {o es : Obj.Entries} (h : KeysDistinct o)
    (hs : (es.map (·.1)).Sublist (o.map (·.1))) : KeysDistinct es := by
  unfold KeysDistinct at *
  have ho : (o.map (·.1)).Pairwise (fun k1 k2 => Obj.sameKey k2 k1 = false) := by
    rw [List.pairwise_map]; exact h
  have := ho.sublist hs
  rw [List.pairwise_map] at this
  exact this

/-- the value of a result -/
def okOf (r : Except Err Val) : Option Val :=
  match r with
  | .ok y => some y
  | .error _ => none

/-- `collect` of results that are all values -/
theorem collect_all_ok (l : List (Except Err Val)) (h : ∀ r ∈ l, ∃ y, r = .ok y) :
    collect l = .ok (l.filterMap okOf) := by
  induction l with
  | nil => rfl
  | cons r l ih =>
    obtain ⟨y, rfl⟩ := h r (by simp)
    simp only [collect, ih (fun r hr => h r (List.mem_cons_of_mem _ hr))]
    simp [okOf]

end C10
end Jaq
