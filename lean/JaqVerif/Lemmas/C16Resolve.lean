/- C16: helper lemmas about the compiler's look-up functions. -/
import JaqVerif.C16.Inline

namespace Jaq.C16

theorem lastPos_le (b : Bind) : ∀ (s : Stack) (v : Nat), lastPos b s = some v → 1 ≤ v ∧ v ≤ s.length
  | [], v, h => by simp [lastPos] at h
  | c :: r, v, h => by
    simp only [lastPos] at h
    split at h
    · cases h; simp
    · have := lastPos_le b r v h
      simp only [List.length_cons]; omega

theorem lastPos_spec {V : Type} (b : Bind) : ∀ (locals : List (Bind × V)),
    (lastPos b (locals.map (·.1)) = none → locals.find? (fun e => e.1 = b) = none) ∧
    (∀ v, lastPos b (locals.map (·.1)) = some v →
      ∃ e, locals.find? (fun e => e.1 = b) = some e ∧ (locals.map (·.2))[(locals.map (·.1)).length - v]? = some e.2)
  | [] => by simp [lastPos]
  | (c, val) :: r => by
    have ih := lastPos_spec (V := V) b r
    constructor
    · intro h
      simp only [List.map_cons, lastPos] at h
      split at h
      · cases h
      · rename_i hc
        simp [hc, ih.1 h]
    · intro v h
      simp only [List.map_cons, lastPos] at h
      split at h
      · rename_i hc
        cases h
        refine ⟨(c, val), ?_, ?_⟩
        · simp [hc]
        · simp
      · rename_i hc
        obtain ⟨e, he1, he2⟩ := ih.2 v h
        have hle := lastPos_le b _ v h
        refine ⟨e, ?_, ?_⟩
        · simp [hc, he1]
        · simp only [List.map_cons, List.length_cons]
          have : (r.map (·.1)).length + 1 - v = ((r.map (·.1)).length - v) + 1 := by omega
          rw [this, List.getElem?_cons_succ]
          exact he2

theorem scanImported_spec {V : Type} (cur : Nat) (x : String) : ∀ (l : List ((String × Nat) × V)) (i0 : Nat),
    (∀ i, scanImported cur x (l.map (·.1)) i0 = .inl i →
      i0 ≤ i ∧ ∃ e, l.find? (fun e => x = e.1.1 ∧ e.1.2 = cur) = some e ∧ (l.map (·.2))[i - i0]? = some e.2) ∧
    (∀ i, scanImported cur x (l.map (·.1)) i0 = .inr i →
      i = i0 + l.length ∧ l.find? (fun e => x = e.1.1 ∧ e.1.2 = cur) = none)
  | [], i0 => by simp [scanImported]
  | ((x', mid), val) :: r, i0 => by
    have ih := scanImported_spec (V := V) cur x r (i0 + 1)
    constructor
    · intro i h
      simp only [List.map_cons, scanImported] at h
      split at h
      · rename_i hc
        cases h
        refine ⟨Nat.le_refl _, ((x', mid), val), ?_, ?_⟩
        · simp [hc]
        · simp
      · rename_i hc
        obtain ⟨hle, e, he1, he2⟩ := ih.1 i h
        refine ⟨by omega, e, ?_, ?_⟩
        · have : decide (x = x' ∧ mid = cur) = false := by simpa using hc
          simp only [List.find?_cons, this]; exact he1
        · have : i - i0 = (i - (i0 + 1)) + 1 := by omega
          rw [List.map_cons, this, List.getElem?_cons_succ]; exact he2
    · intro i h
      simp only [List.map_cons, scanImported] at h
      split at h
      · cases h
      · rename_i hc
        obtain ⟨h1, h2⟩ := ih.2 i h
        refine ⟨by simp only [List.length_cons]; omega, ?_⟩
        have : decide (x = x' ∧ mid = cur) = false := by simpa using hc
        simp only [List.find?_cons, this]; exact h2

theorem scanGlobals_spec {V : Type} (x : String) : ∀ (l : List (String × V)) (i0 : Nat),
    (∀ i, scanGlobals x (l.map (·.1)) i0 = some i →
      i0 ≤ i ∧ ∃ e, l.find? (fun e => x = e.1) = some e ∧ (l.map (·.2))[i - i0]? = some e.2) ∧
    (scanGlobals x (l.map (·.1)) i0 = none → l.find? (fun e => x = e.1) = none)
  | [], i0 => by simp [scanGlobals]
  | (x', val) :: r, i0 => by
    have ih := scanGlobals_spec (V := V) x r (i0 + 1)
    constructor
    · intro i h
      simp only [List.map_cons, scanGlobals] at h
      split at h
      · rename_i hc
        cases h
        refine ⟨Nat.le_refl _, (x', val), ?_, ?_⟩
        · simp [hc]
        · simp
      · rename_i hc
        obtain ⟨hle, e, he1, he2⟩ := ih.1 i h
        refine ⟨by omega, e, ?_, ?_⟩
        · simp [hc, he1]
        · have : i - i0 = (i - (i0 + 1)) + 1 := by omega
          rw [List.map_cons, this, List.getElem?_cons_succ]; exact he2
    · intro h
      simp only [List.map_cons, scanGlobals] at h
      split at h
      · cases h
      · rename_i hc
        simp [hc, ih.2 h]



theorem findLastIdx_spec {α : Type} (p : α → Bool) : ∀ (l : List α) (k : Nat), findLastIdx p l = some k →
    (∃ a, l[k]? = some a ∧ p a = true) ∧ ∀ j a, k < j → l[j]? = some a → p a = false
  | [], k, h => by simp [findLastIdx] at h
  | b :: r, k, h => by
    simp only [findLastIdx] at h
    split at h
    · rename_i k' hk
      cases h
      obtain ⟨⟨a, ha1, ha2⟩, h2⟩ := findLastIdx_spec p r k' hk
      refine ⟨⟨a, by simpa using ha1, ha2⟩, ?_⟩
      intro j a' hj hget
      cases j with
      | zero => omega
      | succ j' => exact h2 j' a' (by omega) (by simpa using hget)
    · rename_i hk
      split at h
      · rename_i hp
        cases h
        refine ⟨⟨b, by simp, hp⟩, ?_⟩
        intro j a' hj hget
        cases j with
        | zero => omega
        | succ j' =>
          have hmem : a' ∈ r := List.mem_of_getElem? (by simpa using hget)
          exact findLastIdx_none p r hk a' hmem
      · cases h
where
  findLastIdx_none {α : Type} (p : α → Bool) : ∀ (l : List α), findLastIdx p l = none → ∀ a ∈ l, p a = false
    | [], _, a, ha => by simp at ha
    | b :: r, h, a, ha => by
      simp only [findLastIdx] at h
      split at h
      · cases h
      · rename_i hk
        split at h
        · cases h
        · rename_i hp
          rcases List.mem_cons.mp ha with rfl | hm
          · simpa using hp
          · exact findLastIdx_none p r hk a hm

theorem callIncludedRev_found (mm : List (List Sig)) (name : String) (ar : Nat) :
    ∀ (l : List Nat) (mid k : Nat), callIncludedRev mm name ar l = .found mid k →
      mid ∈ l ∧ ∃ defs, mm[mid]? = some defs ∧ callModId defs name ar = some k
  | [], mid, k, h => by simp [callIncludedRev] at h
  | m :: r, mid, k, h => by
    simp only [callIncludedRev] at h
    split at h
    · cases h
    · rename_i defs hd
      split at h
      · rename_i k' hk
        cases h
        exact ⟨by simp, defs, hd, hk⟩
      · obtain ⟨h1, h2⟩ := callIncludedRev_found mm name ar r mid k h
        exact ⟨List.mem_cons_of_mem _ h1, h2⟩

theorem callIncludedRev_congr (mm mm' : List (List Sig)) (name : String) (ar : Nat) :
    ∀ (l : List Nat), (∀ i ∈ l, mm[i]? = mm'[i]?) → callIncludedRev mm name ar l = callIncludedRev mm' name ar l
  | [], _ => rfl
  | m :: r, h => by
    simp only [callIncludedRev]
    rw [← h m (by simp)]
    rw [callIncludedRev_congr mm mm' name ar r (fun i hi => h i (List.mem_cons_of_mem _ hi))]

theorem callIncludedRev_no_oob (mm : List (List Sig)) (name : String) (ar : Nat) :
    ∀ (l : List Nat), (∀ i ∈ l, i < mm.length) → callIncludedRev mm name ar l ≠ .oob
  | [], _ => by simp [callIncludedRev]
  | m :: r, h => by
    simp only [callIncludedRev]
    have hm : m < mm.length := h m (by simp)
    rw [List.getElem?_eq_getElem hm]
    simp only
    split
    · simp
    · exact callIncludedRev_no_oob mm name ar r (fun i hi => h i (List.mem_cons_of_mem _ hi))

theorem includedOf_mem (mods : List (Nat × Option String)) (mid : Nat) :
    mid ∈ includedOf mods ↔ (mid, none) ∈ mods := by
  simp only [includedOf, List.mem_filterMap]
  constructor
  · rintro ⟨⟨m, a⟩, h1, h2⟩
    cases a with
    | none => simp at h2; subst h2; exact h1
    | some x => simp at h2
  · intro h; exact ⟨(mid, none), h, rfl⟩

theorem importedOf_mem (mods : List (Nat × Option String)) (mid : Nat) (al : String) :
    (mid, al) ∈ importedOf mods ↔ (mid, some al) ∈ mods := by
  simp only [importedOf, List.mem_filterMap]
  constructor
  · rintro ⟨⟨m, a⟩, h1, h2⟩
    cases a with
    | none => simp at h2
    | some x => simp at h2; obtain ⟨rfl, rfl⟩ := h2; exact h1
  · intro h; exact ⟨(mid, some al), h, rfl⟩

theorem callMod_found (mm : List (List Sig)) (imp : List (Nat × String)) (m name : String) (ar mid k : Nat)
    (h : callMod mm imp m name ar = .found mid k) :
    (mid, m) ∈ imp ∧ ∃ defs, mm[mid]? = some defs ∧ callModId defs name ar = some k := by
  unfold callMod at h
  split at h
  · cases h
  · rename_i mid' al hfind
    have hmem := List.mem_of_find?_eq_some hfind
    have hp := List.find?_some hfind
    simp only [decide_eq_true_eq] at hp
    split at h
    · cases h
    · rename_i defs hd
      split at h
      · rename_i k' hk
        cases h
        subst hp
        exact ⟨by simpa using hmem, defs, hd, hk⟩
      · cases h

theorem findLastIdx_block (mid : Nat) (name : String) (ar : Nat) : ∀ (defs : List Sig) (off : Nat),
    ((defs.zipIdx off).map fun (s, k) => (mid, k, s)).reverse.find? (fun e => e.2.2.matches name ar)
      = (findLastIdx (fun s => s.matches name ar) defs).bind fun k => defs[k]?.map fun s => (mid, k + off, s)
  | [], off => by simp [findLastIdx]
  | d :: r, off => by
    simp only [List.zipIdx_cons, List.map_cons, List.reverse_cons, List.find?_append, findLastIdx]
    rw [findLastIdx_block mid name ar r (off + 1)]
    cases h : findLastIdx (fun s => s.matches name ar) r with
    | some k =>
      simp only [Option.bind_some]
      have := (findLastIdx_spec' _ r k h)
      obtain ⟨a, ha⟩ := this
      simp [ha, Nat.add_assoc, Nat.add_comm 1 off]
    | none =>
      simp only [Option.bind_none, Option.none_or]
      by_cases hp : d.matches name ar = true
      · simp [hp]
      · simp [hp]
where
  findLastIdx_spec' {α : Type} (p : α → Bool) : ∀ (l : List α) (k : Nat), findLastIdx p l = some k → ∃ a, l[k]? = some a
    | [], k, h => by simp [findLastIdx] at h
    | b :: r, k, h => by
      simp only [findLastIdx] at h
      split at h
      · rename_i k' hk
        cases h
        obtain ⟨a, ha⟩ := findLastIdx_spec' p r k' hk
        exact ⟨a, by simpa using ha⟩
      · split at h
        · cases h; exact ⟨b, by simp⟩
        · cases h

theorem resolve_rev (mm : List (List Sig)) (name : String) (ar : Nat) :
    ∀ (l : List Nat), (∀ i ∈ l, i < mm.length) →
      callIncludedRev mm name ar l = lookupOf (lexical (broughtIn mm l.reverse) name ar)
  | [], _ => by simp [callIncludedRev, lexical, broughtIn, lookupOf]
  | m :: r, h => by
    have hm : m < mm.length := h m (by simp)
    have ih := resolve_rev mm name ar r (fun i hi => h i (List.mem_cons_of_mem _ hi))
    simp only [callIncludedRev, List.getElem?_eq_getElem hm]
    simp only [lexical, broughtIn, List.reverse_cons, List.map_append, List.flatten_append, List.map_cons, List.map_nil,
      List.flatten_cons, List.flatten_nil, List.append_nil, List.reverse_append, List.find?_append,
      List.getElem?_eq_getElem hm, Option.getD_some]
    have hb := findLastIdx_block m name ar mm[m] 0
    simp only [Nat.add_zero] at hb
    unfold block
    rw [hb]
    unfold callModId
    cases hk : findLastIdx (fun s => s.matches name ar) mm[m] with
    | some k =>
      obtain ⟨a, ha⟩ := findLastIdx_block.findLastIdx_spec' _ _ k hk
      simp [ha, lookupOf]
    | none =>
      simp only [Option.bind_none, Option.none_or]
      rw [ih]
      simp only [lexical, broughtIn, block]

end Jaq.C16
