import JaqVerif.Lemmas.C18Run
namespace Jaq.C18

/-- a completed run changes nothing but the targets -/
theorem protocol_complete_frame (jobs : List Job) : ∀ (fs : FS), WF fs jobs →
    ∀ q, (∀ a ∈ jobs, q ≠ a.path) → exec fs (protocol jobs) q = fs q := by
  induction jobs with
  | nil => intro fs _ q _; rfl
  | cons j js ih =>
    intro fs wf q hq
    have hs := wf.toStaticWF
    have ht : fs j.tmp = none := wf.tmp_fresh j List.mem_cons_self
    have hqj : q ≠ j.path := hq j List.mem_cons_self
    simp only [protocol, exec_append]
    by_cases hf : j.fault = none
    · simp only [hf, Option.isNone_none, if_true]
      rw [ih _ (wf.tail_ok hf) q (fun a ha => hq a (List.mem_cons_of_mem _ ha)),
        exec_jobOps_ok fs j ht hs.head_ne hf, FS.set_other _ _ hqj]
    · have : j.fault.isNone = false := by cases hj : j.fault <;> simp_all
      simp only [this, Bool.false_eq_true, if_false, exec_nil]
      by_cases hc : j.fault = some .chmodErr
      · rw [exec_jobOps_chmodErr fs j ht hs.head_ne hc, FS.set_other _ _ hqj]
      · rw [exec_jobOps_abort fs j ht hf hc]

theorem protocol_all_ok {jobs : List Job} (h : ∀ a ∈ jobs, a.fault = none) :
    protocol jobs = jobs.flatMap jobOps := by
  induction jobs with
  | nil => rfl
  | cons j js ih =>
    simp only [protocol, List.flatMap_cons, h j List.mem_cons_self, Option.isNone_none, if_true]
    rw [ih (fun a ha => h a (List.mem_cons_of_mem _ ha))]

/-- files before the first fault are processed completely, the faulty one ends the run -/
theorem protocol_until_fault {pre : List Job} (f : Job) (post : List Job) (h : ∀ a ∈ pre, a.fault = none)
    (hf : f.fault ≠ none) : protocol (pre ++ f :: post) = pre.flatMap jobOps ++ jobOps f := by
  induction pre with
  | nil =>
    have : f.fault.isNone = false := by cases hj : f.fault <;> simp_all
    simp [protocol, this]
  | cons j js ih =>
    simp only [List.cons_append, protocol, List.flatMap_cons, h j List.mem_cons_self, Option.isNone_none, if_true]
    rw [ih (fun a ha => h a (List.mem_cons_of_mem _ ha)), List.append_assoc]

theorem rename_mem_jobOps {j : Job} (hf : j.fault = none ∨ j.fault = some .chmodErr) :
    Op.rename j.tmp j.path ∈ jobOps j := by
  rcases hf with hf | hf <;>
  · rw [jobOps_eq_head_tail j (by simp [hf]) (by simp [hf])]; simp [Job.tail, hf]

theorem chmod_mem_jobOps {j : Job} (hf : j.fault = none) : Op.chmod j.path j.mode ∈ jobOps j := by
  rw [jobOps_eq_head_tail j (by simp [hf]) (by simp [hf])]; simp [Job.tail, hf]

theorem mem_flatMap_jobOps {jobs : List Job} {j : Job} (hj : j ∈ jobs) {op : Op} (h : op ∈ jobOps j) :
    op ∈ jobs.flatMap jobOps := List.mem_flatMap.mpr ⟨j, hj, h⟩

theorem stdoutRun_all_ok {jobs : List Job} (h : ∀ a ∈ jobs, a.fault = none) :
    stdoutRun jobs = (jobs.map (·.output)).flatten := by
  induction jobs with
  | nil => rfl
  | cons j js ih =>
    simp only [stdoutRun, h j List.mem_cons_self, Option.isNone_none, if_true, List.map_cons, List.flatten_cons]
    rw [ih (fun a ha => h a (List.mem_cons_of_mem _ ha)), written_none (h j List.mem_cons_self)]
    rfl

/-- elements before, at and after a position of a list without duplicates (under `f`) differ -/
theorem split_disjoint {α β} {f : α → β} {pre post : List α} {x : α} (h : ((pre ++ x :: post).map f).Nodup) :
    (∀ a ∈ post, ∀ b ∈ pre, f a ≠ f b) ∧ (∀ a ∈ post, f a ≠ f x) ∧ (∀ b ∈ pre, f b ≠ f x) := by
  rw [List.map_append, List.map_cons, List.nodup_append, List.nodup_cons] at h
  obtain ⟨_, ⟨hx, _⟩, hd⟩ := h
  refine ⟨fun a ha b hb he => ?_, fun a ha he => ?_, fun b hb => ?_⟩
  · exact hd (f b) (List.mem_map_of_mem hb) (f a) (List.mem_cons_of_mem _ (List.mem_map_of_mem ha)) he.symm
  · exact hx (he ▸ List.mem_map_of_mem ha)
  · exact hd (f b) (List.mem_map_of_mem hb) (f x) List.mem_cons_self

end Jaq.C18
