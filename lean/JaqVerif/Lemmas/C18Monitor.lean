import JaqVerif.Lemmas.C18Accept
set_option linter.unusedSimpArgs false
namespace Jaq.C18

/-! ## The automaton alone: whatever it lets through validates -/

/-- operations of the file in progress -/
def Phase.cur : Phase → List Op
  | .idle => []
  | .dead => []
  | .loaded p => [.load p]
  | .writing p t ws => .load p :: .mkTemp t :: writes t ws
  | .statted p t ws m => .load p :: .mkTemp t :: (writes t ws ++ [.stat p m])
  | .renamed p t ws m => .load p :: .mkTemp t :: (writes t ws ++ [.stat p m, .rename t p])

def allOk (l : List Job) : Prop := ∀ a ∈ l, a.fault = none

/-- shape invariant: the operations consumed so far, as a function of the monitor state -/
structure ShapeInv (ops : List Op) (s : Mon) : Prop where
  shape : ops = s.done.flatMap jobOps ++ s.phase.cur
  oks : match s.phase with
    | .dead => ∃ d f, s.done = d ++ [f] ∧ allOk d
    | _ => allOk s.done

theorem jobOps_okJob_none (p t : Path) (ws : List Bytes) (m : Mode) :
    jobOps (okJob p t ws m none) = .load p :: .mkTemp t :: (writes t ws ++ [.stat p m, .rename t p, .chmod p m]) := by
  simp [jobOps, okJob, Job.written, Job.allWrites, Job.tail]

theorem jobOps_okJob_chmodErr (p t : Path) (ws : List Bytes) (m : Mode) :
    jobOps (okJob p t ws m (some .chmodErr)) = .load p :: .mkTemp t :: (writes t ws ++ [.stat p m, .rename t p]) := by
  simp [jobOps, okJob, Job.written, Job.allWrites, Job.tail]

theorem jobOps_okJob_renameErr (p t : Path) (ws : List Bytes) (m : Mode) :
    jobOps (okJob p t ws m (some .renameErr)) = .load p :: .mkTemp t :: (writes t ws ++ [.stat p m, .unlink t]) := by
  simp [jobOps, okJob, Job.written, Job.allWrites, Job.tail]

theorem jobOps_okJob_writeErr (p t : Path) (ws : List Bytes) (m : Mode) :
    jobOps (okJob p t ws m (some (.writeErr ws.length))) = .load p :: .mkTemp t :: (writes t ws ++ [.unlink t]) := by
  simp [jobOps, okJob, Job.written, Job.allWrites, Job.tail]

theorem jobOps_okJob_preErr (p t : Path) (ws : List Bytes) (m : Mode) :
    jobOps (okJob p t ws m (some .preErr)) = [.load p] := by
  simp [jobOps, okJob]

theorem writes_snoc (t : Path) (ws : List Bytes) (b : Bytes) : writes t (ws ++ [b]) = writes t ws ++ [.write t b] := by
  simp [writes]

theorem ShapeInv.step {ops : List Op} {s s' : Mon} {op : Op} (inv : ShapeInv ops s) (h : s.step op = some s') :
    ShapeInv (ops ++ [op]) s' := by
  obtain ⟨shape, oks⟩ := inv
  rcases s with ⟨phase, done, paths, temps⟩
  cases phase <;> cases op <;> simp [Mon.step] at h
  all_goals (obtain ⟨hc, rfl⟩ := h)
  all_goals (simp only [] at shape oks)
  case idle.load => exact ⟨by simp [shape, Phase.cur], oks⟩
  case loaded.mkTemp => exact ⟨by simp [shape, Phase.cur, writes], oks⟩
  case writing.write => subst hc; exact ⟨by simp [shape, Phase.cur, writes_snoc], oks⟩
  case writing.stat => subst hc; exact ⟨by simp [shape, Phase.cur], oks⟩
  case statted.rename => obtain ⟨rfl, rfl⟩ := hc; exact ⟨by simp [shape, Phase.cur], oks⟩
  case writing.unlink =>
    subst hc
    exact ⟨by simp [shape, Phase.cur, List.flatMap_append, jobOps_okJob_writeErr], ⟨_, _, rfl, oks⟩⟩
  case statted.unlink =>
    subst hc
    exact ⟨by simp [shape, Phase.cur, List.flatMap_append, jobOps_okJob_renameErr], ⟨_, _, rfl, oks⟩⟩
  case renamed.chmod =>
    obtain ⟨rfl, rfl⟩ := hc
    refine ⟨by simp [shape, Phase.cur, List.flatMap_append, jobOps_okJob_none], ?_⟩
    intro a ha
    rcases List.mem_append.mp ha with ha | ha
    · exact oks a ha
    · simp at ha; subst ha; rfl

theorem ShapeInv.init : ShapeInv [] Mon.init := ⟨rfl, fun _ h => by simp [Mon.init] at h⟩

theorem ShapeInv.run (ops : List Op) : ∀ {pre : List Op} {s s' : Mon}, ShapeInv pre s → s.run ops = some s' →
    ShapeInv (pre ++ ops) s' := by
  induction ops with
  | nil => intro pre s s' inv h; simp only [Mon.run, Option.some.injEq] at h; subst h; simpa using inv
  | cons op ops ih =>
    intro pre s s' inv h
    simp only [Mon.run] at h
    cases hs : s.step op with
    | none => simp [hs] at h
    | some s1 =>
      simp only [hs] at h
      have := ih (inv.step hs) h
      simpa [List.append_assoc] using this

theorem protocol_append_ok {d : List Job} (l : List Job) (h : allOk d) :
    protocol (d ++ l) = d.flatMap jobOps ++ protocol l := by
  induction d with
  | nil => rfl
  | cons j js ih =>
    simp only [List.cons_append, protocol, List.flatMap_cons, h j List.mem_cons_self, Option.isNone_none, if_true]
    rw [ih (fun a ha => h a (List.mem_cons_of_mem _ ha)), List.append_assoc]

theorem protocol_single (j : Job) : protocol [j] = jobOps j := by
  simp [protocol]

/-- the consumed operations are a prefix of the protocol of the decoded scenario -/
theorem ShapeInv.prefix {ops : List Op} {s : Mon} (inv : ShapeInv ops s) : ops <+: protocol s.jobs := by
  obtain ⟨shape, oks⟩ := inv
  rcases s with ⟨phase, done, paths, temps⟩
  cases phase <;> simp only [Mon.jobs] at * <;> subst shape
  case idle => rw [protocol_all_ok oks]; simp [Phase.cur]
  case dead =>
    obtain ⟨d, f, rfl, hd⟩ := oks
    rw [protocol_append_ok _ hd, protocol_single]; simp [Phase.cur, List.flatMap_append]
  case loaded p =>
    rw [protocol_append_ok _ oks, protocol_single, jobOps_okJob_preErr]; simp [Phase.cur]
  case writing p t ws =>
    rw [protocol_append_ok _ oks, protocol_single, jobOps_okJob_writeErr, List.prefix_append_right_inj]
    simp only [Phase.cur]
    exact ⟨[.unlink t], by simp⟩
  case statted p t ws m =>
    rw [protocol_append_ok _ oks, protocol_single, jobOps_okJob_renameErr, List.prefix_append_right_inj]
    simp only [Phase.cur]
    exact ⟨[.unlink t], by simp⟩
  case renamed p t ws m =>
    rw [protocol_append_ok _ oks, protocol_single, jobOps_okJob_chmodErr]; simp [Phase.cur]

/-- at the end of a completed run the consumed operations are the whole protocol -/
theorem ShapeInv.complete {ops : List Op} {s : Mon} (inv : ShapeInv ops s)
    (h : match s.phase with | .writing .. => False | .statted .. => False | _ => True) :
    ops = protocol s.jobs := by
  obtain ⟨shape, oks⟩ := inv
  rcases s with ⟨phase, done, paths, temps⟩
  cases phase <;> simp only [Mon.jobs] at * <;> subst shape
  case idle => rw [protocol_all_ok oks]; simp [Phase.cur]
  case dead =>
    obtain ⟨d, f, rfl, hd⟩ := oks
    rw [protocol_append_ok _ hd, protocol_single]; simp [Phase.cur, List.flatMap_append]
  case loaded p =>
    rw [protocol_append_ok _ oks, protocol_single, jobOps_okJob_preErr]; simp [Phase.cur]
  case renamed p t ws m =>
    rw [protocol_append_ok _ oks, protocol_single, jobOps_okJob_chmodErr]; simp [Phase.cur]

end Jaq.C18
