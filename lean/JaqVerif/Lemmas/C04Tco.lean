/- C04 — lemmas about the compiler model `C04/Tco.lean` (see Props/C04.lean). -/
import JaqVerif.C04.Tco
import JaqVerif.C04.TailNest

namespace Jaq.C04

theorem subB_iff (a b : Tr) : subB a b = true ↔ ∀ x ∈ a, x ∈ b := by
  simp [subB, List.all_eq_true]

theorem mem_remove {tr : Tr} {id x : Nat} : x ∈ Tr.remove tr id ↔ x ∈ tr ∧ x ≠ id := by
  simp [Tr.remove]

@[simp] theorem wrapI_id (id : Nat) (r : R) : (wrapI id r).id = id := rfl
@[simp] theorem wrapI_tr (id : Nat) (r : R) : (wrapI id r).tr = r.tr := rfl
@[simp] theorem wrapI_out (id : Nat) (r : R) : (wrapI id r).st.out = ⟨id, r.ct, r.tr⟩ :: r.st.out := rfl
@[simp] theorem wrapI_next (id : Nat) (r : R) : (wrapI id r).st.next = r.st.next := rfl
@[simp] theorem bump_out (s : St) : s.bump.out = s.out := rfl
@[simp] theorem bump_next (s : St) : s.bump.next = s.next + 1 := rfl
@[simp] theorem emit_out (s : St) (id : Nat) (c : CT) (tr : Tr) : (s.emit id c tr).out = ⟨id, c, tr⟩ :: s.out := rfl
@[simp] theorem emit_next (s : St) (id : Nat) (c : CT) (tr : Tr) : (s.emit id c tr).next = s.next := rfl
@[simp] theorem insert_out (s : St) (c : CT) (tr : Tr) : (s.insert c tr).out = ⟨s.next, c, tr⟩ :: s.out := rfl
@[simp] theorem insert_next (s : St) (c : CT) (tr : Tr) : (s.insert c tr).next = s.next + 1 := rfl

/-- `Locals::call` only returns tail calls that are permitted -/
theorem call_tr_subset (L : Locals) (name : Nat) (args : List Nat) (tr : Tr) (c : CT) (tr_ : Tr)
    (h : L.call name args tr = some (c, tr_)) : ∀ x ∈ tr_, x ∈ tr := by
  unfold Locals.call at h
  split at h
  · simp at h
  · rename_i e _
    split at h
    · simp only [Option.some.injEq, Prod.mk.injEq] at h; rw [← h.2]; simp
    · dsimp only at h
      split at h
      · rename_i hs
        simp only [Option.some.injEq, Prod.mk.injEq] at h
        rw [← h.2]; exact (subB_iff _ _).mp hs
      · simp only [Option.some.injEq, Prod.mk.injEq] at h; rw [← h.2]; simp
    · split at h
      · rename_i hc
        simp only [Option.some.injEq, Prod.mk.injEq] at h
        rw [← h.2]; intro x hx; simp at hx; subst hx; simpa using hc
      · simp only [Option.some.injEq, Prod.mk.injEq] at h; rw [← h.2]; simp

theorem resolve_tr_subset (M : List ModDef) (L : Locals) (name : Nat) (args : List Nat) (tr : Tr) :
    ∀ x ∈ (resolve M L name args tr).2, x ∈ tr := by
  unfold resolve
  split
  · rename_i r h; obtain ⟨c, tr_⟩ := r; exact call_tr_subset L name args tr c tr_ h
  · split <;> simp

/-- **`compile_tr_subset`**: the output `Tr` of `Compiler::term` is a subset of the input `Tr`
(the `debug_assert!(tr_.is_subset(tr))` of `iterm_tr` can never fail) -/
theorem term_tr_subset (M : List ModDef) : ∀ (t : Tm) (tr : Tr) (L : Locals) (s : St),
    ∀ x ∈ (term M t tr L s).tr, x ∈ tr
  | .leaf, _, _, _ => by simp [term]
  | .var _, _, _, _ => by simp [term]
  | .brk _, _, _, _ => by simp [term]
  | .label _ _, _, _, _ => by simp [term]
  | .call name args, tr, L, s => by
    simp only [term]
    exact resolve_tr_subset M L name _ tr
  | .nary _, _, _, _ => by simp [term]
  | .un _, _, _, _ => by simp [term]
  | .tryc _ _, _, _, _ => by simp [term]
  | .bin _ _, _, _, _ => by simp [term]
  | .pipe l pat r, tr, L, s => by
    simp only [term, wrapI_tr]
    exact term_tr_subset M r tr _ _
  | .comma l r, tr, L, s => by
    simp only [term, wrapI_tr]
    intro x hx
    rcases List.mem_append.mp hx with h | h
    · exact term_tr_subset M l tr _ _ x h
    · exact term_tr_subset M r tr _ _ x h
  | .alt l r, tr, L, s => by
    simp only [term, wrapI_tr]
    exact term_tr_subset M r tr _ _
  | .ite c t e, tr, L, s => by
    simp only [term, wrapI_tr]
    intro x hx
    rcases List.mem_append.mp hx with h | h
    · exact term_tr_subset M t tr _ _ x h
    · exact term_tr_subset M e tr _ _ x h
  | .reduce _ _ _ _, _, _, _ => by simp [term]
  | .foreach2 _ _ _ _, _, _, _ => by simp [term]
  | .foreach3 xs pat init upd proj, tr, L, s => by
    simp only [term, wrapI_tr]
    exact term_tr_subset M proj tr _ _
  | .defIn name params body rest, tr, L, s => by
    simp only [term]
    exact term_tr_subset M rest tr _ _

end Jaq.C04
