/-
  C14 / XML — lemmas for `Props/C14.lean` (`xml_fixpoint`): IndexMap collection on string keys,
  name splitting, external-id re-reading, the writer's view of each reader value, and the main
  induction over the reader's recursion.
-/
import JaqVerif.C14.Xml

namespace Jaq.C14.XmlLemmas
open Jaq Jaq.C14.Xml
set_option linter.unusedSimpArgs false

/-! ## `collectS` (IndexMap::collect on string keys) -/

def keys (l : List (S × S)) : List S := l.map (·.1)

theorem keys_insertS_map (o : List (S × S)) (k v : S) :
    keys (o.map (fun e => if e.1 == k then (e.1, v) else e)) = keys o := by
  induction o with
  | nil => rfl
  | cons e o ih =>
    simp only [keys, List.map_cons] at ih ⊢
    rw [ih]
    by_cases h : (e.1 == k) = true <;> simp [h]

theorem any_key_iff (o : List (S × S)) (k : S) : (o.any (fun e => e.1 == k)) = true ↔ k ∈ keys o := by
  simp only [keys, List.any_eq_true, beq_iff_eq, List.mem_map]


theorem insertS_nodup (o : List (S × S)) (k v : S) (h : (keys o).Nodup) : (keys (insertS o k v)).Nodup := by
  unfold insertS
  by_cases hk : (o.any (fun e => e.1 == k)) = true
  · rw [if_pos hk, keys_insertS_map]; exact h
  · rw [if_neg hk]
    have : k ∉ keys o := fun hm => hk ((any_key_iff o k).2 hm)
    simp only [keys, List.map_append, List.map_cons, List.map_nil]
    rw [List.nodup_append]
    refine ⟨h, by simp, ?_⟩
    intro a ha b hb
    simp at hb
    subst hb
    intro hab; subst hab; exact this ha

theorem foldl_nodup (l acc : List (S × S)) (h : (keys acc).Nodup) :
    (keys (l.foldl (fun o e => insertS o e.1 e.2) acc)).Nodup := by
  induction l generalizing acc with
  | nil => exact h
  | cons e l ih => exact ih _ (insertS_nodup acc e.1 e.2 h)

theorem collectS_nodup (l : List (S × S)) : (keys (collectS l)).Nodup :=
  foldl_nodup l [] List.nodup_nil

theorem foldl_id (l acc : List (S × S)) (h : (keys (acc ++ l)).Nodup) :
    l.foldl (fun o e => insertS o e.1 e.2) acc = acc ++ l := by
  induction l generalizing acc with
  | nil => simp
  | cons e l ih =>
    simp only [List.foldl_cons]
    have hk : ¬ (acc.any (fun x => x.1 == e.1)) = true := by
      intro hm
      have hm := (any_key_iff acc e.1).1 hm
      simp only [keys, List.map_append, List.map_cons] at h
      rw [List.nodup_append] at h
      exact h.2.2 _ hm _ (List.mem_cons_self) rfl
    have : insertS acc e.1 e.2 = acc ++ [e] := by
      unfold insertS; rw [if_neg hk]
    rw [this, ih]
    · simp
    · simpa using h

theorem collectS_id (l : List (S × S)) (h : (keys l).Nodup) : collectS l = l := by
  unfold collectS; rw [foldl_id l [] (by simpa using h)]; simp

theorem collectS_idem (l : List (S × S)) : collectS (collectS l) = collectS l :=
  collectS_id _ (collectS_nodup l)

theorem foldl_keys_sub (l acc : List (S × S)) :
    ∀ k ∈ keys (l.foldl (fun o e => insertS o e.1 e.2) acc), k ∈ keys acc ∨ k ∈ keys l := by
  induction l generalizing acc with
  | nil => intro k hk; exact Or.inl hk
  | cons e l ih =>
    intro k hk
    simp only [List.foldl_cons] at hk
    rcases ih _ k hk with h | h
    · unfold insertS at h
      by_cases hc : (acc.any (fun x => x.1 == e.1)) = true
      · rw [if_pos hc, keys_insertS_map] at h; exact Or.inl h
      · rw [if_neg hc] at h
        simp only [keys, List.map_append, List.map_cons, List.map_nil, List.mem_append, List.mem_singleton] at h
        rcases h with h | h
        · exact Or.inl h
        · exact Or.inr (by simp [keys, h])
    · exact Or.inr (by simp only [keys, List.map_cons, List.mem_cons]; exact Or.inr h)

theorem collectS_keys_sub (l : List (S × S)) : ∀ k ∈ keys (collectS l), k ∈ keys l := by
  intro k hk
  rcases foldl_keys_sub l [] k hk with h | h
  · simp [keys] at h
  · exact h

theorem collectS_isEmpty (l : List (S × S)) : (collectS l).isEmpty = l.isEmpty := by
  cases l with
  | nil => rfl
  | cons e l =>
    simp only [List.isEmpty_cons]
    cases h : collectS (e :: l) with
    | cons _ _ => rfl
    | nil =>
      exfalso
      -- the first key stays
      have : ∀ (l acc : List (S × S)), acc ≠ [] → l.foldl (fun o e => insertS o e.1 e.2) acc ≠ [] := by
        intro l
        induction l with
        | nil => intro acc h; exact h
        | cons x l ih =>
          intro acc h
          simp only [List.foldl_cons]
          apply ih
          unfold insertS
          split
          · intro hm; exact h (List.map_eq_nil_iff.1 hm)
          · simp
      unfold collectS at h
      simp only [List.foldl_cons] at h
      exact this l _ (by unfold insertS; simp) h

/-! ## names -/

theorem spanB_none (q : UInt8) (l : S) (h : l.contains q = false) : spanB q l = (l, []) := by
  induction l with
  | nil => rfl
  | cons c l ih =>
    simp only [List.contains_cons, Bool.or_eq_false_iff] at h
    have hc : (c == q) = false := by
      cases hq : c == q with
      | false => rfl
      | true => rw [beq_iff_eq] at hq; subst hq; simp at h
    simp only [spanB, hc, Bool.false_eq_true, if_false, ih h.2]

theorem spanB_some (q : UInt8) (p l : S) (h : p.contains q = false) : spanB q (p ++ q :: l) = (p, q :: l) := by
  induction p with
  | nil => simp [spanB]
  | cons c p ih =>
    simp only [List.contains_cons, Bool.or_eq_false_iff] at h
    have hc : (c == q) = false := by
      cases hq : c == q with
      | false => rfl
      | true => rw [beq_iff_eq] at hq; subst hq; simp at h
    simp only [List.cons_append, spanB, hc, Bool.false_eq_true, if_false, ih h.2]

theorem splitName_tagStr (p l : S) (h : qnameOk p l = true) : splitName (tagStr p l) = (p, l) := by
  unfold qnameOk at h
  simp only [Bool.and_eq_true, Bool.not_eq_true', ] at h
  unfold tagStr splitName
  cases p with
  | nil => simp only [List.isEmpty_nil, if_true]; rw [spanB_none 58 l h.2]
  | cons c p => simp only [List.isEmpty_cons, Bool.false_eq_true, if_false]; rw [spanB_some 58 _ l h.1]

/-- a key the writer can give back to the tokenizer -/
def nameOk (k : S) : Prop := tagStr (splitName k).1 (splitName k).2 = k

theorem nameOk_tagStr (p l : S) (h : qnameOk p l = true) : nameOk (tagStr p l) := by
  unfold nameOk; rw [splitName_tagStr p l h]

/-! ## external ids -/

theorem takeLiteral_quote (s rest : S) (h : litOk s = true) : takeLiteral (quote s ++ rest) = some (s, rest) := by
  unfold quote litOk at *
  cases h34 : s.contains 34 with
  | true =>
    have h39 : s.contains 39 = false := by rw [h34] at h; simpa using h
    simp only [if_true, List.cons_append, takeLiteral, List.append_assoc, List.nil_append]
    simp only [show ((39 : UInt8) == 34 || (39 : UInt8) == 39) = true from by decide, if_true]
    rw [spanB_some 39 s rest h39]
  | false =>
    simp only [Bool.false_eq_true, if_false, List.cons_append, takeLiteral, List.append_assoc, List.nil_append]
    simp only [show ((34 : UInt8) == 34 || (34 : UInt8) == 39) = true from by decide, if_true]
    rw [spanB_some 34 s rest h34]

theorem quote_head (s : S) : ∃ q r, quote s = q :: r ∧ (q == 32 || q == 9 || q == 10 || q == 13) = false := by
  unfold quote
  split
  · exact ⟨39, _, rfl, by decide⟩
  · exact ⟨34, _, rfl, by decide⟩

theorem takeSpaces_quote (s rest : S) : takeSpaces (32 :: (quote s ++ rest)) = some (quote s ++ rest) := by
  obtain ⟨q, r, hq, hs⟩ := quote_head s
  rw [hq]
  simp only [takeSpaces, List.cons_append]
  simp only [show ((32 : UInt8) == 32 || (32 : UInt8) == 9 || (32 : UInt8) == 10 || (32 : UInt8) == 13) = true from by decide, if_true]
  rw [List.dropWhile_cons]
  simp only [show ((32 : UInt8) == 32 || (32 : UInt8) == 9 || (32 : UInt8) == 10 || (32 : UInt8) == 13) = true from by decide, if_true]
  rw [List.dropWhile_cons, hs]
  simp

theorem parseExt_extStr (e : Ext) (h : extOk (some e) = true) : parseExt (extStr e) = some e := by
  cases e with
  | system s =>
    simp only [extOk] at h
    have := takeLiteral_quote s [] h
    simp only [List.append_nil] at this
    have h2 := takeSpaces_quote s []
    simp only [List.append_nil] at h2
    simp [parseExt, extStr, sSystem, List.isPrefixOf, h2, this]
  | pub p s =>
    simp only [extOk, Bool.and_eq_true] at h
    have h1 := takeLiteral_quote p (32 :: quote s) h.1
    have h2 := takeSpaces_quote p (32 :: quote s)
    have h3 := takeLiteral_quote s [] h.2
    have h4 := takeSpaces_quote s []
    simp only [List.append_nil] at h3 h4
    simp [parseExt, extStr, sSystem, sPublic, List.isPrefixOf, h1, h2, h3, h4]

/-! ## the writer's view (`TryFrom<&Val> for Xml`) of each reader value -/

theorem fromKvs_attr (l : List (S × S)) : fromKvs (l.map attrEntry) = .ok l := by
  induction l with
  | nil => rfl
  | cons e l ih => simp only [List.map_cons]; rw [show attrEntry e = (.tstr e.1, .tstr e.2) from rfl, fromKvs, ih]

theorem ofVal_text (t : S) : ofVal (.tstr t) = .ok (.scalar (.tstr t)) := by simp [ofVal]

theorem ofVal_cdata (t : S) : ofVal (singleton kCdata (.tstr t)) = .ok (.cdata t) := by
  simp [ofVal, Xml.singleton, hasKey, keyBytes, kT, kCdata, kXmldecl, kDoctype]

theorem ofVal_comment (t : S) : ofVal (singleton kComment (.tstr t)) = .ok (.comment t) := by
  simp [ofVal, Xml.singleton, hasKey, keyBytes, kT, kCdata, kXmldecl, kDoctype, kComment]

theorem ofVal_pi (t : S) (c : Option S) : ofVal (piVal t c) = .ok (.pi t c) := by
  cases c <;>
  simp [ofVal, piVal, mkObj, Xml.singleton, hasKey, keyBytes, kT, kCdata, kXmldecl, kDoctype, kComment, kPi, kTarget, kContent, fromPi]

def declAttrs (v : S) (e : Option S) (s : Option Bool) : List (S × S) :=
  (kVersion, v) :: ((match e with | some e => [(kEncoding, e)] | none => []) ++
    (match s with | some b => [(kStandalone, if b then sYes else sNo)] | none => []))

theorem ofVal_decl (v : S) (e : Option S) (s : Option Bool) :
    ofVal (declVal v e s) = .ok (.xmldecl (declAttrs v e s)) := by
  cases e <;> cases s <;>
  simp [ofVal, declVal, declAttrs, mkObj, Xml.singleton, hasKey, keyBytes, kT, kXmldecl, kVersion, kEncoding, kStandalone, fromKvs]

theorem declTok_declAttrs (v : S) (e : Option S) (s : Option Bool) : declTok (declAttrs v e s) = .decl v e s := by
  cases e <;> cases s <;> (try (rename_i b; cases b)) <;>
  simp [declTok, declAttrs, saOf, kVersion, kEncoding, kStandalone, sYes, sNo]

theorem ofVal_doctype (name : S) (ext : Option Ext) (intr : Option S) :
    ofVal (doctypeVal name ext intr) = .ok (.doctype name (ext.map extStr) intr) := by
  cases ext <;> cases intr <;>
  simp [ofVal, doctypeVal, mkObj, Xml.singleton, hasKey, keyBytes, kT, kXmldecl, kDoctype, kName, kExternal, kInternal, fromDt]

theorem ofVal_tac_none (t : S) (a : List (S × S)) :
    ofVal (tacVal t a none) = .ok (.tac t (collectS a) none) := by
  cases h : a.isEmpty with
  | true =>
    have : a = [] := List.isEmpty_iff.1 h
    subst this
    simp [ofVal, tacVal, mkObj, hasKey, keyBytes, kT, kA, kC, ofTac, collectS]
  | false =>
    simp [ofVal, tacVal, mkObj, hasKey, keyBytes, kT, kA, kC, ofTac, h, attrObj, fromKvs_attr]

theorem ofVal_tac_some (t : S) (a : List (S × S)) (cs : List Val) (xs : List Xml) (hx : ofVals cs = .ok xs) :
    ofVal (tacVal t a (some cs)) = .ok (.tac t (collectS a) (some (.seq xs))) := by
  have hc : ofVal (.arr cs) = .ok (.seq xs) := by simp [ofVal, hx]
  cases h : a.isEmpty with
  | true =>
    have : a = [] := List.isEmpty_iff.1 h
    subst this
    simp [ofVal, tacVal, mkObj, hasKey, keyBytes, kT, kA, kC, ofTac, collectS, hx]
  | false =>
    simp [ofVal, tacVal, mkObj, hasKey, keyBytes, kT, kA, kC, ofTac, h, attrObj, fromKvs_attr, hx]

/-! ## equations of `render` -/
variable (inner : S → List Tok)

theorem render_text (s : S) : render inner (.scalar (.tstr s)) = [.text s] := by simp [render]
theorem render_seq (l : List Xml) : render inner (.seq l) = renderL inner l := by simp [render]
theorem render_tac_none (t : S) (a : List (S × S)) :
    render inner (.tac t a none) = .estart (splitName t).1 (splitName t).2 :: (a.map attrTok ++ [.eempty]) := by
  simp [render]
theorem render_tac_some (t : S) (a : List (S × S)) (c : Xml) :
    render inner (.tac t a (some c)) = .estart (splitName t).1 (splitName t).2 ::
        (a.map attrTok ++ .eopen :: (render inner c ++ [.eclose (splitName t).1 (splitName t).2])) := by
  simp [render]
theorem render_xmldecl (a : List (S × S)) : render inner (.xmldecl a) = [declTok a] := by simp [render]
theorem render_cdata (s : S) : render inner (.cdata s) = [.cdata s] := by simp [render]
theorem render_comment (s : S) : render inner (.comment s) = [.comment s] := by simp [render]
theorem render_pi (t : S) (c : Option S) : render inner (.pi t c) = [.pi t c] := by simp [render]
theorem render_doctype (name : S) (ext intr : Option S) : render inner (.doctype name ext intr) =
    doctypeToks inner name ext intr := by simp [render]
theorem renderL_nil : renderL inner [] = [] := by simp [renderL]
theorem renderL_cons (x : Xml) (xs : List Xml) : renderL inner (x :: xs) = render inner x ++ renderL inner xs := by simp [renderL]
theorem ofVals_nil : ofVals [] = .ok [] := by simp [ofVals]

def okAll (ts : List Tok) : Prop := ∀ t ∈ ts, tokOk t = true

theorem attrLoop_spec : (ts : List Tok) → (a : List (S × S)) → (o : Bool) → (r : List Tok) →
    attrLoop ts = .ok (a, o, r) → okAll ts → (∀ t ∈ r, t ∈ ts) ∧ (∀ e ∈ a, nameOk e.1)
  | [], _, _, _, h, _ => by simp [attrLoop] at h
  | tk :: ts, a, o, r, h, hok => by
    cases tk with
    | attr p l v =>
      simp only [attrLoop] at h
      cases h' : attrLoop ts with
      | error e => rw [h'] at h; simp at h
      | ok res =>
        obtain ⟨a', o', r''⟩ := res
        rw [h'] at h
        simp only [Except.ok.injEq, Prod.mk.injEq] at h
        obtain ⟨ha, ho, hr⟩ := h
        subst ha; subst ho; subst hr
        have ih := attrLoop_spec ts a' o' r'' h' (fun t ht => hok t (List.mem_cons_of_mem _ ht))
        refine ⟨fun t ht => List.mem_cons_of_mem _ (ih.1 t ht), ?_⟩
        intro e he
        rcases List.mem_cons.1 he with he | he
        · subst he
          exact nameOk_tagStr p l (by have := hok (.attr p l v) List.mem_cons_self; simpa [tokOk] using this)
        · exact ih.2 e he
    | eopen =>
      simp only [attrLoop, Except.ok.injEq, Prod.mk.injEq] at h
      obtain ⟨ha, ho, hr⟩ := h
      subst ha; subst ho; subst hr
      exact ⟨fun t ht => List.mem_cons_of_mem _ ht, by simp⟩
    | eempty =>
      simp only [attrLoop, Except.ok.injEq, Prod.mk.injEq] at h
      obtain ⟨ha, ho, hr⟩ := h
      subst ha; subst ho; subst hr
      exact ⟨fun t ht => List.mem_cons_of_mem _ ht, by simp⟩
    | _ => simp [attrLoop] at h

theorem attrLoop_render (a : List (S × S)) (o : Bool) (r' : List Tok) (h : ∀ e ∈ a, nameOk e.1) :
    attrLoop (a.map attrTok ++ (if o then Tok.eopen else Tok.eempty) :: r') = .ok (a, o, r') := by
  induction a with
  | nil => cases o <;> simp [attrLoop]
  | cons e a ih =>
    simp only [List.map_cons, List.cons_append, attrTok, attrLoop]
    rw [ih (fun e' he' => h e' (List.mem_cons_of_mem _ he'))]
    have := h e List.mem_cons_self
    unfold nameOk at this
    simp [this]

theorem dtdLoop_sub : (ts : List Tok) → (r : List Tok) → dtdLoop ts = .ok r → ∀ t ∈ r, t ∈ ts
  | [], _, h => by simp [dtdLoop] at h
  | tk :: ts, r, h => by
    cases tk
    case lexerr => simp [dtdLoop] at h
    case dtdEnd =>
      simp only [dtdLoop, Except.ok.injEq] at h; subst h
      exact fun t ht => List.mem_cons_of_mem _ ht
    all_goals
      simp only [dtdLoop] at h
      exact fun t ht => List.mem_cons_of_mem _ (dtdLoop_sub ts r h t ht)

theorem dtdLoop_inner (i : List Tok) (r' : List Tok) (h : ∀ t ∈ i, innerTok t = true) :
    dtdLoop (i ++ .dtdEnd :: r') = .ok r' := by
  induction i with
  | nil => simp [dtdLoop]
  | cons t i ih =>
    have ht := h t List.mem_cons_self
    have ih := ih (fun t' ht' => h t' (List.mem_cons_of_mem _ ht'))
    cases t <;> simp [innerTok] at ht <;> simp [dtdLoop, ih]

theorem children_step (m : Nat) (p l : S) (ts : List Tok) (v : Val) (r : List Tok) (vs : List Val) (r' : List Tok)
    (hp : parse m ts = .ok (v, r)) (hc : children m p l r = .ok (vs, r')) :
    children (m + 1) p l ts = .ok (v :: vs, r') := by
  cases ts with
  | nil => cases m <;> simp [parse] at hp
  | cons tk ts =>
    cases m with
    | zero => simp [parse] at hp
    | succ m =>
      cases tk
      case lexerr => simp [parse] at hp
      case eclose => simp [parse] at hp
      all_goals
        simp [children, hp, hc]

/-! ## the main induction -/

def InnerOk : Prop := ∀ s, ∀ t ∈ inner s, innerTok t = true

/-- what is shown of a value the reader produced: the writer accepts it and what it writes reads back as the value -/
def ParseGoal (v : Val) : Prop :=
  ∃ x, ofVal v = .ok x ∧ ∀ m r', (render inner x).length ≤ m → parse m (render inner x ++ r') = .ok (v, r')

def ChildrenGoal (p l : S) (vs : List Val) : Prop :=
  ∃ xs, ofVals vs = .ok xs ∧ ∀ m r', (renderL inner xs).length + 1 ≤ m →
    children m p l (renderL inner xs ++ .eclose p l :: r') = .ok (vs, r')

theorem goal_nonempty {x : Xml} {v : Val}
    (h : ∀ m r', (render inner x).length ≤ m → parse m (render inner x ++ r') = .ok (v, r')) :
    1 ≤ (render inner x).length := by
  cases hl : (render inner x).length with
  | succ k => omega
  | zero =>
    have := h 0 [] (by omega)
    simp [parse] at this

theorem single (tk : Tok) (v : Val) (x : Xml) (hx : ofVal v = .ok x) (hr : render inner x = [tk])
    (hp : ∀ m r', parse (m + 1) (tk :: r') = .ok (v, r')) : ParseGoal inner v := by
  refine ⟨x, hx, ?_⟩
  intro m r' hm
  rw [hr] at hm ⊢
  cases m with
  | zero => simp at hm
  | succ m => exact hp m r'

theorem children_inv (n : Nat) (p l : S) (tk : Tok) (ts : List Tok) (vs : List Val) (r : List Tok)
    (h : children (n + 1) p l (tk :: ts) = .ok (vs, r)) :
    (tk = .eclose p l ∧ vs = [] ∧ r = ts) ∨
    (∃ v r1 vs', parse n (tk :: ts) = .ok (v, r1) ∧ children n p l r1 = .ok (vs', r) ∧ vs = v :: vs') := by
  cases tk
  case lexerr => simp [children] at h
  case eclose p' l' =>
    simp only [children] at h
    split at h
    · rename_i hpl
      simp only [Except.ok.injEq, Prod.mk.injEq] at h
      exact Or.inl ⟨by rw [hpl.1, hpl.2], h.1.symm, h.2.symm⟩
    · simp at h
  all_goals
    right
    simp only [children] at h
    split at h
    · simp at h
    · rename_i v r1 hp
      split at h
      · simp at h
      · rename_i vs' r' hc
        simp only [Except.ok.injEq, Prod.mk.injEq] at h
        exact ⟨v, r1, vs', hp, h.2 ▸ hc, h.1.symm⟩

theorem okAll_tail {tk : Tok} {ts : List Tok} (h : okAll (tk :: ts)) : okAll ts :=
  fun t ht => h t (List.mem_cons_of_mem _ ht)

theorem okAll_sub {ts r : List Tok} (h : okAll ts) (hs : ∀ t ∈ r, t ∈ ts) : okAll r :=
  fun t ht => h t (hs t ht)

theorem tac_goal_none (p l : S) (a : List (S × S)) (hq : qnameOk p l = true) (ha : ∀ e ∈ a, nameOk e.1) :
    ParseGoal inner (tacVal (tagStr p l) a none) := by
  refine ⟨_, ofVal_tac_none _ a, ?_⟩
  intro m r' hm
  rw [render_tac_none, splitName_tagStr p l hq] at hm ⊢
  cases m with
  | zero => simp at hm
  | succ m =>
    have hc : ∀ e ∈ collectS a, nameOk e.1 := by
      intro e he
      have : e.1 ∈ keys a := collectS_keys_sub a e.1 (List.mem_map_of_mem he)
      obtain ⟨e', he', hk⟩ := List.mem_map.1 this
      rw [← hk]; exact ha e' he'
    have := attrLoop_render (collectS a) false r' hc
    simp only [Bool.false_eq_true, if_false] at this
    simp only [List.cons_append, List.append_assoc, List.nil_append, parse, this]
    simp [tacVal, collectS_isEmpty, attrObj, collectS_idem]

theorem tac_goal_some (p l : S) (a : List (S × S)) (cs : List Val) (hq : qnameOk p l = true)
    (ha : ∀ e ∈ a, nameOk e.1) (hc : ChildrenGoal inner p l cs) :
    ParseGoal inner (tacVal (tagStr p l) a (some cs)) := by
  obtain ⟨xs, hxs, hre⟩ := hc
  refine ⟨_, ofVal_tac_some _ a cs xs hxs, ?_⟩
  intro m r' hm
  rw [render_tac_some, render_seq, splitName_tagStr p l hq] at hm ⊢
  cases m with
  | zero => simp at hm
  | succ m =>
    have hc : ∀ e ∈ collectS a, nameOk e.1 := by
      intro e he
      have : e.1 ∈ keys a := collectS_keys_sub a e.1 (List.mem_map_of_mem he)
      obtain ⟨e', he', hk⟩ := List.mem_map.1 this
      rw [← hk]; exact ha e' he'
    have h1 := attrLoop_render (collectS a) true (renderL inner xs ++ .eclose p l :: r') hc
    simp only [if_true] at h1
    have h2 := hre m r' (by simp at hm; omega)
    simp only [List.cons_append, List.append_assoc, List.nil_append, parse, h1, h2]
    simp [tacVal, collectS_isEmpty, attrObj, collectS_idem]

theorem doctype_goal (hin : InnerOk inner) (name : S) (ext : Option Ext) (intr : Option S) (he : extOk ext = true) :
    ParseGoal inner (doctypeVal name ext intr) := by
  refine ⟨_, ofVal_doctype name ext intr, ?_⟩
  have hext : extTok (ext.map extStr) = some ext := by
    cases ext with
    | none => rfl
    | some e => simp [extTok, parseExt_extStr e he]
  intro m r' hm
  rw [render_doctype] at hm ⊢
  unfold doctypeToks at hm ⊢
  rw [hext] at hm ⊢
  cases intr with
  | none =>
    cases m with
    | zero => simp at hm
    | succ m => simp [parse]
  | some s =>
    cases m with
    | zero => simp at hm
    | succ m =>
      simp only [List.cons_append, List.append_assoc, List.nil_append, parse]
      rw [dtdLoop_inner (inner s) r' (hin s)]

theorem main (hin : InnerOk inner) : ∀ n,
    (∀ ts v r, okAll ts → parse n ts = .ok (v, r) → (∀ t ∈ r, t ∈ ts) ∧ ParseGoal inner v) ∧
    (∀ p l ts vs r, okAll ts → qnameOk p l = true → children n p l ts = .ok (vs, r) →
      (∀ t ∈ r, t ∈ ts) ∧ ChildrenGoal inner p l vs) := by
  intro n
  induction n with
  | zero =>
    constructor
    · intro ts v r _ h; simp [parse] at h
    · intro p l ts vs r _ _ h; simp [children] at h
  | succ n ih =>
    obtain ⟨ihp, ihc⟩ := ih
    constructor
    · intro ts v r hok h
      cases ts with
      | nil => simp [parse] at h
      | cons tk ts =>
        have tl : ∀ t ∈ ts, t ∈ tk :: ts := fun t ht => List.mem_cons_of_mem _ ht
        cases tk with
        | decl ver e s =>
          simp only [parse, Except.ok.injEq, Prod.mk.injEq] at h
          obtain ⟨hv, hr⟩ := h; subst hv; subst hr
          exact ⟨tl, single inner (.decl ver e s) _ _ (ofVal_decl ver e s)
            (by rw [render_xmldecl, declTok_declAttrs]) (by intro m r'; simp [parse])⟩
        | pi t c =>
          simp only [parse, Except.ok.injEq, Prod.mk.injEq] at h
          obtain ⟨hv, hr⟩ := h; subst hv; subst hr
          exact ⟨tl, single inner (.pi t c) _ _ (ofVal_pi t c) (render_pi inner t c) (by intro m r'; simp [parse])⟩
        | cdata t =>
          simp only [parse, Except.ok.injEq, Prod.mk.injEq] at h
          obtain ⟨hv, hr⟩ := h; subst hv; subst hr
          exact ⟨tl, single inner (.cdata t) _ _ (ofVal_cdata t) (render_cdata inner t) (by intro m r'; simp [parse])⟩
        | comment t =>
          simp only [parse, Except.ok.injEq, Prod.mk.injEq] at h
          obtain ⟨hv, hr⟩ := h; subst hv; subst hr
          exact ⟨tl, single inner (.comment t) _ _ (ofVal_comment t) (render_comment inner t) (by intro m r'; simp [parse])⟩
        | text t =>
          simp only [parse, Except.ok.injEq, Prod.mk.injEq] at h
          obtain ⟨hv, hr⟩ := h; subst hv; subst hr
          exact ⟨tl, single inner (.text t) _ _ (ofVal_text t) (render_text inner t) (by intro m r'; simp [parse])⟩
        | emptyDtd name ext =>
          simp only [parse, Except.ok.injEq, Prod.mk.injEq] at h
          obtain ⟨hv, hr⟩ := h; subst hv; subst hr
          have he : extOk ext = true := by simpa [tokOk] using hok _ List.mem_cons_self
          exact ⟨tl, doctype_goal inner hin name ext none he⟩
        | dtdStart name ext intr =>
          simp only [parse] at h
          have he : extOk ext = true := by simpa [tokOk] using hok _ List.mem_cons_self
          cases hd : dtdLoop ts with
          | error e => rw [hd] at h; simp at h
          | ok r1 =>
            rw [hd] at h
            simp only [Except.ok.injEq, Prod.mk.injEq] at h
            obtain ⟨hv, hr⟩ := h; subst hv; subst hr
            exact ⟨fun t ht => tl t (dtdLoop_sub ts r1 hd t ht), doctype_goal inner hin name ext (some intr) he⟩
        | estart p l =>
          simp only [parse] at h
          have hq : qnameOk p l = true := by simpa [tokOk] using hok _ List.mem_cons_self
          cases ha : attrLoop ts with
          | error e => rw [ha] at h; simp at h
          | ok res =>
            obtain ⟨a, o, r1⟩ := res
            rw [ha] at h
            obtain ⟨hsub, hnames⟩ := attrLoop_spec ts a o r1 ha (okAll_tail hok)
            cases o with
            | false =>
              simp only [Except.ok.injEq, Prod.mk.injEq] at h
              obtain ⟨hv, hr⟩ := h; subst hv; subst hr
              exact ⟨fun t ht => tl t (hsub t ht), tac_goal_none inner p l a hq hnames⟩
            | true =>
              simp only at h
              cases hc : children n p l r1 with
              | error e => rw [hc] at h; simp at h
              | ok res =>
                obtain ⟨cs, r2⟩ := res
                rw [hc] at h
                simp only [Except.ok.injEq, Prod.mk.injEq] at h
                obtain ⟨hv, hr⟩ := h; subst hv; subst hr
                obtain ⟨hsub2, hg⟩ := ihc p l r1 cs r2 (okAll_sub (okAll_tail hok) hsub) hq hc
                exact ⟨fun t ht => tl t (hsub t (hsub2 t ht)), tac_goal_some inner p l a cs hq hnames hg⟩
        | _ => simp [parse] at h
    · intro p l ts vs r hok hq h
      cases ts with
      | nil => simp [children] at h
      | cons tk ts =>
        rcases children_inv n p l tk ts vs r h with ⟨htk, hvs, hr⟩ | ⟨v, r1, vs', hp, hc, hvs⟩
        · subst hvs; subst hr
          refine ⟨fun t ht => List.mem_cons_of_mem _ ht, [], ofVals_nil, ?_⟩
          intro m r' hm
          rw [renderL_nil] at hm ⊢
          cases m with
          | zero => simp at hm
          | succ m => simp [children]
        · subst hvs
          obtain ⟨hsub1, x, hx, hre1⟩ := ihp (tk :: ts) v r1 hok hp
          obtain ⟨hsub2, xs, hxs, hre2⟩ := ihc p l r1 vs' r (okAll_sub hok hsub1) hq hc
          refine ⟨fun t ht => hsub1 t (hsub2 t ht), x :: xs, by simp [ofVals, hx, hxs], ?_⟩
          intro m r' hm
          have hne := goal_nonempty inner hre1
          rw [renderL_cons] at hm ⊢
          cases m with
          | zero => simp at hm
          | succ m =>
            rw [List.append_assoc]
            simp only [List.length_append] at hm
            exact children_step m p l _ v _ vs' r' (hre1 m _ (by omega)) (hre2 m r' (by omega))

theorem many (hin : InnerOk inner) : ∀ n ts vs, okAll ts → parseManyF n ts = .ok vs →
    ∃ xs, ofVals vs = .ok xs ∧ ∀ m, (renderL inner xs).length + 1 ≤ m → parseManyF m (renderL inner xs) = .ok vs := by
  intro n
  induction n with
  | zero => intro ts vs _ h; simp [parseManyF] at h
  | succ n ih =>
    intro ts vs hok h
    cases ts with
    | nil =>
      simp only [parseManyF, Except.ok.injEq] at h
      subst h
      refine ⟨[], ofVals_nil, ?_⟩
      intro m hm
      rw [renderL_nil] at hm ⊢
      cases m with
      | zero => simp at hm
      | succ m => simp [parseManyF]
    | cons tk ts =>
      simp only [parseManyF] at h
      cases hp : parse n (tk :: ts) with
      | error e => rw [hp] at h; simp at h
      | ok res =>
        obtain ⟨v, r⟩ := res
        rw [hp] at h
        simp only at h
        cases hm : parseManyF n r with
        | error e => rw [hm] at h; simp at h
        | ok vs' =>
          rw [hm] at h
          simp only [Except.ok.injEq] at h
          subst h
          obtain ⟨hsub, x, hx, hre⟩ := (main inner hin n).1 (tk :: ts) v r hok hp
          obtain ⟨xs, hxs, hre2⟩ := ih r vs' (okAll_sub hok hsub) hm
          refine ⟨x :: xs, by simp [ofVals, hx, hxs], ?_⟩
          intro m hm'
          have hne := goal_nonempty inner hre
          rw [renderL_cons] at hm' ⊢
          simp only [List.length_append] at hm'
          cases m with
          | zero => simp at hm'
          | succ m =>
            have h1 := hre m (renderL inner xs) (by omega)
            have h2 := hre2 m (by omega)
            cases hr : render inner x with
            | nil => rw [hr] at hne; simp at hne
            | cons tk' rest =>
              rw [hr] at h1
              simp only [List.cons_append] at h1 ⊢
              simp only [parseManyF, h1, h2]


end Jaq.C14.XmlLemmas
