/- C19 helper lemmas: the copy-on-write heap implements value semantics (see Props/C19.lean). -/
import JaqVerif.C19.Cow
namespace Jaq.C19
variable {α β γ : Type}
theorem pick_spec : ∀ (l : List β) (i : Nat) {p x q}, pick l i = some (p, x, q) → l = p ++ x :: q
  | [], _, _, _, _, h => by simp [pick] at h
  | y :: ys, 0, _, _, _, h => by
    simp [pick] at h; obtain ⟨rfl, rfl, rfl⟩ := h; rfl
  | y :: ys, i + 1, p, x, q, h => by
    simp only [pick] at h
    cases hp : pick ys i with
    | none => rw [hp] at h; cases h
    | some r =>
      obtain ⟨p', x', q'⟩ := r
      rw [hp] at h
      simp at h; obtain ⟨rfl, rfl, rfl⟩ := h
      have := pick_spec ys i hp
      simp [this]

/-- positions correspond under equal images -/
theorem pick_map_rel {δ : Type} (f : β → δ) (g : γ → δ) :
    ∀ (l1 : List β) (l2 : List γ) (i : Nat), l1.map f = l2.map g →
      (pick l1 i = none ∧ pick l2 i = none) ∨
      (∃ p x q p' y q', pick l1 i = some (p, x, q) ∧ pick l2 i = some (p', y, q') ∧
        p.map f = p'.map g ∧ f x = g y ∧ q.map f = q'.map g)
  | [], [], _, _ => by left; simp [pick]
  | [], _ :: _, _, h => by simp at h
  | _ :: _, [], _, h => by simp at h
  | x :: xs, y :: ys, 0, h => by
    right; simp at h
    exact ⟨[], x, xs, [], y, ys, rfl, rfl, rfl, h.1, h.2⟩
  | x :: xs, y :: ys, i + 1, h => by
    simp at h
    rcases pick_map_rel f g xs ys i h.2 with ⟨h1, h2⟩ | ⟨p, a, q, p', b, q', h1, h2, hp, ha, hq⟩
    · left; simp [pick, h1, h2]
    · right
      refine ⟨x :: p, a, q, y :: p', b, q', ?_, ?_, ?_, ha, hq⟩
      · simp [pick, h1]
      · simp [pick, h2]
      · simp [h.1, hp]

theorem total_upd_other (a : Nat) (L : Nat → List Nat) (t : Nat) (l : List Nat) :
    ∀ n, n ≤ t → total a (upd L t l) n = total a L n
  | 0, _ => rfl
  | n + 1, h => by
    simp only [total]
    rw [total_upd_other a L t l n (by omega)]
    have : n ≠ t := by omega
    simp [upd, this]

theorem total_upd (a : Nat) (L : Nat → List Nat) (t : Nat) (l : List Nat) :
    ∀ n, t < n → total a (upd L t l) n + (L t).count a = total a L n + l.count a
  | 0, h => by omega
  | n + 1, h => by
    simp only [total]
    by_cases ht : t = n
    · subst ht
      rw [total_upd_other a L t l t (Nat.le_refl _)]
      simp [upd]; omega
    · have := total_upd a L t l n (by omega)
      have hn : n ≠ t := fun h => ht h.symm
      simp [upd, hn]; omega

theorem count_le_total (a : Nat) (L : Nat → List Nat) (u : Nat) : ∀ n, u < n → (L u).count a ≤ total a L n
  | 0, h => by omega
  | n + 1, h => by
    simp only [total]
    by_cases hu : u = n
    · subst hu; omega
    · have := count_le_total a L u n (by omega); omega

theorem count2_le_total (a : Nat) (L : Nat → List Nat) (t u n : Nat) (ht : t < n) (hu : u < n) (hne : u ≠ t) :
    (L t).count a + (L u).count a ≤ total a L n := by
  have h1 := total_upd a L t [] n ht
  have h2 := count_le_total a (upd L t []) u n hu
  simp [upd, hne] at h2
  simp at h1
  omega

/-! heap facts -/
theorem decr_rc (H : Heap α) (a b : Nat) : (H.decr a).rc b = if b = a then H.rc a - 1 else H.rc b := by
  unfold Heap.decr
  by_cases h : H.rc a = 1
  · simp [h]
  · simp [h]

theorem decr_next (H : Heap α) (a : Nat) : (H.decr a).next = H.next := by
  unfold Heap.decr; split <;> rfl

theorem decr_val (H : Heap α) (a b : Nat) (h : b ≠ a ∨ H.rc a ≠ 1) : (H.decr a).val b = H.val b := by
  unfold Heap.decr
  by_cases h1 : H.rc a = 1
  · rcases h with h | h
    · simp [h1, h]
    · exact absurd h1 h
  · simp [h1]

theorem hs_upd (thr : Nat → CThread α) (t : Nat) (c : CThread α) :
    (fun u => ((upd thr t c) u).hs) = upd (fun u => (thr u).hs) t c.hs := by
  funext u; simp only [upd]; split <;> rfl

theorem rel_core {s : CSys α} {A : Nat → AThread α} (h : Rel s A) {t : Nat} (ht : t < s.n)
    (H' : Heap α) (c' : CThread α) (a' : AThread α)
    (hcount : ∀ a, H'.rc a + (s.thr t).hs.count a = s.heap.rc a + c'.hs.count a)
    (hlive : ∀ a, 0 < H'.rc a → a < H'.next ∧ (H'.val a).isSome = true)
    (hframe : ∀ u, u < s.n → u ≠ t → ∀ g ∈ (s.thr u).hs, H'.val g = s.heap.val g)
    (hview : c'.hs.map H'.val = a'.vals.map some)
    (hout : c'.out = a'.out) :
    Rel ⟨H', s.n, upd s.thr t c'⟩ (upd A t a') := by
  refine ⟨⟨?_, hlive⟩, ?_, ?_⟩
  · intro a
    show H'.rc a = total a (fun u => ((upd s.thr t c') u).hs) s.n
    rw [hs_upd]
    have h1 := total_upd a (fun u => (s.thr u).hs) t c'.hs s.n ht
    have h2 := h.inv.count a
    have h3 := hcount a
    omega
  · intro u hu
    show ((upd s.thr t c') u).hs.map H'.val = ((upd A t a') u).vals.map some
    by_cases hut : u = t
    · simp [upd, hut, hview]
    · simp only [upd, hut, if_false]
      rw [← h.vals u hu]
      exact List.map_congr_left (hframe u hu hut)
  · intro u hu
    show ((upd s.thr t c') u).out = ((upd A t a') u).out
    by_cases hut : u = t
    · simp [upd, hut, hout]
    · simp only [upd, hut, if_false]; exact h.out u hu

/-- a handle held by a thread points to a live cell -/
theorem handle_live {s : CSys α} (h : Inv s) {u g : Nat} (hu : u < s.n) (hg : g ∈ (s.thr u).hs) :
    0 < s.heap.rc g ∧ g < s.heap.next ∧ (s.heap.val g).isSome = true := by
  have h1 := count_le_total g (fun u => (s.thr u).hs) u s.n hu
  have h2 : 0 < (s.thr u).hs.count g := List.count_pos_iff.mpr hg
  have h3 := h.count g
  have : 0 < s.heap.rc g := by omega
  exact ⟨this, h.live g this⟩

theorem next_fresh {s : CSys α} (h : Inv s) : s.heap.rc s.heap.next = 0 := by
  by_cases h0 : 0 < s.heap.rc s.heap.next
  · have := (h.live _ h0).1; omega
  · omega

/-- a cell with count 1 is referenced by exactly one handle -/
theorem unique_ref {s : CSys α} (h : Inv s) {t a : Nat} {p q : List Nat} (ht : t < s.n)
    (hs : (s.thr t).hs = p ++ a :: q) (h1 : s.heap.rc a = 1) :
    a ∉ p ∧ a ∉ q ∧ ∀ u, u < s.n → u ≠ t → a ∉ (s.thr u).hs := by
  have hc := h.count a
  have hle := count_le_total a (fun u => (s.thr u).hs) t s.n ht
  have hcnt : (s.thr t).hs.count a = p.count a + 1 + q.count a := by
    rw [hs]; simp [List.count_append, List.count_cons_self]; omega
  refine ⟨?_, ?_, ?_⟩
  · intro hm; have := List.count_pos_iff.mpr hm; omega
  · intro hm; have := List.count_pos_iff.mpr hm; omega
  · intro u hu hut hm
    have := List.count_pos_iff.mpr hm
    have h2 := count2_le_total a (fun u => (s.thr u).hs) t u s.n ht hu hut
    omega

theorem upd_self {β : Type} (f : Nat → β) (t : Nat) : upd f t (f t) = f := by
  funext u; simp only [upd]; split
  · next h => rw [h]
  · rfl

theorem some_inj_list {l1 l2 : List α} (h : l1.map some = l2.map some) : l1 = l2 := by
  induction l1 generalizing l2 with
  | nil => cases l2 <;> simp_all
  | cons x xs ih => cases l2 with
    | nil => simp at h
    | cons y ys => simp at h; rw [h.1, ih h.2]

/-- removing one handle to `a` (drop / unwrap_or_clone) -/
theorem rel_remove {s : CSys α} {A : Nat → AThread α} (h : Rel s A) {t a : Nat} (ht : t < s.n)
    {p q : List Nat} {p' q' : List α} {o o' : List α}
    (hsplit : (s.thr t).hs = p ++ a :: q)
    (hp : p.map s.heap.val = p'.map some) (hq : q.map s.heap.val = q'.map some)
    (ho : o = o') (_h0 : (s.thr t).out = (A t).out) :
    Rel ⟨s.heap.decr a, s.n, upd s.thr t ⟨p ++ q, o⟩⟩ (upd A t ⟨p' ++ q', o'⟩) := by
  have hmem : a ∈ (s.thr t).hs := by rw [hsplit]; simp
  have hl := handle_live h.inv ht hmem
  have huniq : s.heap.rc a = 1 → a ∉ p ∧ a ∉ q ∧ ∀ u, u < s.n → u ≠ t → a ∉ (s.thr u).hs :=
    fun h1 => unique_ref h.inv ht hsplit h1
  have hkeep : ∀ g, g ∈ p ∨ g ∈ q ∨ (∃ u, u < s.n ∧ u ≠ t ∧ g ∈ (s.thr u).hs) →
      (s.heap.decr a).val g = s.heap.val g := by
    intro g hg
    apply decr_val
    by_cases h1 : s.heap.rc a = 1
    · left
      obtain ⟨u1, u2, u3⟩ := huniq h1
      rcases hg with hg | hg | ⟨u, hu, hut, hg⟩
      · intro e; subst e; exact u1 hg
      · intro e; subst e; exact u2 hg
      · intro e; subst e; exact u3 u hu hut hg
    · right; exact h1
  apply rel_core h ht
  · intro b
    rw [decr_rc, hsplit]
    simp only [List.count_append, List.count_cons]
    by_cases hb : b = a
    · subst hb; simp; omega
    · have : ¬ (a = b) := fun h => hb h.symm
      simp [hb, this]
  · intro b
    rw [decr_rc, decr_next]
    by_cases hb : b = a
    · subst hb; simp only [if_true]; intro hpos
      have : s.heap.rc b ≠ 1 := by omega
      rw [decr_val _ _ _ (Or.inr this)]
      exact hl.2
    · simp only [hb, if_false]; intro hpos
      rw [decr_val _ _ _ (Or.inl hb)]
      exact h.inv.live b hpos
  · intro u hu hut g hg
    exact hkeep g (Or.inr (Or.inr ⟨u, hu, hut, hg⟩))
  · simp only [List.map_append]
    rw [← hp, ← hq]
    congr 1
    · exact List.map_congr_left (fun g hg => hkeep g (Or.inl hg))
    · exact List.map_congr_left (fun g hg => hkeep g (Or.inr (Or.inl hg)))
  · exact ho

/-- The step lemma: one operation of one thread keeps the heap well-formed and is observed by
every thread exactly as the value-semantics step. -/
theorem rel_step {s : CSys α} {A : Nat → AThread α} (h : Rel s A) (e : Nat × Op α) :
    Rel (cstep s e) (astep s.n A e) := by
  obtain ⟨t, op⟩ := e
  unfold cstep astep
  by_cases ht : t < s.n
  case neg => simp only [ht, if_false]; exact h
  simp only [ht, if_true]
  have hv := h.vals t ht
  have ho := h.out t ht
  unfold CSys.view at hv
  cases op with
  | new v =>
    simp only [cstepLocal, astepLocal]
    have hfresh := next_fresh h.inv
    apply rel_core h ht
    · intro a
      simp only [Heap.alloc, List.count_append, List.count_singleton]
      by_cases ha : a = s.heap.next
      · subst ha; simp [hfresh]; omega
      · have : ¬ (s.heap.next = a) := fun h => ha h.symm
        simp [ha, this]
    · intro a
      simp only [Heap.alloc]
      by_cases ha : a = s.heap.next
      · subst ha; simp
      · simp only [ha, if_false]; intro hp
        have := h.inv.live a hp; exact ⟨by omega, this.2⟩
    · intro u hu _ g hg
      have := (handle_live h.inv hu hg).2.1
      have hne : g ≠ s.heap.next := by omega
      simp [Heap.alloc, hne]
    · simp only [Heap.alloc, List.map_append, List.map_cons, List.map_nil, if_true]
      congr 1
      rw [← hv]
      apply List.map_congr_left
      intro g hg
      have := (handle_live h.inv ht hg).2.1
      have hne : g ≠ s.heap.next := by omega
      simp [hne]
    · exact ho
  | clone i =>
    rcases pick_map_rel s.heap.val some (s.thr t).hs (A t).vals i hv with
      ⟨h1, h2⟩ | ⟨p, a, q, p', v, q', h1, h2, hp, ha, hq⟩
    · simp only [cstepLocal, astepLocal, h1, h2, upd_self]; exact h
    simp only [cstepLocal, astepLocal, h1, h2]
    have hsplit := pick_spec _ _ h1
    have hmem : a ∈ (s.thr t).hs := by rw [hsplit]; simp
    have hl := handle_live h.inv ht hmem
    apply rel_core h ht
    · intro b
      simp only [Heap.incr, List.count_append, List.count_singleton]
      by_cases hb : b = a
      · subst hb; simp; omega
      · have : ¬ (a = b) := fun h => hb h.symm
        simp [hb, this]
    · intro b
      simp only [Heap.incr]
      by_cases hb : b = a
      · subst hb; intro _; exact hl.2
      · simp only [hb, if_false]; exact h.inv.live b
    · intro u hu _ g hg; rfl
    · simp only [Heap.incr, List.map_append, List.map_cons, List.map_nil]
      rw [hv, ha]
    · exact ho
  | read i =>
    rcases pick_map_rel s.heap.val some (s.thr t).hs (A t).vals i hv with
      ⟨h1, h2⟩ | ⟨p, a, q, p', v, q', h1, h2, hp, ha, hq⟩
    · simp only [cstepLocal, astepLocal, h1, h2, upd_self]; exact h
    simp only [cstepLocal, astepLocal, h1, h2, ha]
    apply rel_core h ht
    · intro b; rfl
    · exact h.inv.live
    · intro u hu _ g hg; rfl
    · exact hv
    · simp [ho]
  | drop i =>
    rcases pick_map_rel s.heap.val some (s.thr t).hs (A t).vals i hv with
      ⟨h1, h2⟩ | ⟨p, a, q, p', v, q', h1, h2, hp, ha, hq⟩
    · simp only [cstepLocal, astepLocal, h1, h2, upd_self]; exact h
    simp only [cstepLocal, astepLocal, h1, h2]
    have hsplit := pick_spec _ _ h1
    exact rel_remove h ht hsplit hp hq ho ho
  | take i =>
    rcases pick_map_rel s.heap.val some (s.thr t).hs (A t).vals i hv with
      ⟨h1, h2⟩ | ⟨p, a, q, p', v, q', h1, h2, hp, ha, hq⟩
    · simp only [cstepLocal, astepLocal, h1, h2, upd_self]; exact h
    simp only [cstepLocal, astepLocal, h1, h2, rcUnwrapOrClone, ha]
    have hsplit := pick_spec _ _ h1
    exact rel_remove h ht hsplit hp hq (by simp [ho]) ho
  | mutate i f =>
    rcases pick_map_rel s.heap.val some (s.thr t).hs (A t).vals i hv with
      ⟨h1, h2⟩ | ⟨p, a, q, p', v, q', h1, h2, hp, ha, hq⟩
    · simp only [cstepLocal, astepLocal, h1, h2, upd_self]; exact h
    simp only [cstepLocal, astepLocal, h1, h2, rcMakeMut, ha]
    have hsplit := pick_spec _ _ h1
    have hmem : a ∈ (s.thr t).hs := by rw [hsplit]; simp
    have hl := handle_live h.inv ht hmem
    by_cases hrc : s.heap.rc a = 1
    · -- unique owner: written in place
      simp only [hrc, if_true]
      obtain ⟨u1, u2, u3⟩ := unique_ref h.inv ht hsplit hrc
      apply rel_core h ht
      · intro b; rw [hsplit]; rfl
      · intro b hb
        have := h.inv.live b hb
        refine ⟨this.1, ?_⟩
        simp only [Heap.setVal]
        by_cases hba : b = a
        · simp [hba]
        · simp only [hba, if_false]; exact this.2
      · intro u hu hut g hg
        have : g ≠ a := by intro e; subst e; exact u3 u hu hut hg
        simp [Heap.setVal, this]
      · simp only [Heap.setVal, List.map_append, List.map_cons, if_true]
        rw [← hp, ← hq]
        congr 1
        · apply List.map_congr_left; intro g hg
          have : g ≠ a := by intro e; subst e; exact u1 hg
          simp [this]
        · congr 1
          apply List.map_congr_left; intro g hg
          have : g ≠ a := by intro e; subst e; exact u2 hg
          simp [this]
      · exact ho
    · -- shared: the content is copied into a fresh cell, the old cell is left alone
      simp only [hrc, if_false]
      have hfresh := next_fresh h.inv
      have hane : a ≠ s.heap.next := by omega
      have hval : ∀ g, g < s.heap.next → ((s.heap.decr a).alloc (f v)).1.val g = s.heap.val g := by
        intro g hg
        have hne : g ≠ s.heap.next := by omega
        simp only [Heap.alloc, decr_next, hne, if_false]
        exact decr_val _ _ _ (Or.inr hrc)
      apply rel_core h ht
      · intro b
        simp only [Heap.alloc, decr_next, decr_rc]
        rw [hsplit]
        simp only [List.count_append, List.count_cons]
        by_cases hb : b = s.heap.next
        · subst hb
          have : ¬ (a = s.heap.next) := hane
          simp [this, hfresh]; omega
        · by_cases hba : b = a
          · subst hba
            have : ¬ (s.heap.next = b) := fun h => hane h.symm
            simp [hb, this]; omega
          · have e1 : ¬ (s.heap.next = b) := fun h => hb h.symm
            have e2 : ¬ (a = b) := fun h => hba h.symm
            simp [hb, hba, e1, e2]
      · intro b
        simp only [Heap.alloc, decr_next, decr_rc]
        by_cases hb : b = s.heap.next
        · subst hb; simp
        · simp only [hb, if_false]
          intro hpos
          have hpos' : 0 < s.heap.rc b := by
            by_cases hba : b = a
            · subst hba; exact hl.1
            · simpa [hba] using hpos
          have := h.inv.live b hpos'
          refine ⟨by omega, ?_⟩
          rw [decr_val _ _ _ (Or.inr hrc)]; exact this.2
      · intro u hu _ g hg
        exact hval g (handle_live h.inv hu hg).2.1
      · have hin : ∀ g, g ∈ p ∨ g ∈ q → g < s.heap.next := by
          intro g hg
          apply (handle_live h.inv ht (g := g) _).2.1
          rw [hsplit]; rcases hg with hg | hg <;> simp [hg]
        simp only [List.map_append, List.map_cons]
        rw [← hp, ← hq]
        congr 1
        · exact List.map_congr_left (fun g hg => hval g (hin g (Or.inl hg)))
        · congr 1
          · simp [Heap.alloc, decr_next]
          · exact List.map_congr_left (fun g hg => hval g (hin g (Or.inr hg)))
      · exact ho

theorem cstep_n (s : CSys α) (e : Nat × Op α) : (cstep s e).n = s.n := by
  unfold cstep; split <;> rfl

theorem crun_n : ∀ (es : List (Nat × Op α)) (s : CSys α), (crun es s).n = s.n
  | [], _ => rfl
  | e :: es, s => by simp only [crun]; rw [crun_n es, cstep_n]

/-- refinement along a whole schedule -/
theorem rel_run : ∀ (es : List (Nat × Op α)) {s : CSys α} {A : Nat → AThread α}, Rel s A →
    Rel (crun es s) (arun s.n es A)
  | [], _, _, h => h
  | e :: es, s, A, h => by
    simp only [crun, arun]
    have := rel_run es (rel_step h e)
    rw [cstep_n] at this
    exact this

/-- the abstract system is a product: thread `u` only sees its own operations -/
theorem arun_local (n : Nat) : ∀ (es : List (Nat × Op α)) (A : Nat → AThread α) (u : Nat), u < n →
    arun n es A u = alocal (opsOf u es) (A u)
  | [], _, _, _ => rfl
  | (t, op) :: es, A, u, hu => by
    simp only [arun, opsOf]
    rw [arun_local n es _ u hu]
    by_cases htu : t = u
    · subst htu; simp [astep, hu, upd, alocal]
    · have hut : u ≠ t := fun h => htu h.symm
      simp only [htu, if_false]
      congr 1
      unfold astep
      split
      · simp [upd, hut]
      · rfl

theorem total_const (a : Nat) (l : List Nat) : ∀ n, total a (fun _ => l) n = n * l.count a
  | 0 => by simp [total]
  | n + 1 => by simp only [total]; rw [total_const a l n, Nat.succ_mul]

theorem count_range (a : Nat) : ∀ k, (List.range k).count a = if a < k then 1 else 0
  | 0 => by simp
  | k + 1 => by
    rw [List.range_succ, List.count_append, count_range a k, List.count_singleton]
    by_cases h1 : a < k
    · have : ¬ (k = a) := by omega
      have h2 : a < k + 1 := by omega
      simp [h1, this, h2]
    · by_cases h2 : a = k
      · subst h2; simp
      · have : ¬ (k = a) := fun h => h2 h.symm
        have h3 : ¬ (a < k + 1) := by omega
        simp [h1, this, h3]

theorem rel_initShared (vs : List α) (n : Nat) :
    Rel (initShared vs n) (fun _ => ⟨vs, []⟩) := by
  refine ⟨⟨?_, ?_⟩, ?_, ?_⟩
  · intro a
    show (if a < vs.length then n else 0) = total a (fun _ => List.range vs.length) n
    rw [total_const, count_range]
    split <;> simp
  · intro a
    show 0 < (if a < vs.length then n else 0) → a < vs.length ∧ (vs[a]?).isSome = true
    split
    · next h => intro _; exact ⟨h, by simp [h]⟩
    · intro h; omega
  · intro u _
    show (List.range vs.length).map (fun a => vs[a]?) = vs.map some
    apply List.ext_getElem?
    intro i
    by_cases hi : i < vs.length
    · simp [hi]
    · simp [hi]
  · intro u _; rfl

end Jaq.C19
