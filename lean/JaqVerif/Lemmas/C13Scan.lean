/- Generic lemmas about the left-to-right scanner `scanF` / `scan` (C13 decoders and consumers). -/
import JaqVerif.C13.Codec

namespace Jaq.C13

theorem scanF_nil (step : Bytes → Bytes × Nat) (n : Nat) : scanF step n [] = [] := by
  cases n <;> rfl

theorem scanF_cons (step : Bytes → Bytes × Nat) (n : Nat) (b : UInt8) (r : Bytes) :
    scanF step (n + 1) (b :: r) = (step (b :: r)).1 ++ scanF step n ((b :: r).drop (max (step (b :: r)).2 1)) := by
  rfl

/-- fuel beyond the input length is irrelevant -/
theorem scanF_fuel (step : Bytes → Bytes × Nat) :
    ∀ (n m : Nat) (s : Bytes), s.length ≤ n → s.length ≤ m → scanF step n s = scanF step m s := by
  intro n
  induction n with
  | zero =>
    intro m s hn _
    have : s = [] := List.eq_nil_of_length_eq_zero (by omega)
    subst this
    rw [scanF_nil, scanF_nil]
  | succ n ih =>
    intro m s hn hm
    cases s with
    | nil => rw [scanF_nil, scanF_nil]
    | cons b r =>
      cases m with
      | zero => simp at hm
      | succ m =>
        rw [scanF_cons, scanF_cons]
        congr 1
        apply ih
        · simp only [List.length_drop, List.length_cons] at *; omega
        · simp only [List.length_drop, List.length_cons] at *; omega

theorem scan_nil (step : Bytes → Bytes × Nat) : scan step [] = [] := rfl

/-- one step of `scan` on a non-empty input -/
theorem scan_cons (step : Bytes → Bytes × Nat) (b : UInt8) (r : Bytes) :
    scan step (b :: r) = (step (b :: r)).1 ++ scan step ((b :: r).drop (max (step (b :: r)).2 1)) := by
  unfold scan
  rw [List.length_cons, scanF_cons]
  congr 1
  apply scanF_fuel
  · simp only [List.length_drop, List.length_cons]; omega
  · exact Nat.le_refl _

/-- if `step` maps the code `e` of a byte (in front of anything) back to that byte, so does `scan` -/
theorem scan_code (step : Bytes → Bytes × Nat) (e : Bytes) (out : Bytes) (rest : Bytes)
    (hne : e ≠ []) (h : step (e ++ rest) = (out, e.length)) :
    scan step (e ++ rest) = out ++ scan step rest := by
  cases e with
  | nil => exact absurd rfl hne
  | cons x t =>
    rw [List.cons_append, scan_cons]
    rw [← List.cons_append, h]
    simp only [List.length_cons]
    have : max (t.length + 1) 1 = (x :: t).length := by simp [List.length_cons]
    rw [this, List.drop_left]

/-- decoding an encoded string: if every byte's code is mapped back to the byte in every context,
`scan step` inverts the byte-wise encoder, also in front of a remainder -/
theorem scan_flatMap (step : Bytes → Bytes × Nat) (enc : UInt8 → Bytes)
    (hne : ∀ b, enc b ≠ [])
    (h : ∀ b rest, step (enc b ++ rest) = ([b], (enc b).length)) :
    ∀ (s tail : Bytes), scan step (s.flatMap enc ++ tail) = s ++ scan step tail := by
  intro s
  induction s with
  | nil => intro tail; simp
  | cons b s ih =>
    intro tail
    rw [List.flatMap_cons, List.append_assoc, scan_code step (enc b) [b] _ (hne b) (h b _), ih]
    rfl

theorem scan_flatMap' (step : Bytes → Bytes × Nat) (enc : UInt8 → Bytes)
    (hne : ∀ b, enc b ≠ [])
    (h : ∀ b rest, step (enc b ++ rest) = ([b], (enc b).length)) (s : Bytes) :
    scan step (s.flatMap enc) = s := by
  have := scan_flatMap step enc hne h s []
  simpa [scan_nil] using this

end Jaq.C13
