/-
  C12 helper lemmas about the `Val`-level model: `Val.cmp` / `Val.eq` against the constants of
  the type tests, entries round trip, windows, flatten.
-/
import JaqVerif.C12.Coll
import JaqVerif.Lemmas.C12Sort

namespace Jaq.Coll

/-! ### `Val.cmp` / `Val.eq` against `true`, `""`, `[]`, `{}`, `null` -/

theorem size_eStr : eStr.size = 1 := rfl
theorem size_eArr : eArr.size = 1 := by simp [eArr, Val.size, Val.sizeList]
theorem size_eObj : eObj.size = 1 := by simp [eObj, Val.size, Val.sizeEntries]

theorem cmp_eArr (v : Val) : Val.cmp v eArr =
    (match v with | .arr [] => .eq | .arr (_ :: _) => .gt | .obj _ => .gt | _ => .lt) := by
  unfold Val.cmp
  rw [size_eArr]
  unfold eArr
  cases v with
  | arr x => cases x <;> simp [Val.cmpF, lexCmp]
  | _ => simp [Val.cmpF, Val.rank] <;> decide

theorem cmp_eObj (v : Val) : Val.cmp v eObj =
    (match v with | .obj [] => .eq | .obj (_ :: _) => .gt | _ => .lt) := by
  unfold Val.cmp
  rw [size_eObj]
  unfold eObj
  cases v with
  | obj x => cases x <;> simp [Val.cmpF]
  | _ => simp [Val.cmpF, Val.rank] <;> decide

theorem cmpBytes_nil (x : List UInt8) : cmpBytes x [] = (match x with | [] => .eq | _ :: _ => .gt) := by
  cases x <;> rfl

theorem cmp_eStr (v : Val) : Val.cmp v eStr =
    (match v with
     | .tstr [] | .bstr [] => .eq
     | .tstr (_ :: _) | .bstr (_ :: _) | .arr _ | .obj _ => .gt
     | _ => .lt) := by
  unfold Val.cmp
  rw [size_eStr]
  unfold eStr
  cases v with
  | tstr x => cases x <;> simp [Val.cmpF, cmpBytes, lexCmp]
  | bstr x => cases x <;> simp [Val.cmpF, cmpBytes, lexCmp]
  | _ => simp [Val.cmpF, Val.rank] <;> decide

theorem cmp_true (v : Val) : Val.cmp v (.bool true) =
    (match v with | .null => .lt | .bool false => .lt | .bool true => .eq | _ => .gt) := by
  unfold Val.cmp
  have : (Val.bool true).size = 1 := rfl
  rw [this]
  cases v with
  | bool b => cases b <;> simp [Val.cmpF] <;> decide
  | _ => simp [Val.cmpF, Val.rank] <;> decide

theorem eq_null (v : Val) : Val.eq v .null = (match v with | .null => true | _ => false) := by
  unfold Val.eq
  have : Val.null.size = 1 := rfl
  rw [this]
  cases v <;> simp [Val.eqF]

theorem eq_bool (v : Val) (b : Bool) : Val.eq v (.bool b) = (match v with | .bool b' => b' == b | _ => false) := by
  unfold Val.eq
  have : (Val.bool b).size = 1 := rfl
  rw [this]
  cases v <;> simp [Val.eqF]

/-- the constructor name as the manual spells the type -/
def ctorName : Val → String
  | .null => "null"
  | .bool _ => "boolean"
  | .num _ => "number"
  | .bstr _ | .tstr _ => "string"
  | .arr _ => "array"
  | .obj _ => "object"

theorem isarray_iff (v : Val) : isarray v = true ↔ ∃ a, v = .arr a := by
  unfold isarray vGe vLt
  rw [cmp_eArr, cmp_eObj]
  cases v with
  | arr x => cases x <;> simp
  | obj x => cases x <;> simp
  | _ => simp

theorem isarray_arr (a : List Val) : isarray (.arr a) = true := (isarray_iff _).2 ⟨a, rfl⟩

theorem isarray_false_of_not_arr {v : Val} (h : ∀ a, v ≠ .arr a) : isarray v = false := by
  cases hv : isarray v with
  | false => rfl
  | true => obtain ⟨a, rfl⟩ := (isarray_iff v).1 hv; exact absurd rfl (h a)

/-! ### entries -/

theorem sameKey_key_key : Obj.sameKey sKey sKey = true := by decide
theorem sameKey_value_key : Obj.sameKey sValue sKey = false := by decide
theorem sameKey_value_value : Obj.sameKey sValue sValue = true := by decide

theorem indexKey_entry_key (k v : Val) : indexKey (mkEntry k v) sKey = .ok k := by
  simp [indexKey, mkEntry, Obj.get, List.find?, sameKey_key_key]

theorem indexKey_entry_value (k v : Val) : indexKey (mkEntry k v) sValue = .ok v := by
  simp [indexKey, mkEntry, Obj.get, List.find?, sameKey_value_key, sameKey_value_value]

theorem insert_fresh (acc : Obj.Entries) (k v : Val) (h : ∀ p ∈ acc, Obj.sameKey k p.1 = false) :
    Obj.insert acc k v = acc ++ [(k, v)] := by
  unfold Obj.insert Obj.has Obj.get
  have : acc.find? (fun x => match x with | (k', _) => Obj.sameKey k k') = none := by
    apply List.find?_eq_none.2
    intro p hp
    obtain ⟨k', v'⟩ := p
    simp [h (k', v') hp]
  rw [this]
  rfl

theorem fromEntriesStep_entry (acc : Obj.Entries) (k v : Val) :
    fromEntriesStep acc (mkEntry k v) = .ok (Obj.insert acc k v) := by
  unfold fromEntriesStep
  rw [indexKey_entry_key, indexKey_entry_value]
  rfl

theorem fromEntriesLoop_entries : ∀ (o acc : Obj.Entries),
    (acc ++ o).Pairwise (fun p q => Obj.sameKey q.1 p.1 = false) →
    fromEntriesLoop acc (o.map fun p => mkEntry p.1 p.2) = .ok (acc ++ o)
  | [], acc, _ => by simp [fromEntriesLoop]
  | (k, v) :: o, acc, h => by
    rw [List.map_cons, fromEntriesLoop, fromEntriesStep_entry]
    have hfresh : ∀ p ∈ acc, Obj.sameKey k p.1 = false := by
      intro p hp
      have := List.pairwise_append.1 h
      exact this.2.2 p hp (k, v) (List.mem_cons_self ..)
    rw [insert_fresh acc k v hfresh]
    have := fromEntriesLoop_entries o (acc ++ [(k, v)]) (by simpa using h)
    simpa using this

/-! ### windows -/

theorem listEq_length {κ : Type} {e : κ → κ → Bool} : ∀ {a b : List κ}, listEq e a b = true → a.length = b.length
  | [], [], _ => rfl
  | [], _ :: _, h => by simp [listEq] at h
  | _ :: _, [], h => by simp [listEq] at h
  | _ :: xs, _ :: ys, h => by
    simp only [listEq, Bool.and_eq_true] at h
    simp [listEq_length h.2]

theorem windowsIdx_nil {α : Type} (eqv : List α → List α → Bool) (y : List α) (i : Nat) : windowsIdx eqv y i [] = [] := rfl

theorem windowsIdx_cons {α : Type} (eqv : List α → List α → Bool) (y : List α) (i : Nat) (x : α) (xs : List α) :
    windowsIdx eqv y i (x :: xs) =
      if (x :: xs).length < y.length then []
      else (if eqv ((x :: xs).take y.length) y then [i] else []) ++ windowsIdx eqv y (i + 1) xs := rfl

/-- the windows model lists exactly the offsets at which a full-length window matches -/
theorem mem_windowsIdx {α : Type} (eqv : List α → List α → Bool) (y : List α) (hy : 0 < y.length) :
    ∀ (l : List α) (i0 i : Nat), i ∈ windowsIdx eqv y i0 l ↔
      ∃ j, i = i0 + j ∧ j + y.length ≤ l.length ∧ eqv ((l.drop j).take y.length) y = true
  | [], i0, i => by
    rw [windowsIdx_nil]
    constructor
    · intro h; cases h
    · rintro ⟨j, _, hlen, _⟩; rw [List.length_nil] at hlen; omega
  | x :: xs, i0, i => by
    rw [windowsIdx_cons]
    split
    · next hshort =>
      constructor
      · intro h; cases h
      · rintro ⟨j, _, hlen, _⟩; omega
    · next hlong =>
      rw [List.mem_append, mem_windowsIdx eqv y hy xs (i0 + 1) i]
      constructor
      · rintro (h | ⟨j, rfl, hlen, he⟩)
        · split at h
          · next he =>
            simp at h; subst h
            exact ⟨0, rfl, by simp at hlong ⊢; omega, by simpa using he⟩
          · cases h
        · exact ⟨j + 1, by omega, by simp; omega, by simpa using he⟩
      · rintro ⟨j, rfl, hlen, he⟩
        cases j with
        | zero => left; simp at he; simp [he]
        | succ j => right; exact ⟨j, by omega, by simp at hlen; omega, by simpa using he⟩

/-- … in strictly increasing order -/
theorem windowsIdx_sorted {α : Type} (eqv : List α → List α → Bool) (y : List α) :
    ∀ (l : List α) (i0 : Nat), (windowsIdx eqv y i0 l).Pairwise (· < ·) ∧ ∀ i ∈ windowsIdx eqv y i0 l, i0 ≤ i
  | [], i0 => by simp [windowsIdx_nil]
  | x :: xs, i0 => by
    rw [windowsIdx_cons]
    have ih := windowsIdx_sorted eqv y xs (i0 + 1)
    split
    · simp
    · split
      · refine ⟨?_, ?_⟩
        · simp only [List.singleton_append, List.pairwise_cons]
          exact ⟨fun j hj => by have := ih.2 j hj; omega, ih.1⟩
        · intro i hi
          simp at hi
          rcases hi with rfl | hi
          · omega
          · have := ih.2 i hi; omega
      · simp only [List.nil_append]
        exact ⟨ih.1, fun i hi => by have := ih.2 i hi; omega⟩

end Jaq.Coll
