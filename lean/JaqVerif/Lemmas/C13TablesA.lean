/- C13 table facts, part A (see C13Tables0.lean). -/
import JaqVerif.Lemmas.C13Tables0

namespace Jaq.C13

/-- `@uri`: unreserved bytes are copied, every other byte is `%` + two hex digits of its value -/
def uriEntryOk (b : UInt8) : Bool :=
  match uriEsc b with
  | [x] => x == b && isUnreserved b
  | [p, h1, h2] =>
    p == 37 && !isUnreserved b &&
    (match hexDigitVal h1, hexDigitVal h2 with
     | some a, some c => a * 16 + c == b.toNat
     | _, _ => false)
  | _ => false

theorem uriEntry_ok : ∀ i : Fin 256, uriEntryOk (UInt8.ofNat i.val) = true := by decide +kernel

def isHtmlMeta (b : UInt8) : Bool := b == 60 || b == 62 || b == 38 || b == 39 || b == 34

/-- `@html`: the five metacharacters become their entity, every other byte is copied -/
def htmlEntryOk (b : UInt8) : Bool :=
  if isHtmlMeta b then htmlReps.any fun (p, c) => c == b && p == htmlEsc b
  else htmlEsc b == [b]

theorem htmlEntry_ok : ∀ i : Fin 256, htmlEntryOk (UInt8.ofNat i.val) = true := by decide +kernel

end Jaq.C13
