/- Character positions: `length`, slices, `indices` and regex match offsets all count the chunks
   of `Jaq.Utf8.chars` (valid scalar value or maximal invalid sequence = one position). -/
import JaqVerif.Lemmas.C13Split

namespace Jaq.C13
open Jaq

/-- byte offset of character position `k`: total length of the first `k` characters -/
def boundary (s : Bytes) (k : Nat) : Nat := ((Utf8.chars s).take k).flatten.length

theorem strLength_eq_chars (s : Bytes) : strLength s = (Utf8.chars s).length := by
  simp [strLength, Utf8.charCount, Utf8.chars]

/-! ## starts = prefix sums -/

theorem startsFrom_getD : ∀ (cs : List Bytes) (off k : Nat),
    (startsFrom off cs).getD k (off + cs.flatten.length) = off + ((cs.take k).flatten).length := by
  intro cs
  induction cs with
  | nil => intro off k; simp [startsFrom]
  | cons c cs ih =>
    intro off k
    cases k with
    | zero => simp [startsFrom]
    | succ k =>
      simp only [startsFrom, List.getD_cons_succ, List.take_succ_cons, List.flatten_cons, List.length_append]
      have := ih (off + c.length) k
      rw [← Nat.add_assoc, ← Nat.add_assoc]
      exact this

theorem starts_getD (s : Bytes) (k : Nat) : (starts s).getD k s.length = boundary s k := by
  have := startsFrom_getD (Utf8.chars s) 0 k
  simp only [Nat.zero_add, chars_flatten] at this
  exact this

/-! ## slices -/

theorem flatten_slice (cs : List Bytes) (i j : Nat) (h : i ≤ j) :
    (cs.flatten.drop ((cs.take i).flatten.length)).take ((cs.take j).flatten.length - (cs.take i).flatten.length)
      = ((cs.drop i).take (j - i)).flatten := by
  have hj : j = i + (j - i) := by omega
  have e1 : cs.flatten = (cs.take i).flatten ++ (cs.drop i).flatten := by
    rw [← List.flatten_append, List.take_append_drop]
  have e2 : cs.take j = cs.take i ++ (cs.drop i).take (j - i) := by
    conv => lhs; rw [hj]
    exact List.take_add
  have e3 : (cs.drop i).flatten = ((cs.drop i).take (j - i)).flatten ++ ((cs.drop i).drop (j - i)).flatten := by
    rw [← List.flatten_append, List.take_append_drop]
  rw [e2, List.flatten_append, List.length_append, Nat.add_sub_cancel_left]
  rw [e1, List.drop_left, e3, List.take_left]

/-- `.[i:j]` with `0 ≤ i ≤ j` returns exactly the characters number `i, …, j-1` -/
theorem sliceChars_eq (s : Bytes) (i j : Nat) (h : i ≤ j) :
    sliceChars s (some (Int.ofNat i)) (some (Int.ofNat j)) = (((Utf8.chars s).drop i).take (j - i)).flatten := by
  unfold sliceChars boundIndex byteIndex
  simp only [Int.ofNat_eq_natCast, Int.natCast_nonneg, decide_true, if_true, Int.natAbs_natCast]
  rw [starts_getD, starts_getD]
  have := flatten_slice (Utf8.chars s) i j h
  rw [chars_flatten] at this
  exact this

/-! ## every character is non-empty; character starts increase strictly -/

theorem chunksF_ne_nil : ∀ (n : Nat) (bs : Bytes) (c : Option Nat × Bytes), c ∈ Utf8.chunksF n bs → c.2 ≠ [] := by
  intro n
  induction n with
  | zero => intro bs c h; simp [Utf8.chunksF] at h
  | succ n ih =>
    intro bs c h
    cases bs with
    | nil => rw [chunksF_nil] at h; simp at h
    | cons b r =>
      rw [chunksF_cons] at h
      simp only [List.mem_cons] at h
      rcases h with rfl | h
      · simp only
        split <;> simp
        rename_i h0
        simp only [beq_iff_eq] at h0
        omega
      · exact ih _ c h

theorem chars_ne_nil (s : Bytes) : ∀ c ∈ Utf8.chars s, c ≠ [] := by
  intro c hc
  simp only [Utf8.chars, Utf8.chunks, List.mem_map] at hc
  obtain ⟨x, hx, rfl⟩ := hc
  exact chunksF_ne_nil _ _ x hx

/-- the list `char_indices().map(start).chain(once(len))` of `ByteChar::new` -/
def offsets (off : Nat) (cs : List Bytes) : List Nat := startsFrom off cs ++ [off + cs.flatten.length]

theorem offsets_cons (off : Nat) (c : Bytes) (cs : List Bytes) :
    offsets off (c :: cs) = off :: offsets (off + c.length) cs := by
  simp [offsets, startsFrom, Nat.add_assoc]

theorem offsets_ge : ∀ (cs : List Bytes) (off x : Nat), x ∈ offsets off cs → off ≤ x := by
  intro cs
  induction cs with
  | nil => intro off x h; simp [offsets, startsFrom] at h; omega
  | cons c cs ih =>
    intro off x h
    rw [offsets_cons] at h
    simp only [List.mem_cons] at h
    rcases h with rfl | h
    · exact Nat.le_refl _
    · have := ih _ _ h; omega

theorem offsets_getElem : ∀ (cs : List Bytes) (off k : Nat), k ≤ cs.length →
    (offsets off cs)[k]? = some (off + ((cs.take k).flatten).length) := by
  intro cs
  induction cs with
  | nil => intro off k h; simp at h; subst h; simp [offsets, startsFrom]
  | cons c cs ih =>
    intro off k h
    rw [offsets_cons]
    cases k with
    | zero => simp
    | succ k =>
      simp only [List.getElem?_cons_succ, List.take_succ_cons, List.flatten_cons, List.length_append]
      rw [ih (off + c.length) k (by simp only [List.length_cons] at h; omega)]
      simp [Nat.add_assoc]

/-- looking up the `k`-th offset in the enumerated list finds character index `k`
(offsets increase strictly because characters are non-empty) -/
theorem charOfByteStateful_offsets : ∀ (cs : List Bytes) (off base k : Nat), (∀ c ∈ cs, c ≠ []) → k ≤ cs.length →
    (charOfByteStateful (((offsets off cs).zipIdx base).map fun (b, i) => (i, b))
      (off + ((cs.take k).flatten).length)).1 = some (base + k) := by
  intro cs
  induction cs with
  | nil =>
    intro off base k _ h
    simp at h; subst h
    simp [offsets, startsFrom, charOfByteStateful]
  | cons c cs ih =>
    intro off base k hne h
    rw [offsets_cons]
    simp only [List.zipIdx_cons, List.map_cons]
    cases k with
    | zero => simp [charOfByteStateful]
    | succ k =>
      have hc : c ≠ [] := hne c (by simp)
      have hpos : 0 < c.length := List.length_pos_iff.mpr hc
      simp only [List.take_succ_cons, List.flatten_cons, List.length_append]
      rw [charOfByteStateful]
      have : ¬ (off + (c.length + ((cs.take k).flatten).length) = off) := by omega
      rw [if_neg this]
      have := ih (off + c.length) (base + 1) k (fun x hx => hne x (by simp [hx])) (by simp only [List.length_cons] at h; omega)
      rw [Nat.add_assoc] at this
      rw [this]
      congr 1; omega

theorem byteCharNew_eq (s : Bytes) :
    byteCharNew s = ((offsets 0 (Utf8.chars s)).zipIdx 0).map fun (b, i) => (i, b) := by
  unfold byteCharNew offsets starts
  simp [chars_flatten]

/-- (repaired, stateless lookup) the byte offset of character position `k` is mapped back to `k` -/
theorem charOfByte_boundary (s : Bytes) (k : Nat) (hk : k ≤ (Utf8.chars s).length) :
    charOfByte s (boundary s k) = some k := by
  unfold charOfByte boundary
  rw [byteCharNew_eq]
  have := charOfByteStateful_offsets (Utf8.chars s) 0 0 k (chars_ne_nil s) hk
  simpa using this

/-! ## indices -/

/-- every position reported by `indices` is a character position at which the needle's bytes occur -/
theorem indicesFrom_sound (y : Bytes) : ∀ (cs : List Bytes) (k0 : Nat) (rest : Bytes), rest = cs.flatten →
    ∀ k ∈ indicesFrom y k0 rest cs, k0 ≤ k ∧ k - k0 < cs.length ∧
      y.isPrefixOf (rest.drop ((cs.take (k - k0)).flatten.length)) = true := by
  intro cs
  induction cs with
  | nil => intro k0 rest _ k hk; simp [indicesFrom] at hk
  | cons c cs ih =>
    intro k0 rest hrest k hk
    simp only [indicesFrom] at hk
    split at hk
    · simp at hk
    · simp only [List.mem_append] at hk
      rcases hk with hk | hk
      · split at hk
        · rename_i hp
          simp only [List.mem_singleton] at hk
          subst hk
          simp [hp]
        · simp at hk
      · have hrest' : rest.drop c.length = cs.flatten := by
          rw [hrest, List.flatten_cons, List.drop_left]
        obtain ⟨h1, h2, h3⟩ := ih (k0 + 1) (rest.drop c.length) hrest' k hk
        refine ⟨by omega, by simp only [List.length_cons]; omega, ?_⟩
        have hk' : k - k0 = (k - (k0 + 1)) + 1 := by omega
        rw [hk', List.take_succ_cons, List.flatten_cons, List.length_append, ← List.drop_drop]
        exact h3

theorem indicesStr_sound (s y : Bytes) (k : Nat) (hk : k ∈ indicesStr s y) :
    k < strLength s ∧ y.isPrefixOf (s.drop (boundary s k)) = true := by
  unfold indicesStr at hk
  split at hk
  · simp at hk
  · obtain ⟨_, h2, h3⟩ := indicesFrom_sound y (Utf8.chars s) 0 s (chars_flatten s).symm k hk
    rw [strLength_eq_chars]
    exact ⟨by simpa using h2, by simpa [boundary] using h3⟩

/-! ## ROUND 2: boundaries, stability of the characters of a substring -/

theorem boundary_eq_chunkPre (s : Bytes) (k : Nat) : boundary s k = chunkPre (Utf8.chunks s) k := by
  simp [boundary, chunkPre, Utf8.chars, List.map_take]

theorem boundary_zero (s : Bytes) : boundary s 0 = 0 := by simp [boundary]

theorem boundary_le (s : Bytes) (k : Nat) : boundary s k ≤ s.length := by
  have h : s = ((Utf8.chars s).take k).flatten ++ ((Utf8.chars s).drop k).flatten := by
    rw [← List.flatten_append, List.take_append_drop, chars_flatten]
  have : s.length = boundary s k + ((Utf8.chars s).drop k).flatten.length := by
    conv => lhs; rw [h]
    simp [boundary]
  omega

theorem boundary_of_ge (s : Bytes) (k : Nat) (h : (Utf8.chars s).length ≤ k) : boundary s k = s.length := by
  unfold boundary
  rw [List.take_of_length_le h, chars_flatten]

theorem boundary_add (s : Bytes) (i n : Nat) :
    boundary s (i + n) = boundary s i + (((Utf8.chars s).drop i).take n).flatten.length := by
  unfold boundary
  rw [List.take_add, List.flatten_append, List.length_append]

/-- strict monotonicity on character positions (characters are non-empty) -/
theorem boundary_lt (s : Bytes) (i : Nat) (h : i < (Utf8.chars s).length) : boundary s i < boundary s (i + 1) := by
  rw [boundary_add]
  have : ((Utf8.chars s).drop i).take 1 = [(Utf8.chars s)[i]] := by
    rw [List.drop_eq_getElem_cons h]; rfl
  rw [this]
  have hne := chars_ne_nil s _ (List.getElem_mem h)
  have := List.length_pos_iff.mpr hne
  simp; omega

theorem boundary_mono (s : Bytes) {i j : Nat} (h : i ≤ j) : boundary s i ≤ boundary s j := by
  obtain ⟨n, rfl⟩ := Nat.exists_eq_add_of_le h
  rw [boundary_add]; omega

/-- the characters of the rest after character position `i` -/
theorem chars_drop_boundary (s : Bytes) (i : Nat) :
    Utf8.chars (s.drop (boundary s i)) = (Utf8.chars s).drop i := by
  rw [boundary_eq_chunkPre]
  simp only [Utf8.chars]
  rw [(chunks_take_drop s.length s (Nat.le_refl _) i).2, List.map_drop]

/-- the characters of the part before character position `j` -/
theorem chars_take_boundary (s : Bytes) (j : Nat) :
    Utf8.chars (s.take (boundary s j)) = (Utf8.chars s).take j := by
  rw [boundary_eq_chunkPre]
  simp only [Utf8.chars]
  rw [(chunks_take_drop s.length s (Nat.le_refl _) j).1, List.map_take]

theorem boundary_drop (s : Bytes) (i n : Nat) :
    boundary (s.drop (boundary s i)) n = boundary s (i + n) - boundary s i := by
  rw [boundary_add]
  have : boundary (s.drop (boundary s i)) n = (((Utf8.chars s).drop i).take n).flatten.length := by
    rw [← chars_drop_boundary]; rfl
  rw [this]; omega

/-- STABILITY: the substring between character positions `i ≤ j`, taken alone, has exactly the
characters number `i … j-1` of the string (same chunks, hence same count) -/
theorem chars_substring (s : Bytes) (i j : Nat) (hij : i ≤ j) :
    Utf8.chars ((s.drop (boundary s i)).take (boundary s j - boundary s i)) = ((Utf8.chars s).drop i).take (j - i) := by
  have : boundary s j - boundary s i = boundary (s.drop (boundary s i)) (j - i) := by
    rw [boundary_drop]; congr 2; omega
  rw [this, chars_take_boundary, chars_drop_boundary]


/-! ## `indices`, complete characterisation -/

theorem isPrefixOf_length_le {y r : Bytes} (h : y.isPrefixOf r = true) : y.length ≤ r.length := by
  obtain ⟨t, rfl⟩ := List.isPrefixOf_iff_prefix.mp h
  simp

theorem indicesFrom_complete (y : Bytes) : ∀ (cs : List Bytes) (k0 : Nat) (rest : Bytes), rest = cs.flatten →
    ∀ k, k0 ≤ k → k - k0 < cs.length →
      y.isPrefixOf (rest.drop ((cs.take (k - k0)).flatten.length)) = true → k ∈ indicesFrom y k0 rest cs := by
  intro cs
  induction cs with
  | nil => intro k0 rest _ k _ h; simp at h
  | cons c cs ih =>
    intro k0 rest hrest k hk0 hlt hp
    simp only [indicesFrom]
    have hfit : ¬ rest.length < y.length := by
      have := isPrefixOf_length_le hp
      simp only [List.length_drop] at this
      omega
    rw [if_neg hfit]
    simp only [List.mem_append]
    by_cases hk : k = k0
    · subst hk
      left
      simp only [Nat.sub_self, List.take_zero, List.flatten_nil, List.length_nil, List.drop_zero] at hp
      simp [hp]
    · right
      have hrest' : rest.drop c.length = cs.flatten := by
        rw [hrest, List.flatten_cons, List.drop_left]
      apply ih (k0 + 1) (rest.drop c.length) hrest' k (by omega) (by simp only [List.length_cons] at hlt; omega)
      have hk' : k - k0 = (k - (k0 + 1)) + 1 := by omega
      rw [hk', List.take_succ_cons, List.flatten_cons, List.length_append, ← List.drop_drop] at hp
      exact hp

theorem mem_indicesStr_iff (s y : Bytes) (hy : y ≠ []) (k : Nat) :
    k ∈ indicesStr s y ↔ k < (Utf8.chars s).length ∧ y.isPrefixOf (s.drop (boundary s k)) = true := by
  constructor
  · intro h
    have := indicesStr_sound s y k h
    rwa [strLength_eq_chars] at this
  · intro ⟨h1, h2⟩
    unfold indicesStr
    have : y.isEmpty = false := by cases y <;> simp_all
    simp only [this, Bool.false_eq_true, if_false]
    exact indicesFrom_complete y (Utf8.chars s) 0 s (chars_flatten s).symm k (Nat.zero_le _) (by simpa using h1)
      (by simpa [boundary] using h2)

theorem startsFrom_length : ∀ (cs : List Bytes) (off : Nat), (startsFrom off cs).length = cs.length := by
  intro cs
  induction cs with
  | nil => intro off; rfl
  | cons c cs ih => intro off; simp [startsFrom, ih]

/-- the byte offsets that are character boundaries: starts of characters, and the end -/
theorem mem_bounds_iff (s : Bytes) (x : Nat) :
    x ∈ starts s ++ [s.length] ↔ ∃ j, j ≤ (Utf8.chars s).length ∧ x = boundary s j := by
  have e : starts s ++ [s.length] = offsets 0 (Utf8.chars s) := by
    simp [offsets, starts, chars_flatten]
  rw [e]
  constructor
  · intro h
    obtain ⟨j, hj, hx⟩ := List.getElem_of_mem h
    have hlen : (offsets 0 (Utf8.chars s)).length = (Utf8.chars s).length + 1 := by
      simp [offsets, startsFrom_length]
    refine ⟨j, by omega, ?_⟩
    have := offsets_getElem (Utf8.chars s) 0 j (by omega)
    rw [List.getElem?_eq_getElem hj, hx] at this
    simpa [boundary] using this
  · intro ⟨j, hj, hx⟩
    have := offsets_getElem (Utf8.chars s) 0 j hj
    subst hx
    exact List.mem_of_getElem? (by simpa [boundary] using this)


/-! ## the slices `.[k:]` and `.[:n]` -/

theorem sliceFrom_eq (s : Bytes) (k : Nat) : sliceChars s (some (Int.ofNat k)) none = s.drop (boundary s k) := by
  unfold sliceChars boundIndex byteIndex
  simp only [Int.ofNat_eq_natCast, Int.natCast_nonneg, decide_true, if_true, Int.natAbs_natCast]
  rw [starts_getD]
  apply List.take_of_length_le
  simp

theorem sliceTo_eq (t : Bytes) (n : Nat) : sliceChars t none (some (Int.ofNat n)) = t.take (boundary t n) := by
  unfold sliceChars boundIndex byteIndex
  simp only [Int.ofNat_eq_natCast, Int.natCast_nonneg, decide_true, if_true, Int.natAbs_natCast]
  rw [starts_getD]
  simp

theorem drop_flatten_take (cs : List Bytes) (k : Nat) :
    cs.flatten.drop ((cs.take k).flatten.length) = (cs.drop k).flatten := by
  conv => lhs; arg 2; rw [← List.take_append_drop k cs]
  rw [List.flatten_append, List.drop_left]

theorem drop_boundary_eq (s : Bytes) (k : Nat) : s.drop (boundary s k) = ((Utf8.chars s).drop k).flatten := by
  unfold boundary
  conv => lhs; arg 2; rw [← chars_flatten s]
  exact drop_flatten_take _ _

/-- `.[k:][:n]` = `.[k:k+n]` = the characters number `k … k+n-1` -/
theorem slice_slice_eq (s : Bytes) (k n : Nat) :
    sliceChars (sliceChars s (some (Int.ofNat k)) none) none (some (Int.ofNat n))
      = (((Utf8.chars s).drop k).take n).flatten := by
  rw [sliceFrom_eq, sliceTo_eq]
  have h1 := drop_boundary_eq s k
  have h2 : boundary (s.drop (boundary s k)) n = (((Utf8.chars s).drop k).take n).flatten.length := by
    unfold boundary; rw [← chars_drop_boundary]; rfl
  rw [h2, h1]
  have e3 : ((Utf8.chars s).drop k).flatten = (((Utf8.chars s).drop k).take n).flatten ++ (((Utf8.chars s).drop k).drop n).flatten := by
    rw [← List.flatten_append, List.take_append_drop]
  conv => lhs; rw [e3]
  rw [List.take_left]

/-- `indices` (repaired code): `k` is reported iff the needle occurs at character position `k`
AND ends at a character boundary -/
theorem mem_indicesStrRepaired_iff (s y : Bytes) (hy : y ≠ []) (k : Nat) :
    k ∈ indicesStrRepaired s y ↔
      k < (Utf8.chars s).length ∧ y.isPrefixOf (s.drop (boundary s k)) = true ∧
      ∃ j, j ≤ (Utf8.chars s).length ∧ boundary s k + y.length = boundary s j := by
  unfold indicesStrRepaired
  rw [List.mem_filter, mem_indicesStr_iff s y hy k, starts_getD, List.contains_iff_mem, mem_bounds_iff]
  exact and_assoc

/-- **`indices` at full strength** (repaired code, ALL byte strings incl. invalid UTF-8): the
reported positions are exactly the `k` with `.[k:][:$y|length] == $y`, positions and lengths
counted in characters -/
theorem indices_iff_slice (s y : Bytes) (hy : y ≠ []) (k : Nat) :
    k ∈ indicesStrRepaired s y ↔
      sliceChars (sliceChars s (some (Int.ofNat k)) none) none (some (Int.ofNat (strLength y))) = y := by
  rw [mem_indicesStrRepaired_iff s y hy k, slice_slice_eq, strLength_eq_chars]
  have hylen : 0 < y.length := List.length_pos_iff.mpr hy
  have hsplit := drop_boundary_eq s k
  constructor
  · intro ⟨hk, hp, j, hj, hb⟩
    -- the needle is the substring between the boundaries k and j
    have hkj : k < j := by
      by_cases h : k < j
      · exact h
      · have := boundary_mono s (Nat.le_of_not_lt h); omega
    have hyeq : y = (s.drop (boundary s k)).take (boundary s j - boundary s k) := by
      have := eq_append_of_isPrefixOf hp
      have e : boundary s j - boundary s k = y.length := by omega
      rw [e]
      conv => rhs; rw [this]
      simp
    have hchars : Utf8.chars y = ((Utf8.chars s).drop k).take (j - k) := by
      rw [hyeq]; exact chars_substring s k j (by omega)
    have hn : (Utf8.chars y).length = j - k := by
      rw [hchars]; simp; omega
    rw [hn, ← chars_substring s k j (by omega), chars_flatten, ← hyeq]
  · intro h
    generalize hn : (Utf8.chars y).length = n at h
    have hk : k < (Utf8.chars s).length := by
      by_cases hk : k < (Utf8.chars s).length
      · exact hk
      · rw [List.drop_eq_nil_of_le (by omega)] at h
        simp at h; first | exact absurd h hy | exact absurd h.symm hy
    refine ⟨hk, ?_, k + min n ((Utf8.chars s).length - k), by omega, ?_⟩
    · rw [hsplit, List.isPrefixOf_iff_prefix]
      have e3 : ((Utf8.chars s).drop k).flatten = (((Utf8.chars s).drop k).take n).flatten ++ (((Utf8.chars s).drop k).drop n).flatten := by
        rw [← List.flatten_append, List.take_append_drop]
      rw [e3, h]
      exact List.prefix_append _ _
    · rw [boundary_add]
      congr 1
      rw [← h]
      congr 2
      rw [List.take_eq_take_iff]
      simp

end Jaq.C13
