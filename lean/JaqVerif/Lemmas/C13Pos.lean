/- Character positions: `length`, slices, `indices` and regex match offsets all count the chunks
   of `Jaq.Utf8.chars` (valid scalar value or maximal invalid sequence = one position). -/
import JaqVerif.Lemmas.C13Split

namespace Jaq.C13
open Jaq

/-- byte offset of character position `k`: total length of the first `k` characters -/
def boundary (s : Bytes) (k : Nat) : Nat := ((Utf8.chars s).take k).flatten.length

theorem strLength_eq_chars (s : Bytes) : strLength s = (Utf8.chars s).length := by
  simp [strLength, Utf8.charCount, Utf8.chars]

/-! ## starts = prefix sums -/

theorem startsFrom_getD : ∀ (cs : List Bytes) (off k : Nat),
    (startsFrom off cs).getD k (off + cs.flatten.length) = off + ((cs.take k).flatten).length := by
  intro cs
  induction cs with
  | nil => intro off k; simp [startsFrom]
  | cons c cs ih =>
    intro off k
    cases k with
    | zero => simp [startsFrom]
    | succ k =>
      simp only [startsFrom, List.getD_cons_succ, List.take_succ_cons, List.flatten_cons, List.length_append]
      have := ih (off + c.length) k
      rw [← Nat.add_assoc, ← Nat.add_assoc]
      exact this

theorem starts_getD (s : Bytes) (k : Nat) : (starts s).getD k s.length = boundary s k := by
  have := startsFrom_getD (Utf8.chars s) 0 k
  simp only [Nat.zero_add, chars_flatten] at this
  exact this

/-! ## slices -/

theorem flatten_slice (cs : List Bytes) (i j : Nat) (h : i ≤ j) :
    (cs.flatten.drop ((cs.take i).flatten.length)).take ((cs.take j).flatten.length - (cs.take i).flatten.length)
      = ((cs.drop i).take (j - i)).flatten := by
  have hj : j = i + (j - i) := by omega
  have e1 : cs.flatten = (cs.take i).flatten ++ (cs.drop i).flatten := by
    rw [← List.flatten_append, List.take_append_drop]
  have e2 : cs.take j = cs.take i ++ (cs.drop i).take (j - i) := by
    conv => lhs; rw [hj]
    exact List.take_add
  have e3 : (cs.drop i).flatten = ((cs.drop i).take (j - i)).flatten ++ ((cs.drop i).drop (j - i)).flatten := by
    rw [← List.flatten_append, List.take_append_drop]
  rw [e2, List.flatten_append, List.length_append, Nat.add_sub_cancel_left]
  rw [e1, List.drop_left, e3, List.take_left]

/-- `.[i:j]` with `0 ≤ i ≤ j` returns exactly the characters number `i, …, j-1` -/
theorem sliceChars_eq (s : Bytes) (i j : Nat) (h : i ≤ j) :
    sliceChars s (some (Int.ofNat i)) (some (Int.ofNat j)) = (((Utf8.chars s).drop i).take (j - i)).flatten := by
  unfold sliceChars boundIndex byteIndex
  simp only [Int.ofNat_eq_natCast, Int.natCast_nonneg, decide_true, if_true, Int.natAbs_natCast]
  rw [starts_getD, starts_getD]
  have := flatten_slice (Utf8.chars s) i j h
  rw [chars_flatten] at this
  exact this

/-! ## every character is non-empty; character starts increase strictly -/

theorem chunksF_ne_nil : ∀ (n : Nat) (bs : Bytes) (c : Option Nat × Bytes), c ∈ Utf8.chunksF n bs → c.2 ≠ [] := by
  intro n
  induction n with
  | zero => intro bs c h; simp [Utf8.chunksF] at h
  | succ n ih =>
    intro bs c h
    cases bs with
    | nil => rw [chunksF_nil] at h; simp at h
    | cons b r =>
      rw [chunksF_cons] at h
      simp only [List.mem_cons] at h
      rcases h with rfl | h
      · simp only
        split <;> simp
        rename_i h0
        simp only [beq_iff_eq] at h0
        omega
      · exact ih _ c h

theorem chars_ne_nil (s : Bytes) : ∀ c ∈ Utf8.chars s, c ≠ [] := by
  intro c hc
  simp only [Utf8.chars, Utf8.chunks, List.mem_map] at hc
  obtain ⟨x, hx, rfl⟩ := hc
  exact chunksF_ne_nil _ _ x hx

/-- the list `char_indices().map(start).chain(once(len))` of `ByteChar::new` -/
def offsets (off : Nat) (cs : List Bytes) : List Nat := startsFrom off cs ++ [off + cs.flatten.length]

theorem offsets_cons (off : Nat) (c : Bytes) (cs : List Bytes) :
    offsets off (c :: cs) = off :: offsets (off + c.length) cs := by
  simp [offsets, startsFrom, Nat.add_assoc]

theorem offsets_ge : ∀ (cs : List Bytes) (off x : Nat), x ∈ offsets off cs → off ≤ x := by
  intro cs
  induction cs with
  | nil => intro off x h; simp [offsets, startsFrom] at h; omega
  | cons c cs ih =>
    intro off x h
    rw [offsets_cons] at h
    simp only [List.mem_cons] at h
    rcases h with rfl | h
    · exact Nat.le_refl _
    · have := ih _ _ h; omega

theorem offsets_getElem : ∀ (cs : List Bytes) (off k : Nat), k ≤ cs.length →
    (offsets off cs)[k]? = some (off + ((cs.take k).flatten).length) := by
  intro cs
  induction cs with
  | nil => intro off k h; simp at h; subst h; simp [offsets, startsFrom]
  | cons c cs ih =>
    intro off k h
    rw [offsets_cons]
    cases k with
    | zero => simp
    | succ k =>
      simp only [List.getElem?_cons_succ, List.take_succ_cons, List.flatten_cons, List.length_append]
      rw [ih (off + c.length) k (by simp only [List.length_cons] at h; omega)]
      simp [Nat.add_assoc]

/-- looking up the `k`-th offset in the enumerated list finds character index `k`
(offsets increase strictly because characters are non-empty) -/
theorem charOfByteStateful_offsets : ∀ (cs : List Bytes) (off base k : Nat), (∀ c ∈ cs, c ≠ []) → k ≤ cs.length →
    (charOfByteStateful (((offsets off cs).zipIdx base).map fun (b, i) => (i, b))
      (off + ((cs.take k).flatten).length)).1 = some (base + k) := by
  intro cs
  induction cs with
  | nil =>
    intro off base k _ h
    simp at h; subst h
    simp [offsets, startsFrom, charOfByteStateful]
  | cons c cs ih =>
    intro off base k hne h
    rw [offsets_cons]
    simp only [List.zipIdx_cons, List.map_cons]
    cases k with
    | zero => simp [charOfByteStateful]
    | succ k =>
      have hc : c ≠ [] := hne c (by simp)
      have hpos : 0 < c.length := List.length_pos_iff.mpr hc
      simp only [List.take_succ_cons, List.flatten_cons, List.length_append]
      rw [charOfByteStateful]
      have : ¬ (off + (c.length + ((cs.take k).flatten).length) = off) := by omega
      rw [if_neg this]
      have := ih (off + c.length) (base + 1) k (fun x hx => hne x (by simp [hx])) (by simp only [List.length_cons] at h; omega)
      rw [Nat.add_assoc] at this
      rw [this]
      congr 1; omega

theorem byteCharNew_eq (s : Bytes) :
    byteCharNew s = ((offsets 0 (Utf8.chars s)).zipIdx 0).map fun (b, i) => (i, b) := by
  unfold byteCharNew offsets starts
  simp [chars_flatten]

/-- (repaired, stateless lookup) the byte offset of character position `k` is mapped back to `k` -/
theorem charOfByte_boundary (s : Bytes) (k : Nat) (hk : k ≤ (Utf8.chars s).length) :
    charOfByte s (boundary s k) = some k := by
  unfold charOfByte boundary
  rw [byteCharNew_eq]
  have := charOfByteStateful_offsets (Utf8.chars s) 0 0 k (chars_ne_nil s) hk
  simpa using this

/-! ## indices -/

/-- every position reported by `indices` is a character position at which the needle's bytes occur -/
theorem indicesFrom_sound (y : Bytes) : ∀ (cs : List Bytes) (k0 : Nat) (rest : Bytes), rest = cs.flatten →
    ∀ k ∈ indicesFrom y k0 rest cs, k0 ≤ k ∧ k - k0 < cs.length ∧
      y.isPrefixOf (rest.drop ((cs.take (k - k0)).flatten.length)) = true := by
  intro cs
  induction cs with
  | nil => intro k0 rest _ k hk; simp [indicesFrom] at hk
  | cons c cs ih =>
    intro k0 rest hrest k hk
    simp only [indicesFrom] at hk
    split at hk
    · simp at hk
    · simp only [List.mem_append] at hk
      rcases hk with hk | hk
      · split at hk
        · rename_i hp
          simp only [List.mem_singleton] at hk
          subst hk
          simp [hp]
        · simp at hk
      · have hrest' : rest.drop c.length = cs.flatten := by
          rw [hrest, List.flatten_cons, List.drop_left]
        obtain ⟨h1, h2, h3⟩ := ih (k0 + 1) (rest.drop c.length) hrest' k hk
        refine ⟨by omega, by simp only [List.length_cons]; omega, ?_⟩
        have hk' : k - k0 = (k - (k0 + 1)) + 1 := by omega
        rw [hk', List.take_succ_cons, List.flatten_cons, List.length_append, ← List.drop_drop]
        exact h3

theorem indicesStr_sound (s y : Bytes) (k : Nat) (hk : k ∈ indicesStr s y) :
    k < strLength s ∧ y.isPrefixOf (s.drop (boundary s k)) = true := by
  unfold indicesStr at hk
  split at hk
  · simp at hk
  · obtain ⟨_, h2, h3⟩ := indicesFrom_sound y (Utf8.chars s) 0 s (chars_flatten s).symm k hk
    rw [strLength_eq_chars]
    exact ⟨by simpa using h2, by simpa [boundary] using h3⟩

end Jaq.C13
