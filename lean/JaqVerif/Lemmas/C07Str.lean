import JaqVerif.C07.Read
namespace Jaq.C07

/-! ## prefix stability of the string reader -/

theorem stripPrefix_append (p i q r : Bytes) (h : stripPrefix p i = some q) :
    stripPrefix p (i ++ r) = some (q ++ r) := by
  induction p generalizing i with
  | nil => simp [stripPrefix] at h ⊢; subst h; rfl
  | cons a p ih =>
    cases i with
    | nil => simp [stripPrefix] at h
    | cons b i =>
      simp only [stripPrefix, List.isPrefixOf, List.cons_append, Bool.and_eq_true, List.length_cons,
        List.drop_succ_cons] at h ⊢
      have ih' := ih i
      simp only [stripPrefix] at ih'
      split at h
      · rename_i hab
        obtain ⟨h1, h2⟩ := hab
        simp only [h2, if_true] at ih'
        have := ih' h
        split at this
        · simp [h1, *]
        · cases this
      · cases h

theorem hexN_append (k : Nat) : ∀ (acc : Nat) (p q r : Bytes) (v : Nat),
    hexN k acc p = some (v, q) → hexN k acc (p ++ r) = some (v, q ++ r) := by
  induction k with
  | zero => intro acc p q r v h; simp only [hexN] at h ⊢; cases h; rfl
  | succ k ih =>
    intro acc p q r v h
    cases p with
    | nil => simp [hexN] at h
    | cons c p =>
      simp only [hexN, List.cons_append] at h ⊢
      cases hc : hexVal8 c with
      | none => simp [hc] at h
      | some d => simp only [hc] at h ⊢; exact ih _ _ _ _ _ h

theorem readUnicode_append (p q r : Bytes) (v : Nat) (h : readUnicode p = some (v, q)) :
    readUnicode (p ++ r) = some (v, q ++ r) := by
  unfold readUnicode at h ⊢
  cases h1 : hexN 4 0 p with
  | none => simp [h1] at h
  | some x =>
    obtain ⟨u, r1⟩ := x
    rw [hexN_append 4 0 p r1 r u h1]
    simp only [h1] at h ⊢
    split at h
    · rename_i hs
      simp only [hs]
      cases h0 : stripPrefix [0x5c, 0x75] r1 with
      | none => simp [h0] at h
      | some r2 =>
        rw [stripPrefix_append _ _ _ r h0]
        simp only [h0] at h ⊢
        cases h2 : hexN 4 0 r2 with
        | none => simp [h2] at h
        | some y =>
          obtain ⟨lo, r3⟩ := y
          rw [hexN_append 4 0 r2 r3 r lo h2]
          simp only [h2] at h ⊢
          split at h
          · rename_i hl; simp only [hl]; cases h; rfl
          · cases h
    · rename_i hs
      simp only [hs]
      split at h
      · cases h
      · rename_i hl; simp only [hl]; cases h; rfl

theorem readItem_append (b : Bool) (p q r o : Bytes) (h : readItem b p = some (.out o q)) :
    readItem b (p ++ r) = some (.out o (q ++ r)) := by
  cases p with
  | nil => simp [readItem] at h
  | cons c p =>
    simp only [readItem, List.cons_append] at h ⊢
    by_cases h1 : (c == 34) = true
    · simp [h1] at h
    · simp only [h1] at h ⊢
      by_cases h2 : (c == 92) = true
      · simp only [h2] at h ⊢
        cases p with
        | nil => simp at h
        | cons e p =>
          simp only [List.cons_append] at h ⊢
          cases b with
          | true =>
            simp only [if_true] at h ⊢
            by_cases h3 : (e == 120) = true
            · simp only [h3] at h ⊢
              cases h4 : hexN 2 0 p with
              | none => simp [h4] at h
              | some y =>
                obtain ⟨v, r2⟩ := y
                rw [hexN_append 2 0 p r2 r v h4]
                simp only [h4] at h ⊢
                cases h; rfl
            · simp only [h3] at h ⊢
              cases h4 : tableGetO Gen.unescB e with
              | none => simp [h4] at h
              | some o' => simp only [h4] at h ⊢; cases h; rfl
          | false =>
            simp only [Bool.false_eq_true, if_false] at h ⊢
            by_cases h3 : (e == 117) = true
            · simp only [h3] at h ⊢
              cases h4 : readUnicode p with
              | none => simp [h4] at h
              | some y =>
                obtain ⟨v, r2⟩ := y
                rw [readUnicode_append p r2 r v h4]
                simp only [h4] at h ⊢
                cases h; rfl
            · simp only [h3] at h ⊢
              cases h4 : tableGetO Gen.unescT e with
              | none => simp [h4] at h
              | some o' => simp only [h4] at h ⊢; cases h; rfl
      · simp only [h2] at h ⊢
        by_cases h3 : c.toNat < 32
        · simp [h3] at h
        · simp only [h3] at h ⊢
          cases h; rfl

/-! ## the generated tables, row by row (kernel-decided over all 256 bytes) -/

theorem escT_rows : ∀ i : Fin 256,
    readItem false (escT1 (UInt8.ofNat i.val)) = some (.out [UInt8.ofNat i.val] []) := by decide +kernel

theorem escB_rows : ∀ i : Fin 256,
    readItem true (escB1 (UInt8.ofNat i.val)) = some (.out [UInt8.ofNat i.val] []) := by decide +kernel


theorem escT1_ne_nil : ∀ i : Fin 256, escT1 (UInt8.ofNat i.val) ≠ [] := by decide +kernel
theorem escB1_ne_nil : ∀ i : Fin 256, escB1 (UInt8.ofNat i.val) ≠ [] := by decide +kernel

theorem byte_as_fin (b : UInt8) : ∃ i : Fin 256, b = UInt8.ofNat i.val :=
  ⟨⟨b.toNat, b.toNat_lt⟩, by simp⟩

/-- reading what the text-string writer emitted for one byte gives back that byte, whatever follows -/
theorem readItem_escT (b : UInt8) (r : Bytes) : readItem false (escT1 b ++ r) = some (.out [b] r) := by
  obtain ⟨i, rfl⟩ := byte_as_fin b
  have := readItem_append false _ [] r _ (escT_rows i)
  simpa using this

theorem readItem_escB (b : UInt8) (r : Bytes) : readItem true (escB1 b ++ r) = some (.out [b] r) := by
  obtain ⟨i, rfl⟩ := byte_as_fin b
  have := readItem_append true _ [] r _ (escB_rows i)
  simpa using this

theorem escT1_length_pos (b : UInt8) : 1 ≤ (escT1 b).length := by
  obtain ⟨i, rfl⟩ := byte_as_fin b
  have := escT1_ne_nil i
  cases h : escT1 (UInt8.ofNat i.val) with
  | nil => exact absurd h this
  | cons _ _ => simp

theorem escB1_length_pos (b : UInt8) : 1 ≤ (escB1 b).length := by
  obtain ⟨i, rfl⟩ := byte_as_fin b
  have := escB1_ne_nil i
  cases h : escB1 (UInt8.ofNat i.val) with
  | nil => exact absurd h this
  | cons _ _ => simp

theorem readItem_quote (b : Bool) (r : Bytes) : readItem b (0x22 :: r) = some (.fin r) := by
  simp [readItem]

/-- the string reader with enough fuel on an escaped body followed by the closing quote -/
theorem readStrF_flatMap (b : Bool) (esc : UInt8 → Bytes)
    (hesc : ∀ x r, readItem b (esc x ++ r) = some (.out [x] r)) :
    ∀ (s : Bytes) (rest : Bytes) (n : Nat), s.length < n →
      readStrF n b (s.flatMap esc ++ 0x22 :: rest) = some (s, rest) := by
  intro s
  induction s with
  | nil =>
    intro rest n hn
    cases n with
    | zero => omega
    | succ n => simp [readStrF, readItem_quote]
  | cons x s ih =>
    intro rest n hn
    cases n with
    | zero => omega
    | succ n =>
      simp only [List.flatMap_cons, List.append_assoc, readStrF, hesc]
      rw [ih rest n (by simpa using hn)]
      rfl

theorem length_flatMap_ge (esc : UInt8 → Bytes) (h : ∀ x, 1 ≤ (esc x).length) (s : Bytes) :
    s.length ≤ (s.flatMap esc).length := by
  induction s with
  | nil => simp
  | cons x s ih => simp only [List.flatMap_cons, List.length_append, List.length_cons]; have := h x; omega

theorem readStr_escT (s rest : Bytes) :
    readStr false (s.flatMap escT1 ++ 0x22 :: rest) = some (s, rest) := by
  unfold readStr
  apply readStrF_flatMap false escT1 readItem_escT
  have := length_flatMap_ge escT1 escT1_length_pos s
  simp only [List.length_append, List.length_cons]; omega

theorem readStr_escB (s rest : Bytes) :
    readStr true (s.flatMap escB1 ++ 0x22 :: rest) = some (s, rest) := by
  unfold readStr
  apply readStrF_flatMap true escB1 readItem_escB
  have := length_flatMap_ge escB1 escB1_length_pos s
  simp only [List.length_append, List.length_cons]; omega

end Jaq.C07
