/- Helper lemmas about `Out` (membership and `map` through the stream combinators). -/
import JaqVerif.C02.Spec

namespace Jaq.C02
namespace Out
variable {α β γ : Type}

@[simp] theorem nil_vals : (nil : Out α).vals = [] := rfl
@[simp] theorem one_vals (x : α) : (one x).vals = [x] := rfl
@[simp] theorem fail_vals (e : Exn) : (fail e : Out α).vals = [] := rfl
@[simp] theorem error_vals (e : Err) : (error e : Out α).vals = [] := rfl
@[simp] theorem noFuel_vals : (noFuel : Out α).vals = [] := rfl
@[simp] theorem ofList_vals (l : List α) : (ofList l).vals = l := rfl

theorem append_none {a b : Out α} (h : a.stop = none) : a.append b = ⟨a.vals ++ b.vals, b.stop⟩ := by
  simp [append, h]

theorem append_some {a b : Out α} {e : Exn} (h : a.stop = some e) : a.append b = a := by
  simp [append, h]

theorem mem_append {a b : Out α} {z : α} (h : z ∈ (a.append b).vals) : z ∈ a.vals ∨ z ∈ b.vals := by
  unfold append at h
  split at h
  · simpa using h
  · exact Or.inl h

theorem mem_bindL {f : α → Out β} {l : List α} {z : β} (h : z ∈ (bindL f l).vals) :
    ∃ x ∈ l, z ∈ (f x).vals := by
  induction l with
  | nil => simp [bindL] at h
  | cons x xs ih =>
    simp only [bindL] at h
    rcases mem_append h with h | h
    · exact ⟨x, List.mem_cons_self, h⟩
    · obtain ⟨y, hy, hz⟩ := ih h
      exact ⟨y, List.mem_cons_of_mem _ hy, hz⟩

theorem mem_bind {o : Out α} {f : α → Out β} {z : β} (h : z ∈ (o.bind f).vals) :
    ∃ x ∈ o.vals, z ∈ (f x).vals := by
  unfold bind at h
  rcases mem_append h with h | h
  · exact mem_bindL h
  · simp at h

theorem mem_first {o : Out α} {z : α} (h : z ∈ o.first.vals) : z ∈ o.vals := by
  unfold first at h
  split at h
  · rename_i x xs hx
    simp at h
    rw [hx, h]; exact List.mem_cons_self
  · simp at h

theorem mem_last {o : Out α} {z : α} (h : z ∈ o.last.vals) : z ∈ o.vals := by
  unfold last at h
  split at h
  · simp at h
  · split at h
    · rename_i x hx
      simp at h
      rw [h]; exact List.mem_of_getLast? hx
    · simp at h

theorem mem_dropErr {opt : Bool} {o : Out α} {z : α} (h : z ∈ (dropErr opt o).vals) : z ∈ o.vals := by
  unfold dropErr at h
  split at h <;> exact h

theorem mem_ofItems {l : List (Except Exn α)} {z : α} (h : z ∈ (ofItems l).vals) : .ok z ∈ l := by
  induction l with
  | nil => simp [ofItems] at h
  | cons x xs ih =>
    cases x with
    | error e => simp [ofItems] at h
    | ok a =>
      simp only [ofItems] at h
      rcases mem_append h with h | h
      · simp at h; rw [h]; exact List.mem_cons_self
      · exact List.mem_cons_of_mem _ (ih h)

/-! ### map -/

@[simp] theorem map_vals (g : α → β) (o : Out α) : (o.map g).vals = o.vals.map g := rfl
@[simp] theorem map_stop (g : α → β) (o : Out α) : (o.map g).stop = o.stop := rfl
@[simp] theorem map_nil (g : α → β) : (nil : Out α).map g = nil := rfl
@[simp] theorem map_one (g : α → β) (x : α) : (one x).map g = one (g x) := rfl
@[simp] theorem map_fail (g : α → β) (e : Exn) : (fail e : Out α).map g = fail e := rfl
@[simp] theorem map_error (g : α → β) (e : Err) : (error e : Out α).map g = error e := rfl
@[simp] theorem map_noFuel (g : α → β) : (noFuel : Out α).map g = noFuel := rfl
@[simp] theorem map_ofList (g : α → β) (l : List α) : (ofList l).map g = ofList (l.map g) := rfl
@[simp] theorem map_mk (g : α → β) (l : List α) (s : Option Exn) : (Out.mk l s).map g = ⟨l.map g, s⟩ := rfl

theorem map_append (g : α → β) (a b : Out α) : (a.append b).map g = (a.map g).append (b.map g) := by
  unfold append
  cases h : a.stop <;> simp [map, h]

theorem map_bindL (g : β → γ) (f : α → Out β) (l : List α) :
    (bindL f l).map g = bindL (fun x => (f x).map g) l := by
  induction l with
  | nil => rfl
  | cons x xs ih => simp only [bindL, map_append, ih]

theorem map_bind (g : β → γ) (o : Out α) (f : α → Out β) :
    (o.bind f).map g = o.bind fun x => (f x).map g := by
  unfold bind
  rw [map_append, map_bindL]
  rfl

theorem bindL_map (g : α → β) (f : β → Out γ) (l : List α) :
    bindL f (l.map g) = bindL (fun x => f (g x)) l := by
  induction l with
  | nil => rfl
  | cons x xs ih => simp only [List.map, bindL, ih]

theorem bind_map (g : α → β) (o : Out α) (f : β → Out γ) :
    (o.map g).bind f = o.bind fun x => f (g x) := by
  unfold bind
  simp only [map_vals, map_stop, bindL_map]

theorem bind_congr {o : Out α} {f f' : α → Out β} (h : ∀ x ∈ o.vals, f x = f' x) : o.bind f = o.bind f' := by
  unfold bind
  congr 1
  generalize o.vals = l at h
  induction l with
  | nil => rfl
  | cons x xs ih =>
    simp only [bindL]
    rw [h x List.mem_cons_self, ih fun y hy => h y (List.mem_cons_of_mem _ hy)]

theorem map_first (g : α → β) (o : Out α) : o.first.map g = (o.map g).first := by
  unfold first
  cases h : o.vals <;> simp [map, h, one]

theorem map_last (g : α → β) (o : Out α) : o.last.map g = (o.map g).last := by
  unfold last
  cases h : o.stop with
  | some e => simp [h]
  | none =>
    simp only [map_stop, h, map_vals, List.getLast?_map]
    cases o.vals.getLast? <;> simp

theorem map_dropErr (g : α → β) (opt : Bool) (o : Out α) : (dropErr opt o).map g = dropErr opt (o.map g) := by
  unfold dropErr
  cases opt <;> cases h : o.stop with
  | none => simp [h]
  | some e => cases e <;> simp [h, map]

theorem map_ofValR (g : α → β) (r : Except Err α) : (ofValR r).map g = ofValR (r.map g) := by
  cases r <;> rfl

theorem map_ofItems (g : α → β) (l : List (Except Exn α)) :
    (ofItems l).map g = ofItems (l.map fun r => r.map g) := by
  induction l with
  | nil => rfl
  | cons x xs ih =>
    cases x with
    | error e => rfl
    | ok a => simp only [ofItems, List.map, Except.map, map_append, ih, map_one]

end Out

/-! ### `takeGtz`, `dropGtz`, `foldL` commute with `map` -/

theorem takeGtz_map {α β : Type} (g : α → β) (n : Val) (l : List α) (st : Option Exn) :
    (takeGtz n l st).map g = takeGtz n (l.map g) st := by
  induction l generalizing n with
  | nil =>
    simp only [takeGtz, List.map]
    split
    · split <;> rfl
    · rfl
  | cons x xs ih =>
    simp only [takeGtz, List.map]
    split
    · split
      · rfl
      · rw [Out.map_append, ih]; rfl
    · rfl

theorem dropGtz_map {α β : Type} (g : α → β) (n : Val) (l : List α) (st : Option Exn) :
    (dropGtz n l st).map g = dropGtz n (l.map g) st := by
  induction l generalizing n with
  | nil =>
    simp only [dropGtz, List.map]
    split
    · split <;> rfl
    · rfl
  | cons x xs ih =>
    simp only [dropGtz, List.map]
    split
    · split
      · rfl
      · exact ih _
    · rfl

theorem limitOut_map {α β : Type} (g : α → β) (n : Val) (o : Out α) :
    (limitOut n o).map g = limitOut n (o.map g) := takeGtz_map g n o.vals o.stop

theorem skipOut_map {α β : Type} (g : α → β) (n : Val) (o : Out α) :
    (skipOut n o).map g = skipOut n (o.map g) := dropGtz_map g n o.vals o.stop

theorem mem_takeGtz {α : Type} {n : Val} {l : List α} {st : Option Exn} {z : α}
    (h : z ∈ (takeGtz n l st).vals) : z ∈ l := by
  induction l generalizing n with
  | nil =>
    simp only [takeGtz] at h
    split at h
    · split at h <;> simp at h
    · simp at h
  | cons x xs ih =>
    simp only [takeGtz] at h
    split at h
    · split at h
      · simp at h
      · rcases Out.mem_append h with h | h
        · simp at h; rw [h]; exact List.mem_cons_self
        · exact List.mem_cons_of_mem _ (ih h)
    · simp at h

theorem mem_dropGtz {α : Type} {n : Val} {l : List α} {st : Option Exn} {z : α}
    (h : z ∈ (dropGtz n l st).vals) : z ∈ l := by
  induction l generalizing n with
  | nil =>
    simp only [dropGtz] at h
    split at h
    · split at h <;> simp at h
    · simp at h
  | cons x xs ih =>
    simp only [dropGtz] at h
    split at h
    · split at h
      · simp at h
      · exact List.mem_cons_of_mem _ (ih h)
    · exact h

theorem foldL_map {X U U' γ γ' : Type} (g : U → U') (h : γ → γ')
    (f : X → U → Out U) (inner : X → U → Out γ) (outer : U → Out γ)
    (f' : X → U' → Out U') (inner' : X → U' → Out γ') (outer' : U' → Out γ')
    (hf : ∀ x a, (f x a).map g = f' x (g a))
    (hi : ∀ x a, (inner x a).map h = inner' x (g a))
    (ho : ∀ a, (outer a).map h = outer' (g a))
    (xs : List X) (st : Option Exn) (acc : U) :
    (foldL f inner outer xs st acc).map h = foldL f' inner' outer' xs st (g acc) := by
  induction xs generalizing acc with
  | nil => cases st <;> simp [foldL, ho]
  | cons x xs ih =>
    simp only [foldL]
    rw [Out.map_bind, ← hf, Out.bind_map]
    apply Out.bind_congr
    intro y _
    rw [Out.map_append, hi, ih]

theorem mem_foldL {X U γ : Type} {f : X → U → Out U} {inner : X → U → Out γ} {outer : U → Out γ}
    (P : U → Prop) (Q : γ → Prop)
    (hf : ∀ x a, P a → ∀ y ∈ (f x a).vals, P y)
    (hi : ∀ x a, P a → ∀ z ∈ (inner x a).vals, Q z)
    (ho : ∀ a, P a → ∀ z ∈ (outer a).vals, Q z)
    (xs : List X) (st : Option Exn) (acc : U) (hacc : P acc) :
    ∀ z ∈ (foldL f inner outer xs st acc).vals, Q z := by
  induction xs generalizing acc with
  | nil =>
    cases st with
    | none => exact ho acc hacc
    | some e => intro z hz; simp [foldL] at hz
  | cons x xs ih =>
    intro z hz
    simp only [foldL] at hz
    obtain ⟨y, hy, hz⟩ := Out.mem_bind hz
    have hPy := hf x acc hacc y hy
    rcases Out.mem_append hz with hz | hz
    · exact hi x y hPy z hz
    · exact ih y hPy z hz

end Jaq.C02
