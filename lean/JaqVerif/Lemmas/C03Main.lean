/-
  C03 helper lemmas, part 6: construction of every form (`stepB`), all related states (`stepA`),
  simultaneous induction (`simAB`), consumers of `k` items.
-/
import JaqVerif.Lemmas.C03Fold
namespace Jaq.C03
variable {D : List T}

/-! ### construction of `reduce`/`foreach` -/

theorem force_fold_ini_done {m kind upd ctx cells src ended} {ini : Th} {w w1}
    (h : force D m ini w = some (.done, w1)) :
    force D (m + 1) (.fold kind upd ctx cells src ended ini .nil) w = some (.done, w1) := by
  rw [force_succ]; simp only [forceStep, h]

theorem force_fold_ini_exn {m kind upd ctx cells src ended} {ini : Th} {w x th' w1}
    (h : force D m ini w = some (.yield x th', w1)) (hx : x.val? = none) :
    force D (m + 1) (.fold kind upd ctx cells src ended ini .nil) w =
      some (.yield x (.fold kind upd ctx cells src ended th' .nil), w1) := by
  rw [force_succ]; simp only [forceStep, h, hx]

theorem force_bind_done {m} {a : Th} {k : K} {w w1} (h : force D m a w = some (.done, w1)) :
    force D (m + 1) (.bind a k) w = some (.done, w1) := by
  rw [force_succ]; simp only [forceStep, h]

theorem force_bind_exn {m} {a : Th} {k : K} {w x a' w1} (h : force D m a w = some (.yield x a', w1)) (hx : x.val? = none) :
    force D (m + 1) (.bind a k) w = some (.yield x (.bind a' k), w1) := by
  rw [force_succ]; simp only [forceStep, h, hx]

theorem wrapProj_plain {kind : FoldKind} (hk : kind ≠ .foreachP) (p : T) (c : Ctx) (it : It) : wrapProj kind p c it = it := by
  cases kind <;> simp [wrapProj] at hk ⊢

theorem foldB_plain (hD : DPure D) {n : Nat} (hA : A D n) (hB : B D n) {kind : FoldKind} {xs init upd p : T} {c v w r}
    (hk : kind ≠ .foreachP) (hxl : xs.lazySrc = true) (hpx : xs.pureIdx = true) (hpi : init.pureIdx = true)
    (hpu : upd.pureIdx = true) (hc : c.pure = true)
    (hf : force D n (.fold kind upd c [] (.run xs c v) false (.run init c v) .nil) w = some r) :
    ∃ it w', MkR D (.fold kind xs init upd p) c v w (it, w') ∧ Matches D r it w' := by
  have hFP : FoldPure upd c (.run xs c v) (.run init c v) := ⟨hpu, hc, run_pure hpx hc, run_pure hpi hc⟩
  obtain ⟨r1, h1⟩ := force_fold_ini_head hf
  obtain ⟨a, ib, w3, hxs, hst, hmk, hcase⟩ := foldB (kind := kind) (xs := xs) hB hxl hpi hc h1
  have hsrc : SyncG D .src a (.run xs c v) := SyncG.srcFresh (fun w => ⟨3, hxs w⟩)
  rcases hcase with ⟨hu, hrel⟩ | ⟨hu, ib', w4, hn, rfl⟩ | ⟨hu, x, ib', w4, th', hn, rfl, hdead⟩
  · refine ⟨_, w3, mkR_fold hxs hst hmk (mkFoldInitR_slow w3 hu), ?_⟩
    rw [wrapProj_plain hk]
    exact hA _ _ _ _ _ hrel (hFP.fold _ _ _ rfl) hf
  · have := force_det hf (force_fold_ini_done (kind := kind) (upd := upd) (ctx := c) (cells := [])
      (src := .run xs c v) (ended := false) h1)
    subst this
    exact ⟨.nil, w4, mkR_fold hxs hst hmk (mkFoldInitR_none hu hn), .nil, nextR_nil _⟩
  · cases hx : x.val? with
    | none =>
      have := force_det hf (force_fold_ini_exn (kind := kind) (upd := upd) (ctx := c) (cells := [])
        (src := .run xs c v) (ended := false) h1 hx)
      subst this
      exact ⟨.once x, w4, mkR_fold hxs hst hmk (mkFoldInitR_exn hu hn hx), .nil, nextR_once _ _,
        SyncG.dead (dead_foldEmpty hdead)⟩
    | some i =>
      have hxi : x = .ok i := by cases x <;> simp [Item.val?] at hx; subst hx; rfl
      subst hxi
      refine ⟨_, w4, mkR_fold hxs hst hmk (mkFoldInitR_ok hu hn hx), ?_⟩
      rw [wrapProj_plain hk]
      cases n with
      | zero => simp [force] at hf
      | succ n' => exact foldFastCase hD (lowerA hA) hsrc ⟨_, h1⟩ hdead hFP hf

theorem foldB_proj (hD : DPure D) {n : Nat} (hA : A D n) (hB : B D n) {xs init upd p : T} {c v w r}
    (hxl : xs.lazySrc = true) (hpx : xs.pureIdx = true) (hpi : init.pureIdx = true)
    (hpu : upd.pureIdx = true) (hpp : p.pureIdx = true) (hc : c.pure = true)
    (hf : force D n (.bind (.fold .foreachP upd c [] (.run xs c v) false (.run init c v) .nil) (.proj p c)) w = some r) :
    ∃ it w', MkR D (.fold .foreachP xs init upd p) c v w (it, w') ∧ Matches D r it w' := by
  have hFP : FoldPure upd c (.run xs c v) (.run init c v) := ⟨hpu, hc, run_pure hpx hc, run_pure hpi hc⟩
  have hkp : (K.proj p c).pureIdx = true := by simp [K.pureIdx, hpp, hc]
  have hpb : (Th.bind (.fold .foreachP upd c [] (.run xs c v) false (.run init c v) .nil) (.proj p c)).pureIdx = true := by
    simp [Th.pureIdx, K.pureIdx, hpu, hc, hpx, hpi, hpp]
  obtain ⟨r0, h0⟩ := force_bind_head hf
  obtain ⟨r1, h1⟩ := force_fold_ini_head h0
  obtain ⟨a, ib, w3, hxs, hst, hmk, hcase⟩ := foldB (kind := .foreachP) (xs := xs) hB hxl hpi hc h1
  have hsrc : SyncG D .src a (.run xs c v) := SyncG.srcFresh (fun w => ⟨3, hxs w⟩)
  rcases hcase with ⟨hu, hrel⟩ | ⟨hu, ib', w4, hn, rfl⟩ | ⟨hu, x, ib', w4, th', hn, rfl, hdead⟩
  · exact ⟨_, w3, mkR_fold hxs hst hmk (mkFoldInitR_slow w3 hu),
      hA _ _ _ _ _ (Rel.flatInit (KRel.refl _) hrel) hpb hf⟩
  · have := force_det hf (force_bind_done (k := .proj p c) (force_fold_ini_done (kind := .foreachP) (upd := upd) (ctx := c)
      (cells := []) (src := .run xs c v) (ended := false) h1))
    subst this
    exact ⟨.nil, w4, mkR_fold hxs hst hmk (mkFoldInitR_none hu hn), .nil, nextR_nil _⟩
  · cases hx : x.val? with
    | none =>
      have := force_det hf (force_bind_exn (k := .proj p c) (force_fold_ini_exn (kind := .foreachP) (upd := upd) (ctx := c)
        (cells := []) (src := .run xs c v) (ended := false) h1 hx) hx)
      subst this
      exact ⟨.once x, w4, mkR_fold hxs hst hmk (mkFoldInitR_exn hu hn hx), .nil, nextR_once _ _,
        SyncG.dead (dead_bind _ (dead_foldEmpty hdead))⟩
    | some i =>
      have hxi : x = .ok i := by cases x <;> simp [Item.val?] at hx; subst hx; rfl
      subst hxi
      exact ⟨_, w4, mkR_fold hxs hst hmk (mkFoldInitR_ok hu hn hx),
        hA _ _ _ _ _ (Rel.flatInit (KRel.refl _) (Rel.foldFast hsrc ⟨_, h1⟩ hdead)) hpb hf⟩

theorem stepB (hD : DPure D) {n : Nat} (hA : A D n) (hB : B D n) : B D (n + 1) := by
  intro t c v w r hp hc hf
  rw [force_succ] at hf
  cases t with
  | id =>
    simp only [forceStep, Option.some.injEq] at hf; subst hf
    exact ⟨_, w, mkR_leaf rfl, .nil, nextR_once _ _, SyncG.nil⟩
  | lit x =>
    simp only [forceStep, Option.some.injEq] at hf; subst hf
    exact ⟨_, w, mkR_leaf rfl, .nil, nextR_once _ _, SyncG.nil⟩
  | error =>
    simp only [forceStep, Option.some.injEq] at hf; subst hf
    exact ⟨_, w, mkR_leaf rfl, .nil, nextR_once _ _, SyncG.nil⟩
  | halt x =>
    simp only [forceStep, Option.some.injEq] at hf; subst hf
    exact ⟨_, w, mkR_leaf rfl, .nil, nextR_once _ _, SyncG.nil⟩
  | ret x =>
    simp only [forceStep, Option.some.injEq] at hf; subst hf
    exact ⟨_, w, mkR_leaf rfl, .nil, nextR_once _ _, SyncG.nil⟩
  | idxOf y =>
    simp only [forceStep, Option.some.injEq] at hf; subst hf
    exact ⟨_, w, mkR_leaf rfl, .nil, nextR_once _ _, SyncG.nil⟩
  | empty =>
    simp only [forceStep, Option.some.injEq] at hf; subst hf
    exact ⟨_, w, mkR_leaf rfl, .nil, nextR_nil _⟩
  | var i =>
    simp only [forceStep] at hf
    cases hl : lookup c i with
    | none =>
      simp only [hl, Option.some.injEq] at hf; subst hf
      exact ⟨.nil, w, mkR_leaf (by simp only [mkStep, hl]), .nil, nextR_nil _⟩
    | some x =>
      simp only [hl, Option.some.injEq] at hf; subst hf
      exact ⟨.once x, w, mkR_leaf (by simp only [mkStep, hl]), .nil, nextR_once _ _, SyncG.nil⟩
  | input =>
    simp only [forceStep] at hf
    cases hl : w.read with
    | none =>
      simp only [hl, Option.some.injEq] at hf; subst hf
      exact ⟨.nil, w, mkR_leaf (by simp only [mkStep, hl]), .nil, nextR_nil _⟩
    | some p =>
      obtain ⟨x, w1⟩ := p
      simp only [hl, Option.some.injEq] at hf; subst hf
      exact ⟨.once (.ok x), w1, mkR_leaf (by simp only [mkStep, hl]), .nil, nextR_once _ _, SyncG.nil⟩
  | inputs =>
    simp only [forceStep] at hf
    exact ⟨.inputs, w, mkR_leaf rfl, hA _ _ _ _ _ (Rel.sync w SyncG.inputs) rfl hf⟩
  | range a b s =>
    simp only [forceStep] at hf
    exact ⟨_, w, mkR_leaf rfl, hA _ _ _ _ _ (Rel.sync w (SyncG.range a b s)) rfl hf⟩
  | comma l r' =>
    simp only [forceStep] at hf
    simp only [T.pureIdx, Bool.and_eq_true] at hp
    obtain ⟨r1, h1⟩ := force_app_head hf
    obtain ⟨a, w1, hmk, _⟩ := hB _ _ _ _ _ hp.1 hc h1
    exact ⟨_, w1, mkR_comma r' hmk, hA _ _ _ _ _ (Rel.chain (Rel.mk hmk)) (by simp [Th.pureIdx, hp.1, hp.2, hc]) hf⟩
  | pipe l r' =>
    simp only [forceStep] at hf
    simp only [T.pureIdx, Bool.and_eq_true] at hp
    obtain ⟨a, w1, it, w', hmk, hfl, hm⟩ := flatB hD hA hB (KRel.refl (.pipe r' c)) hp.1 hc (by simp [K.pureIdx, hp.2, hc]) hf
    exact ⟨it, w', mkR_pipe r' hmk hfl, hm⟩
  | as_ l r' =>
    simp only [forceStep] at hf
    simp only [T.pureIdx, Bool.and_eq_true] at hp
    obtain ⟨a, w1, it, w', hmk, hfl, hm⟩ := flatB hD hA hB (KRel.refl (.as_ r' c v)) hp.1 hc (by simp [K.pureIdx, hp.2, hc]) hf
    exact ⟨it, w', mkR_as r' hmk hfl, hm⟩
  | ite l t e =>
    simp only [forceStep] at hf
    simp only [T.pureIdx, Bool.and_eq_true] at hp
    obtain ⟨a, w1, it, w', hmk, hfl, hm⟩ := flatB hD hA hB (KRel.refl (.ite t e c v)) hp.1.1 hc
      (by simp [K.pureIdx, hp.1.2, hp.2, hc]) hf
    exact ⟨it, w', mkR_ite t e hmk hfl, hm⟩
  | logic stop l r' =>
    simp only [forceStep] at hf
    simp only [T.pureIdx, Bool.and_eq_true] at hp
    obtain ⟨a, w1, it, w', hmk, hfl, hm⟩ := flatB hD hA hB (KRel.refl (.logic stop r' c v)) hp.1 hc
      (by simp [K.pureIdx, hp.2, hc]) hf
    exact ⟨it, w', mkR_logic stop r' hmk hfl, hm⟩
  | index f i =>
    simp only [forceStep] at hf
    simp only [T.pureIdx, Bool.and_eq_true] at hp
    cases hv : simpleVal i c v with
    | none =>
      obtain ⟨a, w1, it, w', hmk, hfl, hm⟩ := flatB hD hA hB (KRel.refl (.idxR i c v)) hp.1 hc
        (by simp [K.pureIdx, hp.2, hc]) hf
      exact ⟨it, w', mkR_index_simple hp.2 hmk (by rw [hv]; exact hfl), hm⟩
    | some x =>
      obtain ⟨a, w1, it, w', hmk, hfl, hm⟩ := flatB hD hA hB (KRel.idx hp.2 hv) hp.1 hc
        (by simp [K.pureIdx, hp.2, hc]) hf
      exact ⟨it, w', mkR_index_simple hp.2 hmk (by rw [hv]; exact hfl), hm⟩
  | alt l r' =>
    simp only [forceStep] at hf
    simp only [T.pureIdx, Bool.and_eq_true] at hp
    cases n with
    | zero => simp [force] at hf
    | succ n' =>
      rw [force_succ] at hf
      simp only [forceStep] at hf
      cases h1' : force D n' (.wrapC .filt (.run l c v)) w with
      | none => simp [h1'] at hf
      | some p =>
        obtain ⟨s1, w1s⟩ := p
        obtain ⟨a, w1, hmk, hm⟩ := wrapB hD hA hB (s := .filt) rfl hp.1 hc rfl (force_mono D _ _ _ _ h1')
        rw [h1'] at hf
        cases s1 with
        | done =>
          simp only at hf
          obtain ⟨a2, hn⟩ := hm
          obtain ⟨b, w2, hmkr, hmb⟩ := hB _ _ _ _ _ hp.2 hc (force_mono D _ _ _ _ hf)
          exact ⟨b, w2, mkR_alt_none hmk hn hmkr, hmb⟩
        | yield x th' =>
          simp only [Option.some.injEq] at hf; subst hf
          obtain ⟨rest, hn, hs⟩ := hm
          exact ⟨.cons x rest, w1s, mkR_alt_some r' hmk hn, rest, nextR_cons x rest w1s, hs⟩
  | first f =>
    simp only [forceStep] at hf
    simp only [T.pureIdx] at hp
    cases n with
    | zero => simp [force] at hf
    | succ n' =>
      rw [force_succ] at hf
      simp only [forceStep] at hf
      cases h1' : force D n' (.run f c v) w with
      | none => simp [h1'] at hf
      | some p =>
        obtain ⟨s1, w1s⟩ := p
        obtain ⟨a, w1, hmk, hma⟩ := hB _ _ _ _ _ hp hc (force_mono D _ _ _ _ h1')
        rw [h1'] at hf
        cases s1 with
        | done =>
          simp only [Option.some.injEq] at hf; subst hf
          obtain ⟨a2, hn⟩ := hma
          exact ⟨.nil, w1s, mkR_first_none hmk hn, .nil, nextR_nil _⟩
        | yield x th' =>
          simp only [Option.some.injEq] at hf; subst hf
          obtain ⟨a2, hn, _⟩ := hma
          exact ⟨.once x, w1s, mkR_first_some hmk hn, .nil, nextR_once _ _, SyncG.nil⟩
  | limit k f =>
    simp only [T.pureIdx] at hp
    cases k with
    | zero =>
      simp only [forceStep, Option.some.injEq] at hf; subst hf
      exact ⟨_, w, mkR_leaf rfl, .nil, nextR_nil _⟩
    | succ k =>
      simp only [forceStep] at hf
      obtain ⟨a, w1, hmk, hm⟩ := wrapB hD hA hB (s := .limit (k + 1)) rfl hp hc rfl hf
      exact ⟨_, w1, mkR_limit k hmk, hm⟩
  | skip k f =>
    simp only [T.pureIdx] at hp
    cases k with
    | zero =>
      simp only [forceStep] at hf
      obtain ⟨it, w', hmk, hm⟩ := hB _ _ _ _ _ hp hc hf
      exact ⟨it, w', mkR_skip0 hmk, hm⟩
    | succ k =>
      simp only [forceStep] at hf
      obtain ⟨a, w1, hmk, hm⟩ := wrapB hD hA hB (s := .skip (k + 1)) rfl hp hc rfl hf
      exact ⟨_, w1, mkR_skip k hmk, hm⟩
  | tryCatch f g =>
    simp only [forceStep] at hf
    simp only [T.pureIdx, Bool.and_eq_true] at hp
    obtain ⟨a, w1, hmk, hm⟩ := wrapB hD hA hB (s := .try_ g c) rfl hp.1 hc (by simp [Wr.pureIdx, hp.2, hc]) hf
    exact ⟨_, w1, mkR_try g hmk, hm⟩
  | label f =>
    simp only [forceStep] at hf
    simp only [T.pureIdx] at hp
    obtain ⟨a, w1, hmk, hm⟩ := wrapB hD hA hB (s := .label (c.labels + 1)) rfl hp (by simpa using hc) rfl hf
    exact ⟨_, w1, mkR_label hmk, hm⟩
  | toBool f =>
    simp only [forceStep] at hf
    simp only [T.pureIdx] at hp
    obtain ⟨a, w1, hmk, hm⟩ := wrapB hD hA hB (s := .toBool) rfl hp hc rfl hf
    exact ⟨_, w1, mkR_toBool hmk, hm⟩
  | call i =>
    simp only [forceStep] at hf
    cases hb : D[i]? with
    | none =>
      simp only [hb, Option.some.injEq] at hf; subst hf
      exact ⟨.nil, w, mkR_call_none hb, .nil, nextR_nil _⟩
    | some body =>
      simp only [hb] at hf
      obtain ⟨a, w1, hmk, hm⟩ := wrapB hD hA hB (s := .stack) rfl (hD _ _ hb) (by simp) rfl hf
      exact ⟨_, w1, mkR_call hb hmk, hm⟩
  | tcall i =>
    simp only [forceStep] at hf
    exact ⟨_, w, mkR_tcall i c v w, hA _ _ _ _ _ (Rel.sync w (SyncG.chain SyncG.nil)) (by simp [Th.pureIdx, T.pureIdx, hc]) hf⟩
  | fvar i =>
    simp only [forceStep] at hf
    cases hl : lookupFn c i with
    | none =>
      simp only [hl, Option.some.injEq] at hf; subst hf
      exact ⟨.nil, w, mkR_fvar_none hl, .nil, nextR_nil _⟩
    | some p =>
      obtain ⟨t, env⟩ := p
      simp only [hl] at hf
      have hpe := lookupFn_pure hc hl
      obtain ⟨it, w', hmk, hm⟩ := hB _ _ _ _ _ hpe.1 (by simpa using hpe.2) hf
      exact ⟨it, w', mkR_fvar hl hmk, hm⟩
  | callA ty i skip args =>
    simp only [T.pureIdx] at hp
    simp only [forceStep] at hf
    cases hcc : callCtx c skip args v with
    | none =>
      simp only [hcc, Option.some.injEq] at hf; subst hf
      exact ⟨.nil, w, mkR_callA_noctx hcc, .nil, nextR_nil _⟩
    | some c' =>
      have hcp := callCtx_pure hc hp hcc
      simp only [hcc] at hf
      cases hb : D[i]? with
      | none =>
        simp only [hb, Option.some.injEq] at hf; subst hf
        exact ⟨.nil, w, mkR_callA_nodef hcc hb, .nil, nextR_nil _⟩
      | some body =>
        simp only [hb] at hf
        cases ty with
        | inline =>
          simp only at hf
          obtain ⟨it, w', hmk, hm⟩ := hB _ _ _ _ _ (hD _ _ hb) hcp hf
          exact ⟨it, w', mkR_callA_inline hcc hb hmk, hm⟩
        | catch_ =>
          simp only at hf
          obtain ⟨a, w1, hmk, hm⟩ := wrapB hD hA hB (s := .stack) rfl (hD _ _ hb) hcp rfl hf
          exact ⟨_, w1, mkR_callA_catch hcc hb hmk, hm⟩
  | tcallA i skip args =>
    simp only [T.pureIdx] at hp
    simp only [forceStep] at hf
    cases hcc : callCtx c skip args v with
    | none =>
      simp only [hcc, Option.some.injEq] at hf; subst hf
      exact ⟨.nil, w, mkR_tcallA_noctx hcc, .nil, nextR_nil _⟩
    | some c' =>
      have hcp := callCtx_pure hc hp hcc
      simp only [hcc] at hf
      exact ⟨_, w, mkR_tcallA hcc, hA _ _ _ _ _ (Rel.sync w (SyncG.chain SyncG.nil))
        (by simp [Th.pureIdx, T.pureIdx, T.pureArgs, hcp]) hf⟩
  | arr f =>
    simp only [forceStep] at hf
    simp only [T.pureIdx] at hp
    cases n with
    | zero => simp [force] at hf
    | succ n' =>
      rw [force_succ] at hf
      simp only [forceStep] at hf
      cases h1' : force D n' (.wrapC (.collect []) (.run f c v)) w with
      | none => simp [h1'] at hf
      | some p =>
        obtain ⟨s1, w1s⟩ := p
        obtain ⟨a, w1, hmk, hm⟩ := wrapB hD hA hB (s := .collect []) rfl hp hc rfl (force_mono D _ _ _ _ h1')
        rw [h1'] at hf
        cases s1 with
        | done =>
          simp only [Option.some.injEq] at hf; subst hf
          obtain ⟨a2, hn⟩ := hm
          exact ⟨.nil, w1s, mkR_arr_none hmk hn, .nil, nextR_nil _⟩
        | yield x th' =>
          simp only [Option.some.injEq] at hf; subst hf
          obtain ⟨rest, hn, _⟩ := hm
          exact ⟨.once x, w1s, mkR_arr_some hmk hn, .nil, nextR_once _ _, SyncG.nil⟩
  | math op l r' =>
    simp only [forceStep] at hf
    simp only [T.pureIdx, Bool.and_eq_true] at hp
    obtain ⟨a, w1, it, w', hmk, hfl, hm⟩ := flatB hD hA hB (KRel.refl (.math op r' c v)) hp.1 hc
      (by simp [K.pureIdx, hp.2, hc]) hf
    exact ⟨it, w', mkR_math op r' hmk hfl, hm⟩
  | mathR op y r' =>
    simp only [forceStep] at hf
    simp only [T.pureIdx] at hp
    obtain ⟨b, w1, it, w', hmk, hfl, hm⟩ := mathRB hD hA hB hp hc hf
    exact ⟨it, w', mkR_mathR hmk hfl, hm⟩
  | fold kind xs init upd p =>
    simp only [T.pureIdx, Bool.and_eq_true] at hp
    obtain ⟨⟨⟨⟨hxl, hpx⟩, hpi⟩, hpu⟩, hpp⟩ := hp
    simp only [forceStep] at hf
    cases kind with
    | foreachP => exact foldB_proj hD hA hB hxl hpx hpi hpu hpp hc hf
    | reduce => exact foldB_plain hD hA hB (by simp) hxl hpx hpi hpu hc hf
    | foreach => exact foldB_plain hD hA hB (by simp) hxl hpx hpi hpu hc hf


theorem stepA (hD : DPure D) {n : Nat} (hA : A D n) (hB : B D n) (hB' : B D (n + 1)) : A D (n + 1) := by
  intro it wi th ws r hrel hp hf
  cases hrel with
  | sync w hs =>
    cases hs with
    | nil =>
      rw [force_succ] at hf
      simp only [forceStep, Option.some.injEq] at hf; subst hf
      exact ⟨.nil, nextR_nil _⟩
    | once x =>
      rw [force_succ] at hf
      simp only [forceStep, Option.some.injEq] at hf; subst hf
      exact ⟨.nil, nextR_once _ _, SyncG.nil⟩
    | inputs =>
      rw [force_succ] at hf
      simp only [forceStep] at hf
      cases hl : wi.read with
      | none =>
        simp only [hl, Option.some.injEq] at hf; subst hf
        exact ⟨.inputs, 1, by rw [next_succ]; simp only [nextStep, hl]⟩
      | some p =>
        obtain ⟨x, w1⟩ := p
        simp only [hl, Option.some.injEq] at hf; subst hf
        exact ⟨.inputs, ⟨1, by rw [next_succ]; simp only [nextStep, hl]⟩, SyncG.inputs⟩
    | range cur to by_ =>
      rw [force_succ] at hf
      simp only [forceStep] at hf
      by_cases hg : rangeGo cur to by_ = true
      · simp only [hg, if_true, Option.some.injEq] at hf; subst hf
        exact ⟨_, ⟨1, by rw [next_succ]; simp only [nextStep, hg, if_true]⟩, SyncG.range _ _ _⟩
      · simp only [hg, Option.some.injEq] at hf
        simp only [Bool.false_eq_true, if_false, Option.some.injEq] at hf; subst hf
        exact ⟨_, 1, by rw [next_succ]; simp only [nextStep, hg]; rfl⟩
    | chain hs' => exact chainCase hA hB (Rel.sync _ hs') hp hf
    | flat hk hsrc hcur => exact flatRunCase hA hk hsrc (Rel.sync _ hcur) hp hf
    | flat0 hk hsrc => exact flatInitCase hD hA hB hk (Rel.sync _ hsrc) hp hf
    | wrap s hs' =>
      by_cases hr : s.ready = true
      · exact wrapCase hD hA hB hr (Rel.sync _ hs') hp hf
      · rw [force_succ] at hf
        simp only [forceStep, hr] at hf
        simp only [Bool.false_eq_true, if_false, Option.some.injEq] at hf; subst hf
        exact ⟨_, nextR_wrap_notready _ _ (by simpa using hr)⟩
    | appDead hs' hd => exact appDeadCase hA (Rel.sync _ hs') hd hp hf
    | dead hd =>
      obtain ⟨k, hk⟩ := hd wi
      have := force_det hf hk
      subst this
      exact ⟨.nil, nextR_nil _⟩
    | fold hsrc hini hstk =>
      obtain ⟨hFP, hps⟩ := FoldPure.of hp
      cases hstk with
      | sNil => exact foldEmptyCase hD hA hsrc (Rel.sync _ hini) hFP hf
      | sInp hrest => exact foldInpCase hD hA hB hsrc hini hrest hFP (by simpa [Th.pureIdx] using hps) hf
      | sOut hys hrest =>
        simp only [Th.pureIdx, Bool.and_eq_true] at hps
        exact foldOutCase hD hA hsrc hini (Rel.sync _ hys) hrest hFP hps.1 hps.2 hf
      | sDrop hd hrest =>
        simp only [Th.pureIdx, Bool.and_eq_true] at hps
        exact foldDropCase hA hsrc hini hrest hFP hps.2 hd hf
  | mk hmk =>
    obtain ⟨it2, w2, hmk2, hm⟩ := hB'.run hp hf
    have := MkR.det hmk hmk2
    simp only [Prod.mk.injEq] at this
    obtain ⟨rfl, rfl⟩ := this
    exact hm
  | chain hrel' => exact chainCase hA hB hrel' hp hf
  | flatInit hk hrel' => exact flatInitCase hD hA hB hk hrel' hp hf
  | flatRun hk hsrc hcur => exact flatRunCase hA hk hsrc hcur hp hf
  | wrap hs hrel' => exact wrapCase hD hA hB hs hrel' hp hf
  | appDead hrel' hd => exact appDeadCase hA hrel' hd hp hf
  | idxS y w hi hv => exact idxSCase hi hv hf
  | foldIni hsrc hrel' =>
    obtain ⟨hFP, _⟩ := FoldPure.of hp
    exact foldEmptyCase hD hA hsrc hrel' hFP hf
  | foldFast hsrc hini hd =>
    obtain ⟨hFP, _⟩ := FoldPure.of hp
    exact foldFastCase hD hA hsrc hini hd hFP hf
  | foldTop hsrc hini hys hrest =>
    obtain ⟨hFP, hps⟩ := FoldPure.of hp
    simp only [Th.pureIdx, Bool.and_eq_true] at hps
    exact foldOutCase hD hA hsrc hini hys hrest hFP hps.1 hps.2 hf

theorem simAB (hD : DPure D) : ∀ n, A D n ∧ B D n := by
  intro n
  induction n with
  | zero =>
    exact ⟨fun it wi th ws r _ _ h => by simp [force] at h, fun t c v w r _ _ h => by simp [force] at h⟩
  | succ n ih =>
    have hB' := stepB hD ih.1 ih.2
    exact ⟨stepA hD ih.1 ih.2 hB', hB'⟩

/-- in-step states stay in step for any number of pulls -/
theorem take_sync (hD : DPure D) : ∀ {k th w xs w'}, TakeS D k th w xs w' → ∀ {it}, Sync D it th → th.pureIdx = true →
    TakeI D k it w xs w' := by
  intro k th w xs w' h
  induction h with
  | zero => intro it _ _; exact .zero
  | done hf =>
    intro it hs hp
    obtain ⟨it', m, hn⟩ := (simAB hD _).1 _ _ _ _ _ (Rel.sync _ hs) hp hf
    exact .done hn
  | yield hf _ ih =>
    intro it hs hp
    obtain ⟨it', ⟨m, hn⟩, hs'⟩ := (simAB hD _).1 _ _ _ _ _ (Rel.sync _ hs) hp hf
    exact .yield hn (ih hs' (force_pure hD _ _ _ _ _ _ hp hf))

/-- the main simulation: whatever the reference consumer of `k + 1` items obtains, the iterator
model delivers, after construction, with the same final world -/
theorem take_prefix_core (hD : DPure D) {t c v w k xs w'} (hp : t.pureIdx = true) (hc : c.pure = true)
    (h : TakeS D (k + 1) (.run t c v) w xs w') :
    ∃ m it w0, mk D m t c v w = some (it, w0) ∧ TakeI D (k + 1) it w0 xs w' := by
  cases h with
  | done hf =>
    obtain ⟨it, w0, ⟨m, hmk⟩, it', m2, hn⟩ := (simAB hD _).2 _ _ _ _ _ hp hc hf
    exact ⟨m, it, w0, hmk, .done hn⟩
  | yield hf hrest =>
    obtain ⟨it, w0, ⟨m, hmk⟩, it', ⟨m2, hn⟩, hs⟩ := (simAB hD _).2 _ _ _ _ _ hp hc hf
    exact ⟨m, it, w0, hmk, .yield hn (take_sync hD hrest hs (force_pure hD _ (.run t c v) _ _ _ _ (run_pure hp hc) hf))⟩

end Jaq.C03
