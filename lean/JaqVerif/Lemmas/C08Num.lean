/-
  C08 helper lemmas, part 3: numbers.  `float_cmp` is the comparison of an integer key of the
  bit pattern; the conversion `i as f64` is exact and strictly monotone on ±2^53 (from the
  definition of `F64.roundRat` in pure integer arithmetic); hence `numCmp` is a total preorder
  in both modes of the property's domain, `==` agrees with it, and equal numbers hash alike.
-/
import JaqVerif.Lemmas.C08Order

namespace Jaq.C08
open Jaq

/-- integer key of a non-NaN float: both zeros map to 0, otherwise `total_cmp`'s key -/
def fkey (b : UInt64) : Int := if F64.isZero b then 0 else F64.totalKey b

theorem compare_congr_int {a b c d : Int} (h1 : a < b ↔ c < d) (h2 : b < a ↔ d < c) :
    compare a b = compare c d := by
  rcases Int.lt_trichotomy a b with h | h | h
  · rw [Int.compare_eq_lt.2 h, Int.compare_eq_lt.2 (h1.1 h)]
  · have : c = d := by omega
    subst h; subst this; simp
  · rw [Int.compare_eq_gt.2 h, Int.compare_eq_gt.2 (h2.1 h)]

theorem F64.cmp_eq_compare_fkey (l r : UInt64) (hl : F64.isNaN l = false) (hr : F64.isNaN r = false) :
    F64.cmp l r = compare (fkey l) (fkey r) := by
  have h1 := l.toNat_lt
  have h2 := r.toNat_lt
  unfold F64.cmp fkey
  simp only [hl, hr]
  by_cases zl : F64.isZero l = true <;> by_cases zr : F64.isZero r = true
  · simp [zl, zr]
  · simp only [zl, zr]
    simp only [F64.isZero, beq_iff_eq] at zl zr
    simp only [F64.totalKey, F64.signBit]
    simp only [Bool.and_false, if_false, Bool.false_eq_true, Bool.false_and, Bool.true_and]
    apply compare_congr_int <;> (repeat' split) <;> simp only [decide_eq_true_eq, Int.ofNat_eq_natCast] at * <;> omega
  · simp only [zl, zr]
    simp only [F64.isZero, beq_iff_eq] at zl zr
    simp only [F64.totalKey, F64.signBit]
    simp only [Bool.and_false, if_false, Bool.false_eq_true, Bool.false_and, Bool.true_and]
    apply compare_congr_int <;> (repeat' split) <;> simp only [decide_eq_true_eq, Int.ofNat_eq_natCast] at * <;> omega
  · simp [zl, zr]
/-- the bits of a positive integer below 2^53, converted exactly -/
theorem roundRat_small (neg : Bool) (n : Nat) (h1 : 1 ≤ n) (h2 : n < 2 ^ 53) :
    ∃ L q : Nat, L ≤ 52 ∧ 2 ^ L ≤ n ∧ n < 2 ^ (L + 1) ∧ q = n * 2 ^ (52 - L) ∧ 2 ^ 52 ≤ q ∧ q < 2 ^ 53 ∧
      F64.roundRat neg n 1 = UInt64.ofNat ((L + 1022) * 2 ^ 52 + q + (if neg then 2 ^ 63 else 0)) := by
  have hn : n ≠ 0 := by omega
  have hL : n.log2 < 53 := (Nat.log2_lt hn).2 h2
  have hlo : 2 ^ n.log2 ≤ n := Nat.log2_self_le hn
  have hhi : n < 2 ^ (n.log2 + 1) := Nat.lt_log2_self
  refine ⟨n.log2, n * 2 ^ (52 - n.log2), by omega, hlo, hhi, rfl, ?_, ?_, ?_⟩
  · calc 2 ^ 52 = 2 ^ n.log2 * 2 ^ (52 - n.log2) := by rw [← Nat.pow_add]; congr 1; omega
      _ ≤ n * 2 ^ (52 - n.log2) := Nat.mul_le_mul_right _ hlo
  · calc n * 2 ^ (52 - n.log2) < 2 ^ (n.log2 + 1) * 2 ^ (52 - n.log2) :=
          Nat.mul_lt_mul_of_pos_right hhi (Nat.pow_pos (by decide))
      _ = 2 ^ 53 := by rw [← Nat.pow_add]; congr 1; omega
  · generalize hLdef : n.log2 = L at *
    have hq : 2 ^ 52 ≤ n * 2 ^ (52 - L) := by
      calc 2 ^ 52 = 2 ^ L * 2 ^ (52 - L) := by rw [← Nat.pow_add]; congr 1; omega
        _ ≤ n * 2 ^ (52 - L) := Nat.mul_le_mul_right _ hlo
    have hq2 : n * 2 ^ (52 - L) < 2 ^ 53 := by
      calc n * 2 ^ (52 - L) < 2 ^ (L + 1) * 2 ^ (52 - L) :=
            Nat.mul_lt_mul_of_pos_right hhi (Nat.pow_pos (by decide))
        _ = 2 ^ 53 := by rw [← Nat.pow_add]; congr 1; omega
    unfold F64.roundRat
    have hd : (1 : Nat).log2 = 0 := by decide
    have e0 : (n == 0 || (1:Nat) == 0) = false := by simp [hn]
    simp only [e0, hLdef, hd]
    have a1 : Int.ofNat L - Int.ofNat 0 = (L : Int) := by simp
    have a2 : ((L : Int) ≥ 0) = True := by simp
    have a3 : (L : Int).toNat = L := by simp
    have a4 : decide (n ≥ 1 * 2 ^ L) = true := by simp; omega
    have a5 : ((L : Int) - 52 < -1074) = False := by simp; omega
    simp only [a1, a2, a3, a4, a5, if_true, if_false, Bool.false_eq_true]
    have c1 : ∀ q : Nat, (decide (2 * 0 > 1) || 2 * 0 == 1 && q % 2 == 1) = false := by intro q; simp
    have fin : ∀ q : Nat, q < 2 ^ 53 → (((L + 1022) * 2 ^ 52 + q ≥ 2047 * 2 ^ 52) = False) := by
      intro q hq; simp; omega
    by_cases hL52 : L = 52
    · have b1 : ((L : Int) - 52 ≥ 0) = True := by simp; omega
      have b2 : ((L : Int) - 52).toNat = 0 := by omega
      have b3 : ((L : Int) - 52 + 1074).toNat = L + 1022 := by omega
      have b4 : n * 2 ^ (52 - L) = n := by simp [hL52]
      simp only [b1, b2, b3, if_true, Nat.pow_zero, Nat.mul_one, Nat.div_one, Nat.mod_one, c1,
        Bool.false_eq_true, if_false, fin n h2, b4]
    · have b1 : ((L : Int) - 52 ≥ 0) = False := by simp; omega
      have b2 : (-((L : Int) - 52)).toNat = 52 - L := by omega
      have b3 : ((L : Int) - 52 + 1074).toNat = L + 1022 := by omega
      simp only [b1, b2, b3, if_false, Nat.div_one, Nat.mod_one, c1, Bool.false_eq_true,
        fin _ hq2]


/-- the bit pattern of a positive integer `n < 2^53` as a float -/
def pk (n : Nat) : Nat := (n.log2 + 1022) * 2 ^ 52 + n * 2 ^ (52 - n.log2)

theorem roundRat_small_pk (neg : Bool) (n : Nat) (h1 : 1 ≤ n) (h2 : n < 2 ^ 53) :
    F64.roundRat neg n 1 = UInt64.ofNat (pk n + (if neg then 2 ^ 63 else 0)) ∧
      1023 * 2 ^ 52 ≤ pk n ∧ pk n < 1076 * 2 ^ 52 := by
  obtain ⟨L, q, hL, hlo, hhi, hq, hq1, hq2, hr⟩ := roundRat_small neg n h1 h2
  have hn : n ≠ 0 := by omega
  have e : n.log2 = L := by
    have a : n.log2 < L + 1 := (Nat.log2_lt hn).2 hhi
    have b : ¬ n.log2 < L := by
      intro hlt
      have := (Nat.log2_lt hn).1 hlt
      omega
    omega
  have hp : pk n = (L + 1022) * 2 ^ 52 + q := by unfold pk; rw [e, hq]
  rw [hp]
  exact ⟨hr, by omega, by omega⟩

theorem pk_mono {n m : Nat} (h1 : 1 ≤ n) (h : n < m) (h2 : m < 2 ^ 53) : pk n < pk m := by
  have hn : n ≠ 0 := by omega
  have hm : m ≠ 0 := by omega
  have hle : n.log2 ≤ m.log2 := by
    have : n.log2 < m.log2 + 1 := (Nat.log2_lt hn).2 (Nat.lt_trans h Nat.lt_log2_self)
    omega
  have hLn : n.log2 < 53 := (Nat.log2_lt hn).2 (by omega)
  have hLm : m.log2 < 53 := (Nat.log2_lt hm).2 h2
  have qn2 : n * 2 ^ (52 - n.log2) < 2 ^ 53 := by
    calc n * 2 ^ (52 - n.log2) < 2 ^ (n.log2 + 1) * 2 ^ (52 - n.log2) :=
          Nat.mul_lt_mul_of_pos_right Nat.lt_log2_self (Nat.pow_pos (by decide))
      _ = 2 ^ 53 := by rw [← Nat.pow_add]; congr 1; omega
  have qm1 : 2 ^ 52 ≤ m * 2 ^ (52 - m.log2) := by
    calc 2 ^ 52 = 2 ^ m.log2 * 2 ^ (52 - m.log2) := by rw [← Nat.pow_add]; congr 1; omega
      _ ≤ m * 2 ^ (52 - m.log2) := Nat.mul_le_mul_right _ (Nat.log2_self_le hm)
  unfold pk
  by_cases he : n.log2 = m.log2
  · rw [he]
    have := Nat.mul_lt_mul_of_pos_right h (Nat.pow_pos (n := 52 - m.log2) (by decide : 0 < 2))
    omega
  · have : n.log2 + 1 ≤ m.log2 := by omega
    generalize n * 2 ^ (52 - n.log2) = qn at *
    generalize m * 2 ^ (52 - m.log2) = qm at *
    generalize n.log2 = a at *
    generalize m.log2 = b at *
    omega

/-- the key of `i as f64` for `|i| ≤ 2^53`, written out -/
def ik (x : Int) : Int :=
  if x = 0 then 0
  else
    let k : Int := if x.natAbs = 2 ^ 53 then 1076 * 2 ^ 52 else (pk x.natAbs : Nat)
    if x > 0 then k else -k - 1

theorem fkey_pos (b : UInt64) (k : Nat) (hb : b = UInt64.ofNat k) (h1 : 0 < k) (h2 : k < 2 ^ 63) :
    fkey b = k ∧ (k / 2 ^ 52 % 2048 ≠ 2047 → F64.isNaN b = false) := by
  have ht : b.toNat = k := by rw [hb]; exact UInt64.toNat_ofNat_of_lt' (by simp [UInt64.size]; omega)
  refine ⟨?_, ?_⟩
  · unfold fkey F64.isZero F64.totalKey F64.signBit
    rw [ht]
    have : ¬ (k % 2 ^ 63 = 0) := by omega
    simp [this]; omega
  · intro hne
    unfold F64.isNaN F64.expField F64.fracField
    rw [ht]; simp [hne]

theorem fkey_neg (b : UInt64) (k : Nat) (hb : b = UInt64.ofNat (k + 2 ^ 63)) (h1 : 0 < k) (h2 : k < 2 ^ 63) :
    fkey b = -(k : Int) - 1 ∧ (k / 2 ^ 52 % 2048 ≠ 2047 → F64.isNaN b = false) := by
  have ht : b.toNat = k + 2 ^ 63 := by rw [hb]; exact UInt64.toNat_ofNat_of_lt' (by simp [UInt64.size]; omega)
  refine ⟨?_, ?_⟩
  · unfold fkey F64.isZero F64.totalKey F64.signBit
    rw [ht]
    have : ¬ ((k + 2 ^ 63) % 2 ^ 63 = 0) := by omega
    simp [this]; omega
  · intro hne
    unfold F64.isNaN F64.expField F64.fracField
    rw [ht]
    have e1 : (k + 2 ^ 63) / 2 ^ 52 % 2048 = k / 2 ^ 52 % 2048 := by omega
    have e2 : (k + 2 ^ 63) % 2 ^ 52 = k % 2 ^ 52 := by omega
    rw [e1, e2]; simp [hne]

/-- **`i as f64` on `|i| ≤ 2^53`**: never NaN, key `ik i` -/
theorem ofInt_small (x : Int) (hx : x.natAbs ≤ 2 ^ 53) :
    fkey (F64.ofInt x) = ik x ∧ F64.isNaN (F64.ofInt x) = false := by
  by_cases h0 : x = 0
  · subst h0; exact ⟨by decide, by decide⟩
  by_cases hb : x.natAbs = 2 ^ 53
  · have : x = 2 ^ 53 ∨ x = -(2 ^ 53) := by omega
    rcases this with rfl | rfl
    · exact ⟨by decide, by decide⟩
    · exact ⟨by decide, by decide⟩
  have hlt : x.natAbs < 2 ^ 53 := by omega
  have hge : 1 ≤ x.natAbs := by omega
  by_cases hpos : x > 0
  · obtain ⟨hr, p1, p2⟩ := roundRat_small_pk false x.natAbs hge hlt
    have hof : F64.ofInt x = UInt64.ofNat (pk x.natAbs) := by
      unfold F64.ofInt; rw [if_neg (by omega), hr]; simp
    obtain ⟨k1, k2⟩ := fkey_pos _ _ hof (by omega) (by omega)
    refine ⟨?_, ?_⟩
    · rw [k1]; unfold ik; simp [h0, hb, hpos]
    · exact k2 (by omega)
  · obtain ⟨hr, p1, p2⟩ := roundRat_small_pk true x.natAbs hge hlt
    have hof : F64.ofInt x = UInt64.ofNat (pk x.natAbs + 2 ^ 63) := by
      unfold F64.ofInt; rw [if_pos (by omega), hr]; simp
    obtain ⟨k1, k2⟩ := fkey_neg _ _ hof (by omega) (by omega)
    refine ⟨?_, ?_⟩
    · rw [k1]; unfold ik; simp [h0, hb, hpos]
    · exact k2 (by omega)

/-- the key of the conversion is strictly monotone on `±2^53`: the conversion is exact there -/
theorem ik_strictMono {x y : Int} (hx : x.natAbs ≤ 2 ^ 53) (hy : y.natAbs ≤ 2 ^ 53) (h : x < y) :
    ik x < ik y := by
  -- the positive branch as a function on naturals
  have kb : ∀ n : Nat, 1 ≤ n → n ≤ 2 ^ 53 →
      1023 * 2 ^ 52 ≤ (if n = 2 ^ 53 then (1076 * 2 ^ 52 : Int) else (pk n : Nat)) := by
    intro n h1 h2
    split
    · omega
    · have := (roundRat_small_pk false n h1 (by omega)).2.1; omega
  have km : ∀ n m : Nat, 1 ≤ n → n < m → m ≤ 2 ^ 53 →
      (if n = 2 ^ 53 then (1076 * 2 ^ 52 : Int) else (pk n : Nat)) <
        (if m = 2 ^ 53 then (1076 * 2 ^ 52 : Int) else (pk m : Nat)) := by
    intro n m h1 h2 h3
    have hn : ¬ n = 2 ^ 53 := by omega
    rw [if_neg hn]
    split
    · have := (roundRat_small_pk false n h1 (by omega)).2.2; omega
    · have := pk_mono h1 h2 (by omega); omega
  unfold ik
  by_cases x0 : x = 0 <;> by_cases y0 : y = 0
  · omega
  · have := kb y.natAbs (by omega) hy
    simp only [x0, y0, if_true, if_false]
    rw [if_pos (by omega)]; omega
  · have := kb x.natAbs (by omega) hx
    simp only [x0, y0, if_true, if_false]
    rw [if_neg (by omega)]; omega
  · simp only [x0, y0, if_false]
    by_cases xp : x > 0 <;> by_cases yp : y > 0
    · rw [if_pos xp, if_pos yp]; exact km _ _ (by omega) (by omega) hy
    · omega
    · rw [if_neg xp, if_pos yp]
      have := kb x.natAbs (by omega) hx
      have := kb y.natAbs (by omega) hy
      omega
    · rw [if_neg xp, if_neg yp]
      have := km y.natAbs x.natAbs (by omega) (by omega) hx
      omega

theorem ik_bounds {x : Int} (hx : x.natAbs ≤ 2 ^ 53) : -(1076 * 2 ^ 52) - 1 ≤ ik x ∧ ik x ≤ 1076 * 2 ^ 52 := by
  have h1 := @ik_strictMono (-(2 ^ 53)) x (by decide) hx
  have h2 := @ik_strictMono x (2 ^ 53) hx (by decide)
  have e1 : ik (-(2 ^ 53)) = -(1076 * 2 ^ 52) - 1 := by decide
  have e2 : ik (2 ^ 53) = 1076 * 2 ^ 52 := by decide
  by_cases a : x = -(2 ^ 53)
  · subst a; rw [e1]; omega
  by_cases b : x = 2 ^ 53
  · subst b; rw [e2]; omega
  have := h1 (by omega); have := h2 (by omega)
  omega

theorem compare_strictMono {f : Int → Int} {S : Int → Prop} (hf : ∀ x y, S x → S y → x < y → f x < f y)
    {x y : Int} (hx : S x) (hy : S y) : compare x y = compare (f x) (f y) := by
  apply compare_congr_int
  · constructor
    · exact hf x y hx hy
    · intro h
      rcases Int.lt_trichotomy x y with h' | h' | h'
      · exact h'
      · subst h'; omega
      · have := hf y x hy hx h'; omega
  · constructor
    · exact hf y x hy hx
    · intro h
      rcases Int.lt_trichotomy y x with h' | h' | h'
      · exact h'
      · subst h'; omega
      · have := hf x y hx hy h'; omega

/-! ### mode `smallInts` -/

/-- the key of a number in mode `smallInts`: the key of its conversion to `f64` -/
def keyS (n : Num) : Int := fkey (Num.toF64 n)

theorem undec_idem (n : Num) : Num.undec (Num.undec n) = Num.undec n := by
  cases n <;> simp [Num.undec, Num.ofDecStr]

theorem numCmp_undec (a b : Num) : numCmp a b = numCmp (Num.undec a) (Num.undec b) := by
  unfold numCmp Num.cmp
  simp only [undec_idem]

theorem keyS_undec (n : Num) : keyS (Num.undec n) = keyS n := by
  cases n <;> simp [Num.undec, Num.ofDecStr, keyS, Num.toF64]

theorem inMode_undec (m : Mode) (n : Num) : Num.inMode m (Num.undec n) = Num.inMode m n := by
  cases m <;> cases n <;>
    simp [Num.undec, Num.ofDecStr, Num.inMode, Num.nanFree, Num.smallInt, Num.infFloat, Num.convFinite]

theorem undec_cases (n : Num) : (∃ i, Num.undec n = .int i) ∨ (∃ i, Num.undec n = .big i) ∨ (∃ f, Num.undec n = .float f) := by
  cases n <;> simp [Num.undec, Num.ofDecStr]

/-- the integers and floats of mode `smallInts`: key and non-NaN conversion -/
theorem modeS_facts {n : Num} (h : Num.inMode .smallInts n = true) :
    F64.isNaN (Num.toF64 n) = false ∧
    (∀ i, (n = .int i ∨ n = .big i) → i.natAbs ≤ 2 ^ 53 ∧ keyS n = ik i) := by
  cases n with
  | int i =>
    simp only [Num.inMode, Num.nanFree, Num.smallInt, Bool.true_and, decide_eq_true_eq] at h
    exact ⟨(ofInt_small i h).2, fun j hj => by
      have : j = i := by rcases hj with hj | hj <;> cases hj <;> rfl
      subst this; exact ⟨h, (ofInt_small j h).1⟩⟩
  | big i =>
    simp only [Num.inMode, Num.nanFree, Num.smallInt, Bool.true_and, decide_eq_true_eq] at h
    exact ⟨(ofInt_small i h).2, fun j hj => by
      have : j = i := by rcases hj with hj | hj <;> cases hj <;> rfl
      subst this; exact ⟨h, (ofInt_small j h).1⟩⟩
  | float f =>
    simp only [Num.inMode, Num.nanFree, Num.smallInt, Bool.and_true, Bool.not_eq_eq_eq_not, Bool.not_true] at h
    exact ⟨h, fun j hj => by rcases hj with hj | hj <;> cases hj⟩
  | dec s =>
    simp only [Num.inMode, Num.nanFree, Num.smallInt, Bool.and_true, Bool.not_eq_eq_eq_not, Bool.not_true] at h
    exact ⟨h, fun j hj => by rcases hj with hj | hj <;> cases hj⟩

theorem int_cmp_keyS {x y : Int} (hx : x.natAbs ≤ 2 ^ 53) (hy : y.natAbs ≤ 2 ^ 53) :
    compare x y = compare (ik x) (ik y) :=
  compare_strictMono (S := fun x => x.natAbs ≤ 2 ^ 53) (fun _ _ a b h => ik_strictMono a b h) hx hy

theorem modeS_view {n : Num} (h : Num.inMode .smallInts n = true) :
    (∃ i, Num.undec n = .int i ∧ i.natAbs ≤ 2 ^ 53) ∨ (∃ i, Num.undec n = .big i ∧ i.natAbs ≤ 2 ^ 53) ∨
    (∃ f, Num.undec n = .float f ∧ F64.isNaN f = false) := by
  cases n <;>
    simp only [Num.inMode, Num.nanFree, Num.smallInt, Bool.true_and, Bool.and_true, decide_eq_true_eq,
      Bool.not_eq_eq_eq_not, Bool.not_true] at h <;> simp [Num.undec, Num.ofDecStr, h]

/-- in mode `smallInts` the comparison of numbers is the comparison of their keys -/
theorem numCmp_modeS {a b : Num} (ha : Num.inMode .smallInts a = true) (hb : Num.inMode .smallInts b = true) :
    numCmp a b = compare (keyS a) (keyS b) := by
  have hfix : ∀ i f, i.natAbs ≤ 2 ^ 53 → F64.isNaN f = false →
      bigFloatCmp i f = compare (fkey (F64.ofInt i)) (fkey f) := by
    intro i f hi2 hf
    have hi := (ofInt_small i hi2).2
    have kb := ik_bounds hi2
    rw [← (ofInt_small i hi2).1] at kb
    unfold bigFloatCmp
    split
    · rename_i h; have : f = F64.posInf := by simpa using h
      subst this
      have : fkey F64.posInf = 2047 * 2 ^ 52 := by decide
      rw [this, Int.compare_eq_lt.2 (by omega)]
    · split
      · rename_i h; have : f = F64.negInf := by simpa using h
        subst this
        have : fkey F64.negInf = -(2047 * 2 ^ 52) - 1 := by decide
        rw [this, Int.compare_eq_gt.2 (by omega)]
      · exact F64.cmp_eq_compare_fkey _ _ hi hf
  have tInt : ∀ i j : Int, i.natAbs ≤ 2 ^ 53 → j.natAbs ≤ 2 ^ 53 →
      compare i j = compare (fkey (F64.ofInt i)) (fkey (F64.ofInt j)) := by
    intro i j hi hj
    rw [(ofInt_small i hi).1, (ofInt_small j hj).1]; exact int_cmp_keyS hi hj
  have tIF : ∀ (i : Int) (f : UInt64), i.natAbs ≤ 2 ^ 53 → F64.isNaN f = false →
      F64.cmp (F64.ofInt i) f = compare (fkey (F64.ofInt i)) (fkey f) :=
    fun i f hi hf => F64.cmp_eq_compare_fkey _ _ (ofInt_small i hi).2 hf
  have tFI : ∀ (i : Int) (f : UInt64), i.natAbs ≤ 2 ^ 53 → F64.isNaN f = false →
      F64.cmp f (F64.ofInt i) = compare (fkey f) (fkey (F64.ofInt i)) :=
    fun i f hi hf => F64.cmp_eq_compare_fkey _ _ hf (ofInt_small i hi).2
  have tSwap : ∀ (i : Int) (f : UInt64), i.natAbs ≤ 2 ^ 53 →
      F64.isNaN f = false → (bigFloatCmp i f).swap = compare (fkey f) (fkey (F64.ofInt i)) := by
    intro i f h2 h3
    rw [hfix i f h2 h3]; exact Int.compare_swap _ _
  rw [numCmp_undec, ← keyS_undec a, ← keyS_undec b]
  rcases modeS_view ha with ⟨i, ea, fa⟩ | ⟨i, ea, fa⟩ | ⟨f, ea, fa⟩ <;>
  rcases modeS_view hb with ⟨j, eb, fb⟩ | ⟨j, eb, fb⟩ | ⟨g, eb, fb⟩ <;>
  rw [ea, eb] <;>
  simp only [numCmp, Num.cmp, Num.undec, keyS, Num.toF64, ite_self]
  · exact tInt i j fa fb
  · exact tInt i j fa fb
  · exact tIF i g fa fb
  · exact tInt i j fa fb
  · exact tInt i j fa fb
  · split
    · exact hfix i g fa fb
    · exact tIF i g fa fb
  · exact tFI j f fb fa
  · split
    · exact tSwap j f fb fa
    · exact tFI j f fb fa
  · exact F64.cmp_eq_compare_fkey _ _ fa fb

theorem numCmp_tpoS : TPO (fun n => Num.inMode .smallInts n = true) numCmp :=
  ((intCompare_tpo.comap keyS).mono (fun _ _ => trivial)).of_agree (fun _ _ ha hb => numCmp_modeS ha hb)

/-! ### mode `infFloats` -/

theorem isInf_cases {f : UInt64} (h : F64.isInf f = true) : f = F64.posInf ∨ f = F64.negInf := by
  have hlt := f.toNat_lt
  simp only [F64.isInf, F64.expField, F64.fracField, Bool.and_eq_true, beq_iff_eq] at h
  have : f.toNat = 9218868437227405312 ∨ f.toNat = 18442240474082181120 := by omega
  rcases this with h | h
  · left; apply UInt64.toNat_inj.1; rw [h]; decide
  · right; apply UInt64.toNat_inj.1; rw [h]; decide

theorem fkey_finite {b : UInt64} (h : F64.isFinite b = true) :
    F64.isNaN b = false ∧ -(2047 * 2 ^ 52) - 1 < fkey b ∧ fkey b < 2047 * 2 ^ 52 := by
  have hlt := b.toNat_lt
  simp only [F64.isFinite, F64.expField, bne_iff_ne, ne_eq] at h
  refine ⟨by simp [F64.isNaN, F64.expField, h], ?_⟩
  have hb : b.toNat % 2 ^ 63 < 2047 * 2 ^ 52 := by omega
  unfold fkey F64.isZero F64.totalKey F64.signBit
  by_cases z : b.toNat % 2 ^ 63 = 0
  · simp [z]
  · by_cases sg : b.toNat ≥ 2 ^ 63
    · simp only [beq_iff_eq, z, if_false, decide_eq_true_eq, sg, if_true, Int.ofNat_eq_natCast]
      omega
    · simp only [beq_iff_eq, z, if_false, decide_eq_true_eq, sg, Int.ofNat_eq_natCast]
      omega

theorem cmp_finite_inf {b f : UInt64} (hb : F64.isFinite b = true) (hf : F64.isInf f = true) :
    F64.cmp b f = (if F64.signBit f then .gt else .lt) ∧ F64.cmp f b = (if F64.signBit f then .lt else .gt) := by
  obtain ⟨nb, k1, k2⟩ := fkey_finite hb
  have p1 : fkey F64.posInf = 2047 * 2 ^ 52 := by decide
  have p2 : fkey F64.negInf = -(2047 * 2 ^ 52) - 1 := by decide
  rcases isInf_cases hf with rfl | rfl
  · rw [F64.cmp_eq_compare_fkey _ _ nb (by decide), F64.cmp_eq_compare_fkey _ _ (by decide) nb, p1]
    rw [Int.compare_eq_lt.2 (by omega), Int.compare_eq_gt.2 (by omega)]
    exact ⟨by decide, by decide⟩
  · rw [F64.cmp_eq_compare_fkey _ _ nb (by decide), F64.cmp_eq_compare_fkey _ _ (by decide) nb, p2]
    rw [Int.compare_eq_gt.2 (by omega), Int.compare_eq_lt.2 (by omega)]
    exact ⟨by decide, by decide⟩

/-- the key of a number in mode `infFloats` -/
def keyB (n : Num) : Int × Int :=
  match Num.undec n with
  | .int i => (0, i)
  | .big i => (0, i)
  | .float f => (if F64.signBit f then -1 else 1, 0)
  | .dec _ => (0, 0)

def cmpPair (a b : Int × Int) : Ordering := (compare a.1 b.1).then (compare a.2 b.2)

theorem cmpPair_tpo : TPO (fun _ : Int × Int => True) cmpPair :=
  TPO.andThen (intCompare_tpo.comap Prod.fst) (intCompare_tpo.comap Prod.snd)

theorem bigFloatCmp_inf (i : Int) {f : UInt64} (hf : F64.isInf f = true) :
    bigFloatCmp i f = (if F64.signBit f then .gt else .lt) := by
  rcases isInf_cases hf with rfl | rfl
  · have : F64.signBit F64.posInf = false := by decide
    simp [bigFloatCmp, this]
  · have : F64.signBit F64.negInf = true := by decide
    have e : (F64.negInf == F64.posInf) = false := by decide
    simp [bigFloatCmp, this, e]

theorem keyB_undec (n : Num) : keyB (Num.undec n) = keyB n := by
  unfold keyB; rw [undec_idem]

theorem modeB_view {n : Num} (h : Num.inMode .infFloats n = true) :
    (∃ i, Num.undec n = .int i ∧ F64.isFinite (F64.ofInt i) = true) ∨
    (∃ i, Num.undec n = .big i ∧ (Cfg.hugeIntBelowInfinity = true ∨ F64.isFinite (F64.ofInt i) = true)) ∨
    (∃ f, Num.undec n = .float f ∧ F64.isInf f = true) := by
  cases n <;>
    simp only [Num.inMode, Num.nanFree, Num.infFloat, Num.convFinite, Bool.true_and, Bool.and_true,
      Bool.and_eq_true, Bool.or_eq_true] at h <;> simp [Num.undec, Num.ofDecStr, h]

theorem numCmp_modeB {a b : Num} (ha : Num.inMode .infFloats a = true) (hb : Num.inMode .infFloats b = true) :
    numCmp a b = cmpPair (keyB a) (keyB b) := by
  have c1 : compare (1 : Int) 0 = .gt := by decide
  have c2 : compare (-1 : Int) 0 = .lt := by decide
  have c3 : compare (0 : Int) 1 = .lt := by decide
  have c4 : compare (0 : Int) (-1) = .gt := by decide
  have ii : ∀ i j : Int, compare i j = cmpPair (0, i) (0, j) := by intro i j; simp [cmpPair]
  have fi : ∀ (s : Bool) (j : Int), (if s then Ordering.lt else .gt) = cmpPair (if s then -1 else 1, 0) (0, j) := by
    intro s j; cases s <;> simp [cmpPair, c1, c2]
  have jf : ∀ (s : Bool) (j : Int), (if s then Ordering.gt else .lt) = cmpPair (0, j) (if s then -1 else 1, 0) := by
    intro s j; cases s <;> simp [cmpPair, c3, c4]
  have ff : ∀ f g : UInt64, F64.isInf f = true → F64.isInf g = true →
      F64.cmp f g = cmpPair (if F64.signBit f then -1 else 1, 0) (if F64.signBit g then -1 else 1, 0) := by
    intro f g hf hg
    rcases isInf_cases hf with rfl | rfl <;> rcases isInf_cases hg with rfl | rfl <;> decide
  rw [numCmp_undec, ← keyB_undec a, ← keyB_undec b]
  rcases modeB_view ha with ⟨i, ea, fa⟩ | ⟨i, ea, fa⟩ | ⟨f, ea, fa⟩ <;>
  rcases modeB_view hb with ⟨j, eb, fb⟩ | ⟨j, eb, fb⟩ | ⟨g, eb, fb⟩ <;>
  rw [ea, eb] <;>
  simp only [numCmp, Num.cmp, Num.undec, keyB, ite_self]
  · exact ii _ _
  · exact ii _ _
  · rw [(cmp_finite_inf fa fb).1]; exact jf _ _
  · exact ii _ _
  · exact ii _ _
  · split
    · rw [bigFloatCmp_inf _ fb]; exact jf _ _
    · rename_i hflag
      rw [(cmp_finite_inf (fa.resolve_left hflag) fb).1]; exact jf _ _
  · rw [(cmp_finite_inf fb fa).2]; exact fi _ _
  · split
    · rw [bigFloatCmp_inf _ fa]
      cases hs : F64.signBit f <;> simp [cmpPair, c1, c2, Ordering.swap]
    · rename_i hflag
      rw [(cmp_finite_inf (fb.resolve_left hflag) fa).2]; exact fi _ _
  · exact ff _ _ fa fb

theorem numCmp_tpoB : TPO (fun n => Num.inMode .infFloats n = true) numCmp :=
  ((cmpPair_tpo.comap keyB).mono (fun _ _ => trivial)).of_agree (fun _ _ ha hb => numCmp_modeB ha hb)

theorem numCmp_tpo (m : Mode) : TPO (fun n => Num.inMode m n = true) numCmp := by
  cases m
  · exact numCmp_tpoS
  · exact numCmp_tpoB

end Jaq.C08
