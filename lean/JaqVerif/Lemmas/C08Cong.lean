/-
  C08 helper lemmas, part 8 (round 2): values that are `==` are interchangeable as object keys —
  look-up, `insert`, `extend` (`+`), `update`, `merge` (`*`), object equality; the operations
  preserve the invariant `WfKeys`; objects that differ only in insertion order are `==`.
-/
import JaqVerif.Lemmas.C08Eq

namespace Jaq.C08
open Jaq

/-! ### more about pointwise relations -/

/-- relation of two optional values -/
def OptRel {α β : Type} (R : α → β → Prop) : Option α → Option β → Prop
  | some a, some b => R a b
  | none, none => True
  | _, _ => False

section all2more
variable {α β : Type} {R : α → β → Prop}

theorem All2.findIdx? {f : α → Bool} {g : β → Bool} :
    ∀ {x : List α} {y : List β}, All2 (fun a b => f a = g b) x y → x.findIdx? f = y.findIdx? g
  | [], [], _ => rfl
  | [], _ :: _, h => h.elim
  | _ :: _, [], h => h.elim
  | _ :: _, _ :: _, h => by simp only [List.findIdx?_cons, h.1, All2.findIdx? h.2]

theorem All2.getElem? : ∀ {x : List α} {y : List β}, All2 R x y → ∀ i : Nat, OptRel R x[i]? y[i]?
  | [], [], _, _ => by simp [OptRel]
  | [], _ :: _, h, _ => h.elim
  | _ :: _, [], h, _ => h.elim
  | _ :: _, _ :: _, h, 0 => by simpa [OptRel] using h.1
  | _ :: as, _ :: bs, h, i + 1 => by simpa using All2.getElem? h.2 i

theorem All2.append : ∀ {x : List α} {y : List β} {x2 : List α} {y2 : List β},
    All2 R x y → All2 R x2 y2 → All2 R (x ++ x2) (y ++ y2)
  | [], [], _, _, _, h2 => by simpa using h2
  | [], _ :: _, _, _, h, _ => h.elim
  | _ :: _, [], _, _, h, _ => h.elim
  | _ :: _, _ :: _, _, _, h, h2 => ⟨h.1, All2.append h.2 h2⟩

theorem All2.set : ∀ {x : List α} {y : List β} {a : α} {b : β} (i : Nat),
    All2 R x y → R a b → All2 R (x.set i a) (y.set i b)
  | [], [], _, _, _, _, _ => trivial
  | [], _ :: _, _, _, _, h, _ => h.elim
  | _ :: _, [], _, _, _, h, _ => h.elim
  | _ :: _, _ :: _, _, _, 0, h, hab => ⟨hab, h.2⟩
  | _ :: _, _ :: _, _, _, i + 1, h, hab => ⟨h.1, All2.set i h.2 hab⟩

theorem All2.modify {f : α → α} {g : β → β} (hf : ∀ a b, R a b → R (f a) (g b)) :
    ∀ {x : List α} {y : List β} (i : Nat), All2 R x y → All2 R (x.modify i f) (y.modify i g)
  | [], [], _, _ => by simp only [List.modify_nil]; trivial
  | [], _ :: _, _, h => h.elim
  | _ :: _, [], _, h => h.elim
  | _ :: _, _ :: _, 0, h => by simpa [List.modify_cons] using ⟨hf _ _ h.1, h.2⟩
  | _ :: _, _ :: _, i + 1, h => by
    simp only [List.modify_cons, Nat.add_one_ne_zero, if_false, Nat.add_sub_cancel]
    exact ⟨h.1, All2.modify hf i h.2⟩

theorem All2.dropLast : ∀ {x : List α} {y : List β}, All2 R x y → All2 R x.dropLast y.dropLast
  | [], [], _ => trivial
  | [], _ :: _, h => h.elim
  | _ :: _, [], h => h.elim
  | [_], [_], _ => trivial
  | [_], _ :: _ :: _, h => h.2.elim
  | _ :: _ :: _, [_], h => h.2.elim
  | _ :: a2 :: as, _ :: b2 :: bs, h => by
    simp only [List.dropLast_cons_cons]
    exact ⟨h.1, All2.dropLast (x := a2 :: as) (y := b2 :: bs) h.2⟩

theorem All2.getLast? : ∀ {x : List α} {y : List β}, All2 R x y → OptRel R x.getLast? y.getLast?
  | [], [], _ => trivial
  | [], _ :: _, h => h.elim
  | _ :: _, [], h => h.elim
  | [_], [_], h => by simpa [OptRel] using h.1
  | [_], _ :: _ :: _, h => h.2.elim
  | _ :: _ :: _, [_], h => h.2.elim
  | _ :: a2 :: as, _ :: b2 :: bs, h => by
    simp only [List.getLast?_cons_cons]
    exact All2.getLast? (x := a2 :: as) (y := b2 :: bs) h.2

theorem All2.reverse {x : List α} {y : List β} (h : All2 R x y) : All2 R x.reverse y.reverse := by
  induction x generalizing y with
  | nil => cases y with
    | nil => trivial
    | cons => exact h.elim
  | cons a as ih => cases y with
    | nil => exact h.elim
    | cons b bs =>
      simp only [List.reverse_cons]
      exact All2.append (ih h.2) ⟨h.1, trivial⟩

theorem All2.take : ∀ {x : List α} {y : List β} (n : Nat), All2 R x y → All2 R (x.take n) (y.take n)
  | [], [], _, _ => by simp
  | [], _ :: _, _, h => h.elim
  | _ :: _, [], _, h => h.elim
  | _ :: _, _ :: _, 0, _ => by simp
  | _ :: _, _ :: _, n + 1, h => by simpa using ⟨h.1, All2.take n h.2⟩

theorem All2.drop : ∀ {x : List α} {y : List β} (n : Nat), All2 R x y → All2 R (x.drop n) (y.drop n)
  | [], [], _, _ => by simp
  | [], _ :: _, _, h => h.elim
  | _ :: _, [], _, h => h.elim
  | _ :: _, _ :: _, 0, h => by simpa using h
  | _ :: _, _ :: _, n + 1, h => by simpa using All2.drop n h.2

theorem All2.filter {f : α → Bool} {g : β → Bool} :
    ∀ {x : List α} {y : List β}, All2 (fun a b => R a b ∧ f a = g b) x y → All2 R (x.filter f) (y.filter g)
  | [], [], _ => trivial
  | [], _ :: _, h => h.elim
  | _ :: _, [], h => h.elim
  | a :: _, b :: _, h => by
    simp only [List.filter_cons, h.1.2]
    cases g b
    · simpa using All2.filter h.2
    · simpa using ⟨h.1.1, All2.filter h.2⟩

theorem All2.any_eq {f : α → Bool} {g : β → Bool} :
    ∀ {x : List α} {y : List β}, All2 (fun a b => f a = g b) x y → x.any f = y.any g
  | [], [], _ => rfl
  | [], _ :: _, h => h.elim
  | _ :: _, [], h => h.elim
  | _ :: _, _ :: _, h => by simp only [List.any_cons, h.1, All2.any_eq h.2]

theorem All2.all_eq {f : α → Bool} {g : β → Bool} :
    ∀ {x : List α} {y : List β}, All2 (fun a b => f a = g b) x y → x.all f = y.all g
  | [], [], _ => rfl
  | [], _ :: _, h => h.elim
  | _ :: _, [], h => h.elim
  | _ :: _, _ :: _, h => by simp only [List.all_cons, h.1, All2.all_eq h.2]

theorem All2.map_same {γ : Type} {f : γ → α} {g : γ → β} :
    ∀ {l : List γ}, (∀ i ∈ l, R (f i) (g i)) → All2 R (l.map f) (l.map g)
  | [], _ => trivial
  | i :: is, h => ⟨h i (by simp), All2.map_same (fun j hj => h j (by simp [hj]))⟩

/-- a pairwise property is carried along a pointwise relation -/
theorem All2.pairwise {P : α → α → Prop} {P' : β → β → Prop}
    (hP : ∀ a a' b b', R a a' → R b b' → P a b → P' a' b') :
    ∀ {x : List α} {y : List β}, All2 R x y → x.Pairwise P → y.Pairwise P'
  | [], [], _, _ => List.Pairwise.nil
  | [], _ :: _, h, _ => h.elim
  | _ :: _, [], h, _ => h.elim
  | a :: as, b :: bs, h, hp => by
    rw [List.pairwise_cons] at hp ⊢
    refine ⟨?_, All2.pairwise hP h.2 hp.2⟩
    intro b' hb'
    obtain ⟨a', ha', hr⟩ := h.2.exists_left b' hb'
    exact hP a b a' b' h.1 hr (hp.1 a' ha')

end all2more

/-! ### the stable sort makes the same decisions on pointwise related lists -/

section sortcongr
variable {α : Type} {R : α → α → Prop} {c : α → α → Ordering}

theorem insertBy_all2 (hc : ∀ a a' b b', R a a' → R b b' → c a b = c a' b') {a a' : α} (ha : R a a') :
    ∀ {l l' : List α}, All2 R l l' → All2 R (insertBy c a l) (insertBy c a' l')
  | [], [], _ => ⟨ha, trivial⟩
  | [], _ :: _, h => h.elim
  | _ :: _, [], h => h.elim
  | b :: bs, b' :: bs', h => by
    simp only [insertBy, hc a a' b b' ha h.1]
    split
    · exact ⟨h.1, insertBy_all2 hc ha h.2⟩
    · exact ⟨ha, h⟩

theorem sortBy_all2 (hc : ∀ a a' b b', R a a' → R b b' → c a b = c a' b') :
    ∀ {l l' : List α}, All2 R l l' → All2 R (sortBy c l) (sortBy c l')
  | [], [], _ => trivial
  | [], _ :: _, h => h.elim
  | _ :: _, [], h => h.elim
  | _ :: _, _ :: _, h => insertBy_all2 hc h.1 (sortBy_all2 hc h.2)

end sortcongr

/-! ### the equivalence `==` on the domain -/

/-- `a == b`, and both satisfy the hypotheses (`Good`) -/
structure Eqv (m : Mode) (a b : Val) : Prop where
  ga : Good m a
  gb : Good m b
  e : eq a b = true

namespace Eqv
variable {m : Mode} {a a' b b' d k k' p p' : Val}

theorem cmp_eq (h : Eqv m a b) : cmp a b = .eq := (eq_iff_cmp h.ga h.gb).1 h.e

theorem of_cmp (ga : Good m a) (gb : Good m b) (h : cmp a b = .eq) : Eqv m a b :=
  ⟨ga, gb, (eq_iff_cmp ga gb).2 h⟩

theorem refl (g : Good m a) : Eqv m a a := of_cmp g g ((valTPO m).refl a g.dom)

theorem symm (h : Eqv m a b) : Eqv m b a :=
  of_cmp h.gb h.ga (((valTPO m).eq_iff h.ga.dom h.gb.dom).1 h.cmp_eq)

theorem trans (h1 : Eqv m a b) (h2 : Eqv m b d) : Eqv m a d :=
  of_cmp h1.ga h2.gb ((valTPO m).eq_trans h1.ga.dom h1.gb.dom h2.gb.dom h1.cmp_eq h2.cmp_eq)

theorem feed_eq (h : Eqv m a b) : feed a = feed b := feed_of_eq h.ga h.gb h.e

theorem cmp_congr (h1 : Eqv m a a') (h2 : Eqv m b b') : cmp a b = cmp a' b' := by
  rw [(valTPO m).congr_left h1.ga.dom h1.gb.dom h2.ga.dom h1.cmp_eq,
    (valTPO m).congr_right h2.ga.dom h2.gb.dom h1.gb.dom h2.cmp_eq]

theorem eq_congr (h1 : Eqv m a a') (h2 : Eqv m b b') : eq a b = eq a' b' := by
  have i1 := eq_iff_cmp h1.ga h2.ga
  have i2 := eq_iff_cmp h1.gb h2.gb
  rw [Bool.eq_iff_iff, i1, i2, cmp_congr h1 h2]

theorem probe_congr (h1 : Eqv m k k') (h2 : Eqv m p p') : probe eq k p = probe eq k' p' := by
  unfold probe
  rw [h1.feed_eq, h2.feed_eq, eq_congr h1 h2]

end Eqv

/-- two entry lists that agree position by position up to `==` of the keys, with values
related by `R` -/
def KeysEqv (m : Mode) (R : Val → Val → Prop) (o o' : Entries) : Prop :=
  All2 (fun p q => Eqv m p.1 q.1 ∧ R p.2 q.2) o o'

section keys
variable {m : Mode} {R : Val → Val → Prop} {o o' : Entries} {k k' v v' : Val}

/-! ### look-up -/

theorem hashedIdx_congr (h : KeysEqv m R o o') (hk : Eqv m k k') : hashedIdx eq o k = hashedIdx eq o' k' :=
  All2.findIdx? (All2.imp (fun _ _ hpq => Eqv.probe_congr hk hpq.1) h)

theorem getIdx_all2 (h : KeysEqv m R o o') (hk : Eqv m k k') : getIdx eq o k = getIdx eq o' k' := by
  match o, o', h with
  | [], [], _ => rfl
  | [], _ :: _, h => exact h.elim
  | _ :: _, [], h => exact h.elim
  | [p], [q], h => simp only [getIdx, Eqv.eq_congr hk h.1.1]
  | [_], _ :: _ :: _, h => exact h.2.elim
  | _ :: _ :: _, [_], h => exact h.2.elim
  | p :: p2 :: r, q :: q2 :: r', h =>
    simp only [getIdx]
    exact All2.findIdx? (All2.imp (fun _ _ hpq => Eqv.probe_congr hk hpq.1) h)

theorem get_all2 (h : KeysEqv m R o o') (hk : Eqv m k k') : OptRel R (Obj.get o k) (Obj.get o' k') := by
  unfold Obj.get getWith
  rw [getIdx_all2 h hk]
  cases getIdx eq o' k' with
  | none => trivial
  | some i =>
    show OptRel R ((o[i]?).map (·.2)) ((o'[i]?).map (·.2))
    have := All2.getElem? h i
    revert this
    cases o[i]? <;> cases o'[i]? <;> simp only [OptRel, Option.map] <;> intro hr
    · trivial
    · exact hr.elim
    · exact hr.elim
    · exact hr.2

theorem has_all2 (h : KeysEqv m R o o') (hk : Eqv m k k') : Obj.has o k = Obj.has o' k' := by
  have := get_all2 h hk
  unfold Obj.has
  revert this
  cases Obj.get o k <;> cases Obj.get o' k' <;> simp [OptRel]

theorem KeysEqv.refl_of {o : Entries} (hk : ∀ p ∈ o, Good m p.1) (hr : ∀ p ∈ o, R p.2 p.2) : KeysEqv m R o o :=
  All2.refl_of_mem (fun p hp => ⟨Eqv.refl (hk p hp), hr p hp⟩)

/-! ### `insert`, `extend` -/

theorem insert_all2 (h : KeysEqv m R o o') (hk : Eqv m k k') (hv : R v v') :
    KeysEqv m R (Obj.insert o k v) (Obj.insert o' k' v') := by
  unfold Obj.insert
  rw [hashedIdx_congr h hk]
  cases hashedIdx eq o' k' with
  | some i => exact All2.modify (fun _ _ hpq => ⟨hpq.1, hv⟩) i h
  | none => exact All2.append h ⟨⟨hk, hv⟩, trivial⟩

theorem extend_all2 : ∀ {kvs kvs' : Entries} {o o' : Entries}, KeysEqv m R kvs kvs' → KeysEqv m R o o' →
    KeysEqv m R (Obj.extend o kvs) (Obj.extend o' kvs')
  | [], [], _, _, _, h => h
  | [], _ :: _, _, _, h, _ => h.elim
  | _ :: _, [], _, _, h, _ => h.elim
  | p :: ps, q :: qs, o, o', hk, h => by
    have := insert_all2 h hk.1.1 hk.1.2
    exact extend_all2 (kvs := ps) (kvs' := qs) hk.2 this

/-! ### `update` (`map_index` on an object) -/

theorem swapRemoveAt_all2 (h : KeysEqv m R o o') (i : Nat) :
    KeysEqv m R (Obj.swapRemoveAt o i) (Obj.swapRemoveAt o' i) := by
  unfold Obj.swapRemoveAt
  have hl := All2.getLast? h
  have hlen := h.length_eq
  revert hl
  cases o.getLast? <;> cases o'.getLast? <;> simp only [OptRel] <;> intro hl
  · exact h
  · exact hl.elim
  · exact hl.elim
  · rw [hlen]
    split
    · exact All2.dropLast h
    · exact All2.dropLast (All2.set i h hl)

theorem update_all2 {f f' : Val → Option Val} (h : KeysEqv m R o o') (hk : Eqv m k k')
    (hf : ∀ v v', R v v' → OptRel R (f v) (f' v')) (hnull : OptRel R (f .null) (f' .null)) :
    KeysEqv m R (Obj.update o k f) (Obj.update o' k' f') := by
  unfold Obj.update
  rw [hashedIdx_congr h hk]
  cases hashedIdx eq o' k' with
  | some i =>
    dsimp only
    have hi := All2.getElem? h i
    revert hi
    cases o[i]? <;> cases o'[i]? <;> simp only [OptRel] <;> intro hi
    · exact h
    · exact hi.elim
    · exact hi.elim
    · rename_i p q
      have := hf p.2 q.2 hi.2
      revert this
      cases f p.2 <;> cases f' q.2 <;> simp only [OptRel] <;> intro hy
      · exact swapRemoveAt_all2 h i
      · exact hy.elim
      · exact hy.elim
      · exact All2.set i h ⟨hi.1, hy⟩
  | none =>
    dsimp only
    revert hnull
    cases f .null <;> cases f' .null <;> simp only [OptRel] <;> intro hy
    · exact h
    · exact hy.elim
    · exact hy.elim
    · exact All2.append h ⟨⟨hk, hy⟩, trivial⟩

/-! ### `merge` (`*` on objects): keys replaced by `==` ones, values identical -/

theorem mergeStep_all2 {rec : Entries → Entries → Entries} {acc acc' : Entries} {p q : Val × Val}
    (h : KeysEqv m Eq acc acc') (hpq : Eqv m p.1 q.1 ∧ p.2 = q.2) :
    KeysEqv m Eq (Obj.mergeStep rec acc p) (Obj.mergeStep rec acc' q) := by
  unfold Obj.mergeStep
  rw [getIdx_all2 h hpq.1]
  cases getIdx eq acc' q.1 with
  | none => exact insert_all2 h hpq.1 hpq.2
  | some i =>
    dsimp only
    have hi := All2.getElem? h i
    revert hi
    cases acc[i]? <;> cases acc'[i]? <;> simp only [OptRel] <;> intro hi
    · exact h
    · exact hi.elim
    · exact hi.elim
    · rename_i e1 e2
      obtain ⟨k1, v1⟩ := e1
      obtain ⟨k2, v2⟩ := e2
      have hv : v1 = v2 := hi.2
      have hk : Eqv m k1 k2 := hi.1
      subst hv
      rw [← hpq.2]
      generalize p.2 = rv
      cases v1 <;> cases rv <;> exact All2.set (a := (k1, _)) (b := (k2, _)) i h ⟨hk, rfl⟩

theorem foldl_mergeStep_all2 (rec : Entries → Entries → Entries) :
    ∀ {r r' : Entries} {l l' : Entries}, KeysEqv m Eq r r' → KeysEqv m Eq l l' →
      KeysEqv m Eq (r.foldl (Obj.mergeStep rec) l) (r'.foldl (Obj.mergeStep rec) l')
  | [], [], _, _, _, h => h
  | [], _ :: _, _, _, h, _ => h.elim
  | _ :: _, [], _, _, h, _ => h.elim
  | _ :: ps, _ :: qs, _, _, hr, h =>
    foldl_mergeStep_all2 rec (r := ps) (r' := qs) hr.2 (mergeStep_all2 h hr.1)

theorem mergeF_all2 : ∀ (n : Nat) {r r' l l' : Entries}, KeysEqv m Eq r r' → KeysEqv m Eq l l' →
    KeysEqv m Eq (Obj.mergeF n l r) (Obj.mergeF n l' r')
  | 0, _, _, _, _, _, h => h
  | n + 1, _, _, _, _, hr, h => foldl_mergeStep_all2 (Obj.mergeF n) hr h

end keys

/-! ### up to `==`: position-wise equivalent entry lists are `==` objects -/

section objeq
variable {m : Mode} {o o' x y : Entries} {k v : Val}

theorem good_of_keysEqv (h : KeysEqv m (Eqv m) o o') (g : Good m (.obj o)) : Good m (.obj o') := by
  apply Good.of_obj
  · intro q hq
    obtain ⟨p, _, hpq⟩ := All2.exists_left h q hq
    exact ⟨hpq.1.gb, hpq.2.gb⟩
  · have h1 := distinctKeys_iff.1 (allObjs_obj.1 g.keys).1
    exact All2.pairwise (fun a a' b b' haa hbb hab => by rw [← Eqv.cmp_congr haa.1 hbb.1]; exact hab) h h1

/-- replacing keys and values of an object by `==` ones (position by position) gives an object
that is `==` (hence also: same `Hasher` calls, interchangeable as a key or element itself) -/
theorem obj_eqv_of_keysEqv (h : KeysEqv m (Eqv m) o o') (g : Good m (.obj o)) : Eqv m (.obj o) (.obj o') := by
  have g' := good_of_keysEqv h g
  apply Eqv.of_cmp g g'
  rw [cmp_obj_eq_iff]
  have hs : All2 (fun p q : Val × Val => Eqv m p.1 q.1 ∧ Eqv m p.2 q.2) (sortedEntries o) (sortedEntries o') :=
    sortBy_all2 (c := keyCmp cmp) (fun a a' b b' haa hbb => Eqv.cmp_congr haa.1 hbb.1) h
  exact hs.imp (fun p q hpq => ⟨hpq.1.cmp_eq, hpq.2.cmp_eq⟩)

/-! ### insertion order is irrelevant -/

theorem good_perm (g : Good m (.obj x)) (hp : x.Perm y) : Good m (.obj y) := by
  apply Good.of_obj
  · intro e he; exact g.obj e (hp.mem_iff.2 he)
  · exact (g.distinct.perm hp).imp (fun h => h.1)

theorem sortedEntries_perm_eq (g : Good m (.obj x)) (hp : x.Perm y) : sortedEntries x = sortedEntries y := by
  have hT := keyTPO m
  have dx : ∀ p ∈ x, InDom m p.1 = true := fun p hp' => (g.obj p hp').1.dom
  have dy : ∀ p ∈ y, InDom m p.1 = true := fun p hp' => dx p (hp.mem_iff.2 hp')
  have ssx : SSorted (keyCmp cmp) (sortedEntries x) := sortBy_ssorted hT x dx g.distinct
  have ssy : SSorted (keyCmp cmp) (sortedEntries y) := sortBy_ssorted hT y dy (g.distinct.perm hp)
  apply All2.eq_of_eq
  have := ssorted_pointwise hT (Q := fun a b => a = b) (sortedEntries x) (sortedEntries y)
    (fun p hp' => dx p (mem_sortBy.1 hp')) (fun p hp' => dy p (mem_sortBy.1 hp')) ssx ssy
    (fun p hp' => ⟨p, mem_sortBy.2 (hp.mem_iff.1 (mem_sortBy.1 hp')),
      hT.refl p (dx p (mem_sortBy.1 hp')), rfl⟩)
    (by rw [sortedEntries, sortedEntries, length_sortBy, length_sortBy, hp.length_eq]; exact Nat.le_refl _)
  exact this.imp (fun _ _ h => h.2)

/-- **objects that differ only in insertion order are `==`** -/
theorem obj_perm_eqv (g : Good m (.obj x)) (hp : x.Perm y) : Eqv m (.obj x) (.obj y) := by
  apply Eqv.of_cmp g (good_perm g hp)
  rw [cmp_obj_eq_iff, sortedEntries_perm_eq g hp]
  apply All2.refl_of_mem
  intro p hp'
  have hy := (good_perm g hp).obj p (mem_sortBy.1 hp')
  exact ⟨(valTPO m).refl _ hy.1.dom, (valTPO m).refl _ hy.2.dom⟩

/-! ### `insert`, `extend`, `ofList` preserve the hypotheses (in particular `WfKeys`) -/

theorem modify_snd_all2 (v : Val) : ∀ (o : Entries) (i : Nat),
    All2 (fun p q : Val × Val => q.1 = p.1 ∧ (q.2 = p.2 ∨ q.2 = v)) o (o.modify i fun p => (p.1, v))
  | [], _ => by simp only [List.modify_nil]; trivial
  | p :: ps, 0 => by
    simp only [List.modify_cons, if_true]
    exact ⟨⟨rfl, Or.inr rfl⟩, All2.refl_of_mem (fun _ _ => ⟨rfl, Or.inl rfl⟩)⟩
  | p :: ps, i + 1 => by
    simp only [List.modify_cons, Nat.add_one_ne_zero, if_false, Nat.add_sub_cancel]
    exact ⟨⟨rfl, Or.inl rfl⟩, modify_snd_all2 v ps i⟩

theorem good_insert (g : Good m (.obj o)) (gk : Good m k) (gv : Good m v) :
    Good m (.obj (Obj.insert o k v)) := by
  have hd := distinctKeys_iff.1 (allObjs_obj.1 g.keys).1
  unfold Obj.insert
  cases hi : hashedIdx eq o k with
  | none =>
    dsimp only
    apply Good.of_obj
    · intro e he
      rcases List.mem_append.1 he with he | he
      · exact g.obj e he
      · have : e = (k, v) := by simpa using he
        subst this; exact ⟨gk, gv⟩
    · rw [List.pairwise_append]
      refine ⟨hd, by simp, ?_⟩
      intro p hp q hq
      have : q = (k, v) := by simpa using hq
      subst this
      have hpr := List.findIdx?_eq_none_iff.1 hi p hp
      intro hc
      have e1 : Eqv m k p.1 :=
        Eqv.of_cmp gk (g.obj p hp).1 (((valTPO m).eq_iff (g.obj p hp).1.dom gk.dom).1 hc)
      simp [probe, e1.feed_eq, e1.e] at hpr
  | some i =>
    dsimp only
    have hrel := modify_snd_all2 v o i
    apply Good.of_obj
    · intro q hq
      obtain ⟨p, hp, h1, h2⟩ := All2.exists_left hrel q hq
      refine ⟨by rw [h1]; exact (g.obj p hp).1, ?_⟩
      rcases h2 with h2 | h2 <;> rw [h2]
      · exact (g.obj p hp).2
      · exact gv
    · exact All2.pairwise (fun a a' b b' haa hbb hab => by rw [haa.1, hbb.1]; exact hab) hrel hd

theorem good_extend : ∀ (kvs : Entries) {o : Entries}, Good m (.obj o) → (∀ p ∈ kvs, Good m p.1 ∧ Good m p.2) →
    Good m (.obj (Obj.extend o kvs))
  | [], _, g, _ => g
  | p :: ps, _, g, h =>
    good_extend ps (good_insert g (h p (by simp)).1 (h p (by simp)).2) (fun q hq => h q (by simp [hq]))

theorem good_empty : Good m (.obj []) := Good.of_obj (fun _ h => by cases h) List.Pairwise.nil

theorem good_ofList (kvs : Entries) (h : ∀ p ∈ kvs, Good m p.1 ∧ Good m p.2) : Good m (.obj (Obj.ofList kvs)) :=
  good_extend kvs good_empty h

end objeq

end Jaq.C08
