/- Round 2: the manual's rule for `//` when the left side starts with an error. -/
import JaqVerif.Lemmas.C02Agree
import JaqVerif.Lemmas.C02Update

namespace Jaq.C02

/-- `first(f // false)` when `f` raises an error before any output: the error -/
theorem altRule_err_first (o : Out Val) (e : Err) (hv : o.vals = []) (hs : o.stop = some (.err e)) :
    altRule o = Out.error e := by
  obtain ⟨vals, stop⟩ := o
  simp only at hv hs
  subst hv hs
  rfl

theorem out_eq_of_map_fst {α β : Type} (o : Out (α × β)) (e : Exn)
    (h : o.map Prod.fst = ⟨[], some e⟩) : o = ⟨[], some e⟩ := by
  obtain ⟨vals, stop⟩ := o
  simp only [Out.map, Out.mk.injEq, List.map_eq_nil_iff] at h
  obtain ⟨rfl, rfl⟩ := h
  rfl

theorem alt_paths_strong (n : Nat) (f g : PE) (env : Env) (vp : Val × VPath)
    (hp : PathClass f = true) (henv : EnvClass env)
    (h : ∀ e, (run n f env vp.1).stop = some (.err e) →
      (run n f env vp.1).vals.any asBool = true ∨ (run n f env vp.1).vals = []) :
    paths (n + 1) (.alt f g) env vp =
      (altRule (run n f env vp.1)).bind fun c => paths n (if asBool c then f else g) env vp := by
  by_cases hold : ∀ e, (run n f env vp.1).stop = some (.err e) → (run n f env vp.1).vals.any asBool = true
  · exact (altRule_bind _ hold _).symm
  · have ⟨e, he, hany⟩ : ∃ e, (run n f env vp.1).stop = some (.err e) ∧
        ¬ (run n f env vp.1).vals.any asBool = true := by
      apply Classical.byContradiction
      intro hne
      apply hold
      intro e he
      apply Classical.byContradiction
      intro hx
      exact hne ⟨e, he, hx⟩
    have hv : (run n f env vp.1).vals = [] := by
      rcases h e he with h1 | h1
      · exact absurd h1 hany
      · exact h1
    rw [altRule_err_first _ e hv he]
    have hl : paths (n + 1) (.alt f g) env vp = paths n f env vp := by
      show stepPaths (ev n) (.alt f g) env vp = _
      have : anyTrue ((ev n).run f env vp.1) = some true := anyTrue_err _ e he
      simp only [stepPaths, this]
      rfl
    rw [hl]
    have hrun : run n f env vp.1 = ⟨[], some (.err e)⟩ := by
      have := he; have := hv
      cases hr : run n f env vp.1 with
      | mk vals stop => rw [hr] at he hv; simp only at he hv; subst he hv; rfl
    have hagree := agree_ev n f env vp hp henv
    have : paths n f env vp = ⟨[], some (.err e)⟩ := by
      apply out_eq_of_map_fst
      show ((ev n).paths f env vp).map Prod.fst = _
      rw [hagree]
      exact hrun
    rw [this]
    rfl

theorem cartesian_one_one (z y : Val) (g : Val → Val → ValR) :
    cartesian (Out.one z) (Out.one y) g = Out.ofValR (g z y) := by
  simp only [cartesian, Out.items, Out.one, List.map, List.append_nil, List.flatMap, List.flatten, pairItems]
  cases g z y <;> rfl


end Jaq.C02
