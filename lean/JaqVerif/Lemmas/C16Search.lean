/- C16: helper lemma about `file_stem`. -/
import JaqVerif.C16.Search

namespace Jaq.C16

theorem stem_of_no_ext (n : FName) (h : extensionOf n = none) : stemOf n = n := by
  unfold extensionOf at h
  unfold stemOf
  split <;> rename_i hs
  · rfl
  · rw [hs] at h
    simp only at h
    split at h
    · rename_i hb; simp [hb]
    · cases h

end Jaq.C16
