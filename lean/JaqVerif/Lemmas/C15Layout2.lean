/-
  C15 — the lexer accepts exactly the layouts (C15/Layout.lean) and returns their tokens.
  Part 2: whatever the lexer accepts is a layout of the tokens it returns (`layout_of_lex`),
  i.e. every text is cut into trivia and lexemes, and no lexeme is glued to what follows it.
-/
import JaqVerif.Lemmas.C15Layout

namespace Jaq.C15

/-! ### `space` skips exactly trivia -/

theorem trivia_append {a b : Str} (ha : Trivia a) (hb : Trivia b) : Trivia (a ++ b) := by
  induction ha with
  | nil => exact hb
  | ws c t hc _ ih => exact .ws c _ hc ih
  | comment b' t hb' _ ih =>
    have e : '#' :: b' ++ t ++ b = '#' :: b' ++ (t ++ b) := by simp
    rw [e]
    exact .comment b' _ hb' ih

theorem trivia_ws {w : Str} (hw : allP isWs w) : Trivia w := by
  induction w with
  | nil => exact .nil
  | cons c w ih => exact .ws c w (allP_cons hw).1 (ih (allP_cons hw).2)

theorem splitLine_spec (s : Str) :
    ('\n' ∉ s ∧ splitLine s = (s, [])) ∨
    (∃ l rest, s = l ++ '\n' :: rest ∧ '\n' ∉ l ∧ splitLine s = (l, rest)) := by
  induction s with
  | nil => left; exact ⟨by simp, rfl⟩
  | cons c s ih =>
    by_cases hc : c = '\n'
    · right; exact ⟨[], s, by simp [hc], by simp, by simp [splitLine, hc]⟩
    · rcases ih with ⟨hn, he⟩ | ⟨l, rest, rfl, hn, he⟩
      · left; refine ⟨?_, by simp [splitLine, hc, he]⟩
        intro h; simp only [List.mem_cons] at h; rcases h with h | h
        · exact hc h.symm
        · exact hn h
      · right; refine ⟨c :: l, rest, rfl, ?_, by simp [splitLine, hc, he]⟩
        intro h; simp only [List.mem_cons] at h; rcases h with h | h
        · exact hc h.symm
        · exact hn h

/-- the comment loop skips a complete comment body, or runs into the end of the input -/
theorem comment_spec : ∀ (f : Nat) (c : Str), c.length < f →
    (∃ b, c = b ++ comment f c ∧ CommentBody b) ∨ (comment f c = [] ∧ OpenBody c) := by
  intro f
  induction f with
  | zero => intro c h; omega
  | succ f ih =>
    intro c hlen
    rcases splitLine_spec c with ⟨hn, he⟩ | ⟨l, rest, rfl, hn, he⟩
    · right
      refine ⟨?_, .eof c hn⟩
      simp only [comment, he]
      split
      · rfl
      · exact comment_nil f
    · simp only [comment, he]
      by_cases hev : trailingBackslashes (stripCR l) % 2 = 0
      · left
        simp only [hev, if_true]
        exact ⟨l ++ ['\n'], by simp, .last l hn hev⟩
      · simp only [hev, if_false]
        have hodd : trailingBackslashes (stripCR l) % 2 = 1 := by omega
        rcases ih rest (by simp at hlen; omega) with ⟨b, hb, hcb⟩ | ⟨h0, hob⟩
        · left
          refine ⟨l ++ '\n' :: b, ?_, .cont l b hn hodd hcb⟩
          simp only [List.append_assoc, List.cons_append]
          rw [← hb]
        · right
          exact ⟨h0, .cont l rest hn hodd hob⟩

theorem headP_dropWhile (p : Char → Bool) (s : Str) : headP p (s.dropWhile p) = false := by
  induction s with
  | nil => rfl
  | cons c s ih =>
    simp only [List.dropWhile_cons]
    split
    · exact ih
    · rename_i h; simpa [headP] using h

theorem allP_takeWhile (p : Char → Bool) (s : Str) : allP p (s.takeWhile p) := by
  induction s with
  | nil => exact allP_nil p
  | cons d s ih =>
    simp only [List.takeWhile_cons]
    split
    · rename_i hd
      intro c hc
      simp only [List.mem_cons] at hc
      rcases hc with rfl | hc
      · exact hd
      · exact ih c hc
    · exact allP_nil p

def isTriviaStart (c : Char) : Bool := isWs c || c == '#'

theorem spaceF_spec : ∀ (f : Nat) (s : Str), s.length < f →
    ∃ tr e, s = tr ++ e ++ spaceF f s ∧ Trivia tr ∧ EndComment e ∧ (e ≠ [] → spaceF f s = []) ∧
      headP isTriviaStart (spaceF f s) = false := by
  intro f
  induction f with
  | zero => intro s h; omega
  | succ f ih =>
    intro s hlen
    obtain ⟨w, hw, hsplit⟩ : ∃ w, Trivia w ∧ s = w ++ trimStart s :=
      ⟨s.takeWhile isWs, trivia_ws (allP_takeWhile isWs s), (List.takeWhile_append_dropWhile).symm⟩
    have hhd : headP isWs (trimStart s) = false := headP_dropWhile isWs s
    have htl : (trimStart s).length ≤ s.length := trimStart_length s
    simp only [spaceF]
    split
    · rename_i c heq
      rw [heq] at hsplit htl
      simp only [List.length_cons] at htl
      rcases comment_spec (c.length + 1) c (by omega) with ⟨b, hb, hcb⟩ | ⟨h0, hob⟩
      · have hcl := comment_length (c.length + 1) c
        obtain ⟨tr, e, he, htr, hee, hen, hh⟩ := ih (comment (c.length + 1) c) (by omega)
        refine ⟨w ++ ('#' :: b ++ tr), e, ?_, trivia_append hw (.comment b tr hcb htr), hee, hen, hh⟩
        have : s = w ++ '#' :: (b ++ comment (c.length + 1) c) := by rw [← hb]; exact hsplit
        rw [this]
        have hx : b ++ comment (c.length + 1) c = b ++ (tr ++ e ++ spaceF f (comment (c.length + 1) c)) := by rw [← he]
        rw [hx]
        simp
      · refine ⟨w, '#' :: c, ?_, hw, .open c hob, fun _ => by rw [h0, spaceF_nil], by rw [h0, spaceF_nil]; rfl⟩
        rw [h0, spaceF_nil, List.append_nil]
        exact hsplit
    · rename_i hne
      refine ⟨w, [], by simpa using hsplit, hw, .none, fun h => absurd rfl h, ?_⟩
      cases hts : trimStart s with
      | nil => rfl
      | cons c r =>
        rw [hts] at hhd
        simp only [headP] at hhd
        simp only [headP, isTriviaStart, hhd, Bool.false_or, beq_eq_false_iff_ne]
        intro hc
        exact hne r (by rw [hts, hc])

theorem space_spec (s : Str) :
    ∃ tr e, s = tr ++ e ++ space s ∧ Trivia tr ∧ EndComment e ∧ (e ≠ [] → space s = []) ∧
      headP isTriviaStart (space s) = false :=
  spaceF_spec (s.length + 1) s (by omega)

theorem space_idem (s : Str) : space (space s) = space s := by
  obtain ⟨_, _, _, _, _, _, hh⟩ := space_spec s
  cases h : space s with
  | nil => exact space_nil
  | cons c r =>
    rw [h] at hh
    simp only [headP, isTriviaStart, Bool.or_eq_false_iff, beq_eq_false_iff_ne] at hh
    exact space_stop c r hh.1 hh.2

theorem token_space (f : Nat) (s : Str) : token f (space s) = token f s := by
  cases f with
  | zero => simp [token]
  | succ f => rw [token, token, space_idem]

/-! ### inversion of the rules for simple tokens -/

theorem split_while (p : Char → Bool) (s : Str) :
    ∃ a, s = a ++ s.dropWhile p ∧ allP p a ∧ headP p (s.dropWhile p) = false :=
  ⟨s.takeWhile p, (List.takeWhile_append_dropWhile).symm, allP_takeWhile p s, headP_dropWhile p s⟩

theorem split_while' (p : Char → Bool) (s : Str) :
    ∃ a, s = a ++ s.dropWhile p ∧ allP p a ∧ headP p (s.dropWhile p) = false ∧ s.takeWhile p = a :=
  ⟨s.takeWhile p, (List.takeWhile_append_dropWhile).symm, allP_takeWhile p s, headP_dropWhile p s, rfl⟩

theorem ident1_inv {s r : Str} (h : ident1 s = some r) :
    ∃ x, s = x ++ r ∧ IsIdent x ∧ headP isIdChar r = false := by
  cases s with
  | nil => simp [ident1] at h
  | cons c s =>
    simp only [ident1] at h
    split at h
    · rename_i hc
      simp only [Option.some.injEq] at h
      subst h
      obtain ⟨a, ha, hall, hh⟩ := split_while isIdChar s
      refine ⟨c :: a, ?_, .mk c a hc hall, hh⟩
      simp only [List.cons_append, ident0]
      rw [← ha]
    · simp at h

theorem modThenIdent_inv {c : Char} {cs r : Str} (hc : isIdStart c = true) (h : modThenIdent cs = some r) :
    ∃ p, cs = p ++ r ∧ IsWord (c :: p) ∧ (Token.word (c :: p)).glues r = false := by
  obtain ⟨a, ha, hall, hh⟩ := split_while isIdChar cs
  have hca : allP isIdChar (c :: a) := by
    intro x hx; simp only [List.mem_cons] at hx; rcases hx with rfl | hx
    · exact idstart_idchar _ hc
    · exact hall x hx
  unfold modThenIdent at h
  split at h
  · rename_i rest heq
    have heq' : cs.dropWhile isIdChar = ':' :: ':' :: rest := heq
    rw [heq'] at ha
    have key : ∀ sg rest', (sg = [] ∨ sg = ['@'] ∨ sg = ['$']) → rest = sg ++ rest' → ident1 rest' = some r →
        ∃ p, cs = p ++ r ∧ IsWord (c :: p) ∧ (Token.word (c :: p)).glues r = false := by
      intro sg rest' hsg hrest hid
      obtain ⟨x, hx, hix, hxr⟩ := ident1_inv hid
      refine ⟨a ++ ':' :: ':' :: sg ++ x, ?_, ?_, ?_⟩
      · rw [ha, hrest, hx]; simp
      · have := IsWord.qualified (c :: a) sg x (.mk c a hc hall) hsg hix
        simpa using this
      · have hcol : hasColons (c :: (a ++ ':' :: ':' :: sg ++ x)) = true := by
          have := hasColons_app_colons (c :: a) (sg ++ x)
          simpa using this
        have hcol' : hasColons (c :: (a ++ ':' :: ':' :: (sg ++ x))) = true := by simpa using hcol
        simp [Token.glues, hxr, hcol']
    split at h
    · rename_i r' ; exact key ['@'] r' (by simp) rfl h
    · rename_i r' ; exact key ['$'] r' (by simp) rfl h
    · exact key [] rest (by simp) rfl h
  · rename_i hne
    simp only [Option.some.injEq] at h
    have hr : cs.dropWhile isIdChar = r := h
    rw [hr] at ha hh
    refine ⟨a, ha, .plain _ (.mk c a hc hall), ?_⟩
    have hsc : startsColons r = false := by
      cases hs : startsColons r with
      | false => rfl
      | true =>
        exfalso
        cases r with
        | nil => simp [startsColons] at hs
        | cons x r =>
          cases r with
          | nil => simp [startsColons] at hs
          | cons y r =>
            simp only [startsColons, Bool.and_eq_true, beq_iff_eq] at hs
            obtain ⟨rfl, rfl⟩ := hs
            exact hne r hr
    simp [Token.glues, hh, hsc]

theorem digits1_inv {s r : Str} (h : digits1 s = some r) :
    ∃ d, s = d ++ r ∧ Digits1 d ∧ headP Char.isDigit r = false := by
  cases s with
  | nil => simp [digits1] at h
  | cons c s =>
    simp only [digits1] at h
    split at h
    · rename_i hc
      simp only [Option.some.injEq] at h
      subst h
      obtain ⟨a, ha, hall, hh⟩ := split_while Char.isDigit s
      refine ⟨c :: a, ?_, ⟨by simp, ?_⟩, hh⟩
      · simp only [List.cons_append]; rw [← ha]
      · intro x hx; simp only [List.mem_cons] at hx; rcases hx with rfl | hx
        · exact hc
        · exact hall x hx
    · simp at h

theorem fracPart_inv {s s2 : Str} (h : fracPart s = some s2) :
    ∃ fr, s = fr ++ s2 ∧ ((fr = [] ∧ headP (· == '.') s2 = false) ∨
      (∃ d, fr = '.' :: d ∧ Digits1 d ∧ headP Char.isDigit s2 = false)) := by
  unfold fracPart at h
  split at h
  · rename_i r
    obtain ⟨d, hd, hd1, hh⟩ := digits1_inv h
    exact ⟨'.' :: d, by simp [hd], Or.inr ⟨d, rfl, hd1, hh⟩⟩
  · rename_i hne
    simp only [Option.some.injEq] at h
    subst h
    refine ⟨[], rfl, Or.inl ⟨rfl, ?_⟩⟩
    cases s with
    | nil => rfl
    | cons c s =>
      simp only [headP, beq_eq_false_iff_ne, ne_eq]
      intro hc
      exact hne s (by rw [hc])

theorem expPart_inv {s r : Str} (h : expPart s = some r) :
    ∃ ex, s = ex ++ r ∧ ((ex = [] ∧ headP isExpMark r = false) ∨
      (∃ m sg d, ex = m :: sg ++ d ∧ isExpMark m = true ∧ (sg = [] ∨ sg = ['+'] ∨ sg = ['-']) ∧ Digits1 d ∧
        headP Char.isDigit r = false)) := by
  unfold expPart at h
  split at h
  · rename_i c r0
    split at h
    · rename_i hm
      have hm' : isExpMark c = true := hm
      split at h
      · rename_i r'
        obtain ⟨d, hd, hd1, hh⟩ := digits1_inv h
        exact ⟨c :: '+' :: d, by simp [hd], Or.inr ⟨c, ['+'], d, rfl, hm', by simp, hd1, hh⟩⟩
      · rename_i r'
        obtain ⟨d, hd, hd1, hh⟩ := digits1_inv h
        exact ⟨c :: '-' :: d, by simp [hd], Or.inr ⟨c, ['-'], d, rfl, hm', by simp, hd1, hh⟩⟩
      · obtain ⟨d, hd, hd1, hh⟩ := digits1_inv h
        exact ⟨c :: d, by simp [hd], Or.inr ⟨c, [], d, rfl, hm', by simp, hd1, hh⟩⟩
    · rename_i hm
      simp only [Option.some.injEq] at h
      subst h
      refine ⟨[], rfl, Or.inl ⟨rfl, ?_⟩⟩
      simp only [headP, isExpMark]
      simpa using hm
  · simp only [Option.some.injEq] at h
    subst h
    exact ⟨[], rfl, Or.inl ⟨rfl, rfl⟩⟩

theorem numRest_inv {c : Char} {cs r : Str} (hc : c.isDigit = true) (h : numRest cs = some r) :
    ∃ p, cs = p ++ r ∧ IsNum (c :: p) ∧ (Token.num (c :: p)).glues r = false := by
  rw [numRest_eq] at h
  obtain ⟨i', hi, hall, hh⟩ := split_while Char.isDigit cs
  cases hf : fracPart (cs.dropWhile Char.isDigit) with
  | none => rw [hf] at h; simp at h
  | some s2 =>
    rw [hf] at h
    simp only [Option.bind_some] at h
    obtain ⟨fr, hfr, hfr'⟩ := fracPart_inv hf
    obtain ⟨ex, hex, hex'⟩ := expPart_inv h
    have hci : Digits1 (c :: i') := ⟨by simp, fun x hx => by
      simp only [List.mem_cons] at hx; rcases hx with rfl | hx
      · exact hc
      · exact hall x hx⟩
    have hfr1 : fr = [] ∨ ∃ d, fr = '.' :: d ∧ Digits1 d := by
      rcases hfr' with ⟨h1, _⟩ | ⟨d, h1, h2, _⟩
      · exact Or.inl h1
      · exact Or.inr ⟨d, h1, h2⟩
    have hex1 : ex = [] ∨ ∃ m sg d, ex = m :: sg ++ d ∧ isExpMark m = true ∧ (sg = [] ∨ sg = ['+'] ∨ sg = ['-']) ∧ Digits1 d := by
      rcases hex' with ⟨h1, _⟩ | ⟨m, sg, d, h1, h2, h3, h4, _⟩
      · exact Or.inl h1
      · exact Or.inr ⟨m, sg, d, h1, h2, h3, h4⟩
    refine ⟨i' ++ fr ++ ex, ?_, ?_, ?_⟩
    · rw [hi, hfr, hex]; simp
    · have := IsNum.mk (c :: i') fr ex hci hfr1 hex1
      simpa using this
    · have hany1 : (c :: i').any isExpMark = false := any_digits hci.2 fun x hx => (digit_facts x hx).1
      have hany2 : (c :: i').any (· == '.') = false := any_digits hci.2 fun x hx => by
        simp only [beq_eq_false_iff_ne]; exact (digit_facts x hx).2.1
      have e : c :: (i' ++ fr ++ ex) = (c :: i') ++ fr ++ ex := by simp
      rw [e]
      simp only [Token.glues, List.any_append, hany1, hany2, Bool.false_or]
      rcases hex' with ⟨rfl, hre⟩ | ⟨m, sg, d, rfl, hm, _, _, hrd⟩
      · -- no exponent: `r = s2`
        simp only [List.nil_append] at hex
        subst hex
        rcases hfr' with ⟨rfl, hdot⟩ | ⟨d, rfl, hd, hrd⟩
        · simp only [List.nil_append] at hfr
          rw [hfr] at hh
          simp [hh, hre, hdot]
        · simp [hrd, hre]
      · simp [hrd, hm]

theorem sym_op_inv {c : Char} (cs : Str) (hc : isHdOp c = true) :
    ∃ t, cs = t ++ cs.dropWhile isTlOp ∧ cs.takeWhile isTlOp = t ∧ IsSym (c :: t) ∧
      (Token.sym (c :: t)).glues (cs.dropWhile isTlOp) = false := by
  obtain ⟨t, ht, hall, hh⟩ := split_while isTlOp cs
  have hf := hdop_facts c hc
  have hne1 : c :: t ≠ ['.'] := by intro h; simp at h; exact hf.2.2.2.2.2.2.2 h.1
  have hne2 : c :: t ≠ ['.', '.'] := by intro h; simp at h; exact hf.2.2.2.2.2.2.2 h.1
  refine ⟨t, ht, ?_, .op c t hc hall, ?_⟩
  · have := takeWhile_app hall hh
    rw [← ht] at this
    exact this
  · simp only [Token.glues, hne1, hne2, if_false, hf.2.2.2.2.2.2.2, hc, if_true]
    exact hh

/-! ### the dispatch of `token`, inverted -/

set_option linter.unusedSimpArgs false

theorem map_eq_some {α β : Type} {f : α → β} {x : Option α} {y : β} (h : x.map f = some y) :
    ∃ a, x = some a ∧ f a = y := by
  cases x with
  | none => simp at h
  | some a => exact ⟨a, rfl, by simpa using h⟩

theorem token_cons_cases (f : Nat) (c : Char) (cs : Str) (h1 : isWs c = false) (h2 : c ≠ '#')
    (res : Option Token × Str) (h : token (f + 1) (c :: cs) = some res) :
    (isIdStart c = true ∧ ∃ r, modThenIdent cs = some r ∧ res = (some (.word (consumed (c :: cs) r)), r)) ∨
    (c = '$' ∧ ∃ r, ident1 cs = some r ∧ res = (some (.var (consumed (c :: cs) r)), r)) ∨
    (c = '@' ∧ ∃ r, ident1 cs = some r ∧ res = (some (.fmt (consumed (c :: cs) r)), r)) ∨
    (c.isDigit = true ∧ ∃ r, numRest cs = some r ∧ res = (some (.num (consumed (c :: cs) r)), r)) ∨
    (isHdOp c = true ∧ res = (some (.sym (c :: cs.takeWhile isTlOp)), cs.dropWhile isTlOp)) ∨
    (c = '.' ∧ ((∃ r, cs = '.' :: r ∧ res = (some (.sym ['.', '.']), r)) ∨
      (∃ d r, cs = d :: r ∧ isIdStart d = true ∧ res = (some (.sym ('.' :: d :: r.takeWhile isIdChar)), ident0 r)) ∨
      (headP (fun b => isIdStart b || b == '.') cs = false ∧ res = (some (.sym ['.']), cs)))) ∨
    ((c = ':' ∨ c = ';' ∨ c = ',' ∨ c = '?') ∧ res = (some (.sym [c]), cs)) ∨
    (c = '"' ∧ ∃ ps r, strLoop f cs [] = some (ps, r) ∧ res = (some (.str ps), r)) ∨
    (isOpen c = true ∧ ∃ t r, block f c cs = some (t, r) ∧ res = (some t, r)) ∨
    (Quiet c ∧ res = (none, c :: cs)) := by
  rw [token_cons f c cs h1 h2] at h
  by_cases c1 : isIdStart c = true
  · simp only [c1, if_true, Bool.false_eq_true, if_false] at h
    obtain ⟨r, hr, he⟩ := map_eq_some h
    exact Or.inl ⟨c1, r, hr, he.symm⟩
  simp only [c1, Bool.false_eq_true, if_false] at h
  by_cases c2 : c = '$'
  · simp only [c2, if_true, Bool.false_eq_true, if_false] at h
    obtain ⟨r, hr, he⟩ := map_eq_some h
    subst c2
    exact Or.inr (Or.inl ⟨rfl, r, hr, he.symm⟩)
  simp only [c2, Bool.false_eq_true, if_false] at h
  by_cases c3 : c = '@'
  · simp only [c3, if_true, Bool.false_eq_true, if_false] at h
    obtain ⟨r, hr, he⟩ := map_eq_some h
    subst c3
    exact Or.inr (Or.inr (Or.inl ⟨rfl, r, hr, he.symm⟩))
  simp only [c3, Bool.false_eq_true, if_false] at h
  by_cases c4 : c.isDigit = true
  · simp only [c4, if_true, Bool.false_eq_true, if_false] at h
    obtain ⟨r, hr, he⟩ := map_eq_some h
    exact Or.inr (Or.inr (Or.inr (Or.inl ⟨c4, r, hr, he.symm⟩)))
  simp only [c4, Bool.false_eq_true, if_false] at h
  by_cases c5 : isHdOp c = true
  · simp only [c5, if_true, Bool.false_eq_true, if_false, Option.some.injEq] at h
    exact Or.inr (Or.inr (Or.inr (Or.inr (Or.inl ⟨c5, h.symm⟩))))
  simp only [c5, Bool.false_eq_true, if_false] at h
  by_cases c6 : c = '.'
  · simp only [c6, if_true, Bool.false_eq_true, if_false] at h
    refine Or.inr (Or.inr (Or.inr (Or.inr (Or.inr (Or.inl ⟨c6, ?_⟩)))))
    cases cs with
    | nil => simp only [Option.some.injEq] at h; exact Or.inr (Or.inr ⟨rfl, h.symm⟩)
    | cons d r =>
      simp only at h
      by_cases d1 : d = '.'
      · simp only [d1, if_true, Bool.false_eq_true, if_false, Option.some.injEq] at h
        exact Or.inl ⟨r, by rw [d1], h.symm⟩
      simp only [d1, Bool.false_eq_true, if_false] at h
      by_cases d2 : isIdStart d = true
      · simp only [d2, if_true, Bool.false_eq_true, if_false, Option.some.injEq] at h
        exact Or.inr (Or.inl ⟨d, r, rfl, d2, h.symm⟩)
      simp only [d2, Bool.false_eq_true, if_false, Option.some.injEq] at h
      refine Or.inr (Or.inr ⟨?_, h.symm⟩)
      simp only [headP, Bool.or_eq_false_iff, beq_eq_false_iff_ne]
      exact ⟨by simpa using d2, d1⟩
  simp only [c6, Bool.false_eq_true, if_false] at h
  by_cases c7 : (decide (c = ':') || decide (c = ';') || decide (c = ',') || decide (c = '?')) = true
  · simp only [c7, if_true, Bool.false_eq_true, if_false, Option.some.injEq] at h
    refine Or.inr (Or.inr (Or.inr (Or.inr (Or.inr (Or.inr (Or.inl ⟨?_, h.symm⟩))))))
    simp only [Bool.or_eq_true, decide_eq_true_eq] at c7
    rcases c7 with ((h | h) | h) | h <;> simp [h]
  simp only [c7, Bool.false_eq_true, if_false] at h
  by_cases c8 : c = '"'
  · simp only [c8, if_true, Bool.false_eq_true, if_false] at h
    obtain ⟨⟨ps, r⟩, hr, he⟩ := map_eq_some h
    exact Or.inr (Or.inr (Or.inr (Or.inr (Or.inr (Or.inr (Or.inr (Or.inl ⟨c8, ps, r, hr, he.symm⟩)))))))
  simp only [c8, Bool.false_eq_true, if_false] at h
  by_cases c9 : (decide (c = '(') || decide (c = '[') || decide (c = '{')) = true
  · simp only [c9, if_true, Bool.false_eq_true, if_false] at h
    obtain ⟨⟨t, r⟩, hr, he⟩ := map_eq_some h
    exact Or.inr (Or.inr (Or.inr (Or.inr (Or.inr (Or.inr (Or.inr (Or.inr (Or.inl ⟨c9, t, r, hr, he.symm⟩))))))))
  simp only [c9, Bool.false_eq_true, if_false, Option.some.injEq] at h
  refine Or.inr (Or.inr (Or.inr (Or.inr (Or.inr (Or.inr (Or.inr (Or.inr (Or.inr ⟨?_, h.symm⟩))))))))
  simp only [Bool.or_eq_true, decide_eq_true_eq, not_or] at c7
  refine ⟨?_, c6, c7.1.1.1, ?_⟩
  · cases hi : isIdChar c with
    | false => rfl
    | true =>
      have := (idchar_facts c hi).2.2.2.2.2.2.2.2.2.2.2.2.2.2.2.2.2.2.2.2 (by simpa using c1)
      exact absurd this c4
  · cases ht : isTlOp c with
    | false => rfl
    | true => exact absurd (tlop_hdop c ht) c5

/-! ### whatever the lexer accepts is a layout -/

theorem token_none_inv (f : Nat) (s r : Str) (h : token f s = some (none, r)) :
    r = space s ∧ QuietHead r := by
  cases f with
  | zero => simp [token] at h
  | succ f =>
    obtain ⟨_, _, _, _, _, _, hh⟩ := space_spec s
    rw [← token_space] at h
    cases hsp : space s with
    | nil =>
      rw [hsp] at h
      simp only [token, space_nil, Option.some.injEq, Prod.mk.injEq, true_and] at h
      subst h
      exact ⟨rfl, trivial⟩
    | cons c cs =>
      rw [hsp] at h hh
      simp only [headP, isTriviaStart, Bool.or_eq_false_iff, beq_eq_false_iff_ne] at hh
      rcases token_cons_cases f c cs hh.1 hh.2 _ h with
        ⟨_, _, _, he⟩ | ⟨_, _, _, he⟩ | ⟨_, _, _, he⟩ | ⟨_, _, _, he⟩ | ⟨_, he⟩ |
        ⟨_, ⟨_, _, he⟩ | ⟨_, _, _, _, he⟩ | ⟨_, he⟩⟩ | ⟨_, he⟩ | ⟨_, _, _, _, he⟩ | ⟨_, _, _, _, he⟩ | ⟨hq, he⟩
      all_goals simp only [Prod.mk.injEq, reduceCtorEq, false_and] at he
      exact ⟨he.2, by rw [he.2]; exact hq⟩

structure Inv (f : Nat) : Prop where
  tok : ∀ s t r, token f s = some (some t, r) →
    ∃ tr l, s = tr ++ l ++ r ∧ Trivia tr ∧ Spells t l ∧ t.glues r = false
  str : ∀ s ps r, strLoop f s [] = some (ps, r) → ∃ body, s = body ++ r ∧ SpellsParts ps body
  toks : ∀ s ts r, tokens f s = some (ts, r) →
    ∃ body e, s = body ++ e ++ r ∧ Seq ts body ∧ EndComment e ∧ (e ≠ [] → r = []) ∧ space r = r ∧ QuietHead (e ++ r)
  blk : ∀ o s t r, block f o s = some (t, r) →
    ∃ ts body, t = .block o (ts ++ [.sym [closeOf o]]) ∧ s = body ++ closeOf o :: r ∧ Seq ts body
  esc : ∀ s p r, escape f s = some (p, r) →
    (∃ c e, p = .chr c ∧ s = e ++ r ∧ IsEscape c e) ∨
    (∃ ts body, p = .interp (.block '(' (ts ++ [.sym [')']])) ∧ s = '(' :: body ++ ')' :: r ∧ Seq ts body)

theorem punct_glues (c : Char) (hc : c = ':' ∨ c = ';' ∨ c = ',' ∨ c = '?') (r : Str) :
    (Token.sym [c]).glues r = false := by
  rcases hc with rfl | rfl | rfl | rfl <;> simp [Token.glues, isHdOp]

theorem token_some_inv (f : Nat) (ih : Inv f) (s : Str) (t : Token) (r : Str)
    (h : token (f + 1) s = some (some t, r)) :
    ∃ tr l, s = tr ++ l ++ r ∧ Trivia tr ∧ Spells t l ∧ t.glues r = false := by
  obtain ⟨tr, e, hs, htr, _, hen, hh⟩ := space_spec s
  rw [← token_space] at h
  cases hsp : space s with
  | nil =>
    rw [hsp] at h
    simp [token, space_nil] at h
  | cons c cs =>
    rw [hsp] at h hh hs hen
    have he : e = [] := by
      cases e with
      | nil => rfl
      | cons x e => exact absurd (hen (by simp)) (by simp)
    subst he
    simp only [List.append_nil] at hs
    simp only [headP, isTriviaStart, Bool.or_eq_false_iff, beq_eq_false_iff_ne] at hh
    refine ⟨tr, ?_⟩
    suffices ∃ l, c :: cs = l ++ r ∧ Spells t l ∧ t.glues r = false by
      obtain ⟨l, h1, h2, h3⟩ := this
      exact ⟨l, by rw [hs, h1]; simp, htr, h2, h3⟩
    rcases token_cons_cases f c cs hh.1 hh.2 _ h with
      ⟨hc, r', hr, he⟩ | ⟨rfl, r', hr, he⟩ | ⟨rfl, r', hr, he⟩ | ⟨hc, r', hr, he⟩ | ⟨hc, he⟩ |
      ⟨rfl, ⟨r', rfl, he⟩ | ⟨d, r', rfl, hd, he⟩ | ⟨hd, he⟩⟩ | ⟨hc, he⟩ | ⟨rfl, ps, r', hr, he⟩ | ⟨hc, t', r', hr, he⟩ | ⟨_, he⟩
    · obtain ⟨p, hp, hw, hg⟩ := modThenIdent_inv hc hr
      simp only [Prod.mk.injEq, Option.some.injEq] at he
      obtain ⟨rfl, rfl⟩ := he
      subst hp
      rw [show c :: (p ++ r) = (c :: p) ++ r from rfl, consumed_app]
      exact ⟨c :: p, rfl, .word _ hw, hg⟩
    · obtain ⟨x, hx, hix, hg⟩ := ident1_inv hr
      simp only [Prod.mk.injEq, Option.some.injEq] at he
      obtain ⟨rfl, rfl⟩ := he
      subst hx
      rw [show '$' :: (x ++ r) = ('$' :: x) ++ r from rfl, consumed_app]
      exact ⟨'$' :: x, rfl, .var x hix, hg⟩
    · obtain ⟨x, hx, hix, hg⟩ := ident1_inv hr
      simp only [Prod.mk.injEq, Option.some.injEq] at he
      obtain ⟨rfl, rfl⟩ := he
      subst hx
      rw [show '@' :: (x ++ r) = ('@' :: x) ++ r from rfl, consumed_app]
      exact ⟨'@' :: x, rfl, .fmt x hix, hg⟩
    · obtain ⟨p, hp, hw, hg⟩ := numRest_inv hc hr
      simp only [Prod.mk.injEq, Option.some.injEq] at he
      obtain ⟨rfl, rfl⟩ := he
      subst hp
      rw [show c :: (p ++ r) = (c :: p) ++ r from rfl, consumed_app]
      exact ⟨c :: p, rfl, .num _ hw, hg⟩
    · obtain ⟨tl, h1, h2, h3, h4⟩ := sym_op_inv cs hc
      simp only [Prod.mk.injEq, Option.some.injEq] at he
      obtain ⟨rfl, rfl⟩ := he
      rw [h2]
      exact ⟨c :: tl, by simp only [List.cons_append]; rw [← h1], .sym _ h3, h4⟩
    · simp only [Prod.mk.injEq, Option.some.injEq] at he
      obtain ⟨rfl, rfl⟩ := he
      exact ⟨['.', '.'], rfl, .sym _ .dotdot, by simp [Token.glues]⟩
    · simp only [Prod.mk.injEq, Option.some.injEq] at he
      obtain ⟨rfl, rfl⟩ := he
      obtain ⟨a, ha, hall, hhd, htw⟩ := split_while' isIdChar r'
      have hdf := idchar_facts d (idstart_idchar d hd)
      rw [htw]
      refine ⟨'.' :: d :: a, ?_, .sym _ (.field _ (.mk d a hd hall)), ?_⟩
      · simp only [List.cons_append, ident0]; rw [← ha]
      · have hne1 : '.' :: d :: a ≠ ['.'] := by simp
        have hne2 : '.' :: d :: a ≠ ['.', '.'] := by intro h; simp at h; exact hdf.2.2.2.2.2.1 h.1
        simp only [Token.glues, hne1, hne2, if_false, if_true, ident0]
        exact hhd
    · simp only [Prod.mk.injEq, Option.some.injEq] at he
      obtain ⟨rfl, rfl⟩ := he
      exact ⟨['.'], rfl, .sym _ .dot, by simp only [Token.glues, if_true]; exact hd⟩
    · simp only [Prod.mk.injEq, Option.some.injEq] at he
      obtain ⟨rfl, rfl⟩ := he
      exact ⟨[c], rfl, .sym _ (.punct c hc), punct_glues c hc _⟩
    · obtain ⟨body, hb, hps⟩ := ih.str cs ps r' hr
      simp only [Prod.mk.injEq, Option.some.injEq] at he
      obtain ⟨rfl, rfl⟩ := he
      exact ⟨'"' :: body, by rw [hb]; rfl, .str ps body hps, rfl⟩
    · obtain ⟨ts, body, ht, hb, hseq⟩ := ih.blk c cs t' r' hr
      simp only [Prod.mk.injEq, Option.some.injEq] at he
      obtain ⟨rfl, rfl⟩ := he
      subst ht
      exact ⟨c :: body ++ [closeOf c], by rw [hb]; simp, .block c ts body hc hseq, rfl⟩
    · simp at he

theorem parts_with_lit {l : Str} (hall : allP isStrBody l) {ps : List SPart} {rest : Str}
    (h : SpellsParts ps rest) (hh : headP isStrBody rest = false) :
    SpellsParts ((if l.isEmpty = true then [] else [] ++ [SPart.lit l]) ++ ps) (l ++ rest) := by
  cases l with
  | nil => simpa using h
  | cons c l => simpa using SpellsParts.lit (c :: l) ps rest (by simp) hall h hh

theorem unicode4_inv {s r : Str} {ch : Char} (h : unicode4 s = some (ch, r)) :
    ∃ e, s = e ++ r ∧ IsEscape ch ('u' :: e) := by
  unfold unicode4 at h
  split at h
  · rename_i a b c d r0
    cases ha : hexVal a <;> cases hb : hexVal b <;> cases hc : hexVal c <;> cases hd : hexVal d <;>
      simp [ha, hb, hc, hd] at h
    rename_i v1 v2 v3 v4
    obtain ⟨hcond, rfl, rfl⟩ := h
    exact ⟨[a, b, c, d], rfl, .u a b c d v1 v2 v3 v4 ha hb hc hd hcond⟩
  · simp at h

theorem inv_step (f : Nat) (ih : Inv f) : Inv (f + 1) := by
  refine ⟨token_some_inv f ih, ?_, ?_, ?_, ?_⟩
  · -- strLoop
    intro s ps r h
    rw [strLoop] at h
    obtain ⟨l, hl, hall, hhd, htw⟩ := split_while' isStrBody s
    rw [htw] at h
    cases hd : s.dropWhile isStrBody with
    | nil => rw [hd] at h; simp at h
    | cons c r0 =>
      rw [hd] at h hl hhd
      simp only at h
      by_cases hq : c = '"'
      · simp only [hq, if_true, Option.some.injEq, Prod.mk.injEq] at h
        obtain ⟨rfl, rfl⟩ := h
        refine ⟨l ++ ['"'], by rw [hl, hq]; simp, ?_⟩
        have := parts_with_lit hall SpellsParts.nil (by decide)
        simpa using this
      · simp only [hq, if_false] at h
        have hbs : c = '\\' := by
          simp only [headP, isStrBody, Bool.and_eq_false_iff, bne_eq_false_iff_eq] at hhd
          rcases hhd with h | h
          · exact h
          · exact absurd h hq
        subst hbs
        cases hes : escape f r0 with
        | none => rw [hes] at h; simp at h
        | some pr =>
          obtain ⟨p, r'⟩ := pr
          rw [hes] at h
          simp only at h
          rw [strLoop_acc] at h
          obtain ⟨⟨ps', r''⟩, hs', heq⟩ := map_eq_some h
          simp only [Prod.mk.injEq] at heq
          obtain ⟨rfl, rfl⟩ := heq
          obtain ⟨body', hb', hps'⟩ := ih.str r' ps' r'' hs'
          rcases ih.esc r0 p r' hes with ⟨ch, e, rfl, he, hesc⟩ | ⟨ts, body, rfl, he, hseq⟩
          · refine ⟨l ++ '\\' :: e ++ body', by rw [hl, he, hb']; simp, ?_⟩
            have := parts_with_lit hall (SpellsParts.chr ch e ps' body' hesc hps') rfl
            simpa using this
          · refine ⟨l ++ '\\' :: '(' :: body ++ ')' :: body', by rw [hl, he, hb']; simp, ?_⟩
            have := parts_with_lit hall (SpellsParts.interp ts body ps' body' hseq hps') rfl
            simpa using this
  · -- tokens
    intro s ts r h
    rw [tokens] at h
    cases ht : token f s with
    | none => rw [ht] at h; simp at h
    | some res =>
      obtain ⟨ot, s'⟩ := res
      rw [ht] at h
      cases ot with
      | none =>
        simp only [Option.some.injEq, Prod.mk.injEq] at h
        obtain ⟨rfl, rfl⟩ := h
        obtain ⟨hr, hq⟩ := token_none_inv f s s' ht
        obtain ⟨tr, e, hs, htr, hee, hen, _⟩ := space_spec s
        rw [← hr] at hs hen
        refine ⟨tr, e, hs, .nil tr htr, hee, hen, by rw [hr, space_idem], ?_⟩
        cases hee with
        | none => exact hq
        | «open» b _ => exact quiet_hash
      | some t =>
        simp only at h
        obtain ⟨⟨ts', r'⟩, hts, heq⟩ := map_eq_some h
        simp only [Prod.mk.injEq] at heq
        obtain ⟨rfl, rfl⟩ := heq
        obtain ⟨tr, l, hs, htr, hsp, hg⟩ := ih.tok s t s' ht
        obtain ⟨body, e, hs', hseq, hee, hen, hsr, hq⟩ := ih.toks s' ts' r' hts
        refine ⟨tr ++ l ++ body, e, by rw [hs, hs']; simp, ?_, hee, hen, hsr, hq⟩
        refine .cons tr t l ts' body htr hsp hseq ?_
        rw [hs', List.append_assoc, glues_app_quiet t body (e ++ r') hq] at hg
        exact hg
  · -- block
    intro o s t r h
    rw [block] at h
    cases hts : tokens f s with
    | none => rw [hts] at h; simp at h
    | some res =>
      obtain ⟨ts, s1⟩ := res
      rw [hts] at h
      simp only at h
      obtain ⟨body, e, hs, hseq, hee, hen, hsr, _⟩ := ih.toks s ts s1 hts
      rw [hsr] at h
      cases s1 with
      | nil => simp at h
      | cons c r' =>
        simp only at h
        have he : e = [] := by
          cases e with
          | nil => rfl
          | cons x e => exact absurd (hen (by simp)) (by simp)
        subst he
        split at h
        · rename_i hc
          simp only [Option.some.injEq, Prod.mk.injEq] at h
          obtain ⟨rfl, rfl⟩ := h
          exact ⟨ts, body, by rw [hc], by rw [hs, hc]; simp, hseq⟩
        · simp at h
  · -- escape
    intro s p r h
    cases s with
    | nil => simp [escape] at h
    | cons c r0 =>
      rw [escape] at h
      by_cases c1 : (decide (c = '\\') || decide (c = '/') || decide (c = '"')) = true
      · simp only [c1, if_true, Option.some.injEq, Prod.mk.injEq] at h
        obtain ⟨rfl, rfl⟩ := h
        simp only [Bool.or_eq_true, decide_eq_true_eq] at c1
        exact Or.inl ⟨c, [c], rfl, rfl, .self c (by rcases c1 with (h | h) | h <;> simp [h])⟩
      simp only [c1, Bool.false_eq_true, if_false] at h
      by_cases c2 : c = 'b'
      · simp only [c2, if_true, Option.some.injEq, Prod.mk.injEq] at h
        obtain ⟨rfl, rfl⟩ := h
        exact Or.inl ⟨_, ['b'], rfl, by rw [c2]; rfl, .b⟩
      simp only [c2, if_false] at h
      by_cases c3 : c = 'f'
      · simp only [c3, if_true, Option.some.injEq, Prod.mk.injEq] at h
        obtain ⟨rfl, rfl⟩ := h
        exact Or.inl ⟨_, ['f'], rfl, by rw [c3]; rfl, .f⟩
      simp only [c3, if_false] at h
      by_cases c4 : c = 'n'
      · simp only [c4, if_true, Option.some.injEq, Prod.mk.injEq] at h
        obtain ⟨rfl, rfl⟩ := h
        exact Or.inl ⟨_, ['n'], rfl, by rw [c4]; rfl, .n⟩
      simp only [c4, if_false] at h
      by_cases c5 : c = 'r'
      · simp only [c5, if_true, Option.some.injEq, Prod.mk.injEq] at h
        obtain ⟨rfl, rfl⟩ := h
        exact Or.inl ⟨_, ['r'], rfl, by rw [c5]; rfl, .r⟩
      simp only [c5, if_false] at h
      by_cases c6 : c = 't'
      · simp only [c6, if_true, Option.some.injEq, Prod.mk.injEq] at h
        obtain ⟨rfl, rfl⟩ := h
        exact Or.inl ⟨_, ['t'], rfl, by rw [c6]; rfl, .t⟩
      simp only [c6, if_false] at h
      by_cases c7 : c = 'u'
      · simp only [c7, if_true] at h
        obtain ⟨⟨ch, r'⟩, hu, heq⟩ := map_eq_some h
        simp only [Prod.mk.injEq] at heq
        obtain ⟨rfl, rfl⟩ := heq
        obtain ⟨e, he, hesc⟩ := unicode4_inv hu
        exact Or.inl ⟨ch, 'u' :: e, rfl, by rw [c7, he]; rfl, hesc⟩
      simp only [c7, if_false] at h
      by_cases c8 : c = '('
      · simp only [c8, if_true] at h
        obtain ⟨⟨t, r'⟩, hb, heq⟩ := map_eq_some h
        simp only [Prod.mk.injEq] at heq
        obtain ⟨rfl, rfl⟩ := heq
        obtain ⟨ts, body, rfl, hs, hseq⟩ := ih.blk '(' r0 t r' hb
        refine Or.inr ⟨ts, body, by simp [closeOf], ?_, hseq⟩
        rw [c8, hs]; simp [closeOf]
      simp only [c8, if_false] at h
      simp at h

theorem inv_all : ∀ f, Inv f := by
  intro f
  induction f with
  | zero =>
    exact ⟨fun s t r h => by simp [token] at h, fun s ps r h => by simp [strLoop] at h,
      fun s ts r h => by simp [tokens] at h, fun o s t r h => by simp [block] at h,
      fun s p r h => by simp [escape] at h⟩
  | succ f ih => exact inv_step f ih

/-- **whatever the lexer accepts is a layout of the tokens it returns** -/
theorem layout_of_lex {ts : List Token} {text : Str} (h : lex text = some ts) : Layout ts text := by
  unfold lex at h
  cases hts : tokens (lexFuel text) text with
  | none => rw [hts] at h; simp at h
  | some res =>
    obtain ⟨ts', r⟩ := res
    rw [hts] at h
    simp only at h
    obtain ⟨body, e, hs, hseq, hee, _, hsr, _⟩ := (inv_all _).toks text ts' r hts
    rw [hsr] at h
    split at h
    · rename_i hr
      simp only [Option.some.injEq] at h
      subst h
      have : r = [] := by simpa using hr
      subst this
      exact ⟨body, e, by simpa using hs, hseq, hee⟩
    · simp at h

end Jaq.C15
