/- helper lemmas for Props/C14.lean (CBOR part) -/
import JaqVerif.C14.Cbor
namespace Jaq.C14.CborLemmas
open Jaq Jaq.C14.Yaml Jaq.C14.Cbor

theorem fromBytes_append (a : Bytes) (x : UInt8) : fromBytesBE (a ++ [x]) = fromBytesBE a * 256 + x.toNat := by
  simp [fromBytesBE, List.foldl_append]

theorem foldl_shift (b : Bytes) (k : Nat) :
    b.foldl (fun acc x => acc * 256 + x.toNat) k = k * 256 ^ b.length + fromBytesBE b := by
  induction b generalizing k with
  | nil => simp [fromBytesBE]
  | cons x r ih =>
    simp only [List.foldl_cons, fromBytesBE, List.length_cons]
    rw [ih, ih (0 * 256 + x.toNat)]
    simp [Nat.pow_succ, Nat.add_mul, Nat.mul_assoc, Nat.mul_comm 256]
    omega

theorem natBytesAux_val (fuel n : Nat) (acc : Bytes) (h : n ≤ fuel) :
    fromBytesBE (natBytesAux fuel n acc) = n * 256 ^ acc.length + fromBytesBE acc := by
  induction fuel generalizing n acc with
  | zero =>
    have : n = 0 := by omega
    subst this; simp [natBytesAux]
  | succ f ih =>
    simp only [natBytesAux]
    split
    · rename_i h0; subst h0; simp
    · rename_i h0
      rw [ih (n / 256) _ (by omega)]
      simp only [List.length_cons, fromBytesBE, List.foldl_cons]
      rw [foldl_shift]
      have hm : (UInt8.ofNat (n % 256)).toNat = n % 256 := by
        simp [UInt8.toNat_ofNat']
      rw [hm]
      simp only [fromBytesBE, Nat.pow_succ]
      have := Nat.div_add_mod n 256
      generalize 256 ^ acc.length = p at *
      generalize List.foldl (fun acc x => acc * 256 + x.toNat) 0 acc = q
      have e1 : n / 256 * (p * 256) = 256 * (n / 256 * p) := by
        rw [Nat.mul_comm p 256, ← Nat.mul_assoc, Nat.mul_comm (n / 256) 256, Nat.mul_assoc]
      have e2 : (256 * (n / 256) + n % 256) * p = 256 * (n / 256 * p) + n % 256 * p := by
        rw [Nat.add_mul, Nat.mul_assoc]
      have e3 : n * p = (256 * (n / 256) + n % 256) * p := by rw [this]
      rw [e3, e1, e2]
      simp only [Nat.zero_mul, Nat.zero_add]
      omega

theorem fromBytes_toBytes (n : Nat) : fromBytesBE (toBytesBE n) = n := by
  unfold toBytesBE
  split
  · rename_i h; subst h; rfl
  · rw [natBytesAux_val n n [] (Nat.le_refl _)]; simp [fromBytesBE]

mutual
  def cost : Val → Nat
    | .arr a => 2 + costList a
    | .obj o => 2 + costEntries o
    | _ => 3
  def costList : List Val → Nat
    | [] => 0
    | v :: vs => cost v + 1 + costList vs
  def costEntries : List (Val × Val) → Nat
    | [] => 0
    | (k, v) :: es => cost k + cost v + 1 + costEntries es
end

theorem int_not_nat (n : Nat) : Int.not (n : Int) = -(n : Int) - 1 := by
  show Int.negSucc n = _
  rw [Int.negSucc_eq]; omega

theorem fits_bounds (i : Int) (hw : fitsIsize i = true) : -9223372036854775808 ≤ i ∧ i ≤ 9223372036854775807 := by
  unfold fitsIsize isizeMin isizeMax at hw
  simp only [Bool.and_eq_true, decide_eq_true_eq] at hw
  exact hw

theorem fits_of_bounds (i : Int) (h1 : -9223372036854775808 ≤ i) (h2 : i ≤ 9223372036854775807) : fitsIsize i = true := by
  unfold fitsIsize isizeMin isizeMax
  simp only [Bool.and_eq_true, decide_eq_true_eq]
  exact ⟨h1, h2⟩

theorem parse_positive (n : Nat) (f : Nat) (rest : List Item) :
    parse (f + 1) (.h (.positive n) :: rest) = .ok (.num (Num.ofInt (n : Int)), rest) := by
  simp only [parse]

theorem parse_negative (n : Nat) (f : Nat) (rest : List Item) :
    parse (f + 1) (.h (.negative n) :: rest) = .ok (.num (Num.ofInt (Int.not (n : Int))), rest) := by
  simp only [parse]

theorem parse_int (i : Int) (hw : fitsIsize i = true) (f : Nat) (rest : List Item) :
    parse (f + 1) (encodeInt i ++ rest) = .ok (.num (.int i), rest) := by
  have hof : Num.ofInt i = .int i := by simp [Num.ofInt, hw]
  obtain ⟨hlo, hhi⟩ := fits_bounds i hw
  unfold encodeInt
  by_cases h0 : 0 ≤ i
  · have h1 : 0 ≤ i ∧ i ≤ u64Max := ⟨h0, by unfold u64Max; omega⟩
    rw [if_pos h1]
    simp only [List.cons_append, List.nil_append]
    rw [parse_positive]
    have : ((i.toNat : Nat) : Int) = i := by omega
    rw [this, hof]
  · have h1 : ¬ (0 ≤ i ∧ i ≤ u64Max) := fun h => h0 h.1
    have h2 : fitsIsize (i + 1) = true ∧ fitsIsize (-(i + 1)) = true ∧ 0 ≤ -(i + 1) ∧ -(i + 1) ≤ u64Max := by
      refine ⟨fits_of_bounds _ (by omega) (by omega), fits_of_bounds _ (by omega) (by omega), by omega, ?_⟩
      unfold u64Max; omega
    rw [if_neg h1, if_pos h2]
    simp only [List.cons_append, List.nil_append]
    rw [parse_negative, int_not_nat]
    have : -(((-(i + 1)).toNat : Nat) : Int) - 1 = i := by omega
    rw [this, hof]

theorem parse_big (i : Int) (f : Nat) (rest : List Item) :
    parse (f + 2) (encodeBig i ++ rest) = .ok (.num (.big i), rest) := by
  unfold encodeBig
  split
  · rename_i h
    simp only [List.cons_append, List.nil_append, parse, tagBigPos, tagBigNeg, biguint, payload]
    simp [fromBytes_toBytes]; omega
  · rename_i h
    simp only [List.cons_append, List.nil_append, parse, tagBigPos, tagBigNeg, biguint, payload]
    simp [fromBytes_toBytes]; omega

/-- statement proved by induction on a bound `N` of the cost -/
def StmtV (lossy : Bytes → Bytes) (N : Nat) : Prop :=
  ∀ v, cost v ≤ N → wfInts v = true → ∀ fuel, cost v ≤ fuel → ∀ rest,
    parse fuel (encode lossy v ++ rest) = .ok (cnorm lossy v, rest)
def StmtL (lossy : Bytes → Bytes) (N : Nat) : Prop :=
  ∀ a, costList a ≤ N → wfIntsList a = true → ∀ fuel, costList a + 1 ≤ fuel → ∀ rest,
    parseSeq fuel (some a.length) (encodeList lossy a ++ rest) = .ok (cnormList lossy a, rest)
def StmtE (lossy : Bytes → Bytes) (N : Nat) : Prop :=
  ∀ o, costEntries o ≤ N → wfIntsEntries o = true → ∀ fuel, costEntries o + 1 ≤ fuel → ∀ rest,
    parsePairs fuel (some o.length) (encodeEntries lossy o ++ rest) = .ok (cnormEntries lossy o, rest)

theorem cbor_all (lossy : Bytes → Bytes) (N : Nat) : StmtV lossy N ∧ StmtL lossy N ∧ StmtE lossy N := by
  induction N with
  | zero =>
    refine ⟨?_, ?_, ?_⟩
    · intro v hv; cases v <;> simp [cost] at hv
    · intro a ha _ fuel hf rest
      cases a with
      | nil =>
        cases fuel with
        | zero => simp [costList] at hf
        | succ f => simp [encodeList, cnormList, parseSeq]
      | cons v vs => simp [costList] at ha
    · intro o ho _ fuel hf rest
      cases o with
      | nil =>
        cases fuel with
        | zero => simp [costEntries] at hf
        | succ f => simp [encodeEntries, cnormEntries, parsePairs]
      | cons e es => obtain ⟨k, v⟩ := e; simp [costEntries] at ho
  | succ N ih =>
    obtain ⟨ihV, ihL, ihE⟩ := ih
    refine ⟨?_, ?_, ?_⟩
    · intro v hv hw fuel hf rest
      cases v with
      | null =>
        cases fuel with
        | zero => simp [cost] at hf
        | succ f => simp [encode, cnorm, parse, simpleNull]
      | bool b =>
        cases fuel with
        | zero => simp [cost] at hf
        | succ f => cases b <;> simp [encode, cnorm, parse, simpleNull, simpleTrue, simpleFalse]
      | num n =>
        cases fuel with
        | zero => simp [cost] at hf
        | succ f =>
          cases n with
          | int i =>
            simp only [encode, cnorm, cnormNum]
            exact parse_int i (by simpa [wfInts, Num.wf] using hw) f rest
          | big i =>
            cases f with
            | zero => simp [cost] at hf
            | succ f => simp only [encode, cnorm, cnormNum]; exact parse_big i f rest
          | float x => simp [encode, cnorm, cnormNum, parse]
          | dec s => simp [encode, cnorm, cnormNum, parse]
      | bstr b =>
        cases fuel with
        | zero => simp [cost] at hf
        | succ f => simp [encode, cnorm, parse, payload]
      | tstr s =>
        cases fuel with
        | zero => simp [cost] at hf
        | succ f => simp [encode, cnorm, parse, payload]
      | arr a =>
        cases fuel with
        | zero => simp [cost] at hf
        | succ f =>
          simp only [cost] at hv hf
          simp only [encode, cnorm, List.cons_append, parse]
          rw [ihL a (by omega) (by simpa [wfInts] using hw) f (by omega) rest]
      | obj o =>
        cases fuel with
        | zero => simp [cost] at hf
        | succ f =>
          simp only [cost] at hv hf
          simp only [encode, cnorm, List.cons_append, parse]
          rw [ihE o (by omega) (by simpa [wfInts] using hw) f (by omega) rest]
    · intro a ha hw fuel hf rest
      cases a with
      | nil =>
        cases fuel with
        | zero => simp at hf
        | succ f => simp [encodeList, cnormList, parseSeq]
      | cons v vs =>
        simp only [costList] at ha hf
        simp only [wfIntsList, Bool.and_eq_true] at hw
        cases fuel with
        | zero => omega
        | succ f =>
          simp only [encodeList, cnormList, List.length_cons, List.append_assoc, parseSeq]
          rw [ihV v (by omega) hw.1 f (by omega)]
          simp only
          rw [ihL vs (by omega) hw.2 f (by omega) rest]
    · intro o ho hw fuel hf rest
      cases o with
      | nil =>
        cases fuel with
        | zero => simp at hf
        | succ f => simp [encodeEntries, cnormEntries, parsePairs]
      | cons e es =>
        obtain ⟨k, v⟩ := e
        simp only [costEntries] at ho hf
        simp only [wfIntsEntries, Bool.and_eq_true] at hw
        cases fuel with
        | zero => omega
        | succ f =>
          simp only [encodeEntries, cnormEntries, List.length_cons, List.append_assoc, parsePairs]
          rw [ihV k (by omega) hw.1.1 f (by omega)]
          simp only
          rw [ihV v (by omega) hw.1.2 f (by omega)]
          simp only
          rw [ihE es (by omega) hw.2 f (by omega) rest]

end Jaq.C14.CborLemmas
