/-
  C09 (round 2) — the IEEE side: `F64.roundRat` (the rounding step of the shared pure-integer
  binary64 model) rounds a positive rational **correctly**: to a nearest representable number,
  ties to the even significand, with the sign requested — or to infinity.  Stated against an
  explicit rational specification: a finite float `g` has the value `magUnits g · 2^-1074`, and
  distances to `num/den` are compared after multiplying with `den · 2^1074`.
  Builds on the C20 lemmas (`roundRat_eq`, `floorLog`, `round_step'`, `shift_le`).  Core Lean only.
-/
import JaqVerif.Lemmas.C20Float

namespace Jaq.C09
open Jaq Jaq.Time

/-- `|a − b|` on naturals -/
def absDiff (a b : Nat) : Nat := (a - b) + (b - a)

/-- `r` is a correct round-to-nearest, ties-to-even result for the positive rational `num/den`:
finite, of the requested sign, no finite float is closer, and when another float is equally close
the significand of `r` is even.  (`magUnits g` is the magnitude of `g` in units of `2^-1074`.) -/
structure RoundsToNearestEven (neg : Bool) (num den : Nat) (r : UInt64) : Prop where
  finite : F64.isFinite r = true
  sign : F64.signBit r = neg
  nearest : ∀ g, F64.isFinite g = true →
    absDiff (F64.magUnits r * den) (num * 2 ^ 1074) ≤ absDiff (F64.magUnits g * den) (num * 2 ^ 1074)
  tiesEven : ∀ g, F64.isFinite g = true → F64.magUnits g ≠ F64.magUnits r →
    absDiff (F64.magUnits g * den) (num * 2 ^ 1074) = absDiff (F64.magUnits r * den) (num * 2 ^ 1074) →
    r.toNat % 2 = 0

/-! ### the quotient step -/

theorem rrQ_tie_even (n d : Nat) (hd : 0 < d)
    (h : 2 * n + d = 2 * (rrQ n d * d) ∨ 2 * n = 2 * (rrQ n d * d) + d) : rrQ n d % 2 = 0 := by
  have h1 := Nat.div_add_mod n d
  have h2 := Nat.mod_lt n hd
  have h3 : d * (n / d) = n / d * d := Nat.mul_comm _ _
  have h4 : (n / d + 1) * d = n / d * d + d := by rw [Nat.add_mul, Nat.one_mul]
  unfold rrQ at h ⊢
  by_cases hu : (decide (2 * (n % d) > d) || (2 * (n % d) == d && n / d % 2 == 1)) = true
  · simp only [hu, if_true] at h ⊢
    simp only [Bool.or_eq_true, decide_eq_true_eq, Bool.and_eq_true, beq_iff_eq] at hu
    rw [h4] at h
    omega
  · have hu' : (decide (2 * (n % d) > d) || (2 * (n % d) == d && n / d % 2 == 1)) = false := by
      simpa using hu
    simp only [hu', Bool.false_eq_true, if_false] at h ⊢
    simp only [Bool.or_eq_false_iff, decide_eq_false_iff_not, Bool.and_eq_false_iff, beq_eq_false_iff_ne] at hu'
    omega

/-- move the half-unit bounds of the quotient from the pair `(n', d')` the code divides to any
pair `(N, T)` with the same ratio -/
theorem rne_transport {n' d' N T q : Nat} (hd' : 0 < d') (hT' : 0 < T) (h : n' * T = N * d') :
    (2 * (q * d') ≤ 2 * n' + d' → 2 * (q * T) ≤ 2 * N + T) ∧
    (2 * n' ≤ 2 * (q * d') + d' → 2 * N ≤ 2 * (q * T) + T) ∧
    (2 * N + T = 2 * (q * T) → 2 * n' + d' = 2 * (q * d')) ∧
    (2 * N = 2 * (q * T) + T → 2 * n' = 2 * (q * d') + d') := by
  have e1 : 2 * (q * T) * d' = 2 * (q * d') * T := by ac_rfl
  have e2 : (2 * N + T) * d' = (2 * n' + d') * T := by
    rw [Nat.add_mul, Nat.add_mul, Nat.mul_assoc 2 N, ← h]; ac_rfl
  have e3 : (2 * (q * T) + T) * d' = (2 * (q * d') + d') * T := by
    rw [Nat.add_mul, Nat.add_mul, e1]; ac_rfl
  have e4 : 2 * N * d' = 2 * n' * T := by rw [Nat.mul_assoc 2 N, ← h]; ac_rfl
  refine ⟨fun r => ?_, fun r => ?_, fun r => ?_, fun r => ?_⟩
  · have := Nat.mul_le_mul_right T r
    rw [← e1, ← e2] at this
    exact Nat.le_of_mul_le_mul_right this hd'
  · have := Nat.mul_le_mul_right T r
    rw [← e4, ← e3] at this
    exact Nat.le_of_mul_le_mul_right this hd'
  · have : (2 * n' + d') * T = 2 * (q * d') * T := by rw [← e2, ← e1, r]
    exact Nat.eq_of_mul_eq_mul_right hT' this
  · have : 2 * n' * T = (2 * (q * d') + d') * T := by rw [← e4, ← e3, r]
    exact Nat.eq_of_mul_eq_mul_right hT' this

/-! ### the shape of `roundRat`: grid exponent `s`, rounded quotient `q` -/

/-- `roundRat neg num den` packs `(s, q)` where `2^s` (in units of `2^-1074`) is the spacing of
the floats in the binade of `num/den` and `q` is the round-to-nearest-even quotient of
`num·2^1074 / (den·2^s)`. -/
theorem roundRat_shape (neg : Bool) (num den : Nat) (hn : 0 < num) (hd : 0 < den) :
    ∃ s q : Nat,
      F64.roundRat neg num den = rrBits neg s q ∧
      2 * (q * (den * 2 ^ s)) ≤ 2 * (num * 2 ^ 1074) + den * 2 ^ s ∧
      2 * (num * 2 ^ 1074) ≤ 2 * (q * (den * 2 ^ s)) + den * 2 ^ s ∧
      ((2 * (num * 2 ^ 1074) + den * 2 ^ s = 2 * (q * (den * 2 ^ s)) ∨
        2 * (num * 2 ^ 1074) = 2 * (q * (den * 2 ^ s)) + den * 2 ^ s) → q % 2 = 0) ∧
      (0 < s → den * 2 ^ (52 + s) ≤ num * 2 ^ 1074) ∧
      num * 2 ^ 1074 < den * 2 ^ (53 + s) := by
  obtain ⟨p, n, hL, h1, h2⟩ := floorLog num den hn hd
  rw [roundRat_eq neg num den hn hd, hL]
  unfold rrCore
  by_cases hnorm : n ≤ p + 1022
  · -- normal numbers: E = L - 52
    have hE : rrE ((p : Int) - (n : Int)) = (p : Int) - n - 52 := by unfold rrE; split <;> omega
    rw [hE]
    generalize hs : p + 1022 - n = s
    have hsn : ((p : Int) - n - 52 + 1074).toNat = s := by omega
    rw [hsn]
    have b1 : den * 2 ^ (52 + s) ≤ num * 2 ^ 1074 := shift_le h1 (by omega)
    have b2 : num * 2 ^ 1074 < den * 2 ^ (53 + s) := shift_lt h2 (by omega)
    -- the pair the code divides
    have hpair : ∃ n' d', rrPair num den ((p : Int) - n - 52) = (n', d') ∧ 0 < d' ∧
        n' * (den * 2 ^ s) = num * 2 ^ 1074 * d' := by
      unfold rrPair
      by_cases hE0 : (p : Int) - n - 52 ≥ 0
      · rw [if_pos hE0]
        refine ⟨_, _, rfl, Nat.mul_pos hd (pow2_pos _), ?_⟩
        have : s = ((p : Int) - n - 52).toNat + 1074 := by omega
        rw [this, Nat.pow_add]
        generalize (2:Nat) ^ 1074 = K
        generalize (2:Nat) ^ ((p : Int) - n - 52).toNat = A
        ac_rfl
      · rw [if_neg hE0]
        refine ⟨_, _, rfl, hd, ?_⟩
        have : 1074 = (-((p : Int) - n - 52)).toNat + s := by omega
        have e : (2:Nat) ^ 1074 = 2 ^ (-((p : Int) - n - 52)).toNat * 2 ^ s := by
          rw [← Nat.pow_add, ← this]
        rw [e]
        generalize (2:Nat) ^ (-((p : Int) - n - 52)).toNat = A
        generalize (2:Nat) ^ s = B
        ac_rfl
    obtain ⟨n', d', hp, hd', hr⟩ := hpair
    rw [hp]
    obtain ⟨r1, r2, _, _⟩ := round_step' n' d' hd'
    obtain ⟨t1, t2, t3, t4⟩ := rne_transport (q := rrQ n' d') hd' (Nat.mul_pos hd (pow2_pos _)) hr
    refine ⟨s, rrQ n' d', rfl, t1 r1, t2 r2, ?_, fun _ => b1, b2⟩
    intro ht
    apply rrQ_tie_even n' d' hd'
    rcases ht with ht | ht
    · exact Or.inl (t3 ht)
    · exact Or.inr (t4 ht)
  · -- subnormal numbers: E = -1074, spacing 2^0
    have hE : rrE ((p : Int) - (n : Int)) = -1074 := by unfold rrE; split <;> omega
    rw [hE]
    have hp : rrPair num den (-1074) = (num * 2 ^ 1074, den) := by
      unfold rrPair; rw [if_neg (by omega)]; rfl
    rw [hp]
    have hs0 : ((-1074 : Int) + 1074).toNat = 0 := by omega
    rw [hs0]
    obtain ⟨r1, r2, _, _⟩ := round_step' (num * 2 ^ 1074) den hd
    have b2 : num * 2 ^ 1074 < den * 2 ^ (53 + 0) := by
      by_cases hfar : n ≤ p + 1075
      · have hlt : num * 2 ^ 1074 < den * 2 ^ (p + 1075 - n) := shift_lt h2 (by omega)
        exact Nat.lt_of_lt_of_le hlt
          (Nat.mul_le_mul_left _ (Nat.pow_le_pow_right (by decide) (by omega)))
      · have h3 : num * 2 ^ n < den * 2 ^ (n - 1075) :=
          Nat.lt_of_lt_of_le h2 (Nat.mul_le_mul_left _ (Nat.pow_le_pow_right (by decide) (by omega)))
        have h4 : num * 2 ^ 1075 < den * 2 ^ 0 := shift_lt h3 (by omega)
        have h5 : num * 2 ^ 1074 ≤ num * 2 ^ 1075 :=
          Nat.mul_le_mul_left _ (Nat.pow_le_pow_right (by decide) (by decide))
        have h6 : den * 2 ^ 0 ≤ den * 2 ^ (53 + 0) :=
          Nat.mul_le_mul_left _ (Nat.pow_le_pow_right (by decide) (by decide))
        exact Nat.lt_of_le_of_lt h5 (Nat.lt_of_lt_of_le h4 h6)
    refine ⟨0, rrQ (num * 2 ^ 1074) den, rfl, ?_, ?_, ?_, fun h => absurd h (Nat.lt_irrefl 0), b2⟩
    · simpa using r1
    · simpa using r2
    · intro ht
      apply rrQ_tie_even (num * 2 ^ 1074) den hd
      simpa using ht

/-! ### reading the packed bits, any exponent -/

theorem no_overflow_bounds (s q : Nat) (hq2 : q ≤ 2 ^ 53) (hq1 : s = 0 ∨ 2 ^ 52 ≤ q)
    (hov : ¬ s * 2 ^ 52 + q ≥ 2047 * 2 ^ 52) : s ≤ 2045 ∧ (s ≤ 2044 ∨ q < 2 ^ 53) := by
  have h52 : (2:Nat) ^ 52 = 4503599627370496 := by decide
  have h53 : (2:Nat) ^ 53 = 9007199254740992 := by decide
  rw [h52] at hov hq1
  rw [h53] at hq2
  rw [h53]
  omega

theorem br_toNat (neg : Bool) (s q : Nat) (hq2 : q ≤ 2 ^ 53) (hs : s ≤ 2045) :
    (UInt64.ofNat (s * 2 ^ 52 + q + (if neg then 2 ^ 63 else 0))).toNat =
      s * 2 ^ 52 + q + (if neg then 2 ^ 63 else 0) := by
  rw [UInt64.toNat_ofNat']
  apply Nat.mod_eq_of_lt
  cases neg
  · simp only [Bool.false_eq_true, if_false]; omega
  · simp only [if_true]; omega

theorem br_sign (neg : Bool) (s q : Nat) (r : UInt64) (hq2 : q ≤ 2 ^ 53) (hs : s ≤ 2045)
    (ht : r.toNat = s * 2 ^ 52 + q + (if neg then 2 ^ 63 else 0)) : F64.signBit r = neg := by
  simp only [F64.signBit, ht]
  cases neg
  · simp only [Bool.false_eq_true, if_false, decide_eq_false_iff_not]; omega
  · simp only [if_true, decide_eq_true_eq]; omega

theorem br_parity (neg : Bool) (s q : Nat) (r : UInt64)
    (ht : r.toNat = s * 2 ^ 52 + q + (if neg then 2 ^ 63 else 0)) : r.toNat % 2 = q % 2 := by
  rw [ht]; cases neg
  · simp only [Bool.false_eq_true, if_false]; omega
  · simp only [if_true]; omega

theorem br_top (neg : Bool) (s q : Nat) (r : UInt64) (hq : q = 2 ^ 53) (hs : s ≤ 2044)
    (ht : r.toNat = s * 2 ^ 52 + q + (if neg then 2 ^ 63 else 0)) :
    r.toNat / 2 ^ 52 % 2048 = (s + 1) + 1 ∧ r.toNat % 2 ^ 52 = 0 := by
  rw [ht]; cases neg
  · simp only [Bool.false_eq_true, if_false]; omega
  · simp only [if_true]; omega

theorem br_sub (neg : Bool) (q : Nat) (r : UInt64) (hlow : q < 2 ^ 52)
    (ht : r.toNat = 0 * 2 ^ 52 + q + (if neg then 2 ^ 63 else 0)) :
    r.toNat / 2 ^ 52 % 2048 = 0 ∧ r.toNat % 2 ^ 52 = q := by
  rw [ht]; cases neg
  · simp only [Bool.false_eq_true, if_false]; omega
  · simp only [if_true]; omega

theorem br_mid (neg : Bool) (s q : Nat) (r : UInt64) (hq3 : q < 2 ^ 53) (hq4 : 2 ^ 52 ≤ q) (hs : s ≤ 2045)
    (ht : r.toNat = s * 2 ^ 52 + q + (if neg then 2 ^ 63 else 0)) :
    r.toNat / 2 ^ 52 % 2048 = s + 1 ∧ r.toNat % 2 ^ 52 = q - 2 ^ 52 := by
  rw [ht]; cases neg
  · simp only [Bool.false_eq_true, if_false]; omega
  · simp only [if_true]; omega

theorem br_sub_read (q : Nat) (r : UInt64) (hx : r.toNat / 2 ^ 52 % 2048 = 0 ∧ r.toNat % 2 ^ 52 = q) :
    F64.isFinite r = true ∧ F64.magUnits r = q * 2 ^ 0 := by
  refine ⟨?_, ?_⟩
  · simp only [F64.isFinite, F64.expField, hx.1, bne_iff_ne, ne_eq]; omega
  · simp only [F64.magUnits, F64.mantExp, F64.expField, F64.fracField, hx.1, hx.2]
    simp

theorem bits_read' (neg : Bool) (s q : Nat) (hq2 : q ≤ 2 ^ 53) (hq1 : s = 0 ∨ 2 ^ 52 ≤ q)
    (hs : s ≤ 2045) (hs' : s ≤ 2044 ∨ q < 2 ^ 53) :
    F64.isFinite (UInt64.ofNat (s * 2 ^ 52 + q + (if neg then 2 ^ 63 else 0))) = true ∧
    F64.signBit (UInt64.ofNat (s * 2 ^ 52 + q + (if neg then 2 ^ 63 else 0))) = neg ∧
    F64.magUnits (UInt64.ofNat (s * 2 ^ 52 + q + (if neg then 2 ^ 63 else 0))) = q * 2 ^ s ∧
    (UInt64.ofNat (s * 2 ^ 52 + q + (if neg then 2 ^ 63 else 0))).toNat % 2 = q % 2 := by
  have ht := br_toNat neg s q hq2 hs
  generalize UInt64.ofNat (s * 2 ^ 52 + q + (if neg then 2 ^ 63 else 0)) = r at ht ⊢
  have hsg := br_sign neg s q r hq2 hs ht
  have hpar := br_parity neg s q r ht
  by_cases hq : q = 2 ^ 53
  · have h2044 : s ≤ 2044 := by
      rcases hs' with h | h
      · exact h
      · exact absurd hq (Nat.ne_of_lt h)
    have hf := br_top neg s q r hq h2044 ht
    obtain ⟨hm, hfi⟩ := read_mag (s + 1) 0 r hf.1 hf.2
    refine ⟨hfi (Nat.succ_le_succ (Nat.succ_le_succ h2044)), hsg, ?_, hpar⟩
    have h53 : (2:Nat) ^ 52 * 2 = 2 ^ 53 := by decide
    rw [hm, hq, Nat.zero_add, Nat.pow_succ 2 s, ← Nat.mul_assoc, Nat.mul_right_comm, h53]
  · have hq3 : q < 2 ^ 53 := Nat.lt_of_le_of_ne hq2 hq
    by_cases hlow : q < 2 ^ 52
    · have hs0 : s = 0 := by
        rcases hq1 with h | h
        · exact h
        · exact absurd hlow (Nat.not_lt.2 h)
      subst hs0
      have hx := br_sub neg q r hlow ht
      obtain ⟨g1, g2⟩ := br_sub_read q r hx
      exact ⟨g1, hsg, g2, hpar⟩
    · have hq4 : 2 ^ 52 ≤ q := Nat.le_of_not_lt hlow
      have hx := br_mid neg s q r hq3 hq4 hs ht
      obtain ⟨hm, hfi⟩ := read_mag s (q - 2 ^ 52) r hx.1 hx.2
      refine ⟨hfi (Nat.succ_le_succ (Nat.le_trans hs (by decide))), hsg, ?_, hpar⟩
      rw [hm, Nat.sub_add_cancel hq4]

/-! ### the set of finite floats relative to a grid -/

theorem mantExp_bounds (g : UInt64) : (F64.mantExp g).1 < 2 ^ 53 := by
  have := g.toNat_lt
  unfold F64.mantExp
  simp only [F64.expField, F64.fracField]
  by_cases h : (g.toNat / 2 ^ 52 % 2048 == 0) = true
  · simp only [h, if_true]; omega
  · have h' : (g.toNat / 2 ^ 52 % 2048 == 0) = false := by simpa using h
    simp only [h', Bool.false_eq_true, if_false]; omega

/-- a finite magnitude is either on the grid `2^s` or lies at least half a grid step below `2^(52+s)` -/
theorem grid_cases (g : UInt64) (s : Nat) :
    (∃ j, F64.magUnits g = j * 2 ^ s) ∨ (0 < s ∧ 2 * F64.magUnits g + 2 ^ s ≤ 2 ^ (53 + s)) := by
  have hm := mantExp_bounds g
  rw [magUnits_eq]
  generalize (F64.mantExp g).1 = m at hm ⊢
  generalize (F64.mantExp g).2 = e
  by_cases hse : s ≤ e
  · left
    refine ⟨m * 2 ^ (e - s), ?_⟩
    rw [Nat.mul_assoc, ← Nat.pow_add]; congr 2; omega
  · right
    refine ⟨by omega, ?_⟩
    -- (m+1)·2^(e+1) ≤ 2^(54+e), scaled by 2^(s-e-1)
    have h0 : (m + 1) * 2 ^ (e + 1) ≤ 2 ^ 53 * 2 ^ (e + 1) := Nat.mul_le_mul_right _ (by omega)
    have h1 := Nat.mul_le_mul_right (2 ^ (s - (e + 1))) h0
    have e1 : 2 ^ 53 * 2 ^ (e + 1) * 2 ^ (s - (e + 1)) = 2 ^ (53 + s) := by
      rw [← Nat.pow_add, ← Nat.pow_add]; congr 1; omega
    have e2 : (m + 1) * 2 ^ (e + 1) * 2 ^ (s - (e + 1)) = m * 2 ^ (e + 1) * 2 ^ (s - (e + 1)) + 2 ^ s := by
      rw [Nat.add_mul, Nat.add_mul, Nat.one_mul, ← Nat.pow_add]; congr 2; omega
    rw [e1, e2] at h1
    have e3 : 2 * (m * 2 ^ e) = m * 2 ^ (e + 1) := by rw [Nat.pow_succ]; ac_rfl
    have h2 : m * 2 ^ (e + 1) ≤ m * 2 ^ (e + 1) * 2 ^ (s - (e + 1)) :=
      Nat.le_mul_of_pos_right _ (pow2_pos _)
    omega

/-! ### correct rounding -/

/-- **`roundRat` is correctly rounded**: the result is the infinity of the requested sign, or a
finite float of that sign that is nearest to `num/den` among *all* finite floats, with the even
significand on a tie. -/
theorem roundRat_correct_lem (neg : Bool) (num den : Nat) (hn : 0 < num) (hd : 0 < den) :
    F64.roundRat neg num den = F64.inf neg ∨ RoundsToNearestEven neg num den (F64.roundRat neg num den) := by
  obtain ⟨s, q, hr, r1, r2, htie, b1, b2⟩ := roundRat_shape neg num den hn hd
  rw [hr]
  unfold rrBits
  by_cases hov : s * 2 ^ 52 + q ≥ 2047 * 2 ^ 52
  · left; rw [if_pos hov]
  · right
    rw [if_neg hov]
    have hT : 0 < den * 2 ^ s := Nat.mul_pos hd (pow2_pos _)
    -- q ≤ 2^53, and 2^52 ≤ q in the normal range
    have e53 : den * 2 ^ (53 + s) = 2 ^ 53 * (den * 2 ^ s) := by rw [Nat.pow_add]; ac_rfl
    have e52 : den * 2 ^ (52 + s) = 2 ^ 52 * (den * 2 ^ s) := by rw [Nat.pow_add]; ac_rfl
    rw [e53] at b2
    have hq2 : q ≤ 2 ^ 53 := by
      apply Nat.le_of_not_lt
      intro hlt
      have := Nat.mul_le_mul_right (den * 2 ^ s) (Nat.succ_le_of_lt hlt)
      rw [Nat.succ_mul] at this
      omega
    have hq1 : 0 < s → 2 ^ 52 ≤ q := by
      intro hs
      have b := b1 hs
      rw [e52] at b
      apply Nat.le_of_not_lt
      intro hlt
      have := Nat.mul_le_mul_right (den * 2 ^ s) (Nat.succ_le_of_lt hlt)
      rw [Nat.succ_mul] at this
      omega
    have hq1' : s = 0 ∨ 2 ^ 52 ≤ q := by
      rcases Nat.eq_zero_or_pos s with z | pz
      · exact Or.inl z
      · exact Or.inr (hq1 pz)
    obtain ⟨hs, hs'⟩ := no_overflow_bounds s q hq2 hq1' hov
    obtain ⟨f1, f2, f3, f4⟩ := bits_read' neg s q hq2 hq1' hs hs'
    have eR : q * 2 ^ s * den = q * (den * 2 ^ s) := by ac_rfl
    -- the two situations of another finite float
    have key : ∀ g, F64.isFinite g = true →
        absDiff (q * (den * 2 ^ s)) (num * 2 ^ 1074) ≤ absDiff (F64.magUnits g * den) (num * 2 ^ 1074) ∧
        (F64.magUnits g ≠ q * 2 ^ s →
          absDiff (F64.magUnits g * den) (num * 2 ^ 1074) = absDiff (q * (den * 2 ^ s)) (num * 2 ^ 1074) →
          q % 2 = 0) := by
      intro g _
      rcases grid_cases g s with ⟨j, hj⟩ | ⟨hs, hbelow⟩
      · have eG : F64.magUnits g * den = j * (den * 2 ^ s) := by rw [hj]; ac_rfl
        rw [eG]
        by_cases hjq : j = q
        · subst hjq
          exact ⟨Nat.le_refl _, fun hne => absurd hj hne⟩
        · have hsep : j * (den * 2 ^ s) ≥ q * (den * 2 ^ s) + den * 2 ^ s ∨
              q * (den * 2 ^ s) ≥ j * (den * 2 ^ s) + den * 2 ^ s := by
            rcases Nat.lt_or_gt_of_ne hjq with h | h
            · right
              have := Nat.mul_le_mul_right (den * 2 ^ s) (Nat.succ_le_of_lt h)
              rw [Nat.succ_mul] at this; exact this
            · left
              have := Nat.mul_le_mul_right (den * 2 ^ s) (Nat.succ_le_of_lt h)
              rw [Nat.succ_mul] at this; exact this
          generalize j * (den * 2 ^ s) = B at hsep ⊢
          generalize q * (den * 2 ^ s) = A at r1 r2 htie hsep ⊢
          generalize num * 2 ^ 1074 = N at r1 r2 htie ⊢
          generalize den * 2 ^ s = T at r1 r2 htie hsep hT ⊢
          unfold absDiff
          refine ⟨by omega, fun _ heq => htie ?_⟩
          omega
      · have b := b1 hs
        rw [e52] at b
        have hP : 2 * (F64.magUnits g * den) + den * 2 ^ s ≤ 2 * (2 ^ 52 * (den * 2 ^ s)) := by
          have := Nat.mul_le_mul_right den hbelow
          have e : 2 ^ (53 + s) * den = 2 * (2 ^ 52 * (den * 2 ^ s)) := by
            rw [Nat.pow_add, show (2:Nat) ^ 53 = 2 * 2 ^ 52 by decide]; ac_rfl
          rw [e, Nat.add_mul] at this
          have e' : 2 * F64.magUnits g * den = 2 * (F64.magUnits g * den) := by ac_rfl
          have e'' : 2 ^ s * den = den * 2 ^ s := Nat.mul_comm _ _
          rw [e', e''] at this
          exact this
        have hqP : 2 ^ 52 * (den * 2 ^ s) ≤ q * (den * 2 ^ s) := Nat.mul_le_mul_right _ (hq1 hs)
        generalize F64.magUnits g * den = X at hP ⊢
        generalize 2 ^ 52 * (den * 2 ^ s) = P at hP hqP b
        generalize q * (den * 2 ^ s) = A at r1 r2 htie hqP ⊢
        generalize num * 2 ^ 1074 = N at r1 r2 htie b ⊢
        generalize den * 2 ^ s = T at r1 r2 htie hP hT
        unfold absDiff
        refine ⟨by omega, fun _ heq => htie ?_⟩
        omega
    refine ⟨f1, f2, ?_, ?_⟩
    · intro g hg
      rw [f3, eR]
      exact (key g hg).1
    · intro g hg hne heq
      rw [f4]
      rw [f3] at hne
      rw [f3, eR] at heq
      exact (key g hg).2 hne heq


/-! ### the operations: the rational that is rounded -/

theorem isZero_magUnits {f : UInt64} (h : F64.isZero f = true) : F64.magUnits f = 0 := by
  have hlt := f.toNat_lt
  simp only [F64.isZero, beq_iff_eq] at h
  have h1 : f.toNat / 2 ^ 52 % 2048 = 0 := by omega
  have h2 : f.toNat % 2 ^ 52 = 0 := by omega
  simp only [F64.magUnits, F64.mantExp, F64.expField, F64.fracField, h1, h2]
  simp

theorem not_isZero_of_pos {f : UInt64} (h : 0 < F64.magUnits f) : F64.isZero f = false := by
  cases hz : F64.isZero f
  · rfl
  · have := isZero_magUnits hz; omega

theorem natAbs_units (f : UInt64) : (F64.units f).natAbs = F64.magUnits f := by
  unfold F64.units; split <;> simp

/-- `i as f64` / `BigInt::to_f64` rounds the integer itself -/
theorem ofInt_lem (i : Int) (hi : i ≠ 0) :
    F64.ofInt i = F64.inf (decide (i < 0)) ∨
    RoundsToNearestEven (decide (i < 0)) i.natAbs 1 (F64.ofInt i) := by
  have hn : 0 < i.natAbs := by omega
  unfold F64.ofInt
  by_cases h : i < 0
  · simp only [h, if_true, decide_true]
    exact roundRat_correct_lem true _ 1 hn (by decide)
  · simp only [h, if_false, decide_false]
    exact roundRat_correct_lem false _ 1 hn (by decide)

/-- finite `+`: the exact sum `units a + units b` (in units of `2^-1074`) is rounded; an exact zero
sum is `-0` only when both operands are negative (zeros) -/
theorem add_lem {a b : UInt64} (ha : F64.isFinite a = true) (hb : F64.isFinite b = true) :
    (F64.units a + F64.units b = 0 → F64.add a b = F64.zero (F64.signBit a && F64.signBit b)) ∧
    (F64.units a + F64.units b ≠ 0 →
      F64.add a b = F64.inf (decide (F64.units a + F64.units b < 0)) ∨
      RoundsToNearestEven (decide (F64.units a + F64.units b < 0)) (F64.units a + F64.units b).natAbs
        (2 ^ 1074) (F64.add a b)) := by
  obtain ⟨na, ia⟩ := finite_flags ha
  obtain ⟨nb, ib⟩ := finite_flags hb
  have e : F64.add a b = F64.ofUnits (F64.signBit a && F64.signBit b) (F64.units a + F64.units b) := by
    simp only [F64.add, na, nb, ia, ib, Bool.or_self, Bool.false_eq_true, if_false]
  rw [e]
  refine ⟨fun h0 => ?_, fun h0 => ?_⟩
  · simp only [F64.ofUnits, h0, beq_self_eq_true, if_true]
  · have hne : (F64.units a + F64.units b == 0) = false := by simpa using h0
    simp only [F64.ofUnits, hne, Bool.false_eq_true, if_false]
    exact roundRat_correct_lem _ _ _ (by omega) (pow2_pos _)

/-- finite `/` with non-zero operands: the exact quotient of the magnitudes is rounded, the sign is
the exclusive or of the signs -/
theorem div_lem {a b : UInt64} (ha : F64.isFinite a = true) (hb : F64.isFinite b = true)
    (pa : 0 < F64.magUnits a) (pb : 0 < F64.magUnits b) :
    F64.div a b = F64.inf (F64.signBit a != F64.signBit b) ∨
    RoundsToNearestEven (F64.signBit a != F64.signBit b) (F64.magUnits a) (F64.magUnits b) (F64.div a b) := by
  obtain ⟨na, ia⟩ := finite_flags ha
  obtain ⟨nb, ib⟩ := finite_flags hb
  have e : F64.div a b = F64.roundRat (F64.signBit a != F64.signBit b) (F64.magUnits a) (F64.magUnits b) := by
    simp only [F64.div, na, nb, ia, ib, not_isZero_of_pos pa, not_isZero_of_pos pb, Bool.or_self,
      Bool.false_eq_true, if_false]
  rw [e]
  exact roundRat_correct_lem _ _ _ pa pb

/-- finite `*` with non-zero operands: the exact product of the magnitudes (in units of `2^-2148`)
is rounded -/
theorem mul_lem {a b : UInt64} (ha : F64.isFinite a = true) (hb : F64.isFinite b = true)
    (pa : 0 < F64.magUnits a) (pb : 0 < F64.magUnits b) :
    F64.mul a b = F64.inf (F64.signBit a != F64.signBit b) ∨
    RoundsToNearestEven (F64.signBit a != F64.signBit b) (F64.magUnits a * F64.magUnits b) (2 ^ 2148)
      (F64.mul a b) := by
  obtain ⟨na, ia⟩ := finite_flags ha
  obtain ⟨nb, ib⟩ := finite_flags hb
  rw [magUnits_eq a] at pa ⊢
  rw [magUnits_eq b] at pb ⊢
  have ma0 : ((F64.mantExp a).1 == 0) = false := by
    cases h : (F64.mantExp a).1 == 0
    · rfl
    · rw [beq_iff_eq] at h; rw [h] at pa; simp at pa
  have mb0 : ((F64.mantExp b).1 == 0) = false := by
    cases h : (F64.mantExp b).1 == 0
    · rfl
    · rw [beq_iff_eq] at h; rw [h] at pb; simp at pb
  have e : F64.mul a b = F64.roundRat (F64.signBit a != F64.signBit b)
      ((F64.mantExp a).1 * (F64.mantExp b).1 * 2 ^ ((F64.mantExp a).2 + (F64.mantExp b).2)) (2 ^ 2148) := by
    simp only [F64.mul, na, nb, ia, ib, ma0, mb0, Bool.or_self, Bool.false_eq_true, if_false]
  have en : (F64.mantExp a).1 * 2 ^ (F64.mantExp a).2 * ((F64.mantExp b).1 * 2 ^ (F64.mantExp b).2) =
      (F64.mantExp a).1 * (F64.mantExp b).1 * 2 ^ ((F64.mantExp a).2 + (F64.mantExp b).2) := by
    rw [Nat.pow_add]; ac_rfl
  rw [e, en]
  exact roundRat_correct_lem _ _ _ (by rw [← en]; exact Nat.mul_pos pa pb) (pow2_pos _)

/-- `%` on finite operands with a non-zero divisor is C `fmod`: the exact remainder of the
magnitudes with the sign of the dividend (an exact zero keeps that sign) -/
theorem rem_lem {a b : UInt64} (ha : F64.isFinite a = true) (hb : F64.isFinite b = true)
    (pb : 0 < F64.magUnits b) :
    (F64.magUnits a % F64.magUnits b = 0 → F64.rem a b = F64.zero (F64.signBit a)) ∧
    (F64.magUnits a % F64.magUnits b ≠ 0 →
      F64.rem a b = F64.roundRat (F64.signBit a) (F64.magUnits a % F64.magUnits b) (2 ^ 1074)) := by
  obtain ⟨na, ia⟩ := finite_flags ha
  obtain ⟨nb, ib⟩ := finite_flags hb
  refine ⟨fun h0 => ?_, fun h0 => ?_⟩
  · simp only [F64.rem, na, nb, ia, ib, not_isZero_of_pos pb, Bool.or_self, Bool.false_eq_true, if_false,
      h0, beq_self_eq_true, if_true]
  · have hne : (F64.magUnits a % F64.magUnits b == 0) = false := by simpa using h0
    simp only [F64.rem, na, nb, ia, ib, not_isZero_of_pos pb, Bool.or_self, Bool.false_eq_true, if_false, hne]

end Jaq.C09
