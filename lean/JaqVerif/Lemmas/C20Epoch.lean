/-
  C20 helper lemmas about the impl-model `JaqVerif/C20/Epoch.lean` (the model of time.rs):
  jiff's UTC conversion (as specified through `Civil.lean`) is coherent, the array produced by
  `datetime_to_array` is the specified one, and `mktime` on integer fields computes `specEpoch`.
-/
import JaqVerif.Lemmas.C20Civil
import JaqVerif.C20.Spec

namespace Jaq.Time

theorem dby_consts : daysBeforeYear (-9999) = -3652425 ∧ daysBeforeYear (-9998) = -3652060 ∧
    daysBeforeYear 9999 = 3651694 ∧ daysBeforeYear 10000 = 3652059 := by decide

theorem toNs_toDateTimeUTC (t : Timestamp) : t.toDateTimeUTC.toNs = t.ns := by
  have h := (daysFromCivil_civilFromDays (t.ns / 1000000000 / 86400)).2
  simp only [Timestamp.toDateTimeUTC, DateTime.toNs, h]
  omega

theorem dateTimeToArray_spec (t : Timestamp) : dateTimeToArray t.toDateTimeUTC = specArray t.ns := by
  have h := (daysFromCivil_civilFromDays (t.ns / 1000000000 / 86400)).2
  have hy := yearday_eq (t.ns / 1000000000 / 86400)
  simp only [dateTimeToArray, specArray, Timestamp.toDateTimeUTC, DateTime.weekday, DateTime.yearday,
    secondsVal, specSeconds, vint, f1e9, h, hy]
  congr 1
  repeat (first | rfl | congr 1)

/-- the civil year of a day number is monotone in the day number -/
theorem year_bounds (n : Int) :
    daysBeforeYear (civilFromDays n).1 ≤ n + epochShift ∧
    n + epochShift < daysBeforeYear ((civilFromDays n).1 + 1) := yearOfDays_spec (n + epochShift)

/-- an instant whose UTC year is in -9998..9998 is inside jiff's `Timestamp` range -/
theorem sec_range_of_year (s : Int) (h1 : -9998 ≤ utcYear s) (h2 : utcYear s ≤ 9998) :
    unixSecMin < s ∧ s < unixSecMax := by
  have ⟨b1, b2⟩ := year_bounds (s / 86400)
  have m1 := daysBeforeYear_mono h1
  have m2 := daysBeforeYear_mono (show utcYear s + 1 ≤ 9999 by omega)
  obtain ⟨_, c2, c3, _⟩ := dby_consts
  unfold utcYear at *
  unfold unixSecMin unixSecMax epochShift at *
  omega

/-- an instant inside jiff's `Timestamp` range has a UTC year in -9999..9999 -/
theorem year_of_sec_range (s : Int) (h1 : unixSecMin ≤ s) (h2 : s ≤ unixSecMax) :
    -9999 ≤ utcYear s ∧ utcYear s ≤ 9999 := by
  have ⟨b1, b2⟩ := year_bounds (s / 86400)
  obtain ⟨c1, _, _, c4⟩ := dby_consts
  unfold utcYear
  unfold unixSecMin unixSecMax epochShift at *
  constructor
  · by_cases h : (civilFromDays (s / 86400)).1 + 1 ≤ -9999
    · have := daysBeforeYear_mono h; omega
    · omega
  · by_cases h : 10000 ≤ (civilFromDays (s / 86400)).1
    · have := daysBeforeYear_mono h; omega
    · omega

theorem daysInMonth_le (y m : Int) (h1 : 1 ≤ m) (h2 : m ≤ 12) : 28 ≤ daysInMonth y m ∧ daysInMonth y m ≤ 31 := by
  unfold daysInMonth
  rcases dbm_cases m h1 h2 with h|h|h|h|h|h|h|h|h|h|h|h <;> subst h <;> cases isLeap y <;>
    simp [daysBeforeMonth]

/-- the float conversions of `array_to_datetime` on the integer seconds 0..59 (complete table) -/
theorem sec_table : ∀ s : Fin 60,
    F64.isFinite (F64.ofInt (Int.ofNat s.val)) = true ∧
    floorCastI8 (F64.ofInt (Int.ofNat s.val)) = Int.ofNat s.val ∧
    castSat (-2147483648) 2147483647 (F64.mul (fractF (F64.ofInt (Int.ofNat s.val))) f1e9) = 0 ∧
    castSatRound (-2147483648) 2147483647 (F64.mul (fractF (F64.ofInt (Int.ofNat s.val))) f1e9) = 0 := by
  decide +kernel

theorem sec_int (fx : Fixes) (s : Int) (h0 : 0 ≤ s) (h1 : s ≤ 59) :
    F64.isFinite (F64.ofInt s) = true ∧ floorCastI8 (F64.ofInt s) = s ∧ subsecNanos fx (F64.ofInt s) = 0 := by
  have ht := sec_table ⟨s.toNat, by omega⟩
  have hs : Int.ofNat s.toNat = s := by simp; omega
  simp only [hs] at ht
  obtain ⟨a, b, c, d⟩ := ht
  refine ⟨a, b, ?_⟩
  unfold subsecNanos
  cases fx.roundNanos <;> simp [c, d]

theorem micros_fit (i : Int) (h1 : unixSecMin ≤ i) (h2 : i ≤ unixSecMax) : fitsI64 (i * 1000000) = true := by
  unfold unixSecMin unixSecMax at *
  simp only [fitsI64, fitsIsize, isizeMin, isizeMax, Bool.and_eq_true]
  refine ⟨decide_eq_true ?_, decide_eq_true ?_⟩ <;> omega

/-- `gmtime` of an integer epoch inside the `Timestamp` range, whatever its representation,
build mode and set of repairs -/
theorem gmtime_isize (fx : Fixes) (b : Build) (v : Val) (i : Int) (hv : valAsIsize v = some i)
    (h1 : unixSecMin ≤ i) (h2 : i ≤ unixSecMax) :
    gmtime fx b v = .val (specArray (i * 1000000000)) := by
  have hf := micros_fit i h1 h2
  have hr : Timestamp.fromMicrosecond (i * 1000000) = some ⟨i * 1000000000⟩ := by
    unfold Timestamp.fromMicrosecond
    rw [if_pos (by unfold unixSecMin unixSecMax at *; omega)]
    congr 2; omega
  simp only [gmtime, epochToTimestamp, hv, mulMicros, hf, if_true, Out.val, hr]
  rw [dateTimeToArray_spec]

theorem gmtime_float (fx : Fixes) (b : Build) (f : UInt64) (hfin : F64.isFinite f = true)
    (h1 : unixSecMin * 1000000 ≤ floatMicros fx f) (h2 : floatMicros fx f ≤ unixSecMax * 1000000) :
    gmtime fx b (.num (.float f)) = .val (specArray (floatMicros fx f * 1000)) := by
  have hr : Timestamp.fromMicrosecond (floatMicros fx f) = some ⟨floatMicros fx f * 1000⟩ := by
    unfold Timestamp.fromMicrosecond
    rw [if_pos ⟨h1, h2⟩]
  simp only [gmtime, epochToTimestamp, valAsIsize, Num.asIsize, valAsF64, Num.toF64, hfin, hr, Out.val]
  simp
  rw [dateTimeToArray_spec]

theorem valAsIsize_vint (i : Int) : valAsIsize (vint i) = some i := rfl
theorem valAsF64_vint (i : Int) : valAsF64 (vint i) = some (F64.ofInt i) := rfl

theorem valI8_of (v : Val) (i : Int) (hv : valAsIsize v = some i) (h1 : -128 ≤ i) (h2 : i ≤ 127) : valI8 v = some i := by
  have hf : fitsI8 i = true := by
    unfold fitsI8; rw [decide_eq_true h1, decide_eq_true h2]; rfl
  simp only [valI8, hv, hf, if_true]

/-- `mktime` on integer fields that form a civil UTC time inside the `Timestamp` range computes
`specEpoch` (extra entries after the sixth are ignored) -/
theorem mktime_int_fields (fx : Fixes) (b : Build) (year month day hour min : Val) (rest : List Val)
    (y mo d h mi s : Int)
    (vy : valAsIsize year = some y) (vmo : valAsIsize month = some mo) (vd : valAsIsize day = some d)
    (vh : valAsIsize hour = some h) (vmi : valAsIsize min = some mi)
    (hy1 : -9999 ≤ y) (hy2 : y ≤ 9999) (hv : validDate y (mo + 1) d)
    (hh1 : 0 ≤ h) (hh2 : h ≤ 23) (hm1 : 0 ≤ mi) (hm2 : mi ≤ 59) (hs1 : 0 ≤ s) (hs2 : s ≤ 59)
    (hr1 : unixSecMin ≤ specEpoch y mo d h mi s) (hr2 : specEpoch y mo d h mi s ≤ unixSecMax) :
    mktime fx b (.arr (year :: month :: day :: hour :: min :: vint s :: rest)) =
      .val (vint (specEpoch y mo d h mi s)) := by
  obtain ⟨f1, f2, f3⟩ := sec_int fx s hs1 hs2
  have hv' := hv
  obtain ⟨m1, m2, d1, d2⟩ := hv
  have ⟨_, dl⟩ := daysInMonth_le y (mo + 1) m1 m2
  have e_mo := valI8_of month mo vmo (by omega) (by omega)
  have e_d := valI8_of day d vd (by omega) (by omega)
  have e_h := valI8_of hour h vh (by omega) (by omega)
  have e_mi := valI8_of min mi vmi (by omega) (by omega)
  have e_y : fitsI16 y = true := by
    unfold fitsI16; rw [decide_eq_true (show (-32768:Int) ≤ y by omega), decide_eq_true (show y ≤ 32767 by omega)]; rfl
  have e_mp : monthPlus1 fx b mo = .ok (some (mo + 1)) := by
    unfold monthPlus1; rw [if_pos (by omega)]
  have e_new : DateTime.new y (mo + 1) d h mi s 0 = some ⟨y, mo + 1, d, h, mi, s, 0⟩ := by
    unfold DateTime.new
    rw [if_pos ⟨hy1, hy2, hv', hh1, hh2, hm1, hm2, hs1, hs2, by omega, by omega⟩]
  have e_ns : (⟨y, mo + 1, d, h, mi, s, 0⟩ : DateTime).toNs = specEpoch y mo d h mi s * 1000000000 := by
    simp only [DateTime.toNs, specEpoch]; omega
  have e_in : Timestamp.inRange (specEpoch y mo d h mi s * 1000000000) = true := by
    unfold Timestamp.inRange unixSecMin unixSecMax at *
    rw [decide_eq_true (by omega), decide_eq_true (by omega)]; rfl
  simp only [mktime, arrayToDateTime, valAsF64_vint, f1, vy, e_y, e_mo, e_mp, e_d, e_h, e_mi, f2, f3, e_new,
    DateTime.toTimestampUTC, Bool.not_true, Bool.and_false, Bool.false_eq_true, if_false]
  rw [e_ns, e_in]
  simp only [if_true, Timestamp.subsecNanosecond, Timestamp.asSecond, timestampToEpoch,
    Int.mul_tmod_left, Int.mul_tdiv_cancel _ (show (1000000000:Int) ≠ 0 by decide)]
  simp [Out.val, vint]

theorem specArray_whole (i : Int) :
    specArray (i * 1000000000) =
      .arr [vint (civilFromDays (i / 86400)).1, vint ((civilFromDays (i / 86400)).2.1 - 1),
        vint (civilFromDays (i / 86400)).2.2, vint (i % 86400 / 3600), vint (i % 86400 % 3600 / 60),
        vint (i % 86400 % 60), vint (weekday (i / 86400)), vint (yearday (i / 86400))] := by
  have e1 : i * 1000000000 / 1000000000 = i := by omega
  have e2 : i * 1000000000 % 1000000000 = 0 := by omega
  simp only [specArray, e1, e2, specSeconds]
  simp

/-- `gmtime | mktime` returns every integer epoch of the `Timestamp` range -/
theorem mktime_gmtime_isize (fx : Fixes) (b : Build) (v : Val) (i : Int) (hv : valAsIsize v = some i)
    (h1 : unixSecMin ≤ i) (h2 : i ≤ unixSecMax) :
    ∃ a, gmtime fx b v = .val a ∧ mktime fx b a = .val (vint i) := by
  refine ⟨_, gmtime_isize fx b v i hv h1 h2, ?_⟩
  rw [specArray_whole]
  have ⟨hval, hinv⟩ := daysFromCivil_civilFromDays (i / 86400)
  have ⟨y1, y2⟩ := year_of_sec_range i h1 h2
  unfold utcYear at y1 y2
  have hse : specEpoch (civilFromDays (i / 86400)).1 ((civilFromDays (i / 86400)).2.1 - 1)
      (civilFromDays (i / 86400)).2.2 (i % 86400 / 3600) (i % 86400 % 3600 / 60) (i % 86400 % 60) = i := by
    simp only [specEpoch, Int.sub_add_cancel, hinv]; omega
  have := mktime_int_fields fx b (vint (civilFromDays (i / 86400)).1) (vint ((civilFromDays (i / 86400)).2.1 - 1))
    (vint (civilFromDays (i / 86400)).2.2) (vint (i % 86400 / 3600)) (vint (i % 86400 % 3600 / 60))
    [vint (weekday (i / 86400)), vint (yearday (i / 86400))]
    (civilFromDays (i / 86400)).1 ((civilFromDays (i / 86400)).2.1 - 1) (civilFromDays (i / 86400)).2.2
    (i % 86400 / 3600) (i % 86400 % 3600 / 60) (i % 86400 % 60) rfl rfl rfl rfl rfl y1 y2
    (by rw [Int.sub_add_cancel]; exact hval) (by omega) (by omega) (by omega) (by omega) (by omega) (by omega)
    (by rw [hse]; exact h1) (by rw [hse]; exact h2)
  rw [hse] at this
  exact this

theorem valI8_some {v : Val} {i : Int} (h : valI8 v = some i) : valAsIsize v = some i ∧ -128 ≤ i ∧ i ≤ 127 := by
  unfold valI8 at h
  cases hv : valAsIsize v with
  | none => simp [hv] at h
  | some j =>
    simp only [hv] at h
    by_cases hf : fitsI8 j = true
    · simp only [hf, if_true, Option.some.injEq] at h
      subst h
      simp only [fitsI8, Bool.and_eq_true, decide_eq_true_eq] at hf
      exact ⟨rfl, hf.1, hf.2⟩
    · simp [hf] at h

theorem monthPlus1_some {fx : Fixes} {b : Build} {mo m : Int} (h8 : -128 ≤ mo ∧ mo ≤ 127)
    (h : monthPlus1 fx b mo = .ok (some m)) : m = mo + 1 ∨ m = -128 := by
  unfold monthPlus1 at h
  split at h
  · simp at h; omega
  · split at h
    · simp at h
    · split at h
      · simp at h
      · simp [wrapI8] at h; omega

theorem nan_not_finite (f : UInt64) (h : F64.isNaN f = true) : F64.isFinite f = false := by
  simp [F64.isNaN, F64.isFinite] at *; exact h.1

theorem finite_of_not_nan_inf (f : UInt64) (h1 : F64.isNaN f = false) (h2 : F64.isInf f = false) :
    F64.isFinite f = true := by
  simp [F64.isNaN, F64.isInf, F64.isFinite] at *
  intro h; have := h1 h; have := h2 h; contradiction

theorem clamp_range (t : Int) (h0 : 0 ≤ (if t < -128 then (-128 : Int) else if t > 127 then 127 else t))
    (h1 : (if t < -128 then (-128 : Int) else if t > 127 then 127 else t) ≤ 59) : 0 ≤ t ∧ t ≤ 59 := by
  by_cases a : t < -128 <;> by_cases b : t > 127 <;> simp [a, b] at h0 h1 <;> omega

theorem floorCast_range (f : UInt64) (hn : F64.isNaN f = false) (h0 : 0 ≤ floorCastI8 f) (h1 : floorCastI8 f ≤ 59) :
    F64.isFinite f = true ∧ 0 ≤ floorInt f ∧ floorInt f ≤ 59 := by
  unfold floorCastI8 at h0 h1
  simp only [hn, Bool.false_eq_true, if_false] at h0 h1
  by_cases hi : F64.isInf f = true
  · simp only [hi, if_true] at h0 h1
    by_cases hs : F64.signBit f = true <;> simp [hs] at h0 h1 <;> omega
  · have hi' : F64.isInf f = false := by simpa using hi
    simp only [hi', Bool.false_eq_true, if_false] at h0 h1
    exact ⟨finite_of_not_nan_inf f hn hi', clamp_range _ h0 h1⟩

/-- what `array_to_datetime` has established when it returns a date-time -/
theorem arrayToDateTime_ok {fx : Fixes} {b : Build} {a : List Val} {dt : DateTime}
    (h : arrayToDateTime fx b a = .ok (.ok dt)) :
    ∃ year month day hour min sec rest y mo d hh mi secF,
      a = year :: month :: day :: hour :: min :: sec :: rest ∧
      valAsIsize year = some y ∧ valAsIsize month = some mo ∧ valAsIsize day = some d ∧
      valAsIsize hour = some hh ∧ valAsIsize min = some mi ∧ valAsF64 sec = some secF ∧
      (fx.rejectNonFinite = true → F64.isFinite secF = true) ∧
      dt = ⟨y, mo + 1, d, hh, mi, floorCastI8 secF, subsecNanos fx secF⟩ ∧
      -9999 ≤ y ∧ y ≤ 9999 ∧ validDate y (mo + 1) d ∧ 0 ≤ hh ∧ hh ≤ 23 ∧ 0 ≤ mi ∧ mi ≤ 59 ∧
      0 ≤ floorCastI8 secF ∧ floorCastI8 secF ≤ 59 ∧ 0 ≤ subsecNanos fx secF ∧ subsecNanos fx secF ≤ 999999999 := by
  match a, h with
  | year :: month :: day :: hour :: min :: sec :: rest, h =>
    simp only [arrayToDateTime] at h
    cases hsec : valAsF64 sec with
    | none => simp [hsec] at h
    | some secF =>
    simp only [hsec] at h
    by_cases hnf : (fx.rejectNonFinite && !F64.isFinite secF) = true
    · simp [hnf] at h
    · simp only [hnf, if_false, Bool.false_eq_true] at h
      cases hy : valAsIsize year with
      | none => simp [hy] at h
      | some y =>
      simp only [hy] at h
      by_cases h16 : fitsI16 y = true
      · simp only [h16, Bool.not_true, Bool.false_eq_true, if_false] at h
        cases hmo : valI8 month with
        | none => simp [hmo] at h
        | some mo =>
        simp only [hmo] at h
        have ⟨vmo, mo1, mo2⟩ := valI8_some hmo
        cases hmp : monthPlus1 fx b mo with
        | error p => simp [hmp] at h
        | ok om =>
        cases om with
        | none => simp [hmp] at h
        | some m =>
        simp only [hmp] at h
        cases hd : valI8 day with
        | none => simp [hd] at h
        | some d =>
        cases hh : valI8 hour with
        | none => simp [hd, hh] at h
        | some hr =>
        cases hmi : valI8 min with
        | none => simp [hd, hh, hmi] at h
        | some mi =>
        simp only [hd, hh, hmi] at h
        cases hnew : DateTime.new y m d hr mi (floorCastI8 secF) (subsecNanos fx secF) with
        | none => simp [hnew] at h
        | some dt' =>
        simp only [hnew, Except.ok.injEq, A2D.ok.injEq] at h
        subst h
        unfold DateTime.new at hnew
        split at hnew
        · rename_i hc
          obtain ⟨c1, c2, c3, c4, c5, c6, c7, c8, c9, c10, c11⟩ := hc
          simp only [Option.some.injEq] at hnew
          have hm : m = mo + 1 := by
            rcases monthPlus1_some ⟨mo1, mo2⟩ hmp with e | e
            · exact e
            · subst e; obtain ⟨q, _⟩ := c3; omega
          subst hm
          refine ⟨year, month, day, hour, min, sec, rest, y, mo, d, hr, mi, secF, rfl, hy, vmo,
            (valI8_some hd).1, (valI8_some hh).1, (valI8_some hmi).1, hsec, ?_, hnew.symm,
            c1, c2, c3, c4, c5, c6, c7, c8, c9, c10, c11⟩
          intro hr
          simpa [hr] using hnf
        · simp at hnew
      · simp [h16] at h
  | [], h => simp [arrayToDateTime] at h
  | [_], h => simp [arrayToDateTime] at h
  | [_, _], h => simp [arrayToDateTime] at h
  | [_, _, _], h => simp [arrayToDateTime] at h
  | [_, _, _, _], h => simp [arrayToDateTime] at h
  | [_, _, _, _, _], h => simp [arrayToDateTime] at h

/-- `array_to_datetime` panics only through `i8(month)? + 1` with month 127 in a build with
overflow checks on the unrepaired code -/
theorem arrayToDateTime_panic {fx : Fixes} {b : Build} {a : List Val} {p : Panic}
    (h : arrayToDateTime fx b a = .error p) :
    p = .addOverflow ∧ month127 a ∧ b.overflowChecks = true ∧ fx.checkedAdd = false := by
  match a, h with
  | year :: month :: day :: hour :: min :: sec :: rest, h =>
    simp only [arrayToDateTime] at h
    cases hsec : valAsF64 sec with
    | none => simp [hsec] at h
    | some secF =>
    simp only [hsec] at h
    by_cases hnf : (fx.rejectNonFinite && !F64.isFinite secF) = true
    · simp [hnf] at h
    · simp only [hnf, if_false, Bool.false_eq_true] at h
      cases hy : valAsIsize year with
      | none => simp [hy] at h
      | some y =>
      simp only [hy] at h
      by_cases h16 : fitsI16 y = true
      · simp only [h16, Bool.not_true, Bool.false_eq_true, if_false] at h
        cases hmo : valI8 month with
        | none => simp [hmo] at h
        | some mo =>
        simp only [hmo] at h
        have ⟨vmo, mo1, mo2⟩ := valI8_some hmo
        cases hmp : monthPlus1 fx b mo with
        | error q =>
          simp only [hmp, Except.error.injEq] at h
          subst h
          unfold monthPlus1 at hmp
          split at hmp
          · simp at hmp
          · rename_i hgt
            split at hmp
            · simp at hmp
            · rename_i hca
              split at hmp
              · rename_i hoc
                simp only [Except.error.injEq] at hmp
                refine ⟨hmp.symm, ?_, hoc, by simpa using hca⟩
                have : mo = 127 := by omega
                subst this
                simp [month127, vmo]
              · simp at hmp
        | ok om =>
        cases om with
        | none => simp [hmp] at h
        | some m =>
        simp only [hmp] at h
        cases hd : valI8 day with
        | none => simp [hd] at h
        | some d =>
        cases hh : valI8 hour with
        | none => simp [hd, hh] at h
        | some hr =>
        cases hmi : valI8 min with
        | none => simp [hd, hh, hmi] at h
        | some mi =>
        simp only [hd, hh, hmi] at h
        cases hnew : DateTime.new y m d hr mi (floorCastI8 secF) (subsecNanos fx secF) with
        | none => simp [hnew] at h
        | some dt' => simp [hnew] at h
      · simp [h16] at h
  | [], h => simp [arrayToDateTime] at h
  | [_], h => simp [arrayToDateTime] at h
  | [_, _], h => simp [arrayToDateTime] at h
  | [_, _, _], h => simp [arrayToDateTime] at h
  | [_, _, _, _], h => simp [arrayToDateTime] at h
  | [_, _, _, _, _], h => simp [arrayToDateTime] at h

theorem isInf_cases (f : UInt64) (h : F64.isInf f = true) : f = F64.posInf ∨ f = F64.negInf := by
  simp only [F64.isInf, F64.expField, F64.fracField, Bool.and_eq_true, beq_iff_eq] at h
  have hlt := f.toNat_lt
  by_cases hs : f.toNat < 2 ^ 63
  · left; apply UInt64.toNat_inj.mp; simp [F64.posInf]; omega
  · right; apply UInt64.toNat_inj.mp; simp [F64.negInf]; omega

theorem inf_micros (fx : Fixes) :
    floatMicros fx F64.posInf = isizeMax ∧ floatMicros fx F64.negInf = isizeMin := by
  unfold floatMicros
  cases fx.roundNanos
  · simp only [Bool.false_eq_true, if_false]; decide +kernel
  · simp only [if_true]; decide +kernel

theorem nan_micros (f : UInt64) (h : F64.isNaN f = true) : floatMicros Fixes.none f = 0 := by
  have : F64.mul f f1e6 = F64.nan := by simp [F64.mul, h]
  simp only [floatMicros, Fixes.none, Bool.false_eq_true, if_false, this]
  decide +kernel

theorem digit_table : ∀ k : Fin 10, ¬ '.' = Char.ofNat (48 + k.val) := by decide

theorem dot_ne_digitChar (n : Int) : ¬ '.' = digitChar n := by
  unfold digitChar
  exact digit_table ⟨n.toNat % 10, Nat.mod_lt _ (by decide)⟩

/-- the printed text of an instant without sub-second part contains no `'.'` -/
theorem print_no_dot (dt : DateTime) (h : dt.nanos = 0) : (printDateTimeZ dt).contains '.' = false := by
  simp [printDateTimeZ, h, pad2, pad4, List.contains_eq_mem, List.mem_append, dot_ne_digitChar]

theorem whole_second_nanos (i : Int) : (Timestamp.toDateTimeUTC ⟨i * 1000000000⟩).nanos = 0 := by
  simp only [Timestamp.toDateTimeUTC]; omega

/-- `to_iso8601 | from_iso8601` on an integer epoch, given that the parser reads back what the
printer wrote for this instant -/
theorem fromIso_toIso_isize (fx : Fixes) (v : Val) (i : Int) (hv : valAsIsize v = some i)
    (h1 : unixSecMin ≤ i) (h2 : i ≤ unixSecMax)
    (hp : parseIso (Timestamp.print ⟨i * 1000000000⟩) = .ok ⟨i * 1000000000⟩) :
    ∃ cs, toIso8601 fx v = .ok cs ∧ fromIso8601 fx cs = some (.ok (vint i)) := by
  refine ⟨Timestamp.print ⟨i * 1000000000⟩, ?_, ?_⟩
  · simp only [toIso8601, hv, Timestamp.fromSecond]
    rw [if_pos ⟨h1, h2⟩]
  · have hnd := print_no_dot _ (whole_second_nanos i)
    simp only [fromIso8601, hp, Timestamp.subsecNanosecond, Int.mul_tmod_left, timestampToEpoch,
      Timestamp.asSecond, Int.mul_tdiv_cancel _ (show (1000000000:Int) ≠ 0 by decide)]
    unfold Timestamp.print
    rw [hnd]
    simp [vint]

end Jaq.Time
