/- UTF-8 chunking lemmas (`Jaq.Utf8`), and explode / implode. -/
import JaqVerif.C13.Text

namespace Jaq.C13
open Jaq

/-! ## `seqLen` ranges -/

theorem seqLen_cases (l : Nat) :
    (Utf8.seqLen l = 1 ∧ l < 0x80) ∨ (Utf8.seqLen l = 2 ∧ 0xC2 ≤ l ∧ l ≤ 0xDF) ∨
    (Utf8.seqLen l = 3 ∧ 0xE0 ≤ l ∧ l ≤ 0xEF) ∨ (Utf8.seqLen l = 4 ∧ 0xF0 ≤ l ∧ l ≤ 0xF4) ∨
    (Utf8.seqLen l = 0) := by
  unfold Utf8.seqLen
  split
  · left; exact ⟨rfl, by assumption⟩
  · split
    · rename_i h; simp only [Bool.and_eq_true, decide_eq_true_eq] at h
      right; left; exact ⟨rfl, h⟩
    · split
      · rename_i h; simp only [Bool.and_eq_true, decide_eq_true_eq] at h
        right; right; left; exact ⟨rfl, h⟩
      · split
        · rename_i h; simp only [Bool.and_eq_true, decide_eq_true_eq] at h
          right; right; right; left; exact ⟨rfl, h⟩
        · right; right; right; right; rfl

theorem secondRange_bounds (l : Nat) : 0x80 ≤ (Utf8.secondRange l).1 ∧ (Utf8.secondRange l).2 ≤ 0xBF := by
  unfold Utf8.secondRange
  split
  · simp
  · split
    · simp
    · split
      · simp
      · split <;> simp

theorem u8_eq_of_toNat {b : UInt8} {n : Nat} (h : n = b.toNat) : UInt8.ofNat n = b := by
  subst h; simp

theorem ite_eq_some_pair {p : Bool} {a b : Option Nat × Nat} {c k : Nat}
    (h : (if p = true then a else b) = (some c, k)) :
    (p = true ∧ a = (some c, k)) ∨ (p = false ∧ b = (some c, k)) := by
  cases p <;> simp_all

theorem isCont_iff (b : Nat) : Utf8.isCont b = true ↔ 0x80 ≤ b ∧ b ≤ 0xBF := by
  simp [Utf8.isCont]

theorem range_iff (lo hi b : Nat) : (decide (lo ≤ b) && decide (b ≤ hi)) = true ↔ lo ≤ b ∧ b ≤ hi := by
  simp

/-! ## a successfully decoded character is re-encoded to the same bytes -/

theorem decode1_some {bs : Bytes} {c k : Nat} (h : Utf8.decode1 bs = (some c, k)) :
    bs.take k = Utf8.encode c ∧ Utf8.isScalar c = true ∧ 1 ≤ k := by
  cases bs with
  | nil => simp [Utf8.decode1] at h
  | cons b0 rest =>
    have hb0 := b0.toNat_lt
    rcases seqLen_cases b0.toNat with ⟨hs, hl⟩ | ⟨hs, hl⟩ | ⟨hs, hl⟩ | ⟨hs, hl⟩ | hs
    · -- ASCII
      simp only [Utf8.decode1, hs] at h
      obtain ⟨hc, hk⟩ := Prod.mk.inj h
      cases hc; cases hk
      refine ⟨?_, ?_, by omega⟩
      · simp [Utf8.encode, hl]
      · simp [Utf8.isScalar]; omega
    · -- two bytes
      simp only [Utf8.decode1, hs] at h
      cases rest with
      | nil => simp at h
      | cons b1 r1 =>
        have hb1 := b1.toNat_lt
        simp only at h
        rcases ite_eq_some_pair h with ⟨hc1, h⟩ | ⟨_, h⟩
        · rw [isCont_iff] at hc1
          obtain ⟨hc, hk⟩ := Prod.mk.inj h
          cases hc; cases hk
          refine ⟨?_, ?_, by omega⟩
          · have e1 : ¬ (b0.toNat % 32 * 64 + b1.toNat % 64 < 0x80) := by omega
            have e2 : b0.toNat % 32 * 64 + b1.toNat % 64 < 0x800 := by omega
            simp only [Utf8.encode, e1, e2, if_false, if_true, List.take_succ_cons, List.take_zero]
            congr 1
            · exact (u8_eq_of_toNat (by omega)).symm
            · congr 1
              exact (u8_eq_of_toNat (by omega)).symm
          · simp [Utf8.isScalar]; omega
        · simp at h
    · -- three bytes
      simp only [Utf8.decode1, hs] at h
      have hr := secondRange_bounds b0.toNat
      generalize hsr : Utf8.secondRange b0.toNat = sr at h hr
      obtain ⟨lo, hi⟩ := sr
      have hED : b0.toNat = 0xED → hi ≤ 0x9F := by
        intro e; rw [e] at hsr; simp [Utf8.secondRange] at hsr; omega
      have hE0 : b0.toNat = 0xE0 → 0xA0 ≤ lo := by
        intro e; rw [e] at hsr; simp [Utf8.secondRange] at hsr; omega
      simp only at h hr
      cases rest with
      | nil => simp at h
      | cons b1 r1 =>
        have hb1 := b1.toNat_lt
        simp only at h
        rcases ite_eq_some_pair h with ⟨hc1, h⟩ | ⟨_, h⟩
        · rw [range_iff] at hc1
          cases r1 with
          | nil => simp at h
          | cons b2 r2 =>
            have hb2 := b2.toNat_lt
            simp only at h
            rcases ite_eq_some_pair h with ⟨hc2, h⟩ | ⟨_, h⟩
            · rw [isCont_iff] at hc2
              obtain ⟨hc, hk⟩ := Prod.mk.inj h
              cases hc; cases hk
              have hlow : b0.toNat = 0xE0 → 0xA0 ≤ b1.toNat := fun e => by have := hE0 e; omega
              have hhigh : b0.toNat = 0xED → b1.toNat ≤ 0x9F := fun e => by have := hED e; omega
              refine ⟨?_, ?_, by omega⟩
              · have e2 : ¬ (b0.toNat % 16 * 4096 + b1.toNat % 64 * 64 + b2.toNat % 64 < 0x800) := by
                  by_cases e : b0.toNat = 0xE0
                  · have := hlow e; omega
                  · omega
                have e1 : ¬ (b0.toNat % 16 * 4096 + b1.toNat % 64 * 64 + b2.toNat % 64 < 0x80) := by omega
                have e3 : b0.toNat % 16 * 4096 + b1.toNat % 64 * 64 + b2.toNat % 64 < 0x10000 := by omega
                simp only [Utf8.encode, e1, e2, e3, if_false, if_true, List.take_succ_cons, List.take_zero]
                congr 1
                · exact (u8_eq_of_toNat (by omega)).symm
                · congr 1
                  · exact (u8_eq_of_toNat (by omega)).symm
                  · congr 1
                    exact (u8_eq_of_toNat (by omega)).symm
              · simp only [Utf8.isScalar, Bool.or_eq_true, Bool.and_eq_true, decide_eq_true_eq]
                by_cases e : b0.toNat = 0xED
                · have := hhigh e; left; omega
                · by_cases e' : b0.toNat < 0xED
                  · left; omega
                  · right; omega
            · simp at h
        · simp at h
    · -- four bytes
      simp only [Utf8.decode1, hs] at h
      have hr := secondRange_bounds b0.toNat
      generalize hsr : Utf8.secondRange b0.toNat = sr at h hr
      obtain ⟨lo, hi⟩ := sr
      have hF0 : b0.toNat = 0xF0 → 0x90 ≤ lo := by
        intro e; rw [e] at hsr; simp [Utf8.secondRange] at hsr; omega
      have hF4 : b0.toNat = 0xF4 → hi ≤ 0x8F := by
        intro e; rw [e] at hsr; simp [Utf8.secondRange] at hsr; omega
      simp only at h hr
      cases rest with
      | nil => simp at h
      | cons b1 r1 =>
        have hb1 := b1.toNat_lt
        simp only at h
        rcases ite_eq_some_pair h with ⟨hc1, h⟩ | ⟨_, h⟩
        · rw [range_iff] at hc1
          cases r1 with
          | nil => simp at h
          | cons b2 r2 =>
            have hb2 := b2.toNat_lt
            simp only at h
            rcases ite_eq_some_pair h with ⟨hc2, h⟩ | ⟨_, h⟩
            · rw [isCont_iff] at hc2
              cases r2 with
              | nil => simp at h
              | cons b3 r3 =>
                have hb3 := b3.toNat_lt
                simp only at h
                rcases ite_eq_some_pair h with ⟨hc3, h⟩ | ⟨_, h⟩
                · rw [isCont_iff] at hc3
                  obtain ⟨hc, hk⟩ := Prod.mk.inj h
                  cases hc; cases hk
                  have hlow : b0.toNat = 0xF0 → 0x90 ≤ b1.toNat := fun e => by have := hF0 e; omega
                  have hhigh : b0.toNat = 0xF4 → b1.toNat ≤ 0x8F := fun e => by have := hF4 e; omega
                  have hge : 0x10000 ≤ b0.toNat % 8 * 262144 + b1.toNat % 64 * 4096 + b2.toNat % 64 * 64 + b3.toNat % 64 := by
                    by_cases e : b0.toNat = 0xF0
                    · have := hlow e; omega
                    · omega
                  have hlt : b0.toNat % 8 * 262144 + b1.toNat % 64 * 4096 + b2.toNat % 64 * 64 + b3.toNat % 64 < 0x110000 := by
                    by_cases e : b0.toNat = 0xF4
                    · have := hhigh e; omega
                    · omega
                  refine ⟨?_, ?_, by omega⟩
                  · have e1 : ¬ (b0.toNat % 8 * 262144 + b1.toNat % 64 * 4096 + b2.toNat % 64 * 64 + b3.toNat % 64 < 0x80) := by omega
                    have e2 : ¬ (b0.toNat % 8 * 262144 + b1.toNat % 64 * 4096 + b2.toNat % 64 * 64 + b3.toNat % 64 < 0x800) := by omega
                    have e3 : ¬ (b0.toNat % 8 * 262144 + b1.toNat % 64 * 4096 + b2.toNat % 64 * 64 + b3.toNat % 64 < 0x10000) := by omega
                    simp only [Utf8.encode, e1, e2, e3, if_false, List.take_succ_cons, List.take_zero]
                    congr 1
                    · exact (u8_eq_of_toNat (by omega)).symm
                    · congr 1
                      · exact (u8_eq_of_toNat (by omega)).symm
                      · congr 1
                        · exact (u8_eq_of_toNat (by omega)).symm
                        · congr 1
                          exact (u8_eq_of_toNat (by omega)).symm
                  · simp only [Utf8.isScalar, Bool.or_eq_true, Bool.and_eq_true, decide_eq_true_eq]
                    right; omega
                · simp at h
            · simp at h
        · simp at h
    · -- not a lead byte
      simp only [Utf8.decode1, hs] at h
      simp at h

/-! ## chunks partition the string -/

theorem chunksF_nil (n : Nat) : Utf8.chunksF n [] = [] := by cases n <;> rfl

theorem chunksF_cons (n : Nat) (b : UInt8) (r : Bytes) :
    Utf8.chunksF (n + 1) (b :: r) =
      ((Utf8.decode1 (b :: r)).1, (b :: r).take (if (Utf8.decode1 (b :: r)).2 == 0 then 1 else (Utf8.decode1 (b :: r)).2))
        :: Utf8.chunksF n ((b :: r).drop (if (Utf8.decode1 (b :: r)).2 == 0 then 1 else (Utf8.decode1 (b :: r)).2)) := by
  rfl

theorem chunksF_flatten : ∀ (n : Nat) (bs : Bytes), bs.length ≤ n →
    ((Utf8.chunksF n bs).map (·.2)).flatten = bs := by
  intro n
  induction n with
  | zero =>
    intro bs h
    have : bs = [] := List.eq_nil_of_length_eq_zero (by omega)
    subst this; rfl
  | succ n ih =>
    intro bs h
    cases bs with
    | nil => rw [chunksF_nil]; rfl
    | cons b r =>
      rw [chunksF_cons]
      simp only [List.map_cons, List.flatten_cons]
      rw [ih]
      · exact List.take_append_drop _ _
      · have hk : 1 ≤ (if (Utf8.decode1 (b :: r)).2 == 0 then 1 else (Utf8.decode1 (b :: r)).2) := by
          split
          · omega
          · rename_i h0; simp only [beq_iff_eq] at h0; omega
        simp only [List.length_drop, List.length_cons] at *
        omega

theorem chars_flatten (s : Bytes) : (Utf8.chars s).flatten = s :=
  chunksF_flatten s.length s (Nat.le_refl _)

/-! ## implode ∘ explode -/

theorem implode_append (a b : List Int) :
    implode (a ++ b) = match implode a, implode b with
      | some x, some y => some (x ++ y)
      | _, _ => none := by
  induction a with
  | nil => simp [implode]; cases implode b <;> rfl
  | cons i is ih =>
    simp only [List.cons_append, implode, ih]
    cases implode1 i <;> cases implode is <;> cases implode b <;> simp

theorem implode_neg_bytes (bs : Bytes) : implode (bs.map fun b => -(Int.ofNat b.toNat)) = some bs := by
  induction bs with
  | nil => rfl
  | cons b r ih =>
    have hb := b.toNat_lt
    simp only [List.map_cons, implode, ih]
    have : implode1 (-(Int.ofNat b.toNat)) = some [b] := by
      unfold implode1
      have h1 : (0 : Int) ≤ - -(Int.ofNat b.toNat) ∧ - -(Int.ofNat b.toNat) ≤ 255 := by
        simp only [Int.ofNat_eq_natCast]
        constructor <;> omega
      rw [if_pos h1]
      simp
    rw [this]; rfl

theorem implode1_scalar (c : Nat) (h : Utf8.isScalar c = true) : implode1 (Int.ofNat c) = some (Utf8.encode c) := by
  unfold implode1
  by_cases h0 : c = 0
  · subst h0; simp [Utf8.encode]
  · have : ¬ ((0 : Int) ≤ -(Int.ofNat c) ∧ -(Int.ofNat c) ≤ 255) := by
      simp only [Int.ofNat_eq_natCast]; omega
    rw [if_neg this]
    simp [h]

theorem implode_explodeChunks : ∀ (n : Nat) (bs : Bytes), bs.length ≤ n →
    implode ((Utf8.chunksF n bs).flatMap explodeChunk) = some bs := by
  intro n
  induction n with
  | zero =>
    intro bs h
    have : bs = [] := List.eq_nil_of_length_eq_zero (by omega)
    subst this; rfl
  | succ n ih =>
    intro bs h
    cases bs with
    | nil => rw [chunksF_nil]; rfl
    | cons b r =>
      rw [chunksF_cons, List.flatMap_cons, implode_append]
      have hrest : implode ((Utf8.chunksF n ((b :: r).drop (if (Utf8.decode1 (b :: r)).2 == 0 then 1 else (Utf8.decode1 (b :: r)).2))).flatMap explodeChunk)
          = some ((b :: r).drop (if (Utf8.decode1 (b :: r)).2 == 0 then 1 else (Utf8.decode1 (b :: r)).2)) := by
        apply ih
        have hk : 1 ≤ (if (Utf8.decode1 (b :: r)).2 == 0 then 1 else (Utf8.decode1 (b :: r)).2) := by
          split
          · omega
          · rename_i h0; simp only [beq_iff_eq] at h0; omega
        simp only [List.length_drop, List.length_cons] at *
        omega
      rw [hrest]
      have hhead : implode (explodeChunk ((Utf8.decode1 (b :: r)).1, (b :: r).take (if (Utf8.decode1 (b :: r)).2 == 0 then 1 else (Utf8.decode1 (b :: r)).2)))
          = some ((b :: r).take (if (Utf8.decode1 (b :: r)).2 == 0 then 1 else (Utf8.decode1 (b :: r)).2)) := by
        generalize hd : Utf8.decode1 (b :: r) = d
        obtain ⟨c, k⟩ := d
        cases c with
        | none => exact implode_neg_bytes _
        | some v =>
          obtain ⟨ht, hsc, hk⟩ := decode1_some hd
          have hk0 : (k == 0) = false := by simp; omega
          simp only [hk0, Bool.false_eq_true, if_false, explodeChunk, implode]
          rw [implode1_scalar v hsc, ht]
          simp
      rw [hhead]
      simp only [List.take_append_drop]

theorem implode_explode_all (s : Bytes) : implode (explode s) = some s :=
  implode_explodeChunks s.length s (Nat.le_refl _)

/-! ## ROUND 2: truncation / stability of the chunking (`decode1` looks at most one byte past a
   character, and only to see that it is absent or does not continue the sequence) -/

theorem decode1_snd_pos (b : UInt8) (r : Bytes) : 1 ≤ (Utf8.decode1 (b :: r)).2 := by
  simp only [Utf8.decode1]
  split
  · simp
  · split <;> (try split) <;> simp
  · split <;> (try split) <;> (try split) <;> (try split) <;> (try split) <;> simp
  · split <;> (try split) <;> (try split) <;> (try split) <;> (try split) <;> (try split) <;> (try split) <;> simp
  · simp

/-- TRUNCATION: cutting the input anywhere at or after the end of the first character does not
change what `decode1` returns (it looks at most one byte past the character, and only to see
that the byte is absent or does not continue the sequence) -/
theorem decode1_take (bs : Bytes) (m : Nat) (h : (Utf8.decode1 bs).2 ≤ m) :
    Utf8.decode1 (bs.take m) = Utf8.decode1 bs := by
  cases bs with
  | nil => simp
  | cons b0 rest =>
    cases m with
    | zero => have := decode1_snd_pos b0 rest; omega
    | succ m =>
      simp only [List.take_succ_cons]
      rcases seqLen_cases b0.toNat with ⟨hs, _⟩ | ⟨hs, _⟩ | ⟨hs, _⟩ | ⟨hs, _⟩ | hs
      · simp only [Utf8.decode1, hs]
      · simp only [Utf8.decode1, hs] at h ⊢
        cases rest with
        | nil => simp
        | cons b1 r1 =>
          cases m with
          | zero =>
            simp only at h
            split at h
            · simp at h
            · rename_i hc; simp [hc]
          | succ m => simp
      · simp only [Utf8.decode1, hs] at h ⊢
        generalize Utf8.secondRange b0.toNat = sr at h ⊢
        obtain ⟨lo, hi⟩ := sr
        simp only at h ⊢
        cases rest with
        | nil => simp
        | cons b1 r1 =>
          cases m with
          | zero =>
            simp only at h
            split at h
            · split at h <;> (try split at h) <;> simp at h
            · rename_i hc; simp [hc]
          | succ m =>
            simp only [List.take_succ_cons]
            cases r1 with
            | nil => simp
            | cons b2 r2 =>
              cases m with
              | zero =>
                simp only at h
                split at h
                · rename_i hc
                  split at h
                  · simp at h
                  · rename_i hc2; simp [hc, hc2]
                · rename_i hc; simp [hc]
              | succ m => simp
      · simp only [Utf8.decode1, hs] at h ⊢
        generalize Utf8.secondRange b0.toNat = sr at h ⊢
        obtain ⟨lo, hi⟩ := sr
        simp only at h ⊢
        cases rest with
        | nil => simp
        | cons b1 r1 =>
          cases m with
          | zero =>
            simp only at h
            split at h
            · split at h <;> (try split at h) <;> (try split at h) <;> (try split at h) <;> simp at h
            · rename_i hc; simp [hc]
          | succ m =>
            simp only [List.take_succ_cons]
            cases r1 with
            | nil => simp
            | cons b2 r2 =>
              cases m with
              | zero =>
                simp only at h
                split at h
                · rename_i hc
                  split at h
                  · split at h <;> (try split at h) <;> simp at h
                  · rename_i hc2; simp [hc, hc2]
                · rename_i hc; simp [hc]
              | succ m =>
                simp only [List.take_succ_cons]
                cases r2 with
                | nil => simp
                | cons b3 r3 =>
                  cases m with
                  | zero =>
                    simp only at h
                    split at h
                    · rename_i hc
                      split at h
                      · rename_i hc2
                        split at h
                        · simp at h
                        · rename_i hc3; simp [hc, hc2, hc3]
                      · rename_i hc2; simp [hc, hc2]
                    · rename_i hc; simp [hc]
                  | succ m => simp
      · simp only [Utf8.decode1, hs]


theorem decode1_snd_le (bs : Bytes) : (Utf8.decode1 bs).2 ≤ bs.length := by
  cases bs with
  | nil => simp [Utf8.decode1]
  | cons b0 rest =>
    simp only [Utf8.decode1]
    split
    · simp
    · split <;> (try split) <;> simp
    · split <;> (try split) <;> (try split) <;> (try split) <;> (try split) <;> simp
    · split <;> (try split) <;> (try split) <;> (try split) <;> (try split) <;> (try split) <;> (try split) <;> simp
    · simp

/-! ## fuel independence; unfolding `chunks` -/

theorem chunksF_fuel : ∀ (n m : Nat) (bs : Bytes), bs.length ≤ n → bs.length ≤ m →
    Utf8.chunksF n bs = Utf8.chunksF m bs := by
  intro n
  induction n with
  | zero =>
    intro m bs h _
    have : bs = [] := List.eq_nil_of_length_eq_zero (by omega)
    subst this; rw [chunksF_nil, chunksF_nil]
  | succ n ih =>
    intro m bs h hm
    cases bs with
    | nil => rw [chunksF_nil, chunksF_nil]
    | cons b r =>
      cases m with
      | zero => simp at hm
      | succ m =>
        rw [chunksF_cons, chunksF_cons]
        have hk : 1 ≤ (if (Utf8.decode1 (b :: r)).2 == 0 then 1 else (Utf8.decode1 (b :: r)).2) := by
          split
          · omega
          · rename_i h0; simp only [beq_iff_eq] at h0; omega
        rw [ih m _ (by simp only [List.length_drop, List.length_cons] at *; omega)
          (by simp only [List.length_drop, List.length_cons] at *; omega)]

theorem chunksF_eq_chunks (n : Nat) (bs : Bytes) (h : bs.length ≤ n) : Utf8.chunksF n bs = Utf8.chunks bs :=
  chunksF_fuel n bs.length bs h (Nat.le_refl _)

theorem chunks_nil : Utf8.chunks [] = [] := rfl

theorem chunks_cons (b : UInt8) (r : Bytes) :
    Utf8.chunks (b :: r) = ((Utf8.decode1 (b :: r)).1, (b :: r).take (Utf8.decode1 (b :: r)).2)
      :: Utf8.chunks ((b :: r).drop (Utf8.decode1 (b :: r)).2) := by
  have hp := decode1_snd_pos b r
  have h0 : ((Utf8.decode1 (b :: r)).2 == 0) = false := by simp; omega
  show Utf8.chunksF (r.length + 1) (b :: r) = _
  rw [chunksF_cons]
  simp only [h0, Bool.false_eq_true, if_false]
  rw [chunksF_eq_chunks]
  simp only [List.length_drop, List.length_cons]; omega

/-- total byte length of the first `j` chunks -/
def chunkPre (cs : List (Option Nat × Bytes)) (j : Nat) : Nat := ((cs.take j).map (·.2)).flatten.length

theorem chunkPre_zero (cs : List (Option Nat × Bytes)) : chunkPre cs 0 = 0 := by simp [chunkPre]

theorem chunkPre_cons_succ (c : Option Nat × Bytes) (cs : List (Option Nat × Bytes)) (j : Nat) :
    chunkPre (c :: cs) (j + 1) = c.2.length + chunkPre cs j := by
  simp [chunkPre]

/-- STABILITY (1): the chunks of a string cut at a chunk boundary are the chunks before the cut;
    (2): the chunks of the rest are the chunks after the cut -/
theorem chunks_take_drop : ∀ (n : Nat) (bs : Bytes), bs.length ≤ n → ∀ j : Nat,
    Utf8.chunks (bs.take (chunkPre (Utf8.chunks bs) j)) = (Utf8.chunks bs).take j ∧
    Utf8.chunks (bs.drop (chunkPre (Utf8.chunks bs) j)) = (Utf8.chunks bs).drop j := by
  intro n
  induction n with
  | zero =>
    intro bs h j
    have : bs = [] := List.eq_nil_of_length_eq_zero (by omega)
    subst this; simp [chunks_nil]
  | succ n ih =>
    intro bs h j
    cases bs with
    | nil => simp [chunks_nil]
    | cons b r =>
      cases j with
      | zero => simp [chunkPre_zero, chunks_nil]
      | succ j =>
        have hp := decode1_snd_pos b r
        have hle := decode1_snd_le (b :: r)
        rw [chunks_cons b r, chunkPre_cons_succ]
        generalize hd : Utf8.decode1 (b :: r) = d at hp hle
        obtain ⟨c, k⟩ := d
        simp only at hp hle ⊢
        have hlen : ((b :: r).take k).length = k := by rw [List.length_take]; omega
        rw [hlen]
        obtain ⟨ih1, ih2⟩ := ih ((b :: r).drop k) (by simp only [List.length_drop, List.length_cons] at *; omega) j
        generalize hm : chunkPre (Utf8.chunks ((b :: r).drop k)) j = m at ih1 ih2
        constructor
        · -- the cut string is non-empty and starts with the same character
          have hne : (b :: r).take (k + m) = b :: r.take (k + m - 1) := by
            have : k + m = (k + m - 1) + 1 := by omega
            rw [this, List.take_succ_cons]; simp
          have hdec : Utf8.decode1 ((b :: r).take (k + m)) = (c, k) := by
            rw [decode1_take _ _ (by rw [hd]; simp), hd]
          rw [hne, chunks_cons, ← hne, hdec]
          simp only [List.take_succ_cons]
          rw [List.take_take, Nat.min_eq_left (by omega), List.drop_take, Nat.add_sub_cancel_left, ih1]
        · rw [← List.drop_drop, ih2]
          simp

end Jaq.C13
