/-
  C12 helper lemmas: `flatten($d)` of the current tree against the manual's `flattens`,
  `flatten/0`, exact rounding, the `binary_search` contract, prefixes and suffixes.
-/
import JaqVerif.Lemmas.C12Val

namespace Jaq.Coll

/-! ### `flatten($d)` -/

/-- `w` represents the list `l` the way `map(…) | add` does: an array, or `null` for nothing -/
def Rep (w : Val) (l : List Val) : Prop := w = .arr l ∨ (w = .null ∧ l = [])

theorem add_rep {acc x : Val} {l lx : List Val} (ha : Rep acc l) (hx : Rep x lx) :
    ∃ w, Val.add acc x = .ok w ∧ Rep w (l ++ lx) := by
  rcases ha with rfl | ⟨rfl, rfl⟩ <;> rcases hx with rfl | ⟨rfl, rfl⟩
  · exact ⟨_, rfl, Or.inl rfl⟩
  · exact ⟨.arr l, rfl, Or.inl (by simp)⟩
  · exact ⟨.arr lx, rfl, Or.inl (by simp)⟩
  · exact ⟨.null, rfl, Or.inr ⟨rfl, rfl⟩⟩

theorem mapM'_nil {α β ε : Type} (f : α → Except ε β) : mapM' f [] = .ok [] := rfl
theorem mapM'_cons {α β ε : Type} (f : α → Except ε β) (x : α) (xs : List α) :
    mapM' f (x :: xs) = (match f x with
      | .error e => .error e
      | .ok y => match mapM' f xs with
        | .error e => .error e
        | .ok ys => .ok (y :: ys)) := rfl

theorem addAll_nil (acc : Val) : addAll acc [] = .ok acc := rfl
theorem addAll_cons (acc x : Val) (xs : List Val) :
    addAll acc (x :: xs) = (match Val.add acc x with
      | .error e => .error e
      | .ok acc' => addAll acc' xs) := rfl

theorem parts_add (g : Val → ValR) (f : Val → List Val) :
    ∀ xs : List Val, (∀ x ∈ xs, ∃ w, g x = .ok w ∧ Rep w (f x)) →
      ∃ parts, mapM' g xs = .ok parts ∧
        ∀ acc l, Rep acc l → ∃ w, addAll acc parts = .ok w ∧ Rep w (l ++ xs.flatMap f)
  | [], _ => ⟨[], rfl, fun acc l h => ⟨acc, rfl, by simpa using h⟩⟩
  | x :: xs, hg => by
    obtain ⟨wx, hwx, hrx⟩ := hg x (List.mem_cons_self ..)
    obtain ⟨parts, hparts, hadd⟩ := parts_add g f xs (fun y hy => hg y (List.mem_cons_of_mem _ hy))
    refine ⟨wx :: parts, by rw [mapM'_cons, hwx, hparts], ?_⟩
    intro acc l hacc
    obtain ⟨acc', hacc', hrep'⟩ := add_rep hacc hrx
    obtain ⟨w, hw, hrep⟩ := hadd acc' (l ++ f x) hrep'
    refine ⟨w, by rw [addAll_cons, hacc']; exact hw, ?_⟩
    simpa [List.flatMap_cons, List.append_assoc] using hrep

theorem flatMap_single (xs : List Val) : xs.flatMap (flattensN 0) = xs := by
  induction xs with
  | nil => rfl
  | cons x xs ih => rw [List.flatMap_cons, ih]; rfl

theorem flattensN_succ_arr (n : Nat) (xs : List Val) : flattensN (n + 1) (.arr xs) = xs.flatMap (flattensN n) := rfl

theorem flattensN_not_arr (n : Nat) {v : Val} (h : ∀ a, v ≠ .arr a) : flattensN n v = [v] := by
  cases n with
  | zero => rfl
  | succ n =>
    cases v with
    | arr a => exact absurd rfl (h a)
    | _ => rfl

theorem flattenCurN_zero (v : Val) : flattenCurN 0 v = .ok v := rfl

theorem flattenCurN_succ_arr (n : Nat) (xs : List Val) :
    flattenCurN (n + 1) (.arr xs) =
      (match mapM' (fun x => if isarray x then flattenCurN n x else .ok (.arr [x])) xs with
       | .error e => .error e
       | .ok parts => addAll .null parts) := rfl

/-- on arrays, the current `flatten($d)` builds the manual's list — as an array, or as
`null` when the list is empty -/
theorem flattenCurN_arr : ∀ (n : Nat) (xs : List Val),
    ∃ w, flattenCurN n (.arr xs) = .ok w ∧ Rep w (flattensN (n + 1) (.arr xs))
  | 0, xs => ⟨.arr xs, rfl, Or.inl (by rw [flattensN_succ_arr, flatMap_single])⟩
  | n + 1, xs => by
    have hg : ∀ x ∈ xs, ∃ w, (fun x => if isarray x then flattenCurN n x else .ok (.arr [x])) x = .ok w ∧
        Rep w (flattensN (n + 1) x) := by
      intro x _
      by_cases hx : isarray x = true
      · obtain ⟨a, rfl⟩ := (isarray_iff x).1 hx
        simp only [hx, if_true]
        exact flattenCurN_arr n a
      · have hx' : isarray x = false := by simpa using hx
        have hna : ∀ a, x ≠ .arr a := fun a h => by rw [h, isarray_arr] at hx'; cases hx'
        refine ⟨.arr [x], by simp [hx'], Or.inl ?_⟩
        rw [flattensN_not_arr _ hna]
    obtain ⟨parts, hparts, hadd⟩ := parts_add _ (flattensN (n + 1)) xs hg
    obtain ⟨w, hw, hrep⟩ := hadd .null [] (Or.inr ⟨rfl, rfl⟩)
    refine ⟨w, by rw [flattenCurN_succ_arr, hparts]; exact hw, ?_⟩
    rw [flattensN_succ_arr]
    simpa using hrep

/-! ### `flatten/0`: the leaves do not depend on the fuel -/

theorem leavesF_succ_arr (n : Nat) (xs : List Val) : leavesF (n + 1) (.arr xs) = xs.flatMap (leavesF n) := rfl

theorem leavesF_mono : ∀ (n m : Nat) (v : Val), v.size ≤ n → v.size ≤ m → leavesF n v = leavesF m v
  | 0, _, v, h, _ => by have := Val.size_pos v; omega
  | _, 0, v, _, h => by have := Val.size_pos v; omega
  | n + 1, m + 1, v, hn, hm => by
    cases v with
    | arr xs =>
      rw [leavesF_succ_arr, leavesF_succ_arr]
      have hsz : ∀ x ∈ xs, x.size ≤ n ∧ x.size ≤ m := by
        intro x hx
        have := Val.size_lt_of_mem hx
        simp only [Val.size] at hn hm
        omega
      clear hn hm
      induction xs with
      | nil => rfl
      | cons x xs ih =>
        rw [List.flatMap_cons, List.flatMap_cons,
          leavesF_mono n m x (hsz x (List.mem_cons_self ..)).1 (hsz x (List.mem_cons_self ..)).2,
          ih (fun y hy => hsz y (List.mem_cons_of_mem _ hy))]
    | _ => rfl

/-! ### exact rounding -/

theorem unitsPerOne_pos : 0 < unitsPerOne := by unfold unitsPerOne; exact Int.pow_pos (by decide)

/-! ### the contract of `binary_search` -/

section bsearch
variable {α : Type} {c : α → α → Ordering}

theorem bsearchOk_iff (xs : List α) (x : α) (r : Int) : bsearchOk c xs x r = true ↔ BsearchPost c xs x r := by
  unfold bsearchOk BsearchPost
  by_cases hr : 0 ≤ r
  · simp only [hr, if_true, true_implies]
    have hnr : ¬ r < 0 := by omega
    simp only [hnr, false_implies, and_true]
    cases hx : xs[r.toNat]? with
    | none => simp
    | some y => simp
  · have hr' : r < 0 := by omega
    simp only [hr, if_false, hr', false_implies, true_and, true_implies]
    simp [List.all_eq_true, and_assoc]

end bsearch

theorem mem_takeWhile_true {α : Type} (p : α → Bool) : ∀ (l : List α) (y : α), y ∈ l.takeWhile p → p y = true
  | [], _, h => by cases h
  | x :: xs, y, h => by
    rw [List.takeWhile_cons] at h
    split at h
    · next hx =>
      rcases List.mem_cons.1 h with rfl | h
      · exact hx
      · exact mem_takeWhile_true p xs y h
    · cases h

/-- a list splits at the first element that does not satisfy `p` -/
theorem split_at_first_not {α : Type} (p : α → Bool) (xs : List α) :
    ∃ T D, xs = T ++ D ∧ (∀ y ∈ T, p y = true) ∧ (∀ y, D.head? = some y → p y = false) ∧
      (xs.takeWhile p).length = T.length := by
  refine ⟨xs.takeWhile p, xs.dropWhile p, List.takeWhile_append_dropWhile.symm, mem_takeWhile_true p xs, ?_, rfl⟩
  intro y hy
  have := List.head?_dropWhile_not p xs
  rw [hy] at this
  exact this

/-! ### prefixes and suffixes of byte strings -/

theorem isPrefixOf_iff_append (s a : List UInt8) : s.isPrefixOf a = true ↔ ∃ r, a = s ++ r := by
  rw [List.isPrefixOf_iff_prefix]
  constructor
  · rintro ⟨r, rfl⟩; exact ⟨r, rfl⟩
  · rintro ⟨r, rfl⟩; exact ⟨r, rfl⟩

theorem isSuffixB_iff_append (s a : List UInt8) : isSuffixB s a = true ↔ ∃ r, a = r ++ s := by
  unfold isSuffixB
  rw [List.isPrefixOf_iff_prefix, List.reverse_prefix]
  constructor
  · rintro ⟨r, rfl⟩; exact ⟨r, rfl⟩
  · rintro ⟨r, rfl⟩; exact ⟨r, rfl⟩

end Jaq.Coll
