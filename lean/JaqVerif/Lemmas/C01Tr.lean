/-
  C01 — `compile_tr_subset` (every term of the language): the tail-call set returned by `term` is a subset of
  the set it was allowed (the `debug_assert!(tr_.is_subset(tr))` of `iterm_tr`).
-/
import JaqVerif.Lemmas.C01Frame

namespace Jaq.Core
open Jaq

theorem Tr.mem_union {a b : Tr} {x : TermId} (h : x ∈ Tr.union a b) : x ∈ a ∨ x ∈ b := by
  unfold Tr.union at h
  rcases List.mem_append.mp h with h | h
  · exact Or.inl h
  · exact Or.inr (List.mem_filter.mp h).1

theorem Tr.subset_spec {a b : Tr} (h : Tr.subset a b = true) : ∀ x ∈ a, x ∈ b := by
  intro x hx
  unfold Tr.subset at h
  have := List.all_eq_true.mp h x hx
  simpa using this

theorem call_tr_subset {loc : Locals} {name : String} {ids : List TermId} {tr : Tr} {c : CTerm} {tr' : Tr}
    (h : loc.call name ids tr = some (c, tr')) : ∀ x ∈ tr', x ∈ tr := by
  unfold Locals.call at h
  split at h
  · cases h
  · simp only [Option.some.injEq, Prod.mk.injEq] at h; obtain ⟨-, rfl⟩ := h; intro x hx; cases hx
  · simp only at h
    split at h
    · rename_i hsub
      simp only [Option.some.injEq, Prod.mk.injEq] at h; obtain ⟨-, rfl⟩ := h
      exact Tr.subset_spec hsub
    · simp only [Option.some.injEq, Prod.mk.injEq] at h; obtain ⟨-, rfl⟩ := h; intro x hx; cases hx
  · split at h
    · rename_i hc
      simp only [Option.some.injEq, Prod.mk.injEq] at h; obtain ⟨-, rfl⟩ := h
      intro x hx
      simp only [List.mem_singleton] at hx
      subst hx
      simpa using hc
    · simp only [Option.some.injEq, Prod.mk.injEq] at h; obtain ⟨-, rfl⟩ := h; intro x hx; cases hx

theorem callC_tr_subset (cx : Cx) (loc : Locals) (name : String) (ids : List TermId) (tr : Tr) (st : St) :
    ∀ x ∈ (callC cx loc name ids tr st).2.1, x ∈ tr := by
  unfold callC
  split
  · rename_i c tr' h; exact call_tr_subset h
  · split
    · intro x hx; cases hx
    · split
      · intro x hx; cases hx
      · intro x hx; cases hx

/-- the tail-call set returned for `t` is within the set allowed, whatever the context -/
def TrT (t : Term) : Prop := ∀ (cx : Cx) (loc : Locals) (tr : Tr) (st : St), ∀ x ∈ (term cx loc tr t st).2.1, x ∈ tr

theorem it_tr (cx : Cx) (loc : Locals) (tr : Tr) (t : Term) (st : St) :
    (it cx loc tr t st).2.1 = (term cx loc tr t (st.insert .id).2).2.1 := rfl

theorem compileIts_tr {N : Nat} (ih : ∀ t : Term, sizeOf t < N → TrT t) :
    ∀ (its : List (Term × Term)), sizeOf its ≤ N → ∀ cx loc tr st, ∀ c ∈ (compileIts cx loc tr its st).1, ∀ x ∈ c.2.2, x ∈ tr
  | [], _, cx, loc, tr, st => by rw [compileIts_nil]; intro c hc; cases hc
  | (c, t) :: its, h, cx, loc, tr, st => by
    simp at h
    rw [compileIts_cons]
    intro c' hc' x hx
    simp only [List.mem_cons] at hc'
    rcases hc' with rfl | hc'
    · exact ih t (by omega) cx loc tr _ x hx
    · exact compileIts_tr ih its (by omega) _ _ _ _ c' hc' x hx

theorem iteBuild_tr : ∀ (cits : List (TermId × TermId × Tr)) (base : CTerm × Tr × St) (x : TermId),
    x ∈ (iteBuild cits base).2.1 → x ∈ base.2.1 ∨ ∃ c ∈ cits, x ∈ c.2.2
  | [], base, x, h => Or.inl h
  | c :: cits, base, x, h => by
    rw [iteBuild_cons] at h
    simp only [iteStep] at h
    rcases Tr.mem_union h with h | h
    · exact Or.inr ⟨c, by simp, h⟩
    · rcases iteBuild_tr cits base x h with h | ⟨c', hc', h⟩
      · exact Or.inl h
      · exact Or.inr ⟨c', by simp [hc'], h⟩

theorem tr_subset_aux : ∀ (N : Nat) (t : Term), sizeOf t < N → TrT t := by
  intro N
  induction N with
  | zero => intro t h; omega
  | succ N ih =>
    intro t hsz cx loc tr st x hx
    cases t with
    | id => rw [term_id] at hx; cases hx
    | recurse => rw [term_recurse] at hx; cases hx
    | num s => rw [term_num] at hx; cases hx
    | str fmt parts =>
      cases fmt with
      | none => rw [term_str] at hx; cases hx
      | some f => rw [term_str_fmt] at hx; cases hx
    | arr t =>
      cases t with
      | none => rw [term_arr_none] at hx; cases hx
      | some f => rw [term_arr] at hx; cases hx
    | obj kvs => rw [term_obj] at hx; cases hx
    | neg f => rw [term_neg] at hx; cases hx
    | pipe l pat r =>
      simp at hsz
      cases pat with
      | none =>
        rw [term_pipe_none] at hx
        exact ih r (by omega) cx loc tr _ x hx
      | some p =>
        rw [term_pipe_some] at hx
        exact ih r (by omega) cx _ tr _ x hx
    | binop l op r =>
      simp at hsz
      by_cases h1 : op = .comma
      · subst h1; rw [term_comma] at hx
        rcases Tr.mem_union hx with h | h
        · exact ih l (by omega) cx loc tr _ x h
        · exact ih r (by omega) cx loc tr _ x h
      · by_cases h2 : op = .alt
        · subst h2; rw [term_alt] at hx
          exact ih r (by omega) cx loc tr _ x hx
        · rw [term_bop _ _ _ _ _ _ _ h1 h2] at hx; cases hx
    | label y f => rw [term_label] at hx; cases hx
    | brk y => rw [term_brk] at hx; cases hx
    | fold name xs pat args =>
      simp at hsz
      cases args with
      | nil => rw [term_fold_short0] at hx; cases hx
      | cons init args =>
        cases args with
        | nil => rw [term_fold_short1] at hx; cases hx
        | cons update rest =>
          rw [term_fold] at hx
          cases rest with
          | nil =>
            simp only at hx
            split at hx
            · cases hx
            · split at hx <;> cases hx
          | cons proj rest =>
            cases rest with
            | cons _ _ => cases hx
            | nil =>
              simp at hsz
              simp only at hx
              split at hx
              · exact ih proj (by omega) cx _ tr _ x hx
              · cases hx
    | tryCatch f c =>
      cases c with
      | none => rw [term_try_none] at hx; cases hx
      | some c => rw [term_try] at hx; cases hx
    | ite its els =>
      simp at hsz
      cases els with
      | none =>
        rw [term_ite_none] at hx
        rcases iteBuild_tr _ _ x hx with h | ⟨c, hc, h⟩
        · cases h
        · exact compileIts_tr ih its (by omega) cx loc tr st c hc x h
      | some e =>
        simp at hsz
        rw [term_ite_some] at hx
        rcases iteBuild_tr _ _ x hx with h | ⟨c, hc, h⟩
        · exact ih e (by omega) cx loc tr _ x h
        · exact compileIts_tr ih its (by omega) cx loc tr st c hc x h
    | defs ds f =>
      simp at hsz
      rw [term_defs] at hx
      exact ih f (by omega) cx _ tr _ x hx
    | call name args =>
      rw [term_call] at hx
      split at hx
      · cases hx
      · exact callC_tr_subset _ _ _ _ _ _ x hx
    | var y => rw [term_var] at hx; cases hx
    | path f parts => rw [term_path] at hx; cases hx

end Jaq.Core
