/-
  C01 — `compile_tr_subset` on the fragment: the tail-call set returned by `term` is a subset of
  the set it was allowed (the `debug_assert!(tr_.is_subset(tr))` of `iterm_tr`).
-/
import JaqVerif.Lemmas.C01Frame

namespace Jaq.Core
open Jaq

theorem Tr.mem_union {a b : Tr} {x : TermId} (h : x ∈ Tr.union a b) : x ∈ a ∨ x ∈ b := by
  unfold Tr.union at h
  rcases List.mem_append.mp h with h | h
  · exact Or.inl h
  · exact Or.inr (List.mem_filter.mp h).1

theorem Tr.subset_spec {a b : Tr} (h : Tr.subset a b = true) : ∀ x ∈ a, x ∈ b := by
  intro x hx
  unfold Tr.subset at h
  have := List.all_eq_true.mp h x hx
  simpa using this

theorem call_tr_subset {loc : Locals} {name : String} {ids : List TermId} {tr : Tr} {c : CTerm} {tr' : Tr}
    (h : loc.call name ids tr = some (c, tr')) : ∀ x ∈ tr', x ∈ tr := by
  unfold Locals.call at h
  split at h
  · cases h
  · simp only [Option.some.injEq, Prod.mk.injEq] at h; obtain ⟨-, rfl⟩ := h; intro x hx; cases hx
  · simp only at h
    split at h
    · rename_i hsub
      simp only [Option.some.injEq, Prod.mk.injEq] at h; obtain ⟨-, rfl⟩ := h
      exact Tr.subset_spec hsub
    · simp only [Option.some.injEq, Prod.mk.injEq] at h; obtain ⟨-, rfl⟩ := h; intro x hx; cases hx
  · split at h
    · rename_i hc
      simp only [Option.some.injEq, Prod.mk.injEq] at h; obtain ⟨-, rfl⟩ := h
      intro x hx
      simp only [List.mem_singleton] at hx
      subst hx
      simpa using hc
    · simp only [Option.some.injEq, Prod.mk.injEq] at h; obtain ⟨-, rfl⟩ := h; intro x hx; cases hx

theorem callC_tr_subset (cx : Cx) (loc : Locals) (name : String) (ids : List TermId) (tr : Tr) (st : St) :
    ∀ x ∈ (callC cx loc name ids tr st).2.1, x ∈ tr := by
  unfold callC
  split
  · rename_i c tr' h; exact call_tr_subset h
  · split
    · intro x hx; cases hx
    · split
      · intro x hx; cases hx
      · intro x hx; cases hx

theorem tr_subset_aux : ∀ (N : Nat) (t : Term), sizeOf t < N → inFragment t = true →
    ∀ (cx : Cx) (loc : Locals) (tr : Tr) (st : St), ∀ x ∈ (term cx loc tr t st).2.1, x ∈ tr := by
  intro N
  induction N with
  | zero => intro t h; omega
  | succ N ih =>
    intro t hsz hfr cx loc tr st x hx
    cases t with
    | id => rw [term_id] at hx; cases hx
    | recurse => simp [inFragment] at hfr
    | num s => rw [term_num] at hx; cases hx
    | str fmt parts =>
      cases fmt with
      | some f => simp [inFragment] at hfr
      | none =>
        cases parts with
        | nil => simp [inFragment] at hfr
        | cons p ps =>
          cases p with
          | interp t => simp [inFragment] at hfr
          | lit s =>
            cases ps with
            | nil => rw [term_str1] at hx; cases hx
            | cons _ _ => simp [inFragment] at hfr
    | arr t =>
      cases t with
      | none => simp [inFragment] at hfr
      | some f => rw [term_arr] at hx; cases hx
    | obj kvs => simp [inFragment] at hfr
    | neg f => rw [term_neg] at hx; cases hx
    | pipe l pat r =>
      cases pat with
      | none =>
        simp only [inFragment, Bool.and_eq_true] at hfr
        rw [term_pipe_none] at hx
        exact ih r (by simp at hsz; omega) hfr.2 cx loc tr _ x hx
      | some p =>
        cases p with
        | var y =>
          simp only [inFragment, Bool.and_eq_true] at hfr
          rw [term_pipe_var] at hx
          exact ih r (by simp at hsz; omega) hfr.2 cx _ tr _ x hx
        | arr _ => simp [inFragment] at hfr
        | obj _ => simp [inFragment] at hfr
    | binop l op r =>
      simp only [inFragment, Bool.and_eq_true] at hfr
      by_cases h1 : op = .comma
      · subst h1; rw [term_comma] at hx
        rcases Tr.mem_union hx with h | h
        · exact ih l (by simp at hsz; omega) hfr.1.2 cx loc tr _ x h
        · exact ih r (by simp at hsz; omega) hfr.2 cx loc tr _ x h
      · by_cases h2 : op = .alt
        · subst h2; rw [term_alt] at hx
          exact ih r (by simp at hsz; omega) hfr.2 cx loc tr _ x hx
        · rw [term_bop _ _ _ _ _ _ _ h1 h2] at hx; cases hx
    | label y f => rw [term_label] at hx; cases hx
    | brk y => rw [term_brk] at hx; cases hx
    | fold name xs pat args =>
      cases pat with
      | arr _ => simp [inFragment] at hfr
      | obj _ => simp [inFragment] at hfr
      | var y =>
        simp only [inFragment, Bool.and_eq_true] at hfr
        cases args with
        | nil => rw [term_fold_short0] at hx; cases hx
        | cons init args =>
          cases args with
          | nil => rw [term_fold_short1] at hx; cases hx
          | cons update rest =>
            simp only [inFragmentList, Bool.and_eq_true] at hfr
            rw [term_fold_var] at hx
            cases rest with
            | nil =>
              simp only at hx
              split at hx
              · cases hx
              · split at hx <;> cases hx
            | cons proj rest =>
              cases rest with
              | cons _ _ => cases hx
              | nil =>
                simp only [inFragmentList, Bool.and_eq_true] at hfr
                simp only at hx
                split at hx
                · exact ih proj (by simp at hsz; omega) hfr.2.2.2.1 cx _ tr _ x hx
                · cases hx
    | tryCatch f c =>
      cases c with
      | none => simp [inFragment] at hfr
      | some c => rw [term_try] at hx; cases hx
    | ite its els =>
      cases its with
      | nil => simp [inFragment] at hfr
      | cons ct rest =>
        obtain ⟨c, t⟩ := ct
        cases rest with
        | cons _ _ => cases els <;> simp [inFragment] at hfr
        | nil =>
          cases els with
          | none =>
            simp only [inFragment, Bool.and_eq_true] at hfr
            rw [term_ite1_none] at hx
            rcases Tr.mem_union hx with h | h
            · exact ih t (by simp at hsz; omega) hfr.2 cx loc tr _ x h
            · cases h
          | some e =>
            simp only [inFragment, Bool.and_eq_true] at hfr
            rw [term_ite1_some] at hx
            rcases Tr.mem_union hx with h | h
            · exact ih t (by simp at hsz; omega) hfr.1.2 cx loc tr _ x h
            · exact ih e (by simp at hsz; omega) hfr.2 cx loc tr _ x h
    | defs ds f =>
      simp only [inFragment, Bool.and_eq_true] at hfr
      rw [term_defs] at hx
      exact ih f (by simp at hsz; omega) hfr.2 cx _ tr _ x hx
    | call name args =>
      rw [term_call] at hx
      split at hx
      · cases hx
      · exact callC_tr_subset _ _ _ _ _ _ x hx
    | var y => rw [term_var] at hx; cases hx
    | path f parts => simp [inFragment] at hfr

end Jaq.Core
