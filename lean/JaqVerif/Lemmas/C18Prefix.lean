import JaqVerif.Lemmas.C18Job
set_option linter.unusedSimpArgs false
namespace Jaq.C18

theorem written_none {j : Job} (h : j.fault = none) : j.written = j.allWrites := by simp [Job.written, h]
theorem written_chmodErr {j : Job} (h : j.fault = some .chmodErr) : j.written = j.allWrites := by
  simp [Job.written, h]

@[simp] theorem rename_not_mem_head (j : Job) (t p : Path) : Op.rename t p ∉ headOps j := by
  intro h; rcases mem_headOps h with h | h | ⟨b, h⟩ <;> simp at h
@[simp] theorem chmod_not_mem_head (j : Job) (p : Path) (m : Mode) : Op.chmod p m ∉ headOps j := by
  intro h; rcases mem_headOps h with h | h | ⟨b, h⟩ <;> simp at h

theorem prefix_one {α} {a : α} {B : List α} (h : B <+: [a]) : B = [] ∨ B = [a] := by
  rcases List.prefix_cons_iff.mp h with rfl | ⟨t, rfl, ht⟩
  · exact Or.inl rfl
  · rw [List.prefix_nil.mp ht]; exact Or.inr rfl

theorem prefix_two {α} {a b : α} {B : List α} (h : B <+: [a, b]) : B = [] ∨ B = [a] ∨ B = [a, b] := by
  rcases List.prefix_cons_iff.mp h with rfl | ⟨t, rfl, ht⟩
  · exact Or.inl rfl
  · rcases prefix_one ht with rfl | rfl
    · exact Or.inr (Or.inl rfl)
    · exact Or.inr (Or.inr rfl)

theorem prefix_three {α} {a b c : α} {B : List α} (h : B <+: [a, b, c]) :
    B = [] ∨ B = [a] ∨ B = [a, b] ∨ B = [a, b, c] := by
  rcases List.prefix_cons_iff.mp h with rfl | ⟨t, rfl, ht⟩
  · exact Or.inl rfl
  · rcases prefix_two ht with rfl | rfl | rfl
    · exact Or.inr (Or.inl rfl)
    · exact Or.inr (Or.inr (Or.inl rfl))
    · exact Or.inr (Or.inr (Or.inr rfl))

/-- state of the target of one file after any prefix of its operations -/
theorem job_prefix (fs : FS) (j : Job) (pre : List Op) (ht : fs j.tmp = none) (hne : j.tmp ≠ j.path)
    (hpre : pre <+: jobOps j) :
    (Op.rename j.tmp j.path ∉ pre → exec fs pre j.path = fs j.path) ∧
    (Op.rename j.tmp j.path ∈ pre → (j.fault = none ∨ j.fault = some .chmodErr) ∧
      exec fs pre j.path = some (j.output, if Op.chmod j.path j.mode ∈ pre then j.mode else tmpMode)) := by
  by_cases h1 : j.fault = some .loadErr
  · simp [jobOps, h1] at hpre; subst hpre; simp
  by_cases h2 : j.fault = some .preErr
  · simp only [jobOps, h2] at hpre
    rcases List.prefix_cons_iff.mp hpre with rfl | ⟨t, rfl, ht'⟩
    · simp
    · have : t = [] := List.prefix_nil.mp ht'
      subst this; simp [step]
  rw [jobOps_eq_head_tail j h1 h2] at hpre
  have hp' : j.path ≠ j.tmp := fun h => hne h.symm
  rcases List.prefix_or_prefix_of_prefix hpre (List.prefix_append _ _) with hA | hA
  · -- still writing: only the temp file has been touched
    have hno : Op.rename j.tmp j.path ∉ pre := fun hm => rename_not_mem_head j _ _ (hA.subset hm)
    refine ⟨fun _ => ?_, fun hm => absurd hm hno⟩
    apply exec_frame
    intro op hop hq
    exact hp' (headOps_touches (hA.subset hop) hq)
  · obtain ⟨B, rfl⟩ := hA
    have hB : B <+: j.tail := (List.prefix_append_right_inj _).mp hpre
    rw [exec_append, exec_head fs j ht]
    rcases hf : j.fault with _ | f
    · simp only [Job.tail, hf] at hB
      rcases prefix_three hB with rfl | rfl | rfl | rfl <;>
        simp [List.mem_append, step, FS.set, hp', Job.output, written_none hf]
    · cases f <;> simp only [Job.tail, hf] at hB
      case loadErr => exact absurd hf h1
      case preErr => exact absurd hf h2
      case chmodErr =>
        rcases prefix_two hB with rfl | rfl | rfl <;>
          simp [List.mem_append, step, FS.set, hp', Job.output, written_chmodErr hf]
      case renameErr =>
        rcases prefix_two hB with rfl | rfl | rfl <;> simp [List.mem_append, step, FS.set, hp']
      all_goals
        rcases prefix_one hB with rfl | rfl <;> simp [List.mem_append, step, FS.set, hp']

/-- a file processed without fault: afterwards it holds the complete output with its old mode,
    everything else (including the temp name) is as before -/
theorem exec_jobOps_ok (fs : FS) (j : Job) (ht : fs j.tmp = none) (hne : j.tmp ≠ j.path) (hf : j.fault = none) :
    exec fs (jobOps j) = fs.set j.path (some (j.output, j.mode)) := by
  have hp' : j.path ≠ j.tmp := fun h => hne h.symm
  rw [jobOps_eq_head_tail j (by simp [hf]) (by simp [hf]), exec_append, exec_head fs j ht]
  funext q
  by_cases hq : q = j.path
  · subst hq; simp [Job.tail, hf, step, FS.set, hp', Job.output, written_none hf]
  · by_cases hq' : q = j.tmp
    · subst hq'; simp [Job.tail, hf, step, FS.set, hp', hne, ht]
    · simp [Job.tail, hf, step, FS.set, hp', hq, hq']

theorem exec_jobOps_chmodErr (fs : FS) (j : Job) (ht : fs j.tmp = none) (hne : j.tmp ≠ j.path)
    (hf : j.fault = some .chmodErr) :
    exec fs (jobOps j) = fs.set j.path (some (j.output, tmpMode)) := by
  have hp' : j.path ≠ j.tmp := fun h => hne h.symm
  rw [jobOps_eq_head_tail j (by simp [hf]) (by simp [hf]), exec_append, exec_head fs j ht]
  funext q
  by_cases hq : q = j.path
  · subst hq; simp [Job.tail, hf, step, FS.set, hp', Job.output, written_chmodErr hf]
  · by_cases hq' : q = j.tmp
    · subst hq'; simp [Job.tail, hf, step, FS.set, hp', hne, ht]
    · simp [Job.tail, hf, step, FS.set, hp', hq, hq']

/-- every other fault: the early return removes the temp file, nothing has changed -/
theorem exec_jobOps_abort (fs : FS) (j : Job) (ht : fs j.tmp = none)
    (hf : j.fault ≠ none) (hf' : j.fault ≠ some .chmodErr) :
    exec fs (jobOps j) = fs := by
  rcases hfa : j.fault with _ | f
  · exact absurd hfa hf
  by_cases h1 : j.fault = some .loadErr
  · simp [jobOps, h1]
  by_cases h2 : j.fault = some .preErr
  · simp [jobOps, h2, step]
  rw [jobOps_eq_head_tail j h1 h2, exec_append, exec_head fs j ht]
  funext q
  by_cases hq' : q = j.tmp
  · subst hq'
    cases f <;> simp_all [Job.tail, step, FS.set]
  · cases f <;> simp_all [Job.tail, step, FS.set]

end Jaq.C18

