import JaqVerif.Lemmas.C07Print
namespace Jaq.C07

/-! ## a text is at least as long as its syntax tree is big (fuel adequacy of `parse_single`) -/

theorem sig_length {s : Bytes} (h : Sig s) : 1 ≤ s.length := by
  obtain ⟨c, r, rfl, _⟩ := h; simp

theorem size_le_length : ∀ k,
    (∀ (t : Val) (s : Bytes), t.size ≤ k → Spells t s → t.size ≤ s.length) ∧
    (∀ (vs : List Val) (s : Bytes), Val.sizeList vs ≤ k → SpellsList vs s → Val.sizeList vs ≤ s.length) ∧
    (∀ (es : List (Val × Val)) (s : Bytes), Val.sizeEntries es ≤ k → SpellsEntries es s → Val.sizeEntries es ≤ s.length) := by
  intro k
  induction k with
  | zero =>
    refine ⟨?_, ?_, ?_⟩
    · intro t s h; have := Val.size_pos t; omega
    · intro vs s h hs
      cases vs with
      | nil => simp [SpellsList] at hs
      | cons v vs => simp only [Val.sizeList] at h; have := Val.size_pos v; omega
    · intro es s h hs
      cases es with
      | nil => simp [SpellsEntries] at hs
      | cons e es => obtain ⟨a, b⟩ := e; simp only [Val.sizeEntries] at h; have := Val.size_pos a; omega
  | succ k ih =>
    obtain ⟨_, ihl, ihe⟩ := ih
    have hv : ∀ (t : Val) (s : Bytes), t.size ≤ k + 1 → Spells t s → t.size ≤ s.length := by
      intro t s hsz hs
      have hsig := sig_length (spells_sig t s hs)
      cases t with
      | arr a =>
        cases a with
        | nil => simp only [Val.size, Val.sizeList]; omega
        | cons v vs =>
          simp only [Spells] at hs
          obtain ⟨w, body, _, hb, rfl⟩ := hs
          simp only [Val.size] at hsz ⊢
          have := ihl (v :: vs) body (by omega) hb
          simp only [List.length_cons, List.length_append]; omega
      | obj o =>
        cases o with
        | nil => simp only [Val.size, Val.sizeEntries]; omega
        | cons e es =>
          simp only [Spells] at hs
          obtain ⟨w, body, _, hb, rfl⟩ := hs
          simp only [Val.size] at hsz ⊢
          have := ihe (e :: es) body (by omega) hb
          simp only [List.length_cons, List.length_append]; omega
      | null => simp only [Val.size]; omega
      | bool _ => simp only [Val.size]; omega
      | num _ => simp only [Val.size]; omega
      | tstr _ => simp only [Val.size]; omega
      | bstr _ => simp only [Val.size]; omega
    refine ⟨hv, ?_, ?_⟩
    · intro vs s hsz hs
      cases vs with
      | nil => simp [SpellsList] at hs
      | cons v vs =>
        rw [spellsList_cons] at hs
        obtain ⟨t, w2, ht, _, hs⟩ := hs
        simp only [Val.sizeList] at hsz ⊢
        have hp := Val.size_pos v
        have h1 := hv v t (by omega) ht
        rcases hs with ⟨rfl, rfl⟩ | ⟨_, w1, body, _, hb, rfl⟩
        · simp only [Val.sizeList, List.length_append]; omega
        · have := ihl vs body (by omega) hb
          simp only [List.length_cons, List.length_append]; omega
    · intro es s hsz hs
      cases es with
      | nil => simp [SpellsEntries] at hs
      | cons e es =>
        obtain ⟨a, b⟩ := e
        rw [spellsEntries_cons] at hs
        obtain ⟨tk, w1, w2, tv, w3, hk, _, _, htv, _, hs⟩ := hs
        simp only [Val.sizeEntries] at hsz ⊢
        have hp := Val.size_pos a
        have hp2 := Val.size_pos b
        have h1 := hv a tk (by omega) hk
        have h2 := hv b tv (by omega) htv
        rcases hs with ⟨rfl, rfl⟩ | ⟨_, w4, body, _, hb, rfl⟩
        · simp only [Val.sizeEntries, List.length_cons, List.length_append]; omega
        · have := ihe es body (by omega) hb
          simp only [List.length_cons, List.length_append]; omega

theorem spells_size (t : Val) (s : Bytes) (h : Spells t s) : t.size ≤ s.length :=
  (size_le_length t.size).1 t s (Nat.le_refl _) h

theorem numStop_of_gap (w : Bytes) (hw : IsGap w) : NumStop w := by
  intro a r e
  subst e
  have h0 := hw []
  simp only [List.append_nil, wsTk] at h0
  have : ∀ i : Fin 256, (isWs (UInt8.ofNat i.val) = true ∨ UInt8.ofNat i.val = 0x23) →
      isDigit (UInt8.ofNat i.val) = false ∧ UInt8.ofNat i.val ≠ 0x2e ∧ isE (UInt8.ofNat i.val) = false := by decide +kernel
  have e : a = UInt8.ofNat a.toNat := by simp
  by_cases h1 : isWs a = true
  · rw [e] at h1 ⊢; exact this ⟨a.toNat, a.toNat_lt⟩ (Or.inl h1)
  · by_cases h2 : a = 0x23
    · rw [e] at h2 ⊢; exact this ⟨a.toNat, a.toNat_lt⟩ (Or.inr h2)
    · have h1' : isWs a = false := by simpa using h1
      have h2' : (a == 0x23) = false := by simpa using h2
      simp [wsSkip, h1', h2'] at h0

/-- `parse_single` on an accepted text, surrounded by anything `ws_tk` skips -/
theorem parseSingle_spells (t : Val) (s w1 w2 : Bytes) (hs : Spells t s) (h1 : IsGap w1) (h2 : IsGap w2) :
    parseSingle (w1 ++ (s ++ w2)) = some (resolve t) := by
  have hsig := spells_sig t s hs
  obtain ⟨c, r, hcr, hc⟩ := hsig
  have e : wsTk (w1 ++ (s ++ w2)) = c :: (r ++ w2) := by
    rw [wsTk_gap_sig w1 s w2 h1 ⟨c, r, hcr, hc⟩, hcr]; rfl
  have hsz := spells_size t s hs
  have hp := spells_parseValF t s w2 (fuelFor (c :: (r ++ w2))) hs (numStop_of_gap w2 h2) (by
    have : (c :: (r ++ w2)).length = s.length + w2.length := by rw [hcr]; simp; omega
    unfold fuelFor; omega)
  rw [hcr] at hp
  simp only [List.cons_append] at hp
  have e2 : wsTk w2 = [] := by have := h2 []; simpa [wsTk, wsSkip] using this
  simp [parseSingle, e, hp, e2]

end Jaq.C07
