/-
  C20 (round 2) — the fractional round trips of the repaired code, assembled from the float
  lemmas (`C20Float.lean`) and the printer/parser inverse (`C20Iso.lean`).
-/
import JaqVerif.Lemmas.C20Float
import JaqVerif.Lemmas.C20Iso

namespace Jaq.Time
open Jaq

theorem tmod_eq (a b : Int) : Int.tmod a b = if 0 ≤ a then a % b else -((-a) % b) := by
  split
  · rename_i h; exact Int.tmod_eq_emod_of_nonneg h
  · rename_i h
    have : a = -(-a) := by omega
    rw [this, Int.neg_tmod, Int.tmod_eq_emod_of_nonneg (by omega)]; simp

theorem tdiv_eq (a b : Int) : Int.tdiv a b = if 0 ≤ a then a / b else -((-a) / b) := by
  split
  · rename_i h; exact Int.tdiv_eq_ediv_of_nonneg h
  · rename_i h
    have : a = -(-a) := by omega
    rw [this, Int.neg_tdiv, Int.tdiv_eq_ediv_of_nonneg (by omega)]; simp

/-- the number jaq answers for the instant `us` micro-seconds after the epoch: an integer for
whole seconds, otherwise the double nearest to `us / 10⁶` (`ts.as_microsecond() as f64 / 1e6`) -/
def epochOfMicros (us : Int) : Val :=
  if us % 1000000 = 0 then vint (us / 1000000) else .num (.float (F64.div (F64.ofInt us) f1e6))

/-- `mktime` on integer fields and a fractional seconds entry whose `floor` and rounded
nanoseconds are known -/
theorem mktime_frac_fields (fx : Fixes) (b : Build) (year month day hour min sec : Val) (rest : List Val)
    (y mo d h mi s n : Int) (secF : UInt64)
    (vy : valAsIsize year = some y) (vmo : valAsIsize month = some mo) (vd : valAsIsize day = some d)
    (vh : valAsIsize hour = some h) (vmi : valAsIsize min = some mi) (vs : valAsF64 sec = some secF)
    (hfin : F64.isFinite secF = true) (hfl : floorCastI8 secF = s) (hsn : subsecNanos fx secF = n)
    (hy1 : -9999 ≤ y) (hy2 : y ≤ 9999) (hv : validDate y (mo + 1) d)
    (hh1 : 0 ≤ h) (hh2 : h ≤ 23) (hm1 : 0 ≤ mi) (hm2 : mi ≤ 59) (hs1 : 0 ≤ s) (hs2 : s ≤ 59)
    (hn1 : 0 ≤ n) (hn2 : n ≤ 999999999)
    (hr : Timestamp.inRange (specEpoch y mo d h mi s * 1000000000 + n) = true) :
    mktime fx b (.arr (year :: month :: day :: hour :: min :: sec :: rest)) =
      .val (timestampToEpoch ⟨specEpoch y mo d h mi s * 1000000000 + n⟩
        (if fx.negFrac then Timestamp.subsecNanosecond ⟨specEpoch y mo d h mi s * 1000000000 + n⟩ != 0
         else decide (Timestamp.subsecNanosecond ⟨specEpoch y mo d h mi s * 1000000000 + n⟩ > 0))) := by
  have hv' := hv
  obtain ⟨m1, m2, d1, d2⟩ := hv
  have ⟨_, dl⟩ := daysInMonth_le y (mo + 1) m1 m2
  have e_mo := valI8_of month mo vmo (by omega) (by omega)
  have e_d := valI8_of day d vd (by omega) (by omega)
  have e_h := valI8_of hour h vh (by omega) (by omega)
  have e_mi := valI8_of min mi vmi (by omega) (by omega)
  have e_y : fitsI16 y = true := by
    unfold fitsI16; rw [decide_eq_true (show (-32768:Int) ≤ y by omega), decide_eq_true (show y ≤ 32767 by omega)]; rfl
  have e_mp : monthPlus1 fx b mo = .ok (some (mo + 1)) := by
    unfold monthPlus1; rw [if_pos (by omega)]
  have e_new : DateTime.new y (mo + 1) d h mi s n = some ⟨y, mo + 1, d, h, mi, s, n⟩ := by
    unfold DateTime.new
    rw [if_pos ⟨hy1, hy2, hv', hh1, hh2, hm1, hm2, hs1, hs2, hn1, hn2⟩]
  have e_ns : (⟨y, mo + 1, d, h, mi, s, n⟩ : DateTime).toNs = specEpoch y mo d h mi s * 1000000000 + n := by
    simp only [DateTime.toNs, specEpoch]
  simp only [mktime, arrayToDateTime, vs, hfin, vy, e_y, e_mo, e_mp, e_d, e_h, e_mi, hfl, hsn, e_new,
    DateTime.toTimestampUTC, Bool.not_true, Bool.and_false, Bool.false_eq_true, if_false]
  rw [e_ns, hr]
  simp only [if_true]

theorem epoch_split (us : Int) :
    us * 1000 / 1000000000 = us / 1000000 ∧ us * 1000 % 1000000000 = us % 1000000 * 1000 := by omega

/-- `mktime` applied to the array `gmtime` produces for the instant `us` micro-seconds -/
theorem mktime_specArray_micros (b : Build) (us : Int)
    (h1 : unixSecMin * 1000000 ≤ us) (h2 : us ≤ unixSecMax * 1000000) :
    mktime Fixes.all b (specArray (us * 1000)) = .val (epochOfMicros us) := by
  obtain ⟨e1, e2⟩ := epoch_split us
  by_cases hm : us % 1000000 = 0
  · -- whole seconds: the integer round trip
    have hi : us * 1000 = us / 1000000 * 1000000000 := by omega
    have r1 : unixSecMin ≤ us / 1000000 := by unfold unixSecMin at *; omega
    have r2 : us / 1000000 ≤ unixSecMax := by unfold unixSecMax at *; omega
    obtain ⟨a, g, mk⟩ := mktime_gmtime_isize Fixes.all b (vint (us / 1000000)) (us / 1000000) rfl r1 r2
    rw [gmtime_isize Fixes.all b (vint (us / 1000000)) (us / 1000000) rfl r1 r2] at g
    have ha : specArray (us / 1000000 * 1000000000) = a := by
      simp only [Out.val, Except.ok.injEq] at g; exact g
    rw [hi, ha, mk]
    simp only [epochOfMicros, hm, if_true]
  · -- a sub-second part of 1..999999 micro-seconds
    have m1 : 1 ≤ us % 1000000 := by omega
    have m2 : us % 1000000 ≤ 999999 := by omega
    generalize hmm : us % 1000000 = m at *
    generalize hii : us / 1000000 = i at *
    have r1 : unixSecMin ≤ i := by unfold unixSecMin at *; omega
    have r2 : i ≤ unixSecMax := by unfold unixSecMax at *; omega
    have hus : us = i * 1000000 + m := by omega
    have ⟨hval, hinv⟩ := daysFromCivil_civilFromDays (i / 86400)
    have ⟨y1, y2⟩ := year_of_sec_range i r1 r2
    unfold utcYear at y1 y2
    obtain ⟨sfin, sfl, ssn⟩ := seconds_roundtrip (i % 86400 % 60) m (by omega) (by omega) m1 m2
    have hse : specEpoch (civilFromDays (i / 86400)).1 ((civilFromDays (i / 86400)).2.1 - 1)
        (civilFromDays (i / 86400)).2.2 (i % 86400 / 3600) (i % 86400 % 3600 / 60) (i % 86400 % 60) = i := by
      simp only [specEpoch, Int.sub_add_cancel, hinv]; omega
    have hpos : m * 1000 > 0 := by omega
    have hsa : specArray (us * 1000) =
        .arr [vint (civilFromDays (i / 86400)).1, vint ((civilFromDays (i / 86400)).2.1 - 1),
          vint (civilFromDays (i / 86400)).2.2, vint (i % 86400 / 3600), vint (i % 86400 % 3600 / 60),
          .num (.float (F64.add (F64.ofInt (i % 86400 % 60)) (F64.div (F64.ofInt (m * 1000)) f1e9))),
          vint (weekday (i / 86400)), vint (yearday (i / 86400))] := by
      simp only [specArray, e1, e2, specSeconds, hpos, if_true, f1e9]
    have hin : Timestamp.inRange (i * 1000000000 + m * 1000) = true := by
      unfold Timestamp.inRange unixSecMin unixSecMax at *
      rw [decide_eq_true (by omega), decide_eq_true (by omega)]; rfl
    have := mktime_frac_fields Fixes.all b (vint (civilFromDays (i / 86400)).1) (vint ((civilFromDays (i / 86400)).2.1 - 1))
      (vint (civilFromDays (i / 86400)).2.2) (vint (i % 86400 / 3600)) (vint (i % 86400 % 3600 / 60))
      (.num (.float (F64.add (F64.ofInt (i % 86400 % 60)) (F64.div (F64.ofInt (m * 1000)) f1e9))))
      [vint (weekday (i / 86400)), vint (yearday (i / 86400))]
      (civilFromDays (i / 86400)).1 ((civilFromDays (i / 86400)).2.1 - 1) (civilFromDays (i / 86400)).2.2
      (i % 86400 / 3600) (i % 86400 % 3600 / 60) (i % 86400 % 60) (m * 1000) _ rfl rfl rfl rfl rfl rfl
      sfin sfl ssn y1 y2 (by rw [Int.sub_add_cancel]; exact hval) (by omega) (by omega) (by omega) (by omega)
      (by omega) (by omega) (by omega) (by omega) (by rw [hse]; exact hin)
    rw [hsa, this, hse]
    have hnf : Fixes.all.negFrac = true := rfl
    have hsub : Timestamp.subsecNanosecond ⟨i * 1000000000 + m * 1000⟩ ≠ 0 := by
      simp only [Timestamp.subsecNanosecond]; rw [tmod_eq]; split <;> omega
    have hmicro : Timestamp.asMicrosecond ⟨i * 1000000000 + m * 1000⟩ = us := by
      simp only [Timestamp.asMicrosecond]; rw [tdiv_eq]; split <;> omega
    have hm' : ¬ (i * 1000000 + m) % 1000000 = 0 := by omega
    simp only [hnf, if_true, bne_iff_ne, ne_eq, hsub, not_false_eq_true, decide_true, timestampToEpoch,
      hmicro, epochOfMicros, hus, hm', if_false]

/-- `gmtime | mktime` on a fractional epoch (repaired code) -/
theorem mktime_gmtime_float (b : Build) (f : UInt64) (hfin : F64.isFinite f = true)
    (h1 : unixSecMin * 1000000 ≤ floatMicros Fixes.all f) (h2 : floatMicros Fixes.all f ≤ unixSecMax * 1000000) :
    ∃ a, gmtime Fixes.all b (.num (.float f)) = .val a ∧
      mktime Fixes.all b a = .val (epochOfMicros (floatMicros Fixes.all f)) :=
  ⟨_, gmtime_float Fixes.all b f hfin h1 h2, mktime_specArray_micros b _ h1 h2⟩

/-- `todate | fromdate` on a fractional epoch (repaired code) -/
theorem fromIso_toIso_float (f : UInt64) (hfin : F64.isFinite f = true)
    (h1 : unixSecMin * 1000000 ≤ floatMicros Fixes.all f) (h2 : floatMicros Fixes.all f ≤ unixSecMax * 1000000) :
    ∃ cs, toIso8601 Fixes.all (.num (.float f)) = .ok cs ∧
      fromIso8601 Fixes.all cs = some (.ok (epochOfMicros (floatMicros Fixes.all f))) := by
  generalize hus : floatMicros Fixes.all f = us at *
  have hr : Timestamp.fromMicrosecond us = some ⟨us * 1000⟩ := by
    unfold Timestamp.fromMicrosecond; rw [if_pos ⟨h1, h2⟩]
  have hin : Timestamp.inRange (us * 1000) = true := by
    unfold Timestamp.inRange unixSecMin unixSecMax at *
    rw [decide_eq_true (by omega), decide_eq_true (by omega)]; rfl
  have hp := parseIso_print ⟨us * 1000⟩ hin
  refine ⟨Timestamp.print ⟨us * 1000⟩, ?_, ?_⟩
  · have hx : Fixes.all.rejectNonFinite = true := rfl
    simp only [toIso8601, valAsIsize, Num.asIsize, valAsF64, Num.toF64, hx, hfin, Bool.not_true,
      Bool.and_false, Bool.false_eq_true, if_false, hus, hr]
  · have hx : Fixes.all.fracBySubsec = true := rfl
    simp only [fromIso8601, hp, hx, if_true, timestampToEpoch, epochOfMicros, Timestamp.subsecNanosecond,
      Timestamp.asSecond, Timestamp.asMicrosecond]
    by_cases hm : us % 1000000 = 0
    · have e : Int.tmod (us * 1000) 1000000000 = 0 := by rw [tmod_eq]; split <;> omega
      have e2 : Int.tdiv (us * 1000) 1000000000 = us / 1000000 := by rw [tdiv_eq]; split <;> omega
      simp [hm, e, e2, vint]
    · have e : Int.tmod (us * 1000) 1000000000 ≠ 0 := by rw [tmod_eq]; split <;> omega
      have e2 : Int.tdiv (us * 1000) 1000 = us := by rw [tdiv_eq]; split <;> omega
      simp [hm, e, e2]

/-- `to_iso8601 | from_iso8601` on an integer epoch, no hypothesis about the parser -/
theorem fromIso_toIso_isize_full (fx : Fixes) (v : Val) (i : Int) (hv : valAsIsize v = some i)
    (h1 : unixSecMin ≤ i) (h2 : i ≤ unixSecMax) :
    ∃ cs, toIso8601 fx v = .ok cs ∧ fromIso8601 fx cs = some (.ok (vint i)) := by
  have hin : Timestamp.inRange (i * 1000000000) = true := by
    unfold Timestamp.inRange unixSecMin unixSecMax at *
    rw [decide_eq_true (by omega), decide_eq_true (by omega)]; rfl
  exact fromIso_toIso_isize fx v i hv h1 h2 (parseIso_print ⟨i * 1000000000⟩ hin)


/-! ## the input side: the double nearest to `k/10⁶` denotes `k` micro-seconds -/

set_option exponentiation.threshold 2200

/-- correct rounding, relative form: the result is within `2^-53` of the ratio (normal range) -/
theorem roundRat_rel (neg : Bool) (num den : Nat) (hn : 0 < num) (hd : 0 < den)
    (hlo : den ≤ num * 2 ^ 1022) (hhi : num < den * 2 ^ 53) :
    F64.isFinite (F64.roundRat neg num den) = true ∧
    F64.signBit (F64.roundRat neg num den) = neg ∧
    2 ^ 53 * (F64.magUnits (F64.roundRat neg num den) * den) ≤ 2 ^ 53 * (num * 2 ^ 1074) + num * 2 ^ 1074 ∧
    2 ^ 53 * (num * 2 ^ 1074) ≤ 2 ^ 53 * (F64.magUnits (F64.roundRat neg num den) * den) + num * 2 ^ 1074 := by
  obtain ⟨k, q, hk, hr, q1, q2, r1, r2, s1, s2⟩ := roundRat_normal neg num den hn hd hlo hhi
  obtain ⟨f1, f2, f3⟩ := bits_read neg (1074 - k) q (by omega) q1 q2
  rw [hr]
  have e1 : q * 2 ^ (1074 - k) * den = q * den * 2 ^ (1074 - k) := Nat.mul_right_comm _ _ _
  have e2 : num * 2 ^ k * 2 ^ (1074 - k) = num * 2 ^ 1074 := by
    rw [Nat.mul_assoc, ← Nat.pow_add]; congr 2; omega
  have m1 := Nat.mul_le_mul_right (2 ^ (1074 - k)) r1
  rw [Nat.add_mul, Nat.mul_assoc 2, Nat.mul_assoc 2, e2] at m1
  have m2 := Nat.mul_le_mul_right (2 ^ (1074 - k)) r2
  rw [Nat.add_mul, Nat.mul_assoc 2, Nat.mul_assoc 2, e2] at m2
  have m3 := Nat.mul_le_mul_right (2 ^ (1074 - k)) s1
  rw [e2, Nat.mul_right_comm] at m3
  refine ⟨f1, f2, ?_, ?_⟩ <;> rw [f3, e1] <;> omega

theorem f1e6_read : F64.isFinite f1e6 = true ∧ F64.signBit f1e6 = false ∧
    F64.magUnits f1e6 = 1000000 * 2 ^ 1074 := by
  obtain ⟨a, b, c⟩ := ofInt_exact 1000000 (by omega) (by omega)
  have e : (1000000 : Int).toNat = 1000000 := by decide
  rw [e] at c
  exact ⟨a, b, c⟩

set_option maxRecDepth 8000 in
/-- the double nearest to `k / 10⁶` denotes exactly `k` micro-seconds, for `0 < k < 2^51`
(about 71 years after the epoch): `(f * 1e6).round() = k` -/
theorem floatMicros_nearest (k : Int) (h0 : 0 < k) (h1 : k < 2 ^ 51) :
    F64.isFinite (F64.div (F64.ofInt k) f1e6) = true ∧
    floatMicros Fixes.all (F64.div (F64.ofInt k) f1e6) = k := by
  obtain ⟨fa, sa, ma⟩ := ofInt_exact k (by omega) (by omega)
  obtain ⟨fc, sc, mc⟩ := f1e6_read
  generalize hK : k.toNat = K at ma
  have hk' : k = (K : Int) := by omega
  have bK1 : 1 ≤ K := by omega
  have bK2 : K < 2 ^ 51 := by omega
  generalize F64.ofInt k = a at *
  have pa : 0 < F64.magUnits a := by rw [ma]; omega
  have pc : 0 < F64.magUnits f1e6 := by rw [mc]; omega
  have hd := div_pos_eq fa fc sa sc pa pc
  obtain ⟨fd, sd, d1, d2⟩ := roundRat_rel false (F64.magUnits a) (F64.magUnits f1e6) pa pc
    (by rw [ma, mc]; omega) (by rw [ma, mc]; omega)
  rw [← hd] at fd sd d1 d2
  generalize F64.div a f1e6 = f at *
  have hfx : Fixes.all.roundNanos = true := rfl
  simp only [floatMicros, hfx, if_true]
  rw [ma, mc] at d1 d2
  generalize hF : F64.magUnits f = F at *
  have pf : 0 < F := by omega
  have hmul := mul_pos_eq fd fc sd sc (by rw [hF]; exact pf) pc
  obtain ⟨fX, sX, x1, x2⟩ := roundRat_rel false (F64.magUnits f * F64.magUnits f1e6) (2 ^ 2148)
    (by rw [hF, mc]; exact Nat.mul_pos pf (by omega)) (by omega)
    (by rw [hF, mc]; omega) (by rw [hF, mc]; omega)
  rw [← hmul] at fX sX x1 x2
  generalize F64.mul f f1e6 = x at *
  rw [hF, mc] at x1 x2
  generalize hX : F64.magUnits x = X at *
  have hr : (2 * X + 2 ^ 1074) / 2 ^ 1075 = K := by omega
  obtain ⟨nX, iX⟩ := finite_flags fX
  refine ⟨fd, ?_⟩
  simp only [castSatRound, nX, iX, Bool.false_eq_true, if_false,
    roundInt_pos sX, hX, hr, isizeMin, isizeMax]
  rw [hk']
  split
  · omega
  · split
    · omega
    · rfl


/-- `gmtime | mktime` is the identity (bit for bit) on the double nearest to `k/10⁶` -/
theorem mktime_gmtime_nearest (b : Build) (k : Int) (h0 : 0 < k) (h1 : k < 2 ^ 51) (hk : k % 1000000 ≠ 0) :
    ∃ a, gmtime Fixes.all b (.num (.float (F64.div (F64.ofInt k) f1e6))) = .val a ∧
      mktime Fixes.all b a = .val (.num (.float (F64.div (F64.ofInt k) f1e6))) := by
  obtain ⟨hfin, hus⟩ := floatMicros_nearest k h0 h1
  obtain ⟨a, g, mk⟩ := mktime_gmtime_float b _ hfin
    (by rw [hus]; unfold unixSecMin; omega) (by rw [hus]; unfold unixSecMax; omega)
  refine ⟨a, g, ?_⟩
  rw [mk, hus]
  simp only [epochOfMicros, hk, if_false]

end Jaq.Time
