/-
  C01 — the constructors of stage B: sums of string parts / object entries (`sum_or`), paths with
  index filters (`Path::explode`, cartesian order), `elif` chains, and the prelude call `!empty`
  that `[]` and `try f` are compiled to.
-/
import JaqVerif.Lemmas.C01Pat

namespace Jaq.Core
open Jaq

/-- the compiled term `c` (not yet inserted into the table) simulates the producer `p` -/
def ProdSim (tabf : List CTerm) (L : Nat) (e : MEnv) (v : Val) (p : Unit → Out) (c : CTerm) : Prop :=
  ∃ m, ∀ m' ≥ m, Pre (p ()) (step cfgF (run cfgF tabf m') L e c v)

theorem cartM_cfgF (ol : Out) (r : Unit → Out) (f : Val → Val → Except Err Val) :
    cartM cfgF ol r f = cartSem ol r f := cartM_fixed ol r f

/-! ### `sum_or` -/

theorem sum_sim {tabf : List CTerm} {L : Nat} {e : MEnv} {v : Val} (zero : Val) (zeroC : CTerm)
    (hz : ∀ r, step cfgF r L e zeroC v = .done [zero]) {st3 : St} {k0 : Nat} (hag : AgreeFrom k0 st3.terms tabf) :
    ∀ (ps : List (Unit → Out)) (cs : List CTerm), All2 (ProdSim tabf L e v) ps cs →
    ∀ (st : St), Ext (sumOr zeroC cs st).2 st3 → k0 ≤ st.terms.length →
    ProdSim tabf L e v (fun _ => sumSem zero ps) (sumOr zeroC cs st).1
  | [], _, h, st, _, _ => by
    cases h
    exact ⟨0, fun m' _ => by rw [sumOr_nil, hz]; exact Pre.rfl' _⟩
  | [p], _, h, st, _, _ => by
    cases h with
    | cons h1 h2 =>
      cases h2
      rw [sumOr_one]
      exact h1
  | p :: p' :: ps, _, h, st, hl, hk => by
    cases h with
    | @cons _ c _ cs1 h1 h2 =>
      cases h2 with
      | @cons _ c' _ cs' h2 h3 =>
        rw [sumOr_cons2] at hl ⊢
        have hr := sum_sim zero zeroC hz hag (p' :: ps) (c' :: cs') (All2.cons h2 h3) st
          (Ext.trans (sumStep_ext _ _) hl) hk
        have hlen : st.terms.length ≤ (sumOr zeroC (c' :: cs') st).2.terms.length := (sumOr_ext _ _ _).len
        have hx : tabf[((sumOr zeroC (c' :: cs') st).2.insert c).1]? = some c := by
          have hlt : (sumOr zeroC (c' :: cs') st).2.terms.length < (sumStep (sumOr zeroC (c' :: cs') st) c).2.terms.length := by
            simp [sumStep, St.insert]
          show tabf[(sumOr zeroC (c' :: cs') st).2.terms.length]? = some c
          rw [hag _ (Nat.le_trans hk hlen) (Nat.lt_of_lt_of_le hlt hl.len), hl.get hlt]
          simp [sumStep, St.insert]
        have ha : tabf[(((sumOr zeroC (c' :: cs') st).2.insert c).2.insert (sumOr zeroC (c' :: cs') st).1).1]? =
            some (sumOr zeroC (c' :: cs') st).1 := by
          have hlt : ((sumOr zeroC (c' :: cs') st).2.insert c).2.terms.length < (sumStep (sumOr zeroC (c' :: cs') st) c).2.terms.length := by
            simp [sumStep, St.insert]
          have hge : k0 ≤ ((sumOr zeroC (c' :: cs') st).2.insert c).2.terms.length := by
            simp [St.insert]; omega
          show tabf[((sumOr zeroC (c' :: cs') st).2.insert c).2.terms.length]? = _
          rw [hag _ hge (Nat.lt_of_lt_of_le hlt hl.len), hl.get hlt]
          simp [sumStep, St.insert]
        obtain ⟨m1, hm1⟩ := h1
        obtain ⟨m2, hm2⟩ := hr
        refine ⟨max m1 m2 + 1, fun m' hm' => ?_⟩
        obtain ⟨k, rfl⟩ : ∃ k, m' = k + 1 := ⟨m' - 1, by omega⟩
        simp only [sumStep, step, cartM_cfgF, sumSem]
        rw [run_succ hx, run_succ ha]
        exact pre_cart _ (hm1 k (by omega)) (hm2 k (by omega))

/-- the terms compiled in the context `σ` / `loc` / `e` are simulated on the input `v` -/
def TSim (pe : Bool) (tabf : List CTerm) (n L : Nat) (σ : Env) (loc : Locals) (e : MEnv) : Prop :=
  ∀ (t : Term) (id : TermId) (v : Val), inFragment pe t = true → CompiledI pe tabf loc t id →
    ∃ m, ∀ m' ≥ m, Pre (eval n L σ t v) (run cfgF tabf m' L e id v)

theorem TSim.key {pe tabf n L σ loc e} (h : TSim pe tabf n L σ loc e) : KeySim pe tabf n L σ loc e :=
  fun t id hfr hI w => h t id w hfr hI

/-! ### string parts -/

theorem strparts_sim {pe : Bool} {tabf : List CTerm} {n L : Nat} {σ : Env} {loc : Locals} {e : MEnv} {v : Val}
    (hT : TSim pe tabf n L σ loc e) (F : StrPart → Unit → Out)
    (hlit : ∀ s, F (.lit s) () = .done [strVal s])
    (hint : ∀ f, F (.interp f) () = OutG.bind (eval n L σ f v).vals (eval n L σ f v).stop fun w => .done [intoString w])
    {ifmt : TermId} (hfmt : tabf[ifmt]? = some .toString) {st3 : St} {k0 : Nat} (hag : AgreeFrom k0 st3.terms tabf) :
    ∀ (parts : List StrPart), inFragmentParts pe parts = true → ∀ (st : St),
      Ext (compileStrParts (cxMain pe) loc ifmt parts st).2 st3 → k0 ≤ st.terms.length →
      All2 (ProdSim tabf L e v) (parts.map F) (compileStrParts (cxMain pe) loc ifmt parts st).1
  | [], _, st, _, _ => by rw [compileStrParts_nil]; exact All2.nil
  | .lit s :: ps, hfr, st, hl, hk => by
    simp only [inFragmentParts] at hfr
    rw [compileStrParts_lit] at hl ⊢
    refine All2.cons ⟨0, fun m' _ => ?_⟩ (strparts_sim hT F hlit hint hfmt hag ps hfr st hl hk)
    rw [hlit]; exact Pre.rfl' _
  | .interp f :: ps, hfr, st, hl, hk => by
    simp only [inFragmentParts, Bool.and_eq_true] at hfr
    rw [compileStrParts_interp] at hl ⊢
    have hI := compiledI_it (tabf := tabf) hfr.1 (Ext.trans (compileStrParts_extA _ _ _ _ _) hl) hk hag
    refine All2.cons ?_ (strparts_sim hT F hlit hint hfmt hag ps hfr.2 _ hl (Nat.le_trans hk it_extA.len))
    obtain ⟨m1, h1⟩ := hT f _ v hfr.1 hI
    refine ⟨m1 + 1, fun m' hm' => ?_⟩
    obtain ⟨k, rfl⟩ : ∃ k, m' = k + 1 := ⟨m' - 1, by omega⟩
    rw [hint]
    simp only [step]
    refine pre_bind' (h1 _ (by omega)) (fun w _ => ?_)
    rw [run_succ hfmt]
    exact Pre.rfl' _

/-! ### object entries -/

theorem objEntrySem_none (ev : Term → Val → Out) (lookup : String → Option Val) (v : Val) (k : Term) (hk : ∀ x, k ≠ .var x) :
    objEntrySem ev lookup v (k, none) =
      cartSem (ev k v) (fun _ => OutG.bind (ev k v).vals (ev k v).stop fun i => OutG.ofExcept (indexV v i))
        (fun kk vv => .ok (.obj [(kk, vv)])) := by
  cases k <;> first | exact absurd rfl (hk _) | rfl

theorem runParts_index1 (iv y : Val) : runParts [(.index iv, .essential)] y = OutG.ofExcept (indexV y iv) := by
  cases h : indexV y iv <;> simp [runParts, VPart.run, OutG.ofExcept, OutG.bind, OutG.done, OutG.err, h]

theorem exTail_cfgF (s : Stop) (X : OutG (List (VPart × Opt))) : explodeM.exTail cfgF s X = ⟨[], s⟩ := by
  cases s <;> simp [explodeM.exTail, cfgF]

theorem explodeM_nil (rn : TermId → Out) (acc) : explodeM cfgF rn [] acc = .done [acc.reverse] := by rw [explodeM]
theorem explodeM_index (rn : TermId → Out) (i o rest acc) : explodeM cfgF rn ((.index i, o) :: rest) acc =
    OutG.bind (rn i).vals (rn i).stop fun iv => explodeM cfgF rn rest ((.index iv, o) :: acc) := by
  rw [explodeM]
  simp only [exTail_cfgF]
  exact bind_done_append _ _ _

theorem bind_bind_done {α β γ : Type} (g : α → β) (f : β → OutG γ) (vs : List α) (s : Stop) :
    OutG.bind (OutG.bind vs s fun a => (OutG.done [g a] : OutG β)).vals (OutG.bind vs s fun a => (OutG.done [g a] : OutG β)).stop f =
      OutG.bind vs s (fun a => f (g a)) := by
  rw [bind_map]; exact bind_map_left g f vs s

theorem bind_bind_done' {α β γ : Type} (g : α → β) (f : β → OutG γ) (vs : List α) (s : Stop) :
    OutG.bind (OutG.bind vs s fun a => ({ vals := [g a], stop := Stop.done } : OutG β)).vals
        (OutG.bind vs s fun a => ({ vals := [g a], stop := Stop.done } : OutG β)).stop f =
      OutG.bind vs s (fun a => f (g a)) := bind_bind_done g f vs s

theorem objEntrySem_some (ev : Term → Val → Out) (lookup : String → Option Val) (v : Val) (k w : Term) :
    objEntrySem ev lookup v (k, some w) = cartSem (ev k v) (fun _ => ev w v) (fun kk vv => .ok (.obj [(kk, vv)])) := by
  cases k <;> rfl

theorem entries_sim {pe : Bool} {tabf : List CTerm} {n L : Nat} {σ : Env} {loc : Locals} {e : MEnv} {v : Val}
    (hrel : Rel pe tabf σ loc e) (hT : TSim pe tabf n L σ loc e) {st3 : St} {k0 : Nat} (hag : AgreeFrom k0 st3.terms tabf) :
    ∀ (kvs : List (Term × Option Term)), inFragmentEntries pe kvs = true → ∀ (st : St),
      Ext (compileEntries (cxMain pe) loc kvs st).2 st3 → k0 ≤ st.terms.length →
      All2 (ProdSim tabf L e v) (kvs.map fun kv => fun _ => objEntrySem (eval n L σ) (findVar σ) v kv)
        (compileEntries (cxMain pe) loc kvs st).1
  | [], _, st, _, _ => by rw [compileEntries_nil]; exact All2.nil
  | (k, some w) :: es, hfr, st, hl, hk => by
    simp only [inFragmentEntries, Bool.and_eq_true] at hfr
    rw [compileEntries_some] at hl ⊢
    have e1 : Ext st (it (cxMain pe) loc [] k st).2.2 := it_extA
    have e2 : Ext (it (cxMain pe) loc [] k st).2.2 (it (cxMain pe) loc [] w (it (cxMain pe) loc [] k st).2.2).2.2 := it_extA
    have e3 := compileEntries_extA (cxMain pe) loc es (it (cxMain pe) loc [] w (it (cxMain pe) loc [] k st).2.2).2.2
    have hIk := compiledI_it (tabf := tabf) hfr.1.1 (Ext.trans e2 (Ext.trans e3 hl)) hk hag
    have hIw := compiledI_it (tabf := tabf) hfr.1.2 (Ext.trans e3 hl) (Nat.le_trans hk e1.len) hag
    refine All2.cons ?_ (entries_sim hrel hT hag es hfr.2 _ hl (Nat.le_trans hk (Nat.le_trans e1.len e2.len)))
    obtain ⟨m1, h1⟩ := hT k _ v hfr.1.1 hIk
    obtain ⟨m2, h2⟩ := hT w _ v hfr.1.2 hIw
    refine ⟨max m1 m2, fun m' hm' => ?_⟩
    simp only [List.map_cons, objEntrySem_some, step, cartM_cfgF]
    exact pre_cart _ (h1 m' (by omega)) (h2 m' (by omega))
  | (k, none) :: es, hfr, st, hl, hk => by
    simp only [inFragmentEntries, Bool.and_eq_true] at hfr
    by_cases hkv : ∃ x, k = .var x
    · obtain ⟨x, rfl⟩ := hkv
      rw [compileEntries_var] at hl ⊢
      simp only at hl ⊢
      -- names for the three tables
      have e1 : Ext st (st.insert (.str (x.drop 1).toString)).2 := Ext.insert _ _
      have e2h := Ext.set_hole (st := (st.insert (.str (x.drop 1).toString)).2)
        (varC loc x (((st.insert (.str (x.drop 1).toString)).2.insert .id).2)).1 .id (varC_ext loc _ x)
      have e3 := compileEntries_extA (cxMain pe) loc es
        ((varC loc x (((st.insert (.str (x.drop 1).toString)).2.insert .id).2)).2.set
          (st.insert (.str (x.drop 1).toString)).2.terms.length
          (varC loc x (((st.insert (.str (x.drop 1).toString)).2.insert .id).2)).1)
      have hl1 : st.terms.length < (st.insert (.str (x.drop 1).toString)).2.terms.length := by simp [St.insert]
      have hik : tabf[st.terms.length]? = some (.str (x.drop 1).toString) := by
        have hlt := Nat.lt_of_lt_of_le hl1 (Nat.le_trans e2h.1.len (Nat.le_trans e3.len hl.len))
        rw [hag _ hk hlt, (Ext.trans e2h.1 (Ext.trans e3 hl)).get hl1]
        simp [St.insert]
      have hiv : tabf[(st.insert (.str (x.drop 1).toString)).2.terms.length]? =
          some (varC loc x (((st.insert (.str (x.drop 1).toString)).2.insert .id).2)).1 := by
        have hl2 : (st.insert (.str (x.drop 1).toString)).2.terms.length <
            ((varC loc x (((st.insert (.str (x.drop 1).toString)).2.insert .id).2)).2.set
              (st.insert (.str (x.drop 1).toString)).2.terms.length
              (varC loc x (((st.insert (.str (x.drop 1).toString)).2.insert .id).2)).1).terms.length := by
          rw [St.set_terms_len]
          exact Nat.lt_of_lt_of_le (by simp [St.insert]) (varC_ext loc _ x).len
        have hlt := Nat.lt_of_lt_of_le hl2 (Nat.le_trans e3.len hl.len)
        rw [hag _ (Nat.le_trans hk e1.len) hlt, (Ext.trans e3 hl).get hl2]
        exact e2h.2
      refine All2.cons ?_ (entries_sim hrel hT hag es hfr.2 _ hl (Nat.le_trans hk (Nat.le_trans e1.len e2h.1.len)))
      refine ⟨2, fun m' hm' => ?_⟩
      obtain ⟨k, rfl⟩ : ∃ k, m' = k + 2 := ⟨m' - 2, by omega⟩
      have hl := findVar_rel hrel x
      simp only [step, cartM_cfgF, run_succ hik, run_succ hiv, objEntrySem]
      cases hf : findVar σ x with
      | none =>
        rw [hf] at hl; simp only at hl ⊢
        simp only [varC, hl, step]
        exact Pre.rfl' _
      | some w =>
        rw [hf] at hl; simp only at hl ⊢
        obtain ⟨pos, h1, h2, h3, h4⟩ := hl
        simp only [varC, h1, step, h4]
        exact Pre.rfl' _
    · have hkv' : ∀ x, k ≠ .var x := fun x hx => hkv ⟨x, hx⟩
      rw [compileEntries_none _ _ _ _ _ hkv'] at hl ⊢
      simp only at hl ⊢
      have e1 : Ext st (it (cxMain pe) loc [] k st).2.2 := it_extA
      have e2 : Ext (it (cxMain pe) loc [] k st).2.2 ((it (cxMain pe) loc [] k st).2.2.insert .id).2 := Ext.insert _ _
      have e3 : Ext ((it (cxMain pe) loc [] k st).2.2.insert .id).2
          ((((it (cxMain pe) loc [] k st).2.2.insert .id).2).insert
            (.path (it (cxMain pe) loc [] k st).2.2.terms.length [(.index (it (cxMain pe) loc [] k st).1, .essential)])).2 := Ext.insert _ _
      have e4 := compileEntries_extA (cxMain pe) loc es
        ((((it (cxMain pe) loc [] k st).2.2.insert .id).2).insert
            (.path (it (cxMain pe) loc [] k st).2.2.terms.length [(.index (it (cxMain pe) loc [] k st).1, .essential)])).2
      have hIk := compiledI_it (tabf := tabf) hfr.1 (Ext.trans e2 (Ext.trans e3 (Ext.trans e4 hl))) hk hag
      have hiid : tabf[(it (cxMain pe) loc [] k st).2.2.terms.length]? = some .id := by
        have hl1 : (it (cxMain pe) loc [] k st).2.2.terms.length < ((it (cxMain pe) loc [] k st).2.2.insert .id).2.terms.length := by
          simp [St.insert]
        have hlt := Nat.lt_of_lt_of_le hl1 (Nat.le_trans e3.len (Nat.le_trans e4.len hl.len))
        rw [hag _ (Nat.le_trans hk e1.len) hlt, (Ext.trans e3 (Ext.trans e4 hl)).get hl1]
        simp [St.insert]
      have hip : tabf[((it (cxMain pe) loc [] k st).2.2.insert .id).2.terms.length]? =
          some (.path (it (cxMain pe) loc [] k st).2.2.terms.length [(.index (it (cxMain pe) loc [] k st).1, .essential)]) := by
        have hl1 : ((it (cxMain pe) loc [] k st).2.2.insert .id).2.terms.length <
            ((((it (cxMain pe) loc [] k st).2.2.insert .id).2).insert
              (.path (it (cxMain pe) loc [] k st).2.2.terms.length [(.index (it (cxMain pe) loc [] k st).1, .essential)])).2.terms.length := by
          simp [St.insert]
        have hlt := Nat.lt_of_lt_of_le hl1 (Nat.le_trans e4.len hl.len)
        rw [hag _ (Nat.le_trans hk (Nat.le_trans e1.len e2.len)) hlt, (Ext.trans e4 hl).get hl1]
        simp [St.insert]
      refine All2.cons ?_ (entries_sim hrel hT hag es hfr.2 _ hl
        (Nat.le_trans hk (Nat.le_trans e1.len (Nat.le_trans e2.len e3.len))))
      obtain ⟨m1, h1⟩ := hT k _ v hfr.1 hIk
      refine ⟨m1 + 2, fun m' hm' => ?_⟩
      obtain ⟨j, rfl⟩ : ∃ j, m' = j + 2 := ⟨m' - 2, by omega⟩
      simp only [List.map_cons, objEntrySem_none _ _ _ _ hkv', step, cartM_cfgF]
      refine pre_cart _ (h1 _ (by omega)) ?_
      rw [run_succ hip]
      simp only [step]
      rw [run_succ hiid]
      simp only [step, OutG.done, bind_singleton, explodeM_index, explodeM_nil, List.reverse_cons, List.reverse_nil, List.nil_append]
      rw [bind_bind_done' (fun iv => [(VPart.index iv, Opt.essential)]) (fun p => runParts p v)]
      simp only [runParts_index1]
      exact pre_bind' (h1 _ (by omega)) (fun _ _ => Pre.rfl' _)


/-! ### paths: `Path::explode` (index filters on the original input, first part outermost) -/

theorem explodeM_iter (rn : TermId → Out) (o rest acc) : explodeM cfgF rn ((.range none none, o) :: rest) acc =
    explodeM cfgF rn rest ((.iter, o) :: acc) := by rw [explodeM]
theorem explodeM_from (rn : TermId → Out) (a o rest acc) : explodeM cfgF rn ((.range (some a) none, o) :: rest) acc =
    OutG.bind (rn a).vals (rn a).stop fun av => explodeM cfgF rn rest ((.range (some av) none, o) :: acc) := by
  rw [explodeM]
  simp only [exTail_cfgF]
  exact bind_done_append _ _ _
theorem explodeM_upto (rn : TermId → Out) (b o rest acc) : explodeM cfgF rn ((.range none (some b), o) :: rest) acc =
    OutG.bind (rn b).vals (rn b).stop fun bv => explodeM cfgF rn rest ((.range none (some bv), o) :: acc) := by
  rw [explodeM]
  simp only [exTail_cfgF]
  exact bind_done_append _ _ _
theorem explodeM_both (rn : TermId → Out) (a b o rest acc) : explodeM cfgF rn ((.range (some a) (some b), o) :: rest) acc =
    OutG.bind (rn a).vals (rn a).stop fun av => OutG.bind (rn b).vals (rn b).stop fun bv =>
      explodeM cfgF rn rest ((.range (some av) (some bv), o) :: acc) := by
  rw [explodeM]
  simp only [exTail_cfgF]
  rw [bind_done_append]
  congr 1
  funext av
  exact bind_done_append _ _ _

theorem explodeSem_nil (ev : Term → Out) (acc) : explodeSem ev [] acc = .done [acc.reverse] := by rw [explodeSem]
theorem explodeSem_index (ev : Term → Out) (i o rest acc) : explodeSem ev ((.index i, o) :: rest) acc =
    OutG.bind (ev i).vals (ev i).stop fun iv => explodeSem ev rest ((.index iv, o) :: acc) := by rw [explodeSem]
theorem explodeSem_iter (ev : Term → Out) (o rest acc) : explodeSem ev ((.range none none, o) :: rest) acc =
    explodeSem ev rest ((.iter, o) :: acc) := by rw [explodeSem]
theorem explodeSem_from (ev : Term → Out) (a o rest acc) : explodeSem ev ((.range (some a) none, o) :: rest) acc =
    OutG.bind (ev a).vals (ev a).stop fun av => explodeSem ev rest ((.range (some av) none, o) :: acc) := by rw [explodeSem]
theorem explodeSem_upto (ev : Term → Out) (b o rest acc) : explodeSem ev ((.range none (some b), o) :: rest) acc =
    OutG.bind (ev b).vals (ev b).stop fun bv => explodeSem ev rest ((.range none (some bv), o) :: acc) := by rw [explodeSem]
theorem explodeSem_both (ev : Term → Out) (a b o rest acc) : explodeSem ev ((.range (some a) (some b), o) :: rest) acc =
    OutG.bind (ev a).vals (ev a).stop fun av => OutG.bind (ev b).vals (ev b).stop fun bv =>
      explodeSem ev rest ((.range (some av) (some bv), o) :: acc) := by rw [explodeSem]

theorem explode_sim {pe : Bool} {tabf : List CTerm} {n L : Nat} {σ : Env} {loc : Locals} {e : MEnv} {v : Val}
    (hT : TSim pe tabf n L σ loc e) {st3 : St} {k0 : Nat} (hag : AgreeFrom k0 st3.terms tabf) :
    ∀ (parts : List (Part × Opt)), inFragmentPath pe parts = true → ∀ (st : St),
      Ext (compileParts (cxMain pe) loc parts st).2 st3 → k0 ≤ st.terms.length → ∀ acc, ∃ m, ∀ m' ≥ m,
      Pre (explodeSem (fun i => eval n L σ i v) parts acc)
        (explodeM cfgF (fun i => run cfgF tabf m' L e i v) (compileParts (cxMain pe) loc parts st).1 acc)
  | [], _, st, _, _, acc => ⟨0, fun m' _ => by rw [compileParts_nil, explodeSem_nil, explodeM_nil]; exact Pre.rfl' _⟩
  | (.index i, o) :: rest, hfr, st, hl, hk, acc => by
    simp only [inFragmentPath, Bool.and_eq_true] at hfr
    rw [compileParts_index] at hl
    have e1 : Ext st (it (cxMain pe) loc [] i st).2.2 := it_extA
    have hI := compiledI_it (tabf := tabf) hfr.1 (Ext.trans (compileParts_extA _ _ _ _) hl) hk hag
    obtain ⟨m1, h1⟩ := hT i _ v hfr.1 hI
    obtain ⟨m2, h2⟩ := uniform_fuel (P := fun m' iv => Pre (explodeSem (fun i => eval n L σ i v) rest ((.index iv, o) :: acc))
        (explodeM cfgF (fun i => run cfgF tabf m' L e i v) (compileParts (cxMain pe) loc rest (it (cxMain pe) loc [] i st).2.2).1
          ((.index iv, o) :: acc)))
      (eval n L σ i v).vals (fun iv _ => explode_sim hT hag rest hfr.2 _ hl (Nat.le_trans hk e1.len) _)
    refine ⟨max m1 m2, fun m' hm' => ?_⟩
    rw [compileParts_index, explodeSem_index, explodeM_index]
    exact pre_bind' (h1 m' (by omega)) (h2 m' (by omega))
  | (.range none none, o) :: rest, hfr, st, hl, hk, acc => by
    simp only [inFragmentPath] at hfr
    rw [compileParts_range] at hl
    obtain ⟨m, hm⟩ := explode_sim hT hag rest hfr st hl hk ((.iter, o) :: acc)
    refine ⟨m, fun m' hm' => ?_⟩
    rw [compileParts_range, explodeSem_iter]
    simp only [optIt]
    rw [explodeM_iter]
    exact hm m' hm'
  | (.range (some a) none, o) :: rest, hfr, st, hl, hk, acc => by
    simp only [inFragmentPath, Bool.and_eq_true] at hfr
    rw [compileParts_range] at hl
    simp only [optIt] at hl
    have e1 : Ext st (it (cxMain pe) loc [] a st).2.2 := it_extA
    have hI := compiledI_it (tabf := tabf) hfr.1 (Ext.trans (compileParts_extA _ _ _ _) hl) hk hag
    obtain ⟨m1, h1⟩ := hT a _ v hfr.1 hI
    obtain ⟨m2, h2⟩ := uniform_fuel (P := fun m' av => Pre (explodeSem (fun i => eval n L σ i v) rest ((.range (some av) none, o) :: acc))
        (explodeM cfgF (fun i => run cfgF tabf m' L e i v) (compileParts (cxMain pe) loc rest (it (cxMain pe) loc [] a st).2.2).1
          ((.range (some av) none, o) :: acc)))
      (eval n L σ a v).vals (fun av _ => explode_sim hT hag rest hfr.2 _ hl (Nat.le_trans hk e1.len) _)
    refine ⟨max m1 m2, fun m' hm' => ?_⟩
    rw [compileParts_range, explodeSem_from]
    simp only [optIt]
    rw [explodeM_from]
    exact pre_bind' (h1 m' (by omega)) (h2 m' (by omega))
  | (.range none (some b), o) :: rest, hfr, st, hl, hk, acc => by
    simp only [inFragmentPath, Bool.and_eq_true] at hfr
    rw [compileParts_range] at hl
    simp only [optIt] at hl
    have e1 : Ext st (it (cxMain pe) loc [] b st).2.2 := it_extA
    have hI := compiledI_it (tabf := tabf) hfr.1 (Ext.trans (compileParts_extA _ _ _ _) hl) hk hag
    obtain ⟨m1, h1⟩ := hT b _ v hfr.1 hI
    obtain ⟨m2, h2⟩ := uniform_fuel (P := fun m' bv => Pre (explodeSem (fun i => eval n L σ i v) rest ((.range none (some bv), o) :: acc))
        (explodeM cfgF (fun i => run cfgF tabf m' L e i v) (compileParts (cxMain pe) loc rest (it (cxMain pe) loc [] b st).2.2).1
          ((.range none (some bv), o) :: acc)))
      (eval n L σ b v).vals (fun bv _ => explode_sim hT hag rest hfr.2 _ hl (Nat.le_trans hk e1.len) _)
    refine ⟨max m1 m2, fun m' hm' => ?_⟩
    rw [compileParts_range, explodeSem_upto]
    simp only [optIt]
    rw [explodeM_upto]
    exact pre_bind' (h1 m' (by omega)) (h2 m' (by omega))
  | (.range (some a) (some b), o) :: rest, hfr, st, hl, hk, acc => by
    simp only [inFragmentPath, Bool.and_eq_true] at hfr
    rw [compileParts_range] at hl
    simp only [optIt] at hl
    have e1 : Ext st (it (cxMain pe) loc [] a st).2.2 := it_extA
    have e2 : Ext (it (cxMain pe) loc [] a st).2.2 (it (cxMain pe) loc [] b (it (cxMain pe) loc [] a st).2.2).2.2 := it_extA
    have e3 := compileParts_extA (cxMain pe) loc rest (it (cxMain pe) loc [] b (it (cxMain pe) loc [] a st).2.2).2.2
    have hIa := compiledI_it (tabf := tabf) hfr.1.1 (Ext.trans e2 (Ext.trans e3 hl)) hk hag
    have hIb := compiledI_it (tabf := tabf) hfr.1.2 (Ext.trans e3 hl) (Nat.le_trans hk e1.len) hag
    obtain ⟨m1, h1⟩ := hT a _ v hfr.1.1 hIa
    obtain ⟨m2, h2⟩ := hT b _ v hfr.1.2 hIb
    have hinner : ∀ av, ∃ m, ∀ m' ≥ m, ∀ bv ∈ (eval n L σ b v).vals,
        Pre (explodeSem (fun i => eval n L σ i v) rest ((.range (some av) (some bv), o) :: acc))
        (explodeM cfgF (fun i => run cfgF tabf m' L e i v)
          (compileParts (cxMain pe) loc rest (it (cxMain pe) loc [] b (it (cxMain pe) loc [] a st).2.2).2.2).1
          ((.range (some av) (some bv), o) :: acc)) := fun av =>
      uniform_fuel (eval n L σ b v).vals
        (fun bv _ => explode_sim hT hag rest hfr.2 _ hl (Nat.le_trans hk (Nat.le_trans e1.len e2.len)) _)
    obtain ⟨m3, h3⟩ := uniform_fuel (P := fun m' av => ∀ bv ∈ (eval n L σ b v).vals,
        Pre (explodeSem (fun i => eval n L σ i v) rest ((.range (some av) (some bv), o) :: acc))
        (explodeM cfgF (fun i => run cfgF tabf m' L e i v)
          (compileParts (cxMain pe) loc rest (it (cxMain pe) loc [] b (it (cxMain pe) loc [] a st).2.2).2.2).1
          ((.range (some av) (some bv), o) :: acc)))
      (eval n L σ a v).vals (fun av _ => hinner av)
    refine ⟨max m1 (max m2 m3), fun m' hm' => ?_⟩
    rw [compileParts_range, explodeSem_both]
    simp only [optIt]
    rw [explodeM_both]
    exact pre_bind' (h1 m' (by omega)) (fun av hav => pre_bind' (h2 m' (by omega)) (h3 m' (by omega) av hav))

/-! ### `if … elif … else … end` -/

theorem iteSem_cons (ev : Term → Val → Out) (v : Val) (c t rest els) : iteSem ev v ((c, t) :: rest) els =
    OutG.bind (ev c v).vals (ev c v).stop fun b => if truthy b then ev t v else iteSem ev v rest els := by
  rw [iteSem]

theorem ite_sim {pe : Bool} {tabf : List CTerm} {n L : Nat} {σ : Env} {loc : Locals} {e : MEnv} {v : Val} {tr : Tr}
    (hT : TSim pe tabf n L σ loc e) {st3 : St} {k0 : Nat} (hag : AgreeFrom k0 st3.terms tabf) (els : Option Term)
    (base : CTerm × Tr × St)
    (hbase : ∃ m, ∀ m' ≥ m, Pre (iteSem (eval n L σ) v [] els) (step cfgF (run cfgF tabf m') L e base.1 v)) :
    ∀ (its : List (Term × Term)), inFragmentIts pe its = true → ∀ (st : St),
      Ext (compileIts (cxMain pe) loc tr its st).2 base.2.2 →
      Ext (iteBuild (compileIts (cxMain pe) loc tr its st).1 base).2.2 st3 → k0 ≤ st.terms.length →
      ∃ m, ∀ m' ≥ m, Pre (iteSem (eval n L σ) v its els)
        (step cfgF (run cfgF tabf m') L e (iteBuild (compileIts (cxMain pe) loc tr its st).1 base).1 v)
  | [], _, st, _, _, _ => by rw [compileIts_nil, iteBuild_nil]; exact hbase
  | (c, t) :: rest, hfr, st, hb, hl, hk => by
    simp only [inFragmentIts, Bool.and_eq_true] at hfr
    rw [compileIts_cons] at hb hl
    simp only at hb hl
    rw [iteBuild_cons] at hl
    have e1 : Ext st (it (cxMain pe) loc [] c st).2.2 := it_extA
    have e2 : Ext (it (cxMain pe) loc [] c st).2.2 (it (cxMain pe) loc tr t (it (cxMain pe) loc [] c st).2.2).2.2 := it_extA
    have e3 := compileIts_extA (cxMain pe) loc tr rest (it (cxMain pe) loc tr t (it (cxMain pe) loc [] c st).2.2).2.2
    have e4 := iteBuild_ext (compileIts (cxMain pe) loc tr rest (it (cxMain pe) loc tr t (it (cxMain pe) loc [] c st).2.2).2.2).1 base
    have e5 : Ext (iteBuild (compileIts (cxMain pe) loc tr rest (it (cxMain pe) loc tr t (it (cxMain pe) loc [] c st).2.2).2.2).1 base).2.2
        (iteStep (iteBuild (compileIts (cxMain pe) loc tr rest (it (cxMain pe) loc tr t (it (cxMain pe) loc [] c st).2.2).2.2).1 base)
          ((it (cxMain pe) loc [] c st).1, (it (cxMain pe) loc tr t (it (cxMain pe) loc [] c st).2.2).1,
            (it (cxMain pe) loc tr t (it (cxMain pe) loc [] c st).2.2).2.1)).2.2 := Ext.insert _ _
    have hrestl : Ext (it (cxMain pe) loc tr t (it (cxMain pe) loc [] c st).2.2).2.2 st3 :=
      Ext.trans e3 (Ext.trans hb (Ext.trans e4 (Ext.trans e5 hl)))
    have hIc := compiledI_it (tabf := tabf) hfr.1.1 (Ext.trans e2 hrestl) hk hag
    have hIt := compiledI_it (tabf := tabf) (tr := tr) hfr.1.2 hrestl (Nat.le_trans hk e1.len) hag
    have hk2 : k0 ≤ (it (cxMain pe) loc tr t (it (cxMain pe) loc [] c st).2.2).2.2.terms.length :=
      Nat.le_trans hk (Nat.le_trans e1.len e2.len)
    obtain ⟨m3, h3⟩ := ite_sim hT hag els base hbase rest hfr.2 _ hb (Ext.trans e5 hl) hk2
    -- the inserted `else` term
    have hie : tabf[(iteBuild (compileIts (cxMain pe) loc tr rest (it (cxMain pe) loc tr t (it (cxMain pe) loc [] c st).2.2).2.2).1 base).2.2.terms.length]? =
        some (iteBuild (compileIts (cxMain pe) loc tr rest (it (cxMain pe) loc tr t (it (cxMain pe) loc [] c st).2.2).2.2).1 base).1 := by
      have hlt : (iteBuild (compileIts (cxMain pe) loc tr rest (it (cxMain pe) loc tr t (it (cxMain pe) loc [] c st).2.2).2.2).1 base).2.2.terms.length <
          (iteStep (iteBuild (compileIts (cxMain pe) loc tr rest (it (cxMain pe) loc tr t (it (cxMain pe) loc [] c st).2.2).2.2).1 base)
          ((it (cxMain pe) loc [] c st).1, (it (cxMain pe) loc tr t (it (cxMain pe) loc [] c st).2.2).1,
            (it (cxMain pe) loc tr t (it (cxMain pe) loc [] c st).2.2).2.1)).2.2.terms.length := by
        simp [iteStep, St.insert]
      rw [hag _ (Nat.le_trans hk2 (Nat.le_trans e3.len (Nat.le_trans hb.len e4.len))) (Nat.lt_of_lt_of_le hlt hl.len), hl.get hlt]
      simp [iteStep, St.insert]
    obtain ⟨m1, h1⟩ := hT c _ v hfr.1.1 hIc
    obtain ⟨m2, h2⟩ := hT t _ v hfr.1.2 hIt
    refine ⟨max m1 (max m2 m3) + 1, fun m' hm' => ?_⟩
    obtain ⟨k, rfl⟩ : ∃ k, m' = k + 1 := ⟨m' - 1, by omega⟩
    rw [compileIts_cons, iteBuild_cons, iteSem_cons]
    simp only [iteStep, step]
    refine pre_bind' (h1 _ (by omega)) (fun b _ => ?_)
    by_cases hbt : truthy b = true
    · simp only [hbt, if_true]; exact h2 _ (by omega)
    · simp only [hbt]
      show Pre _ (run cfgF tabf (k+1) L e
        (iteBuild (compileIts (cxMain pe) loc tr rest (it (cxMain pe) loc tr t (it (cxMain pe) loc [] c st).2.2).2.2).1 base).2.2.terms.length v)
      rw [run_succ hie]
      exact h3 k (by omega)

/-! ### `!empty` -/

theorem valuesV_obj_nil : valuesV (.obj []) = .ok [] := by simp [valuesV]

theorem run_empty {tabf : List CTerm} (hpre : PreOK true tabf) (k L : Nat) (e : MEnv) (v : Val) :
    run cfgF tabf (k + 2) L e 0 v = .done [] := by
  obtain ⟨h0, h1⟩ := hpre rfl
  rw [run_succ h0]
  simp only [step]
  rw [run_succ h1]
  simp [step, OutG.done, OutG.bind, explodeM_iter, explodeM_nil, runParts, VPart.run, valuesV_obj_nil]

theorem callC_empty (loc : Locals) (st : St) (hcall : loc.funs.getLast (emptyName, 0) = none) :
    callC (cxMain true) loc "!empty" [] [] st = (.callDef 0 [] loc.total .inline, [], st) := by
  have hc : loc.call "!empty" [] [] = none := by
    simp only [Locals.call, List.length_nil]
    rw [show ("!empty", 0) = (emptyName, 0) from rfl, hcall]
  unfold callC
  rw [hc]
  simp [cxMain, callModId, emptyMDef, emptyName, Locals.binds]

/-- with the prelude definition `!empty`, the term that `[]` and `try f` refer to yields nothing -/
theorem itermEmpty_run {tabf : List CTerm} {σ : Env} {loc : Locals} {e : MEnv} (hpre : PreOK true tabf)
    (hrel : Rel true tabf σ loc e) {st st3 : St} {k0 : Nat} (hl : Ext (itermEmpty (cxMain true) loc st).2 st3)
    (hk : k0 ≤ st.terms.length) (hag : AgreeFrom k0 st3.terms tabf) (k L : Nat) (v : Val) :
    run cfgF tabf (k + 3) L e (itermEmpty (cxMain true) loc st).1 v = .done [] := by
  have hnone : loc.funs.getLast (emptyName, 0) = none := by
    have h := findCall_rel hrel emptyName 0
    unfold LookupOK at h
    rw [findCall_empty_none hrel 0] at h
    exact h
  have hid : tabf[st.terms.length]? = some (.callDef 0 [] loc.total .inline) := by
    have hs := Ext.set_hole (st := st) (callC (cxMain true) loc "!empty" [] [] (st.insert .id).2).1 .id
      (callC_ext (cxMain true) loc [] _ "!empty" [])
    have hlt : st.terms.length < ((callC (cxMain true) loc "!empty" [] [] (st.insert .id).2).2.2.set st.terms.length
        (callC (cxMain true) loc "!empty" [] [] (st.insert .id).2).1).terms.length := by
      rw [St.set_terms_len]
      exact Nat.lt_of_lt_of_le (by simp [St.insert]) (callC_ext (cxMain true) loc [] _ "!empty" []).len
    have hl' : Ext ((callC (cxMain true) loc "!empty" [] [] (st.insert .id).2).2.2.set st.terms.length
        (callC (cxMain true) loc "!empty" [] [] (st.insert .id).2).1) st3 := hl
    rw [hag _ hk (Nat.lt_of_lt_of_le hlt hl'.len), hl'.get hlt, hs.2, callC_empty _ _ hnone]
  show run cfgF tabf (k + 3) L e st.terms.length v = _
  rw [run_succ hid]
  simp only [step, bindVars]
  exact run_empty hpre k L _ v

end Jaq.Core
