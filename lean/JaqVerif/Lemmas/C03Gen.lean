/-
  C03 helper lemmas, part 7 (round 2): runs of the *reference* for the incremental generators
  (`foreach` over `inputs`, `repeat(f)`), to be transferred to the interpreter by `take_prefix`.
-/
import JaqVerif.Lemmas.C03Main
namespace Jaq.C03
variable {D : List T}

/-- `upd` computes the function `g` of the element `$x` and the state `.`: one output, nothing
else happens, whatever the world -/
def UpdFun (D : List T) (upd : T) (ctx : Ctx) (g : Val → Val → Val) : Prop :=
  ∀ x y w, ∃ n th', force D n (.run upd (ctx.consVar x) y) w = some (.yield (.ok (g x y)) th', w) ∧ Dead D th'

/-- the successive states of `foreach … (s; g)` -/
def scanG (g : Val → Val → Val) (s : Val) : List Val → List Val
  | [] => []
  | x :: xs => g x s :: scanG g (g x s) xs

/-- a stream that reads the shared input stream one value per output, like `inputs` -/
def IsInputs (D : List T) (th : Th) : Prop :=
  ∀ w x w1, w.read = some (x, w1) → ∃ n, force D n th w = some (.yield (.ok x) .inputs, w1)

theorem isInputs_inputs : IsInputs D .inputs := by
  intro w x w1 h
  exact ⟨1, by rw [force_succ]; simp only [forceStep, h]⟩

theorem isInputs_run (c : Ctx) (v : Val) : IsInputs D (.run .inputs c v) := by
  intro w x w1 h
  exact ⟨2, by rw [force_succ]; simp only [forceStep]; rw [force_succ]; simp only [forceStep, h]⟩

/-- one step of `foreach` over `inputs`: one input is read, `update` runs once, one output -/
theorem foreach_inputs_step {upd ctx g} (hU : UpdFun D upd ctx g) {src : Th} (hs : IsInputs D src)
    (cells : List Item) (ini R : Th) (y x : Val) (ins log : List Val) :
    ∃ n th', force D n (.fold .foreach upd ctx cells src false ini (.fInp cells.length y R)) ⟨x :: ins, log⟩ =
      some (.yield (.ok (g x y))
        (.fold .foreach upd ctx (cells ++ [.ok x]) .inputs false ini (.fInp (cells.length + 1) (g x y) (.fOut (cells.length + 1) x th' R))),
        ⟨ins, x :: log⟩) := by
  obtain ⟨n1, h1⟩ := hs ⟨x :: ins, log⟩ x ⟨ins, x :: log⟩ rfl
  obtain ⟨n2, th', h2, _⟩ := hU x y ⟨ins, x :: log⟩
  refine ⟨(n1 + n2 + 1) + 1, th', ?_⟩
  have hcell : cells[cells.length]? = none := by simp
  rw [force_succ]
  simp only [forceStep, hcell, force_mono_le h1 (by omega : n1 ≤ n1 + n2 + 1), foldCellS, Item.val?]
  simp only [Bool.false_eq_true, if_false]
  rw [force_succ]
  simp only [forceStep, force_mono_le h2 (by omega : n2 ≤ n1 + n2), foldOutS, Item.val?]

theorem foreach_inputs_ref_aux {upd ctx g} (hU : UpdFun D upd ctx g) (rest : List Val) :
    ∀ (ins : List Val) {src : Th}, IsInputs D src → ∀ (cells : List Item) (ini R : Th) (y : Val) (log : List Val),
      TakeS D ins.length (.fold .foreach upd ctx cells src false ini (.fInp cells.length y R)) ⟨ins ++ rest, log⟩
        ((scanG g y ins).map .ok) ⟨rest, ins.reverse ++ log⟩ := by
  intro ins
  induction ins with
  | nil => intro src _ cells ini R y log; exact .zero
  | cons x ins ih =>
    intro src hs cells ini R y log
    obtain ⟨n, th', hf⟩ := foreach_inputs_step hU hs cells ini R y x (ins ++ rest) log
    have := ih isInputs_inputs (cells ++ [.ok x]) ini (.fOut (cells.length + 1) x th' R) (g x y) (x :: log)
    simp only [List.length_append, List.length_cons, List.length_nil, Nat.zero_add] at this
    simp only [List.length_cons, scanG, List.map_cons, List.reverse_cons, List.append_assoc, List.cons_append,
      List.nil_append]
    exact .yield hf this

/-- the first output of a stream that steps to another one -/
theorem takeS_of_first {k : Nat} {th th0 : Th} {w xs w'} (h : TakeS D (k + 1) th w xs w')
    (hst : ∀ n r, force D n th w = some r → ∃ n', force D n' th0 w = some r) : TakeS D (k + 1) th0 w xs w' := by
  cases h with
  | done hf => obtain ⟨n', h'⟩ := hst _ _ hf; exact .done h'
  | yield hf hr => obtain ⟨n', h'⟩ := hst _ _ hf; exact .yield h' hr

/-- **reference run**: `foreach inputs as $x (s; upd)` delivers `k` outputs for the first `k`
inputs and leaves the rest — whatever it is — unread -/
theorem foreach_inputs_ref {upd ctx g} (hU : UpdFun D upd ctx g) (v s x : Val) (ins rest log : List Val) :
    TakeS D (ins.length + 1) (.run (.fold .foreach .inputs (.lit s) upd .id) ctx v) ⟨x :: ins ++ rest, log⟩
      ((scanG g s (x :: ins)).map .ok) ⟨rest, (x :: ins).reverse ++ log⟩ := by
  have h := foreach_inputs_ref_aux hU rest (x :: ins) (isInputs_run (D := D) ctx v) [] (.nil) .nil s log
  refine takeS_of_first h ?_
  intro n r hf
  refine ⟨n + 3, ?_⟩
  rw [force_succ]; simp only [forceStep]
  rw [force_succ]; simp only [forceStep]
  have : force D (n + 1) (.run (.lit s) ctx v) ⟨x :: ins ++ rest, log⟩ = some (.yield (.ok s) .nil, ⟨x :: ins ++ rest, log⟩) := by
    rw [force_succ]; rfl
  simp only [this, Item.val?]
  exact force_mono D _ _ _ _ hf

/-! ### `repeat(f)` as defined in `defs.jq`: `def repeat(f): def rec: f, rec; rec;` -/

/-- body of `rec` (the filter argument `f` of `repeat` is binding 0) -/
def repeatRec : T := .comma (.fvar 0) (.tcallA 0 0 [])
/-- body of `repeat(f)`: the call of `rec`, which catches the tail calls of `rec` to itself -/
def repeatBody : T := .callA .catch_ 0 0 []
/-- `repeat(f)` called where `skip` bindings are in scope (`CallType::Inline`) -/
def repeatCall (skip : Nat) (f : T) : T := .callA .inline 1 skip [(true, f)]

/-- the definitions table holds `rec` at 0 and `repeat` at 1 -/
def HasRepeat (D : List T) : Prop := D[0]? = some repeatRec ∧ D[1]? = some repeatBody

/-- the filter bound as closure `(t, e)` delivers `a` first, whatever the world, and is then over -/
def FirstOut (D : List T) (t : T) (e : List Bind) (L : Nat) (v : Val) (a : Item) : Prop :=
  ∀ w, ∃ n th', force D n (.run t ⟨e, L⟩ v) w = some (.yield a th', w) ∧ Dead D th'

section
variable {t : T} {e : List Bind} {L : Nat} {v : Val} {a : Item}

/-- the rest of `rec` after an output: what is left of `f` (nothing), then the tail call -/
def RepTh (D : List T) (t : T) (e : List Bind) (L : Nat) (v : Val) (th : Th) : Prop :=
  ∃ d, Dead D d ∧ th = .app d (.run (.tcallA 0 0 []) ⟨[.fn t e], L⟩ v)

theorem repeat_rec_first (hD : HasRepeat D) (hF : FirstOut D t e L v a) (w : World) :
    ∃ n th, force D n (.run repeatRec ⟨[.fn t e], L⟩ v) w = some (.yield a th, w) ∧ RepTh D t e L v th := by
  obtain ⟨n, th', h0, hd⟩ := hF w
  refine ⟨n + 3, _, ?_, th', hd, rfl⟩
  have h1 : force D (n + 1) (.run (.fvar 0) ⟨[.fn t e], L⟩ v) w = some (.yield a th', w) := by
    rw [force_succ]; simp only [forceStep, lookupFn, List.getElem?_cons_zero]; exact h0
  rw [force_succ]; simp only [forceStep, repeatRec]
  rw [force_succ]; simp only [forceStep, h1]

theorem repeat_tail (hD : HasRepeat D) (hF : FirstOut D t e L v a) {th : Th} (hth : RepTh D t e L v th) (w : World) :
    ∃ n th2, force D n th w = some (.yield a th2, w) ∧ RepTh D t e L v th2 := by
  obtain ⟨d, hd, rfl⟩ := hth
  obtain ⟨n, th2, h3, hth2⟩ := repeat_rec_first hD hF w
  obtain ⟨kd, hkd⟩ := hd w
  have hctx : callCtx ⟨[.fn t e], L⟩ 0 [] v = some ⟨[.fn t e], L⟩ := by simp [callCtx, bindArgs]
  have h4 : force D (n + 1) (.run (.callA .inline 0 0 []) ⟨[.fn t e], L⟩ v) w = some (.yield a th2, w) := by
    rw [force_succ]; simp only [forceStep, hctx, hD.1]; exact h3
  have h5 : force D (n + 2) (.app .nil (.run (.callA .inline 0 0 []) ⟨[.fn t e], L⟩ v)) w = some (.yield a th2, w) := by
    rw [force_succ]
    have : force D (n + 1) .nil w = some (.done, w) := force_mono_le (n := 1) rfl (by omega)
    simp only [forceStep, this, h4]
  have h6 : force D (n + 3) (.run (.tcallA 0 0 []) ⟨[.fn t e], L⟩ v) w = some (.yield a th2, w) := by
    rw [force_succ]; simp only [forceStep, hctx]; exact h5
  refine ⟨(n + 3 + kd) + 1, th2, ?_, hth2⟩
  rw [force_succ]
  simp only [forceStep, force_mono_le hkd (by omega : kd ≤ n + 3 + kd), force_mono_le h6 (by omega : n + 3 ≤ n + 3 + kd)]

theorem repeat_takeS (hD : HasRepeat D) (hF : FirstOut D t e L v a) (w : World) :
    ∀ (k : Nat) {th : Th}, RepTh D t e L v th → TakeS D k (.wrapC .stack th) w (List.replicate k a) w := by
  intro k
  induction k with
  | zero => intro th _; exact .zero
  | succ k ih =>
    intro th hth
    obtain ⟨n, th2, hf, hth2⟩ := repeat_tail hD hF hth w
    have : force D (n + 1) (.wrapC .stack th) w = some (.yield a (.wrapC .stack th2), w) := by
      rw [force_succ]; simp only [forceStep, Wr.ready, hf, Wr.step, if_true]
    exact .yield this (ih hth2)

/-- **reference run** of `repeat(f)` called from a context `c` (all of whose bindings are skipped):
any number of outputs, each after finite work, the world untouched -/
theorem repeat_ref (hD : HasRepeat D) {f : T} {c : Ctx} (hcl : mkClosure f c.env = .fn t e)
    (hF : FirstOut D t e c.labels v a) (w : World) (k : Nat) :
    TakeS D (k + 1) (.run (repeatCall c.env.length f) c v) w (List.replicate (k + 1) a) w := by
  obtain ⟨n, th, h3, hth⟩ := repeat_rec_first hD hF w
  have hctx : callCtx c c.env.length [(true, f)] v = some ⟨[.fn t e], c.labels⟩ := by
    simp [callCtx, bindArgs, hcl]
  have hctx1 : callCtx ⟨[.fn t e], c.labels⟩ 0 [] v = some ⟨[.fn t e], c.labels⟩ := by simp [callCtx, bindArgs]
  have h4 : force D (n + 1) (.wrapC .stack (.run repeatRec ⟨[.fn t e], c.labels⟩ v)) w = some (.yield a (.wrapC .stack th), w) := by
    rw [force_succ]; simp only [forceStep, Wr.ready, h3, Wr.step, if_true]
  have h5 : force D (n + 2) (.run repeatBody ⟨[.fn t e], c.labels⟩ v) w = some (.yield a (.wrapC .stack th), w) := by
    rw [force_succ]; simp only [forceStep, repeatBody, hctx1, hD.1]; exact h4
  have h6 : force D (n + 3) (.run (repeatCall c.env.length f) c v) w = some (.yield a (.wrapC .stack th), w) := by
    rw [force_succ]; simp only [forceStep, repeatCall, hctx, hD.2]; exact h5
  exact .yield h6 (repeat_takeS hD hF w k hth)

end

/-! ### `recurse(f)` as defined in `defs.jq`: `def recurse(f): def rec: ., (f | rec); rec;` -/

def recurseRec : T := .comma .id (.pipe (.fvar 0) (.tcallA 0 0 []))
def recurseBody : T := .callA .catch_ 0 0 []
def recurseCall (skip : Nat) (f : T) : T := .callA .inline 1 skip [(true, f)]
def HasRecurse (D : List T) : Prop := D[0]? = some recurseRec ∧ D[1]? = some recurseBody

/-- the filter bound as closure `(t, e)` computes the function `g` of its input: one output,
nothing else happens, whatever the world -/
def FunOut (D : List T) (t : T) (e : List Bind) (L : Nat) (g : Val → Val) : Prop :=
  ∀ u w, ∃ n th', force D n (.run t ⟨e, L⟩ u) w = some (.yield (.ok (g u)) th', w) ∧ Dead D th'

/-- `g u, g (g u), …` (`k` values) -/
def iterG (g : Val → Val) : Val → Nat → List Val
  | _, 0 => []
  | u, k + 1 => g u :: iterG g (g u) k

/-- what is left of `rec` on input `u` after it delivered `u`: `f | rec`, possibly followed by
finished rests of earlier rounds -/
inductive RecTh (D : List T) (t : T) (e : List Bind) (L : Nat) : Val → Th → Prop where
  | base (u : Val) : RecTh D t e L u (.app .nil (.run (.pipe (.fvar 0) (.tcallA 0 0 [])) ⟨[.fn t e], L⟩ u))
  | wrap {u th d} : RecTh D t e L u th → Dead D d → RecTh D t e L u (.app th d)

section
variable {t : T} {e : List Bind} {L : Nat} {g : Val → Val}

theorem recurse_rec_first (u : Val) (w : World) :
    force D 3 (.run recurseRec ⟨[.fn t e], L⟩ u) w =
      some (.yield (.ok u) (.app .nil (.run (.pipe (.fvar 0) (.tcallA 0 0 [])) ⟨[.fn t e], L⟩ u)), w) := by
  rw [force_succ]; simp only [forceStep, recurseRec]
  rw [force_succ]; simp only [forceStep]
  rw [force_succ]; simp only [forceStep]

theorem recurse_step (hD : HasRecurse D) (hF : FunOut D t e L g) {u : Val} {th : Th} (hth : RecTh D t e L u th) (w : World) :
    ∃ n th2, force D n th w = some (.yield (.ok (g u)) th2, w) ∧ RecTh D t e L (g u) th2 := by
  induction hth with
  | base =>
    obtain ⟨n, thd, h0, hd⟩ := hF u w
    let R : ForceRes := some (.yield (.ok (g u)) (.app .nil (.run (.pipe (.fvar 0) (.tcallA 0 0 [])) ⟨[.fn t e], L⟩ (g u))), w)
    let R2 : ForceRes := some (.yield (.ok (g u)) (.app (.app .nil (.run (.pipe (.fvar 0) (.tcallA 0 0 [])) ⟨[.fn t e], L⟩ (g u)))
          (.bind thd (.pipe (.tcallA 0 0 []) ⟨[.fn t e], L⟩))), w)
    have hctx : callCtx ⟨[.fn t e], L⟩ 0 [] (g u) = some ⟨[.fn t e], L⟩ := by simp [callCtx, bindArgs]
    have h1 : force D (n + 1) (.run (.fvar 0) ⟨[.fn t e], L⟩ u) w = some (.yield (.ok (g u)) thd, w) := by
      rw [force_succ]; simp only [forceStep, lookupFn, List.getElem?_cons_zero]; exact h0
    have h4 : force D 4 (.run (.callA .inline 0 0 []) ⟨[.fn t e], L⟩ (g u)) w = R := by
      rw [force_succ]; simp only [forceStep, hctx, hD.1]; exact recurse_rec_first (g u) w
    have h5 : force D 5 (.app .nil (.run (.callA .inline 0 0 []) ⟨[.fn t e], L⟩ (g u))) w = R := by
      rw [force_succ]
      have : force D 4 .nil w = some (.done, w) := rfl
      simp only [forceStep, this]; exact h4
    have h6 : force D 6 (.run (.tcallA 0 0 []) ⟨[.fn t e], L⟩ (g u)) w = R := by
      rw [force_succ]; simp only [forceStep, hctx]; exact h5
    have h7 : force D 7 (.app (.run (.tcallA 0 0 []) ⟨[.fn t e], L⟩ (g u)) (.bind thd (.pipe (.tcallA 0 0 []) ⟨[.fn t e], L⟩))) w = R2 := by
      rw [force_succ]; simp only [forceStep, h6, R, R2]
    have h8 : force D (n + 8) (.bind (.run (.fvar 0) ⟨[.fn t e], L⟩ u) (.pipe (.tcallA 0 0 []) ⟨[.fn t e], L⟩)) w = R2 := by
      rw [force_succ]
      simp only [forceStep, force_mono_le h1 (by omega : n + 1 ≤ n + 7), Item.val?, K.th, K.app]
      exact force_mono_le h7 (by omega)
    have h9 : force D (n + 9) (.run (.pipe (.fvar 0) (.tcallA 0 0 [])) ⟨[.fn t e], L⟩ u) w = R2 := by
      rw [force_succ]; simp only [forceStep]; exact h8
    refine ⟨n + 10, (.app (.app .nil (.run (.pipe (.fvar 0) (.tcallA 0 0 [])) ⟨[.fn t e], L⟩ (g u)))
          (.bind thd (.pipe (.tcallA 0 0 []) ⟨[.fn t e], L⟩))), ?_,
      RecTh.wrap (RecTh.base (g u)) (dead_bind (.pipe (.tcallA 0 0 []) ⟨[.fn t e], L⟩) hd)⟩
    rw [force_succ]
    have : force D (n + 9) .nil w = some (.done, w) := force_mono_le (n := 1) rfl (by omega)
    simp only [forceStep, this]; exact h9
  | wrap _ hd ih =>
    obtain ⟨n, th2, hf, hth2⟩ := ih
    exact ⟨n + 1, _, by rw [force_succ]; simp only [forceStep, hf], RecTh.wrap hth2 hd⟩

theorem recurse_takeS (hD : HasRecurse D) (hF : FunOut D t e L g) (w : World) :
    ∀ (k : Nat) {u : Val} {th : Th}, RecTh D t e L u th →
      TakeS D k (.wrapC .stack th) w ((iterG g u k).map .ok) w := by
  intro k
  induction k with
  | zero => intro u th _; exact .zero
  | succ k ih =>
    intro u th hth
    obtain ⟨n, th2, hf, hth2⟩ := recurse_step hD hF hth w
    have : force D (n + 1) (.wrapC .stack th) w = some (.yield (.ok (g u)) (.wrapC .stack th2), w) := by
      rw [force_succ]; simp only [forceStep, Wr.ready, hf, Wr.step, if_true]
    exact .yield this (ih hth2)

/-- **reference run** of `u | recurse(f)`: `u, g u, g (g u), …` — any number of outputs, each
after finite work, the world untouched -/
theorem recurse_ref (hD : HasRecurse D) {f : T} {c : Ctx} (hcl : mkClosure f c.env = .fn t e)
    (hF : FunOut D t e c.labels g) (u : Val) (w : World) (k : Nat) :
    TakeS D (k + 1) (.run (recurseCall c.env.length f) c u) w ((u :: iterG g u k).map .ok) w := by
  have hctx : callCtx c c.env.length [(true, f)] u = some ⟨[.fn t e], c.labels⟩ := by
    simp [callCtx, bindArgs, hcl]
  have hctx1 : callCtx ⟨[.fn t e], c.labels⟩ 0 [] u = some ⟨[.fn t e], c.labels⟩ := by simp [callCtx, bindArgs]
  let R : ForceRes := some (.yield (.ok u) (.wrapC .stack
    (.app .nil (.run (.pipe (.fvar 0) (.tcallA 0 0 [])) ⟨[.fn t e], c.labels⟩ u))), w)
  have h4 : force D 4 (.wrapC .stack (.run recurseRec ⟨[.fn t e], c.labels⟩ u)) w = R := by
    rw [force_succ]; simp only [forceStep, Wr.ready, recurse_rec_first (D := D) u w, Wr.step, if_true, R]
  have h5 : force D 5 (.run recurseBody ⟨[.fn t e], c.labels⟩ u) w = R := by
    rw [force_succ]; simp only [forceStep, recurseBody, hctx1, hD.1]; exact h4
  have h6 : force D 6 (.run (recurseCall c.env.length f) c u) w = R := by
    rw [force_succ]; simp only [forceStep, recurseCall, hctx, hD.2]; exact h5
  exact .yield h6 (recurse_takeS hD hF w k (RecTh.base u))

end

end Jaq.C03
