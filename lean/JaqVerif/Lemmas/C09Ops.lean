/-
  C09 (round 2) — the non-numeric operator laws of `+ * /` on `Val`:
  A. everything outside the listed operand shapes is an error (exact error value);
  B. object `*` is the recursive merge (fuel-free recursion equation for `objMergeF`);
  C. string `/` (split) has `join` as inverse, for every string and every separator.
  Theorems about the impl-model `Val/Arith.lean`.
-/
import JaqVerif.Val.Arith
import JaqVerif.Lemmas.C10Chars
import JaqVerif.C09.Consumers

namespace Jaq.C09
open Jaq

/-! ### A. everything else is an error -/

theorem add_else_errors_lem (l r : Val) (h0 : l ≠ .null) (h0' : r ≠ .null)
    (h1 : ∀ x y, ¬ (l = .num x ∧ r = .num y)) (h2 : ∀ x y, ¬ (l = .bstr x ∧ r = .bstr y))
    (h3 : ∀ x y, ¬ (l = .tstr x ∧ r = .tstr y)) (h4 : ∀ x y, ¬ (l = .arr x ∧ r = .arr y))
    (h5 : ∀ x y, ¬ (l = .obj x ∧ r = .obj y)) : Val.add l r = .error (.math l "+" r) := by
  cases l <;> cases r <;> simp_all [Val.add]

theorem div_else_errors_lem (l r : Val) (h1 : ∀ x y, ¬ (l = .num x ∧ r = .num y))
    (h2 : ∀ x y, ¬ (l = .tstr x ∧ r = .tstr y)) (h3 : ∀ x y, ¬ (l = .bstr x ∧ r = .bstr y)) :
    Val.div l r = .error (.math l "/" r) := by
  cases l <;> cases r <;> simp_all [Val.div]

theorem mul_else_errors_lem (l r : Val) (h1 : ∀ x y, ¬ (l = .num x ∧ r = .num y))
    (h2 : ∀ x y, ¬ (l = .obj x ∧ r = .obj y))
    (h3 : ∀ s n, ¬ (l = .tstr s ∧ r = .num n)) (h4 : ∀ s n, ¬ (l = .num n ∧ r = .tstr s))
    (h5 : ∀ s n, ¬ (l = .bstr s ∧ r = .num n)) (h6 : ∀ s n, ¬ (l = .num n ∧ r = .bstr s)) :
    Val.mul l r = .error (.math l "*" r) := by
  cases l <;> cases r <;> simp_all [Val.mul]

/-- a string times a non-integer number is an error too -/
theorem str_mul_nonint_errors_lem (s : List UInt8) (n : Num) (h : n.isInt = false) :
    (∃ e, Val.mul (.tstr s) (.num n) = .error e) ∧ (∃ e, Val.mul (.num n) (.tstr s) = .error e) ∧
    (∃ e, Val.mul (.bstr s) (.num n) = .error e) ∧ (∃ e, Val.mul (.num n) (.bstr s) = .error e) := by
  cases n <;> simp_all [Val.mul, Val.repCount, Num.isInt]

/-! ### B. object `*` is the recursive merge -/

/-- replace the value stored under the key equal to `k`, keeping key and position -/
def replaceAt (acc : Obj.Entries) (k v : Val) : Obj.Entries :=
  acc.map fun (k', v') => if Obj.sameKey k k' then (k', v) else (k', v')

/-- one step of `obj_merge`: `rec` is the recursive merge used for two object values -/
def mergeStep (rec : Obj.Entries → Obj.Entries → Obj.Entries) (acc : Obj.Entries) (kv : Val × Val) :
    Obj.Entries :=
  match Obj.get acc kv.1, kv.2 with
  | some (.obj lo), .obj ro => replaceAt acc kv.1 (.obj (rec lo ro))
  | some _, r => replaceAt acc kv.1 r
  | none, r => acc ++ [(kv.1, r)]

/-- the model's fuelled definition, with the inline step named -/
theorem objMergeF_succ (n : Nat) (l r : Obj.Entries) :
    objMergeF (n + 1) l r = r.foldl (mergeStep (objMergeF n)) l := by
  simp only [objMergeF]
  rfl

theorem foldl_congr_mem {α β : Type} (f g : β → α → β) (r : List α)
    (h : ∀ acc, ∀ x ∈ r, f acc x = g acc x) (l : β) : r.foldl f l = r.foldl g l := by
  induction r generalizing l with
  | nil => rfl
  | cons x xs ih =>
    simp only [List.foldl_cons]
    rw [h l x (List.mem_cons_self ..)]
    exact ih (fun acc y hy => h acc y (List.mem_cons_of_mem _ hy)) _

theorem mergeStep_congr (f g : Obj.Entries → Obj.Entries → Obj.Entries) (acc : Obj.Entries)
    (kv : Val × Val) (h : ∀ lo ro, kv.2 = .obj ro → f lo ro = g lo ro) :
    mergeStep f acc kv = mergeStep g acc kv := by
  obtain ⟨k, v⟩ := kv
  simp only [mergeStep]
  split
  · rename_i lo ro _
    rw [h lo ro rfl]
  · rfl
  · rfl

/-- fuel independence: any fuel above the size of the right operand gives the same result -/
theorem objMergeF_fuel (n m : Nat) (l r : Obj.Entries) (hn : Val.sizeEntries r < n)
    (hm : Val.sizeEntries r < m) : objMergeF n l r = objMergeF m l r := by
  induction n generalizing m l r with
  | zero => omega
  | succ n ih =>
    cases m with
    | zero => omega
    | succ m =>
      rw [objMergeF_succ, objMergeF_succ]
      apply foldl_congr_mem
      intro acc kv hkv
      apply mergeStep_congr
      intro lo ro hro
      obtain ⟨k, v⟩ := kv
      simp only at hro
      subst hro
      have := Val.size_entry_of_mem hkv
      have hs : Val.size (.obj ro) = 1 + Val.sizeEntries ro := by simp [Val.size]
      have hk := Val.size_pos k
      apply ih <;> omega

/-- the fuel-free recursion equation of `obj_merge` -/
theorem objMerge_eq_foldl (l r : Obj.Entries) : objMerge l r = r.foldl (mergeStep objMerge) l := by
  unfold objMerge
  rw [objMergeF_succ]
  apply foldl_congr_mem
  intro acc kv hkv
  apply mergeStep_congr
  intro lo ro hro
  obtain ⟨k, v⟩ := kv
  simp only at hro
  subst hro
  have := Val.size_entry_of_mem hkv
  have hs : Val.size (.obj ro) = 1 + Val.sizeEntries ro := by simp [Val.size]
  have hk := Val.size_pos k
  show objMergeF _ lo ro = objMergeF _ lo ro
  apply objMergeF_fuel <;> omega

/-- **object `*` merges recursively**: the right entries are folded in order into the left object; a key
present on both sides with object values is merged recursively *in place*, any other key present on the left
is overwritten in place, a new key is appended -/
theorem obj_mul_recursive_merge_lem (l r : Obj.Entries) :
    Val.mul (.obj l) (.obj r) = .ok (.obj (r.foldl (mergeStep objMerge) l)) := by
  rw [← objMerge_eq_foldl]
  rfl

theorem objMerge_nil (l : Obj.Entries) : objMerge l [] = l := by
  rw [objMerge_eq_foldl]; rfl

theorem objMerge_cons (l : Obj.Entries) (kv : Val × Val) (r : Obj.Entries) :
    objMerge l (kv :: r) = r.foldl (mergeStep objMerge) (mergeStep objMerge l kv) := by
  rw [objMerge_eq_foldl]; rfl

theorem objMerge_append (l r₁ r₂ : Obj.Entries) :
    r₂.foldl (mergeStep objMerge) (objMerge l r₁) = (r₁ ++ r₂).foldl (mergeStep objMerge) l := by
  rw [objMerge_eq_foldl, List.foldl_append]

/-- a key absent on the left is appended -/
theorem objMerge_absent (l : Obj.Entries) (k v : Val) (h : Obj.get l k = none) :
    objMerge l [(k, v)] = l ++ [(k, v)] := by
  rw [objMerge_eq_foldl]
  simp only [List.foldl_cons, List.foldl_nil, mergeStep, h]

/-- a key present on both sides with object values: recursive merge, in place -/
theorem objMerge_both_obj (l : Obj.Entries) (k : Val) (lo ro : Obj.Entries)
    (h : Obj.get l k = some (.obj lo)) :
    objMerge l [(k, .obj ro)] = replaceAt l k (.obj (objMerge lo ro)) := by
  rw [objMerge_eq_foldl]
  simp only [List.foldl_cons, List.foldl_nil, mergeStep, h]

/-- a key present on the left with a non-object value: overwritten in place -/
theorem objMerge_left_nonobj (l : Obj.Entries) (k v x : Val) (h : Obj.get l k = some x)
    (hx : ∀ lo, x ≠ .obj lo) : objMerge l [(k, v)] = replaceAt l k v := by
  rw [objMerge_eq_foldl]
  simp only [List.foldl_cons, List.foldl_nil, mergeStep, h]
  split
  · rename_i heq; cases heq; exact absurd rfl (hx _)
  · rfl
  · rename_i heq; cases heq

/-- a key present on the left, non-object on the right: overwritten in place -/
theorem objMerge_right_nonobj (l : Obj.Entries) (k v x : Val) (h : Obj.get l k = some x)
    (hv : ∀ ro, v ≠ .obj ro) : objMerge l [(k, v)] = replaceAt l k v := by
  rw [objMerge_eq_foldl]
  simp only [List.foldl_cons, List.foldl_nil, mergeStep, h]
  split
  · exact absurd rfl (hv _)
  · rfl
  · rename_i heq; cases heq

/-- `replaceAt` is `IndexMap::insert` on a present key -/
theorem insert_of_has (o : Obj.Entries) (k v : Val) (h : Obj.has o k = true) :
    Obj.insert o k v = replaceAt o k v := by
  simp only [Obj.insert, h, if_true, replaceAt]

/-- the merge keeps the left keys at their positions -/
theorem replaceAt_keys (acc : Obj.Entries) (k v : Val) : (replaceAt acc k v).map (·.1) = acc.map (·.1) := by
  simp only [replaceAt, List.map_map]
  congr 1
  funext kv
  obtain ⟨k', v'⟩ := kv
  simp only [Function.comp]
  split <;> rfl

/-! ### C. string `/` and `join` (`joinBytes` is defined in `JaqVerif/C09/Consumers.lean`) -/

theorem foldl_append_flatten {α : Type} (xs : List (List α)) (init : List α) :
    xs.foldl (· ++ ·) init = init ++ xs.flatten := by
  induction xs generalizing init with
  | nil => simp
  | cons x xs ih => simp [ih]

/-- `reduce .[] as $x (""; . + $x)` is concatenation -/
theorem joinBytes_eq_flatten (sep : List UInt8) (parts : List (List UInt8)) :
    joinBytes sep parts =
      ((parts.dropLast.map (· ++ sep)) ++ (parts.drop (parts.length - 1))).flatten := by
  simp [joinBytes, foldl_append_flatten]

theorem joinBytes_nil (sep : List UInt8) : joinBytes sep [] = [] := by
  simp [joinBytes_eq_flatten]

theorem joinBytes_single (sep p : List UInt8) : joinBytes sep [p] = p := by
  simp [joinBytes_eq_flatten]

/-- recursive characterisation of `join` -/
theorem joinBytes_cons_cons (sep p q : List UInt8) (ps : List (List UInt8)) :
    joinBytes sep (p :: q :: ps) = p ++ sep ++ joinBytes sep (q :: ps) := by
  simp [joinBytes_eq_flatten]

theorem joinBytes_cons_of_ne_nil (sep p : List UInt8) {ps : List (List UInt8)} (h : ps ≠ []) :
    joinBytes sep (p :: ps) = p ++ sep ++ joinBytes sep ps := by
  cases ps with
  | nil => exact absurd rfl h
  | cons q ps => exact joinBytes_cons_cons sep p q ps

theorem joinBytes_eq_intercalate (sep : List UInt8) (parts : List (List UInt8)) :
    joinBytes sep parts = List.intercalate sep parts := by
  match parts with
  | [] => simp [joinBytes_nil, List.intercalate]
  | [p] => simp [joinBytes_single, List.intercalate]
  | p :: q :: ps =>
    rw [joinBytes_cons_cons, joinBytes_eq_intercalate sep (q :: ps)]
    simp [List.intercalate]

/-- with the empty separator `join` is plain concatenation -/
theorem joinBytes_empty_sep (parts : List (List UInt8)) : joinBytes [] parts = parts.flatten := by
  match parts with
  | [] => exact joinBytes_nil []
  | [p] => simp [joinBytes_single]
  | p :: q :: ps =>
    rw [joinBytes_cons_cons, joinBytes_empty_sep (q :: ps)]
    simp

/-- `split_str` always yields at least one part -/
theorem splitStrF_ne_nil (sep : List UInt8) (n : Nat) (cur s : List UInt8) :
    splitStrF sep n cur s ≠ [] := by
  induction n generalizing cur s with
  | zero => simp [splitStrF]
  | succ n ih =>
    cases s with
    | nil => simp [splitStrF]
    | cons b rest =>
      simp only [splitStrF]
      split
      · simp
      · exact ih _ _

theorem isPrefix_append_drop {sep s : List UInt8} (h : isPrefix sep s = true) :
    sep ++ s.drop sep.length = s := by
  unfold isPrefix at h
  exact List.prefix_iff_eq_append.mp (List.isPrefixOf_iff_prefix.mp h)

/-- invariant of `split_str` for a non-empty separator: joining the parts gives back the pending part
followed by the rest of the input (each step consumes at least one byte, so fuel `> s.length` suffices) -/
theorem join_splitStrF (sep : List UInt8) (hsep : sep ≠ []) (n : Nat) (cur s : List UInt8)
    (hn : s.length < n) : joinBytes sep (splitStrF sep n cur s) = cur.reverse ++ s := by
  induction n generalizing cur s with
  | zero => omega
  | succ n ih =>
    cases s with
    | nil => simp [splitStrF, joinBytes_single]
    | cons b rest =>
      simp only [splitStrF]
      split
      · rename_i hp
        rw [joinBytes_cons_of_ne_nil _ _ (splitStrF_ne_nil _ _ _ _)]
        have hlen : 0 < sep.length := List.length_pos_iff.mpr hsep
        rw [ih [] _ (by simp only [List.length_drop, List.length_cons] at hn ⊢; omega)]
        simp only [List.reverse_nil, List.nil_append, List.append_assoc]
        rw [isPrefix_append_drop hp]
      · rw [ih (b :: cur) rest (by simp only [List.length_cons] at hn; omega)]
        simp

/-- the empty string splits into no parts (`"" / s = []`) -/
theorem splitBytes_nil (sep : List UInt8) : splitBytes [] sep = [] := by
  simp [splitBytes]

/-- the empty separator splits a non-empty string into its characters -/
theorem splitBytes_empty_sep (s : List UInt8) (hs : s ≠ []) : splitBytes s [] = Utf8.chars s := by
  cases s with
  | nil => exact absurd rfl hs
  | cons b rest => simp [splitBytes]

theorem splitBytes_nonempty_sep (s sep : List UInt8) (hs : s ≠ []) (hsep : sep ≠ []) :
    splitBytes s sep = splitStrF sep (s.length + 1) [] s := by
  cases s with
  | nil => exact absurd rfl hs
  | cons b rest =>
    cases sep with
    | nil => exact absurd rfl hsep
    | cons c sep' => simp [splitBytes]

/-- non-empty string, non-empty separator: at least one part -/
theorem splitBytes_ne_nil (s sep : List UInt8) (hs : s ≠ []) (hsep : sep ≠ []) :
    splitBytes s sep ≠ [] := by
  rw [splitBytes_nonempty_sep s sep hs hsep]
  exact splitStrF_ne_nil _ _ _ _

/-- **`join` is the inverse of string `/`** for every string and every separator (also the empty separator: the
parts are then the characters; also the empty string: no parts, and `[] | join(s) = ""`) -/
theorem join_split_inverse_lem (s sep : List UInt8) : joinBytes sep (splitBytes s sep) = s := by
  by_cases hs : s = []
  · subst hs; rw [splitBytes_nil, joinBytes_nil]
  · by_cases hsep : sep = []
    · subst hsep
      rw [splitBytes_empty_sep s hs, joinBytes_empty_sep, C10.chars_flatten]
    · rw [splitBytes_nonempty_sep s sep hs hsep, join_splitStrF sep hsep _ _ _ (Nat.lt_succ_self _)]
      simp

/-- in terms of the operator: `(s / sep)` is an array of text strings whose `join(sep)` is `s` -/
theorem div_join_inverse_lem (s sep : List UInt8) :
    Val.div (.tstr s) (.tstr sep) = .ok (.arr ((splitBytes s sep).map .tstr)) ∧
    joinBytes sep (splitBytes s sep) = s := ⟨rfl, join_split_inverse_lem s sep⟩

/-! #### a non-empty separator does not occur inside any part -/

theorem isPrefix_nil_right {sep : List UInt8} (hsep : sep ≠ []) : isPrefix sep [] = false := by
  cases sep with
  | nil => exact absurd rfl hsep
  | cons c sep' => rfl

theorem isPrefix_of_append {sep a s : List UInt8} (h : isPrefix sep (a ++ s) = false) :
    isPrefix sep a = false := by
  cases h' : isPrefix sep a with
  | false => rfl
  | true =>
    unfold isPrefix at h h'
    have hp : sep <+: a := List.isPrefixOf_iff_prefix.mp h'
    have : sep <+: a ++ s := hp.trans (List.prefix_append a s)
    rw [List.isPrefixOf_iff_prefix.mpr this] at h
    cases h

/-- invariant: if no occurrence of `sep` starts inside the pending part, none occurs in any produced part -/
theorem splitStrF_no_sep (sep : List UInt8) (hsep : sep ≠ []) (n : Nat) (cur s : List UInt8)
    (hn : s.length < n)
    (hcur : ∀ i, i < cur.length → isPrefix sep ((cur.reverse ++ s).drop i) = false) :
    ∀ p ∈ splitStrF sep n cur s, ∀ i, isPrefix sep (p.drop i) = false := by
  induction n generalizing cur s with
  | zero => omega
  | succ n ih =>
    have hpart : ∀ i, isPrefix sep (cur.reverse.drop i) = false := by
      intro i
      by_cases hi : i < cur.length
      · have := hcur i hi
        rw [List.drop_append_of_le_length (by simp only [List.length_reverse]; omega)] at this
        exact isPrefix_of_append this
      · rw [List.drop_eq_nil_of_le (by simp only [List.length_reverse]; omega)]
        exact isPrefix_nil_right hsep
    cases s with
    | nil =>
      intro p hp i
      simp only [splitStrF, List.mem_singleton] at hp
      subst hp
      exact hpart i
    | cons b rest =>
      simp only [splitStrF]
      split
      · intro p hp i
        rcases List.mem_cons.mp hp with rfl | hp
        · exact hpart i
        · have hlen : 0 < sep.length := List.length_pos_iff.mpr hsep
          refine ih [] _ ?_ ?_ p hp i
          · simp only [List.length_drop, List.length_cons] at hn ⊢; omega
          · intro i hi; simp only [List.length_nil] at hi; omega
      · rename_i hnp
        refine ih (b :: cur) rest (by simp only [List.length_cons] at hn; omega) ?_
        intro i hi
        have heq : (b :: cur).reverse ++ rest = cur.reverse ++ b :: rest := by simp
        rw [heq]
        by_cases hi' : i < cur.length
        · exact hcur i hi'
        · have : i = cur.reverse.length := by
            simp only [List.length_cons, List.length_reverse] at hi ⊢; omega
          rw [this, List.drop_left]
          simpa using hnp

/-- **no part of `s / sep` contains the (non-empty) separator**: at no offset of a part does `sep` start -/
theorem split_parts_no_sep (s sep : List UInt8) (hsep : sep ≠ []) :
    ∀ p ∈ splitBytes s sep, ∀ i, isPrefix sep (p.drop i) = false := by
  by_cases hs : s = []
  · subst hs; rw [splitBytes_nil]; intro p hp; cases hp
  · rw [splitBytes_nonempty_sep s sep hs hsep]
    apply splitStrF_no_sep sep hsep _ _ _ (Nat.lt_succ_self _)
    intro i hi; simp only [List.length_nil] at hi; omega

/-- … in terms of the infix relation -/
theorem split_parts_not_infix_lem (s sep : List UInt8) (hsep : sep ≠ []) :
    ∀ p ∈ splitBytes s sep, ¬ sep <:+: p := by
  intro p hp ⟨a, c, hac⟩
  have h := split_parts_no_sep s sep hsep p hp a.length
  rw [← hac, List.append_assoc, List.drop_left] at h
  unfold isPrefix at h
  rw [List.isPrefixOf_iff_prefix.mpr (List.prefix_append sep c)] at h
  cases h

end Jaq.C09
