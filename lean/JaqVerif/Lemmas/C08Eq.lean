/-
  C08 helper lemmas, part 7 (round 2): `==` (`impl PartialEq for Val`, with `IndexMap`'s equality
  on objects) agrees with `Ord` saying `Equal`, and values that are `==` make the same `Hasher`
  calls — for values of every size and depth, by simultaneous induction on the size.
-/
import JaqVerif.Lemmas.C08EqNum
import JaqVerif.Lemmas.C08List
import JaqVerif.Lemmas.C08Val

namespace Jaq.C08
open Jaq

/-! ### small list facts -/

theorem all_congr' {α : Type} {f g : α → Bool} : ∀ {l : List α}, (∀ x ∈ l, f x = g x) → l.all f = l.all g
  | [], _ => rfl
  | a :: as, h => by
    simp only [List.all_cons, h a (by simp), all_congr' (l := as) (fun x hx => h x (by simp [hx]))]

theorem any_congr' {α : Type} {f g : α → Bool} : ∀ {l : List α}, (∀ x ∈ l, f x = g x) → l.any f = l.any g
  | [], _ => rfl
  | a :: as, h => by
    simp only [List.any_cons, h a (by simp), any_congr' (l := as) (fun x hx => h x (by simp [hx]))]

theorem flatMap_congr' {α β : Type} {f g : α → List β} :
    ∀ {l : List α}, (∀ x ∈ l, f x = g x) → l.flatMap f = l.flatMap g
  | [], _ => rfl
  | a :: as, h => by
    simp only [List.flatMap_cons, h a (by simp), flatMap_congr' (l := as) (fun x hx => h x (by simp [hx]))]

theorem findIdx?_congr' {α : Type} {f g : α → Bool} :
    ∀ {l : List α}, (∀ x ∈ l, f x = g x) → l.findIdx? f = l.findIdx? g
  | [], _ => rfl
  | a :: as, h => by
    simp only [List.findIdx?_cons, h a (by simp), findIdx?_congr' (l := as) (fun x hx => h x (by simp [hx]))]

/-! ### the predicates on objects -/

theorem allObjsL_iff {p : Entries → Bool} : ∀ {a : List Val}, allObjsL p a = true ↔ ∀ v ∈ a, allObjs p v = true
  | [] => by simp [allObjsL]
  | v :: vs => by simp [allObjsL, allObjsL_iff (a := vs)]

theorem allObjsE_iff {p : Entries → Bool} :
    ∀ {o : List (Val × Val)}, allObjsE p o = true ↔ ∀ e ∈ o, allObjs p e.1 = true ∧ allObjs p e.2 = true
  | [] => by simp [allObjsE]
  | (k, v) :: es => by simp [allObjsE, allObjsE_iff (o := es), and_assoc]

theorem allObjs_arr {p : Entries → Bool} {a : List Val} :
    allObjs p (.arr a) = true ↔ ∀ v ∈ a, allObjs p v = true := by
  rw [allObjs]; exact allObjsL_iff

theorem allObjs_obj {p : Entries → Bool} {o : List (Val × Val)} :
    allObjs p (.obj o) = true ↔ p o = true ∧ ∀ e ∈ o, allObjs p e.1 = true ∧ allObjs p e.2 = true := by
  rw [allObjs, Bool.and_eq_true, allObjsE_iff]

theorem distinctKeys_iff : ∀ {o : Entries}, distinctKeys o = true ↔ o.Pairwise (fun p q => cmp p.1 q.1 ≠ .eq)
  | [] => by simp [distinctKeys]
  | p :: ps => by
    simp only [distinctKeys, Bool.and_eq_true, List.all_eq_true, bne_iff_ne, ne_eq, List.pairwise_cons,
      distinctKeys_iff (o := ps)]

/-- the order on the domain of mode `m` -/
theorem valTPO (m : Mode) : TPO (fun v => InDom m v = true) cmp := cmp_tpo (numCmp_tpo m)

theorem keyTPO (m : Mode) : TPO (fun e : Val × Val => InDom m e.1 = true) (keyCmp cmp) :=
  (valTPO m).comap Prod.fst

/-- the hypotheses of the theorems about `==` and hashing, for one value: in the domain of the
order (mode `m`), every object inside it has pairwise non-equivalent keys, and no negative zero
unless `Num::hash` normalises it -/
structure Good (m : Mode) (v : Val) : Prop where
  dom : InDom m v = true
  keys : WfKeys v = true
  nz : NoNegZero v = true

theorem Good.arr {m : Mode} {a : List Val} (h : Good m (.arr a)) : ∀ v ∈ a, Good m v := fun v hv =>
  ⟨allNums_arr.1 h.dom v hv, allObjs_arr.1 h.keys v hv, allNums_arr.1 h.nz v hv⟩

theorem Good.of_arr {m : Mode} {a : List Val} (h : ∀ v ∈ a, Good m v) : Good m (.arr a) :=
  ⟨allNums_arr.2 fun v hv => (h v hv).dom, allObjs_arr.2 fun v hv => (h v hv).keys,
   allNums_arr.2 fun v hv => (h v hv).nz⟩

theorem Good.obj {m : Mode} {o : Entries} (h : Good m (.obj o)) : ∀ e ∈ o, Good m e.1 ∧ Good m e.2 := fun e he =>
  ⟨⟨(allNums_obj.1 h.dom e he).1, ((allObjs_obj.1 h.keys).2 e he).1, (allNums_obj.1 h.nz e he).1⟩,
   ⟨(allNums_obj.1 h.dom e he).2, ((allObjs_obj.1 h.keys).2 e he).2, (allNums_obj.1 h.nz e he).2⟩⟩

theorem Good.distinct {m : Mode} {o : Entries} (h : Good m (.obj o)) : Distinct (keyCmp cmp) o := by
  have h1 := distinctKeys_iff.1 (allObjs_obj.1 h.keys).1
  refine List.Pairwise.imp_of_mem ?_ h1
  intro p q hp hq hpq
  refine ⟨hpq, ?_⟩
  have := ((keyTPO m).eq_iff (a := p) (b := q) (h.obj p hp).1.dom (h.obj q hq).1.dom)
  intro hc; exact hpq (this.2 hc)

theorem Good.of_obj {m : Mode} {o : Entries} (h : ∀ e ∈ o, Good m e.1 ∧ Good m e.2)
    (hd : o.Pairwise (fun p q => cmp p.1 q.1 ≠ .eq)) : Good m (.obj o) :=
  ⟨allNums_obj.2 fun e he => ⟨(h e he).1.dom, (h e he).2.dom⟩,
   allObjs_obj.2 ⟨distinctKeys_iff.2 hd, fun e he => ⟨(h e he).1.keys, (h e he).2.keys⟩⟩,
   allNums_obj.2 fun e he => ⟨(h e he).1.nz, (h e he).2.nz⟩⟩

theorem distinct_unique {α : Type} {c : α → α → Ordering} :
    ∀ {l : List α}, Distinct c l → ∀ a ∈ l, ∀ b ∈ l, c a b = .eq → a = b
  | [], _, _, ha, _, _, _ => by cases ha
  | x :: xs, hd, a, ha, b, hb, hab => by
    simp only [Distinct, List.pairwise_cons] at hd
    rcases List.mem_cons.1 ha with ha' | ha' <;> rcases List.mem_cons.1 hb with hb' | hb'
    · rw [ha', hb']
    · subst ha'; exact absurd hab (hd.1 b hb').1
    · subst hb'; exact absurd hab (hd.1 a ha').2
    · exact distinct_unique hd.2 a ha' b hb' hab

/-! ### equations of `eqF` and independence of the fuel -/

theorem eqF_arr (n : Nat) (x y : List Val) : eqF (n + 1) (.arr x) (.arr y) = eqList (eqF n) x y := rfl
theorem eqF_obj (n : Nat) (x y : Entries) : eqF (n + 1) (.obj x) (.obj y) = eqObj (eqF n) x y := rfl

theorem eqF_str (n : Nat) {a b : Val} {x y : List UInt8} (ha : str? a = some x) (hb : str? b = some y) :
    eqF (n + 1) a b = (x == y) := by
  cases a <;> cases b <;> simp_all [str?, eqF]

theorem eqF_rank_ne (n : Nat) {a b : Val} (h : a.rank ≠ b.rank) : eqF (n + 1) a b = false := by
  cases a <;> cases b <;> simp_all [Val.rank, eqF]

theorem eqList_congr {e e' : Val → Val → Bool} :
    ∀ (x y : List Val), (∀ a ∈ x, ∀ b ∈ y, e a b = e' a b) → eqList e x y = eqList e' x y
  | [], [], _ => rfl
  | [], _ :: _, _ => rfl
  | _ :: _, [], _ => rfl
  | a :: as, b :: bs, h => by
    simp only [eqList, h a (by simp) b (by simp),
      eqList_congr as bs (fun p hp q hq => h p (by simp [hp]) q (by simp [hq]))]

theorem getIdx_congr {e e' : Val → Val → Bool} (o : Entries) (k : Val)
    (h : ∀ q ∈ o, e k q.1 = e' k q.1) : getIdx e o k = getIdx e' o k := by
  match o with
  | [] => rfl
  | [p] => simp only [getIdx, h p (by simp)]
  | p :: q :: r =>
    simp only [getIdx]
    apply findIdx?_congr'
    intro x hx
    simp only [probe, h x hx]

theorem eqObj_congr {e e' : Val → Val → Bool} (x y : Entries)
    (h : ∀ a b : Val, (∃ p ∈ x, a = p.1 ∨ a = p.2) → (∃ q ∈ y, b = q.1 ∨ b = q.2) → e a b = e' a b) :
    eqObj e x y = eqObj e' x y := by
  unfold eqObj
  congr 1
  apply all_congr'
  intro p hp
  have hk : getWith e y p.1 = getWith e' y p.1 := by
    unfold getWith
    rw [getIdx_congr y p.1 (fun q hq => h _ _ ⟨p, hp, Or.inl rfl⟩ ⟨q, hq, Or.inl rfl⟩)]
  rw [hk]
  cases hg : getWith e' y p.1 with
  | none => rfl
  | some v' =>
    -- the value found is a value of `y`
    have hv : ∃ q ∈ y, v' = q.2 := by
      unfold getWith at hg
      cases hi : getIdx e' y p.1 with
      | none => rw [hi] at hg; cases hg
      | some i =>
        rw [hi] at hg
        simp only [Option.map_eq_some_iff] at hg
        obtain ⟨q, hq, rfl⟩ := hg
        exact ⟨q, List.mem_of_getElem? hq, rfl⟩
    obtain ⟨q, hq, rfl⟩ := hv
    exact h _ _ ⟨p, hp, Or.inr rfl⟩ ⟨q, hq, Or.inr rfl⟩

/-- more fuel than the sizes does not change `==` -/
theorem eqF_fuel : ∀ (n : Nat) (a b : Val), a.size ≤ n → b.size ≤ n →
    ∀ m, n ≤ m → eqF m a b = eqF n a b
  | 0, a, _, ha, _, _, _ => by have := a.size_pos; omega
  | n + 1, a, b, ha, hb, m, hm => by
    obtain ⟨m, rfl⟩ : ∃ k, m = k + 1 := ⟨m - 1, by omega⟩
    have ih := eqF_fuel n
    by_cases hr : a.rank = b.rank
    · rcases same_rank_cases hr with ⟨rfl, rfl⟩ | ⟨x, y, rfl, rfl⟩ | ⟨x, y, rfl, rfl⟩ | ⟨x, y, hx, hy⟩ |
        ⟨x, y, rfl, rfl⟩ | ⟨x, y, rfl, rfl⟩
      · rfl
      · rfl
      · rfl
      · rw [eqF_str m hx hy, eqF_str n hx hy]
      · rw [eqF_arr, eqF_arr]
        apply eqList_congr
        intro u hu v hv
        have := Val.size_lt_of_mem hu
        have := Val.size_lt_of_mem hv
        simp only [Val.size] at ha hb
        exact ih u v (by omega) (by omega) m (by omega)
      · rw [eqF_obj, eqF_obj]
        apply eqObj_congr
        intro u v ⟨p, hp, hu⟩ ⟨q, hq, hv⟩
        simp only [Val.size] at ha hb
        have := Val.size_entry_of_mem (k := p.1) (v := p.2) hp
        have := Val.size_entry_of_mem (k := q.1) (v := q.2) hq
        have := p.1.size_pos; have := p.2.size_pos; have := q.1.size_pos; have := q.2.size_pos
        refine ih u v ?_ ?_ m (by omega)
        · rcases hu with rfl | rfl <;> omega
        · rcases hv with rfl | rfl <;> omega
    · rw [eqF_rank_ne m hr, eqF_rank_ne n hr]

theorem eq_eq_eqF (a b : Val) (n : Nat) (ha : a.size ≤ n) (hb : b.size ≤ n) : eq a b = eqF n a b := by
  unfold eq
  by_cases h : a.size + b.size ≤ n
  · exact (eqF_fuel (a.size + b.size) a b (by omega) (by omega) n h).symm
  · exact eqF_fuel n a b ha hb (a.size + b.size) (by omega)

/-! ### `eq` unfolded one level (fuel-free equations) -/

theorem eq_arr (x y : List Val) : eq (.arr x) (.arr y) = eqList eq x y := by
  obtain ⟨n, hn⟩ : ∃ n, (Val.arr x).size + (Val.arr y).size = n + 1 :=
    ⟨(Val.arr x).size + (Val.arr y).size - 1, by simp only [Val.size]; omega⟩
  rw [eq, hn, eqF_arr]
  apply eqList_congr
  intro a ha b hb
  have := Val.size_lt_of_mem ha
  have := Val.size_lt_of_mem hb
  simp only [Val.size] at hn
  exact (eq_eq_eqF a b n (by omega) (by omega)).symm

theorem eq_obj (x y : Entries) : eq (.obj x) (.obj y) = eqObj eq x y := by
  obtain ⟨n, hn⟩ : ∃ n, (Val.obj x).size + (Val.obj y).size = n + 1 :=
    ⟨(Val.obj x).size + (Val.obj y).size - 1, by simp only [Val.size]; omega⟩
  rw [eq, hn, eqF_obj]
  apply eqObj_congr
  intro u v ⟨p, hp, hu⟩ ⟨q, hq, hv⟩
  simp only [Val.size] at hn
  have := Val.size_entry_of_mem (k := p.1) (v := p.2) hp
  have := Val.size_entry_of_mem (k := q.1) (v := q.2) hq
  have := p.1.size_pos; have := p.2.size_pos; have := q.1.size_pos; have := q.2.size_pos
  refine (eq_eq_eqF u v n ?_ ?_).symm
  · rcases hu with rfl | rfl <;> omega
  · rcases hv with rfl | rfl <;> omega

theorem eq_str {a b : Val} {x y : List UInt8} (ha : str? a = some x) (hb : str? b = some y) :
    eq a b = (x == y) := by
  obtain ⟨n, hn⟩ : ∃ n, a.size + b.size = n + 1 := ⟨a.size + b.size - 1, by have := a.size_pos; omega⟩
  rw [eq, hn, eqF_str n ha hb]

theorem eq_rank_ne {a b : Val} (h : a.rank ≠ b.rank) : eq a b = false := by
  obtain ⟨n, hn⟩ : ∃ n, a.size + b.size = n + 1 := ⟨a.size + b.size - 1, by have := a.size_pos; omega⟩
  rw [eq, hn, eqF_rank_ne n h]

theorem eq_num (x y : Num) : eq (.num x) (.num y) = Num.eq x y := rfl
theorem eq_bool (x y : Bool) : eq (.bool x) (.bool y) = (x == y) := rfl

/-! ### `feed`: independence of the fuel, fuel-free equations -/

theorem feedF_fuel : ∀ (n : Nat) (v : Val), v.size ≤ n → ∀ m, n ≤ m → feedF m v = feedF n v
  | 0, v, hv, _, _ => by have := v.size_pos; omega
  | n + 1, v, hv, m, hm => by
    obtain ⟨m, rfl⟩ : ∃ k, m = k + 1 := ⟨m - 1, by omega⟩
    have ih := feedF_fuel n
    cases v with
    | null => rfl
    | bool => rfl
    | num => rfl
    | bstr => rfl
    | tstr => rfl
    | arr a =>
      simp only [feedF]
      congr 2
      apply flatMap_congr'
      intro x hx
      have := Val.size_lt_of_mem hx
      simp only [Val.size] at hv
      exact ih x (by omega) m (by omega)
    | obj o =>
      simp only [feedF]
      congr 1
      apply flatMap_congr'
      intro p hp
      have hp' : p ∈ o := mem_sortBy.1 hp
      have := Val.size_entry_of_mem (k := p.1) (v := p.2) hp'
      have := p.1.size_pos; have := p.2.size_pos
      simp only [Val.size] at hv
      rw [ih p.1 (by omega) m (by omega), ih p.2 (by omega) m (by omega)]

theorem feed_eq_feedF (v : Val) (n : Nat) (h : v.size ≤ n) : feed v = feedF n v :=
  (feedF_fuel v.size v (Nat.le_refl _) n h).symm

theorem feed_arr (a : List Val) : feed (.arr a) = .u8 6 :: .len a.length :: a.flatMap feed := by
  obtain ⟨n, hn⟩ : ∃ n, (Val.arr a).size = n + 1 := ⟨(Val.arr a).size - 1, by simp only [Val.size]; omega⟩
  rw [feed, hn]
  simp only [feedF]
  congr 2
  apply flatMap_congr'
  intro x hx
  have := Val.size_lt_of_mem hx
  simp only [Val.size] at hn
  exact (feed_eq_feedF x n (by omega)).symm

theorem feed_obj (o : Entries) :
    feed (.obj o) = .u8 7 :: (sortedEntries o).flatMap fun p => feed p.1 ++ feed p.2 := by
  obtain ⟨n, hn⟩ : ∃ n, (Val.obj o).size = n + 1 := ⟨(Val.obj o).size - 1, by simp only [Val.size]; omega⟩
  rw [feed, hn]
  simp only [feedF]
  congr 1
  apply flatMap_congr'
  intro p hp
  have hp' : p ∈ o := mem_sortBy.1 hp
  have := Val.size_entry_of_mem (k := p.1) (v := p.2) hp'
  have := p.1.size_pos; have := p.2.size_pos
  simp only [Val.size] at hn
  rw [feed_eq_feedF p.1 n (by omega), feed_eq_feedF p.2 n (by omega)]

theorem feed_str {a : Val} {x : List UInt8} (ha : str? a = some x) :
    feed a = [.u8 5, .len x.length, .bytes x] := by
  cases a <;> simp_all [str?, feed, feedF, Val.size]

theorem feed_num (x : Num) : feed (.num x) = numFeed x := rfl

/-! ### look-up in an entry list -/

theorem getIdx_some {e : Val → Val → Bool} {y : Entries} {k : Val} {i : Nat} (h : getIdx e y k = some i) :
    ∃ hlt : i < y.length, e k (y[i]).1 = true := by
  match y, h with
  | [], h => simp [getIdx] at h
  | [p], h =>
    simp only [getIdx] at h
    by_cases he : e k p.1 = true
    · simp only [he, if_true, Option.some.injEq] at h
      subst h
      exact ⟨by simp, he⟩
    · simp [he] at h
  | p :: q :: r, h =>
    simp only [getIdx] at h
    obtain ⟨hlt, hp, _⟩ := List.findIdx?_eq_some_iff_getElem.1 h
    simp only [probe, Bool.and_eq_true] at hp
    exact ⟨hlt, hp.2⟩

theorem getIdx_of_unique {e : Val → Val → Bool} {y : Entries} {k : Val} {q : Val × Val} (hq : q ∈ y)
    (he : e k q.1 = true) (hf : feed k = feed q.1) (hu : ∀ q' ∈ y, e k q'.1 = true → q' = q) :
    ∃ i, getIdx e y k = some i ∧ y[i]? = some q := by
  match y, hq, hu with
  | [], hq, _ => cases hq
  | [p], hq, _ =>
    have : q = p := by simpa using hq
    subst this
    exact ⟨0, by simp [getIdx, he], rfl⟩
  | p :: p' :: r, hq, hu =>
    simp only [getIdx]
    cases hi : List.findIdx? (fun z => probe e k z.1) (p :: p' :: r) with
    | none =>
      have := List.findIdx?_eq_none_iff.1 hi q hq
      simp [probe, he, hf] at this
    | some i =>
      obtain ⟨hlt, hp, _⟩ := List.findIdx?_eq_some_iff_getElem.1 hi
      simp only [probe, Bool.and_eq_true] at hp
      have := hu _ (List.getElem_mem hlt) hp.2
      exact ⟨i, rfl, by rw [List.getElem?_eq_getElem hlt, this]⟩

theorem getWith_some {e : Val → Val → Bool} {y : Entries} {k v' : Val} (h : getWith e y k = some v') :
    ∃ q ∈ y, e k q.1 = true ∧ v' = q.2 := by
  unfold getWith at h
  cases hi : getIdx e y k with
  | none => rw [hi] at h; cases h
  | some i =>
    rw [hi] at h
    obtain ⟨hlt, he⟩ := getIdx_some hi
    simp only [List.getElem?_eq_getElem hlt, Option.map_some, Option.some.injEq] at h
    exact ⟨y[i], List.getElem_mem hlt, he, h.symm⟩

theorem getWith_of_unique {e : Val → Val → Bool} {y : Entries} {k : Val} {q : Val × Val} (hq : q ∈ y)
    (he : e k q.1 = true) (hf : feed k = feed q.1) (hu : ∀ q' ∈ y, e k q'.1 = true → q' = q) :
    getWith e y k = some q.2 := by
  obtain ⟨i, h1, h2⟩ := getIdx_of_unique hq he hf hu
  unfold getWith
  rw [h1]
  simp only [h2, Option.map_some]

theorem eqObj_true_iff {e : Val → Val → Bool} {x y : Entries} :
    eqObj e x y = true ↔
      x.length = y.length ∧ ∀ p ∈ x, ∃ v', getWith e y p.1 = some v' ∧ e p.2 v' = true := by
  unfold eqObj
  rw [Bool.and_eq_true, beq_iff_eq, List.all_eq_true]
  constructor
  · rintro ⟨h1, h2⟩
    refine ⟨h1, fun p hp => ?_⟩
    have := h2 p hp
    cases hg : getWith e y p.1 with
    | none => rw [hg] at this; cases this
    | some v' => rw [hg] at this; exact ⟨v', rfl, this⟩
  · rintro ⟨h1, h2⟩
    refine ⟨h1, fun p hp => ?_⟩
    obtain ⟨v', hg, hv⟩ := h2 p hp
    rw [hg]; exact hv

/-! ### objects: `Ord` says `Equal` iff the sorted entry lists are pointwise equivalent -/

/-- entries with equivalent keys and equivalent values -/
def EntEqv (p q : Val × Val) : Prop := cmp p.1 q.1 = .eq ∧ cmp p.2 q.2 = .eq

theorem cmp_obj_eq_iff (x y : Entries) :
    cmp (.obj x) (.obj y) = .eq ↔ All2 EntEqv (sortedEntries x) (sortedEntries y) := by
  rw [cmp_obj, then_eq_iff, lexCmp_eq_iff, lexCmp_eq_iff]
  unfold sortedKeys sortedVals
  rw [All2_map, All2_map]
  constructor
  · rintro ⟨h1, h2⟩; exact All2.and h1 h2
  · intro h; exact ⟨h.imp (fun _ _ hh => hh.1), h.imp (fun _ _ hh => hh.2)⟩

theorem cmpBytes_eq_iff {x y : List UInt8} : cmpBytes x y = .eq ↔ x = y := by
  unfold cmpBytes
  rw [lexCmp_eq_iff]
  constructor
  · intro h
    apply All2.eq_of_eq
    exact h.imp (fun a b hab => UInt8.toNat_inj.1 (Nat.compare_eq_eq.1 hab))
  · rintro rfl
    exact All2.refl_of_mem (fun a _ => Nat.compare_eq_eq.2 rfl)

theorem cmp_rank_ne {a b : Val} (h : a.rank ≠ b.rank) : cmp a b ≠ .eq := by
  obtain ⟨n, hn⟩ : ∃ n, a.size + b.size = n + 1 := ⟨a.size + b.size - 1, by have := a.size_pos; omega⟩
  rw [cmp, hn, cmpF_rank_ne n h]
  intro hc
  exact h (Nat.compare_eq_eq.1 hc)

/-- the two statements proved together -/
def EqCmpFeed (a b : Val) : Prop :=
  (eq a b = true ↔ cmp a b = .eq) ∧ (eq a b = true → feed a = feed b)

/-- the object case of the main induction -/
theorem obj_eq_cmp_feed {m : Mode} {x y : Entries} (gx : Good m (.obj x)) (gy : Good m (.obj y))
    (ih : ∀ p ∈ x, ∀ q ∈ y, EqCmpFeed p.1 q.1 ∧ EqCmpFeed p.2 q.2) :
    (eqObj eq x y = true ↔ cmp (.obj x) (.obj y) = .eq) ∧
    (eqObj eq x y = true → feed (.obj x) = feed (.obj y)) := by
  have hT := keyTPO m
  have sx : ∀ p ∈ sortedEntries x, InDom m p.1 = true := fun p hp => (gx.obj p (mem_sortBy.1 hp)).1.dom
  have sy : ∀ p ∈ sortedEntries y, InDom m p.1 = true := fun p hp => (gy.obj p (mem_sortBy.1 hp)).1.dom
  have ssx : SSorted (keyCmp cmp) (sortedEntries x) :=
    sortBy_ssorted hT x (fun p hp => (gx.obj p hp).1.dom) gx.distinct
  have ssy : SSorted (keyCmp cmp) (sortedEntries y) :=
    sortBy_ssorted hT y (fun p hp => (gy.obj p hp).1.dom) gy.distinct
  have step2 : eqObj eq x y = true ↔ All2 EntEqv (sortedEntries x) (sortedEntries y) := by
    rw [eqObj_true_iff]
    constructor
    · rintro ⟨hlen, hall⟩
      have emb : ∀ p ∈ sortedEntries x, ∃ q ∈ sortedEntries y, keyCmp cmp p q = .eq ∧ cmp p.2 q.2 = .eq := by
        intro p hp
        have hp' := mem_sortBy.1 hp
        obtain ⟨v', hg, hv⟩ := hall p hp'
        obtain ⟨q, hq, hk, rfl⟩ := getWith_some hg
        exact ⟨q, mem_sortBy.2 hq, (ih p hp' q hq).1.1.1 hk, (ih p hp' q hq).2.1.1 hv⟩
      exact ssorted_pointwise hT (Q := fun p q => cmp p.2 q.2 = .eq) _ _ sx sy ssx ssy emb
        (by rw [sortedEntries, sortedEntries, length_sortBy, length_sortBy, hlen]; exact Nat.le_refl _)
    · intro h
      refine ⟨by have := h.length_eq; rwa [sortedEntries, sortedEntries, length_sortBy, length_sortBy] at this, ?_⟩
      intro p hp
      obtain ⟨q, hq, hk, hv⟩ := h.exists_right p (mem_sortBy.2 hp)
      have hq' := mem_sortBy.1 hq
      have ek : eq p.1 q.1 = true := (ih p hp q hq').1.1.2 hk
      refine ⟨q.2, getWith_of_unique hq' ek ((ih p hp q hq').1.2 ek) ?_, (ih p hp q hq').2.1.2 hv⟩
      intro q' hq'' ek'
      have c1 : cmp p.1 q'.1 = .eq := (ih p hp q' hq'').1.1.1 ek'
      have dp := (gx.obj p hp).1.dom
      have dq := (gy.obj q hq').1.dom
      have dq' := (gy.obj q' hq'').1.dom
      have c2 : cmp q'.1 q.1 = .eq :=
        (valTPO m).eq_trans dq' dp dq (((valTPO m).eq_iff dp dq').1 c1) hk
      exact distinct_unique gy.distinct q' hq'' q hq' c2
  refine ⟨by rw [step2, cmp_obj_eq_iff], ?_⟩
  intro h
  have h2 := step2.1 h
  rw [feed_obj, feed_obj]
  congr 1
  apply All2.flatMap_eq
  refine All2.imp_of_mem ?_ h2
  intro p hp q hq ⟨hk, hv⟩
  have hp' := mem_sortBy.1 hp
  have hq' := mem_sortBy.1 hq
  have ek : eq p.1 q.1 = true := (ih p hp' q hq').1.1.2 hk
  have ev : eq p.2 q.2 = true := (ih p hp' q hq').2.1.2 hv
  rw [(ih p hp' q hq').1.2 ek, (ih p hp' q hq').2.2 ev]

/-- **`==` is `Ord` saying `Equal`, and values that are `==` make the same `Hasher` calls** —
values of every size and depth -/
theorem eq_cmp_feed (m : Mode) : ∀ (n : Nat) (a b : Val), a.size + b.size ≤ n → Good m a → Good m b →
    EqCmpFeed a b
  | 0, a, _, hs, _, _ => by have := a.size_pos; omega
  | n + 1, a, b, hs, ga, gb => by
    have ih := eq_cmp_feed m n
    by_cases hr : a.rank = b.rank
    · rcases same_rank_cases hr with ⟨rfl, rfl⟩ | ⟨x, y, rfl, rfl⟩ | ⟨x, y, rfl, rfl⟩ | ⟨x, y, hx, hy⟩ |
        ⟨x, y, rfl, rfl⟩ | ⟨x, y, rfl, rfl⟩
      · exact ⟨⟨fun _ => rfl, fun _ => rfl⟩, fun _ => rfl⟩
      · refine ⟨?_, ?_⟩
        · rw [eq_bool, cmp_bool]; cases x <;> cases y <;> decide
        · rw [eq_bool]; intro h; rw [beq_iff_eq.1 h]
      · have da : Num.inMode m x = true := by simpa [InDom, allNums] using ga.dom
        have db : Num.inMode m y = true := by simpa [InDom, allNums] using gb.dom
        have za : Num.noNegZero x = true := by simpa [NoNegZero, allNums] using ga.nz
        have zb : Num.noNegZero y = true := by simpa [NoNegZero, allNums] using gb.nz
        refine ⟨?_, ?_⟩
        · rw [eq_num, cmp_num]
          exact numEq_iff_cmp (convFinite_of_inMode da) (convFinite_of_inMode db)
        · rw [eq_num, feed_num, feed_num]
          exact fun h => numFeed_coherent h (convFinite_of_inMode da) (convFinite_of_inMode db) za zb
      · refine ⟨?_, ?_⟩
        · rw [eq_str hx hy, cmp_str hx hy, cmpBytes_eq_iff, beq_iff_eq]
        · rw [eq_str hx hy, feed_str hx, feed_str hy, beq_iff_eq]
          rintro rfl; rfl
      · have key : ∀ u ∈ x, ∀ v ∈ y, EqCmpFeed u v := by
          intro u hu v hv
          have := Val.size_lt_of_mem hu
          have := Val.size_lt_of_mem hv
          simp only [Val.size] at hs
          exact ih u v (by omega) (ga.arr u hu) (gb.arr v hv)
        refine ⟨?_, ?_⟩
        · rw [eq_arr, cmp_arr, eqList_iff, lexCmp_eq_iff]
          constructor <;> intro h
          · exact All2.imp_of_mem (fun u hu v hv huv => (key u hu v hv).1.1 huv) h
          · exact All2.imp_of_mem (fun u hu v hv huv => (key u hu v hv).1.2 huv) h
        · rw [eq_arr, eqList_iff, feed_arr, feed_arr]
          intro h
          rw [h.length_eq]
          congr 2
          exact All2.flatMap_eq (All2.imp_of_mem (fun u hu v hv huv => (key u hu v hv).2 huv) h)
      · rw [EqCmpFeed, eq_obj]
        apply obj_eq_cmp_feed ga gb
        intro p hp q hq
        have := Val.size_entry_of_mem (k := p.1) (v := p.2) hp
        have := Val.size_entry_of_mem (k := q.1) (v := q.2) hq
        have := p.1.size_pos; have := p.2.size_pos; have := q.1.size_pos; have := q.2.size_pos
        simp only [Val.size] at hs
        exact ⟨ih p.1 q.1 (by omega) (ga.obj p hp).1 (gb.obj q hq).1,
          ih p.2 q.2 (by omega) (ga.obj p hp).2 (gb.obj q hq).2⟩
    · refine ⟨?_, ?_⟩
      · rw [eq_rank_ne hr]
        constructor
        · intro h; cases h
        · intro h; exact absurd h (cmp_rank_ne hr)
      · rw [eq_rank_ne hr]; intro h; cases h

theorem eq_iff_cmp {m : Mode} {a b : Val} (ga : Good m a) (gb : Good m b) : eq a b = true ↔ cmp a b = .eq :=
  (eq_cmp_feed m _ a b (Nat.le_refl _) ga gb).1

theorem feed_of_eq {m : Mode} {a b : Val} (ga : Good m a) (gb : Good m b) (h : eq a b = true) : feed a = feed b :=
  (eq_cmp_feed m _ a b (Nat.le_refl _) ga gb).2 h

/-! ### the repaired configuration -/

set_option exponentiation.threshold 1100 in
/-- with the repair of F-08b in the tree, the domain needs no `NoHugeInt` -/
theorem inDom_of_inDomR (hfix : Cfg.hugeIntBelowInfinity = true) {m : Mode} {v : Val}
    (h : InDomR m v = true) : InDom m v = true := by
  refine allNums_imp (fun n hn => ?_) h
  simp only [Bool.and_eq_true] at hn
  obtain ⟨⟨h1, h2⟩, h3⟩ := hn
  have hc : Num.convFinite n = true := by
    cases n with
    | int i => exact ofInt_finite_of_wf i h3
    | big i => simp [Num.convFinite, hfix]
    | float f => rfl
    | dec s => rfl
  cases m
  · simp only [Num.inMode, Num.guard, Bool.and_eq_true] at h2 ⊢; exact ⟨h1, h2⟩
  · simp only [Num.inMode, Num.guard, Bool.and_eq_true] at h2 ⊢; exact ⟨⟨h1, h2⟩, hc⟩

/-- with the repair of F-08 in the tree, every value satisfies `NoNegZero` -/
theorem noNegZero_of_fix (hfix : Cfg.hashNormalisesZero = true) (v : Val) : NoNegZero v = true := by
  have key : ∀ (k : Nat) (v : Val), v.size ≤ k → NoNegZero v = true := by
    intro k
    induction k with
    | zero => intro v hs; have := v.size_pos; omega
    | succ k ih =>
      intro v hs
      unfold NoNegZero at *
      cases v with
      | num n => cases n <;> simp [allNums, Num.noNegZero, hfix]
      | arr a =>
        rw [allNums_arr]
        intro x hx
        have := Val.size_lt_of_mem hx
        simp only [Val.size] at hs
        exact ih x (by omega)
      | obj o =>
        rw [allNums_obj]
        intro e he
        have := Val.size_entry_of_mem (k := e.1) (v := e.2) he
        simp only [Val.size] at hs
        exact ⟨ih e.1 (by omega), ih e.2 (by omega)⟩
      | null => simp [allNums]
      | bool => simp [allNums]
      | bstr => simp [allNums]
      | tstr => simp [allNums]
  exact key v.size v (Nat.le_refl _)

theorem good_of_fixed (hz : Cfg.hashNormalisesZero = true) (hh : Cfg.hugeIntBelowInfinity = true)
    {m : Mode} {v : Val} (hd : InDomR m v = true) (hk : WfKeys v = true) : Good m v :=
  ⟨inDom_of_inDomR hh hd, hk, noNegZero_of_fix hz v⟩

end Jaq.C08
