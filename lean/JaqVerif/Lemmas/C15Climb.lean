/-
  C15 — precedence climbing against canonical trees (ported from design/proto/C15_*).
  `E α O`: free operator trees over opaque operands `α` (from the point of view of `climb`,
  every operand — also a parenthesised term — is opaque).
    S1 `yield_preserved`  climbing neither loses nor reorders operands and operators
    S2 `canon_result`     with enough fuel, the result is canonical (`okL`/`okR` at every node)
    U  `canon_unique`     under homogeneity (associativity is a function of the level) a canonical
                          tree is determined by its in-order sequence
    ⇒  `climb_flat`       climbing the in-order sequence of a canonical tree gives the tree back
-/
import JaqVerif.C15.PrecClimb

namespace Jaq.C15
open PrecOp

/-- operator trees over opaque operands -/
inductive E (α O : Type) where
  | atom (a : α)
  | bin (l : E α O) (o : O) (r : E α O)

set_option linter.unusedSectionVars false
variable {α O : Type} [PrecOp O]

/-- in-order flattening of a tree into head operand and (operator, operand) tail -/
def flat : E α O → E α O × List (O × E α O)
  | .atom a => (.atom a, [])
  | .bin l o r => ((flat l).1, (flat l).2 ++ (o, (flat r).1) :: (flat r).2)

/-- `climb` on trees -/
abbrev climbE (head : E α O) (tail : List (O × E α O)) : E α O := climb E.bin head tail


/-- flatten the operands of an (operator, operand) list -/
def flatList : List (O × E α O) → List (O × E α O)
  | [] => []
  | (o, e) :: rest => (o, (flat e).1) :: ((flat e).2 ++ flatList rest)

def flatAll (x : E α O) (rest : List (O × E α O)) : E α O × List (O × E α O) :=
  ((flat x).1, (flat x).2 ++ flatList rest)

theorem flat_bin (l : E α O) (o : O) (r : E α O) :
    flat (.bin l o r) = ((flat l).1, (flat l).2 ++ (o, (flat r).1) :: (flat r).2) := by
  rfl

/-- S1: climbing neither loses nor reorders operands and operators -/
theorem yield_preserved : ∀ (f : Nat),
    (∀ (x : E α O) (rest : List (O × E α O)) minp, flatAll (outer E.bin f x rest minp).1 (outer E.bin f x rest minp).2 = flatAll x rest) ∧
    (∀ (rhs : E α O) (rest : List (O × E α O)) op, flatAll (inner E.bin f rhs rest op).1 (inner E.bin f rhs rest op).2 = flatAll rhs rest) := by
  intro f
  induction f with
  | zero => exact ⟨fun x rest minp => by simp [outer], fun rhs rest op => by simp [inner]⟩
  | succ f ih =>
    obtain ⟨iho, ihi⟩ := ih
    refine ⟨?_, ?_⟩
    · intro x rest minp
      cases rest with
      | nil => simp [outer]
      | cons hd rest =>
        obtain ⟨op, rhs⟩ := hd
        simp only [outer]
        by_cases h : (prec op) ≥ minp
        · simp only [h, if_true]
          rw [iho]
          have := ihi rhs rest op
          simp only [flatAll, Prod.mk.injEq] at this ⊢
          obtain ⟨h1, h2⟩ := this
          refine ⟨by simp [flat_bin], ?_⟩
          simp only [flat_bin, flatList, List.append_assoc, List.cons_append]
          rw [h1, ← h2]
        · simp only [h, if_false]
    · intro rhs rest op
      cases rest with
      | nil => simp [inner]
      | cons hd rest =>
        obtain ⟨nop, nrhs⟩ := hd
        simp only [inner]
        by_cases h : (prec nop) > (prec op) ∨ ((ra op) = true ∧ (prec nop) = (prec op))
        · simp only [h, if_true]
          rw [ihi]
          exact iho _ _ _
        · simp only [h, if_false]


def rootOp : E α O → Option O
  | .atom _ => none
  | .bin _ o _ => some o

/-- what may stand to the right of `o` -/
def okR (o : O) (r : E α O) : Prop :=
  ∀ o', rootOp r = some o' → (prec o') > (prec o) ∨ ((prec o') = (prec o) ∧ (ra o) = true)

/-- what may stand to the left of `o` -/
def okL (l : E α O) (o : O) : Prop :=
  ∀ o', rootOp l = some o' → (prec o') > (prec o) ∨ ((prec o') = (prec o) ∧ (ra o') = false)

inductive Canon : E α O → Prop where
  | atom (a : α) : Canon (.atom a)
  | bin {l o r} : Canon l → Canon r → okL l o → okR o r → Canon (.bin l o r)

def Atoms (rest : List (O × E α O)) : Prop := ∀ p ∈ rest, ∃ a, p.2 = .atom a

/-- head operator of the unread rest is below `p` (or the rest is empty) -/
def HeadBelow (rest : List (O × E α O)) (p : Nat) : Prop :=
  ∀ hd tl, rest = hd :: tl → (prec hd.1) < p

/-- head operator of the unread rest does not continue the right operand of `op` -/
def HeadStops (rest : List (O × E α O)) (op : O) : Prop :=
  ∀ hd tl, rest = hd :: tl → ¬ ((prec hd.1) > (prec op) ∨ ((ra op) = true ∧ (prec hd.1) = (prec op)))

/-- root of `x'` is either that of `x` (nothing consumed) or an operator of precedence ≥ p -/
def RootFrom (x : E α O) (rest : List (O × E α O)) (res : E α O × List (O × E α O)) (p : Nat) : Prop :=
  (res.1 = x ∧ res.2 = rest) ∨ ∃ o, rootOp res.1 = some o ∧ (prec o) ≥ p

theorem atoms_tail {hd : O × E α O} {tl : List (O × E α O)} (h : Atoms (hd :: tl)) : Atoms tl :=
  fun p hp => h p (by simp [hp])

theorem outer_nil (f : Nat) (x : E α O) (minp : Nat) : outer E.bin (f+1) x [] minp = (x, []) := by simp [outer]
theorem outer_cons (f : Nat) (x : E α O) (op : O) (rhs : E α O) (rest : List (O × E α O)) (minp : Nat) :
    outer E.bin (f+1) x ((op, rhs) :: rest) minp =
      if (prec op) ≥ minp then
        outer E.bin f (.bin x op (inner E.bin f rhs rest op).1) (inner E.bin f rhs rest op).2 minp
      else (x, (op, rhs) :: rest) := by simp [outer]
theorem inner_nil (f : Nat) (rhs : E α O) (op : O) : inner E.bin (f+1) rhs [] op = (rhs, []) := by simp [inner]
theorem inner_cons (f : Nat) (rhs : E α O) (nop : O) (nrhs : E α O) (rest : List (O × E α O)) (op : O) :
    inner E.bin (f+1) rhs ((nop, nrhs) :: rest) op =
      if (prec nop) > (prec op) ∨ ((ra op) = true ∧ (prec nop) = (prec op)) then
        inner E.bin f (outer E.bin f rhs ((nop, nrhs) :: rest) (prec nop)).1 (outer E.bin f rhs ((nop, nrhs) :: rest) (prec nop)).2 op
      else (rhs, (nop, nrhs) :: rest) := by simp [inner]

/-- postcondition of `outer` -/
structure PostO (x : E α O) (rest : List (O × E α O)) (minp : Nat) (res : E α O × List (O × E α O)) : Prop where
  canon : Canon res.1
  atoms : Atoms res.2
  len : res.2.length ≤ rest.length
  progress : ∀ hd tl, rest = hd :: tl → (prec hd.1) ≥ minp → res.2.length < rest.length
  below : HeadBelow res.2 minp
  root : RootFrom x rest res minp

/-- postcondition of `inner` -/
structure PostI (rest : List (O × E α O)) (op : O) (res : E α O × List (O × E α O)) : Prop where
  canon : Canon res.1
  atoms : Atoms res.2
  len : res.2.length ≤ rest.length
  stops : HeadStops res.2 op
  okr : okR op res.1

theorem stops_to_okL {op : O} {x rhs' : E α O} {rest : List (O × E α O)} (s : HeadStops rest op) :
    ∀ hd tl, rest = hd :: tl → okL (.bin x op rhs') hd.1 := by
  intro hd tl he o' ho
  simp only [rootOp, Option.some.injEq] at ho
  have hs := s hd tl he
  rw [← ho]
  by_cases hra : (ra op) = true
  · have h1 : ¬ (prec hd.1) > (prec op) := fun hgt => hs (Or.inl hgt)
    have h2 : ¬ (prec hd.1) = (prec op) := fun heq => hs (Or.inr ⟨hra, heq⟩)
    left; omega
  · have h1 : ¬ (prec hd.1) > (prec op) := fun hgt => hs (Or.inl hgt)
    by_cases heq : (prec hd.1) = (prec op)
    · right; exact ⟨heq.symm, by simpa using hra⟩
    · left; omega

theorem headBelow_nil (p : Nat) : HeadBelow ([] : List (O × E α O)) p := fun _ _ h => nomatch h
theorem headStops_nil (op : O) : HeadStops ([] : List (O × E α O)) op := fun _ _ h => nomatch h
theorem okR_atom (op : O) (a : α) : okR op (.atom a) := fun o' h => by simp [rootOp] at h
theorem okL_atom (a : α) (op : O) : okL (.atom a) op := fun o' h => by simp [rootOp] at h

theorem inner_nil' (f : Nat) (rhs : E α O) (op : O) : inner E.bin f rhs [] op = (rhs, []) := by
  cases f with
  | zero => simp [inner]
  | succ f => exact inner_nil _ _ _

theorem outer_nil' (f : Nat) (x : E α O) (minp : Nat) : outer E.bin f x [] minp = (x, []) := by
  cases f with
  | zero => simp [outer]
  | succ f => exact outer_nil _ _ _

/-- S2: with enough fuel, climbing returns canonical trees and stops exactly where it must -/
theorem canon_result : ∀ (f : Nat),
    (∀ (x : E α O) (rest : List (O × E α O)) minp, 2 * rest.length + 1 ≤ f → Canon x → Atoms rest →
        (∀ hd tl, rest = hd :: tl → (prec hd.1) ≥ minp → okL x hd.1) →
        PostO x rest minp (outer E.bin f x rest minp)) ∧
    (∀ (rhs : E α O) (rest : List (O × E α O)) op, 2 * rest.length + 2 ≤ f → Canon rhs → Atoms rest → okR op rhs →
        (∀ hd tl, rest = hd :: tl → okL rhs hd.1) →
        PostI rest op (inner E.bin f rhs rest op)) := by
  intro f
  induction f with
  | zero =>
    refine ⟨fun x rest minp hf => by omega, fun rhs rest op hf => by omega⟩
  | succ f ih =>
    obtain ⟨iho, ihi⟩ := ih
    refine ⟨?_, ?_⟩
    · intro x rest minp hf hx hat hl
      cases rest with
      | nil =>
        rw [outer_nil]
        exact { canon := hx, atoms := hat, len := Nat.le_refl _,
                progress := (fun _ _ h => nomatch h), below := headBelow_nil _, root := Or.inl ⟨rfl, rfl⟩ }
      | cons hd rest =>
        obtain ⟨op, rhs⟩ := hd
        rw [outer_cons]
        by_cases h : (prec op) ≥ minp
        · rw [if_pos h]
          obtain ⟨a, ha⟩ := hat (op, rhs) (by simp)
          simp only at ha; subst ha
          simp only [List.length_cons] at hf
          have hxl : okL x op := hl (op, .atom a) rest rfl h
          by_cases hr0 : rest = []
          · subst hr0
            rw [inner_nil', outer_nil']
            exact { canon := .bin hx (.atom a) hxl (okR_atom op a),
                    atoms := fun p hp => by simp at hp,
                    len := by simp,
                    progress := fun _ _ _ _ => by simp,
                    below := headBelow_nil _,
                    root := Or.inr ⟨op, rfl, h⟩ }
          · have hpos : 0 < rest.length := List.length_pos_iff.mpr hr0
            have hlen : 2 * rest.length + 2 ≤ f := by omega
            have pi := ihi (.atom a) rest op hlen (.atom a) (atoms_tail hat)
              (okR_atom op a) (fun hd tl _ => okL_atom a hd.1)
            have hc : Canon (.bin x op (inner E.bin f (.atom a) rest op).1) := .bin hx pi.canon hxl pi.okr
            have hlen2 : 2 * (inner E.bin f (.atom a) rest op).2.length + 1 ≤ f := by
              have := pi.len; omega
            have po := iho (.bin x op (inner E.bin f (.atom a) rest op).1)
              (inner E.bin f (.atom a) rest op).2 minp hlen2 hc pi.atoms
              (fun hd tl he _ => stops_to_okL pi.stops hd tl he)
            exact { canon := po.canon, atoms := po.atoms,
                    len := by have := po.len; have := pi.len; simp only [List.length_cons]; omega,
                    progress := fun _ _ _ _ => by
                      have := po.len; have := pi.len; simp only [List.length_cons]; omega,
                    below := po.below,
                    root := by
                      right
                      rcases po.root with r2 | ⟨o, ho, hp⟩
                      · exact ⟨op, by rw [r2.1]; rfl, h⟩
                      · exact ⟨o, ho, hp⟩ }
        · rw [if_neg h]
          exact { canon := hx, atoms := hat, len := Nat.le_refl _,
                  progress := fun hd tl he hge => by cases he; exact absurd hge h,
                  below := fun hd tl he => by cases he; simp only; omega,
                  root := Or.inl ⟨rfl, rfl⟩ }
    · intro rhs rest op hf hr hat hokr hl
      cases rest with
      | nil =>
        rw [inner_nil]
        exact { canon := hr, atoms := hat, len := Nat.le_refl _, stops := headStops_nil _, okr := hokr }
      | cons hd rest =>
        obtain ⟨nop, nrhs⟩ := hd
        rw [inner_cons]
        by_cases h : (prec nop) > (prec op) ∨ ((ra op) = true ∧ (prec nop) = (prec op))
        · rw [if_pos h]
          simp only [List.length_cons] at hf
          have hlen : 2 * ((nop, nrhs) :: rest).length + 1 ≤ f := by
            simp only [List.length_cons]; omega
          have po := iho rhs ((nop, nrhs) :: rest) (prec nop) hlen hr hat
            (fun hd tl he _ => hl hd tl he)
          have hprog := po.progress (nop, nrhs) rest rfl (Nat.le_refl _)
          simp only [List.length_cons] at hprog
          -- the outer call consumed the head, so its result is a `bin` with root ≥ (prec nop)
          have hroot : ∃ o, rootOp (outer E.bin f rhs ((nop, nrhs) :: rest) (prec nop)).1 = some o ∧ (prec o) ≥ (prec nop) := by
            rcases po.root with r | hr'
            · exfalso; rw [r.2] at hprog; simp at hprog
            · exact hr'
          obtain ⟨o, ho, hp⟩ := hroot
          have hokr' : okR op (outer E.bin f rhs ((nop, nrhs) :: rest) (prec nop)).1 := by
            intro o' ho'
            rw [ho] at ho'; cases ho'
            rcases h with h | ⟨hra, heq⟩
            · left; omega
            · by_cases hgt : (prec o) > (prec op)
              · left; exact hgt
              · right; exact ⟨by omega, hra⟩
          have hl' : ∀ hd tl, (outer E.bin f rhs ((nop, nrhs) :: rest) (prec nop)).2 = hd :: tl →
              okL (outer E.bin f rhs ((nop, nrhs) :: rest) (prec nop)).1 hd.1 := by
            intro hd tl he o' ho'
            have hb := po.below hd tl he
            rw [ho] at ho'; cases ho'
            left; omega
          have hlen3 : 2 * (outer E.bin f rhs ((nop, nrhs) :: rest) (prec nop)).2.length + 2 ≤ f := by omega
          have pi := ihi _ _ op hlen3 po.canon po.atoms hokr' hl'
          exact { canon := pi.canon, atoms := pi.atoms,
                  len := by have := pi.len; simp only [List.length_cons]; omega,
                  stops := pi.stops, okr := pi.okr }
        · rw [if_neg h]
          exact { canon := hr, atoms := hat, len := Nat.le_refl _,
                  stops := fun hd tl he => by cases he; exact h,
                  okr := hokr }


/-- operators of a tree, in order -/
def ops : E α O → List O
  | .atom _ => []
  | .bin l o r => ops l ++ o :: ops r

/-- associativity is a function of the precedence level (true in jaq's table) -/
def Homog (raLvl : Nat → Bool) (t : E α O) : Prop := ∀ o ∈ ops t, (ra o) = raLvl (prec o)

theorem ops_flat (t : E α O) : (flat t).2.map (·.1) = ops t := by
  induction t with
  | atom a => simp [flat, ops]
  | bin l o r ihl ihr => simp [flat_bin, ops, ihl, ihr]

theorem flat_length (t : E α O) : (flat t).2.length = (ops t).length := by
  rw [← ops_flat]; simp

/-- the root of a canonical tree has minimal precedence -/
theorem canon_root_min {t : E α O} (h : Canon t) : ∀ o, rootOp t = some o → ∀ q ∈ ops t, (prec q) ≥ (prec o) := by
  induction h with
  | atom a => intro o h; simp [rootOp] at h
  | @bin l o r hl hr hokl hokr ihl ihr =>
    intro o' ho' q hq
    simp only [rootOp, Option.some.injEq] at ho'; subst ho'
    simp only [ops, List.mem_append, List.mem_cons] at hq
    rcases hq with hq | rfl | hq
    · cases l with
      | atom a => simp [ops] at hq
      | bin ll lo lr =>
        have := ihl lo rfl q hq
        have := hokl lo rfl
        omega
    · exact Nat.le_refl _
    · cases r with
      | atom a => simp [ops] at hq
      | bin rl ro rr =>
        have := ihr ro rfl q hq
        have := hokr ro rfl
        omega

/-- on a right-associative level nothing to the left of the root shares its precedence;
    on a left-associative level nothing to the right does -/
theorem canon_strict {raLvl : Nat → Bool} {l r : E α O} {o : O} (h : Canon (.bin l o r))
    (hom : Homog raLvl (.bin l o r)) :
    ((ra o) = true → ∀ q ∈ ops l, (prec q) > (prec o)) ∧ ((ra o) = false → ∀ q ∈ ops r, (prec q) > (prec o)) := by
  cases h with
  | bin hl hr hokl hokr =>
    refine ⟨fun hra q hq => ?_, fun hra q hq => ?_⟩
    · cases l with
      | atom a => simp [ops] at hq
      | bin ll lo lr =>
        have hmin := canon_root_min hl lo rfl q hq
        rcases hokl lo rfl with hgt | ⟨heq, hlra⟩
        · omega
        · -- same level ⇒ same associativity, contradiction
          exfalso
          have h1 := hom lo (by simp [ops])
          have h2 := hom o (by simp [ops])
          rw [heq] at h1
          rw [h1, ← h2, hra] at hlra
          simp at hlra
    · cases r with
      | atom a => simp [ops] at hq
      | bin rl ro rr =>
        have hmin := canon_root_min hr ro rfl q hq
        rcases hokr ro rfl with hgt | ⟨heq, hora⟩
        · omega
        · rw [hra] at hora; simp at hora

theorem mem_ops_of_mem_flat {t : E α O} {p : O × E α O} (h : p ∈ (flat t).2) : p.1 ∈ ops t := by
  rw [← ops_flat]; exact List.mem_map_of_mem h

theorem homog_left {raLvl} {l : E α O} {o : O} {r : E α O} (h : Homog raLvl (.bin l o r)) : Homog raLvl l :=
  fun q hq => h q (by simp [ops, hq])
theorem homog_right {raLvl} {l : E α O} {o : O} {r : E α O} (h : Homog raLvl (.bin l o r)) : Homog raLvl r :=
  fun q hq => h q (by simp [ops, hq])

/-- the split point of a canonical tree is determined by its operator sequence -/
theorem split_pos {raLvl : Nat → Bool} {l1 r1 l2 r2 : E α O} {o1 o2 : O}
    (c1 : Canon (.bin l1 o1 r1)) (c2 : Canon (.bin l2 o2 r2))
    (h1 : Homog raLvl (.bin l1 o1 r1)) (h2 : Homog raLvl (.bin l2 o2 r2))
    (he : (flat l1).2 ++ (o1, (flat r1).1) :: (flat r1).2 = (flat l2).2 ++ (o2, (flat r2).1) :: (flat r2).2)
    (hlt : (flat l1).2.length < (flat l2).2.length) : False := by
  -- `o1` sits inside the left part of the second tree
  have e1 : ((flat l2).2 ++ (o2, (flat r2).1) :: (flat r2).2)[(flat l1).2.length]? = some (o1, (flat r1).1) := by
    rw [← he]; simp
  rw [List.getElem?_append_left hlt] at e1
  have m1 : o1 ∈ ops l2 := mem_ops_of_mem_flat (p := (o1, (flat r1).1)) (List.mem_of_getElem? e1)
  -- `o2` sits inside the right part of the first tree
  have e2 : ((flat l1).2 ++ (o1, (flat r1).1) :: (flat r1).2)[(flat l2).2.length]? = some (o2, (flat r2).1) := by
    rw [he]; simp
  rw [List.getElem?_append_right (by omega)] at e2
  have hpos : (flat l2).2.length - (flat l1).2.length = ((flat l2).2.length - (flat l1).2.length - 1) + 1 := by omega
  rw [hpos, List.getElem?_cons_succ] at e2
  have m2 : o2 ∈ ops r1 := mem_ops_of_mem_flat (p := (o2, (flat r2).1)) (List.mem_of_getElem? e2)
  -- both have minimal precedence in the other tree
  have p1 : (prec o1) ≥ (prec o2) := canon_root_min c2 o2 rfl o1 (by simp [ops, m1])
  have p2 : (prec o2) ≥ (prec o1) := canon_root_min c1 o1 rfl o2 (by simp [ops, m2])
  have heq : (prec o1) = (prec o2) := by omega
  have ra1 := h1 o1 (by simp [ops])
  have ra2 := h2 o2 (by simp [ops])
  by_cases hra : (ra o2) = true
  · have := (canon_strict c2 h2).1 hra o1 m1; omega
  · have hra1 : (ra o1) = false := by rw [ra1, heq, ← ra2]; simpa using hra
    have := (canon_strict c1 h1).2 hra1 o2 m2; omega

/-- U: a canonical tree is determined by its in-order sequence -/
theorem canon_unique (raLvl : Nat → Bool) : ∀ (t1 t2 : E α O), Canon t1 → Canon t2 →
    Homog raLvl t1 → Homog raLvl t2 → flat t1 = flat t2 → t1 = t2 := by
  intro t1
  induction t1 with
  | atom a =>
    intro t2 _ _ _ _ he
    cases t2 with
    | atom b => simp [flat] at he; rw [he]
    | bin l o r => simp [flat_bin, flat] at he
  | bin l1 o1 r1 ihl ihr =>
    intro t2 c1 c2 h1 h2 he
    cases t2 with
    | atom b => simp [flat_bin, flat] at he
    | bin l2 o2 r2 =>
      rw [flat_bin, flat_bin] at he
      simp only [Prod.mk.injEq] at he
      obtain ⟨hh, ht⟩ := he
      have hlen : (flat l1).2.length = (flat l2).2.length := by
        rcases Nat.lt_trichotomy (flat l1).2.length (flat l2).2.length with hlt | heq | hgt
        · exact (split_pos c1 c2 h1 h2 ht hlt).elim
        · exact heq
        · exact (split_pos c2 c1 h2 h1 ht.symm hgt).elim
      obtain ⟨ht1, ht2⟩ := List.append_inj ht hlen
      simp only [List.cons.injEq, Prod.mk.injEq] at ht2
      obtain ⟨⟨ho, hhr⟩, htr⟩ := ht2
      cases c1 with
      | bin cl1 cr1 _ _ =>
        cases c2 with
        | bin cl2 cr2 _ _ =>
          have el : l1 = l2 := ihl l2 cl1 cl2 (homog_left h1) (homog_left h2) (Prod.ext hh ht1)
          have er : r1 = r2 := ihr r2 cr1 cr2 (homog_right h1) (homog_right h2) (Prod.ext hhr htr)
          rw [el, er, ho]


theorem flat_head_atom (t : E α O) : ∃ a, (flat t).1 = .atom a := by
  induction t with
  | atom a => exact ⟨a, rfl⟩
  | bin l o r ihl _ => obtain ⟨a, ha⟩ := ihl; exact ⟨a, by rw [flat_bin]; exact ha⟩

theorem flat_atoms (t : E α O) : Atoms (flat t).2 := by
  induction t with
  | atom a => intro p hp; simp [flat] at hp
  | bin l o r ihl ihr =>
    intro p hp
    rw [flat_bin] at hp
    simp only [List.mem_append, List.mem_cons] at hp
    rcases hp with hp | rfl | hp
    · exact ihl p hp
    · exact flat_head_atom r
    · exact ihr p hp

theorem flatList_atoms {rest : List (O × E α O)} (h : Atoms rest) : flatList rest = rest := by
  induction rest with
  | nil => rfl
  | cons hd tl ih =>
    obtain ⟨o, e⟩ := hd
    obtain ⟨a, ha⟩ := h (o, e) (by simp)
    simp only at ha; subst ha
    simp [flatList, flat, ih (atoms_tail h)]

/-- **C15 core, in miniature**: for every tree that respects the precedence/associativity
table, parsing its in-order token sequence by precedence climbing gives the tree back —
any length, any nesting. -/
theorem climb_flat (raLvl : Nat → Bool) (t : E α O) (hc : Canon t) (hh : Homog raLvl t) :
    climbE (flat t).1 (flat t).2 = t := by
  obtain ⟨a, ha⟩ := flat_head_atom t
  have hat := flat_atoms t
  unfold climbE climb
  have post := (canon_result (2 * (flat t).2.length + 2)).1 (flat t).1 (flat t).2 0 (by omega)
    (by rw [ha]; exact .atom a) hat (fun hd tl _ _ => by rw [ha]; exact okL_atom a hd.1)
  -- everything is consumed
  have hnil : (outer E.bin (2 * (flat t).2.length + 2) (flat t).1 (flat t).2 0).2 = [] := by
    cases hr : (outer E.bin (2 * (flat t).2.length + 2) (flat t).1 (flat t).2 0).2 with
    | nil => rfl
    | cons hd tl => have := post.below hd tl hr; omega
  -- same in-order sequence
  have hy := (yield_preserved (2 * (flat t).2.length + 2)).1 (flat t).1 (flat t).2 0
  rw [hnil] at hy
  have hflat : flat (outer E.bin (2 * (flat t).2.length + 2) (flat t).1 (flat t).2 0).1 = flat t := by
    have h1 : flatAll (flat t).1 (flat t).2 = flat t := by
      simp only [flatAll]
      rw [flatList_atoms hat, ha]
      simp [flat, ← ha]
    rw [h1] at hy
    simpa [flatAll, flatList] using hy
  -- same operators ⇒ same homogeneity
  have hh' : Homog raLvl (outer E.bin (2 * (flat t).2.length + 2) (flat t).1 (flat t).2 0).1 := by
    intro o ho
    rw [← ops_flat, hflat, ops_flat] at ho
    exact hh o ho
  exact canon_unique raLvl _ _ post.canon hc hh' hh hflat



/-! ### climbing is parametric in the expression type -/

/-- interpret a tree over operands `α` in any expression type `T` -/
def E.fold {T : Type} (leaf : α → T) (mk : T → O → T → T) : E α O → T
  | .atom a => leaf a
  | .bin l o r => mk (E.fold leaf mk l) o (E.fold leaf mk r)

def mapTail {T : Type} (g : E α O → T) (rest : List (O × E α O)) : List (O × T) :=
  rest.map fun p => (p.1, g p.2)

theorem climb_parametric {T : Type} (leaf : α → T) (mk : T → O → T → T) : ∀ (f : Nat),
    (∀ (x : E α O) (rest : List (O × E α O)) minp,
      outer mk f (E.fold leaf mk x) (mapTail (E.fold leaf mk) rest) minp =
        (E.fold leaf mk (outer E.bin f x rest minp).1, mapTail (E.fold leaf mk) (outer E.bin f x rest minp).2)) ∧
    (∀ (rhs : E α O) (rest : List (O × E α O)) op,
      inner mk f (E.fold leaf mk rhs) (mapTail (E.fold leaf mk) rest) op =
        (E.fold leaf mk (inner E.bin f rhs rest op).1, mapTail (E.fold leaf mk) (inner E.bin f rhs rest op).2)) := by
  intro f
  induction f with
  | zero => exact ⟨fun x rest minp => by simp [outer], fun rhs rest op => by simp [inner]⟩
  | succ f ih =>
    obtain ⟨iho, ihi⟩ := ih
    refine ⟨?_, ?_⟩
    · intro x rest minp
      cases rest with
      | nil => simp [outer, mapTail]
      | cons hd rest =>
        obtain ⟨op, rhs⟩ := hd
        rw [outer_cons]
        simp only [mapTail, List.map_cons, outer]
        by_cases h : prec op ≥ minp
        · simp only [h, if_true]
          have h1 := ihi rhs rest op
          simp only [mapTail] at h1
          rw [h1]
          have h2 := iho (.bin x op (inner E.bin f rhs rest op).1) (inner E.bin f rhs rest op).2 minp
          simp only [mapTail, E.fold] at h2
          simp only [h2]
        · simp only [h, if_false, List.map_cons]
    · intro rhs rest op
      cases rest with
      | nil => simp [inner, mapTail]
      | cons hd rest =>
        obtain ⟨nop, nrhs⟩ := hd
        rw [inner_cons]
        simp only [mapTail, List.map_cons, inner]
        by_cases h : prec nop > prec op ∨ (ra op = true ∧ prec nop = prec op)
        · simp only [h, if_true]
          have h1 := iho rhs ((nop, nrhs) :: rest) (prec nop)
          simp only [mapTail, List.map_cons] at h1
          rw [h1]
          have h2 := ihi (outer E.bin f rhs ((nop, nrhs) :: rest) (prec nop)).1
            (outer E.bin f rhs ((nop, nrhs) :: rest) (prec nop)).2 op
          simp only [mapTail] at h2
          simp only [h2]
        · simp only [h, if_false, List.map_cons]

theorem climb_fold {T : Type} (leaf : α → T) (mk : T → O → T → T) (head : E α O) (tail : List (O × E α O)) :
    climb mk (E.fold leaf mk head) (mapTail (E.fold leaf mk) tail) = E.fold leaf mk (climbE head tail) := by
  unfold climbE climb
  have := (climb_parametric leaf mk (2 * tail.length + 2)).1 head tail 0
  simp only [mapTail, List.length_map] at this ⊢
  rw [this]

/-- everything is consumed by `climb` and the result is canonical with the same in-order sequence -/
theorem climb_atoms (a : α) (tail : List (O × E α O)) (hat : Atoms tail) :
    Canon (climbE (.atom a) tail) ∧ flat (climbE (.atom a) tail) = (.atom a, tail) := by
  unfold climbE climb
  have post := (canon_result (2 * tail.length + 2)).1 (.atom a) tail 0 (by omega)
    (.atom a) hat (fun hd tl _ _ => okL_atom a hd.1)
  have hnil : (outer E.bin (2 * tail.length + 2) (.atom a) tail 0).2 = [] := by
    cases hr : (outer E.bin (2 * tail.length + 2) (.atom a) tail 0).2 with
    | nil => rfl
    | cons hd tl => have := post.below hd tl hr; omega
  have hy := (yield_preserved (2 * tail.length + 2)).1 (.atom a) tail 0
  rw [hnil] at hy
  refine ⟨post.canon, ?_⟩
  simp only [flatAll, flatList, List.append_nil] at hy
  rw [flatList_atoms hat] at hy
  have hy' : (flat (outer E.bin (2 * tail.length + 2) (E.atom a) tail 0).fst).fst = E.atom a ∧
    (flat (outer E.bin (2 * tail.length + 2) (E.atom a) tail 0).fst).snd = tail := by simpa [flat] using hy
  exact Prod.ext hy'.1 hy'.2

end Jaq.C15
