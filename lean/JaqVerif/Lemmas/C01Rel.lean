/-
  C01 — the invariant `Rel` between the named scope of the semantics, the compile-time `Locals`
  and the run-time environment list, and the lookup lemmas (`envRel_lookup`): a variable, label,
  filter argument or definition found by name in the scope is found by `Locals` at the position
  where the run-time list holds the corresponding binding.
-/
import JaqVerif.Lemmas.C01Out
import JaqVerif.Core.Fragment

namespace Jaq.Core
open Jaq

/-! ### `MapVec` -/
section MapVec
variable {κ ν : Type} [DecidableEq κ]

theorem MapVec.getLast_push_same (m : MapVec κ ν) (k : κ) (v : ν) : (m.push k v).getLast k = some v := by
  induction m with
  | nil => simp [MapVec.push, MapVec.getLast]
  | cons kv m ih =>
    obtain ⟨k', vs⟩ := kv
    by_cases h : k' = k
    · simp [MapVec.push, MapVec.getLast, h]
    · simp [MapVec.push, MapVec.getLast, h, ih]

theorem MapVec.getLast_push_ne (m : MapVec κ ν) (k k' : κ) (v : ν) (hne : k ≠ k') :
    (m.push k v).getLast k' = m.getLast k' := by
  induction m with
  | nil => simp [MapVec.push, MapVec.getLast, hne]
  | cons kv m ih =>
    obtain ⟨k0, vs⟩ := kv
    by_cases h : k0 = k
    · subst h; simp [MapVec.push, MapVec.getLast, hne]
    · by_cases h' : k0 = k'
      · subst h'
        have hk : ¬ (k0 = k) := h
        simp [MapVec.push, MapVec.getLast, hk]
      · simp [MapVec.push, MapVec.getLast, h, h', ih]
end MapVec

theorem sigOf_length (ps : List String) : (sigOf ps).length = ps.length := by simp [sigOf]

/-! ### the table: weak agreement with the final table -/

/-- what `moduleC` records for the prelude definition `def !empty: {}[];` compiled first -/
def emptyMDef : MDef := { name := emptyName, sig := [], id := 0, tr := [] }

/-- the compile context of the main module: without prelude definitions (`pe = false`), or with
the prelude consisting of `def !empty: {}[];` (`pe = true`) -/
def cxMain (pe : Bool) : Cx :=
  { modMap := [if pe then [emptyMDef] else []], included := [0], natives := c01Natives }

/-- with `pe`, the final table starts with the compiled `def !empty: {}[];` -/
def PreOK (pe : Bool) (tabf : List CTerm) : Prop :=
  pe = true → tabf[0]? = some (.path 1 [(.range none none, .essential)]) ∧ tabf[1]? = some .objEmpty

/-- `st'` extends the table of `st` (`compile` only appends; placeholders are filled before return) -/
def Ext (st st' : St) : Prop := ∃ s, st'.terms = st.terms ++ s

theorem Ext.refl (st : St) : Ext st st := ⟨[], by simp⟩
theorem Ext.trans {a b c : St} (h1 : Ext a b) (h2 : Ext b c) : Ext a c := by
  obtain ⟨s1, h1⟩ := h1; obtain ⟨s2, h2⟩ := h2
  exact ⟨s1 ++ s2, by rw [h2, h1, List.append_assoc]⟩
theorem Ext.len {a b : St} (h : Ext a b) : a.terms.length ≤ b.terms.length := by
  obtain ⟨s, h⟩ := h; rw [h]; simp
theorem Ext.fail (st : St) (n : String) : Ext st (st.fail n) := ⟨[], by simp [St.fail]⟩
theorem Ext.insert (st : St) (c : CTerm) : Ext st (st.insert c).2 := ⟨[c], by simp [St.insert]⟩
theorem Ext.get {a b : St} (h : Ext a b) {i : Nat} (hi : i < a.terms.length) : b.terms[i]? = a.terms[i]? := by
  obtain ⟨s, h⟩ := h; rw [h, List.getElem?_append_left hi]

/-- filling the placeholder that was inserted at the end of `st` keeps `st` -/
theorem Ext.set_hole {st st1 : St} (c c0 : CTerm) (h : Ext (st.insert c0).2 st1) :
    Ext st (st1.set st.terms.length c) ∧ (st1.set st.terms.length c).terms[st.terms.length]? = some c := by
  obtain ⟨s, h⟩ := h
  simp only [St.insert] at h
  constructor
  · refine ⟨c :: s, ?_⟩
    simp only [St.set, h]
    rw [List.append_assoc, List.set_append_right _ _ (Nat.le_refl _)]
    simp
  · simp only [St.set, h]
    rw [List.getElem?_set_self (by simp)]

theorem St.set_terms_ne (st : St) (id i : Nat) (c : CTerm) (h : i ≠ id) : (st.set id c).terms[i]? = st.terms[i]? := by
  simp only [St.set]; rw [List.getElem?_set_ne (Ne.symm h)]

theorem St.set_terms_len (st : St) (id : Nat) (c : CTerm) : (st.set id c).terms.length = st.terms.length := by
  simp [St.set]

/-- entries of `ts` from index `k` on are final -/
def AgreeFrom (k : Nat) (ts tf : List CTerm) : Prop := ∀ i, k ≤ i → i < ts.length → tf[i]? = ts[i]?

theorem AgreeFrom.mono {k k' : Nat} {ts tf : List CTerm} (h : AgreeFrom k ts tf) (hk : k ≤ k') : AgreeFrom k' ts tf :=
  fun i hi hl => h i (Nat.le_trans hk hi) hl

/-- agreement is inherited by an earlier table that the later one extends -/
theorem AgreeFrom.of_ext {k : Nat} {a b : St} {tf : List CTerm} (h : AgreeFrom k b.terms tf) (he : Ext a b) :
    AgreeFrom k a.terms tf := by
  intro i hi hl
  rw [h i hi (Nat.lt_of_lt_of_le hl he.len), he.get hl]

/-- `c` is what `term` returns for `t` under `loc` from some table, and the final table agrees
with everything that call appended -/
def CompiledT (pe : Bool) (tabf : List CTerm) (loc : Locals) (t : Term) (c : CTerm) : Prop :=
  ∃ tr st0 tr' st1, term (cxMain pe) loc tr t st0 = (c, tr', st1) ∧ AgreeFrom st0.terms.length st1.terms tabf

/-- `id` is what `iterm` returns for `t` under `loc` -/
def CompiledI (pe : Bool) (tabf : List CTerm) (loc : Locals) (t : Term) (id : TermId) : Prop :=
  ∃ c, tabf[id]? = some c ∧ CompiledT pe tabf loc t c

/-- the definition `d`, written where the locals were `loc'`, has its body at `id` -/
def DefOK (pe : Bool) (tabf : List CTerm) (d : Def) (loc' : Locals) (id : TermId) : Prop :=
  CompiledI pe tabf (loc'.pushParent d.name (sigOf d.params) id) d.body id ∧ inFragment pe d.body = true ∧
    (∀ p ∈ d.params, p ≠ emptyName)

/-- one `iterm_tr` step seen from the final table -/
theorem compiledI_of_step {pe : Bool} {tabf : List CTerm} {loc : Locals} {tr : Tr} {t : Term} {st st1 st3 : St}
    {c : CTerm} {tr' : Tr} {k : Nat}
    (hterm : term (cxMain pe) loc tr t (st.insert .id).2 = (c, tr', st1))
    (hframe : Ext (st.insert .id).2 st1)
    (hlater : Ext (st1.set st.terms.length c) st3)
    (hk : k ≤ st.terms.length)
    (hag : AgreeFrom k st3.terms tabf) : CompiledI pe tabf loc t st.terms.length := by
  obtain ⟨hext, hget⟩ := Ext.set_hole c .id hframe
  have hlen1 : st.terms.length < st1.terms.length := by
    have := hframe.len; simp [St.insert] at this; omega
  have hlen2 : st.terms.length < (st1.set st.terms.length c).terms.length := by
    rw [St.set_terms_len]; exact hlen1
  refine ⟨c, ?_, tr, (st.insert .id).2, tr', st1, hterm, ?_⟩
  · rw [hag _ hk (Nat.lt_of_lt_of_le hlen2 hlater.len), hlater.get hlen2, hget]
  · intro i hi hl
    simp only [St.insert, List.length_append, List.length_cons, List.length_nil] at hi
    have hl2 : i < (st1.set st.terms.length c).terms.length := by rw [St.set_terms_len]; exact hl
    rw [hag i (by omega) (Nat.lt_of_lt_of_le hl2 hlater.len), hlater.get hl2, St.set_terms_ne _ _ _ _ (by omega)]

/-! ### the invariant -/

inductive Rel (pe : Bool) (tabf : List CTerm) : Env → Locals → MEnv → Prop where
  | nil : Rel pe tabf [] {} []
  | v {σ loc e x w} : Rel pe tabf σ loc e → Rel pe tabf (.var x w :: σ) (loc.pushBind (.var x)) (.val w :: e)
  | l {σ loc e x i} : Rel pe tabf σ loc e → Rel pe tabf (.label x i :: σ) (loc.pushBind (.label x)) (.lbl i :: e)
  | a {σ loc e σ' loc' e' p t id} : Rel pe tabf σ loc e → Rel pe tabf σ' loc' e' →
      (CompiledI pe tabf loc' t id ∧ inFragment pe t = true) → p ≠ emptyName →
      Rel pe tabf (.arg p t σ' :: σ) (loc.pushArg p) (.fn id e' :: e)
  | sib {σ loc e d id trb} : Rel pe tabf σ loc e → DefOK pe tabf d loc id → d.name ≠ emptyName →
      Rel pe tabf (.defn d σ :: σ) (loc.pushSibling d.name (sigOf d.params) id trb) e
  | par {σ loc e σ' loc' d id} : Rel pe tabf σ loc e → Rel pe tabf σ' loc' (e.drop (loc.total - loc'.total)) →
      loc'.total ≤ loc.total → DefOK pe tabf d loc' id → d.name ≠ emptyName →
      Rel pe tabf (.defn d σ' :: σ)
        { loc with funs := loc.funs.push (d.name, (sigOf d.params).length) (.parent (sigOf d.params) id, loc'.total) } e

/-- lookup of a `bound` key that the pushed key differs from, one binding deeper -/
theorem shift_index {β : Type} (e : List β) (b : β) (total pos : Nat) (h1 : 1 ≤ pos) (h2 : pos ≤ total) :
    (b :: e)[total + 1 - pos]? = e[total - pos]? := by
  have : total + 1 - pos = (total - pos) + 1 := by omega
  rw [this]; simp

theorem findVar_rel {tabf σ loc e} (h : Rel pe tabf σ loc e) (x : String) :
    match findVar σ x with
    | some w => ∃ pos, loc.bound.getLast (.var x) = some pos ∧ 1 ≤ pos ∧ pos ≤ loc.total ∧
        e[loc.total - pos]? = some (.val w)
    | none => loc.bound.getLast (.var x) = none := by
  induction h with
  | nil => simp [findVar, MapVec.getLast]
  | @v σ loc e y w _ ih =>
    simp only [findVar]
    by_cases hxy : x = y
    · subst hxy
      simp only [if_true]
      exact ⟨loc.total + 1, by simp [Locals.pushBind, MapVec.getLast_push_same], by omega,
        by simp [Locals.pushBind], by simp [Locals.pushBind]⟩
    · simp only [hxy, if_false]
      have hne : BindK.var y ≠ BindK.var x := by intro h; injection h with h; exact hxy h.symm
      cases hf : findVar σ x with
      | none => rw [hf] at ih; simp only at ih ⊢; simp [Locals.pushBind, MapVec.getLast_push_ne _ _ _ _ hne, ih]
      | some w' =>
        rw [hf] at ih; simp only at ih ⊢
        obtain ⟨pos, h1, h2, h3, h4⟩ := ih
        exact ⟨pos, by simp [Locals.pushBind, MapVec.getLast_push_ne _ _ _ _ hne, h1], h2,
          by simp [Locals.pushBind]; omega, by simp only [Locals.pushBind]; rw [shift_index _ _ _ _ h2 h3]; exact h4⟩
  | @l σ loc e y i _ ih =>
    simp only [findVar]
    have hne : BindK.label y ≠ BindK.var x := by intro h; cases h
    cases hf : findVar σ x with
    | none => rw [hf] at ih; simp only at ih ⊢; simp [Locals.pushBind, MapVec.getLast_push_ne _ _ _ _ hne, ih]
    | some w' =>
      rw [hf] at ih; simp only at ih ⊢
      obtain ⟨pos, h1, h2, h3, h4⟩ := ih
      exact ⟨pos, by simp [Locals.pushBind, MapVec.getLast_push_ne _ _ _ _ hne, h1], h2,
        by simp [Locals.pushBind]; omega, by simp only [Locals.pushBind]; rw [shift_index _ _ _ _ h2 h3]; exact h4⟩
  | @a σ loc e σ' loc' e' p t id _ _ _ _ ih _ =>
    simp only [findVar]
    have hne : BindK.fn p ≠ BindK.var x := by intro h; cases h
    cases hf : findVar σ x with
    | none => rw [hf] at ih; simp only at ih ⊢; simp [Locals.pushArg, Locals.pushBind, MapVec.getLast_push_ne _ _ _ _ hne, ih]
    | some w' =>
      rw [hf] at ih; simp only at ih ⊢
      obtain ⟨pos, h1, h2, h3, h4⟩ := ih
      exact ⟨pos, by simp [Locals.pushArg, Locals.pushBind, MapVec.getLast_push_ne _ _ _ _ hne, h1], h2,
        by simp [Locals.pushArg, Locals.pushBind]; omega,
        by simp only [Locals.pushArg, Locals.pushBind]; rw [shift_index _ _ _ _ h2 h3]; exact h4⟩
  | sib _ _ _ ih => simpa [findVar, Locals.pushSibling] using ih
  | par _ _ _ _ _ ih _ => simpa [findVar] using ih

theorem findLabel_rel {tabf σ loc e} (h : Rel pe tabf σ loc e) (x : String) :
    match findLabel σ x with
    | some n => ∃ pos, loc.bound.getLast (.label x) = some pos ∧ 1 ≤ pos ∧ pos ≤ loc.total ∧
        e[loc.total - pos]? = some (.lbl n)
    | none => loc.bound.getLast (.label x) = none := by
  induction h with
  | nil => simp [findLabel, MapVec.getLast]
  | @l σ loc e y w _ ih =>
    simp only [findLabel]
    by_cases hxy : x = y
    · subst hxy
      simp only [if_true]
      exact ⟨loc.total + 1, by simp [Locals.pushBind, MapVec.getLast_push_same], by omega,
        by simp [Locals.pushBind], by simp [Locals.pushBind]⟩
    · simp only [hxy, if_false]
      have hne : BindK.label y ≠ BindK.label x := by intro h; injection h with h; exact hxy h.symm
      cases hf : findLabel σ x with
      | none => rw [hf] at ih; simp only at ih ⊢; simp [Locals.pushBind, MapVec.getLast_push_ne _ _ _ _ hne, ih]
      | some w' =>
        rw [hf] at ih; simp only at ih ⊢
        obtain ⟨pos, h1, h2, h3, h4⟩ := ih
        exact ⟨pos, by simp [Locals.pushBind, MapVec.getLast_push_ne _ _ _ _ hne, h1], h2,
          by simp [Locals.pushBind]; omega, by simp only [Locals.pushBind]; rw [shift_index _ _ _ _ h2 h3]; exact h4⟩
  | @v σ loc e y i _ ih =>
    simp only [findLabel]
    have hne : BindK.var y ≠ BindK.label x := by intro h; cases h
    cases hf : findLabel σ x with
    | none => rw [hf] at ih; simp only at ih ⊢; simp [Locals.pushBind, MapVec.getLast_push_ne _ _ _ _ hne, ih]
    | some w' =>
      rw [hf] at ih; simp only at ih ⊢
      obtain ⟨pos, h1, h2, h3, h4⟩ := ih
      exact ⟨pos, by simp [Locals.pushBind, MapVec.getLast_push_ne _ _ _ _ hne, h1], h2,
        by simp [Locals.pushBind]; omega, by simp only [Locals.pushBind]; rw [shift_index _ _ _ _ h2 h3]; exact h4⟩
  | @a σ loc e σ' loc' e' p t id _ _ _ _ ih _ =>
    simp only [findLabel]
    have hne : BindK.fn p ≠ BindK.label x := by intro h; cases h
    cases hf : findLabel σ x with
    | none => rw [hf] at ih; simp only at ih ⊢; simp [Locals.pushArg, Locals.pushBind, MapVec.getLast_push_ne _ _ _ _ hne, ih]
    | some w' =>
      rw [hf] at ih; simp only at ih ⊢
      obtain ⟨pos, h1, h2, h3, h4⟩ := ih
      exact ⟨pos, by simp [Locals.pushArg, Locals.pushBind, MapVec.getLast_push_ne _ _ _ _ hne, h1], h2,
        by simp [Locals.pushArg, Locals.pushBind]; omega,
        by simp only [Locals.pushArg, Locals.pushBind]; rw [shift_index _ _ _ _ h2 h3]; exact h4⟩
  | sib _ _ _ ih => simpa [findLabel, Locals.pushSibling] using ih
  | par _ _ _ _ _ ih _ => simpa [findLabel] using ih

/-- what `Locals` knows about a callable that the scope finds by name and arity -/
def CalleeOK (pe : Bool) (tabf : List CTerm) (loc : Locals) (e : MEnv) (f : String) (n : Nat) : Callee → Prop
  | .arg t σ' => ∃ pos id loc' e', loc.funs.getLast (f, n) = some (.arg, pos) ∧ 1 ≤ pos ∧ pos ≤ loc.total ∧
      e[loc.total - pos]? = some (.fn id e') ∧ Rel pe tabf σ' loc' e' ∧ (CompiledI pe tabf loc' t id ∧ inFragment pe t = true)
  | .defn d σ' => ∃ fe vars id loc', loc.funs.getLast (f, n) = some (fe, vars) ∧
      (fe = .parent (sigOf d.params) id ∨ ∃ tr, fe = .sibling (sigOf d.params) id tr) ∧
      vars ≤ loc.total ∧ loc'.total = vars ∧ Rel pe tabf σ' loc' (e.drop (loc.total - vars)) ∧
      DefOK pe tabf d loc' id ∧ n = d.arity

def LookupOK (pe : Bool) (tabf : List CTerm) (σ : Env) (loc : Locals) (e : MEnv) (f : String) (n : Nat) : Prop :=
  match findCall σ f n with
  | some cl => CalleeOK pe tabf loc e f n cl
  | none => loc.funs.getLast (f, n) = none

/-- one more run-time binding on top, `funs` untouched -/
theorem calleeOK_shift {tabf loc e f n cl} (loc2 : Locals) (b : MB)
    (hf : loc2.funs.getLast (f, n) = loc.funs.getLast (f, n)) (ht : loc2.total = loc.total + 1)
    (h : CalleeOK pe tabf loc e f n cl) : CalleeOK pe tabf loc2 (b :: e) f n cl := by
  cases cl with
  | arg t σ' =>
    obtain ⟨pos, id, loc', e', h1, h2, h3, h4, h5, h6⟩ := h
    refine ⟨pos, id, loc', e', by rw [hf, h1], h2, by omega, ?_, h5, h6⟩
    rw [ht, shift_index _ _ _ _ h2 h3]; exact h4
  | defn d σ' =>
    obtain ⟨fe, vars, id, loc', h1, h2, h3, h4, h5, h6, h7⟩ := h
    refine ⟨fe, vars, id, loc', by rw [hf, h1], h2, by omega, h4, ?_, h6, h7⟩
    have : loc2.total - vars = (loc.total - vars) + 1 := by omega
    rw [this]; simpa using h5

/-- a `funs` entry under another key on top, bindings untouched -/
theorem calleeOK_funs {tabf loc e f n cl} (loc2 : Locals)
    (hf : loc2.funs.getLast (f, n) = loc.funs.getLast (f, n)) (ht : loc2.total = loc.total)
    (h : CalleeOK pe tabf loc e f n cl) : CalleeOK pe tabf loc2 e f n cl := by
  cases cl with
  | arg t σ' =>
    obtain ⟨pos, id, loc', e', h1, h2, h3, h4, h5, h6⟩ := h
    exact ⟨pos, id, loc', e', by rw [hf, h1], h2, by omega, by rw [ht]; exact h4, h5, h6⟩
  | defn d σ' =>
    obtain ⟨fe, vars, id, loc', h1, h2, h3, h4, h5, h6, h7⟩ := h
    exact ⟨fe, vars, id, loc', by rw [hf, h1], h2, by omega, h4, by rw [ht]; exact h5, h6, h7⟩

theorem findCall_rel {tabf σ loc e} (h : Rel pe tabf σ loc e) (f : String) (n : Nat) :
    LookupOK pe tabf σ loc e f n := by
  induction h with
  | nil => simp [LookupOK, findCall, MapVec.getLast]
  | @v σ loc e y w _ ih =>
    unfold LookupOK at *
    simp only [findCall]
    cases hf : findCall σ f n with
    | none => rw [hf] at ih; simpa [Locals.pushBind] using ih
    | some cl => rw [hf] at ih; exact calleeOK_shift _ _ (by simp [Locals.pushBind]) (by simp [Locals.pushBind]) ih
  | @l σ loc e y w _ ih =>
    unfold LookupOK at *
    simp only [findCall]
    cases hf : findCall σ f n with
    | none => rw [hf] at ih; simpa [Locals.pushBind] using ih
    | some cl => rw [hf] at ih; exact calleeOK_shift _ _ (by simp [Locals.pushBind]) (by simp [Locals.pushBind]) ih
  | @a σ loc e σ' loc' e' p t id hσ hσ' hc hpn ih _ =>
    unfold LookupOK at *
    simp only [findCall]
    by_cases hp : p = f ∧ n = 0
    · simp only [hp, and_self, if_true]
      obtain ⟨rfl, rfl⟩ := hp
      exact ⟨loc.total + 1, id, loc', e', by simp [Locals.pushArg, Locals.pushBind, MapVec.getLast_push_same],
        by omega, by simp [Locals.pushArg, Locals.pushBind], by simp [Locals.pushArg, Locals.pushBind], hσ', hc⟩
    · simp only [hp, if_false]
      have hne : (p, 0) ≠ (f, n) := by
        intro h; injection h with h1 h2; exact hp ⟨h1, h2.symm⟩
      have hfuns : (loc.pushArg p).funs.getLast (f, n) = loc.funs.getLast (f, n) := by
        simp [Locals.pushArg, Locals.pushBind, MapVec.getLast_push_ne _ _ _ _ hne]
      cases hf : findCall σ f n with
      | none => rw [hf] at ih; simp only at ih ⊢; rw [hfuns]; exact ih
      | some cl =>
        rw [hf] at ih
        exact calleeOK_shift _ _ hfuns (by simp [Locals.pushArg, Locals.pushBind]) ih
  | @sib σ loc e d id trb hσ hd hdn ih =>
    unfold LookupOK at *
    simp only [findCall]
    by_cases hp : d.name = f ∧ n = d.arity
    · simp only [hp, and_self, if_true]
      obtain ⟨rfl, rfl⟩ := hp
      refine ⟨.sibling (sigOf d.params) id trb, loc.total, id, loc, ?_, Or.inr ⟨trb, rfl⟩, by simp [Locals.pushSibling],
        rfl, by simpa [Locals.pushSibling] using hσ, hd, rfl⟩
      simp [Locals.pushSibling, sigOf_length, Def.arity, MapVec.getLast_push_same]
    · simp only [hp, if_false]
      have hne : (d.name, (sigOf d.params).length) ≠ (f, n) := by
        intro h; injection h with h1 h2; rw [sigOf_length] at h2; exact hp ⟨h1, h2.symm⟩
      have hfuns : (loc.pushSibling d.name (sigOf d.params) id trb).funs.getLast (f, n) = loc.funs.getLast (f, n) := by
        simp [Locals.pushSibling, MapVec.getLast_push_ne _ _ _ _ hne]
      cases hf : findCall σ f n with
      | none => rw [hf] at ih; simp only at ih ⊢; rw [hfuns]; exact ih
      | some cl => rw [hf] at ih; exact calleeOK_funs _ hfuns (by simp [Locals.pushSibling]) ih
  | @par σ loc e σ' loc' d id hσ hσ' hle hd hdn ih _ =>
    unfold LookupOK at *
    simp only [findCall]
    by_cases hp : d.name = f ∧ n = d.arity
    · simp only [hp, and_self, if_true]
      obtain ⟨rfl, rfl⟩ := hp
      refine ⟨.parent (sigOf d.params) id, loc'.total, id, loc', ?_, Or.inl rfl, hle, rfl, hσ', hd, rfl⟩
      simp [sigOf_length, Def.arity, MapVec.getLast_push_same]
    · simp only [hp, if_false]
      have hne : (d.name, (sigOf d.params).length) ≠ (f, n) := by
        intro h; injection h with h1 h2; rw [sigOf_length] at h2; exact hp ⟨h1, h2.symm⟩
      cases hf : findCall σ f n with
      | none => rw [hf] at ih; simp only at ih ⊢; rw [MapVec.getLast_push_ne _ _ _ _ hne]; exact ih
      | some cl =>
        rw [hf] at ih
        exact calleeOK_funs (loc := loc) _ (by simp [MapVec.getLast_push_ne _ _ _ _ hne]) rfl ih

/-- no scope that arises binds the name `!empty` -/
theorem findCall_empty_none {pe tabf σ loc e} (h : Rel pe tabf σ loc e) (n : Nat) : findCall σ emptyName n = none := by
  induction h with
  | nil => rfl
  | v _ ih => simpa [findCall] using ih
  | l _ ih => simpa [findCall] using ih
  | a _ _ _ hp ih _ => simp only [findCall]; rw [if_neg (fun h => hp h.1)]; exact ih
  | sib _ _ hd ih => simp only [findCall]; rw [if_neg (fun h => hd h.1)]; exact ih
  | par _ _ _ _ hd ih _ => simp only [findCall]; rw [if_neg (fun h => hd h.1)]; exact ih

end Jaq.Core
