/- `Id::paths` and `Id::run` stay in step on the class of path expressions (all fuels). -/
import JaqVerif.Lemmas.C02Out

namespace Jaq.C02

theorem zipIdx_map_fst {α : Type} (l : List α) (n : Nat) : (l.zipIdx n).map Prod.fst = l := by
  induction l generalizing n with
  | nil => rfl
  | cons x xs ih => simp [List.zipIdx_cons, ih]

/-- `values` is `key_values` without the keys (same error otherwise) -/
theorem keyValues_values (v : Val) : (keyValues v).map (fun kvs => kvs.map Prod.snd) = values v := by
  cases v <;> simp [keyValues, values, Except.map]
  rename_i a
  have : (Prod.snd ∘ fun x : Val × Nat => (Val.num (Num.int ↑x.snd), x.fst)) = Prod.fst := rfl
  rw [this, zipIdx_map_fst]

theorem partPaths_fst (cp : CPart) (vp : Val × VPath) :
    (partPaths cp vp).map Prod.fst = partRun cp vp.1 := by
  cases cp with
  | index i =>
    simp only [partPaths, partRun, Out.map_ofValR]
    cases indexV vp.1 i <;> rfl
  | range frm upto =>
    cases frm <;> cases upto
    · simp only [partPaths, partRun]
      rw [← keyValues_values]
      cases keyValues vp.1 with
      | error e => rfl
      | ok kvs =>
        simp only [Except.map, outOfListR, Out.map_ofList, List.map_map]
        congr 1
    all_goals
      simp only [partPaths, partRun, Out.map_ofValR]
      cases rangeV vp.1 _ _ <;> rfl

theorem cpathPaths_fst (cp : CPath) (vp : Val × VPath) :
    (cpathPaths cp vp).map Prod.fst = cpathRun cp vp.1 := by
  induction cp generalizing vp with
  | nil => rfl
  | cons x rest ih =>
    obtain ⟨p, opt⟩ := x
    simp only [cpathPaths, cpathRun, Out.map_bind, ih]
    rw [← partPaths_fst, ← Out.map_dropErr, Out.bind_map]

theorem keyValues_getD_snd (v : Val) :
    ((keyValues v).toOption.getD []).map Prod.snd = (values v).toOption.getD [] := by
  rw [← keyValues_values]
  cases keyValues v <;> rfl

theorem recPathsF_fst (n : Nat) (vp : Val × VPath) :
    (recPathsF n vp).map Prod.fst = recRunF n vp.1 := by
  induction n generalizing vp with
  | zero => rfl
  | succ n ih =>
    simp only [recPathsF, recRunF, List.map_cons, List.map_flatMap]
    congr 1
    rw [← keyValues_getD_snd, List.flatMap_map]
    congr 1
    funext kv
    exact ih _

theorem getFix_class {env : Env} {r : String} {body : PE} {fenv : Env}
    (henv : EnvClass env) (h : env.getFix r = some (body, fenv)) :
    PathClass body = true ∧ EnvClass fenv := by
  induction env with
  | nil => simp [Env.getFix] at h
  | var x v rest ih => exact ih henv h
  | fix r' b rest ih =>
    simp only [Env.getFix] at h
    split at h
    · simp only [Option.some.injEq, Prod.mk.injEq] at h
      obtain ⟨rfl, rfl⟩ := h
      exact ⟨henv.1, henv⟩
    · exact ih henv.2 h

/-- the two evaluators agree on path expressions -/
def Agree (E : Evals) : Prop :=
  ∀ p env vp, PathClass p = true → EnvClass env →
    (E.paths p env vp).map Prod.fst = E.run p env vp.1

theorem foldRun_fst (k : FoldKind) (xs : Out Val) (init : Out (Val × VPath)) (init' : Out Val)
    (upd proj : Val → Val × VPath → Out (Val × VPath)) (upd' proj' : Val → Val → Out Val)
    (hi : init.map Prod.fst = init')
    (hu : ∀ x a, (upd x a).map Prod.fst = upd' x a.1)
    (hp : ∀ x a, (proj x a).map Prod.fst = proj' x a.1) :
    (foldRun k xs init upd proj).map Prod.fst = foldRun k xs init' upd' proj' := by
  unfold foldRun
  rw [Out.map_bind, ← hi, Out.bind_map]
  apply Out.bind_congr
  intro i _
  cases k <;> simp only [foldOut]
  · exact foldL_map Prod.fst Prod.fst _ _ _ _ _ _ hu (fun _ _ => rfl) (fun _ => rfl) _ _ _
  · exact foldL_map Prod.fst Prod.fst _ _ _ _ _ _ hu (fun _ _ => rfl) (fun _ => rfl) _ _ _
  · exact foldL_map Prod.fst Prod.fst _ _ _ _ _ _ hu hp (fun _ => rfl) _ _ _

theorem agree_step (E : Evals) (h : Agree E) : Agree (step E) := by
  intro p env vp hp henv
  cases p <;> simp only [PathClass, Bool.and_eq_true, Bool.false_eq_true] at hp
  all_goals simp only [step, stepPaths, stepRun]
  case id => rfl
  case recurse => simp only [Out.map_ofList, recPaths, recRun, recPathsF_fst]
  case path f ps =>
    simp only [Out.map_bind, cpathPaths_fst]
    rw [← h f env vp hp.1 henv, Out.bind_map]
  case pipe f g =>
    simp only [Out.map_bind]
    rw [← h f env vp hp.1 henv, Out.bind_map]
    apply Out.bind_congr
    intro y _
    exact h g env y hp.2 henv
  case comma f g =>
    rw [Out.map_append, h f env vp hp.1 henv, h g env vp hp.2 henv]
  case bind f x g =>
    rw [Out.map_bind]
    apply Out.bind_congr
    intro y _
    exact h g (env.var x y) vp hp henv
  case ite c t e =>
    rw [Out.map_bind]
    apply Out.bind_congr
    intro b _
    cases asBool b
    · exact h e env vp hp.2 henv
    · exact h t env vp hp.1 henv
  case fold k xs x init upd proj =>
    exact foldRun_fst k _ _ _ _ _ _ _ (h init env vp hp.1.1 henv)
      (fun xv a => h upd (env.var x xv) a hp.1.2 henv) (fun xv a => h proj (env.var x xv) a hp.2 henv)
  case first f => rw [Out.map_first, h f env vp hp henv]
  case last f => rw [Out.map_last, h f env vp hp henv]
  case limit n f =>
    rw [Out.map_bind]
    apply Out.bind_congr
    intro nv _
    rw [limitOut_map, h f env vp hp henv]
  case skip n f =>
    rw [Out.map_bind]
    apply Out.bind_congr
    intro nv _
    rw [skipOut_map, h f env vp hp henv]
  case tryE f => rw [Out.map_dropErr, h f env vp hp henv]
  case fix r body => exact h body (env.fix r body) vp hp ⟨hp, henv⟩
  case rcall r =>
    cases hg : env.getFix r with
    | none => rfl
    | some bf =>
      obtain ⟨body, fenv⟩ := bf
      obtain ⟨hb, hf⟩ := getFix_class henv hg
      exact h body fenv vp hb hf

theorem agree_ev (n : Nat) : Agree (ev n) := by
  induction n with
  | zero => intro p env vp _ _; rfl
  | succ n ih => exact agree_step (ev n) ih

end Jaq.C02
